(* SbStrip.v — C12, part 4: the scrollback offset is purely a view.
   [sg] resets [sb_off] of a grid to 0; every state-changing operation of Grid.v / Screen.v /
   Perform.v / Parser.v commutes with it, panics included, WITHOUT any invariant on the grid. *)
Require Import Tac ListN Width Attrs Cell Row Grid Screen Vte Perform Parser.
Open Scope N_scope.

Definition mapr {A B} (f : A -> B) (r : res A) : res B :=
  match r with Ok a => Ok (f a) | Panic k => Panic k end.

(* reset the offset, keep everything else *)
Definition sg (x : grid) : grid := with_sb x (sb x) 0.
Definition sg1 {B} (p : grid * B) : grid * B := (sg (fst p), snd p).

Lemma sg_idem x : sg (sg x) = sg x.
Proof. reflexivity. Qed.

Lemma mapr_bind {A B C} (h : B -> C) (r : res A) (k : A -> res B) :
  mapr h (bind r k) = bind r (fun a => mapr h (k a)).
Proof. destruct r; reflexivity. Qed.

(* ---- projections and field updates ---- *)
Lemma sg_grows x : grows (sg x) = grows x. Proof. reflexivity. Qed.
Lemma sg_gcols x : gcols (sg x) = gcols x. Proof. reflexivity. Qed.
Lemma sg_prow x : prow (sg x) = prow x. Proof. reflexivity. Qed.
Lemma sg_pcol x : pcol (sg x) = pcol x. Proof. reflexivity. Qed.
Lemma sg_sprow x : sprow (sg x) = sprow x. Proof. reflexivity. Qed.
Lemma sg_spcol x : spcol (sg x) = spcol x. Proof. reflexivity. Qed.
Lemma sg_live x : live (sg x) = live x. Proof. reflexivity. Qed.
Lemma sg_top x : top (sg x) = top x. Proof. reflexivity. Qed.
Lemma sg_bot x : bot (sg x) = bot x. Proof. reflexivity. Qed.
Lemma sg_origin x : origin (sg x) = origin x. Proof. reflexivity. Qed.
Lemma sg_sorigin x : sorigin (sg x) = sorigin x. Proof. reflexivity. Qed.
Lemma sg_sb x : sb (sg x) = sb x. Proof. reflexivity. Qed.
Lemma sg_sb_cap x : sb_cap (sg x) = sb_cap x. Proof. reflexivity. Qed.
Lemma sg_sb_off x : sb_off (sg x) = 0. Proof. reflexivity. Qed.

Lemma sg_with_pos x r c : with_pos (sg x) r c = sg (with_pos x r c). Proof. reflexivity. Qed.
Lemma sg_with_prow x r : with_prow (sg x) r = sg (with_prow x r). Proof. reflexivity. Qed.
Lemma sg_with_pcol x c : with_pcol (sg x) c = sg (with_pcol x c). Proof. reflexivity. Qed.
Lemma sg_with_live x l : with_live (sg x) l = sg (with_live x l). Proof. reflexivity. Qed.
Lemma sg_with_region x t b : with_region (sg x) t b = sg (with_region x t b). Proof. reflexivity. Qed.
Lemma sg_with_origin x o : with_origin (sg x) o = sg (with_origin x o). Proof. reflexivity. Qed.
Lemma sg_with_saved x r c o : with_saved (sg x) r c o = sg (with_saved x r c o). Proof. reflexivity. Qed.
Lemma sg_with_size x r c : with_size (sg x) r c = sg (with_size x r c). Proof. reflexivity. Qed.
Lemma sg_new_row x : new_row (sg x) = new_row x. Proof. reflexivity. Qed.
Lemma sg_drawing_row x r : drawing_row (sg x) r = drawing_row x r. Proof. reflexivity. Qed.
Lemma sg_drawing_cell x r c : drawing_cell (sg x) r c = drawing_cell x r c. Proof. reflexivity. Qed.
Lemma sg_in_scroll_region x : in_scroll_region (sg x) = in_scroll_region x. Proof. reflexivity. Qed.
Lemma sg_scroll_region_active x : scroll_region_active (sg x) = scroll_region_active x. Proof. reflexivity. Qed.

Global Hint Rewrite sg_grows sg_gcols sg_prow sg_pcol sg_sprow sg_spcol sg_live sg_top sg_bot sg_origin
  sg_sorigin sg_sb sg_sb_cap sg_sb_off
  sg_with_pos sg_with_prow sg_with_pcol sg_with_live sg_with_region sg_with_origin sg_with_saved sg_with_size
  sg_new_row sg_drawing_row sg_drawing_cell sg_in_scroll_region sg_scroll_region_active : sg.

(* one step of a commutation proof: normalise with the rewrite base, then split on the head of
   the right-hand side (which the left-hand side shares) *)
Ltac sgstep :=
  autorewrite with sg; cbn [bind mapr sg1 fst snd];
  first
  [ reflexivity
  | match goal with
    | |- _ = mapr _ (bind ?r _) => let v := fresh "v" in destruct r as [v|]; cbn [bind mapr]
    | |- _ = mapr _ (if ?b then _ else _) => destruct b
    | |- _ = mapr _ (let '(_, _) := ?p in _) => let v := fresh "v" in let w := fresh "w" in destruct p as [v w]
    | |- _ = mapr _ (match ?o with Some _ => _ | None => _ end) => let v := fresh "v" in destruct o as [v|]
    end ].
Ltac sgauto := repeat sgstep.

(* ---- Grid.v ---- *)
Lemma sg_allocate_rows x : allocate_rows (sg x) = sg (allocate_rows x).
Proof. unfold allocate_rows. autorewrite with sg. destruct (live x); reflexivity. Qed.

Lemma sg_grid_clear x : grid_clear (sg x) = mapr sg (grid_clear x).
Proof. unfold grid_clear. sgauto. Qed.

Lemma sg_upd_row x r f : upd_row (sg x) r f = mapr sg (upd_row x r f).
Proof. unfold upd_row. sgauto. Qed.

Lemma sg_upd_cell x r c f : upd_cell (sg x) r c f = mapr sg (upd_cell x r c f).
Proof. unfold upd_cell. sgauto. Qed.

Lemma sg_upd_current_row x f : upd_current_row (sg x) f = mapr sg (upd_current_row x f).
Proof. unfold upd_current_row. autorewrite with sg. apply sg_upd_row. Qed.

Global Hint Rewrite sg_allocate_rows sg_grid_clear sg_upd_row sg_upd_cell sg_upd_current_row : sg.

(* the only writer apart from scroll_up: the result does not survive stripping *)
Lemma sg_grid_set_scrollback x k : sg (grid_set_scrollback x k) = sg x.
Proof. reflexivity. Qed.
Lemma grid_set_scrollback_sg x k : grid_set_scrollback (sg x) k = with_sb (sg x) (sb x) (N.min k (len (sb x))).
Proof. reflexivity. Qed.

Lemma sg_row_clamp_top x lim : row_clamp_top (sg x) lim = sg1 (row_clamp_top x lim).
Proof. unfold row_clamp_top. autorewrite with sg. destruct (lim && (prow x <? top x)); reflexivity. Qed.

Lemma sg_row_clamp_bottom x lim : row_clamp_bottom (sg x) lim = mapr sg1 (row_clamp_bottom x lim).
Proof.
  unfold row_clamp_bottom. autorewrite with sg.
  destruct (if lim then Ok (bot x) else sub16 (grows x) 1) as [b|]; cbn [bind mapr]; [|reflexivity].
  destruct (b <? prow x); reflexivity.
Qed.

Lemma sg_row_clamp x : row_clamp (sg x) = mapr sg (row_clamp x).
Proof. unfold row_clamp. sgauto. destruct (v <? prow x); reflexivity. Qed.

Lemma sg_col_clamp x : col_clamp (sg x) = mapr sg (col_clamp x).
Proof. unfold col_clamp. sgauto. destruct (v <? pcol x); reflexivity. Qed.

Global Hint Rewrite sg_row_clamp_top sg_row_clamp_bottom sg_row_clamp sg_col_clamp : sg.

Lemma sg_grid_set_size x rows cols : grid_set_size (sg x) rows cols = mapr sg (grid_set_size x rows cols).
Proof.
  unfold grid_set_size. autorewrite with sg.
  destruct (sub16 (grows x) 1) as [oldm|]; cbn [bind mapr]; [|reflexivity].
  destruct (sub16 rows 1) as [newm|]; cbn [bind mapr]; [|reflexivity].
  destruct (sub16 cols 1) as [newc|]; cbn [bind mapr]; [|reflexivity].
  cbv zeta.
  match goal with |- context[row_clamp_top (mkGrid ?a ?b ?c ?d ?e ?f ?l ?t ?bb ?o ?so ?s ?cap 0) false] =>
    change (mkGrid a b c d e f l t bb o so s cap 0) with (sg (mkGrid a b c d e f l t bb o so s cap (sb_off x)));
    set (g1 := mkGrid a b c d e f l t bb o so s cap (sb_off x)) end.
  autorewrite with sg.
  destruct (row_clamp_top g1 false) as [g2 n2]. cbn [sg1 fst snd].
  autorewrite with sg.
  destruct (row_clamp_bottom g2 false) as [[g3 n3]|]; cbn [bind mapr sg1 fst snd]; [|reflexivity].
  autorewrite with sg.
  destruct (col_clamp g3) as [g4|]; cbn [bind mapr]; reflexivity.
Qed.

Lemma sg_grid_set_pos x r c : grid_set_pos (sg x) r c = mapr sg (grid_set_pos x r c).
Proof.
  unfold grid_set_pos. autorewrite with sg.
  destruct (row_clamp_top _ _) as [g2 n2]. cbn [sg1 fst snd]. autorewrite with sg.
  destruct (row_clamp_bottom g2 _) as [[g3 n3]|]; cbn [bind mapr sg1 fst snd]; [|reflexivity].
  autorewrite with sg. reflexivity.
Qed.

Lemma sg_save_cursor x : save_cursor (sg x) = sg (save_cursor x). Proof. reflexivity. Qed.
Lemma sg_restore_cursor x : restore_cursor (sg x) = sg (restore_cursor x). Proof. reflexivity. Qed.
Lemma sg_erase_all x a : erase_all (sg x) a = sg (erase_all x a). Proof. reflexivity. Qed.

Global Hint Rewrite sg_grid_set_size sg_grid_set_pos sg_save_cursor sg_restore_cursor sg_erase_all : sg.

Lemma sg_erase_row_forward x a : erase_row_forward (sg x) a = mapr sg (erase_row_forward x a).
Proof. unfold erase_row_forward. sgauto. Qed.
Lemma sg_erase_row_backward x a : erase_row_backward (sg x) a = mapr sg (erase_row_backward x a).
Proof. unfold erase_row_backward. sgauto. Qed.
Global Hint Rewrite sg_erase_row_forward sg_erase_row_backward : sg.
Lemma sg_erase_all_forward x a : erase_all_forward (sg x) a = mapr sg (erase_all_forward x a).
Proof. unfold erase_all_forward. sgauto. Qed.
Lemma sg_erase_all_backward x a : erase_all_backward (sg x) a = mapr sg (erase_all_backward x a).
Proof. unfold erase_all_backward. sgauto. Qed.
Lemma sg_erase_row x a : erase_row (sg x) a = mapr sg (erase_row x a).
Proof. unfold erase_row. sgauto. Qed.
Lemma sg_erase_cells x n a : erase_cells (sg x) n a = mapr sg (erase_cells x n a).
Proof. unfold erase_cells. sgauto. Qed.
Lemma sg_insert_cells x n : insert_cells (sg x) n = mapr sg (insert_cells x n).
Proof. unfold insert_cells. sgauto. Qed.
Lemma sg_delete_cells x n : delete_cells (sg x) n = mapr sg (delete_cells x n).
Proof. unfold delete_cells. sgauto. Qed.
Lemma sg_insert_lines x n : insert_lines (sg x) n = mapr sg (insert_lines x n).
Proof. unfold insert_lines. sgauto. Qed.
Lemma sg_delete_lines x n : delete_lines (sg x) n = mapr sg (delete_lines x n).
Proof. unfold delete_lines. sgauto. Qed.
Lemma sg_scroll_down x n : scroll_down (sg x) n = mapr sg (scroll_down x n).
Proof. unfold scroll_down. sgauto. Qed.
Global Hint Rewrite sg_erase_all_forward sg_erase_all_backward sg_erase_row sg_erase_cells sg_insert_cells
  sg_delete_cells sg_insert_lines sg_delete_lines sg_scroll_down : sg.

Lemma iter_res_sg (f : grid -> res grid) n x :
  (forall y, f (sg y) = mapr sg (f y)) -> iter_res n f (sg x) = mapr sg (iter_res n f x).
Proof.
  intros Hf. revert x. induction n as [|n IH]; intros x; cbn [iter_res]; [reflexivity|].
  rewrite Hf. destruct (f x) as [y|]; cbn [bind mapr]; [apply IH|reflexivity].
Qed.

(* scroll_up both reads and writes the offset: 0 stays 0 *)
Lemma sg_scroll_up x n : scroll_up (sg x) n = mapr sg (scroll_up x n).
Proof.
  unfold scroll_up. autorewrite with sg.
  destruct (sub16 (grows x) (top x)) as [room|]; cbn [bind mapr]; [|reflexivity].
  destruct (scroll_region_active x) as [active|]; cbn [bind mapr]; [|reflexivity].
  apply iter_res_sg. intros y. autorewrite with sg.
  destruct (insert_at (live y) (bot y + 1) (new_row y)) as [l1|]; cbn [bind mapr]; [|reflexivity].
  destruct (remove_at l1 (top y)) as [[removed l2]|]; cbn [bind mapr]; [|reflexivity].
  autorewrite with sg.
  destruct ((0 <? sb_cap (with_live y l2)) && negb active); [|reflexivity].
  cbn [mapr]. gsimp. reflexivity.
Qed.

Lemma sg_set_scroll_region x t b : set_scroll_region (sg x) t b = mapr sg (set_scroll_region x t b).
Proof. unfold set_scroll_region. sgauto. destruct (t <? N.min b v); reflexivity. Qed.

Lemma sg_set_origin_mode x m : set_origin_mode (sg x) m = mapr sg (set_origin_mode x m).
Proof. unfold set_origin_mode. sgauto. Qed.

Global Hint Rewrite sg_scroll_up sg_set_scroll_region sg_set_origin_mode : sg.

Lemma sg_row_inc_clamp x n : row_inc_clamp (sg x) n = mapr sg (row_inc_clamp x n).
Proof.
  unfold row_inc_clamp. autorewrite with sg.
  destruct (row_clamp_bottom _ _) as [[g1 k]|]; reflexivity.
Qed.

Lemma sg_row_inc_scroll x n : row_inc_scroll (sg x) n = mapr sg1 (row_inc_scroll x n).
Proof.
  unfold row_inc_scroll. autorewrite with sg.
  destruct (row_clamp_bottom _ _) as [[g1 k]|]; cbn [bind mapr sg1 fst snd]; [|reflexivity].
  destruct (in_scroll_region x); [|reflexivity].
  autorewrite with sg. destruct (scroll_up g1 k) as [g2|]; reflexivity.
Qed.

Lemma sg_row_dec_clamp x n : row_dec_clamp (sg x) n = sg (row_dec_clamp x n).
Proof. unfold row_dec_clamp. autorewrite with sg. destruct (row_clamp_top _ _); reflexivity. Qed.

Lemma sg_row_dec_scroll x n : row_dec_scroll (sg x) n = mapr sg (row_dec_scroll x n).
Proof.
  unfold row_dec_scroll. autorewrite with sg.
  destruct (row_clamp_top _ _) as [g1 lines]. cbn [sg1 fst snd].
  destruct (add16 lines _) as [k|]; cbn [bind mapr]; [|reflexivity].
  autorewrite with sg. reflexivity.
Qed.

Lemma sg_row_set x i : row_set (sg x) i = mapr sg (row_set x i).
Proof. unfold row_set. sgauto. Qed.
Lemma sg_col_inc x n : col_inc (sg x) n = sg (col_inc x n). Proof. reflexivity. Qed.
Lemma sg_col_dec x n : col_dec (sg x) n = sg (col_dec x n). Proof. reflexivity. Qed.
Global Hint Rewrite sg_row_inc_clamp sg_row_inc_scroll sg_row_dec_clamp sg_row_dec_scroll sg_row_set sg_col_inc sg_col_dec : sg.
Lemma sg_col_inc_clamp x n : col_inc_clamp (sg x) n = mapr sg (col_inc_clamp x n).
Proof. unfold col_inc_clamp. sgauto. Qed.
Lemma sg_col_tab x : col_tab (sg x) = mapr sg (col_tab x).
Proof. unfold col_tab. sgauto. Qed.
Lemma sg_col_set x i : col_set (sg x) i = mapr sg (col_set x i).
Proof. unfold col_set. sgauto. Qed.
Global Hint Rewrite sg_col_inc_clamp sg_col_tab sg_col_set : sg.

Lemma sg_col_wrap x w wr : col_wrap (sg x) w wr = mapr sg (col_wrap x w wr).
Proof.
  unfold col_wrap. autorewrite with sg.
  destruct (sub16 (gcols x) w) as [lim|]; cbn [bind mapr]; [|reflexivity].
  destruct (lim <? pcol x); [|reflexivity].
  destruct (row_inc_scroll (with_pcol x 0) 1) as [[g1 scrolled]|]; cbn [bind mapr sg1 fst snd]; [|reflexivity].
  destruct (scrolled <=? prow x); [|reflexivity].
  destruct (add16 (prow x - scrolled) 1) as [pr1|]; cbn [bind mapr]; [|reflexivity].
  autorewrite with sg. reflexivity.
Qed.
Global Hint Rewrite sg_col_wrap : sg.

(* ---- Screen.v: text ---- *)
Lemma sg_append_at x r c ch : append_at (sg x) r c ch = mapr sg (append_at x r c ch).
Proof. unfold append_at. sgauto. Qed.
Global Hint Rewrite sg_append_at : sg.
Lemma sg_text_zero x ch : text_zero (sg x) ch = mapr sg (text_zero x ch).
Proof. unfold text_zero. sgauto. Qed.

(* structural steps for longer chains *)
Lemma bind_sg_same {A} (r : res A) (k k' : A -> res grid) :
  (forall a, k' a = mapr sg (k a)) -> bind r k' = mapr sg (bind r k).
Proof. intros H. destruct r as [a|]; cbn [bind mapr]; [apply H|reflexivity]. Qed.
Lemma bind_sg_grid (r r' : res grid) (k k' : grid -> res grid) :
  r' = mapr sg r -> (forall y, k' (sg y) = mapr sg (k y)) -> bind r' k' = mapr sg (bind r k).
Proof. intros -> H. destruct r as [a|]; cbn [bind mapr]; [apply H|reflexivity]. Qed.
Lemma if_sg (b : bool) (r1 r2 r1' r2' : res grid) :
  r1' = mapr sg r1 -> r2' = mapr sg r2 -> (if b then r1' else r2') = mapr sg (if b then r1 else r2).
Proof. intros -> ->. destruct b; reflexivity. Qed.

Ltac sgchain :=
  autorewrite with sg; cbv beta;
  first
  [ reflexivity
  | apply if_sg
  | apply bind_sg_same; intro
  | apply bind_sg_grid; [|intro] ].

Lemma sg_text_place x ch w a : text_place (sg x) ch w a = mapr sg (text_place x ch w a).
Proof. unfold text_place. cbv zeta. repeat sgchain. Qed.
Global Hint Rewrite sg_text_zero sg_text_place : sg.

Lemma sg_grid_text x ch a : grid_text (sg x) ch a = mapr sg (grid_text x ch a).
Proof.
  unfold grid_text. cbv zeta.
  destruct (wd ch) as [n|]; [|destruct (ch <? 256); [reflexivity|]]; repeat sgchain.
Qed.
Global Hint Rewrite sg_grid_text : sg.

(* ---- Screen.v ---- *)
Definition ss (s : screen) : screen :=
  mkScreen (sg (g s)) (sg (alt s)) (pen s) (spen s) (keypad s) (appcur s) (hide s) (altmode s) (paste s)
           (mmode s) (menc s).
Definition ss1 {B} (p : screen * B) : screen * B := (ss (fst p), snd p).

Lemma ss_idem s : ss (ss s) = ss s. Proof. reflexivity. Qed.
Lemma ss_g s : g (ss s) = sg (g s). Proof. reflexivity. Qed.
Lemma ss_alt s : alt (ss s) = sg (alt s). Proof. reflexivity. Qed.
Lemma ss_pen s : pen (ss s) = pen s. Proof. reflexivity. Qed.
Lemma ss_spen s : spen (ss s) = spen s. Proof. reflexivity. Qed.
Lemma ss_altmode s : altmode (ss s) = altmode s. Proof. reflexivity. Qed.
Lemma ss_mmode s : mmode (ss s) = mmode s. Proof. reflexivity. Qed.
Lemma ss_menc s : menc (ss s) = menc s. Proof. reflexivity. Qed.
Lemma ss_cur s : cur (ss s) = sg (cur s).
Proof. unfold cur. cbn [ss altmode g alt]. destruct (altmode s); reflexivity. Qed.
Lemma ss_with_cur s x : with_cur (ss s) (sg x) = ss (with_cur s x).
Proof. unfold with_cur. cbn [ss altmode]. destruct (altmode s); reflexivity. Qed.
Lemma ss_with_g s x : with_g (ss s) (sg x) = ss (with_g s x). Proof. reflexivity. Qed.
Lemma ss_with_alt s x : with_alt (ss s) (sg x) = ss (with_alt s x). Proof. reflexivity. Qed.
Lemma ss_with_pen s a : with_pen (ss s) a = ss (with_pen s a). Proof. reflexivity. Qed.
Lemma ss_with_spen s a : with_spen (ss s) a = ss (with_spen s a). Proof. reflexivity. Qed.
Lemma ss_with_keypad s b : with_keypad (ss s) b = ss (with_keypad s b). Proof. reflexivity. Qed.
Lemma ss_with_appcur s b : with_appcur (ss s) b = ss (with_appcur s b). Proof. reflexivity. Qed.
Lemma ss_with_hide s b : with_hide (ss s) b = ss (with_hide s b). Proof. reflexivity. Qed.
Lemma ss_with_altmode s b : with_altmode (ss s) b = ss (with_altmode s b). Proof. reflexivity. Qed.
Lemma ss_with_paste s b : with_paste (ss s) b = ss (with_paste s b). Proof. reflexivity. Qed.
Lemma ss_with_mmode s m : with_mmode (ss s) m = ss (with_mmode s m). Proof. reflexivity. Qed.
Lemma ss_with_menc s m : with_menc (ss s) m = ss (with_menc s m). Proof. reflexivity. Qed.

Global Hint Rewrite ss_g ss_alt ss_pen ss_spen ss_altmode ss_mmode ss_menc ss_cur ss_with_cur ss_with_g ss_with_alt
  ss_with_pen ss_with_spen ss_with_keypad ss_with_appcur ss_with_hide ss_with_altmode ss_with_paste
  ss_with_mmode ss_with_menc : sg.

Lemma ss_on_cur s (f f' : grid -> res grid) :
  (forall y, f' (sg y) = mapr sg (f y)) -> on_cur (ss s) f' = mapr ss (on_cur s f).
Proof.
  intros H. unfold on_cur. rewrite ss_cur, H.
  destruct (f (cur s)) as [y|]; cbn [bind mapr]; [|reflexivity]. now rewrite ss_with_cur.
Qed.

Lemma ss_screen_set_size s r c : screen_set_size (ss s) r c = mapr ss (screen_set_size s r c).
Proof.
  unfold screen_set_size. autorewrite with sg.
  destruct (grid_set_size (g s) r c) as [g1|]; cbn [bind mapr]; [|reflexivity].
  destruct (grid_set_size (alt s) r c) as [a1|]; cbn [bind mapr]; reflexivity.
Qed.

(* set_scrollback is invisible after stripping *)
Lemma ss_screen_set_scrollback s k : ss (screen_set_scrollback s k) = ss s.
Proof. unfold screen_set_scrollback, with_cur, cur. destruct (altmode s); reflexivity. Qed.

Lemma grid_set_scrollback_0 x : grid_set_scrollback x 0 = sg x.
Proof. unfold grid_set_scrollback. now rewrite N.min_0_l. Qed.

Lemma ss_enter_alternate_grid s : enter_alternate_grid (ss s) = ss (enter_alternate_grid s).
Proof.
  unfold enter_alternate_grid. cbv zeta. unfold with_cur, cur. cbn [ss altmode g alt].
  rewrite !grid_set_scrollback_0.
  destruct (altmode s); cbn [with_alt with_g with_altmode ss g alt pen spen keypad appcur hide altmode paste mmode menc];
    rewrite !sg_allocate_rows; reflexivity.
Qed.

Lemma ss_exit_alternate_grid s : exit_alternate_grid (ss s) = ss (exit_alternate_grid s).
Proof. reflexivity. Qed.
Lemma ss_scr_save_cursor s : scr_save_cursor (ss s) = ss (scr_save_cursor s).
Proof. unfold scr_save_cursor. autorewrite with sg. reflexivity. Qed.
Lemma ss_scr_restore_cursor s : scr_restore_cursor (ss s) = ss (scr_restore_cursor s).
Proof. unfold scr_restore_cursor. cbv zeta. autorewrite with sg. reflexivity. Qed.
Lemma ss_clear_mouse_mode s m : clear_mouse_mode (ss s) m = ss (clear_mouse_mode s m).
Proof. unfold clear_mouse_mode. autorewrite with sg. destruct (mouse_mode_eqb _ _); reflexivity. Qed.
Lemma ss_clear_mouse_enc s m : clear_mouse_enc (ss s) m = ss (clear_mouse_enc s m).
Proof. unfold clear_mouse_enc. autorewrite with sg. destruct (mouse_enc_eqb _ _); reflexivity. Qed.

Global Hint Rewrite ss_screen_set_size ss_enter_alternate_grid ss_exit_alternate_grid ss_scr_save_cursor
  ss_scr_restore_cursor ss_clear_mouse_mode ss_clear_mouse_enc : sg.

(* all the on_cur wrappers *)
Lemma ss_scr_text s ch : scr_text (ss s) ch = mapr ss (scr_text s ch).
Proof. unfold scr_text. rewrite ss_pen. apply ss_on_cur. intros y. apply sg_grid_text. Qed.
Lemma ss_scr_bs s : scr_bs (ss s) = mapr ss (scr_bs s).
Proof. unfold scr_bs. apply ss_on_cur. intros y. reflexivity. Qed.
Lemma ss_scr_tab s : scr_tab (ss s) = mapr ss (scr_tab s).
Proof. unfold scr_tab. apply ss_on_cur. apply sg_col_tab. Qed.
Lemma ss_scr_lf s : scr_lf (ss s) = mapr ss (scr_lf s).
Proof.
  unfold scr_lf. apply ss_on_cur. intros y. rewrite sg_row_inc_scroll.
  destruct (row_inc_scroll y 1) as [[x1 k]|]; reflexivity.
Qed.
Lemma ss_scr_cr s : scr_cr (ss s) = mapr ss (scr_cr s).
Proof. unfold scr_cr. apply ss_on_cur. intros y. apply sg_col_set. Qed.
Lemma ss_scr_ri s : scr_ri (ss s) = mapr ss (scr_ri s).
Proof. unfold scr_ri. apply ss_on_cur. intros y. apply sg_row_dec_scroll. Qed.

Lemma sg_off0 x : sb_off x = 0 -> sg x = x.
Proof. destruct x; cbn. intros ->. reflexivity. Qed.
Lemma grid_new_off r c cap x : grid_new r c cap = Ok x -> sb_off x = 0.
Proof. unfold grid_new. intros E. bind_inv E. inv E. reflexivity. Qed.
Lemma allocate_rows_off x : sb_off (allocate_rows x) = sb_off x.
Proof. unfold allocate_rows. destruct (live x); reflexivity. Qed.
Lemma screen_new_stripped r c cap s : screen_new r c cap = Ok s -> ss s = s.
Proof.
  unfold screen_new. intros E. bind_inv E. rename v into g0, E0 into Eg. bind_inv E. rename v into a0, E0 into Ea.
  inv E. unfold ss. cbn [g alt pen spen keypad appcur hide altmode paste mmode menc].
  rewrite (sg_off0 a0) by (eapply grid_new_off; eauto).
  rewrite (sg_off0 (allocate_rows g0)) by (rewrite allocate_rows_off; eapply grid_new_off; eauto).
  reflexivity.
Qed.
Lemma ss_scr_ris s : scr_ris (ss s) = mapr ss (scr_ris s).
Proof.
  unfold scr_ris. autorewrite with sg.
  destruct (screen_new _ _ _) as [s1|] eqn:E; cbn [mapr]; [|reflexivity].
  now rewrite (screen_new_stripped _ _ _ _ E).
Qed.

Lemma ss_scr_ich s n : scr_ich (ss s) n = mapr ss (scr_ich s n).
Proof. unfold scr_ich. apply ss_on_cur. intros y. apply sg_insert_cells. Qed.
Lemma ss_scr_cuu s n : scr_cuu (ss s) n = mapr ss (scr_cuu s n).
Proof. unfold scr_cuu. apply ss_on_cur. intros y. now rewrite sg_row_dec_clamp. Qed.
Lemma ss_scr_cud s n : scr_cud (ss s) n = mapr ss (scr_cud s n).
Proof. unfold scr_cud. apply ss_on_cur. intros y. apply sg_row_inc_clamp. Qed.
Lemma ss_scr_cuf s n : scr_cuf (ss s) n = mapr ss (scr_cuf s n).
Proof. unfold scr_cuf. apply ss_on_cur. intros y. apply sg_col_inc_clamp. Qed.
Lemma ss_scr_cub s n : scr_cub (ss s) n = mapr ss (scr_cub s n).
Proof. unfold scr_cub. apply ss_on_cur. intros y. reflexivity. Qed.
Lemma ss_scr_cnl s n : scr_cnl (ss s) n = mapr ss (scr_cnl s n).
Proof. unfold scr_cnl. apply ss_on_cur. intros y. repeat sgchain. Qed.
Lemma ss_scr_cpl s n : scr_cpl (ss s) n = mapr ss (scr_cpl s n).
Proof. unfold scr_cpl. apply ss_on_cur. intros y. repeat sgchain. Qed.
Lemma ss_scr_cha s n : scr_cha (ss s) n = mapr ss (scr_cha s n).
Proof. unfold scr_cha. apply ss_on_cur. intros y. repeat sgchain. Qed.
Lemma ss_scr_cup s r c : scr_cup (ss s) r c = mapr ss (scr_cup s r c).
Proof. unfold scr_cup. apply ss_on_cur. intros y. repeat sgchain. Qed.
Lemma ss_scr_vpa s n : scr_vpa (ss s) n = mapr ss (scr_vpa s n).
Proof. unfold scr_vpa. apply ss_on_cur. intros y. repeat sgchain. Qed.
Lemma ss_scr_il s n : scr_il (ss s) n = mapr ss (scr_il s n).
Proof. unfold scr_il. apply ss_on_cur. intros y. apply sg_insert_lines. Qed.
Lemma ss_scr_dl s n : scr_dl (ss s) n = mapr ss (scr_dl s n).
Proof. unfold scr_dl. apply ss_on_cur. intros y. apply sg_delete_lines. Qed.
Lemma ss_scr_dch s n : scr_dch (ss s) n = mapr ss (scr_dch s n).
Proof. unfold scr_dch. apply ss_on_cur. intros y. apply sg_delete_cells. Qed.
Lemma ss_scr_su s n : scr_su (ss s) n = mapr ss (scr_su s n).
Proof. unfold scr_su. apply ss_on_cur. intros y. apply sg_scroll_up. Qed.
Lemma ss_scr_sd s n : scr_sd (ss s) n = mapr ss (scr_sd s n).
Proof. unfold scr_sd. apply ss_on_cur. intros y. apply sg_scroll_down. Qed.
Lemma ss_scr_ech s n : scr_ech (ss s) n = mapr ss (scr_ech s n).
Proof. unfold scr_ech. rewrite ss_pen. apply ss_on_cur. intros y. apply sg_erase_cells. Qed.
Lemma ss_scr_decstbm s t b : scr_decstbm (ss s) t b = mapr ss (scr_decstbm s t b).
Proof. unfold scr_decstbm. apply ss_on_cur. intros y. repeat sgchain. Qed.

Global Hint Rewrite ss_scr_text ss_scr_bs ss_scr_tab ss_scr_lf ss_scr_cr ss_scr_ri ss_scr_ris ss_scr_ich ss_scr_cuu
  ss_scr_cud ss_scr_cuf ss_scr_cub ss_scr_cnl ss_scr_cpl ss_scr_cha ss_scr_cup ss_scr_vpa ss_scr_il ss_scr_dl
  ss_scr_dch ss_scr_su ss_scr_sd ss_scr_ech ss_scr_decstbm : sg.

(* results paired with a count or with events *)
Lemma pair_ss1 {B} (r : res screen) (b : B) :
  (do s1 <- mapr ss r; Ok (s1, b)) = mapr ss1 (do s1 <- r; Ok (s1, b)).
Proof. destruct r; reflexivity. Qed.

Lemma ss_scr_ed s mode : scr_ed (ss s) mode = mapr ss1 (scr_ed s mode).
Proof.
  unfold scr_ed. rewrite ss_pen.
  destruct (mode =? 0); [|destruct (mode =? 1); [|destruct (mode =? 2); [|reflexivity]]];
    rewrite <- pair_ss1; f_equal; apply ss_on_cur; intros y; autorewrite with sg; reflexivity.
Qed.
Lemma ss_scr_el s mode : scr_el (ss s) mode = mapr ss1 (scr_el s mode).
Proof.
  unfold scr_el. rewrite ss_pen.
  destruct (mode =? 0); [|destruct (mode =? 1); [|destruct (mode =? 2); [|reflexivity]]];
    rewrite <- pair_ss1; f_equal; apply ss_on_cur; intros y; autorewrite with sg; reflexivity.
Qed.

Lemma ss_decset1 s p : decset1 (ss s) p = mapr ss1 (decset1 s p).
Proof.
  unfold decset1. destruct (single p) as [n|]; [|reflexivity].
  repeat match goal with |- _ = mapr ss1 (if ?b then _ else _) => destruct b end;
    try reflexivity.
  - rewrite <- pair_ss1. f_equal. apply ss_on_cur. intros y. apply sg_set_origin_mode.
  - rewrite ss_enter_alternate_grid. reflexivity.
  - cbv zeta. rewrite ss_scr_save_cursor. rewrite ss_alt, sg_grid_clear.
    destruct (grid_clear (alt (scr_save_cursor s))) as [a1|]; cbn [bind mapr]; [|reflexivity].
    rewrite ss_with_alt, ss_enter_alternate_grid. reflexivity.
Qed.

Lemma ss_decrst1 s p : decrst1 (ss s) p = mapr ss1 (decrst1 s p).
Proof.
  unfold decrst1. destruct (single p) as [n|]; [|reflexivity].
  repeat match goal with |- _ = mapr ss1 (if ?b then _ else _) => destruct b end;
    try reflexivity;
    try (first [rewrite ss_clear_mouse_mode | rewrite ss_clear_mouse_enc]; reflexivity).
  rewrite <- pair_ss1. f_equal. apply ss_on_cur. intros y. apply sg_set_origin_mode.
Qed.

Lemma ss_fold_params f ps s n :
  (forall s p, f (ss s) p = mapr ss1 (f s p)) -> fold_params f ps (ss s) n = mapr ss1 (fold_params f ps s n).
Proof.
  intros Hf. revert s n. induction ps as [|p ps IH]; intros s n; cbn [fold_params]; [reflexivity|].
  rewrite Hf. destruct (f s p) as [[s1 k]|]; cbn [bind mapr ss1 fst snd]; [apply IH|reflexivity].
Qed.
Lemma ss_scr_decset s ps : scr_decset (ss s) ps = mapr ss1 (scr_decset s ps).
Proof. apply ss_fold_params. exact ss_decset1. Qed.
Lemma ss_scr_decrst s ps : scr_decrst (ss s) ps = mapr ss1 (scr_decrst s ps).
Proof. apply ss_fold_params. exact ss_decrst1. Qed.
Lemma ss_scr_sgr s ps : scr_sgr (ss s) ps = ss1 (scr_sgr s ps).
Proof. unfold scr_sgr. rewrite ss_pen. destruct (sgr ps (pen s)) as [a k]. reflexivity. Qed.

Global Hint Rewrite ss_scr_ed ss_scr_el ss_scr_decset ss_scr_decrst ss_scr_sgr : sg.

(* ---- Perform.v ---- *)
Lemma ss_do_execute s b : do_execute (ss s) b = mapr ss1 (do_execute s b).
Proof.
  unfold do_execute.
  repeat match goal with |- _ = mapr ss1 (if ?b then _ else _) => destruct b end; try reflexivity;
    autorewrite with sg; apply pair_ss1.
Qed.

Lemma ss_do_print s c : do_print (ss s) c = mapr ss1 (do_print s c).
Proof.
  unfold do_print.
  destruct ((128 <=? c) && (c <? 160)); [apply ss_do_execute|].
  destruct (c =? REPL); [reflexivity|]. autorewrite with sg. apply pair_ss1.
Qed.

Lemma ss_do_esc s inter b : do_esc (ss s) inter b = mapr ss1 (do_esc s inter b).
Proof.
  unfold do_esc. destruct inter as [|i inter]; [|reflexivity].
  repeat match goal with |- _ = mapr ss1 (if ?b then _ else _) => destruct b end; try reflexivity;
    autorewrite with sg; try reflexivity; apply pair_ss1.
Qed.

Lemma ss_noev r : noev (mapr ss r) = mapr ss1 (noev r).
Proof. destruct r; reflexivity. Qed.

Lemma count_ss1 (r : res (screen * N)) (k : N -> list event) :
  (do '(s1, n) <- mapr ss1 r; Ok (s1, k n)) = mapr ss1 (do '(s1, n) <- r; Ok (s1, k n)).
Proof. destruct r as [[s1 n]|]; reflexivity. Qed.

Lemma ss_do_csi rz s ps inter c : do_csi rz (ss s) ps inter c = mapr ss1 (do_csi rz s ps inter c).
Proof.
  unfold do_csi. cbv zeta. destruct inter as [|i inter].
  - repeat match goal with |- _ = mapr ss1 (if ?b then _ else _) => destruct b end;
      try reflexivity; autorewrite with sg;
      try apply ss_noev;
      try (apply (count_ss1 _ (fun k => repeat_ev k _))).
    + destruct (canon2 ps 1 1) as [r cc]. autorewrite with sg. apply ss_noev.
    + destruct (scr_sgr s ps) as [s1 k]. reflexivity.
    + destruct (canon2 ps 1 (grows (cur s))) as [t b]. autorewrite with sg. apply ss_noev.
    + destruct ps as [|[|op p0] rest]; try reflexivity.
      destruct (op =? 8); [|reflexivity]. cbv zeta. autorewrite with sg.
      match goal with |- _ = mapr ss1 (if ?b then _ else _) => destruct b end; [|reflexivity].
      autorewrite with sg.
      match goal with |- _ = mapr ss1 (bind ?r _) => destruct r as [s1|]; reflexivity end.
  - destruct (i =? 63); [|reflexivity].
    repeat match goal with |- _ = mapr ss1 (if ?b then _ else _) => destruct b end;
      try reflexivity.
    all: autorewrite with sg; apply (count_ss1 _ (fun k => repeat_ev k _)).
Qed.

Lemma ss_perform rz s a : perform rz (ss s) a = mapr ss1 (perform rz s a).
Proof.
  destruct a as [c|b|ps inter ign c|b| |ps bell|ps inter ign c|inter ign b]; cbn [perform]; try reflexivity.
  - apply ss_do_print.
  - apply ss_do_execute.
  - unfold do_osc. destruct ps as [|k [|v [|w ps]]]; try reflexivity.
    repeat match goal with |- context[if ?b then _ else _] => destruct b end; reflexivity.
  - apply ss_do_csi.
  - apply ss_do_esc.
Qed.

Lemma ss_perform_all rz acts s evs :
  perform_all rz (ss s) acts evs = mapr ss1 (perform_all rz s acts evs).
Proof.
  revert s evs. induction acts as [|a rest IH]; intros s evs; cbn [perform_all]; [reflexivity|].
  rewrite ss_perform. destruct (perform rz s a) as [[s1 e]|]; cbn [bind mapr ss1 fst snd]; [apply IH|reflexivity].
Qed.

(* ---- Parser.v ---- *)
Definition strip (p : parser) : parser := mkParser (vt p) (ss (scr p)) (log p) (resizing p) (pend p).

Definition is_sb (o : api_op) : bool := match o with OpSetScrollback _ => true | _ => false end.
Definition not_sb (o : api_op) : bool := negb (is_sb o).

Lemma strip_idem p : strip (strip p) = strip p. Proof. reflexivity. Qed.

Lemma strip_process p bs : process (strip p) bs = mapr strip (process p bs).
Proof.
  unfold process. cbn [strip vt scr log resizing pend]. cbv zeta.
  destruct (advance (vt p) _) as [v acts]. rewrite ss_perform_all.
  destruct (perform_all (resizing p) (scr p) acts []) as [[s evs]|]; reflexivity.
Qed.

Lemma strip_step p o : is_sb o = false -> step (strip p) o = mapr strip (step p o).
Proof.
  destruct o as [bs|bs|r c|k]; cbn [is_sb step]; intros Hsb; try discriminate.
  - apply strip_process.
  - unfold write. rewrite strip_process. destruct (process p bs) as [q|]; reflexivity.
  - cbn [strip scr]. rewrite ss_screen_set_size. destruct (screen_set_size (scr p) r c) as [s|]; reflexivity.
Qed.

Lemma strip_step_sb p k q : step p (OpSetScrollback k) = Ok q -> strip q = strip p.
Proof.
  cbn [step]. intros E. inv E. unfold strip, with_scr. cbn [vt scr log resizing pend].
  now rewrite ss_screen_set_scrollback.
Qed.

(* set_scrollback never panics *)
Lemma step_sb_ok p k : step p (OpSetScrollback k) = Ok (with_scr p (screen_set_scrollback (scr p) k)).
Proof. reflexivity. Qed.

(* The key theorem, as an equation in the result monad: running the operations with every
   set_scrollback removed, from the stripped state, gives exactly the stripped result of the
   original run -- same state up to the two offsets, same panic (kind included) otherwise. *)
Theorem run_strip : forall ops p,
  run (strip p) (filter not_sb ops) = mapr strip (run p ops).
Proof.
  induction ops as [|o rest IH]; intros p; [reflexivity|].
  cbn [run filter]. unfold not_sb at 1. destruct (is_sb o) eqn:Hsb; cbn [negb].
  - destruct o as [bs|bs|r c|k]; try discriminate. rewrite step_sb_ok. cbn [bind].
    rewrite <- IH. f_equal.
    symmetry. apply (strip_step_sb p k). reflexivity.
  - cbn [run]. rewrite (strip_step p o Hsb).
    destruct (step p o) as [q|]; cbn [bind mapr]; [apply IH|reflexivity].
Qed.

Corollary run_view_only : forall p ops q, run p ops = Ok q ->
  exists q', run (strip p) (filter (fun o => negb (is_sb o)) ops) = Ok q' /\ strip q = strip q'.
Proof.
  intros p ops q E. exists (strip q). split; [|reflexivity].
  change (fun o => negb (is_sb o)) with not_sb. rewrite run_strip, E. reflexivity.
Qed.

Corollary run_ok_iff_stripped : forall p ops,
  is_ok (run p ops) = is_ok (run (strip p) (filter (fun o => negb (is_sb o)) ops)).
Proof.
  intros p ops. change (fun o => negb (is_sb o)) with not_sb. rewrite run_strip.
  destruct (run p ops); reflexivity.
Qed.

Corollary run_panic_same : forall p ops k, run p ops = Panic k ->
  run (strip p) (filter (fun o => negb (is_sb o)) ops) = Panic k.
Proof.
  intros p ops k E. change (fun o => negb (is_sb o)) with not_sb. rewrite run_strip, E. reflexivity.
Qed.

(* two states that differ only in the offsets stay that way under any common continuation *)
Corollary run_offset_irrelevant : forall p p' ops, strip p = strip p' ->
  mapr strip (run p ops) = mapr strip (run p' ops).
Proof. intros p p' ops E. rewrite <- !run_strip, E. reflexivity. Qed.

(* ---- what equality up to [strip] means ---- *)
Lemma sg_eq x y : sg x = sg y <-> x = with_sb y (sb y) (sb_off x).
Proof.
  split; intros H.
  - destruct x, y. unfold sg in H. cbn in *. inv H. reflexivity.
  - destruct x, y. unfold sg. cbn in *. inv H. reflexivity.
Qed.

Lemma sg_eq_fields x y : sg x = sg y ->
  grows x = grows y /\ gcols x = gcols y /\ prow x = prow y /\ pcol x = pcol y /\ sprow x = sprow y /\
  spcol x = spcol y /\ live x = live y /\ top x = top y /\ bot x = bot y /\ origin x = origin y /\
  sorigin x = sorigin y /\ sb x = sb y /\ sb_cap x = sb_cap y.
Proof. intros H. destruct x, y. unfold sg in H. cbn in *. inv H. repeat split. Qed.

Lemma strip_eq_fields p q : strip p = strip q ->
  vt p = vt q /\ log p = log q /\ resizing p = resizing q /\
  sg (g (scr p)) = sg (g (scr q)) /\ sg (alt (scr p)) = sg (alt (scr q)) /\ sg (cur (scr p)) = sg (cur (scr q)) /\
  pen (scr p) = pen (scr q) /\ spen (scr p) = spen (scr q) /\ altmode (scr p) = altmode (scr q) /\
  keypad (scr p) = keypad (scr q) /\ appcur (scr p) = appcur (scr q) /\ hide (scr p) = hide (scr q) /\
  paste (scr p) = paste (scr q) /\ mmode (scr p) = mmode (scr q) /\ menc (scr p) = menc (scr q).
Proof.
  intros H.
  pose proof (f_equal vt H) as Hv. pose proof (f_equal log H) as Hl. pose proof (f_equal resizing H) as Hr.
  pose proof (f_equal scr H) as Hs. cbn [strip vt scr log resizing] in Hv, Hl, Hr, Hs.
  pose proof (f_equal cur Hs) as Hc. rewrite !ss_cur in Hc.
  pose proof (f_equal g Hs) as Hg. pose proof (f_equal alt Hs) as Ha.
  pose proof (f_equal pen Hs). pose proof (f_equal spen Hs). pose proof (f_equal altmode Hs).
  pose proof (f_equal keypad Hs). pose proof (f_equal appcur Hs). pose proof (f_equal hide Hs).
  pose proof (f_equal paste Hs). pose proof (f_equal mmode Hs). pose proof (f_equal menc Hs).
  cbn [ss g alt pen spen keypad appcur hide altmode paste mmode menc] in *.
  repeat split; assumption.
Qed.

(* the view-only theorem, spelled out on the visible consequences: after any run, the live
   rows, the cursor, the history contents and the event log do not depend on the
   set_scrollback calls that were interleaved *)
Corollary run_view_only_fields : forall p ops q q',
  run p ops = Ok q -> run (strip p) (filter (fun o => negb (is_sb o)) ops) = Ok q' ->
  live (cur (scr q)) = live (cur (scr q')) /\
  prow (cur (scr q)) = prow (cur (scr q')) /\ pcol (cur (scr q)) = pcol (cur (scr q')) /\
  sb (cur (scr q)) = sb (cur (scr q')) /\ log q = log q' /\ vt q = vt q' /\
  sb_off (g (scr q')) = 0 /\ sb_off (alt (scr q')) = 0.
Proof.
  intros p ops q q' E E'. change (fun o => negb (is_sb o)) with not_sb in E'.
  rewrite run_strip, E in E'. inv E'.
  cbn [strip scr log vt]. rewrite ss_cur. cbn. repeat split.
Qed.
