(* ModeState.v — C10 for the full state emitters: every token that contents_formatted /
   contents_diff emit apart from the cursor-visibility token is neutral for the modes, hence
   state_formatted / state_diff reproduce all six modes. *)
Require Import Tac ListN Utf8 Attrs Cell Row Grid Screen Vte Perform Term Emit ModeSpec.
Open Scope N_scope.

(* tokens that cannot touch a mode: plain CSI (no '?'), ESC 7 / ESC 8, controls, text *)
Definition neutral (t : token) : bool :=
  match t with
  | TCsi priv _ _ => negb priv
  | TEsc f => (f =? 55) || (f =? 56)
  | TCtl _ | TChars _ => true
  end.

Definition ntl (ts : list token) : Prop := Forall (fun t => neutral t = true) ts.

Lemma run_prints cs m : fold_left (fun m a => mode_effect a m) (map APrint cs) m = m.
Proof. induction cs as [|c cs IH]; [reflexivity|]. cbn [map fold_left mode_effect]. exact IH. Qed.

Lemma neutral_run1 t m : neutral t = true -> run_modes [t] m = m.
Proof.
  destruct t as [priv ps f | f | b | cs]; cbn [neutral]; intros H.
  - destruct priv; [discriminate H|]. reflexivity.
  - apply orb_true_iff in H. rewrite !N.eqb_eq in H. destruct H as [-> | ->]; reflexivity.
  - reflexivity.
  - unfold run_modes. cbn [flat_map acts_of]. rewrite app_nil_r. apply run_prints.
Qed.

Lemma ntl_run ts m : ntl ts -> run_modes ts m = m.
Proof.
  induction 1 as [|t ts Ht _ IH]; [reflexivity|].
  rewrite run_modes_cons, (neutral_run1 t m Ht). exact IH.
Qed.

Lemma ntl_app a b : ntl a -> ntl b -> ntl (a ++ b).
Proof. intros Ha Hb. apply Forall_app. split; assumption. Qed.
Lemma ntl_nil : ntl [].
Proof. constructor. Qed.
Lemma ntl_cons t ts : neutral t = true -> ntl ts -> ntl (t :: ts).
Proof. intros Ht Hts. constructor; assumption. Qed.

Ltac ntl_tac :=
  repeat first [ assumption | apply ntl_nil | apply ntl_app | apply ntl_cons | reflexivity ].

Lemma ntl_move_to r c ts : t_move_to r c = Ok ts -> ntl ts.
Proof.
  unfold t_move_to. intros H. destruct ((r =? 0) && (c =? 0)).
  - inv H. ntl_tac.
  - bind_inv H. bind_inv H. inv H. ntl_tac.
Qed.
Lemma ntl_move_right n : ntl (t_move_right n).
Proof. unfold t_move_right. destruct (n =? 0), (n =? 1); ntl_tac. Qed.
Lemma ntl_erase_char n : ntl (t_erase_char n).
Proof. unfold t_erase_char. destruct (n =? 0), (n =? 1); ntl_tac. Qed.
Lemma ntl_attrs_diff a b : ntl (t_attrs_diff a b).
Proof. unfold t_attrs_diff. destruct (sgr_diff a b); ntl_tac. Qed.
Lemma ntl_crlf : ntl t_crlf.
Proof. unfold t_crlf. ntl_tac. Qed.
Lemma ntl_repeat t n : neutral t = true -> ntl (repeatN t n).
Proof. intros H. unfold repeatN. induction (N.to_nat n) as [|k IH]; cbn [repeat]; ntl_tac. Qed.

Lemma ntl_move_from_to fr fc tr tc ts : t_move_from_to fr fc tr tc = Ok ts -> ntl ts.
Proof.
  unfold t_move_from_to. intros H. bind_inv H.
  destruct ((tr =? v) && (tc =? 0)); [inv H; apply ntl_crlf|].
  destruct ((fr =? tr) && (fc <? tc)); [inv H; apply ntl_move_right|].
  destruct (negb ((tr =? fr) && (tc =? fc))); [exact (ntl_move_to _ _ _ H)|].
  inv H. ntl_tac.
Qed.

(* ---- the row painter keeps its output neutral ---- *)
Definition eok (e : est) : Prop := ntl (eout e).

Lemma eok_out e ts : eok e -> ntl ts -> eok (e_out e ts).
Proof. unfold eok, e_out. cbn [eout]. apply ntl_app. Qed.
Lemma eok_pos e r c : eok e -> eok (e_pos e r c).
Proof. exact (fun H => H). Qed.
Lemma eok_erase e x : eok e -> eok (e_erase e x).
Proof. exact (fun H => H). Qed.
Lemma eok_attrs e a : eok e -> eok (e_attrs e a).
Proof.
  unfold e_attrs. intros H. destruct (attrs_eqb (eattrs e) a); [exact H|].
  unfold eok. cbn [eout]. apply ntl_app; [exact H | apply ntl_attrs_diff].
Qed.
Lemma eok_move e r c e' : e_move e r c = Ok e' -> eok e -> eok e'.
Proof.
  unfold e_move. intros H He. bind_inv H. inv H. apply eok_out; [exact He|].
  exact (ntl_move_from_to _ _ _ _ _ E).
Qed.

Lemma eok_flush dm wr cols rowi e pc a stop e' :
  flush_erase dm wr cols rowi e pc a stop = Ok e' -> eok e -> eok e'.
Proof.
  unfold flush_erase. intros H He. bind_inv H. bind_inv H.
  assert (He1 : eok v0).
  { destruct v.
    - inv E0. destruct (0 <? pc); apply eok_out; ntl_tac.
    - exact (eok_move _ _ _ _ E0 He). }
  destruct stop as [col|].
  - bind_inv H. inv H. apply eok_erase, eok_out; [|apply ntl_erase_char].
    apply eok_attrs, eok_pos. exact He1.
  - inv H. apply eok_erase, eok_out; [|ntl_tac]. apply eok_attrs, eok_pos. exact He1.
Qed.

Lemma eok_emit_cell dm wr cols rowi e col c skip e' :
  emit_cell dm wr cols rowi e col c skip = Ok e' -> eok e -> eok e'.
Proof.
  unfold emit_cell. intros H He. bind_inv H.
  assert (He1 : eok v).
  { destruct (eerase e) as [[pc a]|]; [|inv E; exact He].
    destruct (has_contents c || negb (attrs_eqb (cattrs c) a)); [|inv E; exact He].
    exact (eok_flush _ _ _ _ _ _ _ _ _ E He). }
  clear E He. destruct skip; [inv H; exact He1|].
  destruct (has_contents c).
  - bind_inv H. bind_inv H. inv H.
    assert (He2 : eok v0).
    { destruct ((er v =? rowi) && (ec v =? col)); [inv E; exact He1|].
      bind_inv E. bind_inv E. inv E. apply eok_pos.
      match goal with
      | Hm : (if ?b then e_move _ _ _ else Ok _) = Ok _ |- _ =>
        destruct b; [exact (eok_move _ _ _ _ Hm He1) | inv Hm; exact He1]
      end. }
    apply eok_out; [|ntl_tac]. apply eok_pos, eok_attrs. exact He2.
  - destruct (eerase v); inv H; [exact He1 | apply eok_erase; exact He1].
Qed.

Lemma eok_emit_loop dm wr cols rowi cs : forall col pw e e',
  emit_loop dm wr cols rowi cs col pw e = Ok e' -> eok e -> eok e'.
Proof.
  induction cs as [|[c skip] rest IH]; intros col pw e e' H He; cbn [emit_loop] in H.
  - inv H. exact He.
  - destruct pw; [exact (IH _ _ _ _ H He)|].
    bind_inv H. exact (IH _ _ _ _ H (eok_emit_cell _ _ _ _ _ _ _ _ _ E He)).
Qed.

Lemma eok_finish dm wr cols rowi e e' : finish_erase dm wr cols rowi e = Ok e' -> eok e -> eok e'.
Proof.
  unfold finish_erase. intros H He. destruct (eerase e) as [[pc a]|]; [|inv H; exact He].
  exact (eok_flush _ _ _ _ _ _ _ _ _ H He).
Qed.

Lemma ntl_row_formatted r start width rowi wr ppos pattrs ts pos a :
  row_formatted r start width rowi wr ppos pattrs = Ok (ts, pos, a) -> ntl ts.
Proof.
  unfold row_formatted. intros H. bind_inv H. destruct v as [pr pc]. bind_inv H. bind_inv H. inv H.
  match goal with Hf : finish_erase _ _ _ _ _ = Ok _ |- _ => apply (eok_finish _ _ _ _ _ _ Hf) end.
  match goal with Hl : emit_loop _ _ _ _ _ _ _ _ = Ok _ |- _ => apply (eok_emit_loop _ _ _ _ _ _ _ _ _ Hl) end.
  destruct (row_get r start) as [fc|]; [|apply ntl_nil].
  destruct (wr && cell_eqb fc cell_new); [|apply ntl_nil].
  apply eok_pos, eok_out; [apply eok_attrs; apply ntl_nil|].
  apply ntl_app; [ntl_tac | apply ntl_erase_char].
Qed.

Lemma ntl_row_diff r prev start width rowi wr pwr ppos pattrs ts pos a :
  row_diff r prev start width rowi wr pwr ppos pattrs = Ok (ts, pos, a) -> ntl ts.
Proof.
  unfold row_diff. intros H.
  destruct (row_get r start) as [fc|]; [|inv H; apply ntl_nil].
  destruct (row_get prev start) as [pfc|]; [|inv H; apply ntl_nil].
  bind_inv H. rename v into pro. clear E.
  bind_inv H. rename v into e2, E into Hloop.
  bind_inv H. rename v into e3, E into Hfin.
  bind_inv H. rename v into e4, E into Hwrap. inv H.
  assert (He3 : eok e3).
  { apply (eok_finish _ _ _ _ _ _ Hfin). apply (eok_emit_loop _ _ _ _ _ _ _ _ _ Hloop).
    destruct pro; [|apply ntl_nil].
    apply eok_pos, eok_out; [apply eok_attrs; apply ntl_nil|].
    apply ntl_app; [ntl_tac|].
    apply ntl_app; [destruct (cwide pfc); ntl_tac|].
    destruct (negb (has_contents pfc)); [apply ntl_erase_char | apply ntl_nil]. }
  destruct (negb (Bool.eqb (wrapped r) (wrapped prev))); [|inv Hwrap; exact He3].
  bind_inv Hwrap. bind_inv Hwrap. bind_inv Hwrap. bind_inv Hwrap. bind_inv Hwrap.
  match goal with Hm : e_move _ _ _ = Ok _ |- _ => apply eok_move in Hm; [|exact He3]; rename Hm into Hmv end.
  match type of Hwrap with
  | (if _ then _ else Ok ?e) = _ => assert (Hee : eok e)
  end.
  { destruct (negb (wrapped r)); [apply eok_out; [apply eok_pos; exact Hmv | apply ntl_erase_char]
                                  | apply eok_pos; exact Hmv]. }
  clear Hloop Hfin.
  match type of Hwrap with (if ?b then _ else _) = _ => destruct b end; [|inv Hwrap; exact Hee].
  bind_inv Hwrap. inv Hwrap. apply eok_pos, eok_out; [|ntl_tac]. apply eok_attrs. exact Hee.
Qed.

Lemma ntl_move_opt ppos tr tc ts : move_opt ppos tr tc = Ok ts -> ntl ts.
Proof.
  unfold move_opt. destruct ppos as [[pr pc]|]; intros H.
  - exact (ntl_move_from_to _ _ _ _ _ H).
  - exact (ntl_move_to _ _ _ H).
Qed.

Lemma ntl_redraw_cell c pa : ntl (redraw_cell c pa).
Proof.
  unfold redraw_cell. apply ntl_app; [apply ntl_attrs_diff|].
  apply ntl_app; [ntl_tac | apply ntl_attrs_diff].
Qed.

Lemma ntl_cursor_position x ppos pattrs ts : cursor_position_formatted x ppos pattrs = Ok ts -> ntl ts.
Proof.
  unfold cursor_position_formatted. intros H.
  match type of H with (if ?b then _ else _) = _ => destruct b end; [|exact (ntl_move_opt _ _ _ _ H)].
  bind_inv H. bind_inv H. bind_inv H.
  match type of H with (if ?b then _ else _) = _ => destruct b end.
  - bind_inv H. inv H. apply ntl_app; [|apply ntl_redraw_cell].
    match goal with Hm : move_opt _ _ _ = Ok _ |- _ => exact (ntl_move_opt _ _ _ _ Hm) end.
  - bind_inv H. rename v2 into found. destruct found as [[[i ci] cli]|].
    + bind_inv H. inv H. apply ntl_app; [|apply ntl_repeat; reflexivity].
      match goal with Hp : match ppos with Some _ => _ | None => _ end = Ok _ |- _ => rename Hp into Hpre end.
      destruct ppos as [[pr pc]|].
      * destruct (negb (pr =? i) || (pc <? gcols x)); [|inv Hpre; apply ntl_nil].
        bind_inv Hpre. inv Hpre. apply ntl_app; [|apply ntl_redraw_cell].
        match goal with Hm : t_move_from_to _ _ _ _ = Ok _ |- _ => exact (ntl_move_from_to _ _ _ _ _ Hm) end.
      * bind_inv Hpre. inv Hpre. apply ntl_app; [|apply ntl_redraw_cell].
        match goal with Hm : t_move_to _ _ = Ok _ |- _ => exact (ntl_move_to _ _ _ Hm) end.
    + bind_inv H. inv H.
      apply ntl_app; [match goal with Hm : move_opt _ _ _ = Ok _ |- _ => exact (ntl_move_opt _ _ _ _ Hm) end|].
      repeat first [ apply ntl_nil | apply ntl_attrs_diff | apply ntl_erase_char | apply ntl_app
                   | (apply ntl_cons; [reflexivity|]) ].
Qed.

Lemma ntl_rows_formatted_loop cols vr : forall i wr pos a acc ts pos' a',
  rows_formatted_loop cols vr i wr pos a acc = Ok (ts, pos', a') -> ntl acc -> ntl ts.
Proof.
  induction vr as [|rw rest IH]; intros i wr pos a acc ts pos' a' H Hacc; cbn [rows_formatted_loop] in H.
  - inv H. exact Hacc.
  - bind_inv H. destruct v as [[ts1 pos1] a1]. apply (IH _ _ _ _ _ _ _ _ H).
    apply ntl_app; [exact Hacc | exact (ntl_row_formatted _ _ _ _ _ _ _ _ _ _ E)].
Qed.

Lemma ntl_rows_diff_loop cols vr : forall i wr pwr pos a acc ts pos' a',
  rows_diff_loop cols vr i wr pwr pos a acc = Ok (ts, pos', a') -> ntl acc -> ntl ts.
Proof.
  induction vr as [|[rw prw] rest IH]; intros i wr pwr pos a acc ts pos' a' H Hacc; cbn [rows_diff_loop] in H.
  - inv H. exact Hacc.
  - bind_inv H. destruct v as [[ts1 pos1] a1]. apply (IH _ _ _ _ _ _ _ _ _ H).
    apply ntl_app; [exact Hacc | exact (ntl_row_diff _ _ _ _ _ _ _ _ _ _ _ _ E)].
Qed.

Lemma ntl_grid_contents_formatted x ts a : grid_contents_formatted x = Ok (ts, a) -> ntl ts.
Proof.
  unfold grid_contents_formatted. intros H. bind_inv H. bind_inv H. destruct v0 as [[ts1 pos] a1].
  bind_inv H. inv H.
  repeat (apply ntl_cons; [reflexivity|]).
  apply ntl_app.
  - match goal with Hl : rows_formatted_loop _ _ _ _ _ _ _ = Ok _ |- _ =>
      exact (ntl_rows_formatted_loop _ _ _ _ _ _ _ _ _ _ Hl ntl_nil) end.
  - match goal with Hc : cursor_position_formatted _ _ _ = Ok _ |- _ =>
      exact (ntl_cursor_position _ _ _ _ Hc) end.
Qed.

Lemma ntl_grid_contents_diff x prev pa ts a : grid_contents_diff x prev pa = Ok (ts, a) -> ntl ts.
Proof.
  unfold grid_contents_diff. intros H. bind_inv H. bind_inv H. bind_inv H. destruct v1 as [[ts1 pos] a1].
  bind_inv H. inv H.
  apply ntl_app.
  - match goal with Hl : rows_diff_loop _ _ _ _ _ _ _ _ = Ok _ |- _ =>
      exact (ntl_rows_diff_loop _ _ _ _ _ _ _ _ _ _ _ Hl ntl_nil) end.
  - match goal with Hc : cursor_position_formatted _ _ _ = Ok _ |- _ =>
      exact (ntl_cursor_position _ _ _ _ Hc) end.
Qed.

(* contents_formatted = the cursor-visibility token followed by neutral tokens *)
Theorem contents_formatted_shape s ts : contents_formatted_t s = Ok ts ->
  exists rest, ts = t_hide_cursor (hide s) :: rest /\ ntl rest.
Proof.
  unfold contents_formatted_t. intros H. bind_inv H. destruct v as [ts1 a]. inv H.
  eexists. split; [reflexivity|].
  apply ntl_app; [exact (ntl_grid_contents_formatted _ _ _ E) | apply ntl_attrs_diff].
Qed.

Theorem contents_diff_shape s p ts : contents_diff_t s p = Ok ts ->
  exists rest, ts = (if Bool.eqb (hide s) (hide p) then [] else [t_hide_cursor (hide s)]) ++ rest
               /\ ntl rest.
Proof.
  unfold contents_diff_t. intros H. bind_inv H. destruct v as [ts1 a]. inv H.
  eexists. split; [reflexivity|].
  apply ntl_app; [exact (ntl_grid_contents_diff _ _ _ _ _ E) | apply ntl_attrs_diff].
Qed.

(* contents_formatted / contents_diff carry the cursor visibility and nothing else *)
Theorem C10_contents_formatted : forall s ts m,
  contents_formatted_t s = Ok ts -> run_modes ts m = set_hide (hide s) m.
Proof.
  intros s ts m H. destruct (contents_formatted_shape s ts H) as (rest & -> & Hn).
  rewrite run_modes_cons, C10_hide_token. apply ntl_run. exact Hn.
Qed.

Theorem C10_contents_diff : forall s p ts,
  contents_diff_t s p = Ok ts -> run_modes ts (modes_of p) = set_hide (hide s) (modes_of p).
Proof.
  intros s p ts H. destruct (contents_diff_shape s p ts H) as (rest & -> & Hn).
  rewrite run_modes_app, (ntl_run rest _ Hn).
  destruct (Bool.eqb (hide s) (hide p)) eqn:E.
  - apply Bool.eqb_prop in E. rewrite E. reflexivity.
  - apply C10_hide_token.
Qed.

(* state_formatted on a fresh parser reproduces all six modes *)
Theorem C10_state_formatted : forall s ts,
  state_formatted_t s = Ok ts -> run_modes ts m_fresh = modes_of s.
Proof.
  intros s ts H. unfold state_formatted_t in H. bind_inv H. inv H.
  rewrite run_modes_app, (C10_contents_formatted s v m_fresh E).
  rewrite C10_formatted_gen by reflexivity. reflexivity.
Qed.

(* state_diff(prev) on a parser whose modes equal prev's reproduces all six modes *)
Theorem C10_state_diff : forall s p ts,
  state_diff_t s p = Ok ts -> run_modes ts (modes_of p) = modes_of s.
Proof.
  intros s p ts H. unfold state_diff_t in H. bind_inv H. inv H.
  rewrite run_modes_app, (C10_contents_diff s p v E).
  pose proof (all_modes_forall _ diff_check (modes_of s)) as H1. cbv beta in H1.
  pose proof (proj1 (forallb_forall _ all_modes) H1 (set_hide (hide s) (modes_of p)) (all_modes_complete _)) as H2.
  cbv beta in H2. apply modes_eqb_eq in H2. exact H2.
Qed.
