(* Cursor.v — Stage 4a of C01: Grid::write_cursor_position_formatted played on a
   receiver whose rows already equal the visible rows of the source. *)
Require Import Tac ListN Utf8 Width Attrs Cell Row Grid Screen Vte Perform Term Emit
  RowInv GridInv TextInv ScreenInv ParseSer CellWf WfGrid WfVte WfInv EraseSpec SgrSpec MoveSpec PrintSpec
  CellBytes EmitSafe WrapInv Recv RowPaint Redraw.
Open Scope N_scope.

(* ------------------------------------------------------------------ *)
(* re-printing a cell over itself                                       *)
(* ------------------------------------------------------------------ *)
Lemma put_cell_self cols ri j cl : row_ok cols ri -> row_wf ri -> get (cells ri) j = Some cl ->
  has_contents cl = true -> put_cell ri j cl (cattrs cl) = ri.
Proof.
  intros [Hl Hok] Hwf Hg Hc.
  pose proof (row_wf_get _ _ _ Hwf Hg) as Wc.
  pose proof (adv_fits _ _ _ Hok Hg) as Hfit. unfold adv_n in Hfit.
  apply row_ext; [|apply put_raw_wrapped].
  apply list_ext_get. intros k. unfold put_cell. rewrite put_raw_cells by exact Hfit.
  destruct (N.eqb_spec k j) as [->|Nk]; [rewrite (painted_self cl Wc Hc); now rewrite Hg|].
  destruct (N.eqb_spec k (j + 1)) as [->|Nk1]; cbn [andb]; [|reflexivity].
  destruct (cwide cl) eqn:Ew; [|reflexivity].
  destruct (ok_wide_next _ _ _ Hok Hg Ew) as (d & Hd & Dc & _). rewrite Hd. f_equal. symmetry.
  apply wf_cont_cell; [eapply row_wf_get; eauto|exact Dc].
Qed.

Lemma slot_self cols ri j cl : row_ok cols ri -> row_wf ri -> get (cells ri) j = Some cl ->
  has_contents cl = true -> slot_ok (cells ri) j (cwide cl).
Proof.
  intros [Hl Hok] Hwf Hg Hc. pose proof (row_wf_get _ _ _ Hwf Hg) as Wc.
  unfold slot_ok. rewrite (fc_get _ _ _ Hg), (fw_get _ _ _ Hg).
  split.
  - destruct (ccont cl) eqn:Ek; [|reflexivity]. rewrite (wf_cont_no_contents _ Wc Ek) in Hc. discriminate.
  - split; [auto|]. intros Ew. destruct (ok_wide_next _ _ _ Hok Hg Ew) as (d & Hd & _ & Dw & _).
    now rewrite (fw_get _ _ _ Hd).
Qed.

Lemma plays_redraw_cell R l i j pa ri cl : cv R l i j -> get l i = Some ri -> get (cells ri) j = Some cl ->
  has_contents cl = true -> cell_cap cl -> pen_ok (cattrs cl) -> pen_ok pa ->
  plays (rcv R l i j pa) (redraw_cell cl pa) (rcv R l i (j + adv_n cl) pa).
Proof.
  intros H Hg Hc Hhc Cap Pc Ppa.
  destruct (cv_get _ _ _ _ i H (cv_r _ _ _ _ H)) as (x & Gx & Ok' & Wf'). rewrite Hg in Gx. inv Gx.
  pose proof (row_wf_get _ _ _ Wf' Hc) as Wc.
  pose proof (adv_fits _ _ _ (proj2 Ok') Hc) as Hfit. rewrite (proj1 Ok') in Hfit.
  unfold redraw_cell.
  eapply plays_app; [apply plays_attrs_diff; exact Pc|].
  eapply plays_app; [|apply plays_attrs_diff; exact Ppa].
  pose proof (plays_cell R l i j (cattrs cl) x cl H Hg Wc Cap Hhc Hfit (slot_self _ _ _ _ Ok' Wf' Hc Hhc)) as P.
  rewrite (put_cell_self _ _ _ _ Ok' Wf' Hc Hhc), (set_at_self _ _ _ Hg) in P. exact P.
Qed.

Lemma redraw_scalar cl pa : Forall storable (ctext cl) -> toks_scalar (redraw_cell cl pa).
Proof.
  intros Hs. unfold redraw_cell. apply toks_scalar_app; [|apply toks_scalar_app].
  - apply toks_scalar_nochars. intros cs Hin. unfold t_attrs_diff in Hin. destruct (sgr_diff _ _); cbn in Hin; intuition discriminate.
  - now apply toks_scalar_chars.
  - apply toks_scalar_nochars. intros cs Hin. unfold t_attrs_diff in Hin. destruct (sgr_diff _ _); cbn in Hin; intuition discriminate.
Qed.

(* line feeds below the last line keep the column (even the pending-wrap column) *)
Lemma plays_lfs R l a c : forall n r, cv R l r c -> r + N.of_nat n < grows (g R) ->
  plays (rcv R l r c a) (repeat (TCtl 10) n) (rcv R l (r + N.of_nat n) c a).
Proof.
  induction n as [|n IH]; intros r H Hlt.
  - replace (r + N.of_nat 0) with r by lia. apply plays_nil.
  - cbn [repeat]. eapply plays_cons; [apply plays_lf; [exact H|lia]|].
    replace (r + N.of_nat (S n)) with (r + 1 + N.of_nat n) by lia.
    apply IH; [|lia]. eapply cv_pos; eauto; [lia|apply H].
Qed.

(* ------------------------------------------------------------------ *)
(* the receiver rows agree with the visible rows of the source          *)
(* ------------------------------------------------------------------ *)
Definition rows_agree (l vr : list row) (rows : N) : Prop :=
  forall i, i < rows -> exists ri src, get l i = Some ri /\ get vr i = Some src /\ cells ri = cells src /\
    (wrapped ri = true -> wrapped src = true).

Lemma vcell_agree l vr rows i ri k : rows_agree l vr rows -> i < rows -> get l i = Some ri ->
  k < len (cells ri) -> get (cells ri) k = Some (vcell vr i k).
Proof.
  intros Ha Hi Hg Hk. destruct (Ha i Hi) as (ri' & src & G1 & G2 & Ec & _). rewrite Hg in G1. inv G1.
  unfold vcell, row_get. rewrite G2, <- Ec. destruct (get_lt_some _ _ Hk) as (x & ->). reflexivity.
Qed.

(* the last occupied-or-not column of a line: cols-2 when the last cell is a continuation *)
Definition last_col (vr : list row) (cols i : N) : N :=
  if ccont (vcell vr i (cols - 1)) then cols - 2 else cols - 1.

Lemma last_col_adv R l vr i ri : cv R l i 0 -> rows_agree l vr (grows (g R)) -> get l i = Some ri ->
  has_contents (vcell vr i (last_col vr (gcols (g R)) i)) = true ->
  last_col vr (gcols (g R)) i < gcols (g R) /\
  get (cells ri) (last_col vr (gcols (g R)) i) = Some (vcell vr i (last_col vr (gcols (g R)) i)) /\
  last_col vr (gcols (g R)) i + adv_n (vcell vr i (last_col vr (gcols (g R)) i)) = gcols (g R).
Proof.
  intros H Ha Hg Hc. pose proof (cv_dims _ _ _ _ H) as [D1 D2].
  destruct (cv_get _ _ _ _ i H (cv_r _ _ _ _ H)) as (x & Gx & (Lx & Okx) & Wx). rewrite Hg in Gx. inv Gx.
  pose proof (vcell_agree l vr _ i x (gcols (g R) - 1) Ha (cv_r _ _ _ _ H) Hg ltac:(lia)) as Glast.
  unfold last_col in *. destruct (ccont (vcell vr i (gcols (g R) - 1))) eqn:Ek.
  - destruct (ok_cont_prev _ _ _ Okx Glast Ek) as (Hpos & d & Hd & Dw & _).
    replace (gcols (g R) - 1 - 1) with (gcols (g R) - 2) in Hd by lia.
    pose proof (vcell_agree l vr _ i x (gcols (g R) - 2) Ha (cv_r _ _ _ _ H) Hg ltac:(lia)) as G2.
    rewrite Hd in G2. inv G2. split; [lia|]. split; [exact Hd|]. unfold adv_n. rewrite Dw. lia.
  - split; [lia|]. split; [exact Glast|]. unfold adv_n.
    rewrite (ok_last_not_wide _ _ Okx ltac:(lia) ltac:(rewrite Lx; exact Glast)). lia.
Qed.

Lemma find_filled_spec vr cols : forall n i ci cli, find_filled vr cols n = Ok (Some (i, ci, cli)) ->
  i < N.of_nat n /\ ci = last_col vr cols i /\ cli = vcell vr i ci /\ has_contents cli = true.
Proof.
  induction n as [|k IH]; intros i ci cli E; cbn [find_filled] in E; [discriminate|].
  bind_inv E. bind_inv E.
  assert (v0 = last_col vr cols (N.of_nat k)) as ->.
  { unfold last_col. unfold sub16 in E0. destruct (1 <=? cols); inv E0.
    destruct (ccont (vcell vr (N.of_nat k) (cols - 1))); [|now inv E1].
    unfold sub16 in E1. destruct (2 <=? cols); now inv E1. }
  destruct (has_contents (vcell vr (N.of_nat k) (last_col vr cols (N.of_nat k)))) eqn:Hc.
  - inv E. repeat split; auto. lia.
  - destruct (IH _ _ _ E) as (A & B). split; [lia|exact B].
Qed.

(* ------------------------------------------------------------------ *)
(* what may change in the base of the receiver: the saved cursor        *)
(* ------------------------------------------------------------------ *)
Record same_base (R R2 : screen) : Prop := mkSameBase {
  sb_canvas : canvas R2;
  sb_rows : grows (g R2) = grows (g R);
  sb_cols : gcols (g R2) = gcols (g R);
  sb_hide : hide R2 = hide R;
  sb_keypad : keypad R2 = keypad R;
  sb_appcur : appcur R2 = appcur R;
  sb_paste : paste R2 = paste R;
  sb_mmode : mmode R2 = mmode R;
  sb_menc : menc R2 = menc R }.

Lemma same_base_refl R : canvas R -> same_base R R.
Proof. intros H. split; auto. Qed.

Lemma same_base_saved R r c a : canvas R -> r < grows (g R) -> c <= gcols (g R) -> same_base R (saved_at R r c a).
Proof. intros H Hr Hc. split; try reflexivity. now apply canvas_saved_at. Qed.

Lemma cv_saved R l r c r' c' a : cv R l r c -> r' < grows (g R) -> c' <= gcols (g R) -> cv (saved_at R r' c' a) l r c.
Proof. intros [C G Hr Hc] Hr' Hc'. split; auto. now apply canvas_saved_at. Qed.

(* ------------------------------------------------------------------ *)
(* the cursor fix-up                                                    *)
(* ------------------------------------------------------------------ *)
Lemma move_from_to_same r c : r <= POSMAX -> t_move_from_to r c r c = Ok [].
Proof.
  intros H. unfold t_move_from_to. rewrite add16_ok by (unfold POSMAX in *; lia). cbn [bind].
  destruct (N.eqb_spec r (r + 1)); [lia|]. cbn [andb]. rewrite N.eqb_refl.
  destruct (N.ltb_spec c c); [lia|]. cbn [andb]. rewrite N.eqb_refl. reflexivity.
Qed.

Lemma plays_move_any R l r c a tr tc : cv R l r c -> tr < grows (g R) -> tc < gcols (g R) ->
  exists ts, t_move_from_to r c tr tc = Ok ts /\ plays (rcv R l r c a) ts (rcv R l tr tc a) /\ cv R l tr tc.
Proof.
  intros H Hr Hc. pose proof (cv_dims _ _ _ _ H) as [D1 D2]. pose proof (cv_r _ _ _ _ H). unfold MAXDIM in *.
  destruct (t_move_from_to_ok r c tr tc) as (ts & E); try (unfold POSMAX; lia).
  exists ts. split; [exact E|]. split; [eapply plays_move_from_to; eauto|]. eapply cv_pos; eauto. lia.
Qed.

Lemma plays_move_opt R l r c a ppos tr tc : cv R l r c -> ppos = None \/ ppos = Some (r, c) ->
  tr < grows (g R) -> tc < gcols (g R) ->
  exists ts, move_opt ppos tr tc = Ok ts /\ plays (rcv R l r c a) ts (rcv R l tr tc a) /\ cv R l tr tc.
Proof.
  intros H [-> | ->] Hr Hc; unfold move_opt; [|now apply plays_move_any].
  pose proof (cv_dims _ _ _ _ H) as [D1 D2]. unfold MAXDIM in *.
  destruct (t_move_to_ok tr tc) as (ts & E); try (unfold POSMAX; lia).
  exists ts. split; [exact E|]. split; [eapply plays_move_to; eauto|]. eapply cv_pos; eauto. lia.
Qed.

Theorem cursor_fixup_gen R l r c a x vr ppos :
  ppos = None \/ ppos = Some (r, c) ->
  cv R l r c -> pen_ok a -> rows_agree l vr (grows (g R)) ->
  vrows_ok (gcols (g R)) vr -> len vr = grows (g R) ->
  visible_rows x = Ok vr -> gcols x = gcols (g R) -> prow x < grows (g R) -> pcol x <= gcols (g R) ->
  exists toks R2,
    cursor_position_formatted x ppos (Some a) = Ok toks /\
    plays (rcv R l r c a) toks (rcv R2 l (prow x) (pcol x) a) /\
    cv R2 l (prow x) (pcol x) /\ same_base R R2.
Proof.
  intros Hpp H Pa Hag [Hsr Hwi] Lvr Hvis Hgc Hpr Hpc.
  pose proof (cv_dims _ _ _ _ H) as [D1 D2]. pose proof (cv_r _ _ _ _ H) as Hr. pose proof (cv_c _ _ _ _ H) as Hc.
  pose proof (cv_canvas _ _ _ _ H) as CR.
  unfold MAXDIM in *.
  unfold cursor_position_formatted. rewrite Hgc.
  set (same := match ppos with Some (pr, pc) => (pr =? prow x) && (pc =? pcol x) | None => false end).
  destruct (negb same && (gcols (g R) <=? pcol x)) eqn:Esp.
  2:{ (* ordinary move *)
    destruct same eqn:Es.
    - destruct Hpp as [-> | ->]; [discriminate|]. unfold move_opt.
      unfold same in Es. apply andb_prop in Es as [E1 E2]. apply N.eqb_eq in E1, E2. subst r c.
      rewrite move_from_to_same by (unfold POSMAX; lia). exists [], R.
      split; [reflexivity|]. split; [apply plays_nil|]. split; [exact H|now apply same_base_refl].
    - cbn [negb andb] in Esp. destruct (N.leb_spec (gcols (g R)) (pcol x)); [discriminate|].
      destruct (plays_move_opt R l r c a ppos (prow x) (pcol x) H Hpp Hpr ltac:(lia)) as (ts & E & P & C).
      exists ts, R. split; [exact E|]. split; [exact P|]. split; [exact C|now apply same_base_refl]. }
  apply andb_prop in Esp as [Es Ep]. apply N.leb_le in Ep.
  assert (pcol x = gcols (g R)) as Epc by lia.
  rewrite Hvis. cbn [bind]. rewrite sub16_ok by lia. cbn [bind].
  assert (Forall vrow_ok vr) as Hvr.
  { eapply Forall_impl'; [|exact Hsr]. intros rw [Ll Lo _ _ _]. split; [exact Lo|]. rewrite Ll. unfold MAXDIM. lia. }
  assert ((if ccont (vcell vr (prow x) (gcols (g R) - 1)) then sub16 (gcols (g R)) 2 else Ok (gcols (g R) - 1))
          = Ok (last_col vr (gcols (g R)) (prow x))) as ->.
  { unfold last_col. destruct (ccont (vcell vr (prow x) (gcols (g R) - 1))) eqn:Ek; [|reflexivity].
    apply vcell_cont_pos in Ek; [|exact Hvr]. now rewrite sub16_ok by lia. }
  cbn [bind].
  destruct (cv_get _ _ _ _ (prow x) H Hpr) as (ri & Gri & (Lri & Okri) & Wri).
  assert (cv R l (prow x) 0) as Hcv0 by (eapply cv_pos; eauto; lia).
  set (lc := last_col vr (gcols (g R)) (prow x)).
  destruct (has_contents (vcell vr (prow x) lc)) eqn:Hhc.
  - (* (i) the last cell of the cursor line is occupied: reprint it *)
    destruct (last_col_adv R l vr (prow x) ri Hcv0 Hag Gri Hhc) as (Hlt & Gcl & Eadv). fold lc in Hlt, Gcl, Eadv.
    destruct (plays_move_opt R l r c a ppos (prow x) lc H Hpp Hpr Hlt) as (ts & -> & P & C). cbn [bind].
    destruct (Hag (prow x) Hpr) as (ri' & src & G1 & G2 & Ec & _). rewrite Gri in G1. inv G1.
    pose proof (Forall_get _ _ _ _ Hsr G2) as Sok.
    assert (get (cells src) lc = Some (vcell vr (prow x) lc)) as Gsrc by (rewrite <- Ec; exact Gcl).
    pose proof (plays_redraw_cell R l (prow x) lc a ri' _ C Gri Gcl Hhc
                  (Forall_get _ _ _ _ (sr_cap _ _ Sok) Gsrc) (Forall_get _ _ _ _ (sr_pen _ _ Sok) Gsrc) Pa) as P2.
    rewrite Eadv in P2. exists (ts ++ redraw_cell (vcell vr (prow x) lc) a), R.
    split; [reflexivity|]. rewrite Epc. split; [eapply plays_app; eauto|].
    split; [eapply cv_pos; eauto; lia|now apply same_base_refl].
  - destruct (find_filled_ok vr (gcols (g R)) (N.to_nat (prow x)) Hvr ltac:(lia)) as (o & Ef & _).
    rewrite Ef. cbn [bind]. destruct o as [[[i' ci] cli]|].
    + (* (ii) a line above has an occupied last cell: reprint that, then line feeds *)
      destruct (find_filled_spec _ _ _ _ _ _ Ef) as (Hi' & -> & -> & Hhc').
      assert (i' < prow x) as Hi'' by lia.
      destruct (cv_get _ _ _ _ i' H ltac:(lia)) as (ri2 & Gri2 & _ & _).
      assert (cv R l i' 0) as Hcv2 by (eapply cv_pos; eauto; lia).
      destruct (last_col_adv R l vr i' ri2 Hcv2 Hag Gri2 Hhc') as (Hlt & Gcl & Eadv).
      set (ci := last_col vr (gcols (g R)) i') in *.
      assert (exists pre, match ppos with
                          | Some (pr, pc) =>
                              if negb (pr =? i') || (pc <? gcols (g R))
                              then do mv <- t_move_from_to pr pc i' ci; Ok (mv ++ redraw_cell (vcell vr i' ci) a)
                              else Ok []
                          | None => do mv <- t_move_to i' ci; Ok (mv ++ redraw_cell (vcell vr i' ci) a)
                          end = Ok pre /\
                          plays (rcv R l r c a) pre (rcv R l i' (gcols (g R)) a)) as (pre & -> & Ppre).
      { assert (exists pre, (do mv <- move_opt ppos i' ci; Ok (mv ++ redraw_cell (vcell vr i' ci) a)) = Ok pre /\
                            plays (rcv R l r c a) pre (rcv R l i' (gcols (g R)) a)) as Hmv.
        { destruct (plays_move_opt R l r c a ppos i' ci H Hpp ltac:(lia) Hlt) as (ts & -> & P & C). cbn [bind].
          destruct (Hag i' ltac:(lia)) as (ri' & src & G1 & G2 & Ec & _). rewrite Gri2 in G1. inv G1.
          pose proof (Forall_get _ _ _ _ Hsr G2) as Sok.
          assert (get (cells src) ci = Some (vcell vr i' ci)) as Gsrc by (rewrite <- Ec; exact Gcl).
          pose proof (plays_redraw_cell R l i' ci a ri' _ C Gri2 Gcl Hhc'
                        (Forall_get _ _ _ _ (sr_cap _ _ Sok) Gsrc) (Forall_get _ _ _ _ (sr_pen _ _ Sok) Gsrc) Pa) as P2.
          rewrite Eadv in P2. eexists; split; [reflexivity|]. eapply plays_app; eauto. }
        destruct Hpp as [-> | ->]; [exact Hmv|]. unfold move_opt in Hmv.
        destruct (negb (r =? i') || (c <? gcols (g R))) eqn:Eb; [exact Hmv|]. clear Hmv.
        apply orb_false_elim in Eb as [E1 E2]. apply negb_false_iff, N.eqb_eq in E1. apply N.ltb_ge in E2.
        assert (c = gcols (g R)) as -> by lia. subst r. eexists; split; [reflexivity|apply plays_nil]. }
      cbn [bind]. exists (pre ++ repeatN (TCtl 10) (prow x - i')), R. split; [reflexivity|].
      rewrite Epc. split; [|split; [eapply cv_pos; eauto; lia|now apply same_base_refl]].
      eapply plays_app; [exact Ppre|]. unfold repeatN.
      replace (prow x) with (i' + N.of_nat (N.to_nat (prow x - i'))) at 2 by lia.
      apply plays_lfs; [eapply cv_pos; eauto; lia|lia].
    + (* (iii) the SP DECSC BS ECH DECRC trick *)
      set (lastc := gcols (g R) - 1) in *.
      destruct (plays_move_opt R l r c a ppos (prow x) lastc H Hpp Hpr ltac:(unfold lastc; lia)) as (ts & -> & P1 & C1). cbn [bind].
      set (endc := vcell vr (prow x) lastc).
      pose proof (vcell_agree l vr _ (prow x) ri lastc Hag Hpr Gri ltac:(unfold lastc; lia)) as Gend. fold endc in Gend.
      pose proof (row_wf_get _ _ _ Wri Gend) as Wend.
      assert (ccont endc = false) as Kend.
      { destruct (ccont endc) eqn:Ek; [|reflexivity]. exfalso.
        destruct (ok_cont_prev _ _ _ Okri Gend Ek) as (Hpos & d & Hd & Dw & _).
        pose proof (vcell_agree l vr _ (prow x) ri (lastc - 1) Hag Hpr Gri ltac:(unfold lastc; lia)) as G2.
        rewrite Hd in G2. inv G2. unfold lc, last_col in Hhc. fold lastc in Hhc. fold endc in Hhc. rewrite Ek in Hhc.
        replace (gcols (g R) - 2) with (lastc - 1) in Hhc by (unfold lastc; lia).
        rewrite wf_wide_has_contents in Hhc; [discriminate| |exact Dw]. eapply row_wf_get; eauto. }
      assert (lc = lastc) as Elc by (unfold lc, last_col; fold lastc; fold endc; now rewrite Kend).
      rewrite Elc in Hhc. fold endc in Hhc.
      assert (cwide endc = false) as Wdend.
      { apply (ok_last_not_wide _ _ Okri); [lia|]. rewrite Lri. exact Gend. }
      destruct (Hag (prow x) Hpr) as (ri' & src & G1 & G2 & Ec & Ewr). rewrite Gri in G1. inv G1.
      pose proof (Forall_get _ _ _ _ Hsr G2) as Sok. pose proof (Forall_get _ _ _ _ Hwi G2) as Swi.
      assert (get (cells src) lastc = Some endc) as Gsrc by (rewrite <- Ec; exact Gend).
      pose proof (Forall_get _ _ _ _ (sr_pen _ _ Sok) Gsrc) as Pend.
      assert (wrapped ri' = false) as Unw.
      { destruct (wrapped ri') eqn:Ew; [|reflexivity]. exfalso.
        destruct (Swi (Ewr eq_refl)) as (lc' & Hlc' & Ho). rewrite (sr_len _ _ Sok) in Hlc'. fold lastc in Hlc'.
        rewrite Gsrc in Hlc'. inv Hlc'. destruct Ho; congruence. }
      (* SP *)
      assert (slot_ok (cells ri') lastc (cwide sp_cell)) as Slot.
      { unfold slot_ok. rewrite (fc_get _ _ _ Gend), (fw_get _ _ _ Gend). cbn [cwide sp_cell]. repeat split; auto; discriminate. }
      pose proof (plays_cell R l (prow x) lastc a ri' sp_cell C1 Gri sp_cell_wf sp_cell_cap eq_refl
                    ltac:(unfold lastc; cbn; lia) Slot) as P2.
      cbn [ctext sp_cell] in P2. change (adv_n sp_cell) with 1 in P2.
      replace (lastc + 1) with (gcols (g R)) in P2 by (unfold lastc; lia).
      set (ri1 := put_cell ri' lastc sp_cell a) in *. set (l1 := set_at l (prow x) ri1) in *.
      assert (cv R l1 (prow x) (gcols (g R))) as C2.
      { eapply plays_cv; [exact C1|exact P2|]. apply toks_scalar_chars. constructor; [apply storable_32|constructor]. }
      (* pen := attrs of the end cell *)
      pose proof (plays_attrs_diff R l1 (prow x) (gcols (g R)) a (cattrs endc) Pend) as P3.
      (* DECSC *)
      pose proof (plays_save R l1 (prow x) (gcols (g R)) (cattrs endc) C2) as P4.
      set (R2 := saved_at R (prow x) (gcols (g R)) (cattrs endc)) in *.
      assert (cv R2 l1 (prow x) (gcols (g R))) as C4 by (apply cv_saved; auto; lia).
      (* BS *)
      pose proof (plays_bs R2 l1 (prow x) (gcols (g R)) (cattrs endc) C4) as P5. fold lastc in P5.
      assert (cv R2 l1 (prow x) lastc) as C5 by (apply (cv_pos R2 l1 (prow x) (gcols (g R))); [exact C4|apply C4|unfold lastc; cbn; lia]).
      (* ECH 1 *)
      assert (get l1 (prow x) = Some ri1) as G1'.
      { unfold l1. rewrite get_set_at. destruct (N.eqb_spec (prow x) (prow x)); [|lia].
        assert (len l = grows (g R)) as -> by apply H. destruct (N.ltb_spec (prow x) (grows (g R))); [reflexivity|lia]. }
      destruct (cv_get _ _ _ _ (prow x) C5 ltac:(apply C5)) as (y & Gy & _ & Wy). rewrite G1' in Gy. inv Gy.
      destruct (plays_ech R2 l1 (prow x) lastc (cattrs endc) 1 ri1 C5 G1' Wy ltac:(lia)) as (rw' & Er & Ok' & W' & P6).
      change (gcols (g R2)) with (gcols (g R)) in Er.
      replace (N.min (lastc + 1) (gcols (g R))) with (gcols (g R)) in Er by (unfold lastc; lia).
      assert (forall k, get (cells ri1) k = if k =? lastc then Some (painted sp_cell a) else get (cells ri') k) as Hx.
      { intros k. unfold ri1, put_cell. rewrite put_raw_cells by (cbn [cwide sp_cell]; unfold lastc; lia).
        cbn [cwide sp_cell]. rewrite andb_false_r. reflexivity. }
      assert (fc (cells ri1) lastc = false) as F1 by (unfold fc; rewrite Hx, N.eqb_refl; reflexivity).
      assert (fw (cells ri1) (gcols (g R) - 1) = false) as F2 by (fold lastc; unfold fw; rewrite Hx, N.eqb_refl; reflexivity).
      destruct (erased_nocut _ _ _ _ _ _ Er F1 F2) as [EC EW].
      assert (rw' = ri') as ->.
      { apply row_ext.
        - apply list_ext_get. intros k. rewrite EC. unfold in_rng.
          destruct (N.leb_spec lastc k), (N.ltb_spec k (gcols (g R))); cbn [andb].
          + assert (k = lastc) as -> by (unfold lastc in *; lia). rewrite Gend. f_equal. symmetry.
            now apply wf_empty_blank.
          + rewrite Hx. destruct (N.eqb_spec k lastc); [unfold lastc in *; lia|reflexivity].
          + rewrite Hx. destruct (N.eqb_spec k lastc); [lia|reflexivity].
          + rewrite Hx. destruct (N.eqb_spec k lastc); [lia|reflexivity].
        - rewrite EW. unfold ri1, put_cell. rewrite put_raw_wrapped, Unw. destruct (in_rng _ _ _); reflexivity. }
      unfold l1 in P6. rewrite set_at_set_at, (set_at_self _ _ _ Gri) in P6. fold l1 in P6.
      (* DECRC *)
      assert (cv R2 l (prow x) lastc) as C6 by (apply cv_saved; [eapply cv_pos; eauto; unfold lastc; lia|lia|lia]).
      pose proof (plays_restore R2 l (prow x) lastc (cattrs endc) C6 eq_refl) as P7.
      change (sprow (g R2)) with (prow x) in P7. change (spcol (g R2)) with (gcols (g R)) in P7.
      change (spen R2) with (cattrs endc) in P7.
      (* pen back *)
      pose proof (plays_attrs_diff R2 l (prow x) (gcols (g R)) (cattrs endc) a Pa) as P8.
      eexists _, R2. split; [reflexivity|]. rewrite Epc. split.
      { eapply plays_app; [exact P1|]. eapply plays_app; [exact P2|]. eapply plays_app; [exact P3|].
        change ([t_save_cursor; t_bs] ++ t_erase_char 1 ++ [t_restore_cursor] ++ t_attrs_diff a (cattrs endc))
          with ([t_save_cursor] ++ [t_bs] ++ t_erase_char 1 ++ [t_restore_cursor] ++ t_attrs_diff a (cattrs endc)).
        eapply plays_app; [exact P4|]. eapply plays_app; [exact P5|]. eapply plays_app; [exact P6|].
        eapply plays_app; [exact P7|exact P8]. }
      split; [apply cv_saved; [eapply cv_pos; eauto; lia|lia|lia]|].
      apply same_base_saved; auto; lia.
Qed.

Corollary cursor_fixup R l r c a x vr :
  cv R l r c -> pen_ok a -> rows_agree l vr (grows (g R)) ->
  vrows_ok (gcols (g R)) vr -> len vr = grows (g R) ->
  visible_rows x = Ok vr -> gcols x = gcols (g R) -> prow x < grows (g R) -> pcol x <= gcols (g R) ->
  exists toks R2,
    cursor_position_formatted x (Some (r, c)) (Some a) = Ok toks /\
    plays (rcv R l r c a) toks (rcv R2 l (prow x) (pcol x) a) /\
    cv R2 l (prow x) (pcol x) /\ same_base R R2.
Proof. apply cursor_fixup_gen. now right. Qed.
