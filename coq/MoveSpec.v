(* MoveSpec.v — declarative specification of the cursor movement commands (property C06)
   and the proof that the model (Perform.v / Screen.v / Grid.v) implements it.

   The specification [move_spec] is written from the property text over an abstract cursor
   state (rows, cols, top, bot, origin, row, col) with min / max / truncated subtraction on N.
   It does not mention any function of the model. *)
Require Import Tac ListN Attrs Cell Row Grid Screen Vte Perform RowInv GridInv TextInv ScreenInv.
Open Scope N_scope.

(* ================================================================== *)
(* 1. The specification                                               *)
(* ================================================================== *)

Record cst := mkCst {
  c_rows : N; c_cols : N;          (* screen size *)
  c_top : N; c_bot : N;            (* scroll region, 0-based, inclusive *)
  c_origin : bool;                 (* DECOM *)
  c_row : N; c_col : N }.          (* cursor, 0-based; c_col = c_cols is the pending-wrap column *)

(* movement commands, parameters already defaulted (n >= 1) *)
Inductive mv :=
| MBs | MHt | MCr
| MCuu (n : N) | MCud (n : N) | MCuf (n : N) | MCub (n : N)
| MCnl (n : N) | MCpl (n : N)
| MCha (n : N) | MVpa (n : N)
| MCup (r c : N).

Definition mv_wf (m : mv) : Prop :=
  match m with
  | MBs | MHt | MCr => True
  | MCuu n | MCud n | MCuf n | MCub n | MCnl n | MCpl n | MCha n | MVpa n => 1 <= n
  | MCup r c => 1 <= r /\ 1 <= c
  end.

(* the cursor is inside the scroll region *)
Definition in_region (c : cst) : bool := (c_top c <=? c_row c) && (c_row c <=? c_bot c).

(* upper / lower stop of a relative vertical move: the margin when the move starts inside the
   region, the screen edge otherwise *)
Definition upper_stop (c : cst) : N := if in_region c then c_top c else 0.
Definition lower_stop (c : cst) : N := if in_region c then c_bot c else c_rows c - 1.

Definition up (c : cst) (n : N) : N := N.max (c_row c - n) (upper_stop c).     (* N subtraction truncates at 0 *)
Definition down (c : cst) (n : N) : N := N.min (c_row c + n) (lower_stop c).

(* new (row, col) *)
Definition move_spec (c : cst) (m : mv) : N * N :=
  match m with
  | MBs      => (c_row c, c_col c - 1)
  | MHt      => (c_row c, N.min ((c_col c / 8 + 1) * 8) (c_cols c - 1))
  | MCr      => (c_row c, 0)
  | MCuu n   => (up c n, c_col c)
  | MCud n   => (down c n, c_col c)
  | MCuf n   => (c_row c, N.min (c_col c + n) (c_cols c - 1))
  | MCub n   => (c_row c, c_col c - n)
  | MCnl n   => (down c n, 0)
  | MCpl n   => (up c n, 0)
  | MCha n   => (c_row c, N.min (n - 1) (c_cols c - 1))
  | MVpa n   => (N.min (n - 1) (c_rows c - 1), c_col c)      (* not origin-relative in this crate *)
  | MCup r k => (if c_origin c then N.min (c_top c + (r - 1)) (c_bot c) else N.min (r - 1) (c_rows c - 1),
                 N.min (k - 1) (c_cols c - 1))
  end.

(* does the command write the column? *)
Definition touches_col (m : mv) : bool :=
  match m with MCuu _ | MCud _ | MVpa _ => false | _ => true end.
Definition touches_row (m : mv) : bool :=
  match m with MCuu _ | MCud _ | MCnl _ | MCpl _ | MVpa _ | MCup _ _ => true | _ => false end.

(* DECSTBM: raw parameters t b (0 = missing); result = new (top, bot) *)
Definition dflt_param (n d : N) : N := if n =? 0 then d else n.
Definition decstbm_spec (rows t b : N) : N * N :=
  let t' := dflt_param t 1 - 1 in
  let b' := N.min (dflt_param b rows - 1) (rows - 1) in
  if t' <? b' then (t', b') else (0, rows - 1).

(* well-formed abstract state *)
Record cst_ok (c : cst) : Prop := mkCstOk {
  co_rows : 1 <= c_rows c;
  co_cols : 1 <= c_cols c;
  co_row : c_row c < c_rows c;
  co_col : c_col c <= c_cols c;
  co_bot : c_bot c < c_rows c;
  co_region : c_top c < c_bot c \/ (c_top c = 0 /\ c_bot c = c_rows c - 1) }.

(* ---- properties of the specification alone (item 4 and the prose of C06) ---- *)

Theorem move_spec_bounds c m : cst_ok c -> mv_wf m ->
  let '(r', k') := move_spec c m in
  r' < c_rows c /\ k' <= c_cols c /\
  (k' < c_cols c \/ (touches_col m = false /\ k' = c_col c /\ c_col c = c_cols c)).
Proof.
  intros [Hr Hc Hrow Hcol Hbot Hreg] W.
  assert (forall b : bool, (if b then c_top c else 0) <= c_bot c) as Hup by (intros []; lia).
  assert (forall b : bool, (if b then c_bot c else c_rows c - 1) < c_rows c) as Hdn by (intros []; lia).
  destruct m; cbn [move_spec mv_wf touches_col] in *; unfold up, down, upper_stop, lower_stop.
  - (* BS *) split; [lia|]. split; [lia|]. left; lia.
  - (* HT *) split; [lia|]. split; [lia|]. left; lia.
  - (* CR *) split; [lia|]. split; [lia|]. left; lia.
  - (* CUU *) specialize (Hup (in_region c)). split; [lia|]. split; [lia|].
    destruct (N.eq_dec (c_col c) (c_cols c)); [right; auto|left; lia].
  - (* CUD *) specialize (Hdn (in_region c)). split; [lia|]. split; [lia|].
    destruct (N.eq_dec (c_col c) (c_cols c)); [right; auto|left; lia].
  - (* CUF *) split; [lia|]. split; [lia|]. left; lia.
  - (* CUB *) split; [lia|]. split; [lia|]. left; lia.
  - (* CNL *) specialize (Hdn (in_region c)). split; [lia|]. split; [lia|]. left; lia.
  - (* CPL *) specialize (Hup (in_region c)). split; [lia|]. split; [lia|]. left; lia.
  - (* CHA *) split; [lia|]. split; [lia|]. left; lia.
  - (* VPA *) split; [lia|]. split; [lia|].
    destruct (N.eq_dec (c_col c) (c_cols c)); [right; auto|left; lia].
  - (* CUP *) split; [destruct (c_origin c); lia|]. split; [lia|]. left; lia.
Qed.

(* HT: the target (before clamping to the last column) is the least multiple of 8 greater
   than the current column *)
Theorem tab_stop_least col :
  let t := (col / 8 + 1) * 8 in
  t mod 8 = 0 /\ col < t /\ (forall u, u mod 8 = 0 -> col < u -> t <= u).
Proof.
  cbv zeta. split; [apply N.mod_mul; lia|]. split; [lia|].
  intros u Hu Hlt. lia.
Qed.

(* a command that does not touch the row / column leaves it alone *)
Theorem move_spec_untouched c m :
  (touches_row m = false -> fst (move_spec c m) = c_row c) /\
  (touches_col m = false -> snd (move_spec c m) = c_col c).
Proof. destruct m; cbn; split; intros; try reflexivity; discriminate. Qed.

(* CNL / CPL are CR followed by CUD / CUU *)
Definition cst_at (c : cst) (rk : N * N) : cst :=
  mkCst (c_rows c) (c_cols c) (c_top c) (c_bot c) (c_origin c) (fst rk) (snd rk).
Theorem move_spec_cnl_cpl c n :
  move_spec c (MCnl n) = move_spec (cst_at c (move_spec c MCr)) (MCud n) /\
  move_spec c (MCpl n) = move_spec (cst_at c (move_spec c MCr)) (MCuu n).
Proof. split; reflexivity. Qed.

(* relative vertical moves started inside the region stay inside it; a move started outside
   never enters further than the screen edge *)
Theorem move_spec_region c m n : cst_ok c -> in_region c = true ->
  (m = MCuu n \/ m = MCud n \/ m = MCnl n \/ m = MCpl n) ->
  c_top c <= fst (move_spec c m) <= c_bot c.
Proof.
  intros [Hr Hc Hrow Hcol Hbot Hreg] I Hm.
  pose proof I as I'. unfold in_region in I'. apply andb_prop in I' as [I1 I2].
  destruct Hm as [ -> | [ -> | [ -> | -> ] ] ]; cbn [move_spec fst]; unfold up, down, upper_stop, lower_stop; rewrite I; lia.
Qed.

(* CUP in origin mode is confined to the region *)
Theorem move_spec_cup_origin c r k : cst_ok c -> c_origin c = true ->
  c_top c <= fst (move_spec c (MCup r k)) <= c_bot c.
Proof. intros [Hr Hc Hrow Hcol Hbot Hreg] O. cbn [move_spec fst]. rewrite O. lia. Qed.

(* parameters beyond the screen are absorbed by the clamps: every n >= rows + cols acts alike;
   in particular the parser's saturation of parameters at 65535 is invisible *)
Theorem move_spec_sat c m lim : cst_ok c -> c_rows c <= lim -> c_cols c <= lim ->
  let cl n := N.min n (lim + 1) in
  move_spec c m =
  move_spec c match m with
              | MBs => MBs | MHt => MHt | MCr => MCr
              | MCuu n => MCuu (cl n) | MCud n => MCud (cl n) | MCuf n => MCuf (cl n) | MCub n => MCub (cl n)
              | MCnl n => MCnl (cl n) | MCpl n => MCpl (cl n) | MCha n => MCha (cl n) | MVpa n => MVpa (cl n)
              | MCup r k => MCup (cl r) (cl k)
              end.
Proof.
  intros [Hr Hc Hrow Hcol Hbot Hreg] L1 L2. cbv zeta.
  destruct m; cbn [move_spec]; unfold up, down, upper_stop, lower_stop; try reflexivity;
    destruct (in_region c); try destruct (c_origin c); f_equal; lia.
Qed.

Theorem decstbm_spec_region rows t b : 1 <= rows ->
  let '(t', b') := decstbm_spec rows t b in
  b' < rows /\ (t' < b' \/ (t' = 0 /\ b' = rows - 1)).
Proof.
  intros H. unfold decstbm_spec. cbv zeta.
  destruct (N.ltb_spec (dflt_param t 1 - 1) (N.min (dflt_param b rows - 1) (rows - 1))); lia.
Qed.

(* ================================================================== *)
(* 2. From the model to the specification                             *)
(* ================================================================== *)

Definition cst_of (x : grid) : cst :=
  mkCst (grows x) (gcols x) (top x) (bot x) (origin x) (prow x) (pcol x).

Lemma cst_of_ok x : grid_ok x -> cst_ok (cst_of x).
Proof.
  intros (K & Hr & Hc). split; cbn; auto; try apply (gk_rows _ K); try apply (gk_cols _ K).
  - apply (gk_bot _ K).
  - apply (gk_region _ K).
Qed.

(* the grid operation each command runs (the bodies of scr_bs ... scr_cup in Screen.v) *)
Definition gop (m : mv) (x : grid) : res grid :=
  match m with
  | MBs => Ok (col_dec x 1)
  | MHt => col_tab x
  | MCr => col_set x 0
  | MCuu n => Ok (row_dec_clamp x n)
  | MCud n => row_inc_clamp x n
  | MCuf n => col_inc_clamp x n
  | MCub n => Ok (col_dec x n)
  | MCnl n => do x1 <- col_set x 0; row_inc_clamp x1 n
  | MCpl n => do x1 <- col_set x 0; Ok (row_dec_clamp x1 n)
  | MCha n => do c <- sub16 n 1; col_set x c
  | MVpa n => do r <- sub16 n 1; row_set x r
  | MCup r c => do r1 <- sub16 r 1; do c1 <- sub16 c 1; grid_set_pos x r1 c1
  end.

(* the Screen method each command runs *)
Definition sop (m : mv) (s : screen) : res screen :=
  match m with
  | MBs => scr_bs s | MHt => scr_tab s | MCr => scr_cr s
  | MCuu n => scr_cuu s n | MCud n => scr_cud s n | MCuf n => scr_cuf s n | MCub n => scr_cub s n
  | MCnl n => scr_cnl s n | MCpl n => scr_cpl s n | MCha n => scr_cha s n | MVpa n => scr_vpa s n
  | MCup r c => scr_cup s r c
  end.

Lemma sop_gop m s : sop m s = on_cur s (gop m).
Proof. destruct m; reflexivity. Qed.

Lemma with_pos_eq x r1 c1 r2 c2 : r1 = r2 -> c1 = c2 -> with_pos x r1 c1 = with_pos x r2 c2.
Proof. intros -> ->. reflexivity. Qed.

Lemma with_pos_twice x a b r c : with_pos (with_pos x a b) r c = with_pos x r c.
Proof. reflexivity. Qed.

Lemma tab_stop_eq c : c - c mod 8 + 8 = (c / 8 + 1) * 8.
Proof. pose proof (N.div_mod c 8). lia. Qed.

Definition moved (x : grid) (m : mv) : grid :=
  with_pos x (fst (move_spec (cst_of x) m)) (snd (move_spec (cst_of x) m)).

(* the grid-level theorem: each operation only moves the cursor, to where the spec says *)
Theorem gop_spec x m : grid_ok x -> mv_wf m -> gop m x = Ok (moved x m).
Proof.
  intros H W. okdims. unfold moved.
  destruct m; cbn [gop mv_wf move_spec fst snd cst_of c_rows c_cols c_top c_bot c_origin c_row c_col] in *.
  - (* BS *) reflexivity.
  - (* HT *) rewrite col_tab_eq by lia. f_equal. apply with_pos_eq; [reflexivity|]. now rewrite tab_stop_eq.
  - (* CR *) rewrite col_set_eq by lia. f_equal. apply with_pos_eq; [reflexivity|lia].
  - (* CUU *) rewrite row_dec_clamp_eq. f_equal. apply with_pos_eq; [|reflexivity].
    unfold up, upper_stop, in_region, in_scroll_region, sat_sub16. cbn.
    destruct ((top x <=? prow x) && (prow x <=? bot x)); lia.
  - (* CUD *) rewrite row_inc_clamp_eq by lia. f_equal. apply with_pos_eq; [|reflexivity].
    unfold down, lower_stop, lower_limit, in_region, in_scroll_region, sat_add16, U16MAX, MAXDIM in *. cbn.
    destruct ((top x <=? prow x) && (prow x <=? bot x)); lia.
  - (* CUF *) rewrite col_inc_clamp_eq by lia. f_equal. apply with_pos_eq; [reflexivity|].
    unfold sat_add16, U16MAX, MAXDIM in *. lia.
  - (* CUB *) reflexivity.
  - (* CNL *) rewrite col_set_eq by lia. cbn [bind]. rewrite row_inc_clamp_eq by (cbn; lia). f_equal.
    unfold with_prow, with_pcol, lower_limit, in_scroll_region.
    cbn [with_pos prow pcol top bot grows gcols]. rewrite with_pos_twice. apply with_pos_eq; [|lia].
    unfold down, lower_stop, in_region, sat_add16, U16MAX, MAXDIM in *. cbn.
    destruct ((top x <=? prow x) && (prow x <=? bot x)); lia.
  - (* CPL *) rewrite col_set_eq by lia. cbn [bind]. rewrite row_dec_clamp_eq. f_equal.
    unfold with_prow, with_pcol, in_scroll_region.
    cbn [with_pos prow pcol top bot grows gcols]. rewrite with_pos_twice. apply with_pos_eq; [|lia].
    unfold up, upper_stop, in_region, sat_sub16. cbn.
    destruct ((top x <=? prow x) && (prow x <=? bot x)); lia.
  - (* CHA *) rewrite sub16_ok by lia. cbn [bind]. rewrite col_set_eq by lia. reflexivity.
  - (* VPA *) rewrite sub16_ok by lia. cbn [bind]. rewrite row_set_eq by lia. reflexivity.
  - (* CUP *) destruct W as [W1 W2]. rewrite !sub16_ok by lia. cbn [bind].
    rewrite grid_set_pos_eq by lia. f_equal. apply with_pos_eq; [|reflexivity].
    unfold sat_add16, U16MAX, MAXDIM in *. destruct (origin x); lia.
Qed.

(* ---- screens ---- *)
Lemma on_cur_eq s f y : f (cur s) = Ok y -> on_cur s f = Ok (with_cur s y).
Proof. intros E. unfold on_cur. rewrite E. reflexivity. Qed.

Definition smoved (s : screen) (m : mv) : screen := with_cur s (moved (cur s) m).

Theorem sop_spec s m : screen_ok s -> mv_wf m -> sop m s = Ok (smoved s m).
Proof. intros H W. rewrite sop_gop. apply on_cur_eq. apply gop_spec; [apply (cur_ok _ H)|exact W]. Qed.

(* ---- parameter defaulting ---- *)
Lemma canon1_nil d : canon1 [] d = d.
Proof. reflexivity. Qed.
Lemma canon1_empty_group rest d : canon1 ([] :: rest) d = d.
Proof. reflexivity. Qed.
Lemma canon1_cons n subs rest d : canon1 ((n :: subs) :: rest) d = dflt_param n d.
Proof. reflexivity. Qed.
Lemma canon1_zero d : canon1 [[0]] d = d.
Proof. reflexivity. Qed.
Lemma canon1_pos1 n d : 1 <= n -> canon1 [[n]] d = n.
Proof. intros H. rewrite canon1_cons. unfold dflt_param. destruct (N.eqb_spec n 0); [lia|reflexivity]. Qed.
Lemma canon1_one n : canon1 [[n]] 1 = dflt_param n 1.
Proof. reflexivity. Qed.

Lemma canon2_two r c d1 d2 : canon2 [[r]; [c]] d1 d2 = (dflt_param r d1, dflt_param c d2).
Proof. reflexivity. Qed.
Lemma canon2_cons2 r rs c cs rest d1 d2 :
  canon2 ((r :: rs) :: (c :: cs) :: rest) d1 d2 = (dflt_param r d1, dflt_param c d2).
Proof. reflexivity. Qed.
Lemma canon2_one r d1 d2 : canon2 [[r]] d1 d2 = (dflt_param r d1, d2).
Proof. reflexivity. Qed.
Lemma canon2_nil d1 d2 : canon2 [] d1 d2 = (d1, d2).
Proof. reflexivity. Qed.
Lemma canon2_zero d1 d2 : canon2 [[0]; [0]] d1 d2 = (d1, d2).
Proof. reflexivity. Qed.
Lemma canon2_pos2 r c d1 d2 : 1 <= r -> 1 <= c -> canon2 [[r]; [c]] d1 d2 = (r, c).
Proof.
  intros Hr Hc. rewrite canon2_two. unfold dflt_param.
  destruct (N.eqb_spec r 0), (N.eqb_spec c 0); try lia. reflexivity.
Qed.
Lemma canon2_eq ps d1 d2 :
  canon2 ps d1 d2 = (canon1 ps d1, canon1 (tl ps) d2).
Proof. reflexivity. Qed.

Lemma dflt_param_pos n : 1 <= dflt_param n 1.
Proof. unfold dflt_param. destruct (N.eqb_spec n 0); lia. Qed.
Lemma dflt_param_id n d : 1 <= n -> dflt_param n d = n.
Proof. intros H. unfold dflt_param. destruct (N.eqb_spec n 0); [lia|reflexivity]. Qed.

(* ---- from actions to commands ---- *)

(* the command a C0 control byte stands for *)
Definition mv_of_exec (b : N) : option mv :=
  if b =? 8 then Some MBs else if b =? 9 then Some MHt else if b =? 13 then Some MCr else None.

(* the command a CSI without intermediates stands for, with ANY parameter list *)
Definition mv_of_csi (ps : list (list N)) (c : N) : option mv :=
  if c =? 65 then Some (MCuu (canon1 ps 1))
  else if c =? 66 then Some (MCud (canon1 ps 1))
  else if c =? 67 then Some (MCuf (canon1 ps 1))
  else if c =? 68 then Some (MCub (canon1 ps 1))
  else if c =? 69 then Some (MCnl (canon1 ps 1))
  else if c =? 70 then Some (MCpl (canon1 ps 1))
  else if c =? 71 then Some (MCha (canon1 ps 1))
  else if c =? 72 then Some (MCup (canon1 ps 1) (canon1 (tl ps) 1))
  else if c =? 100 then Some (MVpa (canon1 ps 1))
  else None.

Lemma mv_of_csi_wf ps c m : mv_of_csi ps c = Some m -> mv_wf m.
Proof.
  unfold mv_of_csi. intros E.
  repeat match type of E with (if ?b then _ else _) = _ => destruct b end; inv E; cbn;
    try split; apply canon1_pos.
Qed.
Lemma mv_of_exec_wf b m : mv_of_exec b = Some m -> mv_wf m.
Proof.
  unfold mv_of_exec. intros E.
  repeat match type of E with (if ?b then _ else _) = _ => destruct b end; inv E; exact I.
Qed.

Lemma noev_ok r s : r = Ok s -> noev r = Ok (s, []).
Proof. intros ->. reflexivity. Qed.

Lemma do_execute_mv s b m : mv_of_exec b = Some m -> do_execute s b = (do s1 <- sop m s; Ok (s1, [])).
Proof.
  unfold mv_of_exec. intros E.
  destruct (N.eqb_spec b 8) as [->|]; [inv E; reflexivity|].
  destruct (N.eqb_spec b 9) as [->|]; [inv E; reflexivity|].
  destruct (N.eqb_spec b 13) as [->|]; [inv E; reflexivity|]. discriminate.
Qed.

Lemma do_csi_mv rz s ps c m : mv_of_csi ps c = Some m -> do_csi rz s ps [] c = noev (sop m s).
Proof.
  unfold mv_of_csi. intros E.
  destruct (N.eqb_spec c 65) as [->|]; [inv E; reflexivity|].
  destruct (N.eqb_spec c 66) as [->|]; [inv E; reflexivity|].
  destruct (N.eqb_spec c 67) as [->|]; [inv E; reflexivity|].
  destruct (N.eqb_spec c 68) as [->|]; [inv E; reflexivity|].
  destruct (N.eqb_spec c 69) as [->|]; [inv E; reflexivity|].
  destruct (N.eqb_spec c 70) as [->|]; [inv E; reflexivity|].
  destruct (N.eqb_spec c 71) as [->|]; [inv E; reflexivity|].
  destruct (N.eqb_spec c 72) as [->|]; [inv E; reflexivity|].
  destruct (N.eqb_spec c 100) as [->|]; [inv E; reflexivity|]. discriminate.
Qed.

(* general form: ANY parameter list, any ignore flag *)
Theorem perform_exec_move rz s b m : screen_ok s -> mv_of_exec b = Some m ->
  perform rz s (AExecute b) = Ok (smoved s m, []).
Proof.
  intros H E. cbn [perform]. rewrite (do_execute_mv s b m E).
  rewrite (sop_spec s m H (mv_of_exec_wf _ _ E)). reflexivity.
Qed.

Theorem perform_csi_move rz s ps ign c m : screen_ok s -> mv_of_csi ps c = Some m ->
  perform rz s (ACsi ps [] ign c) = Ok (smoved s m, []).
Proof.
  intros H E. cbn [perform]. rewrite (do_csi_mv rz s ps c m E).
  apply noev_ok. apply sop_spec; [exact H|exact (mv_of_csi_wf _ _ _ E)].
Qed.

(* the canonical action of a command: parameter list [[n]] (CUP: [[r];[c]]) *)
Definition action_of_mv (m : mv) : action :=
  match m with
  | MBs => AExecute 8 | MHt => AExecute 9 | MCr => AExecute 13
  | MCuu n => ACsi [[n]] [] false 65
  | MCud n => ACsi [[n]] [] false 66
  | MCuf n => ACsi [[n]] [] false 67
  | MCub n => ACsi [[n]] [] false 68
  | MCnl n => ACsi [[n]] [] false 69
  | MCpl n => ACsi [[n]] [] false 70
  | MCha n => ACsi [[n]] [] false 71
  | MVpa n => ACsi [[n]] [] false 100
  | MCup r c => ACsi [[r]; [c]] [] false 72
  end.

(* zero parameters mean 1 *)
Definition norm_mv (m : mv) : mv :=
  match m with
  | MBs => MBs | MHt => MHt | MCr => MCr
  | MCuu n => MCuu (dflt_param n 1) | MCud n => MCud (dflt_param n 1)
  | MCuf n => MCuf (dflt_param n 1) | MCub n => MCub (dflt_param n 1)
  | MCnl n => MCnl (dflt_param n 1) | MCpl n => MCpl (dflt_param n 1)
  | MCha n => MCha (dflt_param n 1) | MVpa n => MVpa (dflt_param n 1)
  | MCup r c => MCup (dflt_param r 1) (dflt_param c 1)
  end.

Lemma norm_mv_wf m : mv_wf (norm_mv m).
Proof. destruct m; cbn; try split; try exact I; apply dflt_param_pos. Qed.
Lemma norm_mv_id m : mv_wf m -> norm_mv m = m.
Proof.
  destruct m; cbn; intros W; try reflexivity; try destruct W as [W1 W2]; rewrite ?dflt_param_id by assumption; reflexivity.
Qed.

(* C06, raw parameters: the action with parameter n (possibly 0) performs the command with n defaulted *)
Theorem perform_action_of_mv rz s m : screen_ok s ->
  perform rz s (action_of_mv m) = Ok (smoved s (norm_mv m), []).
Proof.
  intros H. destruct m; cbn [action_of_mv norm_mv];
    first [ apply perform_exec_move; [exact H|reflexivity] | apply perform_csi_move; [exact H|reflexivity] ].
Qed.

(* C06, item 1 *)
Theorem C06_move rz s m : screen_ok s -> mv_wf m ->
  perform rz s (action_of_mv m) =
  Ok (with_cur s (with_pos (cur s) (fst (move_spec (cst_of (cur s)) m)) (snd (move_spec (cst_of (cur s)) m))), []).
Proof. intros H W. rewrite perform_action_of_mv by exact H. rewrite norm_mv_id by exact W. reflexivity. Qed.

(* ================================================================== *)
(* 3. Frame: what a cursor-only update leaves alone                   *)
(* ================================================================== *)

(* everything of a screen outside the current grid *)
Record scr_rest (s s' : screen) : Prop := mkScrRest {
  sr_altmode : altmode s' = altmode s;
  sr_other : if altmode s then g s' = g s else alt s' = alt s;     (* the grid not in use *)
  sr_pen : pen s' = pen s;
  sr_spen : spen s' = spen s;
  sr_keypad : keypad s' = keypad s;
  sr_appcur : appcur s' = appcur s;
  sr_hide : hide s' = hide s;
  sr_paste : paste s' = paste s;
  sr_mmode : mmode s' = mmode s;
  sr_menc : menc s' = menc s }.

(* everything of a grid except cursor, region and origin mode:
   size, all cells and wrap flags (live), saved cursor, scrollback *)
Record grid_rest (x y : grid) : Prop := mkGridRest {
  gr_rows : grows y = grows x;
  gr_cols : gcols y = gcols x;
  gr_live : live y = live x;
  gr_sprow : sprow y = sprow x;
  gr_spcol : spcol y = spcol x;
  gr_sorigin : sorigin y = sorigin x;
  gr_sb : sb y = sb x;
  gr_sbcap : sb_cap y = sb_cap x;
  gr_sboff : sb_off y = sb_off x }.

Lemma cur_with_cur s y : cur (with_cur s y) = y.
Proof. unfold cur, with_cur. destruct (altmode s) eqn:E; cbn; rewrite E; reflexivity. Qed.

Lemma scr_rest_with_cur s y : scr_rest s (with_cur s y).
Proof. unfold with_cur. destruct (altmode s) eqn:E; split; cbn; rewrite ?E; reflexivity. Qed.

Lemma grid_rest_with_pos x r c : grid_rest x (with_pos x r c).
Proof. split; reflexivity. Qed.

(* a screen differs from another only in the cursor position of the current grid *)
Record cursor_only (s s' : screen) : Prop := mkCursorOnly {
  cu_scr : scr_rest s s';
  cu_grid : grid_rest (cur s) (cur s');
  cu_top : top (cur s') = top (cur s);
  cu_bot : bot (cur s') = bot (cur s);
  cu_origin : origin (cur s') = origin (cur s) }.

Lemma cursor_only_with_pos s r c : cursor_only s (with_cur s (with_pos (cur s) r c)).
Proof.
  split; rewrite ?cur_with_cur; try reflexivity.
  - apply scr_rest_with_cur.
  - apply grid_rest_with_pos.
Qed.

Theorem smoved_frame s m : cursor_only s (smoved s m).
Proof. apply cursor_only_with_pos. Qed.

(* corollaries in plain terms, for every movement action *)
Theorem C06_move_frame rz s m s' evs : screen_ok s -> mv_wf m ->
  perform rz s (action_of_mv m) = Ok (s', evs) ->
  evs = [] /\
  live (cur s') = live (cur s) /\           (* every cell and wrap flag *)
  sb (cur s') = sb (cur s) /\ sb_off (cur s') = sb_off (cur s) /\
  pen s' = pen s /\ spen s' = spen s /\
  top (cur s') = top (cur s) /\ bot (cur s') = bot (cur s) /\
  origin (cur s') = origin (cur s) /\
  sprow (cur s') = sprow (cur s) /\ spcol (cur s') = spcol (cur s) /\ sorigin (cur s') = sorigin (cur s) /\
  grows (cur s') = grows (cur s) /\ gcols (cur s') = gcols (cur s) /\
  altmode s' = altmode s /\
  (if altmode s then g s' = g s else alt s' = alt s) /\
  (prow (cur s'), pcol (cur s')) = move_spec (cst_of (cur s)) m.
Proof.
  intros H W E. rewrite (C06_move rz s m H W) in E. inv E.
  set (p := move_spec (cst_of (cur s)) m).
  destruct (cursor_only_with_pos s (fst p) (snd p)) as [[] [] ? ? ?].
  repeat (split; [solve [auto]|]). rewrite cur_with_cur. cbn. destruct p; reflexivity.
Qed.

(* the screen invariant is kept and the new cursor is in bounds (item 4) *)
Theorem C06_move_bounds s m : screen_ok s -> mv_wf m ->
  let x := cur s in
  let '(r', c') := move_spec (cst_of x) m in
  r' < grows x /\ c' <= gcols x /\
  (c' < gcols x \/ (touches_col m = false /\ c' = pcol x /\ pcol x = gcols x)).
Proof.
  intros H W. cbv zeta. exact (move_spec_bounds (cst_of (cur s)) m (cst_of_ok _ (cur_ok _ H)) W).
Qed.

Theorem smoved_ok s m : screen_ok s -> mv_wf m -> screen_ok (smoved s m).
Proof.
  intros H W. pose proof (cur_ok _ H) as O. pose proof (C06_move_bounds s m H W) as B. cbv zeta in B.
  unfold smoved, moved. destruct (move_spec (cst_of (cur s)) m) as [r' c']. cbn [fst snd].
  destruct B as (B1 & B2 & _).
  apply with_cur_ok; [exact H| |apply frame_pos]. apply ok_with_pos; [apply O|exact B1|exact B2].
Qed.

(* ================================================================== *)
(* 4. DECSTBM                                                         *)
(* ================================================================== *)

Definition set_region (x : grid) (tb : N * N) : grid :=
  with_pos (with_region x (fst tb) (snd tb)) (fst tb) 0.

(* general parameter list *)
Theorem perform_decstbm rz s ps ign : screen_ok s ->
  perform rz s (ACsi ps [] ign 114) =
  Ok (with_cur s (set_region (cur s)
        (decstbm_spec (grows (cur s)) (first_sub (hd_error ps)) (first_sub (hd_error (tl ps))))), []).
Proof.
  intros H. pose proof (cur_ok _ H) as O. okdims.
  cbn [perform]. unfold do_csi. gsimp. unfold canon2.
  fold (dflt_param (first_sub (hd_error ps)) 1).
  fold (dflt_param (first_sub (hd_error (tl ps))) (grows (cur s))).
  set (t := first_sub (hd_error ps)). set (b := first_sub (hd_error (tl ps))).
  assert (1 <= dflt_param t 1) as Ht by apply dflt_param_pos.
  assert (1 <= dflt_param b (grows (cur s))) as Hb by (unfold dflt_param; destruct (N.eqb_spec b 0); lia).
  apply noev_ok. unfold scr_decstbm. apply on_cur_eq.
  rewrite !sub16_ok by lia. cbn [bind]. rewrite set_scroll_region_eq by lia. cbv zeta.
  unfold set_region, decstbm_spec. cbv zeta.
  destruct (dflt_param t 1 - 1 <? N.min (dflt_param b (grows (cur s)) - 1) (grows (cur s) - 1)); reflexivity.
Qed.

(* C06, item 2 *)
Theorem C06_decstbm rz s t b : screen_ok s ->
  perform rz s (ACsi [[t]; [b]] [] false 114) =
  Ok (with_cur s (set_region (cur s) (decstbm_spec (grows (cur s)) t b)), []).
Proof. intros H. apply perform_decstbm. exact H. Qed.

(* a single parameter, or none: bottom defaults to the last line *)
Theorem C06_decstbm_one rz s t : screen_ok s ->
  perform rz s (ACsi [[t]] [] false 114) =
  Ok (with_cur s (set_region (cur s) (decstbm_spec (grows (cur s)) t 0)), []).
Proof. intros H. apply perform_decstbm. exact H. Qed.

Record region_only (s s' : screen) : Prop := mkRegionOnly {
  ro_scr : scr_rest s s';
  ro_grid : grid_rest (cur s) (cur s');
  ro_origin : origin (cur s') = origin (cur s) }.

Theorem set_region_frame s tb :
  let s' := with_cur s (set_region (cur s) tb) in
  region_only s s' /\
  top (cur s') = fst tb /\ bot (cur s') = snd tb /\ prow (cur s') = fst tb /\ pcol (cur s') = 0.
Proof.
  cbv zeta. rewrite !cur_with_cur. split; [|cbn; auto].
  split; rewrite ?cur_with_cur; try reflexivity.
  - apply scr_rest_with_cur.
  - split; reflexivity.
Qed.

Theorem set_region_ok s t b : screen_ok s ->
  screen_ok (with_cur s (set_region (cur s) (decstbm_spec (grows (cur s)) t b))).
Proof.
  intros H. pose proof (cur_ok _ H) as O. okdims.
  pose proof (decstbm_spec_region (grows (cur s)) t b) as R.
  destruct (decstbm_spec (grows (cur s)) t b) as [t' b']. unfold set_region. cbn [fst snd].
  destruct R as [R1 R2]; [lia|].
  apply with_cur_ok; [exact H| |eapply frame_trans; [apply frame_region|apply frame_pos]].
  apply ok_with_pos; cbn; try lia. apply okc_with_region; auto.
Qed.

Theorem C06_decstbm_frame rz s t b s' evs : screen_ok s ->
  perform rz s (ACsi [[t]; [b]] [] false 114) = Ok (s', evs) ->
  let tb := decstbm_spec (grows (cur s)) t b in
  evs = [] /\
  top (cur s') = fst tb /\ bot (cur s') = snd tb /\
  prow (cur s') = fst tb /\ pcol (cur s') = 0 /\
  live (cur s') = live (cur s) /\ sb (cur s') = sb (cur s) /\ sb_off (cur s') = sb_off (cur s) /\
  pen s' = pen s /\ spen s' = spen s /\
  origin (cur s') = origin (cur s) /\
  sprow (cur s') = sprow (cur s) /\ spcol (cur s') = spcol (cur s) /\ sorigin (cur s') = sorigin (cur s) /\
  grows (cur s') = grows (cur s) /\ gcols (cur s') = gcols (cur s) /\
  altmode s' = altmode s /\
  (if altmode s then g s' = g s else alt s' = alt s) /\
  screen_ok s'.
Proof.
  intros H E. cbv zeta. pose proof (set_region_ok s t b H) as O2.
  rewrite (C06_decstbm rz s t b H) in E. inv E.
  destruct (set_region_frame s (decstbm_spec (grows (cur s)) t b)) as ([[] [] ?] & ? & ? & ? & ?).
  repeat (split; [solve [auto]|]). exact O2.
Qed.

(* ================================================================== *)
(* 5. Origin mode (DECOM, CSI ? 6 h / l)                              *)
(* ================================================================== *)

Definition set_origin (x : grid) (m : bool) : grid :=
  with_pos (with_origin x m) (if m then top x else 0) 0.

Lemma set_origin_mode_eq x m : grid_ok x -> set_origin_mode x m = Ok (set_origin x m).
Proof.
  intros H. okdims. unfold set_origin_mode, set_origin. rewrite grid_set_pos_eq by (cbn; lia).
  f_equal. apply with_pos_eq; [|lia]. cbn. unfold sat_add16, U16MAX, MAXDIM in *. destruct m; lia.
Qed.

Theorem C06_origin_set rz s ign : screen_ok s ->
  perform rz s (ACsi [[6]] [63] ign 104) = Ok (with_cur s (set_origin (cur s) true), []).
Proof.
  intros H. cbn [perform]. unfold do_csi. gsimp.
  unfold scr_decset. cbn [fold_params]. unfold decset1. cbn [single]. gsimp.
  rewrite (on_cur_eq s _ _ (set_origin_mode_eq (cur s) true (cur_ok _ H))). reflexivity.
Qed.

Theorem C06_origin_reset rz s ign : screen_ok s ->
  perform rz s (ACsi [[6]] [63] ign 108) = Ok (with_cur s (set_origin (cur s) false), []).
Proof.
  intros H. cbn [perform]. unfold do_csi. gsimp.
  unfold scr_decrst. cbn [fold_params]. unfold decrst1. cbn [single]. gsimp.
  rewrite (on_cur_eq s _ _ (set_origin_mode_eq (cur s) false (cur_ok _ H))). reflexivity.
Qed.

Record origin_only (s s' : screen) : Prop := mkOriginOnly {
  oo_scr : scr_rest s s';
  oo_grid : grid_rest (cur s) (cur s');
  oo_top : top (cur s') = top (cur s);
  oo_bot : bot (cur s') = bot (cur s) }.

Theorem set_origin_frame s m :
  let s' := with_cur s (set_origin (cur s) m) in
  origin_only s s' /\ origin (cur s') = m /\
  prow (cur s') = (if m then top (cur s) else 0) /\ pcol (cur s') = 0.
Proof.
  cbv zeta. rewrite !cur_with_cur. split; [|cbn; auto].
  split; rewrite ?cur_with_cur; try reflexivity.
  - apply scr_rest_with_cur.
  - split; reflexivity.
Qed.

Theorem set_origin_ok s m : screen_ok s -> screen_ok (with_cur s (set_origin (cur s) m)).
Proof.
  intros H. pose proof (cur_ok _ H) as O.
  destruct (set_origin_mode_post (cur s) m O) as (y & E & Oy & Fy).
  rewrite (set_origin_mode_eq _ m O) in E. inv E. now apply with_cur_ok.
Qed.

Theorem C06_origin_frame rz s (m : bool) s' evs : screen_ok s ->
  perform rz s (ACsi [[6]] [63] false (if m then 104 else 108)) = Ok (s', evs) ->
  evs = [] /\ origin (cur s') = m /\
  prow (cur s') = (if m then top (cur s) else 0) /\ pcol (cur s') = 0 /\
  top (cur s') = top (cur s) /\ bot (cur s') = bot (cur s) /\
  live (cur s') = live (cur s) /\ sb (cur s') = sb (cur s) /\ sb_off (cur s') = sb_off (cur s) /\
  pen s' = pen s /\ spen s' = spen s /\
  sprow (cur s') = sprow (cur s) /\ spcol (cur s') = spcol (cur s) /\ sorigin (cur s') = sorigin (cur s) /\
  grows (cur s') = grows (cur s) /\ gcols (cur s') = gcols (cur s) /\
  altmode s' = altmode s /\
  (if altmode s then g s' = g s else alt s' = alt s) /\
  screen_ok s'.
Proof.
  intros H E. pose proof (set_origin_ok s m H) as O2.
  assert (s' = with_cur s (set_origin (cur s) m) /\ evs = []) as [-> ->].
  { destruct m; [rewrite C06_origin_set in E by exact H|rewrite C06_origin_reset in E by exact H]; inv E; auto. }
  destruct (set_origin_frame s m) as ([[] [] ? ?] & ? & ? & ?).
  repeat (split; [solve [auto]|]). exact O2.
Qed.
