(* CapInv.v — the two cell clauses that C01 needs beyond cell_wf are invariants of every history:
   (1) cell_cap: a character is only ever appended to a text of fewer than 18 bytes;
   (2) colours in range (pen_ok) for every cell and for the pen / saved pen (AttrsInv.v).
   Hence source_ok holds for every reachable screen (at any scrollback offset whose visible rows
   all have the width of the screen; in particular at offset 0).
   Also: cell_wf alone does not imply cell_cap, and cell_cap is necessary for the replay. *)
Require Import Tac ListN Utf8 Width Attrs Cell Row Grid Screen Vte Perform Parser Term Emit.
Require Import RowInv GridInv TextInv ScreenInv CellWf WfGrid WfVte WfInv WrapInv WrapInvScreen SgrSpec EmitSafe AttrsInv.
Require Import CellInv Recv RowPaint Redraw Cursor C01Main.
Open Scope N_scope.

(* ------------------------------------------------------------------ *)
(* (1) capacity                                                         *)
(* ------------------------------------------------------------------ *)
Lemma cap_clear a c : cell_cap (cell_clear a c).
Proof. intros p z q E _. destruct p; discriminate. Qed.

Lemma cap_set ch a c : cell_cap (cell_set ch a c).
Proof.
  intros p z q E Hne. cbn [cell_set ctext] in E. destruct p as [|x p]; [congruence|].
  inv E. destruct p; discriminate.
Qed.

Lemma app_eq_snoc {A} (p q t : list A) (z ch : A) : p ++ z :: q = t ++ [ch] ->
  (q = [] /\ p = t /\ z = ch) \/ (exists q', q = q' ++ [ch] /\ p ++ z :: q' = t).
Proof.
  intros E. destruct (exists_last (l := z :: q)) as (q0 & last & Eq); [discriminate|].
  destruct q as [|y q].
  - left. change (p ++ [z] = t ++ [ch]) in E. apply app_inj_tail in E as [-> ->]. auto.
  - right. destruct (exists_last (l := y :: q)) as (q' & last' & Eq'); [discriminate|].
    exists q'. rewrite Eq' in E. change (p ++ z :: q' ++ [last'] = t ++ [ch]) in E.
    replace (p ++ z :: q' ++ [last']) with ((p ++ z :: q') ++ [last']) in E by (rewrite <- app_assoc; reflexivity).
    apply app_inj_tail in E as [E1 ->]. split; [exact Eq'|exact E1].
Qed.

Lemma cap_append ch c : cell_cap c -> cell_cap (cell_append ch c).
Proof.
  intros H. unfold cell_append, cell_len.
  destruct (N.leb_spec 18 (text_len (ctext c))) as [L|L]; [exact H|].
  destruct (N.eqb_spec (text_len (ctext c)) 0) as [Z|Z].
  - intros p z q E Hne. cbn [ctext] in E.
    destruct p as [|x [|y p]]; [congruence| |].
    + inv E. vm_compute. reflexivity.
    + inv E. destruct p; discriminate.
  - intros p z q E Hne. cbn [ctext] in E. symmetry in E.
    apply app_eq_snoc in E as [(_ & -> & _)|(q' & _ & E)]; [exact L|]. exact (H p z q' (eq_sym E) Hne).
Qed.

Lemma cap_cont b c : cell_cap c -> cell_cap (cell_set_cont b c).
Proof. intros H. exact H. Qed.

Definition screen_cap : screen -> Prop := screenP cell_cap (fun _ => True).

Theorem perform_cap rz s a s' evs : perform rz s a = Ok (s', evs) -> screen_cap s -> screen_cap s'.
Proof.
  apply perform_P; auto.
  - intros a0 c _. apply cap_clear.
  - intros ch a0 c _. apply cap_set.
  - intros ch c. apply cap_append.
Qed.

Theorem run_cap ops p q : run p ops = Ok q -> screen_cap (scr p) -> screen_cap (scr q).
Proof.
  apply run_P; auto.
  - intros a0 c _. apply cap_clear.
  - intros ch a0 c _. apply cap_set.
  - intros ch c. apply cap_append.
Qed.

Theorem parser_new_cap rows cols cap rz p : parser_new rows cols cap rz = Ok p -> screen_cap (scr p).
Proof. apply parser_new_P; auto. intros a0 c _. apply cap_clear. Qed.

(* ------------------------------------------------------------------ *)
(* (2) colours in range: AttrsInv.screen_attrs_ok (the token work) — the same invariant is also an
   instance of CellInv with P c := pen_ok (cattrs c), Q := pen_ok                       *)
(* ------------------------------------------------------------------ *)
Lemma attrs_ok_instance s : screen_attrs_ok s <-> screenP cell_aok pen_ok s.
Proof. reflexivity. Qed.

(* ------------------------------------------------------------------ *)
(* source_ok for every reachable screen                                 *)
(* ------------------------------------------------------------------ *)
Lemma screenP_cur P Q s : screenP P Q s -> gridP P (cur s).
Proof. intros (H1 & H2 & _). unfold cur. destruct (altmode s); assumption. Qed.

Theorem source_ok_of_invs S vr :
  screen_ok S -> screen_wf S -> screen_wrapinv S -> screen_cap S -> screen_attrs_ok S ->
  visible_rows (cur S) = Ok vr -> rows_width (gcols (cur S)) vr -> source_ok S vr.
Proof.
  intros Ok Wf Wi Cap At Hv Hw.
  apply source_ok_of_inv; auto.
  - apply At.
  - destruct (screenP_cur _ _ _ Cap) as [A B]. exact (visible_rows_Forall _ _ _ Hv A B).
  - destruct (screenP_cur cell_aok pen_ok _ At) as [A B]. exact (visible_rows_Forall _ _ _ Hv A B).
Qed.

(* every screen reachable through the API, viewed at scrollback offset 0 *)
Theorem reachable_source_ok rows cols cap rz ops p q :
  1 <= rows <= MAXDIM -> 1 <= cols <= MAXDIM ->
  parser_new rows cols cap rz = Ok p -> Forall op_ok ops -> run p ops = Ok q ->
  sb_off (cur (scr q)) = 0 ->
  source_ok (scr q) (live (cur (scr q))).
Proof.
  intros Hr Hc En Fo E Off.
  destruct (parser_new_ok rows cols cap rz Hr Hc) as (p' & En' & Hok). assert (p' = p) as -> by congruence.
  destruct (run_ok ops p Hok Fo) as (q' & E' & Okq). assert (q' = q) as -> by congruence.
  apply source_ok_of_invs.
  - exact (parser_ok_scr _ Okq).
  - exact (history_wf rows cols cap rz ops p q Hr Hc En Fo E).
  - exact (history_wrapinv rows cols cap rz ops p q Hr Hc En Fo E).
  - exact (run_cap ops p q E (parser_new_cap _ _ _ _ _ En)).
  - exact (run_attrs_ok ops p q (parser_new_attrs_ok _ _ _ _ _ En) E).
  - now apply ObsSpec.visible_rows_off0.
  - apply rows_width_off0; [exact (parser_ok_scr _ Okq)|exact Off].
Qed.

(* ... and at any offset whose view has no row of a different width *)
Theorem reachable_source_ok_view rows cols cap rz ops p q vr :
  1 <= rows <= MAXDIM -> 1 <= cols <= MAXDIM ->
  parser_new rows cols cap rz = Ok p -> Forall op_ok ops -> run p ops = Ok q ->
  visible_rows (cur (scr q)) = Ok vr -> rows_width (gcols (cur (scr q))) vr ->
  source_ok (scr q) vr.
Proof.
  intros Hr Hc En Fo E Hv Hw.
  destruct (parser_new_ok rows cols cap rz Hr Hc) as (p' & En' & Hok). assert (p' = p) as -> by congruence.
  destruct (run_ok ops p Hok Fo) as (q' & E' & Okq). assert (q' = q) as -> by congruence.
  apply source_ok_of_invs.
  - exact (parser_ok_scr _ Okq).
  - exact (history_wf rows cols cap rz ops p q Hr Hc En Fo E).
  - exact (history_wrapinv rows cols cap rz ops p q Hr Hc En Fo E).
  - exact (run_cap ops p q E (parser_new_cap _ _ _ _ _ En)).
  - exact (run_attrs_ok ops p q (parser_new_attrs_ok _ _ _ _ _ En) E).
  - exact Hv.
  - exact Hw.
Qed.

(* ------------------------------------------------------------------ *)
(* cell_wf does not imply cell_cap; without cell_cap the replay fails   *)
(* ------------------------------------------------------------------ *)
(* U+1F600 (4 bytes, wide) followed by nine U+0300 (2 bytes each, zero width): 22 bytes *)
Definition cex_text : list N := 128512 :: repeat 768 9.
Definition cex_cell : cell := mkCell cex_text true false dflt.

Lemma storable_768 : storable 768.
Proof. unfold storable. split; [vm_compute; reflexivity|]. lia. Qed.
Lemma storable_128512 : storable 128512.
Proof. unfold storable. split; [vm_compute; reflexivity|]. lia. Qed.

Example cex_cell_wf : cell_wf cex_cell.
Proof.
  unfold cell_wf, cex_cell, cex_text; cbn [ctext cwide ccont cattrs].
  split; [discriminate|]. split; [discriminate|]. split; [discriminate|].
  split.
  { intros ch rest E. inv E. split; [vm_compute; discriminate|]. split.
    - split; [intros _; vm_compute; reflexivity|reflexivity].
    - repeat constructor. }
  split; [vm_compute; discriminate|].
  repeat (constructor; [first [exact storable_128512|exact storable_768]|]). constructor.
Qed.

Example cex_cell_not_cap : ~ cell_cap cex_cell.
Proof.
  intros H. specialize (H (128512 :: repeat 768 8) 768 [] eq_refl ltac:(discriminate)).
  vm_compute in H. discriminate.
Qed.

(* replaying its text with Cell::set / Cell::append (what Screen::text does) yields a different
   cell: the last two marks are refused *)
Example cex_replay :
  fold_left (fun d z => cell_append z d) (repeat 768 9) (cell_set 128512 dflt cell_new) <> cex_cell.
Proof. vm_compute. discriminate. Qed.
