(* EmitTextSafe.v — the plain-text views (contents, rows, contents_between) and the
   cell / row accessors never panic (remaining read accessors of property C03).
   Supplement to EmitSafe.v. *)
Require Import Tac ListN Attrs Cell Row Grid Screen Term Emit RowInv GridInv TextInv ScreenInv EmitSafe.
Open Scope N_scope.

(* the loop keeps prev_col <= col (one more while the second half of a wide cell is pending) *)
Lemma row_text_loop_ok : forall (cs : list cell) (col : N) (pw : bool) (pcol : N) (acc : list N),
  (len cs = 0 \/ col + len cs <= MAXDIM) -> pcol <= col + (if pw then 1 else 0) ->
  exists out, row_text_loop cs col pw pcol acc = Ok out.
Proof.
  assert (HD : MAXDIM = 65520) by reflexivity.
  induction cs as [|c rest IH]; intros col pw pcol acc Hl Hp; cbn [row_text_loop]; [eauto|].
  rewrite len_cons in Hl. destruct Hl as [Hl|Hl]; [lia|].
  assert (len rest = 0 \/ col + 1 + len rest <= MAXDIM) as Hl' by (right; lia).
  destruct pw.
  - apply IH; [exact Hl'|lia].
  - destruct (has_contents c).
    + rewrite sub16_ok by lia. cbn [bind].
      rewrite add16_ok by lia. cbn [bind].
      pose proof (adv_n_le c) as Hadv.
      rewrite add16_ok by lia. cbn [bind].
      apply IH; [exact Hl'|]. unfold adv_n. destruct (cwide c); lia.
    + apply IH; [exact Hl'|]. destruct (cwide c); lia.
Qed.

Lemma len_window_le {A} (l : list A) start width :
  len (window start width l) = 0 \/ start + len (window start width l) <= len l.
Proof.
  unfold window. rewrite len_firstnN, len_skipnN.
  destruct (N.ltb_spec start (len l)); [right|left]; lia.
Qed.

(* Row::write_contents: any start, width *)
Theorem row_text_ok r start width wrapping : vrow_ok r -> exists t, row_text r start width wrapping = Ok t.
Proof.
  intros (_ & _ & Hl). unfold row_text.
  destruct (row_text_loop_ok (window start width (cells r)) start false start []) as ([t pc] & ->).
  - destruct (len_window_le (cells r) start width); [left|right]; lia.
  - lia.
  - cbn [bind]. eauto.
Qed.

Lemma contents_loop_ok cols : forall vr wrapping acc, Forall vrow_ok vr ->
  exists t, contents_loop cols vr wrapping acc = Ok t.
Proof.
  induction vr as [|rw rest IH]; intros wrapping acc F; cbn [contents_loop]; [eauto|].
  inversion F as [|? ? Frw Frest]; subst.
  destruct (row_text_ok rw 0 cols wrapping Frw) as (t & ->). cbn [bind]. now apply IH.
Qed.

Lemma map_res_ok {A B} (P : A -> Prop) (f : A -> res B) l :
  (forall a, P a -> exists b, f a = Ok b) -> Forall P l -> exists bs, map_res f l = Ok bs.
Proof.
  intros Hf F. induction F as [|a l Pa Fl IH]; cbn [map_res]; [eauto|].
  destruct (Hf a Pa) as (b & ->). cbn [bind]. destruct IH as (bs & ->). cbn [bind]. eauto.
Qed.

Lemma between_loop_ok cols sr sc er ecol : forall vr i acc, Forall vrow_ok vr ->
  exists t, between_loop cols sr sc er ecol vr i acc = Ok t.
Proof.
  induction vr as [|rw rest IH]; intros i acc F; cbn [between_loop]; [eauto|].
  inversion F as [|? ? Frw Frest]; subst.
  lazymatch goal with |- exists _, bind ?X _ = _ => assert (exists acc', X = Ok acc') as (acc' & ->) end.
  { destruct (i =? sr).
    - destruct (row_text_ok rw sc (sat_sub16 cols sc) false Frw) as (t & ->). cbn [bind]. eauto.
    - destruct (i =? er).
      + destruct (row_text_ok rw 0 ecol false Frw) as (t & ->). cbn [bind]. eauto.
      + destruct (row_text_ok rw 0 cols false Frw) as (t & ->). cbn [bind]. eauto. }
  cbn [bind]. now apply IH.
Qed.

(* ---- screen level ---- *)
Theorem contents_text_ok s : screen_ok s -> exists t, contents_text s = Ok t.
Proof.
  intros H. unfold contents_text.
  destruct (visible_rows_ok (cur s) (cur_ok _ H)) as (vr & -> & _ & F). cbn [bind].
  destruct (contents_loop_ok (gcols (cur s)) vr false [] F) as (t & ->). cbn [bind]. eauto.
Qed.

Theorem rows_text_ok s start width : screen_ok s -> exists out, rows_text s start width = Ok out.
Proof.
  intros H. unfold rows_text.
  destruct (visible_rows_ok (cur s) (cur_ok _ H)) as (vr & -> & _ & F). cbn [bind].
  apply (map_res_ok vrow_ok); [|exact F]. intros rw Hrw. now apply row_text_ok.
Qed.

Theorem contents_between_ok s sr sc er ecol : screen_ok s -> exists t, contents_between s sr sc er ecol = Ok t.
Proof.
  intros H. unfold contents_between.
  destruct (sr <? er).
  - destruct (visible_rows_ok (cur s) (cur_ok _ H)) as (vr & -> & _ & F). cbn [bind].
    apply between_loop_ok. now apply Forall_firstnN, Forall_skipnN.
  - destruct (sr =? er); [|eauto]. destruct (sc <? ecol); [|eauto].
    destruct (rows_text_ok s sc (ecol - sc) H) as (rs & ->). cbn [bind]. eauto.
Qed.

(* Screen::cell(row, col) and Screen::row_wrapped(row) are reads of visible_rows *)
Theorem visible_row_ok x r : grid_ok x -> exists o, visible_row x r = Ok o.
Proof.
  intros H. unfold visible_row. destruct (visible_rows_ok x H) as (vr & -> & _). cbn [bind]. eauto.
Qed.

Theorem visible_cell_ok x r c : grid_ok x -> exists o, visible_cell x r c = Ok o.
Proof.
  intros H. unfold visible_cell. destruct (visible_row_ok x r H) as (o & ->). cbn [bind]. eauto.
Qed.

Theorem C03_text_views s start width sr sc er ecol r c :
  screen_ok s ->
  (exists t, contents_text s = Ok t) /\
  (exists out, rows_text s start width = Ok out) /\
  (exists t, contents_between s sr sc er ecol = Ok t) /\
  (exists o, visible_row (cur s) r = Ok o) /\
  (exists o, visible_cell (cur s) r c = Ok o).
Proof.
  intros H. repeat split.
  - now apply contents_text_ok.
  - now apply rows_text_ok.
  - now apply contents_between_ok.
  - apply visible_row_ok, cur_ok, H.
  - apply visible_cell_ok, cur_ok, H.
Qed.
