(* Vte.v — model of vte 0.14.1 `Parser::advance` (lib.rs, params.rs), default
   features (no_std: 1024-byte OSC buffer).  Bug-faithful: see
   advance_partial_utf8 (finding K04a). *)
Require Import Base Utf8.

Inductive vstate :=
| Ground | Escape | EscapeIntermediate
| CsiEntry | CsiParam | CsiIntermediate | CsiIgnore
| DcsEntry | DcsParam | DcsIntermediate | DcsPassthrough | DcsIgnore
| OscString | SosPmApcString.

Inductive action :=
| APrint (c : N)
| AExecute (b : N)
| AHook (params : list (list N)) (inter : list N) (ign : bool) (c : N)
| APut (b : N)
| AUnhook
| AOsc (params : list (list N)) (bell : bool)
| ACsi (params : list (list N)) (inter : list N) (ign : bool) (c : N)
| AEsc (inter : list N) (ign : bool) (b : N).

Record pstate := mkP {
  vst : vstate;
  inter : list N;            (* intermediates, at most 2 *)
  ignoring : bool;
  groups : list (list N);    (* closed parameters, in order *)
  opn : list N;              (* subparameters of the parameter being built *)
  param : N;
  osc_raw : list N;
  osc_params : list (N * N);
  partial : list N }.

Definition p_init : pstate := mkP Ground [] false [] [] 0 [] [] [].

Definition set_vst (p : pstate) (v : vstate) : pstate :=
  mkP v (inter p) (ignoring p) (groups p) (opn p) (param p) (osc_raw p) (osc_params p) (partial p).
Definition set_partial (p : pstate) (l : list N) : pstate :=
  mkP (vst p) (inter p) (ignoring p) (groups p) (opn p) (param p) (osc_raw p) (osc_params p) l.
Definition set_osc (p : pstate) (raw : list N) (ps : list (N * N)) : pstate :=
  mkP (vst p) (inter p) (ignoring p) (groups p) (opn p) (param p) raw ps (partial p).
Definition set_ignoring (p : pstate) : pstate :=
  mkP (vst p) (inter p) true (groups p) (opn p) (param p) (osc_raw p) (osc_params p) (partial p).

Definition MAX_PARAMS : N := 32.
Definition MAX_OSC_RAW : N := 1024.
Definition MAX_OSC_PARAMS : N := 16.

Definition plen (p : pstate) : N := len (concat (groups p)) + len (opn p).
Definition params_full (p : pstate) : bool := plen p =? MAX_PARAMS.

(* Params::iter *)
Definition params_of (p : pstate) : list (list N) :=
  groups p ++ (match opn p with [] => [] | o => [o] end).

Definition reset_params (p : pstate) : pstate :=
  mkP (vst p) [] false [] [] 0 (osc_raw p) (osc_params p) (partial p).

Definition action_collect (p : pstate) (b : N) : pstate :=
  if len (inter p) =? 2 then set_ignoring p
  else mkP (vst p) (inter p ++ [b]) (ignoring p) (groups p) (opn p) (param p)
           (osc_raw p) (osc_params p) (partial p).

(* Params::push(self.param) *)
Definition push_param (p : pstate) : pstate :=
  mkP (vst p) (inter p) (ignoring p) (groups p ++ [opn p ++ [param p]]) [] (param p)
      (osc_raw p) (osc_params p) (partial p).

Definition action_param (p : pstate) : pstate :=
  if params_full p then set_ignoring p
  else let q := push_param p in
       mkP (vst q) (inter q) (ignoring q) (groups q) (opn q) 0 (osc_raw q) (osc_params q) (partial q).

Definition action_subparam (p : pstate) : pstate :=
  if params_full p then set_ignoring p
  else mkP (vst p) (inter p) (ignoring p) (groups p) (opn p ++ [param p]) 0
           (osc_raw p) (osc_params p) (partial p).

Definition action_paramnext (p : pstate) (b : N) : pstate :=
  if params_full p then set_ignoring p
  else mkP (vst p) (inter p) (ignoring p) (groups p) (opn p)
           (sat_add16 (sat_mul16 (param p) 10) (b - 48))
           (osc_raw p) (osc_params p) (partial p).

Definition csi_dispatch (p : pstate) (b : N) : pstate * list action :=
  let q := if params_full p then set_ignoring p else push_param p in
  (set_vst q Ground, [ACsi (params_of q) (inter q) (ignoring q) b]).

Definition action_hook (p : pstate) (b : N) : pstate * list action :=
  let q := if params_full p then set_ignoring p else push_param p in
  (set_vst q DcsPassthrough, [AHook (params_of q) (inter q) (ignoring q) b]).

Definition esc_dispatch (p : pstate) (b : N) : pstate * list action :=
  (set_vst p Ground, [AEsc (inter p) (ignoring p) b]).

Definition osc_put_param (p : pstate) : pstate :=
  let i := len (osc_raw p) in
  match osc_params p with
  | [] => set_osc p (osc_raw p) [(0, i)]
  | ps => if len ps =? MAX_OSC_PARAMS then p
          else set_osc p (osc_raw p) (ps ++ [(snd (last ps (0, 0)), i)])
  end.

Definition osc_put (p : pstate) (b : N) : pstate :=
  if len (osc_raw p) =? MAX_OSC_RAW then p else set_osc p (osc_raw p ++ [b]) (osc_params p).

Definition osc_slices (p : pstate) : list (list N) :=
  map (fun be => firstnN (snd be - fst be) (skipnN (fst be) (osc_raw p))) (osc_params p).

Definition osc_end (p : pstate) (b : N) : pstate * list action :=
  let q := osc_put_param p in
  (set_osc q [] [], [AOsc (osc_slices q) (b =? 7)]).

(* byte classes *)
Definition c0x (b : N) : bool := (b <=? 23) || (b =? 25) || ((28 <=? b) && (b <=? 31)).
Definition rng (lo hi b : N) : bool := (lo <=? b) && (b <=? hi).

Definition anywhere (p : pstate) (b : N) : pstate * list action :=
  if (b =? 24) || (b =? 26) then (set_vst p Ground, [AExecute b])
  else if b =? 27 then (set_vst (reset_params p) Escape, [])
  else (p, []).

Definition adv_csi_entry (p : pstate) (b : N) : pstate * list action :=
  if c0x b then (p, [AExecute b])
  else if rng 32 47 b then (set_vst (action_collect p b) CsiIntermediate, [])
  else if rng 48 57 b then (set_vst (action_paramnext p b) CsiParam, [])
  else if b =? 58 then (set_vst (action_subparam p) CsiParam, [])
  else if b =? 59 then (set_vst (action_param p) CsiParam, [])
  else if rng 60 63 b then (set_vst (action_collect p b) CsiParam, [])
  else if rng 64 126 b then csi_dispatch p b
  else anywhere p b.

Definition adv_csi_ignore (p : pstate) (b : N) : pstate * list action :=
  if c0x b then (p, [AExecute b])
  else if rng 32 63 b then (p, [])
  else if rng 64 126 b then (set_vst p Ground, [])
  else if b =? 127 then (p, [])
  else anywhere p b.

Definition adv_csi_intermediate (p : pstate) (b : N) : pstate * list action :=
  if c0x b then (p, [AExecute b])
  else if rng 32 47 b then (action_collect p b, [])
  else if rng 48 63 b then (set_vst p CsiIgnore, [])
  else if rng 64 126 b then csi_dispatch p b
  else anywhere p b.

Definition adv_csi_param (p : pstate) (b : N) : pstate * list action :=
  if c0x b then (p, [AExecute b])
  else if rng 32 47 b then (set_vst (action_collect p b) CsiIntermediate, [])
  else if rng 48 57 b then (action_paramnext p b, [])
  else if b =? 58 then (action_subparam p, [])
  else if b =? 59 then (action_param p, [])
  else if rng 60 63 b then (set_vst p CsiIgnore, [])
  else if rng 64 126 b then csi_dispatch p b
  else if b =? 127 then (p, [])
  else anywhere p b.

Definition adv_dcs_entry (p : pstate) (b : N) : pstate * list action :=
  if c0x b then (p, [])
  else if rng 32 47 b then (set_vst (action_collect p b) DcsIntermediate, [])
  else if rng 48 57 b then (set_vst (action_paramnext p b) DcsParam, [])
  else if b =? 58 then (set_vst (action_subparam p) DcsParam, [])
  else if b =? 59 then (set_vst (action_param p) DcsParam, [])
  else if rng 60 63 b then (set_vst (action_collect p b) DcsParam, [])
  else if rng 64 126 b then action_hook p b
  else if b =? 127 then (p, [])
  else anywhere p b.

Definition adv_dcs_intermediate (p : pstate) (b : N) : pstate * list action :=
  if c0x b then (p, [])
  else if rng 32 47 b then (action_collect p b, [])
  else if rng 48 63 b then (set_vst p DcsIgnore, [])
  else if rng 64 126 b then action_hook p b
  else if b =? 127 then (p, [])
  else anywhere p b.

Definition adv_dcs_param (p : pstate) (b : N) : pstate * list action :=
  if c0x b then (p, [])
  else if rng 32 47 b then (set_vst (action_collect p b) DcsIntermediate, [])
  else if rng 48 57 b then (action_paramnext p b, [])
  else if b =? 58 then (action_subparam p, [])
  else if b =? 59 then (action_param p, [])
  else if rng 60 63 b then (set_vst p DcsIgnore, [])
  else if rng 64 126 b then action_hook p b
  else if b =? 127 then (p, [])
  else anywhere p b.

Definition adv_dcs_passthrough (p : pstate) (b : N) : pstate * list action :=
  if c0x b || rng 28 126 b then (p, [APut b])
  else if (b =? 24) || (b =? 26) then (set_vst p Ground, [AUnhook; AExecute b])
  else if b =? 27 then (set_vst (reset_params p) Escape, [AUnhook])
  else if b =? 127 then (p, [])
  else if b =? 156 then (set_vst p Ground, [AUnhook])
  else (p, []).

Definition adv_esc (p : pstate) (b : N) : pstate * list action :=
  if c0x b then (p, [AExecute b])
  else if rng 32 47 b then (set_vst (action_collect p b) EscapeIntermediate, [])
  else if rng 48 79 b then esc_dispatch p b
  else if b =? 80 then (set_vst (reset_params p) DcsEntry, [])
  else if rng 81 87 b then esc_dispatch p b
  else if b =? 88 then (set_vst p SosPmApcString, [])
  else if rng 89 90 b then esc_dispatch p b
  else if b =? 91 then (set_vst (reset_params p) CsiEntry, [])
  else if b =? 92 then esc_dispatch p b
  else if b =? 93 then (set_vst (set_osc p [] []) OscString, [])
  else if rng 94 95 b then (set_vst p SosPmApcString, [])
  else if rng 96 126 b then esc_dispatch p b
  else if (b =? 24) || (b =? 26) then (set_vst p Ground, [AExecute b])
  else (p, []).

Definition adv_esc_intermediate (p : pstate) (b : N) : pstate * list action :=
  if c0x b then (p, [AExecute b])
  else if rng 32 47 b then (action_collect p b, [])
  else if rng 48 126 b then esc_dispatch p b
  else if b =? 127 then (p, [])
  else anywhere p b.

Definition adv_osc_string (p : pstate) (b : N) : pstate * list action :=
  if (b <=? 6) || rng 8 23 b || (b =? 25) || rng 28 31 b then (p, [])
  else if b =? 7 then let '(q, a) := osc_end p b in (set_vst q Ground, a)
  else if (b =? 24) || (b =? 26) then
    let '(q, a) := osc_end p b in (set_vst q Ground, a ++ [AExecute b])
  else if b =? 27 then let '(q, a) := osc_end p b in (set_vst (reset_params q) Escape, a)
  else if b =? 59 then
    if len (osc_raw p) =? MAX_OSC_RAW then (p, []) else (osc_put_param p, [])
  else (osc_put p b, []).

Definition change_state (p : pstate) (b : N) : pstate * list action :=
  match vst p with
  | CsiEntry => adv_csi_entry p b
  | CsiIgnore => adv_csi_ignore p b
  | CsiIntermediate => adv_csi_intermediate p b
  | CsiParam => adv_csi_param p b
  | DcsEntry => adv_dcs_entry p b
  | DcsIgnore => anywhere p b
  | DcsIntermediate => adv_dcs_intermediate p b
  | DcsParam => adv_dcs_param p b
  | DcsPassthrough => adv_dcs_passthrough p b
  | Escape => adv_esc p b
  | EscapeIntermediate => adv_esc_intermediate p b
  | OscString => adv_osc_string p b
  | SosPmApcString => anywhere p b
  | Ground => (p, [])   (* unreachable!() in the code: never called in Ground *)
  end.

Definition ground_action (c : N) : action :=
  if (c <=? 31) || rng 128 159 c then AExecute c else APrint c.

Fixpoint find_esc (bs : list N) : N :=
  match bs with
  | [] => 0
  | b :: r => if b =? 27 then 0 else 1 + find_esc r
  end.

Definition REPL : N := 65533.   (* U+FFFD *)

Definition enter_escape (p : pstate) : pstate := reset_params (set_vst p Escape).

(* advance_ground: returns the new state, the actions, and the bytes consumed *)
Definition advance_ground (p : pstate) (bs : list N) : pstate * list action * N :=
  let num := len bs in
  let plain := find_esc bs in
  if plain =? 0 then (enter_escape p, [], 1)
  else
    let '(chars, valid, stop) := from_utf8 (firstnN plain bs) in
    let acts := map ground_action chars in
    match stop with
    | UOk => if plain <? num then (enter_escape p, acts, plain + 1) else (p, acts, plain)
    | UErr l =>
      let b := nth (N.to_nat valid) bs 0 in
      (p, acts ++ [if (l =? 1) && (b <=? 159) then AExecute b else APrint REPL], valid + l)
    | UPartial =>
      if plain <? num then (enter_escape p, acts ++ [APrint REPL], plain + 1)
      else (set_partial p (partial p ++ skipnN valid bs), acts, num)
    end.

(* advance_partial_utf8: bug-faithful (consumes valid_bytes - old_bytes) *)
Definition advance_partial (p : pstate) (bs : list N) : pstate * list action * N :=
  let old := len (partial p) in
  let to_copy := N.min (len bs) (4 - old) in
  let buf := partial p ++ firstnN to_copy bs in
  let '(chars, valid, stop) := from_utf8 buf in
  match stop with
  | UOk =>
    let c := hd 0 chars in
    (set_partial p [], [APrint c], utf8_len c - old)
  | _ =>
    if 0 <? valid then (set_partial p [], [APrint (hd 0 chars)], valid - old)
    else match stop with
         | UErr l => (set_partial p [], [APrint REPL], l - old)
         | _ => (set_partial p buf, [], to_copy)
         end
  end.

Fixpoint advance_loop (fuel : nat) (p : pstate) (bs : list N) (acc : list action)
  : pstate * list action :=
  match fuel with
  | O => (p, acc)
  | S fuel =>
    match bs with
    | [] => (p, acc)
    | b :: rest =>
      match vst p with
      | Ground =>
        let '(q, a, n) := advance_ground p bs in
        advance_loop fuel q (skipnN n bs) (acc ++ a)
      | _ =>
        let '(q, a) := change_state p b in
        advance_loop fuel q rest (acc ++ a)
      end
    end
  end.

Definition advance (p : pstate) (bs : list N) : pstate * list action :=
  match partial p with
  | [] => advance_loop (S (length bs)) p bs []
  | _ =>
    let '(q, a, n) := advance_partial p bs in
    advance_loop (S (length bs)) q (skipnN n bs) a
  end.
