(* DiffK10.v — C02 on the complement of the D10 class.
   k10 P S: some row r (not the last) is soft-wrapped in both screens, P has a wide character at
   column cols-2 of that row where S has no contents, and the first cells of row r+1 are equal.
   On every other pair of reachable screens of equal size (scrollback offset 0) the round trip of
   DiffRound.v holds.  This file: the rows loop with the wrap carries, the grid, the screen. *)
Require Import Tac ListN Utf8 Width Attrs Cell Row Grid Screen Vte Perform Term Emit
  RowInv GridInv TextInv ScreenInv ParseSer CellWf WfGrid WfVte WfInv EraseSpec SgrSpec MoveSpec PrintSpec
  CellBytes EmitSafe WrapInv WrapInvScreen ObsSpec Recv RowPaint Redraw Cursor C01Main DiffPaint DiffGrid DiffMain DiffWrap.
Open Scope N_scope.

(* ------------------------------------------------------------------ *)
(* 1. the predicate                                                     *)
(* ------------------------------------------------------------------ *)
Definition cellat (r : row) (c : N) : cell := match get (cells r) c with Some x => x | None => cell_new end.

(* the five conditions on rows r (p, s) and r+1 (p1, s1) *)
Definition k10_at (cols : N) (p s p1 s1 : row) : bool :=
  wrapped p && wrapped s && cwide (cellat p (cols - 2)) && negb (has_contents (cellat s (cols - 2)))
  && cell_eqb (cellat p1 0) (cellat s1 0).

Fixpoint k10_rows (cols : N) (pv sv : list row) : bool :=
  match pv, sv with
  | p :: prest, s :: srest =>
    (match prest, srest with
     | p1 :: _, s1 :: _ => k10_at cols p s p1 s1
     | _, _ => false
     end) || k10_rows cols prest srest
  | _, _ => false
  end.

Definition k10 (P S : screen) : bool :=
  (2 <=? gcols (cur P)) && k10_rows (gcols (cur P)) (live (cur P)) (live (cur S)).

Lemma k10_rows_false cols : forall pv sv i p s p1 s1, k10_rows cols pv sv = false ->
  get pv i = Some p -> get sv i = Some s -> get pv (i + 1) = Some p1 -> get sv (i + 1) = Some s1 ->
  k10_at cols p s p1 s1 = false.
Proof.
  induction pv as [|p0 prest IH]; intros sv i p s p1 s1 Hk G1 G2 G3 G4.
  - unfold get in G1. destruct (N.to_nat i); discriminate.
  - destruct sv as [|s0 srest]; [unfold get in G2; destruct (N.to_nat i); discriminate|].
    cbn [k10_rows] in Hk. apply orb_false_elim in Hk as [Hk1 Hk2].
    rewrite get_cons in G1, G2, G3, G4.
    destruct (N.eqb_spec (i + 1) 0); [lia|].
    destruct (N.eqb_spec i 0) as [->|Hi].
    + inv G1. inv G2. change (0 + 1 - 1) with 0 in G3, G4.
      destruct prest as [|p1' ?]; [unfold get in G3; discriminate|].
      destruct srest as [|s1' ?]; [unfold get in G4; discriminate|].
      unfold get in G3, G4. cbn in G3, G4. inv G3. inv G4. exact Hk1.
    + apply (IH srest (i - 1) p s p1 s1 Hk2 G1 G2).
      * replace (i - 1 + 1) with (i + 1 - 1) by lia. exact G3.
      * replace (i - 1 + 1) with (i + 1 - 1) by lia. exact G4.
Qed.

(* the Prop form used by the proof *)
Definition K10free (cols : N) (pvr vr : list row) : Prop :=
  forall i p s p1 s1, get pvr i = Some p -> get vr i = Some s -> get pvr (i + 1) = Some p1 -> get vr (i + 1) = Some s1 ->
    wrapped p = true -> wrapped s = true -> 2 <= cols -> fw (cells p) (cols - 2) = true ->
    (forall x, get (cells s) (cols - 2) = Some x -> has_contents x = false) ->
    get (cells s1) 0 <> get (cells p1) 0.

Lemma k10_rows_free cols pvr vr : k10_rows cols pvr vr = false ->
  Forall (fun r => len (cells r) = cols) pvr -> Forall (fun r => len (cells r) = cols) vr -> K10free cols pvr vr.
Proof.
  intros Hk Lp Ls i p s p1 s1 G1 G2 G3 G4 W1 W2 H2 Hfw Hnc Eq.
  pose proof (k10_rows_false cols pvr vr i p s p1 s1 Hk G1 G2 G3 G4) as F. unfold k10_at in F.
  rewrite W1, W2 in F. cbn [andb] in F.
  assert (cwide (cellat p (cols - 2)) = true) as A1.
  { unfold cellat. unfold fw in Hfw. destruct (get (cells p) (cols - 2)); [exact Hfw|discriminate]. }
  assert (has_contents (cellat s (cols - 2)) = false) as A2.
  { unfold cellat. destruct (get (cells s) (cols - 2)) eqn:E; [now apply Hnc|reflexivity]. }
  rewrite A1, A2 in F. cbn [andb negb] in F.
  assert (cellat p1 0 = cellat s1 0) as E by (unfold cellat; now rewrite Eq).
  rewrite E in F. rewrite (proj2 (cell_eqb_eq _ _) eq_refl) in F. discriminate.
Qed.

(* ------------------------------------------------------------------ *)
(* 2. the rows loop                                                     *)
(* ------------------------------------------------------------------ *)
(* the state of receiver row k = i-1 (already painted) before row i is painted *)
Definition carry_ok (R : screen) (i r c : N) (s' p' rp : row) : Prop :=
  cells rp = cells s' /\
  (wrapped s' = false -> wrapped rp = false) /\
  (wrapped s' = true -> wrapped rp = true \/
     (wrapped rp = false /\ r + 1 = i /\ c = gcols (g R) /\ (wrapped p' = true -> Wcond R s' p'))).

Lemma wrapinv_last cols rw : len (cells rw) = cols -> row_wrapinv rw -> wrapped rw = true ->
  exists lc, get (cells rw) (cols - 1) = Some lc /\ has_contents lc || ccont lc = true.
Proof.
  intros Hl Hw Ew. destruct (Hw Ew) as (c & Hc & Ho). rewrite Hl in Hc. exists c. split; [exact Hc|].
  destruct Ho as [-> | ->]; [reflexivity|apply orb_true_r].
Qed.

(* Wcond is what the repaired loop tests (Emit.clears_wrap) *)
Lemma Wcond_clears R s' p' : Wcond R s' p' -> clears_wrap (gcols (g R)) s' p' = true.
Proof.
  intros (H2 & Hfw & Hnc). unfold clears_wrap, row_get.
  destruct (N.leb_spec 2 (gcols (g R))); [|lia]. cbn [andb].
  unfold fw in Hfw. destruct (get (cells p') (gcols (g R) - 2)); [|discriminate]. rewrite Hfw. cbn [andb].
  destruct (get (cells s') (gcols (g R) - 2)) as [x|] eqn:G; [|reflexivity]. now rewrite (Hnc x eq_refl).
Qed.

Lemma rows_diff_loop_all R vr pvr : canvas R ->
  vrows_ok (gcols (g R)) vr -> vrows_ok (gcols (g R)) pvr ->
  len vr = grows (g R) -> len pvr = grows (g R) ->
  forall rest prest i w pw l r c a acc,
    (forall k, k < len rest -> get rest k = get vr (i + k)) ->
    (forall k, k < len rest -> get prest k = get pvr (i + k)) ->
    len prest = len rest -> i + len rest = grows (g R) ->
    cv R l r c -> pen_ok a ->
    (forall k, k + 1 < i -> get l k = get vr k) ->
    (forall k, i <= k < grows (g R) -> get l k = get pvr k) ->
    (i = 0 -> w = false /\ pw = false) ->
    (1 <= i -> exists s' p' rp, get vr (i - 1) = Some s' /\ get pvr (i - 1) = Some p' /\ get l (i - 1) = Some rp /\
                 w = wrapped s' /\ pw = wrapped p' && negb (clears_wrap (gcols (g R)) s' p') /\
                 carry_ok R i r c s' p' rp) ->
    exists ts r' c' a' l',
      rows_diff_loop (gcols (g R)) (zip rest prest) i w pw (r, c) a acc = Ok (acc ++ ts, (r', c'), a') /\
      plays (rcv R l r c a) ts (rcv R l' r' c' a') /\ cv R l' r' c' /\ pen_ok a' /\
      (forall k, k + 1 < grows (g R) -> get l' k = get vr k) /\
      (exists s' p' rp, get vr (grows (g R) - 1) = Some s' /\ get pvr (grows (g R) - 1) = Some p' /\
         get l' (grows (g R) - 1) = Some rp /\ carry_ok R (grows (g R)) r' c' s' p' rp).
Proof.
  intros HR [Hvr Hvwi] [Hpvr Hpwi] Lvr Lpvr.
  pose proof (canvas_dims _ HR) as (D1 & D2 & _).
  induction rest as [|src rest IH]; intros prest i w pw l r c a acc Hseg Hpseg Hlp Hlen Hcv Pa Hdone Htodo Hz Hcar.
  - rewrite len_nil in Hlen. exists [], r, c, a, l. cbn [zip rows_diff_loop]. rewrite app_nil_r.
    split; [reflexivity|]. split; [apply plays_nil|]. split; [exact Hcv|]. split; [exact Pa|].
    assert (i = grows (g R)) as -> by lia.
    split; [exact Hdone|]. destruct (Hcar ltac:(lia)) as (s' & p' & rp & G1 & G2 & G3 & _ & _ & C). eauto 10.
  - destruct prest as [|prev prest]; [rewrite len_nil, len_cons in Hlp; lia|].
    rewrite !len_cons in *. cbn [zip rows_diff_loop].
    assert (get vr i = Some src) as Hsrc.
    { specialize (Hseg 0 ltac:(lia)). replace (i + 0) with i in Hseg by lia. rewrite <- Hseg. reflexivity. }
    assert (get pvr i = Some prev) as Hprev.
    { specialize (Hpseg 0 ltac:(lia)). replace (i + 0) with i in Hpseg by lia. rewrite <- Hpseg. reflexivity. }
    pose proof (Forall_get _ _ _ _ Hvr Hsrc) as Sok. pose proof (Forall_get _ _ _ _ Hpvr Hprev) as Pok.
    pose proof (Forall_get _ _ _ _ Hvwi Hsrc) as Swi. pose proof (Forall_get _ _ _ _ Hpwi Hprev) as Pwi.
    assert (get l i = Some prev) as Gi by (rewrite Htodo by lia; exact Hprev).
    assert (len l = grows (g R)) as Ll by apply Hcv.
    (* the receiver's row i-1 and the carry-in *)
    assert (exists rp, (w = true ->
              1 <= i /\ get l (i - 1) = Some rp /\
              (exists lc, get (cells rp) (gcols (g R) - 1) = Some lc /\ has_contents lc || ccont lc = true) /\
              (wrapped rp = true \/ (r + 1 = i /\ c = gcols (g R) /\ (pw = true -> get (cells src) 0 <> get (cells prev) 0)))) /\
            (1 <= i -> exists s' p', get vr (i - 1) = Some s' /\ get pvr (i - 1) = Some p' /\ get l (i - 1) = Some rp /\
                          w = wrapped s' /\ pw = wrapped p' && negb (clears_wrap (gcols (g R)) s' p') /\
                          carry_ok R i r c s' p' rp)) as (rp & Hw & Hrp).
    { destruct (N.eq_dec i 0) as [->|Hi0].
      - exists prev. destruct (Hz eq_refl) as [-> _]. split; [discriminate|lia].
      - destruct (Hcar ltac:(lia)) as (s' & p' & rp & G1 & G2 & G3 & Ew & Epw & (Ec & Cf & Ct)).
        exists rp. split; [|intros _; exists s', p'; unfold carry_ok; auto 10].
        intros Ewt. rewrite Ew in Ewt. split; [lia|]. split; [exact G3|].
        pose proof (Forall_get _ _ _ _ Hvr G1) as S'ok. pose proof (Forall_get _ _ _ _ Hvwi G1) as S'wi.
        split; [rewrite Ec; exact (wrapinv_last _ s' (sr_len _ _ S'ok) S'wi Ewt)|].
        destruct (Ct Ewt) as [Ef|(Ef & E1 & E2 & Hwc)]; [now left|]. right. split; [exact E1|]. split; [exact E2|].
        (* the repaired loop: prev_wrapping is switched off exactly when the flag may have been lost *)
        intros Epwt. exfalso. rewrite Epw in Epwt. apply andb_prop in Epwt as [Ewp Ecl].
        rewrite (Wcond_clears R s' p' (Hwc Ewp)) in Ecl. discriminate. }
    destruct (row_diff_wrap R i src prev w pw l rp r c a ltac:(lia) Sok Pok Swi Pwi Hcv Pa Gi Hw)
      as (ts & r1 & c1 & a1 & ri & -> & P1 & C1 & Pa1 & Eci & Cf1 & Ct1).
    cbn [bind].
    set (l1 := set_at (wLfin i w l rp) i ri) in *.
    assert (len (wLfin i w l rp) = grows (g R)) as LL.
    { unfold wLfin, wflagged. destruct w; rewrite ?len_set_at; exact Ll. }
    assert (get l1 i = Some ri) as G1i.
    { unfold l1. rewrite get_set_at. destruct (N.eqb_spec i i); [|lia]. rewrite LL.
      destruct (N.ltb_spec i (grows (g R))); [reflexivity|lia]. }
    assert (forall k, k <> i -> k + 1 <> i -> get l1 k = get l k) as Oth.
    { intros k H1 H2. unfold l1. rewrite get_set_at. destruct (N.eqb_spec k i); [lia|].
      unfold wLfin, wflagged. destruct w; [|reflexivity]. rewrite get_set_at. destruct (N.eqb_spec k (i - 1)); [lia|reflexivity]. }
    destruct (IH prest (i + 1) (wrapped src) (wrapped prev && negb (clears_wrap (gcols (g R)) src prev)) l1 r1 c1 a1 (acc ++ ts))
      as (ts2 & r2 & c2 & a2 & l2 & E2 & P2 & C2 & Pa2 & Hall & Hlastrow); auto.
    { intros k Hk. specialize (Hseg (k + 1) ltac:(lia)). rewrite get_cons in Hseg.
      destruct (N.eqb_spec (k + 1) 0); [lia|]. replace (k + 1 - 1) with k in Hseg by lia.
      replace (i + 1 + k) with (i + (k + 1)) by lia. exact Hseg. }
    { intros k Hk. specialize (Hpseg (k + 1) ltac:(lia)). rewrite get_cons in Hpseg.
      destruct (N.eqb_spec (k + 1) 0); [lia|]. replace (k + 1 - 1) with k in Hpseg by lia.
      replace (i + 1 + k) with (i + (k + 1)) by lia. exact Hpseg. }
    { lia. } { lia. }
    { (* rows < i *)
      intros k Hk. destruct (N.eq_dec (k + 1) i) as [Ek|Nk].
      - (* row i-1 gets its final flag *)
        assert (k = i - 1) as -> by lia.
        destruct (Hrp ltac:(lia)) as (s' & p' & G1 & G2 & G3 & Ew & Epw & (Ec & Cf & Ct)).
        rewrite G1. unfold l1. rewrite get_set_at. destruct (N.eqb_spec (i - 1) i); [lia|].
        unfold wLfin, wflagged. destruct (wrapped s') eqn:Ews; rewrite Ew.
        + rewrite get_set_at, N.eqb_refl. rewrite Ll. destruct (N.ltb_spec (i - 1) (grows (g R))); [|lia].
          f_equal. apply row_ext; [exact Ec|]. cbn. now rewrite Ews.
        + rewrite G3. f_equal. apply row_ext; [exact Ec|]. rewrite Ews. now apply Cf.
      - rewrite Oth by lia. apply Hdone. lia. }
    { intros k Hk. rewrite Oth by lia. apply Htodo. lia. }
    { lia. }
    { intros _. exists src, prev, ri. replace (i + 1 - 1) with i by lia.
      split; [exact Hsrc|]. split; [exact Hprev|]. split; [exact G1i|]. split; [reflexivity|]. split; [reflexivity|].
      split; [exact Eci|]. split; [exact Cf1|]. intros Ews. destruct (Ct1 Ews) as [?|(A1 & A2 & A3 & A4)]; [now left|].
      right. split; [exact A1|]. split; [lia|]. auto. }
    exists (ts ++ ts2), r2, c2, a2, l2. rewrite E2, app_assoc.
    split; [reflexivity|]. split; [eapply plays_app; eauto|]. auto.
Qed.

(* ------------------------------------------------------------------ *)
(* 3. the grid part of contents_diff                                    *)
(* ------------------------------------------------------------------ *)
Theorem grid_diff_plays_all R x px vr pvr pa :
  canvas R -> vrows_ok (gcols (g R)) vr -> vrows_ok (gcols (g R)) pvr ->
  (forall src, get vr (grows (g R) - 1) = Some src -> wrapped src = false) ->
  visible_rows x = Ok vr -> visible_rows px = Ok pvr ->
  len vr = grows (g R) -> len pvr = grows (g R) -> gcols x = gcols (g R) ->
  prow x < grows (g R) -> pcol x <= gcols (g R) ->
  cv R pvr (prow px) (pcol px) -> pen_ok pa ->
  exists ts a' R2,
    grid_contents_diff x px pa = Ok (ts, a') /\
    plays (rcv R pvr (prow px) (pcol px) pa) ts (rcv R2 vr (prow x) (pcol x) a') /\
    cv R2 vr (prow x) (pcol x) /\ same_base R R2 /\ pen_ok a'.
Proof.
  intros HR Hvr Hpvr Hlast Hv Hpv Lvr Lpvr Hgc Hpr Hpc Hcv Pa.
  pose proof (canvas_dims _ HR) as (D1 & D2 & _).
  destruct (rows_diff_loop_all R vr pvr HR Hvr Hpvr Lvr Lpvr vr pvr 0 false false pvr (prow px) (pcol px) pa [])
    as (ts1 & r1 & c1 & a1 & l1 & E1 & P1 & C1 & Pa1 & Hall & (s' & p' & rp & G1 & G2 & G3 & (Ec & Cf & _))).
  { intros k Hk. replace (0 + k) with k by lia. reflexivity. }
  { intros k Hk. replace (0 + k) with k by lia. reflexivity. }
  { lia. } { lia. } { exact Hcv. } { exact Pa. }
  { intros k Hk. lia. }
  { intros k Hk. reflexivity. }
  { auto. } { intros Hk. lia. }
  cbn [app] in E1.
  assert (l1 = vr) as ->.
  { apply list_ext_get. intros k. destruct (N.lt_ge_cases k (grows (g R))) as [Hk|Hk].
    - destruct (N.eq_dec (k + 1) (grows (g R))) as [Ek|Nk]; [|apply Hall; lia].
      assert (k = grows (g R) - 1) as -> by lia. rewrite G3, G1. f_equal.
      apply row_ext; [exact Ec|]. rewrite (Hlast s' G1). apply Cf, (Hlast s' G1).
    - assert (get l1 k = None) as ->.
      { apply get_none_ge. assert (len l1 = grows (g R)) as -> by apply C1. exact Hk. }
      symmetry. apply get_none_ge. lia. }
  assert (rows_agree vr vr (grows (g R))) as Hag.
  { intros k Hk. destruct (get_lt_some vr k) as (rw & Hrw); [lia|]. exists rw, rw. auto. }
  destruct (cursor_fixup R vr r1 c1 a1 x vr C1 Pa1 Hag Hvr Lvr Hv Hgc Hpr Hpc) as (ts2 & R2 & E2 & P2 & C2 & SB).
  unfold grid_contents_diff. rewrite Hv, Hpv. cbn [bind]. rewrite Hgc, E1. cbn [bind]. rewrite E2. cbn [bind].
  exists (ts1 ++ ts2), a1, R2. split; [reflexivity|]. split; [eapply plays_app; eauto|]. auto.
Qed.

(* the statement of the previous stage (the K10free hypothesis is no longer needed) *)
Corollary grid_diff_plays_K R x px vr pvr pa :
  canvas R -> vrows_ok (gcols (g R)) vr -> vrows_ok (gcols (g R)) pvr ->
  K10free (gcols (g R)) pvr vr ->
  (forall src, get vr (grows (g R) - 1) = Some src -> wrapped src = false) ->
  visible_rows x = Ok vr -> visible_rows px = Ok pvr ->
  len vr = grows (g R) -> len pvr = grows (g R) -> gcols x = gcols (g R) ->
  prow x < grows (g R) -> pcol x <= gcols (g R) ->
  cv R pvr (prow px) (pcol px) -> pen_ok pa ->
  exists ts a' R2,
    grid_contents_diff x px pa = Ok (ts, a') /\
    plays (rcv R pvr (prow px) (pcol px) pa) ts (rcv R2 vr (prow x) (pcol x) a') /\
    cv R2 vr (prow x) (pcol x) /\ same_base R R2 /\ pen_ok a'.
Proof. intros HR Hvr Hpvr _. now apply grid_diff_plays_all. Qed.

(* ------------------------------------------------------------------ *)
(* 4. contents_diff / state_diff on a receiver that shows P             *)
(* ------------------------------------------------------------------ *)
Theorem contents_diff_plays_all S P R vr pvr ts :
  source_ok S vr -> source_ok P pvr ->
  (forall src, get vr (grows (cur S) - 1) = Some src -> wrapped src = false) ->
  grows (cur S) = grows (cur P) -> gcols (cur S) = gcols (cur P) ->
  shows P R pvr -> contents_diff_t S P = Ok ts ->
  exists R', plays R ts R' /\ shows S R' vr /\
             keypad R' = keypad R /\ appcur R' = appcur R /\ paste R' = paste R /\
             mmode R' = mmode R /\ menc R' = menc R.
Proof.
  intros HS HP Hlast Er Ec [CR B1 B2 B3 B4 B5 B6 B7] Ets.
  destruct (source_dims _ _ HS) as (Lvr & Hpr & Hpc). destruct (source_dims _ _ HP) as (Lpvr & _ & _).
  set (R1 := with_hide R (hide S)).
  assert (canvas R1) as CR1 by (apply canvas_with_hide; exact CR).
  assert (plays R (if Bool.eqb (hide S) (hide P) then [] else [t_hide_cursor (hide S)]) R1) as P0.
  { destruct (Bool.eqb (hide S) (hide P)) eqn:Eh; [|apply plays_hide].
    apply eqb_prop in Eh. unfold R1. rewrite Eh, <- B6, with_hide_same. apply plays_nil. }
  assert (R1 = rcv R1 pvr (prow (cur P)) (pcol (cur P)) (pen P)) as ER1.
  { rewrite <- (rcv_id R1) at 1. change (g R1) with (g R). change (pen R1) with (pen R). congruence. }
  assert (cv R1 pvr (prow (cur P)) (pcol (cur P))) as Hcv.
  { pose proof (cv_id _ CR1) as H. change (g R1) with (g R) in H. rewrite B3, B4, B5 in H. exact H. }
  change (g R1) with (g R) in Hcv.
  assert (vrows_ok (gcols (g R)) vr) as Q1 by (rewrite B2, <- Ec; apply (so_rows _ _ HS)).
  assert (vrows_ok (gcols (g R)) pvr) as Q2 by (rewrite B2; apply (so_rows _ _ HP)).
  assert (forall src, get vr (grows (g R) - 1) = Some src -> wrapped src = false) as QL by (rewrite B1, <- Er; exact Hlast).
  assert (len vr = grows (g R)) as Q3 by congruence.
  assert (len pvr = grows (g R)) as Q4 by congruence.
  assert (gcols (cur S) = gcols (g R)) as Q5 by congruence.
  assert (prow (cur S) < grows (g R)) as Q6 by (rewrite B1, <- Er; exact Hpr).
  assert (pcol (cur S) <= gcols (g R)) as Q7 by (rewrite B2, <- Ec; exact Hpc).
  destruct (grid_diff_plays_all R1 (cur S) (cur P) vr pvr (pen P) CR1 Q1 Q2 QL (so_vis _ _ HS) (so_vis _ _ HP)
              Q3 Q4 Q5 Q6 Q7 Hcv (so_pen _ _ HP)) as (ts1 & a1 & R2 & E1 & P1 & C1 & SB & Pa1).
  unfold contents_diff_t in Ets. rewrite E1 in Ets. cbn [bind] in Ets. inv Ets.
  exists (rcv R2 vr (prow (cur S)) (pcol (cur S)) (pen S)).
  destruct SB as [SBc SBr SBcl SBh SBk SBa SBp SBm SBe].
  change (g R1) with (g R) in SBr, SBcl.
  split; [|split].
  - eapply plays_app; [exact P0|]. rewrite ER1. eapply plays_app; [exact P1|].
    apply plays_attrs_diff. apply (so_pen _ _ HS).
  - split; cbn [rcv with_pen with_g g live grows gcols prow pcol with_pos with_live hide pen]; try congruence; try reflexivity.
    + apply cv_canvas_rcv. exact C1.
    + rewrite SBh. reflexivity.
  - cbn [rcv with_pen with_g keypad appcur paste mmode menc]. rewrite SBk, SBa, SBp, SBm, SBe. repeat split; reflexivity.
Qed.

Theorem state_diff_plays_all S P R vr pvr ts :
  source_ok S vr -> source_ok P pvr ->
  (forall src, get vr (grows (cur S) - 1) = Some src -> wrapped src = false) ->
  grows (cur S) = grows (cur P) -> gcols (cur S) = gcols (cur P) ->
  shows P R pvr -> same_modes P R -> state_diff_t S P = Ok ts ->
  exists R', plays R ts R' /\ shows S R' vr /\ same_modes S R'.
Proof.
  intros HS HP Hlast Er Ec Sh (M1 & M2 & M3 & M4 & M5) Ets.
  unfold state_diff_t in Ets. bind_inv Ets. inv Ets.
  destruct (contents_diff_plays_all S P R vr pvr v HS HP Hlast Er Ec Sh E)
    as (R1 & P1 & [A0 A1 A2 A3 A4 A5 A6 A7] & K1 & K2 & K3 & K4 & K5).
  exists (with_modes R1 S). split; [|split].
  - eapply plays_app; [exact P1|]. apply plays_input_mode_diff; congruence.
  - split; auto. now apply canvas_with_modes.
  - repeat split; reflexivity.
Qed.

Corollary state_diff_obs_all S P R ts :
  source_ok S (live (cur S)) -> source_ok P (live (cur P)) ->
  (forall src, get (live (cur S)) (grows (cur S) - 1) = Some src -> wrapped src = false) ->
  sb_off (cur S) = 0 ->
  grows (cur S) = grows (cur P) -> gcols (cur S) = gcols (cur P) ->
  shows P R (live (cur P)) -> same_modes P R -> state_diff_t S P = Ok ts ->
  exists R', play false R ts = Ok (R', []) /\ canvas R' /\ obs R' = obs S /\
             shows S R' (live (cur S)) /\ same_modes S R'.
Proof.
  intros HS HP Hlast Off Er Ec Sh Sm Ets.
  destruct (state_diff_plays_all S P R _ _ ts HS HP Hlast Er Ec Sh Sm Ets) as (R' & P' & Sh' & Sm').
  exists R'. split; [exact P'|]. split; [apply Sh'|]. split; [now apply shows_obs|]. auto.
Qed.

(* the statements of the previous stage (the K10free hypothesis is no longer needed) *)
Corollary contents_diff_plays_K S P R vr pvr ts :
  source_ok S vr -> source_ok P pvr -> K10free (gcols (cur S)) pvr vr ->
  (forall src, get vr (grows (cur S) - 1) = Some src -> wrapped src = false) ->
  grows (cur S) = grows (cur P) -> gcols (cur S) = gcols (cur P) ->
  shows P R pvr -> contents_diff_t S P = Ok ts ->
  exists R', plays R ts R' /\ shows S R' vr /\
             keypad R' = keypad R /\ appcur R' = appcur R /\ paste R' = paste R /\
             mmode R' = mmode R /\ menc R' = menc R.
Proof. intros HS HP _. now apply contents_diff_plays_all. Qed.

Corollary state_diff_plays_K S P R vr pvr ts :
  source_ok S vr -> source_ok P pvr -> K10free (gcols (cur S)) pvr vr ->
  (forall src, get vr (grows (cur S) - 1) = Some src -> wrapped src = false) ->
  grows (cur S) = grows (cur P) -> gcols (cur S) = gcols (cur P) ->
  shows P R pvr -> same_modes P R -> state_diff_t S P = Ok ts ->
  exists R', plays R ts R' /\ shows S R' vr /\ same_modes S R'.
Proof. intros HS HP _. now apply state_diff_plays_all. Qed.

Corollary state_diff_obs_K S P R ts :
  source_ok S (live (cur S)) -> source_ok P (live (cur P)) ->
  K10free (gcols (cur S)) (live (cur P)) (live (cur S)) ->
  (forall src, get (live (cur S)) (grows (cur S) - 1) = Some src -> wrapped src = false) ->
  sb_off (cur S) = 0 ->
  grows (cur S) = grows (cur P) -> gcols (cur S) = gcols (cur P) ->
  shows P R (live (cur P)) -> same_modes P R -> state_diff_t S P = Ok ts ->
  exists R', play false R ts = Ok (R', []) /\ canvas R' /\ obs R' = obs S /\
             shows S R' (live (cur S)) /\ same_modes S R'.
Proof. intros HS HP _. now apply state_diff_obs_all. Qed.
