(* Recv.v — Stage 1 of C01/C15: what each token the emitters use does to a
   "canvas" receiver, at the level of actions ([play]).  Closed forms. *)
Require Import Tac ListN Utf8 Width Attrs Cell Row Grid Screen Vte Perform Term Emit
  RowInv GridInv TextInv ScreenInv ParseSer CellWf WfGrid WfVte WfInv EraseSpec SgrSpec MoveSpec PrintSpec.
Open Scope N_scope.

(* ------------------------------------------------------------------ *)
(* 1. play                                                              *)
(* ------------------------------------------------------------------ *)
Definition play (rz : bool) (R : screen) (ts : list token) : res (screen * list event) :=
  perform_all rz R (flat_map acts_of ts) [].

(* [plays R ts R']: the tokens run without panic, without events, and give R' *)
Definition plays (R : screen) (ts : list token) (R' : screen) : Prop := play false R ts = Ok (R', []).

Lemma perform_all_app rz a1 : forall a2 s evs,
  perform_all rz s (a1 ++ a2) evs =
  (do '(s1, e1) <- perform_all rz s a1 evs; perform_all rz s1 a2 e1).
Proof.
  induction a1 as [|a r IH]; intros a2 s evs; cbn [app perform_all bind].
  - reflexivity.
  - destruct (perform rz s a) as [[s1 e]|k]; cbn [bind]; [apply IH|reflexivity].
Qed.

Lemma plays_nil R : plays R [] R.
Proof. reflexivity. Qed.

Lemma plays_app R ts1 R1 ts2 R2 : plays R ts1 R1 -> plays R1 ts2 R2 -> plays R (ts1 ++ ts2) R2.
Proof.
  unfold plays, play. intros H1 H2. rewrite flat_map_app, perform_all_app, H1. cbn [bind]. exact H2.
Qed.

Lemma plays_cons R t R1 ts R2 : plays R [t] R1 -> plays R1 ts R2 -> plays R (t :: ts) R2.
Proof. intros H1 H2. change (t :: ts) with ([t] ++ ts). eapply plays_app; eauto. Qed.

Lemma plays_app_inv R ts1 ts2 R2 : plays R (ts1 ++ ts2) R2 ->
  exists R1, plays R ts1 R1 /\ plays R1 ts2 R2.
Proof.
  unfold plays, play. rewrite flat_map_app, perform_all_app. intros H.
  destruct (perform_all false R (flat_map acts_of ts1) []) as [[s1 e1]|k] eqn:E; cbn [bind] in H; [|discriminate].
  assert (e1 = []) as ->.
  { clear E. revert H. generalize (flat_map acts_of ts2) as acts. intros acts. revert s1 e1.
    induction acts as [|a r IH]; intros s1 e1 H; cbn [perform_all] in H.
    - inv H. reflexivity.
    - destruct (perform false s1 a) as [[s2 e]|k]; cbn [bind] in H; [|discriminate].
      apply IH in H. destruct e1; [reflexivity|discriminate]. }
  exists s1. split; [reflexivity|exact H].
Qed.

(* one action without events *)
Lemma plays_one_act R t a R' : acts_of t = [a] -> perform false R a = Ok (R', []) -> plays R [t] R'.
Proof.
  intros Ha Hp. unfold plays, play. cbn [flat_map]. rewrite Ha. cbn [app perform_all]. rewrite Hp. reflexivity.
Qed.

(* ------------------------------------------------------------------ *)
(* 2. canvas receivers and the closed form [rcv]                        *)
(* ------------------------------------------------------------------ *)
Definition canvas (R : screen) : Prop :=
  screen_ok R /\ screen_wf R /\ altmode R = false /\ top (g R) = 0 /\ bot (g R) = grows (g R) - 1 /\
  origin (g R) = false /\ sb_off (g R) = 0.

(* R with new live rows, cursor and pen *)
Definition rcv (R : screen) (l : list row) (r c : N) (a : attrs) : screen :=
  with_pen (with_g R (with_pos (with_live (g R) l) r c)) a.

Lemma rcv_id R : rcv R (live (g R)) (prow (g R)) (pcol (g R)) (pen R) = R.
Proof. destruct R as [x]; destruct x; reflexivity. Qed.

Lemma rcv_rcv R l r c a l' r' c' a' : rcv (rcv R l r c a) l' r' c' a' = rcv R l' r' c' a'.
Proof. reflexivity. Qed.

Lemma live_rcv R l r c a : live (g (rcv R l r c a)) = l. Proof. reflexivity. Qed.
Lemma prow_rcv R l r c a : prow (g (rcv R l r c a)) = r. Proof. reflexivity. Qed.
Lemma pcol_rcv R l r c a : pcol (g (rcv R l r c a)) = c. Proof. reflexivity. Qed.
Lemma pen_rcv R l r c a : pen (rcv R l r c a) = a. Proof. reflexivity. Qed.
Lemma grows_rcv R l r c a : grows (g (rcv R l r c a)) = grows (g R). Proof. reflexivity. Qed.
Lemma gcols_rcv R l r c a : gcols (g (rcv R l r c a)) = gcols (g R). Proof. reflexivity. Qed.
Lemma hide_rcv R l r c a : hide (rcv R l r c a) = hide R. Proof. reflexivity. Qed.

(* the rows of a canvas *)
Definition rows_good (rows cols : N) (l : list row) : Prop :=
  len l = rows /\ Forall (row_ok cols) l /\ Forall row_wf l.

Lemma canvas_cur R : canvas R -> cur R = g R.
Proof. intros (_ & _ & A & _). unfold cur. now rewrite A. Qed.

Lemma canvas_with_cur R y : canvas R -> with_cur R y = with_g R y.
Proof. intros (_ & _ & A & _). unfold with_cur. now rewrite A. Qed.

Lemma canvas_dims R : canvas R ->
  1 <= grows (g R) <= MAXDIM /\ 1 <= gcols (g R) <= MAXDIM /\ prow (g R) < grows (g R) /\ pcol (g R) <= gcols (g R).
Proof.
  intros (O & _). destruct (so_g _ O) as (K & Hr & Hc).
  pose proof (gk_rows _ K). pose proof (gk_cols _ K). auto.
Qed.

Lemma canvas_rows_good R : canvas R -> rows_good (grows (g R)) (gcols (g R)) (live (g R)).
Proof.
  intros (O & (W & _) & _). destruct (so_g _ O) as (K & _).
  split; [apply (gk_live _ K)|]. split; [apply (gk_rowsok _ K)|apply W].
Qed.

Lemma canvas_rcv R l r c a : canvas R -> rows_good (grows (g R)) (gcols (g R)) l ->
  r < grows (g R) -> c <= gcols (g R) -> canvas (rcv R l r c a).
Proof.
  intros (O & (Wg & Wa) & A & T & B & Og & Sb) (Ll & Lo & Lw) Hr Hc.
  destruct (so_g _ O) as (K & _).
  split; [|split; [|auto]].
  - destruct O. split; cbn; auto.
    apply ok_with_pos; cbn; auto. apply okc_with_live; auto.
  - split; [|exact Wa]. split; cbn; [exact Lw|apply Wg].
Qed.

Lemma rows_good_set rows cols l i rw : rows_good rows cols l -> row_ok cols rw -> row_wf rw ->
  rows_good rows cols (set_at l i rw).
Proof.
  intros (Ll & Lo & Lw) Ho Hw. split; [now rewrite len_set_at|].
  split; apply Forall_set_at; auto.
Qed.

Lemma rows_good_get rows cols l i rw : rows_good rows cols l -> get l i = Some rw ->
  row_ok cols rw /\ row_wf rw.
Proof. intros (Ll & Lo & Lw) Hg. split; eapply Forall_get; eauto. Qed.

(* canvas is preserved by any action that keeps the fixed fields *)
Lemma perform_canvas R a R' evs : canvas R -> perform false R a = Ok (R', evs) -> action_scalar a ->
  altmode R' = false -> top (g R') = 0 -> bot (g R') = grows (g R') - 1 -> origin (g R') = false ->
  sb_off (g R') = 0 -> canvas R'.
Proof.
  intros (O & W & _) E Ha H1 H2 H3 H4 H5.
  destruct (perform_ok false R a O) as (s' & e' & E' & O'). rewrite E in E'. inv E'.
  split; [exact O'|]. split; [eapply perform_wf; eauto|]. auto.
Qed.

(* ------------------------------------------------------------------ *)
(* 3. facts about a canvas in [rcv] form                                *)
(* ------------------------------------------------------------------ *)
Record cv (R : screen) (l : list row) (r c : N) : Prop := mkCv {
  cv_canvas : canvas R;
  cv_rows : rows_good (grows (g R)) (gcols (g R)) l;
  cv_r : r < grows (g R);
  cv_c : c <= gcols (g R) }.

Lemma cv_canvas_rcv R l r c a : cv R l r c -> canvas (rcv R l r c a).
Proof. intros []. now apply canvas_rcv. Qed.

Lemma canvas_rcv_cv R l r c a : canvas (rcv R l r c a) -> canvas R -> cv R l r c.
Proof.
  intros H HR. pose proof (canvas_rows_good _ H) as G. pose proof (canvas_dims _ H) as D.
  cbn [rcv g with_pen with_g with_pos with_live grows gcols live prow pcol] in G, D.
  split; auto; apply D.
Qed.

Lemma cv_id R : canvas R -> cv R (live (g R)) (prow (g R)) (pcol (g R)).
Proof.
  intros H. pose proof (canvas_dims _ H) as D. split; auto; try apply D. now apply canvas_rows_good.
Qed.

Lemma cv_dims R l r c : cv R l r c -> 1 <= grows (g R) <= MAXDIM /\ 1 <= gcols (g R) <= MAXDIM.
Proof. intros []. pose proof (canvas_dims _ cv_canvas0) as D. split; apply D. Qed.

Lemma cv_altmode R l r c : cv R l r c -> altmode R = false.
Proof. intros [(_ & _ & A & _)]. exact A. Qed.

Lemma cv_set R l r c i rw r' c' : cv R l r c -> row_ok (gcols (g R)) rw -> row_wf rw ->
  r' < grows (g R) -> c' <= gcols (g R) -> cv R (set_at l i rw) r' c'.
Proof. intros [] Ho Hw Hr Hc. split; auto. now apply rows_good_set. Qed.

Lemma cv_pos R l r c r' c' : cv R l r c -> r' < grows (g R) -> c' <= gcols (g R) -> cv R l r' c'.
Proof. intros [] Hr Hc. split; auto. Qed.

Lemma cv_get R l r c i : cv R l r c -> i < grows (g R) ->
  exists rw, get l i = Some rw /\ row_ok (gcols (g R)) rw /\ row_wf rw.
Proof.
  intros [] Hi. destruct cv_rows0 as (Ll & Lo & Lw).
  destruct (get_lt_some l i) as (rw & Hg); [lia|].
  exists rw. split; [exact Hg|]. split; eapply Forall_get; eauto.
Qed.

Lemma cur_rcv R l r c a : altmode R = false -> cur (rcv R l r c a) = with_pos (with_live (g R) l) r c.
Proof. intros A. unfold cur. cbn [altmode rcv with_pen with_g]. rewrite A. reflexivity. Qed.

Lemma with_cur_rcv R l r c a y : altmode R = false ->
  with_cur (rcv R l r c a) y = with_pen (with_g R y) a.
Proof. intros A. unfold with_cur. cbn [altmode rcv with_pen with_g]. rewrite A. reflexivity. Qed.

Lemma with_cur_rcv_pos R l r c a l' r' c' : altmode R = false ->
  with_cur (rcv R l r c a) (with_pos (with_live (cur (rcv R l r c a)) l') r' c') = rcv R l' r' c' a.
Proof. intros A. rewrite with_cur_rcv, cur_rcv by exact A. reflexivity. Qed.

Lemma grid_ok_cur_rcv R l r c a : cv R l r c -> grid_ok (cur (rcv R l r c a)).
Proof. intros H. apply cur_ok. apply (cv_canvas_rcv R l r c a H). Qed.

(* ------------------------------------------------------------------ *)
(* 4. cursor moves                                                      *)
(* ------------------------------------------------------------------ *)
Lemma smoved_rcv R l r c a m : cv R l r c ->
  smoved (rcv R l r c a) m =
  rcv R l (fst (move_spec (mkCst (grows (g R)) (gcols (g R)) 0 (grows (g R) - 1) false r c) m))
          (snd (move_spec (mkCst (grows (g R)) (gcols (g R)) 0 (grows (g R) - 1) false r c) m)) a.
Proof.
  intros H. pose proof (cv_altmode _ _ _ _ H) as A.
  destruct (cv_canvas _ _ _ _ H) as (_ & _ & _ & T & B & Og & _).
  unfold smoved, moved. rewrite with_cur_rcv by exact A. rewrite cur_rcv by exact A.
  unfold cst_of. cbn [grows gcols top bot origin prow pcol with_pos with_live]. rewrite T, B, Og.
  reflexivity.
Qed.

Lemma plays_csi_move R l r c a ps f m : cv R l r c -> mv_of_csi (ParseSer.csi_params ps) f = Some m ->
  plays (rcv R l r c a) [TCsi false ps f]
    (rcv R l (fst (move_spec (mkCst (grows (g R)) (gcols (g R)) 0 (grows (g R) - 1) false r c) m))
             (snd (move_spec (mkCst (grows (g R)) (gcols (g R)) 0 (grows (g R) - 1) false r c) m)) a).
Proof.
  intros H E. eapply plays_one_act; [reflexivity|]. cbn [negb].
  rewrite (perform_csi_move false _ _ false f m); [|apply (cv_canvas_rcv R l r c a H)|exact E].
  now rewrite smoved_rcv.
Qed.

Lemma plays_exec_move R l r c a b m : cv R l r c -> mv_of_exec b = Some m ->
  plays (rcv R l r c a) [TCtl b]
    (rcv R l (fst (move_spec (mkCst (grows (g R)) (gcols (g R)) 0 (grows (g R) - 1) false r c) m))
             (snd (move_spec (mkCst (grows (g R)) (gcols (g R)) 0 (grows (g R) - 1) false r c) m)) a).
Proof.
  intros H E. eapply plays_one_act; [reflexivity|].
  rewrite (perform_exec_move false _ b m); [|apply (cv_canvas_rcv R l r c a H)|exact E].
  now rewrite smoved_rcv.
Qed.

(* home *)
Lemma plays_home R l r c a : cv R l r c -> plays (rcv R l r c a) [TCsi false [] 72] (rcv R l 0 0 a).
Proof.
  intros H. pose proof (cv_dims _ _ _ _ H) as [D1 D2].
  pose proof (plays_csi_move R l r c a [] 72 (MCup 1 1) H eq_refl) as P.
  cbn [move_spec fst snd c_origin c_rows c_cols] in P.
  replace (N.min (1 - 1) (grows (g R) - 1)) with 0 in P by lia.
  replace (N.min (1 - 1) (gcols (g R) - 1)) with 0 in P by lia. exact P.
Qed.

(* CUP *)
Lemma plays_move_to R l r c a tr tc ts : cv R l r c -> tr < grows (g R) -> tc < gcols (g R) ->
  t_move_to tr tc = Ok ts -> plays (rcv R l r c a) ts (rcv R l tr tc a).
Proof.
  intros H Hr Hc E. pose proof (cv_dims _ _ _ _ H) as [D1 D2]. unfold MAXDIM in *.
  unfold t_move_to in E.
  destruct (N.eqb_spec tr 0) as [->|Hr0]; [destruct (N.eqb_spec tc 0) as [->|Hc0]|]; cbn [andb] in E.
  - inv E. now apply plays_home.
  - rewrite !add16_ok in E by lia. cbn [bind] in E. inv E.
    assert (mv_of_csi (ParseSer.csi_params [0 + 1; tc + 1]) 72 = Some (MCup 1 (tc + 1))) as Em.
    { unfold mv_of_csi, ParseSer.csi_params. cbn [map tl]. gsimp. rewrite !canon1_cons, !dflt_param_id by lia. reflexivity. }
    pose proof (plays_csi_move R l r c a _ 72 _ H Em) as P.
    cbn [move_spec fst snd c_origin c_rows c_cols] in P.
    replace (N.min (1 - 1) (grows (g R) - 1)) with 0 in P by lia.
    replace (N.min (tc + 1 - 1) (gcols (g R) - 1)) with tc in P by lia. exact P.
  - rewrite !add16_ok in E by lia. cbn [bind] in E. inv E.
    assert (mv_of_csi (ParseSer.csi_params [tr + 1; tc + 1]) 72 = Some (MCup (tr + 1) (tc + 1))) as Em.
    { unfold mv_of_csi, ParseSer.csi_params. cbn [map tl]. gsimp. rewrite !canon1_cons, !dflt_param_id by lia. reflexivity. }
    pose proof (plays_csi_move R l r c a _ 72 _ H Em) as P.
    cbn [move_spec fst snd c_origin c_rows c_cols] in P.
    replace (N.min (tr + 1 - 1) (grows (g R) - 1)) with tr in P by lia.
    replace (N.min (tc + 1 - 1) (gcols (g R) - 1)) with tc in P by lia. exact P.
Qed.

(* CUF *)
Lemma plays_move_right R l r c a n : cv R l r c -> c + n < gcols (g R) ->
  plays (rcv R l r c a) (t_move_right n) (rcv R l r (c + n) a).
Proof.
  intros H Hn. pose proof (cv_dims _ _ _ _ H) as [D1 D2]. unfold t_move_right.
  destruct (N.eqb_spec n 0) as [->|Hn0].
  - replace (c + 0) with c by lia. apply plays_nil.
  - destruct (N.eqb_spec n 1) as [->|Hn1].
    + pose proof (plays_csi_move R l r c a [] 67 (MCuf 1) H eq_refl) as P.
      cbn [move_spec fst snd c_row c_col c_cols] in P.
      replace (N.min (c + 1) (gcols (g R) - 1)) with (c + 1) in P by lia. exact P.
    + assert (mv_of_csi (ParseSer.csi_params [n]) 67 = Some (MCuf n)) as Em.
      { unfold mv_of_csi, ParseSer.csi_params. cbn [map]. gsimp. rewrite canon1_pos1 by lia. reflexivity. }
      pose proof (plays_csi_move R l r c a _ 67 _ H Em) as P.
      cbn [move_spec fst snd c_row c_col c_cols] in P.
      replace (N.min (c + n) (gcols (g R) - 1)) with (c + n) in P by lia. exact P.
Qed.

(* BS *)
Lemma plays_bs R l r c a : cv R l r c -> plays (rcv R l r c a) [t_bs] (rcv R l r (c - 1) a).
Proof. intros H. exact (plays_exec_move R l r c a 8 MBs H eq_refl). Qed.

(* CR *)
Lemma plays_cr R l r c a : cv R l r c -> plays (rcv R l r c a) [TCtl 13] (rcv R l r 0 a).
Proof. intros H. exact (plays_exec_move R l r c a 13 MCr H eq_refl). Qed.

(* ------------------------------------------------------------------ *)
(* 5. LF without scrolling                                              *)
(* ------------------------------------------------------------------ *)
Lemma row_inc_scroll_next x : grid_ok x -> top x = 0 -> bot x = grows x - 1 -> prow x + 1 < grows x ->
  row_inc_scroll x 1 = Ok (with_prow x (prow x + 1), 0).
Proof.
  intros H T B Hlt. okdims. unfold MAXDIM in *. unfold row_inc_scroll.
  assert (in_scroll_region x = true) as ->.
  { unfold in_scroll_region. rewrite T, B. destruct (N.leb_spec 0 (prow x)), (N.leb_spec (prow x) (grows x - 1)); try lia; reflexivity. }
  rewrite row_clamp_bottom_eq by (cbn; lia). cbn [bind].
  cbn [prow with_prow with_pos bot].
  assert (sat_add16 (prow x) 1 = prow x + 1) as -> by (unfold sat_add16, U16MAX; lia).
  replace (N.min (prow x + 1) (bot x)) with (prow x + 1) by lia.
  replace (prow x + 1 - bot x) with 0 by lia.
  replace (with_prow (with_pos x (prow x + 1) (pcol x)) (prow x + 1)) with (with_prow x (prow x + 1)) by reflexivity.
  rewrite scroll_up_0; [reflexivity|]. unfold with_prow. apply ok_with_pos; cbn; auto. now apply okc_with_pos.
Qed.

Lemma plays_lf R l r c a : cv R l r c -> r + 1 < grows (g R) ->
  plays (rcv R l r c a) [TCtl 10] (rcv R l (r + 1) c a).
Proof.
  intros H Hlt. pose proof (cv_altmode _ _ _ _ H) as A.
  destruct (cv_canvas _ _ _ _ H) as (_ & _ & _ & T & B & _).
  eapply plays_one_act; [reflexivity|]. cbn [perform]. unfold do_execute. gsimp. cbn [orb].
  unfold scr_lf, on_cur.
  rewrite row_inc_scroll_next.
  - cbn [bind]. rewrite with_cur_rcv by exact A. rewrite cur_rcv by exact A. reflexivity.
  - now apply grid_ok_cur_rcv.
  - rewrite cur_rcv by exact A. exact T.
  - rewrite cur_rcv by exact A. exact B.
  - rewrite cur_rcv by exact A. exact Hlt.
Qed.

Lemma plays_crlf R l r c a : cv R l r c -> r + 1 < grows (g R) ->
  plays (rcv R l r c a) t_crlf (rcv R l (r + 1) 0 a).
Proof.
  intros H Hlt. unfold t_crlf. eapply plays_cons; [now apply plays_cr|].
  apply plays_lf; [|exact Hlt]. eapply cv_pos; eauto. apply H. lia.
Qed.

(* ------------------------------------------------------------------ *)
(* 6. pen                                                               *)
(* ------------------------------------------------------------------ *)
Lemma plays_clear_attrs R l r c a : plays (rcv R l r c a) [t_clear_attrs] (rcv R l r c dflt).
Proof. eapply plays_one_act; [reflexivity|]. rewrite perform_sgr. reflexivity. Qed.

Lemma plays_attrs_diff R l r c a a' : pen_ok a' ->
  plays (rcv R l r c a) (t_attrs_diff a' a) (rcv R l r c a').
Proof.
  intros P. unfold t_attrs_diff. destruct (sgr_diff a' a) as [ps|] eqn:E.
  - eapply plays_one_act; [reflexivity|]. cbn [negb].
    rewrite (C09_diff_perform false _ a' ps P); [reflexivity|exact E].
  - apply sgr_diff_none_iff in E. subst. apply plays_nil.
Qed.

(* ------------------------------------------------------------------ *)
(* 7. hide cursor, save / restore cursor                                *)
(* ------------------------------------------------------------------ *)
Lemma plays_hide R h : plays R [t_hide_cursor h] (with_hide R h).
Proof.
  eapply plays_one_act; [reflexivity|]. destruct h; reflexivity.
Qed.

Lemma canvas_with_hide R h : canvas R -> canvas (with_hide R h).
Proof.
  intros (O & W & rest). split; [now apply with_hide_ok|]. split; [|exact rest].
  eapply screen_wf_same; [| |exact W]; reflexivity.
Qed.

(* the receiver after DECSC at (r, c) with pen a *)
Definition saved_at (R : screen) (r c : N) (a : attrs) : screen :=
  with_spen (with_g R (with_saved (g R) r c false)) a.

Lemma plays_save R l r c a : cv R l r c ->
  plays (rcv R l r c a) [t_save_cursor] (rcv (saved_at R r c a) l r c a).
Proof.
  intros H. pose proof (cv_altmode _ _ _ _ H) as A.
  destruct (cv_canvas _ _ _ _ H) as (_ & _ & _ & _ & _ & Og & _).
  eapply plays_one_act; [reflexivity|]. cbn [perform do_esc]. gsimp.
  unfold scr_save_cursor. rewrite with_cur_rcv, cur_rcv by exact A.
  unfold save_cursor. cbn [origin with_pos with_live prow pcol]. rewrite Og. reflexivity.
Qed.

Lemma canvas_saved_at R r c a : canvas R -> r < grows (g R) -> c <= gcols (g R) -> canvas (saved_at R r c a).
Proof.
  intros (O & W & rest) Hr Hc. split; [|split; [|exact rest]].
  - destruct O as [Og Oa Oam Or Oc Ocap Osb]. split; cbn; auto.
    destruct Og as (K & Pr & Pc). split; [|cbn; auto]. apply okc_with_saved; auto.
  - destruct W as [Wg Wa]. split; [|exact Wa]. exact Wg.
Qed.

Lemma plays_restore R l r c a : cv R l r c -> sorigin (g R) = false ->
  plays (rcv R l r c a) [t_restore_cursor] (rcv R l (sprow (g R)) (spcol (g R)) (spen R)).
Proof.
  intros H So. pose proof (cv_altmode _ _ _ _ H) as A.
  destruct (cv_canvas _ _ _ _ H) as (_ & _ & _ & _ & _ & Og & _).
  eapply plays_one_act; [reflexivity|]. cbn [perform do_esc]. gsimp.
  unfold scr_restore_cursor. cbv zeta. rewrite with_cur_rcv, cur_rcv by exact A.
  unfold restore_cursor. cbn [sorigin sprow spcol with_pos with_live]. rewrite So.
  unfold rcv. cbn [with_pen with_g spen]. f_equal. f_equal.
  destruct R as [x]; destruct x; cbn in *. subst. reflexivity.
Qed.

(* ------------------------------------------------------------------ *)
(* 8. erasing: ECH n, EL 0, ED 0                                        *)
(* ------------------------------------------------------------------ *)
Lemma Forall_of_get {A} (P : A -> Prop) (l : list A) : (forall i x, get l i = Some x -> P x) -> Forall P l.
Proof.
  intros H. apply Forall_forall. intros x Hin. apply In_nth_error in Hin as (n & Hn).
  apply (H (N.of_nat n)). unfold get. now rewrite Nnat.Nat2N.id.
Qed.

Lemma blank_wf_any a : cell_wf (EraseSpec.blank a).
Proof. apply (cell_clear_wf a cell_new). Qed.

Lemma erased_wf a cols lo hi rw rw' : row_wf rw -> erased a cols lo hi rw rw' -> row_wf rw'.
Proof.
  intros W [C _]. apply Forall_of_get. intros i x Hx. rewrite C in Hx. unfold erased_cell in Hx.
  destruct (in_rng lo hi i); [inv Hx; apply blank_wf_any|].
  destruct (cut (cells rw) lo hi i).
  - destruct (get (cells rw) i); inv Hx. apply clear_own_wf.
  - eapply row_wf_get; eauto.
Qed.

(* without cut halves the erased row is simple *)
Lemma erased_nocut a cols lo hi rw rw' : erased a cols lo hi rw rw' ->
  fc (cells rw) lo = false -> fw (cells rw) (hi - 1) = false ->
  (forall k, get (cells rw') k = if in_rng lo hi k then Some (EraseSpec.blank a) else get (cells rw) k) /\
  wrapped rw' = if in_rng lo hi (cols - 1) then false else wrapped rw.
Proof.
  intros [C W] F1 F2.
  assert (forall k, cut (cells rw) lo hi k = false) as NC.
  { intros k. unfold cut, cut_lo, cut_hi. rewrite F1, F2, !andb_false_r. reflexivity. }
  split.
  - intros k. rewrite C. unfold erased_cell. rewrite NC. reflexivity.
  - rewrite W. unfold blanked. rewrite NC, orb_false_r. reflexivity.
Qed.

(* an erase that addresses only the cursor line replaces that line *)
Lemma erase_post_line op a x rows' : erase_post op a x rows' -> prow x < grows x -> len (live x) = grows x ->
  (forall r, whole_row op (prow x) r = false) ->
  exists rw rw', get (live x) (prow x) = Some rw /\ rows' = set_at (live x) (prow x) rw' /\
    erased a (gcols x) (line_lo op (gcols x) (pcol x)) (line_hi op (gcols x) (pcol x)) rw rw' /\
    row_ok (gcols x) rw'.
Proof.
  intros (Hl & Hf & Ho & rw & rw' & G1 & G2 & Er) Hr Ll Hw.
  exists rw, rw'. split; [exact G1|]. split; [|split; [exact Er|eapply Forall_get; eauto]].
  apply list_ext_get. intros k. rewrite get_set_at.
  destruct (N.eqb_spec k (prow x)) as [->|Hn].
  - destruct (N.ltb_spec (prow x) (len (live x))); [exact G2|lia].
  - rewrite (Ho k Hn), Hw. reflexivity.
Qed.

Lemma plays_ech R l r c a n rw : cv R l r c -> get l r = Some rw -> row_wf rw -> 1 <= n ->
  exists rw', erased a (gcols (g R)) c (N.min (c + n) (gcols (g R))) rw rw' /\
    row_ok (gcols (g R)) rw' /\ row_wf rw' /\
    plays (rcv R l r c a) (t_erase_char n) (rcv R (set_at l r rw') r c a).
Proof.
  intros H Hg Wrw Hn. pose proof (cv_altmode _ _ _ _ H) as A.
  pose proof (grid_ok_cur_rcv R l r c a H) as Gk.
  remember (if n =? 1 then [] else [n]) as ps eqn:Eps.
  assert (canon1 (ParseSer.csi_params ps) 1 = n) as Ecan.
  { subst ps. destruct (N.eqb_spec n 1) as [->|]; [reflexivity|]. cbn [ParseSer.csi_params map]. apply canon1_pos1. lia. }
  assert (t_erase_char n = [TCsi false ps 88]) as Etok.
  { unfold t_erase_char. subst ps. destruct (N.eqb_spec n 0); [lia|]. destruct (n =? 1); reflexivity. }
  rewrite Etok. clear Eps Etok.
  destruct (perform_ech false (rcv R l r c a) (ParseSer.csi_params ps) false Gk) as (rows' & Ep & Post).
  rewrite Ecan in Post. rewrite pen_rcv in Post.
  rewrite cur_rcv in Post by exact A.
  destruct (erase_post_line _ _ _ _ Post) as (rw0 & rw' & G1 & -> & Er & Ok').
  { cbn. apply H. } { cbn. apply H. } { reflexivity. }
  cbn [live with_pos with_live prow pcol gcols] in G1, Er, Ok'.
  rewrite Hg in G1. inv G1.
  exists rw'. split; [exact Er|]. split; [exact Ok'|]. split; [eapply erased_wf; eauto|].
  eapply plays_one_act; [reflexivity|]. cbn [negb]. rewrite Ep.
  rewrite cur_rcv by exact A. cbn [prow with_pos with_live live].
  rewrite <- (with_cur_rcv_pos R l r c a (set_at l r rw') r c A). rewrite cur_rcv by exact A. reflexivity.
Qed.

Lemma plays_el0 R l r c a rw : cv R l r c -> get l r = Some rw -> row_wf rw ->
  exists rw', erased a (gcols (g R)) c (gcols (g R)) rw rw' /\
    row_ok (gcols (g R)) rw' /\ row_wf rw' /\
    plays (rcv R l r c a) [t_clear_row_forward] (rcv R (set_at l r rw') r c a).
Proof.
  intros H Hg Wrw. pose proof (cv_altmode _ _ _ _ H) as A.
  pose proof (grid_ok_cur_rcv R l r c a H) as Gk.
  destruct (perform_erase false (rcv R l r c a) (ParseSer.csi_params []) [] false 75 EL0 Gk) as (rows' & Ep & Post);
    [left; reflexivity|reflexivity|].
  rewrite pen_rcv in Post. rewrite cur_rcv in Post by exact A.
  destruct (erase_post_line _ _ _ _ Post) as (rw0 & rw' & G1 & -> & Er & Ok').
  { cbn. apply H. } { cbn. apply H. } { reflexivity. }
  cbn [live with_pos with_live prow pcol gcols line_lo line_hi line_range fst snd] in G1, Er, Ok'.
  rewrite Hg in G1. inv G1.
  exists rw'. split; [exact Er|]. split; [exact Ok'|]. split; [eapply erased_wf; eauto|].
  eapply plays_one_act; [reflexivity|]. cbn [negb]. rewrite Ep.
  rewrite cur_rcv by exact A. cbn [prow with_pos with_live live].
  rewrite <- (with_cur_rcv_pos R l r c a (set_at l r rw') r c A). rewrite cur_rcv by exact A. reflexivity.
Qed.

(* ------------------------------------------------------------------ *)
(* 9. printing one character                                            *)
(* ------------------------------------------------------------------ *)
Lemma storable_printable z : storable z -> ~ (128 <= z < 160) /\ z <> REPL /\ is_scalar z = true.
Proof. intros (S & _ & C1 & Rp & _). split; [exact C1|]. split; [exact Rp|exact S]. Qed.

Lemma wd_low_check :
  all_below 256 (fun z => if (32 <=? z) && negb ((127 <=? z) && (z <? 160)) then negb (is_none (wd z)) else true) = true.
Proof. vm_compute. reflexivity. Qed.

Lemma storable_has_width z : storable z -> ~ (wd z = None /\ z < 256).
Proof.
  intros (_ & L & C1 & _ & D) [E Hlt].
  pose proof (all_below_spec 256 _ wd_low_check z) as Hc. cbv beta in Hc.
  specialize (Hc ltac:(lia)).
  destruct (N.leb_spec 32 z); [|lia].
  destruct (N.leb_spec 127 z), (N.ltb_spec z 160); cbn [andb negb] in Hc; try lia; rewrite E in Hc; discriminate.
Qed.

Lemma plays_char R ch y : storable ch -> grid_text (cur R) ch (pen R) = Ok y ->
  plays R [TChars [ch]] (with_cur R y).
Proof.
  intros S E. destruct (storable_printable _ S) as (C1 & Rp & _).
  unfold plays, play. cbn [flat_map acts_of map app perform_all perform].
  rewrite do_print_text by assumption. rewrite scr_text_eq, E. reflexivity.
Qed.

Lemma lrow_cur_rcv R l r c rw : get l r = Some rw -> lrow (with_pos (with_live (g R) l) r c) r = rw.
Proof. intros H. unfold lrow. cbn [live with_pos with_live]. now rewrite H. Qed.

(* a character that fits *)
Lemma plays_char_fits R l r j a rw ch : cv R l r j -> get l r = Some rw -> storable ch ->
  1 <= cwidth ch -> j + cwidth ch <= gcols (g R) ->
  plays (rcv R l r j a) [TChars [ch]]
        (rcv R (set_at l r (place_row rw j ch (cwidth ch) a)) r (j + cwidth ch) a).
Proof.
  intros H Hg S Hw Hfit. pose proof (cv_altmode _ _ _ _ H) as A.
  pose proof (grid_ok_cur_rcv R l r j a H) as Gk.
  pose proof (plays_char (rcv R l r j a) ch _ S
                (grid_text_fits _ ch a Gk (storable_has_width _ S) Hw
                   ltac:(rewrite cur_rcv by exact A; exact Hfit))) as P.
  rewrite with_cur_rcv in P by exact A. rewrite cur_rcv in P by exact A.
  unfold place in P. cbn [prow pcol with_pos] in P. rewrite (lrow_cur_rcv R l r j rw Hg) in P.
  exact P.
Qed.

(* a zero-width character: appended to the cell before the cursor *)
Lemma plays_char_zero R l r pc a rw z tj d : cv R l r pc -> get l r = Some rw -> storable z ->
  wd z = Some 0 -> 1 <= pc ->
  tj = (if fc (cells rw) (pc - 1) then pc - 2 else pc - 1) -> get (cells rw) tj = Some d ->
  plays (rcv R l r pc a) [TChars [z]]
        (rcv R (set_at l r (row_set_cell rw tj (cell_append z d))) r pc a).
Proof.
  intros H Hg S Wz Hpc Etj Hd. pose proof (cv_altmode _ _ _ _ H) as A.
  pose proof (grid_ok_cur_rcv R l r pc a H) as Gk.
  pose proof (plays_char (rcv R l r pc a) z _ S (grid_text_zero _ z a Gk Wz)) as P.
  rewrite with_cur_rcv in P by exact A. rewrite cur_rcv in P by exact A.
  unfold zero_result, zero_target in P. cbn [prow pcol with_pos] in P.
  destruct (N.ltb_spec 0 pc); [|lia].
  unfold append_col, append_cell, lcell in P. rewrite (lrow_cur_rcv R l r pc rw Hg) in P.
  assert (ccont (match get (cells rw) (pc - 1) with Some cl => cl | None => cell_new end) = fc (cells rw) (pc - 1)) as Efc.
  { unfold fc. destruct (get (cells rw) (pc - 1)); reflexivity. }
  rewrite Efc in P.
  assert ((if fc (cells rw) (pc - 1) then pc - 1 - 1 else pc - 1) = tj) as Et.
  { subst tj. destruct (fc (cells rw) (pc - 1)); lia. }
  rewrite Et, Hd in P. exact P.
Qed.

(* a character printed at the pending-wrap position: wraps to the next line (no scrolling) *)
Lemma plays_char_wraps R l r a rprev rw ch lc : cv R l r (gcols (g R)) -> r + 1 < grows (g R) ->
  get l r = Some rprev -> get l (r + 1) = Some rw -> storable ch ->
  1 <= cwidth ch -> cwidth ch <= gcols (g R) ->
  get (cells rprev) (gcols (g R) - 1) = Some lc -> has_contents lc || ccont lc = true ->
  plays (rcv R l r (gcols (g R)) a) [TChars [ch]]
        (rcv R (set_at (set_at l r (row_wrap true rprev)) (r + 1) (place_row rw 0 ch (cwidth ch) a))
             (r + 1) (cwidth ch) a).
Proof.
  intros H Hlt Hp Hn S Hw Hle Hlc Occ. pose proof (cv_altmode _ _ _ _ H) as A.
  destruct (cv_canvas _ _ _ _ H) as (_ & _ & _ & T & B & _).
  pose proof (cv_dims _ _ _ _ H) as [D1 D2].
  pose proof (grid_ok_cur_rcv R l r (gcols (g R)) a H) as Gk.
  pose proof (plays_char (rcv R l r (gcols (g R)) a) ch _ S
                (grid_text_wraps _ ch a Gk (storable_has_width _ S) Hw
                   ltac:(rewrite cur_rcv by exact A; exact Hle)
                   ltac:(rewrite cur_rcv by exact A; cbn [gcols pcol with_pos with_live]; lia))) as P.
  rewrite with_cur_rcv in P by exact A. rewrite cur_rcv in P by exact A.
  set (x := with_pos (with_live (g R) l) r (gcols (g R))) in *.
  assert (last_occupied x = true) as Lo.
  { assert (lcell x (prow x) (gcols x - 1) = lc) as El.
    { unfold lcell, x. cbn [prow gcols with_pos with_live]. rewrite (lrow_cur_rcv R l r _ rprev Hp), Hlc. reflexivity. }
    unfold last_occupied. cbv zeta. rewrite El. exact Occ. }
  rewrite Lo in P.
  assert (wrap_grid x true = with_pos (with_live (g R) (set_at l r (row_wrap true rprev))) (r + 1) 0) as Ew.
  { rewrite wrap_grid_next.
    - unfold x. cbn [prow with_pos]. rewrite (lrow_cur_rcv R l r (gcols (g R)) rprev Hp). reflexivity.
    - unfold x. cbn [prow bot with_pos with_live]. rewrite B.
      destruct (N.eqb_spec r (grows (g R) - 1)); [lia|]. apply andb_false_r.
    - unfold x. cbn. exact Hlt. }
  rewrite Ew in P. unfold place in P. cbn [prow pcol with_pos] in P.
  assert (get (set_at l r (row_wrap true rprev)) (r + 1) = Some rw) as Hn'.
  { rewrite get_set_at. destruct (N.eqb_spec (r + 1) r); [lia|exact Hn]. }
  rewrite (lrow_cur_rcv R _ (r + 1) 0 rw Hn') in P.
  exact P.
Qed.

(* ------------------------------------------------------------------ *)
(* 10. what follows from having played tokens on a canvas               *)
(* ------------------------------------------------------------------ *)
Definition toks_scalar (ts : list token) : Prop := Forall action_scalar (flat_map acts_of ts).

Lemma toks_scalar_app a b : toks_scalar a -> toks_scalar b -> toks_scalar (a ++ b).
Proof. unfold toks_scalar. rewrite flat_map_app. intros. now apply Forall_app. Qed.

Lemma toks_scalar_nochars ts : (forall cs, ~ In (TChars cs) ts) -> toks_scalar ts.
Proof.
  intros H. unfold toks_scalar. induction ts as [|t ts IH]; cbn [flat_map]; [constructor|].
  apply Forall_app; split.
  - destruct t as [pv ps f|f|b|cs]; cbn [acts_of]; try (repeat constructor). exfalso. apply (H cs). now left.
  - apply IH. intros cs Hin. apply (H cs). now right.
Qed.

Lemma toks_scalar_chars cs : Forall storable cs -> toks_scalar [TChars cs].
Proof.
  intros H. unfold toks_scalar. cbn [flat_map acts_of]. rewrite app_nil_r.
  induction H as [|c cs Hc _ IH]; cbn [map]; constructor; [apply Hc|exact IH].
Qed.

Lemma plays_canvas R ts R' : canvas R -> plays R ts R' -> toks_scalar ts ->
  altmode R' = false -> top (g R') = 0 -> bot (g R') = grows (g R') - 1 -> origin (g R') = false ->
  sb_off (g R') = 0 -> canvas R'.
Proof.
  intros (O & W & _) P Hs H1 H2 H3 H4 H5. unfold plays, play in P.
  destruct (perform_all_ok false (flat_map acts_of ts) R [] O) as (s' & e' & E' & O'). rewrite P in E'. inv E'.
  split; [exact O'|]. split; [eapply perform_all_wf; eauto|]. auto.
Qed.

Lemma plays_cv R l r c a ts l' r' c' a' : cv R l r c -> plays (rcv R l r c a) ts (rcv R l' r' c' a') ->
  toks_scalar ts -> cv R l' r' c'.
Proof.
  intros H P Hs. pose proof (cv_canvas _ _ _ _ H) as CR.
  apply (canvas_rcv_cv R l' r' c' a'); [|exact CR].
  eapply plays_canvas; [apply (cv_canvas_rcv R l r c a H)|exact P|exact Hs| | | | |];
    destruct CR as (_ & _ & A & T & B & Og & Sb); cbn; auto.
Qed.

(* ------------------------------------------------------------------ *)
(* 11. printing the text of a cell                                      *)
(* ------------------------------------------------------------------ *)
(* the capacity clause missing from cell_wf: a character was only ever appended to a text of
   fewer than 18 bytes *)
Definition cell_cap (c : cell) : Prop :=
  forall p z q, ctext c = p ++ z :: q -> p <> [] -> text_len p < 18.

Definition put_raw (rw : row) (j : N) (P : cell) (wide : bool) : row :=
  let r1 := row_set_cell rw j P in
  if wide then row_set_cell r1 (j + 1) cont_cell else r1.

(* cell c painted with attributes a *)
Definition painted (c : cell) (a : attrs) : cell := mkCell (ctext c) (cwide c) false a.
Definition put_cell (rw : row) (j : N) (c : cell) (a : attrs) : row := put_raw rw j (painted c a) (cwide c).

(* the cells under a character about to be printed at column j: not the second half of a wide
   character; a narrow character does not land on a first half; a wide character does not cover
   the first half of another wide character with its second column *)
Definition slot_ok (cs : list cell) (j : N) (wide : bool) : Prop :=
  fc cs j = false /\ (wide = false -> fw cs j = false) /\ (wide = true -> fw cs (j + 1) = false).

Lemma row_ext (r1 r2 : row) : cells r1 = cells r2 -> wrapped r1 = wrapped r2 -> r1 = r2.
Proof. destruct r1, r2; cbn; intros -> ->; reflexivity. Qed.

Lemma put_raw_cells rw j P (wide : bool) k : j + (if wide then 2 else 1) <= len (cells rw) ->
  get (cells (put_raw rw j P wide)) k =
  if k =? j then Some P else if (k =? j + 1) && wide then Some cont_cell else get (cells rw) k.
Proof.
  intros Hl. unfold put_raw. cbv zeta. destruct wide; cbn [cells row_set_cell].
  - rewrite !get_set_at, !len_set_at. fcases; reflexivity.
  - rewrite get_set_at, andb_false_r. fcases; reflexivity.
Qed.

Lemma put_raw_wrapped rw j P wide : wrapped (put_raw rw j P wide) = wrapped rw.
Proof. unfold put_raw. destruct wide; reflexivity. Qed.

Lemma place_row_slot rw j ch w a : cells_ok (cells rw) -> (w = 1 \/ w = 2) -> j + w <= len (cells rw) ->
  char_is_wide ch = (1 <? w) -> slot_ok (cells rw) j (1 <? w) ->
  place_row rw j ch w a = put_raw rw j (mkCell [ch] (1 <? w) false a) (1 <? w).
Proof.
  intros Hok Hw Hfit Hcw (S1 & S2 & S3). apply row_ext.
  - apply list_ext_get. intros k. rewrite place_row_get by assumption.
    rewrite put_raw_cells by (destruct Hw as [-> | ->]; [change (1 <? 1) with false|change (1 <? 2) with true]; cbv iota; lia).
    unfold placed, glyph. rewrite Hcw, S1.
    destruct Hw as [-> | ->].
    + change (1 <? 1) with false in *. rewrite (S2 eq_refl). rewrite !andb_false_r. fcases; reflexivity.
    + change (1 <? 2) with true in *. rewrite (S3 eq_refl). rewrite !andb_true_r, !andb_false_r.
      fcases; try reflexivity.
  - rewrite place_row_wrapped, put_raw_wrapped.
    destruct Hw as [-> | ->]; [reflexivity|]. change (1 <? 2) with true in *. rewrite (S3 eq_refl). reflexivity.
Qed.

Lemma put_raw_reset rw j P P' wide : row_set_cell (put_raw rw j P wide) j P' = put_raw rw j P' wide.
Proof.
  unfold put_raw. cbv zeta. destruct wide; unfold row_set_cell; cbn [cells wrapped]; f_equal.
  - rewrite (set_at_comm _ (j + 1) j) by lia. now rewrite set_at_set_at.
  - apply set_at_set_at.
Qed.

Lemma wf_cwidth c ch rest : cell_wf c -> ctext c = ch :: rest ->
  cwidth ch = adv_n c /\ char_is_wide ch = cwide c /\ 1 <= cwidth ch.
Proof.
  intros W E. pose proof (wf_first_nonzero _ _ _ W E) as Nz. pose proof (wf_wide_iff _ _ _ W E) as Wi.
  unfold cwidth, adv_n, char_is_wide.
  destruct (wd_range ch) as [Ew | [Ew | [Ew | Ew]]]; rewrite Ew in *; try congruence.
  - destruct (cwide c); [destruct Wi as [Wi _]; discriminate (Wi eq_refl)|]. repeat split; lia.
  - destruct (cwide c); [destruct Wi as [Wi _]; discriminate (Wi eq_refl)|]. repeat split; lia.
  - destruct Wi as [_ Wi]. rewrite (Wi eq_refl). repeat split; lia.
Qed.

Lemma plays_chars_cons R ch rest R1 R2 : plays R [TChars [ch]] R1 -> plays R1 [TChars rest] R2 ->
  plays R [TChars (ch :: rest)] R2.
Proof. intros H1 H2. exact (plays_app R [TChars [ch]] R1 [TChars rest] R2 H1 H2). Qed.

(* appending the zero-width tail *)
Lemma plays_zero_run R l r j a rw (wide : bool) : forall rest pre,
  cv R (set_at l r (put_raw rw j (mkCell pre wide false a) wide)) r (j + (if wide then 2 else 1)) ->
  r < len l -> j + (if wide then 2 else 1) <= len (cells rw) ->
  pre <> [] -> Forall (fun z => wd z = Some 0) rest -> Forall storable rest ->
  (forall p z q, rest = p ++ z :: q -> text_len (pre ++ p) < 18) ->
  plays (rcv R (set_at l r (put_raw rw j (mkCell pre wide false a) wide)) r (j + (if wide then 2 else 1)) a)
        [TChars rest]
        (rcv R (set_at l r (put_raw rw j (mkCell (pre ++ rest) wide false a) wide)) r (j + (if wide then 2 else 1)) a).
Proof.
  induction rest as [|z rest IH]; intros pre Hcv Hr Hfit Hne Hz Hs Hcap.
  - rewrite app_nil_r. apply plays_nil.
  - inv Hz. inv Hs.
    set (pc := j + (if wide then 2 else 1)) in *.
    set (rk := put_raw rw j (mkCell pre wide false a) wide) in *.
    assert (get (set_at l r rk) r = Some rk) as Hg.
    { rewrite get_set_at. destruct (N.eqb_spec r r); [|lia]. destruct (N.ltb_spec r (len l)); [reflexivity|lia]. }
    assert (get (cells rk) j = Some (mkCell pre wide false a)) as Hj.
    { unfold rk. rewrite put_raw_cells by exact Hfit. destruct (N.eqb_spec j j); [reflexivity|lia]. }
    assert ((if fc (cells rk) (pc - 1) then pc - 2 else pc - 1) = j) as Etj.
    { unfold fc, rk. rewrite put_raw_cells by exact Hfit. unfold pc. destruct wide.
      - destruct (N.eqb_spec (j + 2 - 1) j); [lia|]. destruct (N.eqb_spec (j + 2 - 1) (j + 1)); [|lia].
        cbn. lia.
      - destruct (N.eqb_spec (j + 1 - 1) j); [|lia]. cbn. lia. }
    pose proof (plays_char_zero R (set_at l r rk) r pc a rk z j _ Hcv Hg H3 H1 ltac:(unfold pc; destruct wide; lia)
                  (eq_sym Etj) Hj) as P1.
    rewrite set_at_set_at in P1.
    assert (cell_append z (mkCell pre wide false a) = mkCell (pre ++ [z]) wide false a) as Eap.
    { rewrite cell_append_some; [reflexivity|exact Hne|].
      unfold cell_len. cbn [ctext]. specialize (Hcap [] z rest eq_refl). now rewrite app_nil_r in Hcap. }
    rewrite Eap in P1. unfold rk in P1. rewrite put_raw_reset in P1.
    eapply plays_chars_cons; [exact P1|].
    replace (pre ++ z :: rest) with ((pre ++ [z]) ++ rest) by (rewrite <- app_assoc; reflexivity).
    apply IH; auto.
    + eapply plays_cv; [exact Hcv|exact P1|]. apply toks_scalar_chars. constructor; [exact H3|constructor].
    + intros E. destruct pre; discriminate.
    + intros p z' q E. rewrite <- app_assoc. cbn [app]. apply (Hcap (z :: p) z' q). rewrite E. reflexivity.
Qed.

(* THE key lemma of stage 1: printing the text of a well-formed cell at (r, j) on a suitable slot
   re-creates the cell with the current pen; the cursor ends after the cell *)
Theorem plays_cell R l r j a rw c : cv R l r j -> get l r = Some rw ->
  cell_wf c -> cell_cap c -> has_contents c = true ->
  j + adv_n c <= gcols (g R) -> slot_ok (cells rw) j (cwide c) ->
  plays (rcv R l r j a) [TChars (ctext c)] (rcv R (set_at l r (put_cell rw j c a)) r (j + adv_n c) a).
Proof.
  intros H Hg W Cap Hc Hfit Slot.
  destruct (ctext c) as [|ch rest] eqn:Et; [unfold has_contents in Hc; rewrite Et in Hc; discriminate|].
  destruct (wf_cwidth c ch rest W Et) as (Ew & Ecw & Hw1).
  pose proof (wf_rest_zero _ _ _ W Et) as Hz. pose proof (wf_storable _ W) as Hs. rewrite Et in Hs. inv Hs.
  destruct (cv_get _ _ _ _ r H ltac:(apply H)) as (rw' & Hg' & (Lrw & Okrw) & _). rewrite Hg in Hg'. inv Hg'.
  assert (adv_n c = if cwide c then 2 else 1) as Ea by reflexivity.
  assert (r < len l) as Hr by (eapply get_some_lt; eauto).
  pose proof (plays_char_fits R l r j a rw' ch H Hg H2 Hw1 ltac:(lia)) as P1.
  rewrite Ew in P1.
  rewrite (place_row_slot rw' j ch (adv_n c) a) in P1; auto.
  2:{ rewrite Ea. destruct (cwide c); auto. } 2:{ lia. }
  2:{ rewrite Ecw, Ea. destruct (cwide c); reflexivity. }
  2:{ rewrite Ea. destruct (cwide c); exact Slot. }
  assert ((1 <? adv_n c) = cwide c) as Ew2 by (rewrite Ea; destruct (cwide c); reflexivity).
  rewrite Ew2 in P1. rewrite Ea in P1.
  eapply plays_chars_cons; [exact P1|].
  unfold put_cell, painted. rewrite Et. rewrite Ea.
  change (ch :: rest) with ([ch] ++ rest).
  apply plays_zero_run; auto.
  - eapply plays_cv; [exact H|exact P1|]. apply toks_scalar_chars. constructor; [exact H2|constructor].
  - rewrite Lrw. lia.
  - discriminate.
  - intros p z q E. apply (Cap ([ch] ++ p) z q); [|discriminate]. rewrite Et, E. reflexivity.
Qed.

(* the same through a pending wrap: the cursor sits at (r, cols) after a line whose last cell is
   occupied; the first character wraps to (r+1, 0) and flags line r as wrapped *)
Theorem plays_cell_wraps R l r a rprev rw c lc : cv R l r (gcols (g R)) -> r + 1 < grows (g R) ->
  get l r = Some rprev -> get l (r + 1) = Some rw ->
  get (cells rprev) (gcols (g R) - 1) = Some lc -> has_contents lc || ccont lc = true ->
  cell_wf c -> cell_cap c -> has_contents c = true ->
  adv_n c <= gcols (g R) -> slot_ok (cells rw) 0 (cwide c) ->
  plays (rcv R l r (gcols (g R)) a) [TChars (ctext c)]
        (rcv R (set_at (set_at l r (row_wrap true rprev)) (r + 1) (put_cell rw 0 c a)) (r + 1) (adv_n c) a).
Proof.
  intros H Hlt Hp Hg Hlc Occ W Cap Hc Hfit Slot.
  destruct (ctext c) as [|ch rest] eqn:Et; [unfold has_contents in Hc; rewrite Et in Hc; discriminate|].
  destruct (wf_cwidth c ch rest W Et) as (Ew & Ecw & Hw1).
  pose proof (wf_rest_zero _ _ _ W Et) as Hz. pose proof (wf_storable _ W) as Hs. rewrite Et in Hs. inv Hs.
  destruct (cv_get _ _ _ _ (r + 1) H Hlt) as (rw' & Hg' & (Lrw & Okrw) & _). rewrite Hg in Hg'. inv Hg'.
  assert (adv_n c = if cwide c then 2 else 1) as Ea by reflexivity.
  assert (r + 1 < len l) as Hr by (eapply get_some_lt; eauto).
  pose proof (plays_char_wraps R l r a rprev rw' ch lc H Hlt Hp Hg H2 Hw1 ltac:(lia) Hlc Occ) as P1.
  rewrite Ew in P1.
  rewrite (place_row_slot rw' 0 ch (adv_n c) a) in P1; auto.
  2:{ rewrite Ea. destruct (cwide c); auto. } 2:{ lia. }
  2:{ rewrite Ecw, Ea. destruct (cwide c); reflexivity. }
  2:{ rewrite Ea. destruct (cwide c); exact Slot. }
  assert ((1 <? adv_n c) = cwide c) as Ew2 by (rewrite Ea; destruct (cwide c); reflexivity).
  rewrite Ew2 in P1. rewrite Ea in P1.
  eapply plays_chars_cons; [exact P1|].
  unfold put_cell, painted. rewrite Et. rewrite Ea.
  change (ch :: rest) with ([ch] ++ rest).
  change (if cwide c then 2 else 1) with (0 + (if cwide c then 2 else 1)).
  apply plays_zero_run; auto.
  - eapply plays_cv; [exact H|exact P1|]. apply toks_scalar_chars. constructor; [exact H2|constructor].
  - now rewrite len_set_at.
  - rewrite Lrw. lia.
  - discriminate.
  - intros p z q E. apply (Cap ([ch] ++ p) z q); [|discriminate]. rewrite Et, E. reflexivity.
Qed.

(* the space character as a cell *)
Definition sp_cell : cell := mkCell [32] false false dflt.
Lemma sp_cell_wf : cell_wf sp_cell.
Proof. exact (cell_set_32_wf dflt cell_new). Qed.
Lemma sp_cell_cap : cell_cap sp_cell.
Proof. intros p z q E Hne. destruct p as [|x [|y p]]; [congruence|discriminate|discriminate]. Qed.

(* ------------------------------------------------------------------ *)
(* 12. the clear-screen prefix                                          *)
(* ------------------------------------------------------------------ *)
Definition blank_rows (rows cols : N) : list row := repeatN (row_new cols) rows.

Lemma row_clear_dflt cols rw : len (cells rw) = cols -> row_clear dflt rw = row_new cols.
Proof.
  intros Hl. apply row_ext; [|reflexivity]. cbn [row_clear row_new cells].
  apply list_ext_get. intros k. rewrite get_map, get_repeatN. subst cols.
  destruct (N.ltb_spec k (len (cells rw))) as [L|L].
  - destruct (get_lt_some _ _ L) as (x & ->). reflexivity.
  - apply get_none_ge in L. now rewrite L.
Qed.

Lemma rows_good_blank rows cols : rows_good rows cols (blank_rows rows cols).
Proof.
  split; [apply len_repeatN|]. split; apply Forall_repeatN; [apply row_new_ok|apply row_new_wf].
Qed.

Theorem clear_lemma R h : canvas R ->
  plays R (t_hide_cursor h :: t_clear_attrs :: t_clear_screen)
        (rcv (with_hide R h) (blank_rows (grows (g R)) (gcols (g R))) 0 0 dflt) /\
  cv (with_hide R h) (blank_rows (grows (g R)) (gcols (g R))) 0 0.
Proof.
  intros C. pose proof (canvas_with_hide R h C) as Ch. pose proof (cv_id _ Ch) as Hcv.
  pose proof (cv_dims _ _ _ _ Hcv) as [D1 D2]. cbn [with_hide g] in D1, D2.
  assert (cv (with_hide R h) (blank_rows (grows (g R)) (gcols (g R))) 0 0) as Hcv'.
  { split; auto; cbn [with_hide g]; try lia. apply rows_good_blank. }
  split; [|exact Hcv'].
  eapply plays_cons; [apply plays_hide|].
  rewrite <- (rcv_id (with_hide R h)) at 1.
  eapply plays_cons; [apply plays_clear_attrs|].
  unfold t_clear_screen. eapply plays_cons; [apply plays_home; exact Hcv|].
  assert (cv (with_hide R h) (live (g (with_hide R h))) 0 0) as H0
    by (eapply cv_pos; [exact Hcv|cbn [with_hide g]; lia|cbn [with_hide g]; lia]).
  set (R1 := with_hide R h) in *. set (l := live (g R1)) in *.
  pose proof (cv_altmode _ _ _ _ H0) as A.
  pose proof (grid_ok_cur_rcv R1 l 0 0 dflt H0) as Gk.
  destruct (perform_erase false (rcv R1 l 0 0 dflt) (ParseSer.csi_params []) [] false 74 ED0 Gk) as (rows' & Ep & Post);
    [left; reflexivity|reflexivity|].
  rewrite pen_rcv in Post. rewrite cur_rcv in Post by exact A.
  eapply plays_one_act; [reflexivity|]. cbn [negb]. rewrite Ep.
  rewrite <- (with_cur_rcv_pos R1 l 0 0 dflt (blank_rows (grows (g R)) (gcols (g R))) 0 0 A).
  rewrite cur_rcv by exact A.
  assert (rows' = blank_rows (grows (g R)) (gcols (g R))) as ->; [|reflexivity].
  destruct Post as (Ll & Lf & Lo & rw & rw' & G1 & G2 & [EC EW]).
  cbn [live grows gcols prow pcol with_pos with_live line_lo line_hi line_range fst snd] in *.
  change (grows (g R1)) with (grows (g R)) in *. change (gcols (g R1)) with (gcols (g R)) in *.
  destruct (cv_rows _ _ _ _ H0) as (Lr & Lok & _).
  change (grows (g R1)) with (grows (g R)) in *. change (gcols (g R1)) with (gcols (g R)) in *.
  apply list_ext_get. intros k. unfold blank_rows. rewrite get_repeatN.
  destruct (N.eqb_spec k 0) as [->|Hk].
  - destruct (N.ltb_spec 0 (grows (g R))); [|lia]. rewrite G2. f_equal.
    destruct (Forall_get _ _ _ _ Lok G1) as [Lc _].
    apply row_ext.
    + cbn [row_new cells]. apply list_ext_get. intros j. rewrite EC, get_repeatN. unfold erased_cell, in_rng.
      destruct (N.leb_spec 0 j); [|lia]. destruct (N.ltb_spec j (gcols (g R))); cbn [andb]; [reflexivity|].
      assert (get (cells rw) j = None) as -> by (apply get_none_ge; lia).
      destruct (cut _ _ _ _); reflexivity.
    + rewrite EW. unfold blanked, in_rng.
      destruct (N.leb_spec 0 (gcols (g R) - 1)); [|lia].
      destruct (N.ltb_spec (gcols (g R) - 1) (gcols (g R))); [reflexivity|lia].
  - rewrite (Lo k Hk). cbn [whole_row]. destruct (N.ltb_spec 0 k); [|lia].
    destruct (N.ltb_spec k (grows (g R))) as [L|L].
    + destruct (get_lt_some l k) as (rwk & Hrk); [lia|]. rewrite Hrk. cbn [option_map]. f_equal.
      apply row_clear_dflt. apply (Forall_get _ _ _ _ Lok Hrk).
    + assert (get l k = None) as -> by (apply get_none_ge; lia). reflexivity.
Qed.

(* ------------------------------------------------------------------ *)
(* 13. MoveFromTo                                                       *)
(* ------------------------------------------------------------------ *)
Theorem plays_move_from_to R l r c a tr tc ts : cv R l r c -> tr < grows (g R) -> tc < gcols (g R) ->
  t_move_from_to r c tr tc = Ok ts -> plays (rcv R l r c a) ts (rcv R l tr tc a).
Proof.
  intros H Hr Hc E. pose proof (cv_dims _ _ _ _ H) as [D1 D2]. unfold MAXDIM in *.
  pose proof (cv_r _ _ _ _ H) as Rr.
  unfold t_move_from_to in E. rewrite add16_ok in E by lia. cbn [bind] in E.
  destruct (N.eqb_spec tr (r + 1)) as [->|N1]; [destruct (N.eqb_spec tc 0) as [->|N2]|]; cbn [andb] in E.
  - inv E. now apply plays_crlf.
  - destruct (N.eqb_spec r (r + 1)); [lia|]. cbn [andb] in E.
    destruct (N.eqb_spec (r + 1) r); [lia|]. cbn [andb negb] in E. eapply plays_move_to; eauto.
  - destruct (N.eqb_spec r tr) as [<-|N3]; cbn [andb] in E.
    + destruct (N.ltb_spec c tc) as [L|L].
      * inv E. replace tc with (c + (tc - c)) at 2 by lia. apply plays_move_right; [exact H|lia].
      * destruct (N.eqb_spec r r); [|lia]. destruct (N.eqb_spec tc c) as [->|N4]; cbn [andb negb] in E.
        -- inv E. apply plays_nil.
        -- eapply plays_move_to; eauto.
    + destruct (N.eqb_spec tr r); [lia|]. cbn [andb negb] in E. eapply plays_move_to; eauto.
Qed.

Lemma move_toks_scalar r c tr tc ts : t_move_from_to r c tr tc = Ok ts -> toks_scalar ts.
Proof.
  intros E. apply toks_scalar_nochars. intros cs Hin.
  unfold t_move_from_to in E. bind_inv E.
  destruct ((tr =? v) && (tc =? 0)); [inv E; cbn in Hin; intuition discriminate|].
  destruct ((r =? tr) && (c <? tc)).
  { inv E. unfold t_move_right in Hin. destruct (tc - c =? 0); [destruct Hin|].
    destruct (tc - c =? 1); cbn in Hin; intuition discriminate. }
  destruct (negb ((tr =? r) && (tc =? c))); [|inv E; destruct Hin].
  unfold t_move_to in E. destruct ((tr =? 0) && (tc =? 0)); [inv E; cbn in Hin; intuition discriminate|].
  bind_inv E. bind_inv E. inv E. cbn in Hin; intuition discriminate.
Qed.

(* CUP with both parameters spelled out (the form used by the row-wise drawing protocols) *)
Lemma plays_cup_lit R l r c a tr tc : cv R l r c -> tr < grows (g R) -> tc < gcols (g R) ->
  plays (rcv R l r c a) [TCsi false [tr + 1; tc + 1] 72] (rcv R l tr tc a).
Proof.
  intros H Hr Hc. pose proof (cv_dims _ _ _ _ H) as [D1 D2]. unfold MAXDIM in *.
  assert (mv_of_csi (ParseSer.csi_params [tr + 1; tc + 1]) 72 = Some (MCup (tr + 1) (tc + 1))) as Em.
  { unfold mv_of_csi, ParseSer.csi_params. cbn [map tl]. gsimp. rewrite !canon1_cons, !dflt_param_id by lia. reflexivity. }
  pose proof (plays_csi_move R l r c a _ 72 _ H Em) as P.
  cbn [move_spec fst snd c_origin c_rows c_cols] in P.
  replace (N.min (tr + 1 - 1) (grows (g R) - 1)) with tr in P by lia.
  replace (N.min (tc + 1 - 1) (gcols (g R) - 1)) with tc in P by lia. exact P.
Qed.
