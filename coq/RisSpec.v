(* RisSpec.v — C17: ESC c (RIS) returns the terminal to the state of a newly
   constructed parser of the current size and scrollback capacity.

   1. explicit description of [screen_new]               (fresh_screen, screen_new_spec ...)
   2. vte level: [advance p [27; 99]] ends EXACTLY in [p_init]   (ris_advance)
   3. parser level: [process p [27; 99]]                  (ris_process, ris_process_ok)
   4. the event log is a write-only prefix                (run_log_prefix ...), hence
      every later input behaves as on a fresh parser      (ris_then_fresh) *)
Require Import Tac ListN Utf8 Attrs Cell Row Grid Screen Vte Perform Parser.
Require Import Utf8Lemmas VteInv VteChunk Pend Chunking GridInv ScreenInv EventSpec.
Open Scope N_scope.

(* ------------------------------------------------------------------ *)
(* 1. The fresh screen                                                 *)
(* ------------------------------------------------------------------ *)

(* the closed form of a freshly constructed screen of r rows, c columns and
   scrollback capacity cap *)
Definition fresh_grid (r c cap : N) : grid :=
  mkGrid r c 0 0 0 0 (repeatN (row_new c) r) 0 (r - 1) false false [] cap 0.

(* the alternate grid is created with capacity 0 and NO rows (they are allocated
   on the first switch to the alternate screen) *)
Definition fresh_alt (r c : N) : grid :=
  mkGrid r c 0 0 0 0 [] 0 (r - 1) false false [] 0 0.

Definition fresh_screen (r c cap : N) : screen :=
  mkScreen (fresh_grid r c cap) (fresh_alt r c) dflt dflt
           false false false false false MNone EDefault.

Theorem screen_new_closed : forall r c cap s0,
  screen_new r c cap = Ok s0 -> 1 <= r /\ s0 = fresh_screen r c cap.
Proof.
  intros r c cap s0 H. unfold screen_new, grid_new, sub16 in H.
  destruct (N.leb_spec 1 r) as [Hr|Hr]; cbn [bind] in H; [|discriminate].
  split; [exact Hr|]. inv H. reflexivity.
Qed.

Theorem screen_new_total : forall r c cap, 1 <= r -> screen_new r c cap = Ok (fresh_screen r c cap).
Proof.
  intros r c cap Hr. unfold screen_new, grid_new, sub16.
  destruct (N.leb_spec 1 r) as [_|Hr']; [|lia]. reflexivity.
Qed.

Theorem screen_new_panics : forall r c cap, r = 0 -> screen_new r c cap = Panic POverflow.
Proof. intros r c cap ->. reflexivity. Qed.

(* a blank row: all cells are [cell_new], not wrapped *)
Lemma row_new_blank c :
  wrapped (row_new c) = false /\ len (cells (row_new c)) = c /\
  Forall (fun x => x = cell_new) (cells (row_new c)) /\
  forall i, i < c -> row_get (row_new c) i = Some cell_new.
Proof.
  unfold row_new, row_get. cbn [wrapped cells].
  split; [reflexivity|]. split; [apply len_repeatN|].
  split; [apply Forall_repeatN; reflexivity|].
  intros i Hi. rewrite get_repeatN. destruct (N.ltb_spec i c); [reflexivity|lia].
Qed.

Lemma cell_new_blank :
  ctext cell_new = [] /\ cwide cell_new = false /\ ccont cell_new = false /\ cattrs cell_new = dflt.
Proof. repeat split. Qed.

(* the explicit, field-by-field description *)
Theorem screen_new_spec : forall r c cap s0,
  screen_new r c cap = Ok s0 ->
  (* geometry *)
  grows (g s0) = r /\ gcols (g s0) = c /\
  (* all cells blank with default attributes *)
  len (live (g s0)) = r /\
  Forall (fun rw => rw = row_new c) (live (g s0)) /\
  (forall i j, i < r -> j < c -> drawing_cell (g s0) i j = Some cell_new) /\
  (* cursor home, saved cursor (0,0) [= "no saved cursor"], no scroll region, origin off *)
  prow (g s0) = 0 /\ pcol (g s0) = 0 /\ sprow (g s0) = 0 /\ spcol (g s0) = 0 /\
  top (g s0) = 0 /\ bot (g s0) = r - 1 /\ origin (g s0) = false /\ sorigin (g s0) = false /\
  (* empty scrollback at offset 0, same capacity *)
  sb (g s0) = [] /\ sb_off (g s0) = 0 /\ sb_cap (g s0) = cap /\
  (* default pen and saved pen *)
  pen s0 = dflt /\ spen s0 = dflt /\
  (* all modes off, cursor visible, primary screen active *)
  keypad s0 = false /\ appcur s0 = false /\ hide s0 = false /\ paste s0 = false /\
  mmode s0 = MNone /\ menc s0 = EDefault /\ altmode s0 = false /\
  (* alternate grid: unallocated, capacity 0 *)
  alt s0 = fresh_alt r c /\ live (alt s0) = [] /\ sb_cap (alt s0) = 0 /\ sb (alt s0) = [] /\
  grows (alt s0) = r /\ gcols (alt s0) = c.
Proof.
  intros r c cap s0 H. apply screen_new_closed in H. destruct H as [Hr ->].
  unfold fresh_screen, fresh_grid, fresh_alt. cbn [g alt pen spen keypad appcur hide paste mmode menc altmode
    grows gcols prow pcol sprow spcol live top bot origin sorigin sb sb_off sb_cap].
  repeat split.
  - apply len_repeatN.
  - apply Forall_repeatN. reflexivity.
  - intros i j Hi Hj. unfold drawing_cell, drawing_row. cbn [live].
    rewrite get_repeatN. destruct (N.ltb_spec i r); [|lia].
    apply (proj2 (proj2 (proj2 (row_new_blank c)))). exact Hj.
Qed.

(* the visible contents of a fresh screen: every visible cell is blank *)
Theorem fresh_visible : forall r c cap i j, i < r -> j < c ->
  visible_cell (fresh_grid r c cap) i j = Ok (Some cell_new).
Proof.
  intros r c cap i j Hi Hj. unfold visible_cell, visible_row, visible_rows, subz, fresh_grid.
  cbn [sb sb_off live]. change (len (@nil row)) with 0.
  change (0 <=? 0) with true. cbv iota. cbn [bind].
  unfold skipnN, firstnN at 1. cbn [skipn]. rewrite firstn_nil. cbn [app].
  rewrite len_repeatN, N.sub_0_r. rewrite get_firstnN, get_repeatN.
  destruct (N.ltb_spec i r); [|lia]. cbn [bind].
  apply f_equal. apply (proj2 (proj2 (proj2 (row_new_blank c)))). exact Hj.
Qed.

(* RIS = Screen::new with the current size and capacity *)
Theorem scr_ris_spec : forall s s0,
  scr_ris s = Ok s0 -> s0 = fresh_screen (grows (g s)) (gcols (g s)) (sb_cap (g s)).
Proof. intros s s0 H. unfold scr_ris in H. apply screen_new_closed in H. apply H. Qed.

(* RIS is idempotent and forgets everything but (rows, cols, capacity) *)
Theorem scr_ris_depends_only_on_size : forall s t,
  grows (g s) = grows (g t) -> gcols (g s) = gcols (g t) -> sb_cap (g s) = sb_cap (g t) ->
  scr_ris s = scr_ris t.
Proof. intros s t H1 H2 H3. unfold scr_ris. rewrite H1, H2, H3. reflexivity. Qed.

(* ------------------------------------------------------------------ *)
(* 2. The vte level: ESC c from ANY well-formed parser state           *)
(* ------------------------------------------------------------------ *)

(* what the ESC byte terminates / flushes before the RIS itself is dispatched:
   - a pending incomplete UTF-8 sequence is reported as U+FFFD,
   - a DCS passthrough is unhooked,
   - an OSC string is dispatched (ESC is one of its terminators; bell = false),
   - nothing in every other state (Ground, Escape, EscapeIntermediate, Csi*, DcsEntry,
     DcsParam, DcsIntermediate, DcsIgnore, SOS/PM/APC). *)
Definition ris_pre (p : pstate) : list action :=
  match vst p with
  | Ground => match partial p with [] => [] | _ => [APrint REPL] end
  | DcsPassthrough => [AUnhook]
  | OscString => [AOsc (osc_slices (osc_put_param p)) false]
  | _ => []
  end.

Lemma decode1_inc_then_ascii l b m :
  decode1 l = DIncomplete -> b < 128 -> decode1 (l ++ b :: m) = DErr (len l).
Proof.
  intros H Hb; dec_start l; cbn [app]; dsplit; try discriminate; okspec; lens; try reflexivity; lia.
Qed.

Lemma ris_advance_partial p x l :
  pwf p -> partial p = x :: l ->
  advance_partial p [27; 99] = (set_partial p [], [APrint REPL], 0).
Proof.
  intros Hw Ep. unfold advance_partial.
  assert (Hne : partial p <> []) by (rewrite Ep; discriminate).
  destruct (pwf_partial p Hw Hne) as [Hg Hd].
  pose proof (decode1_inc_inv _ Hd) as (Hl & _ & _).
  set (old := len (partial p)) in *.
  assert (Hbuf : exists m, firstnN (N.min (len [27; 99]) (4 - old)) [27; 99] = 27 :: m).
  { change (len [27; 99]) with 2.
    destruct (N.eq_dec old 3) as [E|E].
    - exists []. rewrite E. reflexivity.
    - exists [99]. replace (N.min 2 (4 - old)) with 2 by lia. reflexivity. }
  destruct Hbuf as [m ->].
  rewrite from_utf8_unfold.
  rewrite (decode1_inc_then_ascii (partial p) 27 m Hd) by lia.
  fold old. destruct (N.ltb_spec 0 0); [lia|].
  rewrite N.sub_diag. reflexivity.
Qed.

(* from a Ground state without pending bytes *)
Lemma ris_loop_ground p acc :
  pwf p -> vst p = Ground -> partial p = [] ->
  advance_loop 3 p [27; 99] acc = (p_init, acc ++ [AEsc [] false 99]).
Proof.
  intros Hw Hg Hp.
  destruct (pwf_osc p Hw) as [Ho1 Ho2]; [congruence|].
  destruct p as [v i ig gs o pa oraw ops part]. cbn [vst partial osc_raw osc_params] in *. subst.
  rewrite advance_loop_acc. unfold cat. vm_compute. reflexivity.
Qed.

Theorem ris_advance : forall p, pwf p ->
  advance p [27; 99] = (p_init, ris_pre p ++ [AEsc [] false 99]).
Proof.
  intros p Hw. unfold advance, ris_pre.
  destruct (partial p) as [|x l] eqn:Ep.
  - (* no pending UTF-8 bytes *)
    assert (Ho : vst p <> OscString -> osc_raw p = [] /\ osc_params p = []) by apply (pwf_osc p Hw).
    assert (He : vst p = Escape -> params_clear p) by apply (pwf_esc p Hw).
    change (S (length [27; 99])) with 3%nat.
    destruct (vst p) eqn:Ev.
    + (* Ground *) rewrite (ris_loop_ground p [] Hw Ev Ep). reflexivity.
    + (* Escape: the second ESC is ignored, the parameters are already clear *)
      destruct He as (H1 & H2 & H3 & H4 & H5); [reflexivity|].
      destruct Ho as [Ho1 Ho2]; [discriminate|].
      destruct p as [v i ig gs o pa oraw ops part].
      cbn [vst partial osc_raw osc_params inter ignoring groups opn param] in *. subst.
      vm_compute. reflexivity.
    + destruct Ho as [Ho1 Ho2]; [discriminate|].
      destruct p as [v i ig gs o pa oraw ops part]. cbn [vst partial osc_raw osc_params] in *. subst.
      vm_compute. reflexivity.
    + destruct Ho as [Ho1 Ho2]; [discriminate|].
      destruct p as [v i ig gs o pa oraw ops part]. cbn [vst partial osc_raw osc_params] in *. subst.
      vm_compute. reflexivity.
    + destruct Ho as [Ho1 Ho2]; [discriminate|].
      destruct p as [v i ig gs o pa oraw ops part]. cbn [vst partial osc_raw osc_params] in *. subst.
      vm_compute. reflexivity.
    + destruct Ho as [Ho1 Ho2]; [discriminate|].
      destruct p as [v i ig gs o pa oraw ops part]. cbn [vst partial osc_raw osc_params] in *. subst.
      vm_compute. reflexivity.
    + destruct Ho as [Ho1 Ho2]; [discriminate|].
      destruct p as [v i ig gs o pa oraw ops part]. cbn [vst partial osc_raw osc_params] in *. subst.
      vm_compute. reflexivity.
    + destruct Ho as [Ho1 Ho2]; [discriminate|].
      destruct p as [v i ig gs o pa oraw ops part]. cbn [vst partial osc_raw osc_params] in *. subst.
      vm_compute. reflexivity.
    + destruct Ho as [Ho1 Ho2]; [discriminate|].
      destruct p as [v i ig gs o pa oraw ops part]. cbn [vst partial osc_raw osc_params] in *. subst.
      vm_compute. reflexivity.
    + destruct Ho as [Ho1 Ho2]; [discriminate|].
      destruct p as [v i ig gs o pa oraw ops part]. cbn [vst partial osc_raw osc_params] in *. subst.
      vm_compute. reflexivity.
    + (* DcsPassthrough *)
      destruct Ho as [Ho1 Ho2]; [discriminate|].
      destruct p as [v i ig gs o pa oraw ops part]. cbn [vst partial osc_raw osc_params] in *. subst.
      vm_compute. reflexivity.
    + destruct Ho as [Ho1 Ho2]; [discriminate|].
      destruct p as [v i ig gs o pa oraw ops part]. cbn [vst partial osc_raw osc_params] in *. subst.
      vm_compute. reflexivity.
    + (* OscString: the string is dispatched first *)
      destruct p as [v i ig gs o pa oraw ops part]. cbn [vst partial osc_raw osc_params] in *. subst.
      cbn [advance_loop vst]. unfold change_state. cbn [vst]. unfold adv_osc_string.
      change (27 <=? 6) with false. change (rng 8 23 27) with false. change (27 =? 25) with false.
      change (rng 28 31 27) with false. change (27 =? 7) with false. change (27 =? 24) with false.
      change (27 =? 26) with false. change (27 =? 27) with true. cbv iota. cbn [orb].
      unfold osc_end. cbn [app].
      set (q := osc_put_param (mkP OscString i ig gs o pa oraw ops [])).
      assert (Eq : partial q = []).
      { unfold q, osc_put_param, set_osc. cbn [osc_params osc_raw partial vst inter ignoring groups opn param].
        destruct ops; [reflexivity|]. destruct (_ =? _); reflexivity. }
      unfold reset_params, set_vst, set_osc.
      cbn [vst inter ignoring groups opn param osc_raw osc_params partial]. rewrite Eq.
      unfold change_state. cbn [vst].
      vm_compute. reflexivity.
    + destruct Ho as [Ho1 Ho2]; [discriminate|].
      destruct p as [v i ig gs o pa oraw ops part]. cbn [vst partial osc_raw osc_params] in *. subst.
      vm_compute. reflexivity.
  - (* a pending incomplete UTF-8 sequence: reported as U+FFFD, no byte consumed *)
    assert (Hne : partial p <> []) by (rewrite Ep; discriminate).
    destruct (pwf_partial p Hw Hne) as [Hg Hd].
    rewrite Hg.
    rewrite (ris_advance_partial p x l Hw Ep).
    rewrite skipnN_0. change (S (length [27; 99])) with 3%nat.
    apply ris_loop_ground.
    + apply pwf0_pwf, pwf0_clear_partial. exact Hw.
    + exact Hg.
    + reflexivity.
Qed.

(* the parser state after ESC c is EXACTLY the initial one, whatever came before *)
Corollary ris_vte_state : forall p, pwf p -> fst (advance p [27; 99]) = p_init.
Proof. intros p Hw. rewrite ris_advance by exact Hw. reflexivity. Qed.

(* the cases spelled out *)
Corollary ris_pre_cases : forall p,
  (vst p = Ground -> partial p = [] -> ris_pre p = []) /\
  (vst p = Ground -> partial p <> [] -> ris_pre p = [APrint 65533]) /\
  (vst p = DcsPassthrough -> ris_pre p = [AUnhook]) /\
  (vst p = OscString -> ris_pre p = [AOsc (osc_slices (osc_put_param p)) false]) /\
  (vst p <> Ground -> vst p <> DcsPassthrough -> vst p <> OscString -> ris_pre p = []).
Proof.
  intros p. unfold ris_pre. repeat split.
  - intros -> ->. reflexivity.
  - intros -> H. destruct (partial p); [congruence|reflexivity].
  - intros ->. reflexivity.
  - intros ->. reflexivity.
  - intros H1 H2 H3. destruct (vst p); try reflexivity; congruence.
Qed.

(* ------------------------------------------------------------------ *)
(* 3. The parser level                                                 *)
(* ------------------------------------------------------------------ *)

(* the events of what the ESC byte terminates; the RIS itself reports nothing *)
Definition ris_events (v : pstate) : list event :=
  match vst v with
  | Ground => match partial v with [] => [] | _ => [EUnhChar REPL] end
  | OscString => osc_events (osc_slices (osc_put_param v))
  | _ => []
  end.

Lemma perform_ris_pre rz s v : perform_all rz s (ris_pre v) [] = Ok (s, ris_events v).
Proof.
  unfold ris_pre, ris_events. destruct (vst v); try reflexivity.
  - destruct (partial v); reflexivity.
  - cbn [perform_all perform bind]. rewrite do_osc_events. reflexivity.
Qed.

Lemma ris_events_nil v :
  ris_pre v = [] \/ ris_pre v = [AUnhook] -> ris_events v = [].
Proof.
  unfold ris_pre, ris_events. destruct (vst v); try reflexivity.
  - destruct (partial v); [reflexivity|]. intros [H|H]; discriminate.
  - intros [H|H]; discriminate.
Qed.

Lemma ris_events_nil' v :
  vst v <> OscString -> partial v = [] -> ris_events v = [].
Proof.
  unfold ris_events. intros H1 H2. destruct (vst v); try reflexivity; [|congruence].
  rewrite H2. reflexivity.
Qed.

(* ESC c ends in an ASCII byte: with nothing held back before, it goes to vte as it is and nothing is
   held back afterwards *)
Lemma ris_tail : incomplete_tail [27; 99] = 0.
Proof. reflexivity. Qed.

Theorem ris_process : forall p q,
  pend p = [] ->
  pwf (vt p) -> process p [27; 99] = Ok q ->
  let s0 := fresh_screen (grows (g (scr p))) (gcols (g (scr p))) (sb_cap (g (scr p))) in
  screen_new (grows (g (scr p))) (gcols (g (scr p))) (sb_cap (g (scr p))) = Ok s0 /\
  vt q = p_init /\ scr q = s0 /\ resizing q = resizing p /\
  log q = log p ++ ris_events (vt p).
Proof.
  intros p q Hpd Hw H s0. rewrite (process_clean p _ Hpd ris_tail) in H. rewrite (ris_advance (vt p) Hw) in H.
  rewrite perform_all_app, perform_ris_pre in H. cbn [bind perform_all perform] in H.
  unfold do_esc in H. change (99 =? 55) with false in H. change (99 =? 56) with false in H.
  change (99 =? 61) with false in H. change (99 =? 62) with false in H.
  change (99 =? 77) with false in H. change (99 =? 99) with true in H. cbv iota in H.
  unfold scr_ris in H.
  destruct (screen_new (grows (g (scr p))) (gcols (g (scr p))) (sb_cap (g (scr p)))) as [s1|k] eqn:E;
    cbn [bind] in H; [|discriminate].
  pose proof (screen_new_closed _ _ _ _ E) as [_ E1]. fold s0 in E1. subst s1.
  inv H. cbn [vt scr resizing log]. rewrite app_nil_r. auto.
Qed.

(* the whole result in one equation *)
Corollary ris_process_eq : forall p q,
  pend p = [] ->
  pwf (vt p) -> process p [27; 99] = Ok q ->
  q = mkParser p_init (fresh_screen (grows (g (scr p))) (gcols (g (scr p))) (sb_cap (g (scr p))))
               (log p ++ ris_events (vt p)) (resizing p) [].
Proof.
  intros p q Hpd Hw H. destruct (ris_process p q Hpd Hw H) as (_ & H1 & H2 & H3 & H4).
  pose proof (process_clean_pend p _ q Hpd ris_tail H) as H5.
  destruct q as [v s l rz pd]. cbn [vt scr log resizing pend] in *. subst. reflexivity.
Qed.

(* it never panics on a screen with at least one row, in particular on [parser_ok] *)
Theorem ris_process_total : forall p, pend p = [] -> pwf (vt p) -> 1 <= grows (g (scr p)) ->
  process p [27; 99] =
  Ok (mkParser p_init (fresh_screen (grows (g (scr p))) (gcols (g (scr p))) (sb_cap (g (scr p))))
               (log p ++ ris_events (vt p)) (resizing p) []).
Proof.
  intros p Hpd Hw Hr. rewrite (process_clean p _ Hpd ris_tail). rewrite (ris_advance (vt p) Hw).
  rewrite perform_all_app, perform_ris_pre. cbn [bind perform_all perform].
  unfold do_esc. change (99 =? 55) with false. change (99 =? 56) with false.
  change (99 =? 61) with false. change (99 =? 62) with false.
  change (99 =? 77) with false. change (99 =? 99) with true. cbv iota.
  unfold scr_ris. rewrite screen_new_total by exact Hr. cbn [bind]. rewrite app_nil_r. reflexivity.
Qed.

Theorem ris_process_ok : forall p, parser_ok p -> exists q, process p [27; 99] = Ok q /\ parser_ok q.
Proof. intros p H. apply process_ok. exact H. Qed.

(* with bytes held back (an incomplete utf-8 sequence before the ESC): vte still ends exactly in its
   initial state and nothing is held back any more; what the held-back bytes do before the reset
   depends on the vte state (in Ground: U+FFFD is printed, then the screen is reset) *)
Theorem ris_process_any : forall p q, parser_ok p -> process p [27; 99] = Ok q ->
  vt q = p_init /\ pend q = [].
Proof.
  intros p q [_ I] H.
  assert (Z : incomplete_tail (pend p ++ [27; 99]) = 0).
  { change [27; 99] with ([27] ++ [99]). rewrite app_assoc. apply incomplete_tail_app_ascii. lia. }
  split.
  - rewrite (process_vt p _ q H). rewrite (advance_eq_advance' _ _ (k04a_shielded p _ I)).
    unfold delivered. rewrite (hd_part_zero _ Z).
    pose proof (pi_pwf p I) as W.
    pose proof (advance'_app (vt p) (pend p) [27; 99] W) as APP.
    pose proof (advance'_pwf (vt p) (pend p) W) as W1.
    destruct (advance' (vt p) (pend p)) as [v1 x]. cbn [fst] in W1.
    rewrite <- (advance_eq_advance' v1 [27; 99]) in APP by (apply k04a_lead; [exact W1|right; unfold contb; cbn [hd]; lia]).
    rewrite (ris_advance v1 W1) in APP. destruct APP as (z & -> & _). reflexivity.
  - rewrite (process_pend p _ q H). unfold held. exact (tl_part_zero _ Z).
Qed.

(* ------------------------------------------------------------------ *)
(* 4. The event log is a write-only prefix                             *)
(* ------------------------------------------------------------------ *)

Definition with_log (p : parser) (l : list event) : parser :=
  mkParser (vt p) (scr p) l (resizing p) (pend p).

Definition relog (l : list event) (r : res parser) : res parser :=
  match r with Ok q => Ok (with_log q (l ++ log q)) | Panic k => Panic k end.

Lemma process_log v s l rz pd bs :
  process (mkParser v s l rz pd) bs = relog l (process (mkParser v s [] rz pd) bs).
Proof.
  unfold process. cbn [vt scr log resizing pend]. cbv zeta.
  destruct (advance v _) as [v1 acts].
  destruct (perform_all rz s acts []) as [[s1 evs]|k]; cbn [bind relog]; reflexivity.
Qed.

Lemma step_log v s l rz pd o :
  step (mkParser v s l rz pd) o = relog l (step (mkParser v s [] rz pd) o).
Proof.
  destruct o as [bs|bs|r c|k]; cbn [step].
  - apply process_log.
  - unfold write. rewrite process_log.
    destruct (process (mkParser v s [] rz pd) bs) as [q|k]; cbn [bind relog]; reflexivity.
  - unfold with_scr. cbn [vt scr log resizing pend].
    destruct (screen_set_size s r c) as [s1|k]; cbn [bind relog]; [|reflexivity].
    unfold with_log. cbn [vt scr log resizing pend]. rewrite app_nil_r. reflexivity.
  - unfold with_scr, relog, with_log. cbn [vt scr log resizing pend]. rewrite app_nil_r. reflexivity.
Qed.

Theorem run_log : forall ops v s l rz pd,
  Parser.run (mkParser v s l rz pd) ops = relog l (Parser.run (mkParser v s [] rz pd) ops).
Proof.
  induction ops as [|o rest IH]; intros v s l rz pd; cbn [Parser.run].
  - unfold relog, with_log. cbn [vt scr log resizing pend]. rewrite app_nil_r. reflexivity.
  - rewrite step_log.
    destruct (step (mkParser v s [] rz pd) o) as [[v1 s1 l1 rz1 pd1]|k]; cbn [bind relog]; [|reflexivity].
    unfold with_log at 1. cbn [vt scr log resizing pend].
    rewrite (IH v1 s1 (l ++ l1) rz1 pd1). rewrite (IH v1 s1 l1 rz1 pd1).
    destruct (Parser.run (mkParser v1 s1 [] rz1 pd1) rest) as [q|k]; cbn [relog]; [|reflexivity].
    unfold with_log. cbn [vt scr log resizing pend]. rewrite app_assoc. reflexivity.
Qed.

(* the form asked for: same vte state, same screen, same policy; logs differ by the prefix *)
Theorem run_log_prefix_ok : forall ops v s l rz pd v' s' l' rz' pd',
  Parser.run (mkParser v s l rz pd) ops = Ok (mkParser v' s' l' rz' pd') <->
  exists e, Parser.run (mkParser v s [] rz pd) ops = Ok (mkParser v' s' e rz' pd') /\ l' = l ++ e.
Proof.
  intros ops v s l rz pd v' s' l' rz' pd'. rewrite run_log. split.
  - destruct (Parser.run (mkParser v s [] rz pd) ops) as [[v1 s1 l1 rz1 pd1]|k]; cbn [relog]; [|discriminate].
    unfold with_log. cbn [vt scr log resizing pend]. intros H. inv H. eauto.
  - intros (e & -> & ->). reflexivity.
Qed.

Theorem run_log_prefix_panic : forall ops v s l rz pd k,
  Parser.run (mkParser v s l rz pd) ops = Panic k <-> Parser.run (mkParser v s [] rz pd) ops = Panic k.
Proof.
  intros ops v s l rz pd k. rewrite run_log.
  destruct (Parser.run (mkParser v s [] rz pd) ops) as [q|k']; cbn [relog]; split; intros H;
    try discriminate; exact H.
Qed.

(* two parsers that differ only in their logs *)
Corollary run_log_any : forall ops v s l1 l2 rz pd,
  match Parser.run (mkParser v s l1 rz pd) ops, Parser.run (mkParser v s l2 rz pd) ops with
  | Ok q1, Ok q2 => vt q1 = vt q2 /\ scr q1 = scr q2 /\ resizing q1 = resizing q2 /\ pend q1 = pend q2 /\
                    exists e, log q1 = l1 ++ e /\ log q2 = l2 ++ e
  | Panic k1, Panic k2 => k1 = k2
  | _, _ => False
  end.
Proof.
  intros ops v s l1 l2 rz pd. rewrite (run_log ops v s l1 rz pd), (run_log ops v s l2 rz pd).
  destruct (Parser.run (mkParser v s [] rz pd) ops) as [q|k]; cbn [relog]; [|reflexivity].
  unfold with_log. cbn [vt scr log resizing pend]. repeat split. eauto.
Qed.

(* ------------------------------------------------------------------ *)
(* After ESC c every later input behaves exactly as on a fresh parser   *)
(* ------------------------------------------------------------------ *)

Theorem ris_then_fresh : forall p q,
  pend p = [] ->
  pwf (vt p) -> process p [27; 99] = Ok q ->
  exists pf,
    parser_new (grows (g (scr p))) (gcols (g (scr p))) (sb_cap (g (scr p))) (resizing p) = Ok pf /\
    (* q is the fresh parser except for its log *)
    q = with_log pf (log q) /\ log pf = [] /\
    log q = log p ++ ris_events (vt p) /\
    (* every continuation: same vte state, screen and policy; logs differ exactly by
       the prefix [log q]; both panic (identically) or neither *)
    forall ops,
      match Parser.run pf ops with
      | Ok qf => exists q', Parser.run q ops = Ok q' /\
                   vt q' = vt qf /\ scr q' = scr qf /\ resizing q' = resizing qf /\
                   log q' = log q ++ log qf
      | Panic k => Parser.run q ops = Panic k
      end.
Proof.
  intros p q Hpd Hw H.
  destruct (ris_process p q Hpd Hw H) as (E0 & _ & _ & _ & E4).
  pose proof (ris_process_eq p q Hpd Hw H) as Eq.
  set (s0 := fresh_screen (grows (g (scr p))) (gcols (g (scr p))) (sb_cap (g (scr p)))) in *.
  exists (mkParser p_init s0 [] (resizing p) []).
  split; [unfold parser_new; rewrite E0; reflexivity|].
  split; [rewrite Eq; reflexivity|].
  split; [reflexivity|].
  split; [exact E4|].
  intros ops. rewrite Eq. cbn [log].
  rewrite (run_log ops p_init s0 (log p ++ ris_events (vt p)) (resizing p) []).
  destruct (Parser.run (mkParser p_init s0 [] (resizing p) []) ops) as [qf|k]; cbn [relog]; [|reflexivity].
  eexists; split; [reflexivity|]. unfold with_log. cbn [vt scr log resizing pend]. auto.
Qed.

(* under the invariant the ESC c itself cannot panic, so the statement is unconditional *)
Corollary ris_then_fresh_ok : forall p,
  pend p = [] ->
  pwf (vt p) -> parser_ok p ->
  exists q pf,
    process p [27; 99] = Ok q /\
    parser_new (grows (g (scr p))) (gcols (g (scr p))) (sb_cap (g (scr p))) (resizing p) = Ok pf /\
    vt q = vt pf /\ scr q = scr pf /\ resizing q = resizing pf /\
    log pf = [] /\ log q = log p ++ ris_events (vt p) /\
    forall ops,
      match Parser.run pf ops with
      | Ok qf => exists q', Parser.run q ops = Ok q' /\
                   vt q' = vt qf /\ scr q' = scr qf /\ resizing q' = resizing qf /\
                   log q' = log q ++ log qf
      | Panic k => Parser.run q ops = Panic k
      end.
Proof.
  intros p Hpd Hw Hok. destruct (ris_process_ok p Hok) as (q & H & _).
  destruct (ris_then_fresh p q Hpd Hw H) as (pf & E1 & E2 & E3 & E4 & E5).
  exists q, pf. split; [exact H|]. split; [exact E1|].
  rewrite E2 at 1 2 3. unfold with_log. cbn [vt scr resizing]. auto 10.
Qed.

(* the RIS itself reports nothing: from a state between sequences the log is unchanged *)
Corollary ris_silent : forall p q,
  pend p = [] ->
  pwf (vt p) -> vst (vt p) = Ground -> partial (vt p) = [] ->
  process p [27; 99] = Ok q -> log q = log p.
Proof.
  intros p q Hpd Hw Hg Hp H. destruct (ris_process p q Hpd Hw H) as (_ & _ & _ & _ & E).
  rewrite E, ris_events_nil', app_nil_r; [reflexivity|congruence|exact Hp].
Qed.

(* every parser reached through the API satisfies the hypotheses *)
Lemma step_pwf p o q : pwf (vt p) -> step p o = Ok q -> pwf (vt q).
Proof.
  intros W H. destruct o as [bs|bs|r c|k]; cbn [step] in H.
  - eapply process_pwf; eassumption.
  - unfold write in H. bind_inv H. destruct v as [q' n]. bind_inv E. inv E. inv H.
    eapply process_pwf; eassumption.
  - bind_inv H. inv H. exact W.
  - inv H. exact W.
Qed.

Lemma run_pwf_parser ops : forall p q, pwf (vt p) -> Parser.run p ops = Ok q -> pwf (vt q).
Proof.
  induction ops as [|o r IH]; intros p q W H; cbn [Parser.run] in H.
  - inv H. exact W.
  - bind_inv H. eapply IH; [|exact H]. eapply step_pwf; eassumption.
Qed.

Theorem ris_reachable : forall r c cap rz ops p0 p,
  1 <= r <= MAXDIM -> 1 <= c <= MAXDIM ->
  parser_new r c cap rz = Ok p0 -> Forall op_ok ops -> Parser.run p0 ops = Ok p ->
  pend p = [] ->
  exists q pf,
    process p [27; 99] = Ok q /\
    parser_new (grows (g (scr p))) (gcols (g (scr p))) (sb_cap (g (scr p))) (resizing p) = Ok pf /\
    vt q = vt pf /\ scr q = scr pf /\ resizing q = resizing pf /\
    log pf = [] /\ log q = log p ++ ris_events (vt p) /\
    forall ops',
      match Parser.run pf ops' with
      | Ok qf => exists q', Parser.run q ops' = Ok q' /\
                   vt q' = vt qf /\ scr q' = scr qf /\ resizing q' = resizing qf /\
                   log q' = log q ++ log qf
      | Panic k => Parser.run q ops' = Panic k
      end.
Proof.
  intros r c cap rz ops p0 p Hr Hc E0 Hops Hrun Hpd.
  assert (W0 : pwf (vt p0)).
  { unfold parser_new in E0. bind_inv E0. inv E0. exact pwf_init. }
  assert (O0 : parser_ok p0).
  { destruct (parser_new_ok r c cap rz Hr Hc) as (p0' & E & O). congruence. }
  destruct (run_ok ops p0 O0 Hops) as (p' & E & O).
  assert (p' = p) by congruence. subst p'.
  apply ris_then_fresh_ok; [exact Hpd|eapply run_pwf_parser; eassumption|exact O].
Qed.

(* ------------------------------------------------------------------ *)
(* Non-vacuity                                                          *)
(* ------------------------------------------------------------------ *)

(* a parser in the middle of things: text, colours, a scroll region, origin mode,
   alternate screen, hidden cursor, mouse mode, saved cursor, an unterminated OSC:
   "AB" CSI 31 m  CSI 2;4 r  CSI ?6 h  CSI ?1049 h  CSI ?25 l  CSI ?1000 h  ESC 7  OSC 0;hi *)
Definition busy_bytes : list N :=
  [65; 66; 27; 91; 51; 49; 109; 27; 91; 50; 59; 52; 114; 27; 91; 63; 54; 104;
   27; 91; 63; 49; 48; 52; 57; 104; 27; 91; 63; 50; 53; 108; 27; 91; 63; 49; 48; 48; 48; 104;
   27; 55; 27; 93; 48; 59; 104; 105].

Definition busy_parser : res parser :=
  do p0 <- parser_new 5 10 3 false; process p0 busy_bytes.

Example ris_example :
  match busy_parser with
  | Ok p1 =>
    vst (vt p1) = OscString /\ altmode (scr p1) = true /\ hide (scr p1) = true /\
    mmode (scr p1) = MPressRelease /\ pen (scr p1) <> dflt /\
    match process p1 [27; 99], parser_new 5 10 3 false with
    | Ok q, Ok pf =>
      vt q = vt pf /\ scr q = scr pf /\ resizing q = resizing pf /\
      (* the pending OSC 0;hi is dispatched by the ESC; the RIS itself reports nothing *)
      log q = [EIconName [104; 105]; ETitle [104; 105]]
    | _, _ => False
    end
  | Panic _ => False
  end.
Proof. vm_compute. repeat split; discriminate. Qed.
