(* EraseSpec.v — declarative, pointwise specification of the erase operations
   (ED, EL, ECH and the DEC selective forms): property C07. *)
Require Import Tac ListN Attrs Cell Row Grid Screen Vte Perform RowInv GridInv.
Open Scope N_scope.

(* ------------------------------------------------------------------ *)
(* Row level                                                          *)
(* ------------------------------------------------------------------ *)

(* the blank cell carrying attributes a: what Cell::clear(a) leaves *)
Definition blank (a : attrs) : cell := mkCell [] false false a.

Lemma cell_clear_blank a c : cell_clear a c = blank a.
Proof. reflexivity. Qed.
Lemma clear_own_blank c : clear_own c = blank (cattrs c).
Proof. reflexivity. Qed.

(* column c lies in [lo, hi) *)
Definition in_rng (lo hi c : N) : bool := (lo <=? c) && (c <? hi).
(* c is the first half (column lo-1) of a wide character whose continuation cell lo starts the range *)
Definition cut_lo (cs : list cell) (lo hi c : N) : bool := (lo <? hi) && (c + 1 =? lo) && fc cs lo.
(* c is the continuation half (column hi) of a wide character whose first half hi-1 ends the range *)
Definition cut_hi (cs : list cell) (lo hi c : N) : bool := (lo <? hi) && (c =? hi) && fw cs (hi - 1).
Definition cut (cs : list cell) (lo hi c : N) : bool := cut_lo cs lo hi c || cut_hi cs lo hi c.
(* column c is blanked (with the pen, or as a cut half with its own attributes) *)
Definition blanked (cs : list cell) (lo hi c : N) : bool := in_rng lo hi c || cut cs lo hi c.

(* the cell found at column c after erasing [lo, hi) with attributes a *)
Definition erased_cell (a : attrs) (cs : list cell) (lo hi c : N) : option cell :=
  if in_rng lo hi c then Some (blank a)
  else if cut cs lo hi c then option_map clear_own (get cs c)
  else get cs c.

(* rw' is rw with the columns [lo, hi) erased *)
Record erased (a : attrs) (cols lo hi : N) (rw rw' : row) : Prop := mkErased {
  er_cells : forall c, get (cells rw') c = erased_cell a (cells rw) lo hi c;
  er_wrap : wrapped rw' = if blanked (cells rw) lo hi (cols - 1) then false else wrapped rw }.

(* the relation determines the result *)
Lemma erased_unique a cols lo hi rw r1 r2 :
  erased a cols lo hi rw r1 -> erased a cols lo hi rw r2 -> r1 = r2.
Proof.
  intros [C1 W1] [C2 W2]. destruct r1 as [c1 w1], r2 as [c2 w2]. cbn [cells wrapped] in *.
  f_equal; [|congruence]. apply list_ext_get. intros i. now rewrite C1, C2.
Qed.

(* an empty range changes nothing *)
Lemma erased_empty a cols lo rw : erased a cols lo lo rw rw.
Proof.
  split.
  - intros c. unfold erased_cell, in_rng, cut, cut_lo, cut_hi.
    destruct (N.leb_spec lo c), (N.ltb_spec c lo), (N.ltb_spec lo lo); try lia; reflexivity.
  - unfold blanked, in_rng, cut, cut_lo, cut_hi.
    destruct (N.leb_spec lo (cols - 1)), (N.ltb_spec (cols - 1) lo), (N.ltb_spec lo lo); try lia; reflexivity.
Qed.

(* ---- one call of Row::erase ---- *)
Lemma get_set_same {A} (l : list A) i x : i < len l -> get (set_at l i x) i = Some x.
Proof.
  intros H. rewrite get_set_at. destruct (N.eqb_spec i i); [|lia].
  destruct (N.ltb_spec i (len l)); [reflexivity|lia].
Qed.
Lemma get_set_other {A} (l : list A) i j x : j <> i -> get (set_at l i x) j = get l j.
Proof. intros H. rewrite get_set_at. destruct (N.eqb_spec j i); [lia|reflexivity]. Qed.

Lemma row_erase_step cols r i a : row_ok cols r -> cols <= 65535 -> i < cols ->
  exists r', row_erase r i a = Ok r' /\ row_ok cols r' /\
    (forall c, get (cells r') c =
       if c =? i then Some (blank a)
       else if (c =? i + 1) && fw (cells r) i then option_map clear_own (get (cells r) c)
       else if (c + 1 =? i) && fc (cells r) i then option_map clear_own (get (cells r) c)
       else get (cells r) c) /\
    wrapped r' = if i =? cols - (if fw (cells r) i then 2 else 1) then false else wrapped r.
Proof.
  intros Hrw Hc Hi.
  destruct (row_erase_ok cols r i a Hrw Hc Hi) as (r' & E & Hrw').
  exists r'. split; [exact E|]. split; [exact Hrw'|].
  destruct Hrw as [Hl Hok]. subst cols.
  destruct (get_lt_some _ _ Hi) as (c0 & Hg).
  unfold row_erase in E. rewrite (idx_get _ _ _ Hg) in E. cbn [bind] in E.
  rewrite (fw_get _ _ _ Hg), (fc_get _ _ _ Hg).
  unfold clear_wide in E. rewrite (idx_get _ _ _ Hg) in E. cbn [bind] in E.
  destruct (cwide c0) eqn:Ew.
  - (* wide: the continuation cell i+1 is blanked with its own attributes *)
    destruct (ok_wide_next _ _ _ Hok Hg Ew) as (d & Hd & Dc & Dw & Cc).
    assert (i + 1 < len (cells r)) as Lj by (eapply get_some_lt; eauto).
    rewrite add16_ok in E by lia. cbn [bind] in E.
    rewrite (idx_get _ _ _ Hd) in E. cbn [bind] in E.
    unfold row_set_cell in E; cbn [cells wrapped] in E.
    rewrite (idx_get _ i c0) in E by (rewrite get_set_other by lia; exact Hg).
    cbn [bind] in E. unfold row_cols in E; cbn [cells] in E. rewrite !len_set_at in E.
    rewrite sub16_ok in E by lia. cbn [bind] in E.
    split.
    + intros c. rewrite Cc, andb_false_r.
      destruct (N.eqb_spec i (len (cells r) - 2)); injection E as <-; cbn [row_wrap cells];
        rewrite get_set_at, len_set_at, get_set_at;
        destruct (N.eqb_spec c i); try (destruct (N.ltb_spec i (len (cells r))); [reflexivity|lia]);
        destruct (N.eqb_spec c (i + 1)); cbn [andb]; try reflexivity;
        subst c; rewrite Hd; (destruct (N.ltb_spec (i + 1) (len (cells r))); [reflexivity|lia]).
    + destruct (N.eqb_spec i (len (cells r) - 2)); injection E as <-; reflexivity.
  - destruct (ccont c0) eqn:Ec.
    + (* continuation: the first half i-1 is blanked with its own attributes *)
      destruct (ok_cont_prev _ _ _ Hok Hg Ec) as (Hi0 & d & Hd & Dw & Dc & Cw).
      rewrite sub16_ok in E by lia. cbn [bind] in E.
      rewrite (idx_get _ _ _ Hd) in E. cbn [bind] in E.
      unfold row_set_cell in E; cbn [cells wrapped] in E.
      rewrite (idx_get _ i c0) in E by (rewrite get_set_other by lia; exact Hg).
      cbn [bind] in E. unfold row_cols in E; cbn [cells] in E. rewrite !len_set_at in E.
      rewrite sub16_ok in E by lia. cbn [bind] in E.
      split.
      * intros c. rewrite andb_false_r.
        destruct (N.eqb_spec i (len (cells r) - 1)); injection E as <-; cbn [row_wrap cells];
          rewrite get_set_at, len_set_at, get_set_at;
          destruct (N.eqb_spec c i); try (destruct (N.ltb_spec i (len (cells r))); [reflexivity|lia]);
          destruct (N.eqb_spec (c + 1) i); destruct (N.eqb_spec c (i - 1)); try lia; cbn [andb]; try reflexivity;
          subst c; rewrite Hd; (destruct (N.ltb_spec (i - 1) (len (cells r))); [reflexivity|lia]).
      * destruct (N.eqb_spec i (len (cells r) - 1)); injection E as <-; reflexivity.
    + (* narrow *)
      cbn [bind] in E. rewrite (idx_get _ _ _ Hg) in E. cbn [bind] in E.
      unfold row_set_cell, row_cols in E; cbn [cells wrapped] in E. rewrite len_set_at in E.
      rewrite sub16_ok in E by lia. cbn [bind] in E.
      split.
      * intros c. rewrite !andb_false_r.
        destruct (N.eqb_spec i (len (cells r) - 1)); injection E as <-; cbn [row_wrap cells];
          rewrite get_set_at;
          destruct (N.eqb_spec c i); try reflexivity;
          (destruct (N.ltb_spec i (len (cells r))); [reflexivity|lia]).
      * destruct (N.eqb_spec i (len (cells r) - 1)); injection E as <-; reflexivity.
Qed.

(* ---- a contiguous range, cell by cell ---- *)
Lemma for_range_S {A} (f : N -> A -> res A) n lo a :
  for_range (S n) lo f a = do a' <- f lo a; for_range n (lo + 1) f a'.
Proof. reflexivity. Qed.

Lemma for_range_snoc {A} (f : N -> A -> res A) n : forall lo a,
  for_range (S n) lo f a = do b <- for_range n lo f a; f (lo + N.of_nat n) b.
Proof.
  induction n as [|n IH]; intros lo a.
  - cbn [for_range bind]. replace (lo + N.of_nat 0) with lo by lia. destruct (f lo a); reflexivity.
  - rewrite (for_range_S f (S n) lo a), (for_range_S f n lo a).
    destruct (f lo a) as [a'|k]; [|reflexivity]. cbn [bind].
    rewrite IH. replace (lo + 1 + N.of_nat n) with (lo + N.of_nat (S n)) by lia. reflexivity.
Qed.

(* flags of the row after erasing [lo, hi), at the next column hi *)
Lemma erased_flags_next a cs cs' lo hi : cells_ok cs -> lo <= hi ->
  (forall c, get cs' c = erased_cell a cs lo hi c) ->
  fw cs' hi = fw cs hi /\ fc cs' hi = (if lo <? hi then false else fc cs hi).
Proof.
  intros [H0 Hp Hb] Hle Hc.
  unfold fw at 1, fc at 1. rewrite Hc. unfold erased_cell, in_rng, cut, cut_lo, cut_hi.
  destruct (N.leb_spec lo hi); [|lia]. destruct (N.ltb_spec hi hi); [lia|]. cbn [andb].
  destruct (N.eqb_spec (hi + 1) lo); [lia|]. rewrite andb_false_r. cbn [andb orb].
  destruct (N.eqb_spec hi hi); [|lia]. rewrite andb_true_r.
  destruct (N.ltb_spec lo hi) as [Hlt|Hge]; cbn [andb].
  - pose proof (Hp (hi - 1)) as P. replace (hi - 1 + 1) with hi in P by lia.
    pose proof (Hb hi) as B.
    destruct (fw cs (hi - 1)) eqn:Ew.
    + unfold fw, fc in *. destruct (get cs hi) as [x|]; cbn [option_map]; [|auto].
      cbn. rewrite <- P in B. rewrite andb_true_r in B. auto.
    + unfold fw, fc in *. destruct (get cs hi) as [x|]; auto.
  - split; reflexivity.
Qed.

Ltac ncases :=
  repeat (match goal with
          | |- context[N.eqb ?a ?b] => destruct (N.eqb_spec a b)
          | |- context[N.ltb ?a ?b] => destruct (N.ltb_spec a b)
          | |- context[N.leb ?a ?b] => destruct (N.leb_spec a b)
          end; try lia; cbn [andb orb]).

Theorem row_erase_range cols rw a lo n : row_ok cols rw -> cols <= 65535 -> lo + N.of_nat n <= cols ->
  exists rw', for_range n lo (fun col r => row_erase r col a) rw = Ok rw' /\
              row_ok cols rw' /\ erased a cols lo (lo + N.of_nat n) rw rw'.
Proof.
  intros Hrw Hc. induction n as [|n IH]; intros Hn.
  - exists rw. split; [reflexivity|]. split; [exact Hrw|].
    replace (lo + N.of_nat 0) with lo by lia. apply erased_empty.
  - destruct IH as (r1 & E1 & Hr1 & [C1 W1]); [lia|].
    rewrite for_range_snoc, E1. cbn [bind].
    set (hi := lo + N.of_nat n) in *.
    assert (hi < cols) as Hhi by lia.
    assert (lo <= hi) as Hle by lia.
    replace (lo + N.of_nat (S n)) with (hi + 1) by lia. clearbody hi. clear Hn.
    destruct (row_erase_step cols r1 hi a Hr1 Hc Hhi) as (r2 & E2 & Hr2 & C2 & W2).
    exists r2. split; [exact E2|]. split; [exact Hr2|].
    destruct Hrw as [Hl Hok].
    destruct (erased_flags_next a (cells rw) (cells r1) lo hi Hok Hle C1) as [FW FC].
    pose proof Hok as [H0 Hp Hb].
    (* the last cell is never wide *)
    assert (fw (cells rw) (cols - 1) = false) as Hlast.
    { rewrite (Hp (cols - 1)). apply fc_out. lia. }
    split.
    + intros c. rewrite C2, FW, FC, !C1. clear C2 W2 E2 E1 C1 W1.
      unfold erased_cell, in_rng, cut, cut_lo, cut_hi.
      replace (hi + 1 - 1) with hi by lia.
      ncases; rewrite ?orb_false_r, ?andb_false_r, ?andb_true_r; try reflexivity.
      subst; reflexivity.
    + rewrite W2, FW, W1. clear C2 W2 E2 E1 C1 W1.
      unfold blanked, in_rng, cut, cut_lo, cut_hi.
      replace (hi + 1 - 1) with hi by lia.
      destruct (fw (cells rw) hi) eqn:Ew.
      * assert (hi <> cols - 1) as Hn1 by (intros ->; congruence).
        ncases; rewrite ?orb_false_r, ?andb_false_r, ?andb_true_r; try reflexivity.
      * ncases; rewrite ?orb_false_r, ?andb_false_r, ?andb_true_r; try reflexivity.
Qed.

(* the same, for the range [lo, hi) as the grid operations call it *)
Theorem row_erase_range_spec cols rw a lo hi : row_ok cols rw -> cols <= 65535 -> lo <= hi -> hi <= cols ->
  exists rw', for_range (N.to_nat (hi - lo)) lo (fun col r => row_erase r col a) rw = Ok rw' /\
              row_ok cols rw' /\ erased a cols lo hi rw rw'.
Proof.
  intros Hrw Hc Hle Hhi.
  destruct (row_erase_range cols rw a lo (N.to_nat (hi - lo)) Hrw Hc) as (rw' & E & Hrw' & Her); [lia|].
  replace (lo + N.of_nat (N.to_nat (hi - lo))) with hi in Her by lia. eauto.
Qed.

(* any successful run is the specified one *)
Corollary row_erase_range_sound cols rw a lo hi rw' : row_ok cols rw -> cols <= 65535 -> lo <= hi -> hi <= cols ->
  for_range (N.to_nat (hi - lo)) lo (fun col r => row_erase r col a) rw = Ok rw' ->
  row_ok cols rw' /\
  (forall c, get (cells rw') c =
     if (lo <=? c) && (c <? hi) then Some (blank a)
     else if ((lo <? hi) && (c + 1 =? lo) && fc (cells rw) lo) || ((lo <? hi) && (c =? hi) && fw (cells rw) (hi - 1))
          then option_map clear_own (get (cells rw) c)
     else get (cells rw) c) /\
  wrapped rw' = if blanked (cells rw) lo hi (cols - 1) then false else wrapped rw.
Proof.
  intros Hrw Hc Hle Hhi E.
  destruct (row_erase_range_spec cols rw a lo hi Hrw Hc Hle Hhi) as (r & E' & Hr & [C W]).
  rewrite E in E'. inv E'. auto.
Qed.

(* the wrap condition, explicitly: the flag is cleared exactly when the last column cols-1 is
   blanked, which happens when the range reaches the end of the line, or when it ends at cols-1
   on the first half of a wide character (whose second half, the last column, is then cut) *)
Lemma blanked_last cols cs lo hi : len cs = cols -> cells_ok cs -> lo <= hi -> hi <= cols -> 1 <= cols ->
  blanked cs lo hi (cols - 1) = (lo <? hi) && ((hi =? cols) || ((hi =? cols - 1) && fw cs (cols - 2))).
Proof.
  intros Hl [H0 Hp Hb] Hle Hhi Hc.
  unfold blanked, in_rng, cut, cut_lo, cut_hi.
  destruct (N.eqb_spec hi (cols - 1)) as [->|Hne].
  - replace (cols - 1 - 1) with (cols - 2) by lia.
    ncases; rewrite ?orb_false_r, ?andb_false_r, ?andb_true_r; reflexivity.
  - ncases; rewrite ?orb_false_r, ?andb_false_r, ?andb_true_r; try reflexivity.
Qed.

(* the model's own condition: some erased column i is "cols - (2 if wide else 1)" *)
Lemma blanked_last_model cols cs lo hi : len cs = cols -> cells_ok cs -> lo <= hi -> hi <= cols -> 1 <= cols ->
  blanked cs lo hi (cols - 1) = true <->
  exists i, lo <= i < hi /\ i = cols - (if fw cs i then 2 else 1).
Proof.
  intros Hl Hok Hle Hhi Hc. rewrite (blanked_last cols cs lo hi Hl Hok Hle Hhi Hc).
  destruct Hok as [H0 Hp Hb].
  assert (fw cs (cols - 1) = false) as Hlast by (rewrite (Hp (cols - 1)); apply fc_out; lia).
  split.
  - intros H. apply andb_prop in H as [H1 H2]. apply N.ltb_lt in H1.
    apply orb_prop in H2 as [H2|H2].
    + apply N.eqb_eq in H2. exists (cols - 1). rewrite Hlast. lia.
    + apply andb_prop in H2 as [H2 H3]. apply N.eqb_eq in H2.
      destruct (N.eqb_spec cols 1) as [->|Hn].
      * change (1 - 2) with 0 in H3. change (1 - 1) with 0 in Hlast. congruence.
      * exists (cols - 2). rewrite H3. lia.
  - intros (i & Hi & Ei). destruct (N.ltb_spec lo hi); [|lia]. cbn [andb].
    destruct (fw cs i) eqn:Ew.
    + destruct (N.eqb_spec hi cols); [reflexivity|]. cbn [orb].
      assert (i <> cols - 1) by (intros ->; congruence).
      destruct (N.eqb_spec hi (cols - 1)); [|lia]. cbn [andb]. now rewrite <- Ei.
    + destruct (N.eqb_spec hi cols); [reflexivity|lia].
Qed.

(* Row::clear is the erasure of the whole line *)
Lemma row_clear_erased a cols rw : len (cells rw) = cols -> 1 <= cols -> erased a cols 0 cols rw (row_clear a rw).
Proof.
  intros Hl Hc. split; cbn [row_clear cells wrapped].
  - intros c. rewrite get_map. unfold erased_cell, in_rng, cut, cut_lo, cut_hi.
    destruct (N.leb_spec 0 c); [|lia]. cbn [andb].
    destruct (N.ltb_spec c cols).
    + destruct (get_lt_some (cells rw) c) as (x & ->); [lia|]. reflexivity.
    + assert (get (cells rw) c = None) as -> by (apply get_none_ge; lia). cbn [option_map].
      destruct (_ || _); reflexivity.
  - unfold blanked, in_rng. destruct (N.leb_spec 0 (cols - 1)); [|lia].
    destruct (N.ltb_spec (cols - 1) cols); [reflexivity|lia].
Qed.

Lemma get_row_clear a rw c : get (cells (row_clear a rw)) c = option_map (fun _ => blank a) (get (cells rw) c).
Proof. cbn [row_clear cells]. rewrite get_map. destruct (get (cells rw) c); reflexivity. Qed.

(* ------------------------------------------------------------------ *)
(* Grid level                                                         *)
(* ------------------------------------------------------------------ *)

Inductive eop := EL0 | EL1 | EL2 | ED0 | ED1 | ED2 | ECH (n : N).

(* the model function of each operation *)
Definition erase_grid (op : eop) (x : grid) (a : attrs) : res grid :=
  match op with
  | EL0 => erase_row_forward x a
  | EL1 => erase_row_backward x a
  | EL2 => erase_row x a
  | ED0 => erase_all_forward x a
  | ED1 => erase_all_backward x a
  | ED2 => Ok (erase_all x a)
  | ECH n => erase_cells x n a
  end.

(* the addressed range: is position (r, c) addressed when the cursor is at (row, col)
   on a screen of width cols?  (Positions beyond the screen are never cells.) *)
Definition in_range (op : eop) (cols row col r c : N) : bool :=
  match op with
  | EL0 => (r =? row) && (col <=? c)
  | EL1 => (r =? row) && (c <=? N.min col (cols - 1))
  | EL2 => (r =? row)
  | ED0 => (row <? r) || ((r =? row) && (col <=? c))
  | ED1 => (r <? row) || ((r =? row) && (c <=? N.min col (cols - 1)))
  | ED2 => true
  | ECH n => (r =? row) && (col <=? c) && (c <? col + n)
  end.

(* the columns [lo, hi) addressed on the cursor line *)
Definition line_range (op : eop) (cols col : N) : N * N :=
  match op with
  | EL0 | ED0 => (col, cols)
  | EL1 | ED1 => (0, N.min col (cols - 1) + 1)
  | EL2 | ED2 => (0, cols)
  | ECH n => (col, N.min (col + n) cols)
  end.
Definition line_lo op cols col := fst (line_range op cols col).
Definition line_hi op cols col := snd (line_range op cols col).

(* lines other than the cursor line that are addressed (then as a whole) *)
Definition whole_row (op : eop) (row r : N) : bool :=
  match op with
  | ED0 => row <? r
  | ED1 => r <? row
  | ED2 => true
  | _ => false
  end.

Lemma line_range_le op cols col : col <= cols -> 1 <= cols ->
  line_lo op cols col <= line_hi op cols col /\ line_hi op cols col <= cols.
Proof. intros H1 H2. destruct op; cbn; lia. Qed.

(* in_range on the cursor line is the column range; elsewhere it is whole_row *)
Lemma in_range_line op cols row col c : col <= cols -> 1 <= cols -> c < cols ->
  in_range op cols row col row c = in_rng (line_lo op cols col) (line_hi op cols col) c.
Proof.
  intros H1 H2 H3. unfold in_rng, line_lo, line_hi.
  destruct op; cbn [in_range line_range fst snd]; ncases; reflexivity.
Qed.
Lemma in_range_other op cols row col r c : r <> row -> in_range op cols row col r c = whole_row op row r.
Proof. intros H. destruct op; cbn [in_range whole_row]; ncases; reflexivity. Qed.

(* the post-condition: rows' is the new list of lines *)
Definition erase_post (op : eop) (a : attrs) (x : grid) (rows' : list row) : Prop :=
  len rows' = grows x /\ Forall (row_ok (gcols x)) rows' /\
  (forall r, r <> prow x ->
     get rows' r = if whole_row op (prow x) r then option_map (row_clear a) (get (live x) r)
                   else get (live x) r) /\
  exists rw rw', get (live x) (prow x) = Some rw /\ get rows' (prow x) = Some rw' /\
                 erased a (gcols x) (line_lo op (gcols x) (pcol x)) (line_hi op (gcols x) (pcol x)) rw rw'.

(* ---- the cursor line ---- *)
Lemma upd_range_spec x a lo hi : grid_ok x -> lo <= hi -> hi <= gcols x ->
  exists rw rw', get (live x) (prow x) = Some rw /\
    upd_current_row x (fun rw => for_range (N.to_nat (hi - lo)) lo (fun col r => row_erase r col a) rw)
      = Ok (with_live x (set_at (live x) (prow x) rw')) /\
    row_ok (gcols x) rw' /\ erased a (gcols x) lo hi rw rw'.
Proof.
  intros H Hle Hhi. okdims.
  destruct (live_get x (prow x) H Hr) as (rw & Hg & Hrw).
  destruct (row_erase_range_spec (gcols x) rw a lo hi Hrw) as (rw' & E & Hrw' & Her);
    [unfold MAXDIM in *; lia|exact Hle|exact Hhi|].
  exists rw, rw'. split; [exact Hg|]. split; [|split; [exact Hrw'|exact Her]].
  unfold upd_current_row, upd_row, drawing_row. rewrite Hg. cbn [unwrap bind]. rewrite E. reflexivity.
Qed.

Lemma set_row_post op a x l1 rw rw' :
  grid_ok x -> len l1 = grows x -> Forall (row_ok (gcols x)) l1 ->
  get (live x) (prow x) = Some rw -> row_ok (gcols x) rw' ->
  erased a (gcols x) (line_lo op (gcols x) (pcol x)) (line_hi op (gcols x) (pcol x)) rw rw' ->
  (forall r, r <> prow x ->
     get l1 r = if whole_row op (prow x) r then option_map (row_clear a) (get (live x) r) else get (live x) r) ->
  erase_post op a x (set_at l1 (prow x) rw').
Proof.
  intros H Hl1 Hf1 Hg Hrw' Her Hw. destruct H as (K & Hr & Hc).
  split; [rewrite len_set_at; exact Hl1|].
  split; [apply Forall_set_at; [exact Hf1|exact Hrw']|].
  split.
  - intros r Hne. rewrite get_set_other by exact Hne. now apply Hw.
  - exists rw, rw'. split; [exact Hg|]. split; [|exact Her].
    apply get_set_same. rewrite Hl1. exact Hr.
Qed.

Lemma nowhole_same op (x : grid) a : (forall r, whole_row op (prow x) r = false) ->
  forall r, r <> prow x ->
    get (live x) r = if whole_row op (prow x) r then option_map (row_clear a) (get (live x) r) else get (live x) r.
Proof. intros Hw r _. now rewrite Hw. Qed.

(* ---- EL 0 / EL 1 / EL 2 / ECH ---- *)
Theorem erase_row_forward_spec x a : grid_ok x ->
  exists rows', erase_row_forward x a = Ok (with_live x rows') /\ erase_post EL0 a x rows'.
Proof.
  intros H. okdims.
  destruct (upd_range_spec x a (pcol x) (gcols x) H) as (rw & rw' & Hg & E & Hrw' & Her); [lia|lia|].
  eexists; split; [exact E|].
  apply (set_row_post EL0 a x (live x) rw rw');
    [exact H|apply (gk_live _ K)|apply (gk_rowsok _ K)|exact Hg|exact Hrw'|exact Her|now apply nowhole_same].
Qed.

Theorem erase_row_backward_spec x a : grid_ok x ->
  exists rows', erase_row_backward x a = Ok (with_live x rows') /\ erase_post EL1 a x rows'.
Proof.
  intros H. okdims. unfold erase_row_backward. rewrite sub16_ok by lia. cbn [bind].
  set (hi := N.min (pcol x) (gcols x - 1) + 1).
  destruct (upd_range_spec x a 0 hi H) as (rw & rw' & Hg & E & Hrw' & Her); [lia|unfold hi; lia|].
  replace (N.to_nat (hi - 0)) with (S (N.to_nat (N.min (pcol x) (gcols x - 1)))) in E by (unfold hi; lia).
  eexists; split; [exact E|].
  apply (set_row_post EL1 a x (live x) rw rw');
    [exact H|apply (gk_live _ K)|apply (gk_rowsok _ K)|exact Hg|exact Hrw'|exact Her|now apply nowhole_same].
Qed.

Theorem erase_row_spec x a : grid_ok x ->
  exists rows', erase_row x a = Ok (with_live x rows') /\ erase_post EL2 a x rows'.
Proof.
  intros H. okdims.
  destruct (live_get x (prow x) H Hr) as (rw & Hg & Hrw).
  unfold erase_row, upd_current_row, upd_row, drawing_row. rewrite Hg. cbn [unwrap bind].
  eexists; split; [reflexivity|].
  apply (set_row_post EL2 a x (live x) rw (row_clear a rw)); [exact H| | |exact Hg| | |].
  - apply (gk_live _ K).
  - apply (gk_rowsok _ K).
  - apply row_clear_ok, Hrw.
  - change (erased a (gcols x) 0 (gcols x) rw (row_clear a rw)). apply row_clear_erased; [apply Hrw|lia].
  - now apply nowhole_same.
Qed.

Theorem erase_cells_spec x n a : grid_ok x ->
  exists rows', erase_cells x n a = Ok (with_live x rows') /\ erase_post (ECH n) a x rows'.
Proof.
  intros H. okdims. unfold erase_cells.
  replace (N.min (sat_add16 (pcol x) n) (gcols x)) with (N.min (pcol x + n) (gcols x))
    by (unfold sat_add16, U16MAX, MAXDIM in *; lia).
  destruct (upd_range_spec x a (pcol x) (N.min (pcol x + n) (gcols x)) H) as (rw & rw' & Hg & E & Hrw' & Her); [lia|lia|].
  eexists; split; [exact E|].
  apply (set_row_post (ECH n) a x (live x) rw rw');
    [exact H|apply (gk_live _ K)|apply (gk_rowsok _ K)|exact Hg|exact Hrw'|exact Her|now apply nowhole_same].
Qed.

(* ---- ED 2 ---- *)
Theorem erase_all_spec x a : grid_ok x ->
  exists rows', Ok (erase_all x a) = Ok (with_live x rows') /\ erase_post ED2 a x rows'.
Proof.
  intros H. okdims.
  destruct (live_get x (prow x) H Hr) as (rw & Hg & Hrw).
  eexists; split; [reflexivity|].
  split; [rewrite len_map; apply (gk_live _ K)|].
  split.
  { apply Forall_map'. intros r0 Hin. apply row_clear_ok.
    pose proof (gk_rowsok _ K) as F. rewrite Forall_forall in F. apply (F r0 Hin). }
  split.
  - intros r _. cbn [whole_row]. apply get_map.
  - exists rw, (row_clear a rw). split; [exact Hg|]. split; [rewrite get_map, Hg; reflexivity|].
    change (erased a (gcols x) 0 (gcols x) rw (row_clear a rw)). apply row_clear_erased; [apply Hrw|lia].
Qed.

(* ---- ED 0 / ED 1 ---- *)
Lemma get_clear_below a (l : list row) p r :
  get (firstn (S (N.to_nat p)) l ++ map (row_clear a) (skipn (S (N.to_nat p)) l)) r =
  if p <? r then option_map (row_clear a) (get l r) else get l r.
Proof.
  replace (S (N.to_nat p)) with (N.to_nat (p + 1)) by lia.
  change (get (firstnN (p + 1) l ++ map (row_clear a) (skipnN (p + 1) l)) r = if p <? r then option_map (row_clear a) (get l r) else get l r).
  rewrite get_app, len_firstnN, get_firstnN, get_map, get_skipnN.
  destruct (N.ltb_spec p r).
  - destruct (N.ltb_spec r (N.min (p + 1) (len l))); [lia|].
    destruct (N.leb_spec (p + 1) (len l)).
    + replace (p + 1 + (r - N.min (p + 1) (len l))) with r by lia. reflexivity.
    + assert (get l r = None) as -> by (apply get_none_ge; lia).
      assert (get l (p + 1 + (r - N.min (p + 1) (len l))) = None) as -> by (apply get_none_ge; lia). reflexivity.
  - destruct (N.ltb_spec r (p + 1)); [|lia].
    destruct (N.ltb_spec r (N.min (p + 1) (len l))); [reflexivity|].
    assert (get l r = None) as -> by (apply get_none_ge; lia).
    assert (get l (p + 1 + (r - N.min (p + 1) (len l))) = None) as -> by (apply get_none_ge; lia). reflexivity.
Qed.

Lemma get_clear_above a (l : list row) p r :
  get (map (row_clear a) (firstn (N.to_nat p) l) ++ skipn (N.to_nat p) l) r =
  if r <? p then option_map (row_clear a) (get l r) else get l r.
Proof.
  change (get (map (row_clear a) (firstnN p l) ++ skipnN p l) r = if r <? p then option_map (row_clear a) (get l r) else get l r).
  rewrite get_app, len_map, len_firstnN, get_map, get_firstnN, get_skipnN.
  destruct (N.ltb_spec r p).
  - destruct (N.ltb_spec r (N.min p (len l))); [reflexivity|].
    assert (get l r = None) as -> by (apply get_none_ge; lia).
    assert (get l (p + (r - N.min p (len l))) = None) as -> by (apply get_none_ge; lia). reflexivity.
  - destruct (N.ltb_spec r (N.min p (len l))); [lia|].
    destruct (N.leb_spec p (len l)).
    + replace (p + (r - N.min p (len l))) with r by lia. reflexivity.
    + assert (get l r = None) as -> by (apply get_none_ge; lia).
      assert (get l (p + (r - N.min p (len l))) = None) as -> by (apply get_none_ge; lia). reflexivity.
Qed.

Theorem erase_all_forward_spec x a : grid_ok x ->
  exists rows', erase_all_forward x a = Ok (with_live x rows') /\ erase_post ED0 a x rows'.
Proof.
  intros H. okdims. unfold erase_all_forward.
  set (l1 := firstn _ _ ++ _).
  assert (len l1 = grows x) as Hl1 by (unfold l1; rewrite len_app_clear1; apply (gk_live _ K)).
  assert (Forall (row_ok (gcols x)) l1) as Hf1 by (apply Forall_app_clear, (gk_rowsok _ K)).
  assert (grid_ok (with_live x l1)) as Hx1 by (apply ok_with_live; auto).
  destruct (live_get x (prow x) H Hr) as (rw & Hg & Hrw).
  assert (forall r, get l1 r = if prow x <? r then option_map (row_clear a) (get (live x) r) else get (live x) r) as G1
    by (intros r; apply get_clear_below).
  destruct (upd_range_spec (with_live x l1) a (pcol x) (gcols x) Hx1) as (rw1 & rw' & Hg1 & E & Hrw' & Her); [cbn; lia|cbn; lia|].
  cbn [live prow pcol gcols with_live] in Hg1, E, Hrw', Her.
  rewrite G1 in Hg1. destruct (N.ltb_spec (prow x) (prow x)); [lia|]. rewrite Hg in Hg1. inv Hg1.
  exists (set_at l1 (prow x) rw'). split; [exact E|].
  apply (set_row_post ED0 a x l1 rw1 rw'); [exact H|exact Hl1|exact Hf1|exact Hg|exact Hrw'|exact Her|].
  intros r _. apply G1.
Qed.

Theorem erase_all_backward_spec x a : grid_ok x ->
  exists rows', erase_all_backward x a = Ok (with_live x rows') /\ erase_post ED1 a x rows'.
Proof.
  intros H. okdims. unfold erase_all_backward.
  set (l1 := map _ _ ++ _).
  assert (len l1 = grows x) as Hl1 by (unfold l1; rewrite len_app_clear2; apply (gk_live _ K)).
  assert (Forall (row_ok (gcols x)) l1) as Hf1 by (apply Forall_app_clear, (gk_rowsok _ K)).
  assert (grid_ok (with_live x l1)) as Hx1 by (apply ok_with_live; auto).
  destruct (live_get x (prow x) H Hr) as (rw & Hg & Hrw).
  assert (forall r, get l1 r = if r <? prow x then option_map (row_clear a) (get (live x) r) else get (live x) r) as G1
    by (intros r; apply get_clear_above).
  unfold erase_row_backward. cbn [gcols with_live]. rewrite sub16_ok by lia. cbn [bind].
  set (hi := N.min (pcol x) (gcols x - 1) + 1).
  destruct (upd_range_spec (with_live x l1) a 0 hi Hx1) as (rw1 & rw' & Hg1 & E & Hrw' & Her); [lia|unfold hi; cbn; lia|].
  cbn [live prow pcol gcols with_live] in Hg1, E, Hrw', Her.
  replace (N.to_nat (hi - 0)) with (S (N.to_nat (N.min (pcol x) (gcols x - 1)))) in E by (unfold hi; lia).
  rewrite G1 in Hg1. destruct (N.ltb_spec (prow x) (prow x)); [lia|]. rewrite Hg in Hg1. inv Hg1.
  exists (set_at l1 (prow x) rw'). split; [exact E|].
  apply (set_row_post ED1 a x l1 rw1 rw'); [exact H|exact Hl1|exact Hf1|exact Hg|exact Hrw'|exact Her|].
  intros r _. apply G1.
Qed.

(* all seven at once *)
Theorem erase_grid_spec op x a : grid_ok x ->
  exists rows', erase_grid op x a = Ok (with_live x rows') /\ erase_post op a x rows'.
Proof.
  intros H. destruct op; cbn [erase_grid].
  - now apply erase_row_forward_spec.
  - now apply erase_row_backward_spec.
  - now apply erase_row_spec.
  - now apply erase_all_forward_spec.
  - now apply erase_all_backward_spec.
  - now apply erase_all_spec.
  - now apply erase_cells_spec.
Qed.

(* erase_post determines the new lines *)
Lemma erase_post_unique op a x l1 l2 : erase_post op a x l1 -> erase_post op a x l2 -> l1 = l2.
Proof.
  intros (_ & _ & O1 & rw1 & r1 & G1 & G1' & E1) (_ & _ & O2 & rw2 & r2 & G2 & G2' & E2).
  apply list_ext_get. intros r. destruct (N.eq_dec r (prow x)) as [->|Hne].
  - rewrite G1 in G2. inv G2. rewrite G1', G2'. f_equal. eapply erased_unique; eauto.
  - rewrite (O1 r Hne), (O2 r Hne). reflexivity.
Qed.

(* ---- the pointwise reading of erase_post ---- *)
Definition gfw (x : grid) (r c : N) : bool := match drawing_cell x r c with Some cl => cwide cl | None => false end.
Definition gfc (x : grid) (r c : N) : bool := match drawing_cell x r c with Some cl => ccont cl | None => false end.

(* (r, c) is the other half of a wide character cut by a boundary of the addressed range *)
Definition cut_half (op : eop) (x : grid) (r c : N) : bool :=
  let lo := line_lo op (gcols x) (pcol x) in
  let hi := line_hi op (gcols x) (pcol x) in
  (r =? prow x) && (lo <? hi) && (((c + 1 =? lo) && gfc x r lo) || ((c =? hi) && gfw x r (hi - 1))).

Lemma cut_half_line op x rw c : get (live x) (prow x) = Some rw ->
  cut_half op x (prow x) c = cut (cells rw) (line_lo op (gcols x) (pcol x)) (line_hi op (gcols x) (pcol x)) c.
Proof.
  intros Hg. unfold cut_half, cut, cut_lo, cut_hi, gfw, gfc, drawing_cell, drawing_row, row_get, fw, fc.
  rewrite Hg. destruct (N.eqb_spec (prow x) (prow x)); [|lia]. cbn [andb].
  destruct (_ <? _); reflexivity.
Qed.
Lemma cut_half_other op x r c : r <> prow x -> cut_half op x r c = false.
Proof. intros H. unfold cut_half. destruct (N.eqb_spec r (prow x)); [lia|reflexivity]. Qed.

Theorem erase_cells_pointwise op a x rows' : grid_ok x -> erase_post op a x rows' ->
  forall r c, drawing_cell (with_live x rows') r c =
    if in_range op (gcols x) (prow x) (pcol x) r c
    then (if (r <? grows x) && (c <? gcols x) then Some (blank a) else None)
    else if cut_half op x r c then option_map clear_own (drawing_cell x r c)
    else drawing_cell x r c.
Proof.
  intros H (Hl & Hf & Hother & rw & rw' & Hg & Hg' & [C W]) r c. okdims.
  destruct (line_range_le op (gcols x) (pcol x)) as [Hlo Hhi]; [lia|lia|].
  assert (len (cells rw) = gcols x) as Lrw.
  { pose proof (gk_rowsok _ K) as F. apply (Forall_get _ _ _ _ F Hg). }
  destruct (N.eq_dec r (prow x)) as [->|Hne].
  - unfold drawing_cell at 1, drawing_row, row_get. cbn [live with_live]. rewrite Hg', C.
    rewrite (cut_half_line op x rw c Hg).
    assert (drawing_cell x (prow x) c = get (cells rw) c) as ->
      by (unfold drawing_cell, drawing_row, row_get; now rewrite Hg).
    destruct (N.ltb_spec (prow x) (grows x)); [|lia]. cbn [andb].
    destruct (N.ltb_spec c (gcols x)) as [Hlt|Hge].
    + rewrite in_range_line by lia. reflexivity.
    + assert (get (cells rw) c = None) as Hn by (apply get_none_ge; lia).
      unfold erased_cell. rewrite Hn. cbn [option_map].
      assert (in_rng (line_lo op (gcols x) (pcol x)) (line_hi op (gcols x) (pcol x)) c = false) as ->
        by (unfold in_rng; ncases; reflexivity).
      destruct (in_range _ _ _ _ _ _), (cut _ _ _ _); reflexivity.
  - rewrite in_range_other by exact Hne. rewrite cut_half_other by exact Hne.
    unfold drawing_cell at 1, drawing_row. cbn [live with_live]. rewrite (Hother r Hne).
    destruct (whole_row op (prow x) r); [|reflexivity].
    destruct (N.ltb_spec r (grows x)) as [Hlt|Hge]; cbn [andb].
    + destruct (live_get x r H Hlt) as (rw0 & Hg0 & [L0 _]). rewrite Hg0. cbn [option_map].
      unfold row_get. rewrite get_row_clear.
      destruct (N.ltb_spec c (gcols x)).
      * destruct (get_lt_some (cells rw0) c) as (x0 & ->); [lia|]. reflexivity.
      * assert (get (cells rw0) c = None) as -> by (apply get_none_ge; lia). reflexivity.
    + assert (get (live x) r = None) as -> by (apply get_none_ge; rewrite (gk_live _ K); lia). reflexivity.
Qed.

Theorem erase_wrap_pointwise op a x rows' : grid_ok x -> erase_post op a x rows' ->
  forall r, option_map wrapped (get rows' r) =
    option_map (fun rw => if in_range op (gcols x) (prow x) (pcol x) r (gcols x - 1) || cut_half op x r (gcols x - 1)
                          then false else wrapped rw) (get (live x) r).
Proof.
  intros H (Hl & Hf & Hother & rw & rw' & Hg & Hg' & [C W]) r. okdims.
  destruct (N.eq_dec r (prow x)) as [->|Hne].
  - rewrite Hg, Hg'. cbn [option_map]. f_equal. rewrite W.
    rewrite (cut_half_line op x rw _ Hg), in_range_line by lia. reflexivity.
  - rewrite in_range_other by exact Hne. rewrite cut_half_other by exact Hne. rewrite orb_false_r.
    rewrite (Hother r Hne). destruct (whole_row op (prow x) r); [|destruct (get (live x) r); reflexivity].
    destruct (get (live x) r); reflexivity.
Qed.

(* what is left alone, spelled out *)
Corollary erase_untouched op a x rows' : grid_ok x -> erase_post op a x rows' ->
  forall r c, in_range op (gcols x) (prow x) (pcol x) r c = false -> cut_half op x r c = false ->
    drawing_cell (with_live x rows') r c = drawing_cell x r c.
Proof. intros H P r c H1 H2. rewrite (erase_cells_pointwise op a x rows' H P), H1, H2. reflexivity. Qed.

Corollary erase_row_untouched op a x rows' : erase_post op a x rows' ->
  forall r, r <> prow x -> whole_row op (prow x) r = false -> get rows' r = get (live x) r.
Proof. intros (_ & _ & Ho & _) r Hne Hw. rewrite (Ho r Hne), Hw. reflexivity. Qed.

Corollary erase_row_cleared op a x rows' : erase_post op a x rows' ->
  forall r, r <> prow x -> whole_row op (prow x) r = true -> get rows' r = option_map (row_clear a) (get (live x) r).
Proof. intros (_ & _ & Ho & _) r Hne Hw. rewrite (Ho r Hne), Hw. reflexivity. Qed.

(* the result is again a well-formed grid, and nothing but the lines changed *)
Lemma erase_post_ok op a x rows' : grid_ok x -> erase_post op a x rows' -> grid_ok (with_live x rows').
Proof. intros H (Hl & Hf & _). now apply ok_with_live. Qed.

Lemma with_live_fields x l :
  grows (with_live x l) = grows x /\ gcols (with_live x l) = gcols x /\
  prow (with_live x l) = prow x /\ pcol (with_live x l) = pcol x /\
  sprow (with_live x l) = sprow x /\ spcol (with_live x l) = spcol x /\
  top (with_live x l) = top x /\ bot (with_live x l) = bot x /\
  origin (with_live x l) = origin x /\ sorigin (with_live x l) = sorigin x /\
  sb (with_live x l) = sb x /\ sb_cap (with_live x l) = sb_cap x /\ sb_off (with_live x l) = sb_off x /\
  live (with_live x l) = l.
Proof. repeat split. Qed.

(* ------------------------------------------------------------------ *)
(* Screen level                                                       *)
(* ------------------------------------------------------------------ *)

(* the Screen method of each operation, with its count of `unhandled` calls *)
Definition scr_erase (op : eop) (s : screen) : res (screen * N) :=
  match op with
  | EL0 => scr_el s 0 | EL1 => scr_el s 1 | EL2 => scr_el s 2
  | ED0 => scr_ed s 0 | ED1 => scr_ed s 1 | ED2 => scr_ed s 2
  | ECH n => do s1 <- scr_ech s n; Ok (s1, 0)
  end.

Lemma scr_erase_grid op s :
  scr_erase op s = do y <- erase_grid op (cur s) (pen s); Ok (with_cur s y, 0).
Proof.
  destruct op; cbn [scr_erase erase_grid]; unfold scr_el, scr_ed, scr_ech, on_cur; gsimp; cbn [bind];
    try reflexivity;
    match goal with |- context[bind ?r _] => destruct r; reflexivity end.
Qed.

(* the erased screen: only the lines of the current grid change; cursor, pen, saved cursor and
   pen, scroll region, origin mode, scrollback, the other grid and all modes are those of s *)
Theorem scr_erase_spec op s : grid_ok (cur s) ->
  exists rows', scr_erase op s = Ok (with_cur s (with_live (cur s) rows'), 0) /\
                erase_post op (pen s) (cur s) rows'.
Proof.
  intros H. rewrite scr_erase_grid.
  destruct (erase_grid_spec op (cur s) (pen s) H) as (rows' & -> & P). cbn [bind]. eauto.
Qed.

Lemma with_cur_fields s y :
  cur (with_cur s y) = y /\ pen (with_cur s y) = pen s /\ spen (with_cur s y) = spen s /\
  keypad (with_cur s y) = keypad s /\ appcur (with_cur s y) = appcur s /\ hide (with_cur s y) = hide s /\
  altmode (with_cur s y) = altmode s /\ paste (with_cur s y) = paste s /\
  mmode (with_cur s y) = mmode s /\ menc (with_cur s y) = menc s /\
  (if altmode s then g (with_cur s y) = g s else alt (with_cur s y) = alt s).
Proof. unfold with_cur, cur. destruct (altmode s) eqn:E; cbn; rewrite ?E; repeat split. Qed.

(* unknown modes *)
Theorem scr_ed_unknown s m : 2 < m -> scr_ed s m = Ok (s, 1).
Proof. intros H. unfold scr_ed. ncases. reflexivity. Qed.
Theorem scr_el_unknown s m : 2 < m -> scr_el s m = Ok (s, 1).
Proof. intros H. unfold scr_el. ncases. reflexivity. Qed.

Definition ed_op (m : N) : option eop :=
  if m =? 0 then Some ED0 else if m =? 1 then Some ED1 else if m =? 2 then Some ED2 else None.
Definition el_op (m : N) : option eop :=
  if m =? 0 then Some EL0 else if m =? 1 then Some EL1 else if m =? 2 then Some EL2 else None.

Lemma scr_ed_known s m op : ed_op m = Some op -> scr_ed s m = scr_erase op s.
Proof.
  unfold ed_op. intros H.
  destruct (N.eqb_spec m 0) as [->|]; [inv H; reflexivity|].
  destruct (N.eqb_spec m 1) as [->|]; [inv H; reflexivity|].
  destruct (N.eqb_spec m 2) as [->|]; [inv H; reflexivity|discriminate].
Qed.
Lemma scr_el_known s m op : el_op m = Some op -> scr_el s m = scr_erase op s.
Proof.
  unfold el_op. intros H.
  destruct (N.eqb_spec m 0) as [->|]; [inv H; reflexivity|].
  destruct (N.eqb_spec m 1) as [->|]; [inv H; reflexivity|].
  destruct (N.eqb_spec m 2) as [->|]; [inv H; reflexivity|discriminate].
Qed.
Lemma ed_op_none m : ed_op m = None <-> 2 < m.
Proof. unfold ed_op. ncases; split; intros; try discriminate; try lia; reflexivity. Qed.
Lemma el_op_none m : el_op m = None <-> 2 < m.
Proof. unfold el_op. ncases; split; intros; try discriminate; try lia; reflexivity. Qed.

(* ------------------------------------------------------------------ *)
(* perform: CSI J / CSI K / CSI X and the DEC selective forms          *)
(* ------------------------------------------------------------------ *)

(* the intermediates under which ED / EL are dispatched: none, or a first intermediate '?' *)
Definition erase_inter (inter : list N) : Prop := inter = [] \/ exists rest, inter = 63 :: rest.

Lemma do_csi_ed rz s ps inter : erase_inter inter ->
  do_csi rz s ps inter 74 =
  do '(s1, k) <- scr_ed s (canon1 ps 0);
  Ok (s1, repeat_ev k (EUnhCsi (nth_error inter 0) (nth_error inter 1) ps 74)).
Proof. intros [->|(rest & ->)]; unfold do_csi; gsimp; reflexivity. Qed.
Lemma do_csi_el rz s ps inter : erase_inter inter ->
  do_csi rz s ps inter 75 =
  do '(s1, k) <- scr_el s (canon1 ps 0);
  Ok (s1, repeat_ev k (EUnhCsi (nth_error inter 0) (nth_error inter 1) ps 75)).
Proof. intros [->|(rest & ->)]; unfold do_csi; gsimp; reflexivity. Qed.

(* the erase operation selected by a CSI final byte and its parameters *)
Definition csi_erase_op (c : N) (ps : list (list N)) : option eop :=
  if c =? 74 then ed_op (canon1 ps 0) else if c =? 75 then el_op (canon1 ps 0) else None.

(* ED / EL with a known mode, plain or DEC selective: the erase, no event *)
Theorem perform_erase rz s ps inter ig c op : grid_ok (cur s) -> erase_inter inter ->
  csi_erase_op c ps = Some op ->
  exists rows', perform rz s (ACsi ps inter ig c) = Ok (with_cur s (with_live (cur s) rows'), []) /\
                erase_post op (pen s) (cur s) rows'.
Proof.
  intros H Hi Hop. unfold csi_erase_op in Hop. cbn [perform].
  destruct (scr_erase_spec op s H) as (rows' & E & P). exists rows'. split; [|exact P].
  destruct (N.eqb_spec c 74) as [->|N1].
  - rewrite (do_csi_ed rz s ps inter Hi), (scr_ed_known s _ op Hop), E. reflexivity.
  - destruct (N.eqb_spec c 75) as [->|N2]; [|discriminate].
    rewrite (do_csi_el rz s ps inter Hi), (scr_el_known s _ op Hop), E. reflexivity.
Qed.

(* ED / EL with an unknown mode: exactly one `unhandled CSI` event, nothing changes *)
Theorem perform_erase_unknown rz s ps inter ig c : erase_inter inter -> c = 74 \/ c = 75 ->
  2 < canon1 ps 0 ->
  perform rz s (ACsi ps inter ig c) = Ok (s, [EUnhCsi (nth_error inter 0) (nth_error inter 1) ps c]).
Proof.
  intros Hi [->| ->] Hm; cbn [perform].
  - rewrite (do_csi_ed rz s ps inter Hi), scr_ed_unknown by exact Hm. reflexivity.
  - rewrite (do_csi_el rz s ps inter Hi), scr_el_unknown by exact Hm. reflexivity.
Qed.

(* DECSED / DECSEL are treated exactly like ED / EL: same resulting screen (or the same panic),
   the same number of events, which differ only in the intermediates they record *)
Definition res_map {A B} (f : A -> B) (r : res A) : res B := match r with Ok a => Ok (f a) | Panic k => Panic k end.
Definition forget_inter (e : event) : event :=
  match e with EUnhCsi _ _ ps c => EUnhCsi None None ps c | _ => e end.

Lemma map_repeat' {A B} (f : A -> B) x n : map f (repeat x n) = repeat (f x) n.
Proof. induction n as [|n IH]; cbn [repeat map]; [reflexivity|now rewrite IH]. Qed.

Theorem perform_dec_selective rz s ps rest ig ig' c : c = 74 \/ c = 75 ->
  res_map (fun r => (fst r, map forget_inter (snd r))) (perform rz s (ACsi ps (63 :: rest) ig c)) =
  perform rz s (ACsi ps [] ig' c).
Proof.
  intros [->| ->]; cbn [perform].
  - rewrite (do_csi_ed rz s ps (63 :: rest)) by (right; eauto). rewrite (do_csi_ed rz s ps []) by (left; reflexivity).
    destruct (scr_ed s (canon1 ps 0)) as [[s1 k]|]; [|reflexivity]. cbn [bind res_map fst snd].
    unfold repeat_ev. rewrite map_repeat'. reflexivity.
  - rewrite (do_csi_el rz s ps (63 :: rest)) by (right; eauto). rewrite (do_csi_el rz s ps []) by (left; reflexivity).
    destruct (scr_el s (canon1 ps 0)) as [[s1 k]|]; [|reflexivity]. cbn [bind res_map fst snd].
    unfold repeat_ev. rewrite map_repeat'. reflexivity.
Qed.

(* ECH: CSI n X, n defaulting to 1 (a parameter 0 counts as 1) *)
Theorem perform_ech rz s ps ig : grid_ok (cur s) ->
  exists rows', perform rz s (ACsi ps [] ig 88) = Ok (with_cur s (with_live (cur s) rows'), []) /\
                erase_post (ECH (canon1 ps 1)) (pen s) (cur s) rows'.
Proof.
  intros H. cbn [perform]. unfold do_csi. gsimp.
  destruct (scr_erase_spec (ECH (canon1 ps 1)) s H) as (rows' & E & P). exists rows'. split; [|exact P].
  cbn [scr_erase] in E. unfold noev. destruct (scr_ech s (canon1 ps 1)); [|discriminate].
  cbn [bind] in *. inv E. reflexivity.
Qed.

(* there is no DEC selective ECH: CSI ? n X is unhandled and changes nothing *)
Theorem perform_ech_selective rz s ps rest ig :
  perform rz s (ACsi ps (63 :: rest) ig 88) = Ok (s, [EUnhCsi (Some 63) (nth_error rest 0) ps 88]).
Proof. cbn [perform]. unfold do_csi. gsimp. reflexivity. Qed.

(* ECH clips at the end of the line: every count that reaches the end of the line has the same effect *)
Theorem ech_clipped x n a : grid_ok x -> gcols x <= pcol x + n ->
  erase_cells x n a = erase_row_forward x a.
Proof.
  intros H Hn. okdims. unfold erase_cells, erase_row_forward.
  replace (N.min (sat_add16 (pcol x) n) (gcols x)) with (gcols x)
    by (unfold sat_add16, U16MAX, MAXDIM in *; lia).
  reflexivity.
Qed.

(* ------------------------------------------------------------------ *)
(* A checker for cells_ok on concrete rows (used by the examples)      *)
(* ------------------------------------------------------------------ *)
Fixpoint pairs_okb (prev_wide : bool) (cs : list cell) : bool :=
  match cs with
  | [] => negb prev_wide
  | c :: t => Bool.eqb (ccont c) prev_wide && negb (cwide c && ccont c) && pairs_okb (cwide c) t
  end.

Lemma fw_cons c t i : fw (c :: t) i = if i =? 0 then cwide c else fw t (i - 1).
Proof. unfold fw. rewrite get_cons. destruct (i =? 0); reflexivity. Qed.
Lemma fc_cons c t i : fc (c :: t) i = if i =? 0 then ccont c else fc t (i - 1).
Proof. unfold fc. rewrite get_cons. destruct (i =? 0); reflexivity. Qed.

Lemma pairs_okb_sound cs : forall p, pairs_okb p cs = true ->
  fc cs 0 = p /\ (forall i, fw cs i = fc cs (i + 1)) /\ (forall i, fw cs i && fc cs i = false).
Proof.
  induction cs as [|c t IH]; intros p H; cbn [pairs_okb] in H.
  - destruct p; [discriminate|].
    split; [reflexivity|]. split; intros i; rewrite ?fw_out, ?fc_out by (rewrite len_nil; lia); reflexivity.
  - apply andb_prop in H as [H H3]. apply andb_prop in H as [H1 H2].
    apply eqb_prop in H1. apply negb_true_iff in H2.
    destruct (IH _ H3) as (T0 & Tp & Tb).
    split; [rewrite fc_cons; exact H1|]. split.
    + intros i. rewrite fw_cons, fc_cons.
      destruct (N.eqb_spec (i + 1) 0); [lia|]. replace (i + 1 - 1) with i by lia.
      destruct (N.eqb_spec i 0) as [->|Hn]; [now rewrite T0|].
      rewrite (Tp (i - 1)). f_equal. lia.
    + intros i. rewrite fw_cons, fc_cons. destruct (N.eqb_spec i 0); [exact H2|apply Tb].
Qed.

Lemma cells_okb_sound cs : pairs_okb false cs = true -> cells_ok cs.
Proof. intros H. destruct (pairs_okb_sound cs false H) as (A & B & C). split; assumption. Qed.
