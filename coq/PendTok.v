(* PendTok.v — serialised tokens are complete utf-8: Parser.process holds nothing of them back. *)
Require Import Tac Utf8 Vte Screen Perform Parser Term Utf8Lemmas VteInv VteChunk ParseSer Pend Chunking.
Open Scope N_scope.

Lemma encode_str_u8ok cs : forallb char_ok cs = true -> u8ok (encode_str cs).
Proof.
  induction cs as [|c cs IH]; intros H; [constructor|].
  cbn [forallb] in H. apply andb_prop in H. destruct H as [Hc Hcs].
  apply char_ok_spec in Hc. destruct Hc as (Hs & _).
  unfold encode_str. cbn [flat_map]. apply u8ok_app; [|exact (IH Hcs)].
  apply (u8ok_char _ c). pose proof (decode1_encode c [] Hs) as D. rewrite app_nil_r in D.
  now rewrite utf8_encode_len.
Qed.

Lemma join_params_ascii ps : Forall (fun b => b < 128) (join_params ps).
Proof.
  assert (D : forall n, Forall (fun b => b < 128) (itoa n)).
  { intros n. eapply Forall_impl; [|apply itoa_digits]. unfold is_digit. intros; lia. }
  induction ps as [|p [|p' r] IH]; [constructor|apply D|].
  rewrite join_params_cons2. apply Forall_app. split; [apply D|]. constructor; [lia|exact IH].
Qed.

Lemma ser_u8ok t : token_okw t = true -> u8ok (ser t).
Proof.
  destruct t as [priv ps f|f|b|cs]; cbn [token_okw ser]; intros H.
  - apply u8ok_ascii. constructor; [lia|]. constructor; [lia|].
    apply Forall_app. split; [destruct priv; repeat constructor; lia|].
    apply Forall_app. split; [apply join_params_ascii|]. repeat constructor. lia.
  - apply u8ok_ascii. repeat constructor; lia.
  - apply u8ok_ascii. repeat constructor. lia.
  - now apply encode_str_u8ok.
Qed.

Lemma ser_all_u8ok ts : forallb token_okw ts = true -> u8ok (ser_all ts).
Proof.
  induction ts as [|t ts IH]; intros H; [constructor|].
  cbn [forallb] in H. apply andb_prop in H. destruct H as [Ht Hts].
  unfold ser_all. cbn [flat_map]. apply u8ok_app; [exact (ser_u8ok t Ht)|exact (IH Hts)].
Qed.

Lemma forallb_ok_okw ts : forallb token_ok ts = true -> forallb token_okw ts = true.
Proof.
  induction ts as [|t ts IH]; [reflexivity|]. cbn [forallb]. intros H.
  apply andb_prop in H. destruct H as [Ht Hts]. now rewrite (token_ok_okw t Ht), (IH Hts).
Qed.

(* serialised tokens have no incomplete tail ... *)
Theorem ser_all_tail ts : forallb token_ok ts = true -> incomplete_tail (ser_all ts) = 0.
Proof. intros H. apply u8ok_tail, ser_all_u8ok, forallb_ok_okw, H. Qed.

Theorem ser_all_tail_w ts : forallb token_okw ts = true -> incomplete_tail (ser_all ts) = 0.
Proof. intros H. apply u8ok_tail, ser_all_u8ok, H. Qed.

(* ... so a parser that holds nothing back hands all of them to vte and holds nothing back after *)
Theorem process_ser_all p ts : pend p = [] -> forallb token_ok ts = true ->
  process p (ser_all ts) =
  (let '(v, acts) := advance (vt p) (ser_all ts) in
   do '(s, evs) <- perform_all (resizing p) (scr p) acts [];
   Ok (mkParser v s (log p ++ evs) (resizing p) [])).
Proof. intros Hp H. exact (process_clean p _ Hp (ser_all_tail ts H)). Qed.

Theorem process_ser_all_pend p ts q : pend p = [] -> forallb token_ok ts = true ->
  process p (ser_all ts) = Ok q -> pend q = [].
Proof. intros Hp H. exact (process_clean_pend p _ q Hp (ser_all_tail ts H)). Qed.
