(* ShiftIns.v — closed form of Grid::insert_cells (ICH). *)
Require Import Tac ListN Attrs Cell Row Grid RowInv GridInv ShiftLines ShiftCells.
Open Scope N_scope.

Ltac cnorm :=
  repeat first [rewrite get_app | rewrite len_app | rewrite len_cons | rewrite len_firstnN | rewrite len_skipnN
               | rewrite len_repeatN | rewrite len_set_at | rewrite len_blank_at | rewrite get_firstnN
               | rewrite get_skipnN | rewrite get_repeatN | rewrite get_cons | rewrite get_set_at
               | rewrite get_blank_at].
Ltac cclose := try reflexivity; try (f_equal; lia); try (f_equal; f_equal; lia); try lia.

(* the blank that carries the continuation flag of the wide character left of the cursor *)
Definition cont_blank : cell := cell_set_cont true cell_new.

(* k blanks inserted at c (cursor not on a continuation cell) *)
Definition ins_plain (cs : list cell) (c k : N) : list cell :=
  firstnN c cs ++ repeatN cell_new k ++ skipnN c cs.

(* cursor on a continuation cell x (second half of the wide character at c-1), k >= 1:
   the first blank takes over the continuation flag, x moves right by k without it *)
Definition ins_cont (cs : list cell) (c k : N) (x : cell) : list cell :=
  firstnN c cs ++ cont_blank :: repeatN cell_new (k - 1) ++ cell_set_cont false x :: skipnN (c + 1) cs.

Definition ins_form (cs : list cell) (c k : N) : list cell :=
  if k =? 0 then cs else
  match get cs c with
  | Some x => if ccont x then ins_cont cs c k x else ins_plain cs c k
  | None => ins_plain cs c k
  end.

Lemma len_ins_plain cs c k : c <= len cs -> len (ins_plain cs c k) = len cs + k.
Proof. intros H. unfold ins_plain. cnorm. lia. Qed.
Lemma len_ins_cont cs c k x : c < len cs -> 1 <= k -> len (ins_cont cs c k x) = len cs + k.
Proof. intros H Hk. unfold ins_cont. cnorm. lia. Qed.
Lemma len_ins_form cs c k : c <= len cs -> len (ins_form cs c k) = len cs + k.
Proof.
  intros H. unfold ins_form. destruct (N.eqb_spec k 0); [lia|].
  destruct (get cs c) as [x|] eqn:E; [|now apply len_ins_plain].
  destruct (ccont x); [|now apply len_ins_plain]. apply get_some_lt in E. apply len_ins_cont; lia.
Qed.

Lemma ins_step_false r p : p <= len (cells r) ->
  ins_step false p r = Ok (mkRow (firstnN p (cells r) ++ cell_new :: skipnN p (cells r)) false).
Proof. intros H. unfold ins_step, row_insert. cbn [bind]. rewrite insert_at_ok by lia. reflexivity. Qed.

Lemma ins_step_true r p x : get (cells r) p = Some x ->
  ins_step true p r =
  Ok (mkRow (firstnN p (cells r) ++ cont_blank :: cell_set_cont false x :: skipnN (p + 1) (cells r)) false).
Proof.
  intros Hx. pose proof (get_some_lt _ _ _ Hx) as Hp.
  unfold ins_step, row_upd at 1, row_get. rewrite Hx. cbn [unwrap bind].
  unfold row_insert, row_set_cell. cbn [cells wrapped].
  rewrite insert_at_ok by (rewrite len_set_at; lia). cbn [bind].
  unfold row_upd, row_get, row_set_cell. cbn [cells wrapped].
  rewrite get_insert by (rewrite len_set_at; lia).
  destruct (N.ltb_spec p p); [lia|]. destruct (N.eqb_spec p p); [|lia]. cbn [unwrap bind].
  f_equal. f_equal.
  apply list_ext_get. intros i. cnorm. lcases; cclose.
Qed.

Lemma iter_res_form {A} (f : A -> res A) (F : nat -> A) n :
  (forall m, (m < n)%nat -> f (F m) = Ok (F (S m))) -> iter_res n f (F O) = Ok (F n).
Proof.
  induction n as [|n IH]; intros Hf; [reflexivity|].
  rewrite iter_res_snoc, IH by (intros m Hm; apply Hf; lia). cbn [bind]. apply Hf. lia.
Qed.

Lemma ins_plain_0 cs c : ins_plain cs c 0 = cs.
Proof.
  unfold ins_plain. cbn [repeatN N.to_nat repeat app]. unfold firstnN, skipnN. apply firstn_skipn.
Qed.

Lemma ins_plain_step cs c j w : c <= len cs ->
  ins_step false c (mkRow (ins_plain cs c j) w) = Ok (mkRow (ins_plain cs c (j + 1)) false).
Proof.
  intros Hc. rewrite ins_step_false by (cbn [cells]; rewrite len_ins_plain; lia). cbn [cells].
  f_equal. f_equal. apply list_ext_get. intros i. unfold ins_plain. cnorm. lcases; cclose.
Qed.

Lemma ins_cont_first cs c x w : get cs c = Some x ->
  ins_step true c (mkRow cs w) = Ok (mkRow (ins_cont cs c 1 x) false).
Proof. intros Hx. rewrite (ins_step_true _ _ x) by exact Hx. reflexivity. Qed.

Lemma firstnN_app_l {A} n (a b : list A) : len a = n -> firstnN n (a ++ b) = a.
Proof.
  intros <-. unfold firstnN, len. rewrite Nat2N.id, firstn_app, firstn_all, Nat.sub_diag. cbn. apply app_nil_r.
Qed.
Lemma skipnN_app_l {A} n (a b : list A) : len a = n -> skipnN n (a ++ b) = b.
Proof.
  intros <-. unfold skipnN, len. rewrite Nat2N.id, skipn_app, skipn_all, Nat.sub_diag. reflexivity.
Qed.
Lemma skipnN_app_cons {A} n (a : list A) y b : len a = n -> skipnN (n + 1) (a ++ y :: b) = b.
Proof.
  intros H. change (a ++ y :: b) with (a ++ [y] ++ b). rewrite app_assoc.
  apply skipnN_app_l. rewrite len_app, H. reflexivity.
Qed.
Lemma repeatN_succ {A} (a : A) n : repeatN a (n + 1) = a :: repeatN a n.
Proof. unfold repeatN. replace (N.to_nat (n + 1)) with (S (N.to_nat n)) by lia. reflexivity. Qed.

Lemma ins_cont_step cs c j x w : c < len cs -> 1 <= j ->
  ins_step true c (mkRow (ins_cont cs c j x) w) = Ok (mkRow (ins_cont cs c (j + 1) x) false).
Proof.
  intros Hc Hj.
  assert (len (firstnN c cs) = c) as Lf by (rewrite len_firstnN; lia).
  assert (get (ins_cont cs c j x) c = Some cont_blank) as G.
  { unfold ins_cont. rewrite get_app, Lf. destruct (N.ltb_spec c c); [lia|].
    replace (c - c) with 0 by lia. reflexivity. }
  rewrite (ins_step_true _ _ cont_blank) by exact G. cbn [cells].
  f_equal. f_equal. unfold ins_cont.
  rewrite firstnN_app_l by exact Lf. rewrite skipnN_app_cons by exact Lf.
  change (cell_set_cont false cont_blank) with cell_new.
  replace (j + 1 - 1) with (j - 1 + 1) by lia. rewrite repeatN_succ. reflexivity.
Qed.

Lemma iter_ins_eq rw c k : c <= len (cells rw) ->
  iter_res (N.to_nat k) (ins_step (fc (cells rw) c) c) rw =
  Ok (if k =? 0 then rw else mkRow (ins_form (cells rw) c k) false).
Proof.
  intros Hc. destruct rw as [cs w]. cbn [cells] in *.
  pose (F := fun m : nat => if N.of_nat m =? 0 then mkRow cs w else mkRow (ins_form cs c (N.of_nat m)) false).
  change (mkRow cs w) with (F O) at 1.
  rewrite iter_res_form.
  - unfold F. rewrite N2Nat.id. reflexivity.
  - intros m Hm. unfold F.
    destruct (N.eqb_spec (N.of_nat (S m)) 0); [lia|].
    unfold ins_form. destruct (N.eqb_spec (N.of_nat (S m)) 0); [lia|].
    replace (N.of_nat (S m)) with (N.of_nat m + 1) by lia.
    unfold fc. destruct (get cs c) as [x|] eqn:Hx.
    + pose proof (get_some_lt _ _ _ Hx) as Hlt.
      destruct (ccont x) eqn:Ec.
      * destruct (N.eqb_spec (N.of_nat m) 0) as [E0|N0].
        -- rewrite E0. apply ins_cont_first. exact Hx.
        -- apply ins_cont_step; lia.
      * destruct (N.eqb_spec (N.of_nat m) 0) as [E0|N0].
        -- rewrite E0. rewrite <- (ins_plain_0 cs c) at 1. apply ins_plain_step. lia.
        -- apply ins_plain_step. lia.
    + destruct (N.eqb_spec (N.of_nat m) 0) as [E0|N0].
      -- rewrite E0. rewrite <- (ins_plain_0 cs c) at 1. apply ins_plain_step. lia.
      -- apply ins_plain_step. lia.
Qed.

(* cells of the cursor row after ICH: k blanks inserted, cut at the right edge, a wide first half left
   in the last column blanked *)
Definition ich_cells (cs : list cell) (c k : N) : list cell :=
  cut_wide (firstnN (len cs) (ins_form cs c k)).

Lemma ich_row_eq rw c k cols : len (cells rw) = cols -> 1 <= cols -> c <= cols ->
  (do rw' <- iter_res (N.to_nat k) (ins_step (fc (cells rw) c) c) rw; row_truncate rw' cols) =
  Ok (mkRow (ich_cells (cells rw) c k) false).
Proof.
  intros <- H1 Hc. rewrite iter_ins_eq by lia. cbn [bind].
  assert (cells (if k =? 0 then rw else mkRow (ins_form (cells rw) c k) false) = ins_form (cells rw) c k) as E.
  { unfold ins_form. destruct (k =? 0); reflexivity. }
  rewrite row_truncate_eq by (rewrite ?E, ?len_ins_form; lia).
  rewrite E. reflexivity.
Qed.

(* B.2  Grid::insert_cells *)
Theorem insert_cells_closed x n rw : grid_ok x -> get (live x) (prow x) = Some rw ->
  insert_cells x n =
  Ok (with_live x (set_at (live x) (prow x)
        (mkRow (ich_cells (cells rw) (pcol x) (N.min n (gcols x - pcol x))) false))).
Proof.
  intros H Hg. okdims. unfold insert_cells.
  destruct (live_get x (prow x) H Hr) as (rw0 & Hg0 & Hl & Hok).
  assert (rw0 = rw) by congruence; subst rw0.
  assert ((if pcol x <? gcols x
           then do c <- unwrap (drawing_cell x (prow x) (pcol x)); Ok (ccont c)
           else Ok false) = Ok (fc (cells rw) (pcol x))) as ->.
  { destruct (N.ltb_spec (pcol x) (gcols x)) as [Hlt|Hge].
    - unfold drawing_cell, drawing_row. rewrite Hg. unfold row_get.
      destruct (get_lt_some (cells rw) (pcol x)) as (c & Hc'); [lia|].
      rewrite Hc'. cbn [unwrap bind]. now rewrite (fc_get _ _ _ Hc').
    - rewrite fc_out by lia. reflexivity. }
  cbn [bind]. rewrite sub16_ok by lia. cbn [bind].
  unfold upd_current_row, upd_row, drawing_row. rewrite Hg. cbn [unwrap bind].
  rewrite (ich_row_eq rw (pcol x) _ (gcols x)) by first [assumption|lia].
  reflexivity.
Qed.
