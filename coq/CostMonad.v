(* CostMonad.v — a cost-counting (writer) layer over the res monad of Base.v.

   A value of [cres A] is a pair (model result, abstract work units spent).
   The instrumented copies of the model's looping functions (CostModel.v) are
   written with [bindc]/[iter_c]/[for_range_c]/[map_c] exactly where the model
   uses [bind]/[iter_res]/[for_range]/[map]; the projection lemmas below
   ([fst_bindc], [fst_iter_c], ...) are what lets CostModel.v PROVE that
   erasing the counter gives back the model function, so that the iteration
   counts that are charged are the iteration counts of the model.

   The counter is an abstract work measure of the MODEL.  Nothing here talks
   about CPU time. *)
Require Import Tac ListN.
Open Scope N_scope.

Definition cres (A : Type) : Type := (res A * N)%type.

(* lift a model computation, charging nothing / charging k units *)
Definition free {A} (r : res A) : cres A := (r, 0).
Definition charge {A} (k : N) (r : res A) : cres A := (r, k).
(* add k units to an instrumented computation *)
Definition tick {A} (k : N) (m : cres A) : cres A := (fst m, k + snd m).

Definition bindc {A B} (m : cres A) (f : A -> cres B) : cres B :=
  match fst m with
  | Ok a => let r := f a in (fst r, snd m + snd r)
  | Panic k => (Panic k, snd m)
  end.

Notation "'doc' x <- r ; k" := (bindc r (fun x => k))
  (at level 200, x name, r at level 100, k at level 200, right associativity).
Notation "'doc' ' p <- r ; k" := (bindc r (fun x => let p := x in k))
  (at level 200, p pattern, r at level 100, k at level 200, right associativity).

(* for _ in 0..n, every iteration instrumented *)
Fixpoint iter_c {A} (n : nat) (f : A -> cres A) (a : A) : cres A :=
  match n with
  | O => free (Ok a)
  | S n => doc a' <- f a; iter_c n f a'
  end.

(* for i in lo..hi *)
Fixpoint for_range_c {A} (n : nat) (lo : N) (f : N -> A -> cres A) (a : A) : cres A :=
  match n with
  | O => free (Ok a)
  | S n => doc a' <- f lo a; for_range_c n (lo + 1) f a'
  end.

(* map, charging c x for element x *)
Fixpoint map_c {A B} (f : A -> B) (c : A -> N) (l : list A) : list B * N :=
  match l with
  | [] => ([], 0)
  | x :: t => let r := map_c f c t in (f x :: fst r, c x + snd r)
  end.

(* ---- erasure: the first component is the model computation ---- *)
Lemma fst_free {A} (r : res A) : fst (free r) = r. Proof. reflexivity. Qed.
Lemma fst_charge {A} k (r : res A) : fst (charge k r) = r. Proof. reflexivity. Qed.
Lemma fst_tick {A} k (m : cres A) : fst (tick k m) = fst m. Proof. reflexivity. Qed.
Lemma snd_free {A} (r : res A) : snd (free r) = 0. Proof. reflexivity. Qed.
Lemma snd_charge {A} k (r : res A) : snd (charge k r) = k. Proof. reflexivity. Qed.
Lemma snd_tick {A} k (m : cres A) : snd (tick k m) = k + snd m. Proof. reflexivity. Qed.

Lemma fst_bindc {A B} (m : cres A) (f : A -> cres B) :
  fst (bindc m f) = bind (fst m) (fun a => fst (f a)).
Proof. unfold bindc. destruct (fst m); reflexivity. Qed.

Lemma bind_ext {A B} (r : res A) (f g : A -> res B) : (forall a, f a = g a) -> bind r f = bind r g.
Proof. intros H. destruct r; cbn; auto. Qed.

Lemma bind_cong {A B} (r r' : res A) (f g : A -> res B) :
  r = r' -> (forall a, f a = g a) -> bind r f = bind r' g.
Proof. intros -> H. now apply bind_ext. Qed.

Lemma iter_res_ext {A} (f g : A -> res A) : (forall a, f a = g a) ->
  forall n a, iter_res n f a = iter_res n g a.
Proof. intros H n. induction n as [|n IH]; intros a; cbn; [reflexivity|]. rewrite H. now apply bind_ext. Qed.

Lemma for_range_ext {A} (f g : N -> A -> res A) : (forall i a, f i a = g i a) ->
  forall n lo a, for_range n lo f a = for_range n lo g a.
Proof. intros H n. induction n as [|n IH]; intros lo a; cbn; [reflexivity|]. rewrite H. now apply bind_ext. Qed.

Lemma fst_iter_c {A} (f : A -> cres A) n : forall a,
  fst (iter_c n f a) = iter_res n (fun a => fst (f a)) a.
Proof.
  induction n as [|n IH]; intros a; cbn [iter_c iter_res]; [reflexivity|].
  rewrite fst_bindc. now apply bind_ext.
Qed.

Lemma fst_for_range_c {A} (f : N -> A -> cres A) n : forall lo a,
  fst (for_range_c n lo f a) = for_range n lo (fun i a => fst (f i a)) a.
Proof.
  induction n as [|n IH]; intros lo a; cbn [for_range_c for_range]; [reflexivity|].
  rewrite fst_bindc. now apply bind_ext.
Qed.

Lemma fst_map_c {A B} (f : A -> B) c l : fst (map_c f c l) = map f l.
Proof. induction l as [|x t IH]; cbn; [reflexivity|]. now rewrite IH. Qed.

(* erasure against a given model step function *)
Lemma fst_iter_c_model {A} (f : A -> cres A) (g : A -> res A) n a :
  (forall a, fst (f a) = g a) -> fst (iter_c n f a) = iter_res n g a.
Proof. intros H. rewrite fst_iter_c. now apply iter_res_ext. Qed.

Lemma fst_for_range_c_model {A} (f : N -> A -> cres A) (g : N -> A -> res A) n lo a :
  (forall i a, fst (f i a) = g i a) -> fst (for_range_c n lo f a) = for_range n lo g a.
Proof. intros H. rewrite fst_for_range_c. now apply for_range_ext. Qed.

(* ---- cost of a bind ---- *)
Lemma snd_bindc_ok {A B} (m : cres A) (f : A -> cres B) a :
  fst m = Ok a -> snd (bindc m f) = snd m + snd (f a).
Proof. unfold bindc. intros ->. reflexivity. Qed.

Lemma snd_bindc_panic {A B} (m : cres A) (f : A -> cres B) k :
  fst m = Panic k -> snd (bindc m f) = snd m.
Proof. unfold bindc. intros ->. reflexivity. Qed.

Lemma snd_bindc_le {A B} (m : cres A) (f : A -> cres B) x y :
  snd m <= x -> (forall a, fst m = Ok a -> snd (f a) <= y) -> snd (bindc m f) <= x + y.
Proof.
  intros Hx Hy. unfold bindc. destruct (fst m) as [a|k] eqn:E; cbn [snd].
  - specialize (Hy a eq_refl). lia.
  - lia.
Qed.

(* a free prefix costs nothing *)
Lemma snd_bindc_free {A B} (r : res A) (f : A -> cres B) y :
  (forall a, r = Ok a -> snd (f a) <= y) -> snd (bindc (free r) f) <= y.
Proof.
  intros H. replace y with (0 + y) by lia. apply snd_bindc_le; [cbn; lia|exact H].
Qed.

(* ---- iteration counts ---- *)

(* the counter of an instrumented loop whose steps each cost exactly k is
   k * (number of iterations of the model loop), when the loop does not panic *)
Lemma iter_c_count {A} (f : A -> cres A) k n : (forall a, snd (f a) = k) ->
  forall a b, fst (iter_c n f a) = Ok b -> snd (iter_c n f a) = N.of_nat n * k.
Proof.
  intros Hk. induction n as [|n IH]; intros a b E; cbn [iter_c] in *.
  - cbn. lia.
  - rewrite fst_bindc in E. destruct (fst (f a)) as [a'|] eqn:Ea; cbn [bind] in E; [|discriminate].
    rewrite (snd_bindc_ok _ _ _ Ea), Hk, (IH _ _ E). lia.
Qed.

Lemma for_range_c_count {A} (f : N -> A -> cres A) k n : (forall i a, snd (f i a) = k) ->
  forall lo a b, fst (for_range_c n lo f a) = Ok b -> snd (for_range_c n lo f a) = N.of_nat n * k.
Proof.
  intros Hk. induction n as [|n IH]; intros lo a b E; cbn [for_range_c] in *.
  - cbn. lia.
  - rewrite fst_bindc in E. destruct (fst (f lo a)) as [a'|] eqn:Ea; cbn [bind] in E; [|discriminate].
    rewrite (snd_bindc_ok _ _ _ Ea), Hk, (IH _ _ _ E). lia.
Qed.

(* upper bound under a loop invariant *)
Lemma iter_c_le {A} (I : A -> Prop) (f : A -> cres A) k :
  (forall a, I a -> snd (f a) <= k) ->
  (forall a a', I a -> fst (f a) = Ok a' -> I a') ->
  forall n a, I a -> snd (iter_c n f a) <= N.of_nat n * k.
Proof.
  intros Hk Hi n. induction n as [|n IH]; intros a Ia; cbn [iter_c].
  - cbn. lia.
  - replace (N.of_nat (S n) * k) with (k + N.of_nat n * k) by lia.
    apply snd_bindc_le; [now apply Hk|]. intros a' Ea. apply IH. eapply Hi; eauto.
Qed.

(* lower bound under a loop invariant, for a loop that does not panic *)
Lemma iter_c_ge {A} (I : A -> Prop) (f : A -> cres A) k :
  (forall a a', I a -> fst (f a) = Ok a' -> k <= snd (f a)) ->
  (forall a a', I a -> fst (f a) = Ok a' -> I a') ->
  forall n a b, I a -> fst (iter_c n f a) = Ok b -> N.of_nat n * k <= snd (iter_c n f a).
Proof.
  intros Hk Hi n. induction n as [|n IH]; intros a b Ia E; cbn [iter_c] in *.
  - cbn. lia.
  - rewrite fst_bindc in E. destruct (fst (f a)) as [a'|] eqn:Ea; cbn [bind] in E; [|discriminate].
    rewrite (snd_bindc_ok _ _ _ Ea).
    specialize (Hk a a' Ia Ea). specialize (IH a' b (Hi _ _ Ia Ea) E). lia.
Qed.

Lemma for_range_c_le {A} (f : N -> A -> cres A) k : (forall i a, snd (f i a) <= k) ->
  forall n lo a, snd (for_range_c n lo f a) <= N.of_nat n * k.
Proof.
  intros Hk n. induction n as [|n IH]; intros lo a; cbn [for_range_c].
  - cbn. lia.
  - replace (N.of_nat (S n) * k) with (k + N.of_nat n * k) by lia.
    apply snd_bindc_le; [apply Hk|]. intros a' _. apply IH.
Qed.

(* cost of a map: the sum of the element costs *)
Lemma snd_map_c_le {A B} (f : A -> B) c k l : Forall (fun x => c x <= k) l ->
  snd (map_c f c l) <= len l * k.
Proof.
  induction 1 as [|x t Hx Ht IH]; cbn [map_c snd]; [unfold len; cbn [length N.of_nat]; lia|].
  rewrite len_cons. lia.
Qed.

Lemma snd_map_c_eq {A B} (f : A -> B) c k l : Forall (fun x => c x = k) l ->
  snd (map_c f c l) = len l * k.
Proof.
  induction 1 as [|x t Hx Ht IH]; cbn [map_c snd]; [unfold len; cbn [length N.of_nat]; lia|].
  rewrite len_cons. lia.
Qed.
