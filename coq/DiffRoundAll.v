(* DiffRoundAll.v — property C02 without class restriction (after the D10 repair, Emit.clears_wrap).
   For reachable P and S of equal size at scrollback offset 0, a fresh parser fed the BYTES of
   P.state_formatted() and then the BYTES of S.state_diff(P) ends with the observation of S; and so
   along arbitrary chains of snapshots. *)
Require Import Tac ListN Utf8 Width Attrs Cell Row Grid Screen Vte Perform Parser Term Emit.
Require Import RowInv GridInv TextInv ScreenInv ParseSer CellWf WfGrid WfInv WrapInv WrapInvScreen SgrSpec EmitSafe ObsSpec.
Require Import AttrsInv EmitTokens CellInv Recv RowPaint Redraw Cursor C01Main C15Main CapInv Idem LastRow C01Examples Bytes.
Require Import DiffRound DiffPaint DiffGrid DiffMain DiffRoundU DiffWrap DiffK10.
Require Import Chunking PendTok.
Open Scope N_scope.

(* one diff step on a parser whose screen shows P *)
Lemma diff_step_bytes_all P S r :
  reachable P -> reachable S -> sb_off (cur P) = 0 -> sb_off (cur S) = 0 ->
  grows (cur S) = grows (cur P) -> gcols (cur S) = gcols (cur P) ->
  pend r = [] -> ground (vt r) -> shows P (scr r) (live (cur P)) -> same_modes P (scr r) ->
  exists ts r', state_diff_t S P = Ok ts /\ process r (ser_all ts) = Ok r' /\
    log r' = log r /\ ground (vt r') /\ resizing r' = resizing r /\
    shows S (scr r') (live (cur S)) /\ same_modes S (scr r') /\ obs (scr r') = obs S /\ pend r' = [].
Proof.
  intros RP RS OffP OffS Er Ec Hpd Gr Sh Sm.
  pose proof (reachable_source P RP OffP) as HP. pose proof (reachable_source S RS OffS) as HS.
  destruct (reachable_tokens_ok S P 0 0 RS RP) as (_ & _ & _ & _ & (ts & Ets & Tok & _) & _).
  destruct (state_diff_obs_all S P (scr r) ts HS HP (reachable_lastu S RS) OffS Er Ec Sh Sm Ets)
    as (R' & P' & C' & Eo & Sh' & Sm').
  destruct (process_tokens r ts R' Hpd Gr Tok P') as (r' & Ep & <- & El & Gq & Rz).
  pose proof (process_ser_all_pend r ts r' Hpd Tok Ep) as Hpd'.
  exists ts, r'. auto 12.
Qed.

Theorem diff_round_all_strong P S :
  reachable P -> reachable S -> sb_off (cur P) = 0 -> sb_off (cur S) = 0 ->
  grows (cur P) = grows (cur S) -> gcols (cur P) = gcols (cur S) ->
  exists r, diff_round P S = Ok r /\ obs (scr r) = obs S /\ log r = [] /\ ground (vt r) /\ canvas (scr r).
Proof.
  intros RP RS OffP OffS Er Ec.
  destruct (reproduce_shows P RP OffP) as (r & Erp & Lr & Gr & Sh & Sm).
  destruct (diff_step_bytes_all P S r RP RS OffP OffS (eq_sym Er) (eq_sym Ec) (reproduce_pend P r RP Erp) Gr Sh Sm)
    as (ts & r' & Ets & Ep & El & Gq & _ & Sh' & _ & Eo & _).
  exists r'. unfold diff_round. rewrite Erp. cbn [bind]. rewrite Ets. cbn [bind].
  split; [exact Ep|]. split; [exact Eo|]. split; [congruence|]. split; [exact Gq|apply Sh'].
Qed.

Theorem diff_round_ok_all P S :
  reachable P -> reachable S -> sb_off (cur P) = 0 -> sb_off (cur S) = 0 ->
  grows (cur P) = grows (cur S) -> gcols (cur P) = gcols (cur S) -> diff_round_ok P S.
Proof.
  intros RP RS OffP OffS Er Ec.
  destruct (diff_round_all_strong P S RP RS OffP OffS Er Ec) as (r & E & Eo & _).
  destruct (reachable_inv _ RS) as (I1 & _). destruct (obs_ok S I1) as (o & Ho & _).
  exists r, o. split; [exact E|]. split; [now rewrite Eo|exact Ho].
Qed.

(* chains: every snapshot reachable, at scrollback offset 0, of the common size — nothing else *)
Definition snap_all (rows cols : N) (s : screen) : Prop :=
  reachable s /\ sb_off (cur s) = 0 /\ grows (cur s) = rows /\ gcols (cur s) = cols.

Theorem diff_chain_all rows cols : forall snaps prev r,
  snap_all rows cols prev -> Forall (snap_all rows cols) snaps ->
  pend r = [] -> ground (vt r) -> shows prev (scr r) (live (cur prev)) -> same_modes prev (scr r) ->
  exists r', diff_chain r prev snaps = Ok r' /\ log r' = log r /\ ground (vt r') /\
             shows (last_snap prev snaps) (scr r') (live (cur (last_snap prev snaps))) /\
             same_modes (last_snap prev snaps) (scr r') /\
             obs (scr r') = obs (last_snap prev snaps).
Proof.
  induction snaps as [|s rest IH]; intros prev r Hp Hs Hpd Gr Sh Sm.
  - exists r. cbn [diff_chain last_snap]. split; [reflexivity|]. split; [reflexivity|]. split; [exact Gr|].
    split; [exact Sh|]. split; [exact Sm|]. destruct Hp as (_ & Off & _). now apply shows_obs.
  - inv Hs. destruct Hp as (RP & OffP & Pr & Pc). destruct H1 as (RS & OffS & Sr & Sc).
    destruct (diff_step_bytes_all prev s r RP RS OffP OffS ltac:(congruence) ltac:(congruence) Hpd Gr Sh Sm)
      as (ts & r1 & Ets & Ep & El & G1 & _ & Sh1 & Sm1 & _ & Pd1).
    destruct (IH s r1 (conj RS (conj OffS (conj Sr Sc))) H2 Pd1 G1 Sh1 Sm1) as (r' & E' & L' & G' & Sh' & Sm' & Eo').
    exists r'. cbn [diff_chain last_snap]. rewrite Ets. cbn [bind]. rewrite Ep. cbn [bind].
    split; [exact E'|]. split; [congruence|]. auto.
Qed.

Theorem diff_chain_round_all rows cols S0 snaps :
  snap_all rows cols S0 -> Forall (snap_all rows cols) snaps ->
  exists r r', reproduce S0 = Ok r /\ diff_chain r S0 snaps = Ok r' /\
               obs (scr r') = obs (last_snap S0 snaps) /\ log r' = [] /\ ground (vt r').
Proof.
  intros H0 Hs. pose proof H0 as (R0 & Off & Rr & Rc).
  destruct (reproduce_shows S0 R0 Off) as (r & Erp & Lr & Gr & Sh & Sm).
  destruct (diff_chain_all rows cols snaps S0 r H0 Hs (reproduce_pend S0 r R0 Erp) Gr Sh Sm) as (r' & E' & L' & G' & _ & _ & Eo).
  exists r, r'. split; [exact Erp|]. split; [exact E'|]. split; [exact Eo|]. split; [congruence|exact G'].
Qed.
