(* ModeSpec.v — property C10: terminal modes.
   The six modes (application keypad, application cursor, cursor visibility, bracketed paste,
   mouse reporting mode, mouse encoding) evolve independently of everything else in the screen,
   according to the declarative table [mode_effect]; the input-mode emitters reproduce them. *)
Require Import Tac ListN Utf8 Attrs Cell Row Grid Screen Vte Perform Term Emit.
Open Scope N_scope.

(* ------------------------------------------------------------------ *)
(* 1. the mode state                                                   *)
(* ------------------------------------------------------------------ *)
Record modes := mkM {
  m_keypad : bool; m_appcur : bool; m_hide : bool; m_paste : bool;
  m_mouse : mouse_mode; m_enc : mouse_enc }.

Definition modes_of (s : screen) : modes :=
  mkM (keypad s) (appcur s) (hide s) (paste s) (mmode s) (menc s).

(* the state of a fresh parser: everything off / None / Default, cursor visible *)
Definition m_fresh : modes := mkM false false false false MNone EDefault.

Definition modes_eqb (a b : modes) : bool :=
  Bool.eqb (m_keypad a) (m_keypad b) && Bool.eqb (m_appcur a) (m_appcur b)
  && Bool.eqb (m_hide a) (m_hide b) && Bool.eqb (m_paste a) (m_paste b)
  && mouse_mode_eqb (m_mouse a) (m_mouse b) && mouse_enc_eqb (m_enc a) (m_enc b).

Lemma mouse_mode_eqb_eq a b : mouse_mode_eqb a b = true <-> a = b.
Proof. destruct a, b; cbn; split; intros H; try reflexivity; discriminate H. Qed.
Lemma mouse_enc_eqb_eq a b : mouse_enc_eqb a b = true <-> a = b.
Proof. destruct a, b; cbn; split; intros H; try reflexivity; discriminate H. Qed.
Lemma mouse_mode_eqb_refl a : mouse_mode_eqb a a = true.
Proof. destruct a; reflexivity. Qed.
Lemma mouse_enc_eqb_refl a : mouse_enc_eqb a a = true.
Proof. destruct a; reflexivity. Qed.

Lemma modes_eqb_eq a b : modes_eqb a b = true <-> a = b.
Proof.
  destruct a as [k1 a1 h1 p1 mm1 me1], b as [k2 a2 h2 p2 mm2 me2]. unfold modes_eqb. cbn [m_keypad m_appcur m_hide m_paste m_mouse m_enc].
  split.
  - intros H. rewrite !andb_true_iff in H.
    destruct H as (((((Hk & Ha) & Hh) & Hp) & Hmm) & Hme).
    apply Bool.eqb_prop in Hk, Ha, Hh, Hp. apply mouse_mode_eqb_eq in Hmm. apply mouse_enc_eqb_eq in Hme.
    subst. reflexivity.
  - intros H. inv H. rewrite !Bool.eqb_reflx, mouse_mode_eqb_refl, mouse_enc_eqb_refl. reflexivity.
Qed.

Definition all_bools : list bool := [false; true].
Definition all_mouse_modes : list mouse_mode := [MNone; MPress; MPressRelease; MButtonMotion; MAnyMotion].
Definition all_mouse_encs : list mouse_enc := [EDefault; EUtf8; ESgr].

Definition all_modes : list modes :=
  flat_map (fun k => flat_map (fun a => flat_map (fun h => flat_map (fun p =>
  flat_map (fun mm => map (fun me => mkM k a h p mm me) all_mouse_encs)
  all_mouse_modes) all_bools) all_bools) all_bools) all_bools.

Lemma all_modes_length : length all_modes = 240%nat.
Proof. vm_compute. reflexivity. Qed.

Lemma all_modes_nodup : NoDup all_modes.
Proof.
  assert (H : forall l : list modes,
             (fix nd (l : list modes) : bool :=
                match l with [] => true | x :: r => negb (existsb (modes_eqb x) r) && nd r end) l = true ->
             NoDup l).
  { induction l as [|x r IH]; intros E; [constructor|].
    apply andb_prop in E. destruct E as [E1 E2]. constructor; [|exact (IH E2)].
    intros HIn. apply negb_true_iff in E1.
    assert (existsb (modes_eqb x) r = true) as E3
      by (apply existsb_exists; exists x; split; [exact HIn | apply modes_eqb_eq; reflexivity]).
    rewrite E3 in E1. discriminate E1. }
  apply H. vm_compute. reflexivity.
Qed.

Theorem all_modes_complete : forall m, In m all_modes.
Proof.
  intros m.
  assert (E : existsb (modes_eqb m) all_modes = true)
    by (destruct m as [[] [] [] [] [] []]; vm_compute; reflexivity).
  apply existsb_exists in E. destruct E as (x & HIn & Heq).
  apply modes_eqb_eq in Heq. subst x. exact HIn.
Qed.

(* lifting of a boolean check over all 240 states *)
Lemma all_modes_forall (P : modes -> bool) :
  forallb P all_modes = true -> forall m, P m = true.
Proof. intros H m. exact (proj1 (forallb_forall P all_modes) H m (all_modes_complete m)). Qed.

(* ------------------------------------------------------------------ *)
(* 2. the declarative transition table                                 *)
(* ------------------------------------------------------------------ *)
Definition set_keypad (b : bool) (m : modes) : modes :=
  mkM b (m_appcur m) (m_hide m) (m_paste m) (m_mouse m) (m_enc m).
Definition set_appcur (b : bool) (m : modes) : modes :=
  mkM (m_keypad m) b (m_hide m) (m_paste m) (m_mouse m) (m_enc m).
Definition set_hide (b : bool) (m : modes) : modes :=
  mkM (m_keypad m) (m_appcur m) b (m_paste m) (m_mouse m) (m_enc m).
Definition set_paste (b : bool) (m : modes) : modes :=
  mkM (m_keypad m) (m_appcur m) (m_hide m) b (m_mouse m) (m_enc m).
Definition set_mouse (x : mouse_mode) (m : modes) : modes :=
  mkM (m_keypad m) (m_appcur m) (m_hide m) (m_paste m) x (m_enc m).
Definition set_enc (x : mouse_enc) (m : modes) : modes :=
  mkM (m_keypad m) (m_appcur m) (m_hide m) (m_paste m) (m_mouse m) x.

(* reset of a mouse mode / encoding: only if it is the active one *)
Definition clear_mouse (x : mouse_mode) (m : modes) : modes :=
  if mouse_mode_eqb (m_mouse m) x then set_mouse MNone m else m.
Definition clear_enc (x : mouse_enc) (m : modes) : modes :=
  if mouse_enc_eqb (m_enc m) x then set_enc EDefault m else m.

(* one DECSET parameter.  Only single-element parameters [n] matter. *)
Definition mode_param_set (m : modes) (p : list N) : modes :=
  match p with
  | [n] =>
    if n =? 1 then set_appcur true m
    else if n =? 25 then set_hide false m          (* ?25h shows the cursor *)
    else if n =? 2004 then set_paste true m
    else if n =? 9 then set_mouse MPress m
    else if n =? 1000 then set_mouse MPressRelease m
    else if n =? 1002 then set_mouse MButtonMotion m
    else if n =? 1003 then set_mouse MAnyMotion m
    else if n =? 1005 then set_enc EUtf8 m
    else if n =? 1006 then set_enc ESgr m
    else m
  | _ => m
  end.

(* one DECRST parameter *)
Definition mode_param_reset (m : modes) (p : list N) : modes :=
  match p with
  | [n] =>
    if n =? 1 then set_appcur false m
    else if n =? 25 then set_hide true m           (* ?25l hides the cursor *)
    else if n =? 2004 then set_paste false m
    else if n =? 9 then clear_mouse MPress m
    else if n =? 1000 then clear_mouse MPressRelease m
    else if n =? 1002 then clear_mouse MButtonMotion m
    else if n =? 1003 then clear_mouse MAnyMotion m
    else if n =? 1005 then clear_enc EUtf8 m
    else if n =? 1006 then clear_enc ESgr m
    else m
  | _ => m
  end.

(* The effect of one parser action on the six modes.
   ESC = (61) / ESC > (62) / ESC c (99) with no intermediates;
   CSI whose first intermediate is '?' (63) with final h (104) / l (108): the parameters apply
   left to right; everything else: identity.
   (Perform.do_csi looks only at the first intermediate, so "CSI ? $ h" behaves like "CSI ? h"
   in the model as in the crate; for the tokens the crate emits the intermediates are exactly [63].) *)
Definition mode_effect (a : action) (m : modes) : modes :=
  match a with
  | AEsc [] _ b =>
    if b =? 61 then set_keypad true m
    else if b =? 62 then set_keypad false m
    else if b =? 99 then m_fresh
    else m
  | ACsi ps (i :: _) _ c =>
    if i =? 63 then
      if c =? 104 then fold_left mode_param_set ps m
      else if c =? 108 then fold_left mode_param_reset ps m
      else m
    else m
  | _ => m
  end.

Definition run_actions (acts : list action) (m : modes) : modes :=
  fold_left (fun m a => mode_effect a m) acts m.

(* ------------------------------------------------------------------ *)
(* 2a. C10_independent                                                 *)
(* ------------------------------------------------------------------ *)
Lemma modes_with_cur s x : modes_of (with_cur s x) = modes_of s.
Proof. unfold with_cur. destruct (altmode s); reflexivity. Qed.

Lemma modes_on_cur s f s' : on_cur s f = Ok s' -> modes_of s' = modes_of s.
Proof. unfold on_cur. intros H. bind_inv H. inv H. apply modes_with_cur. Qed.

Lemma modes_enter_alt s : modes_of (enter_alternate_grid s) = modes_of s.
Proof. unfold enter_alternate_grid, with_cur. destruct (altmode s); reflexivity. Qed.
Lemma modes_save_cursor s : modes_of (scr_save_cursor s) = modes_of s.
Proof. unfold scr_save_cursor, with_cur. destruct (altmode s); reflexivity. Qed.
Lemma modes_restore_cursor s : modes_of (scr_restore_cursor s) = modes_of s.
Proof. unfold scr_restore_cursor, with_cur. destruct (altmode s); reflexivity. Qed.

Lemma modes_clear_mouse_mode s x : modes_of (clear_mouse_mode s x) = clear_mouse x (modes_of s).
Proof.
  unfold clear_mouse_mode, clear_mouse. cbn [modes_of m_mouse].
  destruct (mouse_mode_eqb (mmode s) x); reflexivity.
Qed.
Lemma modes_clear_mouse_enc s x : modes_of (clear_mouse_enc s x) = clear_enc x (modes_of s).
Proof.
  unfold clear_mouse_enc, clear_enc. cbn [modes_of m_enc].
  destruct (mouse_enc_eqb (menc s) x); reflexivity.
Qed.

Ltac oncur E :=
  unfold scr_bs, scr_tab, scr_lf, scr_cr, scr_ri, scr_ich, scr_cuu, scr_cud, scr_cuf, scr_cub,
         scr_cnl, scr_cpl, scr_cha, scr_cup, scr_vpa, scr_il, scr_dl, scr_dch, scr_su, scr_sd,
         scr_ech, scr_decstbm, scr_text in E;
  apply modes_on_cur in E.

Lemma do_execute_modes s b s' evs : do_execute s b = Ok (s', evs) -> modes_of s' = modes_of s.
Proof.
  unfold do_execute. intros H.
  repeat match type of H with (if ?c then _ else _) = _ => destruct c end;
    try (inv H; reflexivity);
    (bind_inv H; inv H; oncur E; exact E).
Qed.

Lemma do_print_modes s c s' evs : do_print s c = Ok (s', evs) -> modes_of s' = modes_of s.
Proof.
  unfold do_print. intros H.
  destruct ((128 <=? c) && (c <? 160)); [exact (do_execute_modes _ _ _ _ H)|].
  destruct (c =? REPL); [inv H; reflexivity|].
  bind_inv H. inv H. oncur E. exact E.
Qed.

Lemma do_osc_modes s ps : fst (do_osc s ps) = s.
Proof.
  unfold do_osc. destruct ps as [|k [|v [|w r]]]; try reflexivity.
  repeat match goal with |- context[if ?c then _ else _] => destruct c end; reflexivity.
Qed.

Lemma scr_ed_modes s mode s' k : scr_ed s mode = Ok (s', k) -> modes_of s' = modes_of s.
Proof.
  unfold scr_ed. intros H.
  repeat match type of H with (if ?c then _ else _) = _ => destruct c end;
    try (inv H; reflexivity);
    (bind_inv H; inv H; apply modes_on_cur in E; exact E).
Qed.
Lemma scr_el_modes s mode s' k : scr_el s mode = Ok (s', k) -> modes_of s' = modes_of s.
Proof.
  unfold scr_el. intros H.
  repeat match type of H with (if ?c then _ else _) = _ => destruct c end;
    try (inv H; reflexivity);
    (bind_inv H; inv H; apply modes_on_cur in E; exact E).
Qed.

Lemma scr_sgr_modes s ps : modes_of (fst (scr_sgr s ps)) = modes_of s.
Proof. unfold scr_sgr. destruct (sgr ps (pen s)); reflexivity. Qed.

Lemma screen_set_size_modes s r c s' : screen_set_size s r c = Ok s' -> modes_of s' = modes_of s.
Proof. unfold screen_set_size. intros H. bind_inv H. bind_inv H. inv H. reflexivity. Qed.

Lemma scr_ris_modes s s' : scr_ris s = Ok s' -> modes_of s' = m_fresh.
Proof. unfold scr_ris, screen_new. intros H. bind_inv H. bind_inv H. inv H. reflexivity. Qed.

Lemma modes_with_alt s x : modes_of (with_alt s x) = modes_of s.
Proof. reflexivity. Qed.
Lemma modes_exit_alt s : modes_of (exit_alternate_grid s) = modes_of s.
Proof. reflexivity. Qed.

(* close a goal about mode_param_*: either the parameter number is known, or it is none of
   the listed ones *)
Ltac fin_param :=
  first [ match goal with
          | Hx : (_ =? _) = true |- _ => apply N.eqb_eq in Hx; subst; gsimp; reflexivity
          end
        | repeat match goal with Hx : (_ =? _) = false |- _ => rewrite ?Hx; clear Hx end;
          reflexivity ].

Ltac param_cases H :=
  repeat match type of H with
         | (if ?c then _ else _) = _ => let Hn := fresh "Hn" in destruct c eqn:Hn
         end;
  try bind_inv H; inv H;
  try match goal with E : on_cur _ _ = Ok _ |- _ => apply modes_on_cur in E; rewrite E end;
  rewrite ?modes_enter_alt, ?modes_with_alt, ?modes_save_cursor, ?modes_restore_cursor,
          ?modes_exit_alt, ?modes_clear_mouse_mode, ?modes_clear_mouse_enc;
  fin_param.

Lemma decset1_modes s p s' k :
  decset1 s p = Ok (s', k) -> modes_of s' = mode_param_set (modes_of s) p.
Proof.
  unfold decset1, mode_param_set, single.
  destruct p as [|n [|n2 r]]; intros H; try (inv H; reflexivity).
  param_cases H.
Qed.

Lemma decrst1_modes s p s' k :
  decrst1 s p = Ok (s', k) -> modes_of s' = mode_param_reset (modes_of s) p.
Proof.
  unfold decrst1, mode_param_reset, single.
  destruct p as [|n [|n2 r]]; intros H; try (inv H; reflexivity).
  param_cases H.
Qed.

Lemma fold_params_modes f g :
  (forall s p s' k, f s p = Ok (s', k) -> modes_of s' = g (modes_of s) p) ->
  forall ps s n s' k, fold_params f ps s n = Ok (s', k) -> modes_of s' = fold_left g ps (modes_of s).
Proof.
  intros Hf. induction ps as [|p ps IH]; intros s n s' k H; cbn [fold_params fold_left] in *.
  - inv H. reflexivity.
  - bind_inv H. destruct v as [s1 k1]. apply Hf in E. rewrite <- E. exact (IH _ _ _ _ H).
Qed.

Lemma do_esc_modes s inter ign b s' evs :
  do_esc s inter b = Ok (s', evs) -> modes_of s' = mode_effect (AEsc inter ign b) (modes_of s).
Proof.
  unfold do_esc, mode_effect. destruct inter as [|i r]; intros H; [|inv H; reflexivity].
  repeat match type of H with
         | (if ?c then _ else _) = _ => let Hn := fresh "Hn" in destruct c eqn:Hn
         end;
  try bind_inv H; inv H;
  try match goal with E : scr_ri _ = Ok _ |- _ => oncur E; rewrite E end;
  try match goal with E : scr_ris _ = Ok _ |- _ => apply scr_ris_modes in E; rewrite E end;
  rewrite ?modes_save_cursor, ?modes_restore_cursor;
  fin_param.
Qed.

(* CSI without a leading '?' intermediate never touches the modes *)
Lemma do_csi_plain_modes rz s ps c s' evs :
  do_csi rz s ps [] c = Ok (s', evs) -> modes_of s' = modes_of s.
Proof.
  unfold do_csi, noev. intros H.
  pose proof (scr_sgr_modes s ps) as Hsgr.
  repeat match type of H with
         | (if ?b then _ else _) = _ => destruct b
         | (let '(_, _) := ?x in _) = _ => destruct x
         | match ?x with [] => _ | _ :: _ => _ end = _ => destruct x
         end;
  try bind_inv H;
  try match type of H with (let '(_, _) := ?x in _) = _ => destruct x end;
  try bind_inv H.
  all: try (inv H; reflexivity).
  all: try (inv H; oncur E; exact E).
  all: try (inv H; first [apply scr_ed_modes in E | apply scr_el_modes in E | apply screen_set_size_modes in E]; exact E).
  all: inv H; exact Hsgr.
Qed.

Lemma do_csi_modes rz s ps inter ign c s' evs :
  do_csi rz s ps inter c = Ok (s', evs) -> modes_of s' = mode_effect (ACsi ps inter ign c) (modes_of s).
Proof.
  destruct inter as [|i r]; [exact (do_csi_plain_modes rz s ps c s' evs)|].
  unfold do_csi, mode_effect. intros H.
  destruct (i =? 63); [|inv H; reflexivity].
  destruct (c =? 74) eqn:H74.
  { bind_inv H. destruct v as [s1 k]. inv H. apply scr_ed_modes in E. rewrite E. fin_param. }
  destruct (c =? 75) eqn:H75.
  { bind_inv H. destruct v as [s1 k]. inv H. apply scr_el_modes in E. rewrite E. fin_param. }
  destruct (c =? 104).
  { bind_inv H. destruct v as [s1 k]. inv H.
    exact (fold_params_modes decset1 mode_param_set decset1_modes _ _ _ _ _ E). }
  destruct (c =? 108).
  { bind_inv H. destruct v as [s1 k]. inv H.
    exact (fold_params_modes decrst1 mode_param_reset decrst1_modes _ _ _ _ _ E). }
  inv H. reflexivity.
Qed.

(* The six modes depend on nothing else in the screen, and nothing else changes them. *)
Theorem C10_independent : forall rz s a s' evs,
  perform rz s a = Ok (s', evs) -> modes_of s' = mode_effect a (modes_of s).
Proof.
  intros rz s a s' evs H. destruct a; cbn [perform] in H.
  - exact (do_print_modes _ _ _ _ H).
  - exact (do_execute_modes _ _ _ _ H).
  - inv H. reflexivity.
  - inv H. reflexivity.
  - inv H. reflexivity.
  - injection H as Hs. pose proof (do_osc_modes s params) as Ho. rewrite Hs in Ho. cbn [fst] in Ho.
    subst s'. reflexivity.
  - exact (do_csi_modes _ _ _ _ _ _ _ _ H).
  - exact (do_esc_modes _ _ _ _ _ _ H).
Qed.

Theorem C10_independent_all : forall rz acts s evs0 s' evs,
  perform_all rz s acts evs0 = Ok (s', evs) -> modes_of s' = run_actions acts (modes_of s).
Proof.
  intros rz. induction acts as [|a rest IH]; intros s evs0 s' evs H; cbn [perform_all] in H.
  - inv H. reflexivity.
  - bind_inv H. destruct v as [s1 e1]. apply C10_independent in E.
    unfold run_actions. cbn [fold_left]. rewrite <- E. exact (IH _ _ _ _ H).
Qed.

(* ------------------------------------------------------------------ *)
(* 3. the table of the 20 elementary sequences                         *)
(* ------------------------------------------------------------------ *)
Definition csi_params (ps : list N) : list (list N) :=
  match ps with [] => [[0]] | _ => map (fun x => [x]) ps end.

(* what a token re-parses to (proved elsewhere for TCsi / TEsc; controls and text never
   touch the modes whatever they parse to) *)
Definition acts_of (t : token) : list action :=
  match t with
  | TCsi priv ps f => [ACsi (csi_params ps) (if priv then [63] else []) false f]
  | TEsc f => [AEsc [] false f]
  | TCtl b => [AExecute b]
  | TChars cs => map APrint cs
  end.

Definition esc_seq (f : N) : action := AEsc [] false f.            (* ESC f *)
Definition dec_set (n : N) : action := ACsi [[n]] [63] false 104.  (* CSI ? n h *)
Definition dec_rst (n : N) : action := ACsi [[n]] [63] false 108.  (* CSI ? n l *)

Lemma acts_of_esc f : acts_of (TEsc f) = [esc_seq f].
Proof. reflexivity. Qed.
Lemma acts_of_dec_set n : acts_of (TCsi true [n] 104) = [dec_set n].
Proof. reflexivity. Qed.
Lemma acts_of_dec_rst n : acts_of (TCsi true [n] 108) = [dec_rst n].
Proof. reflexivity. Qed.

(* the 20 elementary sequences and their stated effects *)
Definition elem_table : list (action * (modes -> modes)) :=
  [ (esc_seq 61,   set_keypad true);            (* ESC =    *)
    (esc_seq 62,   set_keypad false);           (* ESC >    *)
    (dec_set 1,    set_appcur true);
    (dec_rst 1,    set_appcur false);
    (dec_set 25,   set_hide false);             (* show cursor *)
    (dec_rst 25,   set_hide true);              (* hide cursor *)
    (dec_set 2004, set_paste true);
    (dec_rst 2004, set_paste false);
    (dec_set 9,    set_mouse MPress);
    (dec_rst 9,    clear_mouse MPress);
    (dec_set 1000, set_mouse MPressRelease);
    (dec_rst 1000, clear_mouse MPressRelease);
    (dec_set 1002, set_mouse MButtonMotion);
    (dec_rst 1002, clear_mouse MButtonMotion);
    (dec_set 1003, set_mouse MAnyMotion);
    (dec_rst 1003, clear_mouse MAnyMotion);
    (dec_set 1005, set_enc EUtf8);
    (dec_rst 1005, clear_enc EUtf8);
    (dec_set 1006, set_enc ESgr);
    (dec_rst 1006, clear_enc ESgr) ].

Lemma elem_table_length : length elem_table = 20%nat.
Proof. reflexivity. Qed.

(* the two readings of a reset of a mouse mode / encoding *)
Lemma clear_mouse_active x m : m_mouse m = x -> clear_mouse x m = set_mouse MNone m.
Proof. intros H. unfold clear_mouse. rewrite H, mouse_mode_eqb_refl. reflexivity. Qed.
Lemma clear_mouse_other x m : m_mouse m <> x -> clear_mouse x m = m.
Proof.
  intros H. unfold clear_mouse. destruct (mouse_mode_eqb (m_mouse m) x) eqn:E; [|reflexivity].
  apply mouse_mode_eqb_eq in E. contradiction.
Qed.
Lemma clear_enc_active x m : m_enc m = x -> clear_enc x m = set_enc EDefault m.
Proof. intros H. unfold clear_enc. rewrite H, mouse_enc_eqb_refl. reflexivity. Qed.
Lemma clear_enc_other x m : m_enc m <> x -> clear_enc x m = m.
Proof.
  intros H. unfold clear_enc. destruct (mouse_enc_eqb (m_enc m) x) eqn:E; [|reflexivity].
  apply mouse_enc_eqb_eq in E. contradiction.
Qed.

Definition table_ok (m : modes) : bool :=
  forallb (fun af => modes_eqb (mode_effect (fst af) m) (snd af m)) elem_table.

Lemma table_check : forallb table_ok all_modes = true.
Proof. vm_compute. reflexivity. Qed.

(* each of the 20 elementary sequences has the stated effect from each of the 240 states *)
Theorem C10_table : forall m, In m all_modes ->
  forall a f, In (a, f) elem_table -> mode_effect a m = f m.
Proof.
  intros m Hm a f Haf.
  pose proof (proj1 (forallb_forall table_ok all_modes) table_check m Hm) as Hok.
  unfold table_ok in Hok.
  pose proof (proj1 (forallb_forall _ elem_table) Hok (a, f) Haf) as Hone.
  cbn [fst snd] in Hone. apply modes_eqb_eq in Hone. exact Hone.
Qed.

Corollary C10_table_all : forall m a f, In (a, f) elem_table -> mode_effect a m = f m.
Proof. intros m a f. exact (C10_table m (all_modes_complete m) a f). Qed.

(* several modes in one sequence apply in order: it is a fold *)
Theorem C10_params_in_order : forall ps qs inter ign c m,
  mode_effect (ACsi (ps ++ qs) inter ign c) m =
  mode_effect (ACsi qs inter ign c) (mode_effect (ACsi ps inter ign c) m).
Proof.
  intros ps qs inter ign c m. unfold mode_effect. destruct inter as [|i r]; [reflexivity|].
  destruct (i =? 63); [|reflexivity].
  destruct (c =? 104); [apply fold_left_app|].
  destruct (c =? 108); [apply fold_left_app|]. reflexivity.
Qed.

(* a sequence with several parameters is the sequence of its one-parameter sequences *)
Theorem C10_params_split : forall ps inter ign c m,
  mode_effect (ACsi ps inter ign c) m =
  fold_left (fun m p => mode_effect (ACsi [p] inter ign c) m) ps m.
Proof.
  induction ps as [|p ps IH]; intros inter ign c m.
  - cbn [fold_left]. unfold mode_effect. destruct inter as [|i r]; [reflexivity|].
    destruct (i =? 63), (c =? 104), (c =? 108); reflexivity.
  - change (p :: ps) with ([p] ++ ps). rewrite C10_params_in_order. cbn [fold_left app].
    apply IH.
Qed.

Lemma csi_params_app ps qs : ps <> [] -> qs <> [] ->
  csi_params (ps ++ qs) = csi_params ps ++ csi_params qs.
Proof.
  destruct ps as [|p ps]; [congruence|]. destruct qs as [|q qs]; [congruence|]. intros _ _.
  cbn [csi_params app]. rewrite <- map_app. reflexivity.
Qed.

Definition run_modes (ts : list token) (m : modes) : modes :=
  fold_left (fun m a => mode_effect a m) (flat_map acts_of ts) m.

Lemma run_modes_app ts us m : run_modes (ts ++ us) m = run_modes us (run_modes ts m).
Proof. unfold run_modes. rewrite flat_map_app, fold_left_app. reflexivity. Qed.
Lemma run_modes_cons t ts m : run_modes (t :: ts) m = run_modes ts (run_modes [t] m).
Proof. exact (run_modes_app [t] ts m). Qed.
Lemma run_modes_nil m : run_modes [] m = m.
Proof. reflexivity. Qed.

(* the same at the level of the emitted tokens: ESC[?p1;..;pk;q1;..;qj h  =  ESC[?p1;..;pk h ESC[?q1;..;qj h *)
Theorem C10_tokens_in_order : forall priv ps qs f m, ps <> [] -> qs <> [] ->
  run_modes [TCsi priv (ps ++ qs) f] m = run_modes [TCsi priv ps f; TCsi priv qs f] m.
Proof.
  intros priv ps qs f m Hp Hq. unfold run_modes. cbn [flat_map acts_of app fold_left].
  rewrite csi_params_app by assumption. apply C10_params_in_order.
Qed.

(* ------------------------------------------------------------------ *)
(* 4. the emitters                                                     *)
(* ------------------------------------------------------------------ *)
(* the five input modes (cursor visibility is forgotten) *)
Definition five (m : modes) : bool * bool * bool * mouse_mode * mouse_enc :=
  (m_keypad m, m_appcur m, m_paste m, m_mouse m, m_enc m).

Lemma five_set_hide b m : five (set_hide b m) = five m.
Proof. reflexivity. Qed.
Lemma five_hide_eq a b : five a = five b -> m_hide a = m_hide b -> a = b.
Proof.
  destruct a, b. unfold five. cbn [m_keypad m_appcur m_hide m_paste m_mouse m_enc].
  intros H1 H2. injection H1 as -> -> -> -> ->. subst. reflexivity.
Qed.

(* the emitters only look at the modes *)
Definition fmt_toks (m : modes) : list token :=
  [t_keypad (m_keypad m); t_appcur (m_appcur m); t_paste (m_paste m)]
    ++ t_mouse_mode (m_mouse m) MNone ++ t_mouse_enc (m_enc m) EDefault.
Definition diff_toks (m p : modes) : list token :=
  (if Bool.eqb (m_keypad m) (m_keypad p) then [] else [t_keypad (m_keypad m)])
    ++ (if Bool.eqb (m_appcur m) (m_appcur p) then [] else [t_appcur (m_appcur m)])
    ++ (if Bool.eqb (m_paste m) (m_paste p) then [] else [t_paste (m_paste m)])
    ++ t_mouse_mode (m_mouse m) (m_mouse p) ++ t_mouse_enc (m_enc m) (m_enc p).

Lemma input_mode_formatted_toks s : input_mode_formatted_t s = fmt_toks (modes_of s).
Proof. reflexivity. Qed.
Lemma input_mode_diff_toks s p : input_mode_diff_t s p = diff_toks (modes_of s) (modes_of p).
Proof. reflexivity. Qed.

Lemma fmt_check :
  forallb (fun ms => forallb (fun m0 =>
     implb (mouse_mode_eqb (m_mouse m0) MNone && mouse_enc_eqb (m_enc m0) EDefault)
           (modes_eqb (run_modes (fmt_toks ms) m0) (set_hide (m_hide m0) ms)))
     all_modes) all_modes = true.
Proof. vm_compute. reflexivity. Qed.

(* input_mode_formatted from any state whose mouse mode / encoding are None / Default
   (in particular the fresh one) installs exactly the five input modes and leaves the cursor
   visibility alone *)
Theorem C10_formatted_gen : forall s m0, m_mouse m0 = MNone -> m_enc m0 = EDefault ->
  run_modes (input_mode_formatted_t s) m0 = set_hide (m_hide m0) (modes_of s).
Proof.
  intros s m0 Hm He. rewrite input_mode_formatted_toks.
  pose proof (all_modes_forall _ fmt_check (modes_of s)) as H1. cbv beta in H1.
  pose proof (proj1 (forallb_forall _ all_modes) H1 m0 (all_modes_complete m0)) as H2. cbv beta in H2.
  rewrite Hm, He in H2. cbn [mouse_mode_eqb mouse_enc_eqb andb implb] in H2.
  apply modes_eqb_eq in H2. exact H2.
Qed.

Theorem C10_formatted : forall s,
  five (run_modes (input_mode_formatted_t s) m_fresh) = five (modes_of s).
Proof. intros s. rewrite (C10_formatted_gen s m_fresh eq_refl eq_refl). reflexivity. Qed.

(* it is NOT true from an arbitrary state: mouse mode and encoding are emitted as a diff
   against None / Default *)
Definition scr_plain : screen :=
  mkScreen (mkGrid 1 1 0 0 0 0 [] 0 0 false false [] 0 0) (mkGrid 1 1 0 0 0 0 [] 0 0 false false [] 0 0)
           dflt dflt false false false false false MNone EDefault.

Example C10_formatted_needs_fresh :
  five (run_modes (input_mode_formatted_t scr_plain) (set_mouse MPress m_fresh))
  <> five (modes_of scr_plain).
Proof. vm_compute. discriminate. Qed.
Example C10_formatted_needs_fresh_enc :
  five (run_modes (input_mode_formatted_t scr_plain) (set_enc ESgr m_fresh))
  <> five (modes_of scr_plain).
Proof. vm_compute. discriminate. Qed.

Lemma diff_check :
  forallb (fun ms => forallb (fun mp =>
     modes_eqb (run_modes (diff_toks ms mp) mp) (set_hide (m_hide mp) ms)) all_modes) all_modes = true.
Proof. vm_compute. reflexivity. Qed.

Theorem C10_diff_gen : forall s p,
  run_modes (input_mode_diff_t s p) (modes_of p) = set_hide (hide p) (modes_of s).
Proof.
  intros s p. rewrite input_mode_diff_toks.
  pose proof (all_modes_forall _ diff_check (modes_of s)) as H1. cbv beta in H1.
  pose proof (proj1 (forallb_forall _ all_modes) H1 (modes_of p) (all_modes_complete _)) as H2.
  cbv beta in H2. apply modes_eqb_eq in H2. exact H2.
Qed.

Theorem C10_diff : forall s p,
  five (run_modes (input_mode_diff_t s p) (modes_of p)) = five (modes_of s).
Proof. intros s p. rewrite C10_diff_gen. reflexivity. Qed.

Lemma t_mouse_mode_nil a b : t_mouse_mode a b = [] <-> a = b.
Proof. destruct a, b; cbn; split; intros H; try reflexivity; discriminate H. Qed.
Lemma t_mouse_enc_nil a b : t_mouse_enc a b = [] <-> a = b.
Proof. destruct a, b; cbn; split; intros H; try reflexivity; discriminate H. Qed.
Lemma opt_tok_nil a b (t : token) : (if Bool.eqb a b then [] else [t]) = [] <-> a = b.
Proof. destruct a, b; cbn; split; intros H; try reflexivity; discriminate H. Qed.

(* the diff is empty exactly when no input mode differs *)
Theorem C10_diff_empty : forall s p,
  input_mode_diff_t s p = [] <-> five (modes_of s) = five (modes_of p).
Proof.
  intros s p. unfold input_mode_diff_t, five, modes_of. cbn [m_keypad m_appcur m_paste m_mouse m_enc].
  split.
  - intros H.
    apply app_eq_nil in H. destruct H as [Hk H].
    apply app_eq_nil in H. destruct H as [Ha H].
    apply app_eq_nil in H. destruct H as [Hp H].
    apply app_eq_nil in H. destruct H as [Hm He].
    apply opt_tok_nil in Hk, Ha, Hp. apply t_mouse_mode_nil in Hm. apply t_mouse_enc_nil in He.
    rewrite Hk, Ha, Hp, Hm, He. reflexivity.
  - intros H. injection H as Hk Ha Hp Hm He.
    rewrite (proj2 (opt_tok_nil _ _ _) Hk), (proj2 (opt_tok_nil _ _ _) Ha), (proj2 (opt_tok_nil _ _ _) Hp),
            (proj2 (t_mouse_mode_nil _ _) Hm), (proj2 (t_mouse_enc_nil _ _) He).
    reflexivity.
Qed.

(* cursor visibility travels with contents_formatted / contents_diff: its token sets m_hide
   and nothing else, from any state *)
Theorem C10_hide_token : forall b m, run_modes [t_hide_cursor b] m = set_hide b m.
Proof. intros [] m; reflexivity. Qed.

(* the mode tokens of state_formatted, run on a fresh parser, reproduce all six modes *)
Theorem C10_state_formatted_modes : forall s,
  run_modes (t_hide_cursor (hide s) :: input_mode_formatted_t s) m_fresh = modes_of s.
Proof.
  intros s. rewrite run_modes_cons, C10_hide_token.
  rewrite C10_formatted_gen by reflexivity. reflexivity.
Qed.

(* the mode tokens of state_diff, run on a parser whose modes are prev's, reproduce all six *)
Theorem C10_state_diff_modes : forall s p,
  run_modes ((if Bool.eqb (hide s) (hide p) then [] else [t_hide_cursor (hide s)])
               ++ input_mode_diff_t s p) (modes_of p) = modes_of s.
Proof.
  intros s p. rewrite run_modes_app.
  assert (H : run_modes (if Bool.eqb (hide s) (hide p) then [] else [t_hide_cursor (hide s)]) (modes_of p)
              = set_hide (hide s) (modes_of p)).
  { destruct (Bool.eqb (hide s) (hide p)) eqn:E.
    - apply Bool.eqb_prop in E. rewrite E. reflexivity.
    - apply C10_hide_token. }
  rewrite H. clear H.
  pose proof (all_modes_forall _ diff_check (modes_of s)) as H1. cbv beta in H1.
  pose proof (proj1 (forallb_forall _ all_modes) H1 (set_hide (hide s) (modes_of p)) (all_modes_complete _)) as H2.
  cbv beta in H2. apply modes_eqb_eq in H2. exact H2.
Qed.

(* ------------------------------------------------------------------ *)
(* 4a. at the screen level the mode tokens touch nothing but the modes *)
(* ------------------------------------------------------------------ *)
(* s' equals s in every field except the six mode fields *)
Definition same_rest (s s' : screen) : Prop :=
  g s' = g s /\ alt s' = alt s /\ pen s' = pen s /\ spen s' = spen s /\ altmode s' = altmode s.

Lemma same_rest_refl s : same_rest s s.
Proof. repeat split. Qed.
Lemma same_rest_trans a b c : same_rest a b -> same_rest b c -> same_rest a c.
Proof.
  intros (H1 & H2 & H3 & H4 & H5) (K1 & K2 & K3 & K4 & K5).
  repeat split; congruence.
Qed.

(* a screen is determined by its six modes and the five other fields *)
Lemma screen_ext s s' : same_rest s s' -> modes_of s' = modes_of s -> s' = s.
Proof.
  destruct s, s'. unfold same_rest, modes_of. cbn. intros (H1 & H2 & H3 & H4 & H5) H6.
  injection H6 as -> -> -> -> -> ->. subst. reflexivity.
Qed.

(* the 20 elementary actions *)
Definition mode_actions : list action := map fst elem_table.

Theorem C10_mode_action_screen : forall a, In a mode_actions ->
  forall rz s, exists s', perform rz s a = Ok (s', []) /\ same_rest s s'.
Proof.
  intros a Ha rz s. destruct s as [g0 a0 p0 sp0 k0 ac0 h0 am0 pa0 mm0 me0].
  unfold mode_actions in Ha. cbn [map fst elem_table] in Ha.
  repeat (destruct Ha as [Ha | Ha];
          [subst a; destruct mm0, me0; eexists; (split; [vm_compute; reflexivity | repeat split]) |]).
  destruct Ha.
Qed.

(* which tokens are mode tokens *)
Definition is_mode_num (n : N) : bool :=
  (n =? 1) || (n =? 25) || (n =? 2004) || (n =? 9) || (n =? 1000) || (n =? 1002) || (n =? 1003)
  || (n =? 1005) || (n =? 1006).

Definition is_mode_token (t : token) : bool :=
  match t with
  | TEsc f => (f =? 61) || (f =? 62)
  | TCsi true [n] f => ((f =? 104) || (f =? 108)) && is_mode_num n
  | _ => false
  end.

Lemma mode_token_actions t : is_mode_token t = true -> incl (acts_of t) mode_actions.
Proof.
  destruct t as [priv ps f | f | b | cs]; cbn [is_mode_token]; try discriminate.
  - destruct priv; [|discriminate]. destruct ps as [|n [|n2 r]]; try discriminate.
    unfold is_mode_num. rewrite andb_true_iff, !orb_true_iff, !N.eqb_eq.
    intros [Hf Hn] a Ha. cbn in Ha. destruct Ha as [Ha | []]. subst a.
    repeat match goal with Hx : _ \/ _ |- _ => destruct Hx as [Hx | Hx] end; subst f n; vm_compute; tauto.
  - rewrite orb_true_iff, !N.eqb_eq. intros Hf a Ha. cbn in Ha. destruct Ha as [Ha | []]. subst a.
    destruct Hf as [-> | ->]; vm_compute; tauto.
Qed.

Lemma hide_token_is_mode b : is_mode_token (t_hide_cursor b) = true.
Proof. destruct b; reflexivity. Qed.
Lemma fmt_tokens_are_mode s : forallb is_mode_token (input_mode_formatted_t s) = true.
Proof.
  rewrite input_mode_formatted_toks. generalize (modes_of s). intros m.
  destruct m as [[] [] [] [] [] []]; reflexivity.
Qed.
Lemma diff_tokens_are_mode s p : forallb is_mode_token (input_mode_diff_t s p) = true.
Proof.
  rewrite input_mode_diff_toks.
  assert (H : forallb (fun ms => forallb (fun mp => forallb is_mode_token (diff_toks ms mp)) all_modes)
                      all_modes = true) by (vm_compute; reflexivity).
  pose proof (all_modes_forall _ H (modes_of s)) as H1. cbv beta in H1.
  exact (all_modes_forall _ H1 (modes_of p)).
Qed.

(* running mode tokens through perform: no event, no panic, nothing but the modes changes,
   and the modes change as run_modes says *)
Theorem C10_mode_tokens_screen : forall ts, forallb is_mode_token ts = true ->
  forall rz s evs0, exists s',
    perform_all rz s (flat_map acts_of ts) evs0 = Ok (s', evs0) /\
    same_rest s s' /\ modes_of s' = run_modes ts (modes_of s).
Proof.
  intros ts Hts rz s evs0.
  assert (Hacts : Forall (fun a => In a mode_actions) (flat_map acts_of ts)).
  { apply Forall_forall. intros a Ha. apply in_flat_map in Ha. destruct Ha as (t & Ht & Ha).
    apply (mode_token_actions t); [|exact Ha].
    exact (proj1 (forallb_forall _ ts) Hts t Ht). }
  unfold run_modes. revert Hacts. generalize (flat_map acts_of ts). clear ts Hts.
  intros acts. revert s. induction acts as [|a rest IH]; intros s Hacts.
  - exists s. repeat split.
  - apply Forall_cons_iff in Hacts. destruct Hacts as [Ha Hrest].
    destruct (C10_mode_action_screen a Ha rz s) as (s1 & Hp & Hs1).
    destruct (IH s1 Hrest) as (s' & Hp' & Hs' & Hm').
    exists s'. cbn [perform_all fold_left]. rewrite Hp. cbn [bind]. rewrite app_nil_r.
    split; [exact Hp'|]. split; [exact (same_rest_trans _ _ _ Hs1 Hs')|].
    rewrite Hm'. rewrite (C10_independent _ _ _ _ _ Hp). reflexivity.
Qed.

(* replaying input_mode_diff(prev) on any screen whose modes are prev's: the result has the
   five input modes of s and is otherwise the screen it was replayed on *)
Corollary C10_diff_replay : forall s p q rz evs0, modes_of q = modes_of p ->
  exists q', perform_all rz q (flat_map acts_of (input_mode_diff_t s p)) evs0 = Ok (q', evs0) /\
             same_rest q q' /\ five (modes_of q') = five (modes_of s) /\ hide q' = hide q.
Proof.
  intros s p q rz evs0 Hq.
  destruct (C10_mode_tokens_screen _ (diff_tokens_are_mode s p) rz q evs0) as (q' & Hp & Hr & Hm).
  exists q'. split; [exact Hp|]. split; [exact Hr|].
  rewrite Hq, C10_diff_gen in Hm. rewrite Hm. split; [reflexivity|].
  change (hide q') with (m_hide (modes_of q')). rewrite Hm.
  change (hide p = m_hide (modes_of q)). rewrite Hq. reflexivity.
Qed.

Corollary C10_formatted_replay : forall s q rz evs0, mmode q = MNone -> menc q = EDefault ->
  exists q', perform_all rz q (flat_map acts_of (input_mode_formatted_t s)) evs0 = Ok (q', evs0) /\
             same_rest q q' /\ five (modes_of q') = five (modes_of s) /\ hide q' = hide q.
Proof.
  intros s q rz evs0 Hmm Hme.
  destruct (C10_mode_tokens_screen _ (fmt_tokens_are_mode s) rz q evs0) as (q' & Hp & Hr & Hm).
  exists q'. split; [exact Hp|]. split; [exact Hr|].
  rewrite (C10_formatted_gen s (modes_of q) Hmm Hme) in Hm. rewrite Hm. split; [reflexivity|].
  change (hide q') with (m_hide (modes_of q')). rewrite Hm. reflexivity.
Qed.
