(* EventSeq.v — C18 end to end: one well-formed sequence in the byte stream ->
   exactly one action (SeqSpec.v) -> exactly the events of the table (EventSpec.v),
   appended to the callback log.  Also the non-vacuity examples. *)
Require Import Tac ListN Utf8 Attrs Cell Row Grid Screen Vte Perform Parser Term.
Require Import Utf8Lemmas VteInv VteChunk ParseSer ScreenInv EventSpec SeqSpec Pend Chunking.
Open Scope N_scope.

(* a chunk of bytes that parses to exactly one action *)
(* [delivered p bs] (Chunking.v): what process hands to vte, pend p ++ bs without its incomplete
   utf-8 tail; it is bs itself when pend p = [] and bs ends in a complete character *)
Theorem process_one_action : forall p bs v' a q,
  advance (vt p) (delivered p bs) = (v', [a]) -> process p bs = Ok q ->
  vt q = v' /\ resizing q = resizing p /\
  log q = log p ++ events_of (resizing p) (scr p) a /\
  perform (resizing p) (scr p) a = Ok (scr q, events_of (resizing p) (scr p) a).
Proof.
  intros p bs v' a q A H. rewrite process_unfold in H. rewrite A in H.
  cbn [perform_all] in H.
  destruct (perform (resizing p) (scr p) a) as [[s1 e]|k] eqn:E; cbn [bind app] in H; [|discriminate].
  inv H. cbn [vt resizing log scr]. pose proof (C18_exact _ _ _ _ _ E) as ->. auto.
Qed.

(* two actions (OSC terminated by ESC \) *)
Theorem process_two_actions : forall p bs v' a1 a2 q,
  advance (vt p) (delivered p bs) = (v', [a1; a2]) -> process p bs = Ok q ->
  exists s1,
    perform (resizing p) (scr p) a1 = Ok (s1, events_of (resizing p) (scr p) a1) /\
    perform (resizing p) s1 a2 = Ok (scr q, events_of (resizing p) s1 a2) /\
    vt q = v' /\
    log q = log p ++ events_of (resizing p) (scr p) a1 ++ events_of (resizing p) s1 a2.
Proof.
  intros p bs v' a1 a2 q A H. rewrite process_unfold in H. rewrite A in H.
  cbn [perform_all] in H.
  destruct (perform (resizing p) (scr p) a1) as [[s1 e1]|k] eqn:E1; cbn [bind app] in H; [|discriminate].
  destruct (perform (resizing p) s1 a2) as [[s2 e2]|k] eqn:E2; cbn [bind app] in H; [|discriminate].
  inv H. cbn [vt resizing log scr].
  pose proof (C18_exact _ _ _ _ _ E1) as ->. pose proof (C18_exact _ _ _ _ _ E2) as ->.
  exists s1. auto.
Qed.

(* the sequences below end in an ASCII byte: nothing of them is held back *)
Lemma csi_bytes_tail mk G ins f : f < 128 -> incomplete_tail (csi_bytes mk G ins f) = 0.
Proof.
  intros H. apply ends_ascii_tail. unfold csi_bytes. do 2 apply ends_ascii_cons.
  do 3 apply ends_ascii_app. now apply ends_ascii_one.
Qed.
Lemma esc_bytes_tail ins f : f < 128 -> incomplete_tail (esc_bytes ins f) = 0.
Proof.
  intros H. apply ends_ascii_tail. unfold esc_bytes. apply ends_ascii_cons, ends_ascii_app. now apply ends_ascii_one.
Qed.
Lemma osc_bytes_bel_tail fs : incomplete_tail (osc_bytes_bel fs) = 0.
Proof.
  apply ends_ascii_tail. unfold osc_bytes_bel. do 2 apply ends_ascii_cons. apply ends_ascii_app.
  apply ends_ascii_one. lia.
Qed.
Lemma osc_bytes_st_tail fs : incomplete_tail (osc_bytes_st fs) = 0.
Proof.
  apply ends_ascii_tail. unfold osc_bytes_st. do 2 apply ends_ascii_cons. apply ends_ascii_app.
  apply ends_ascii_cons, ends_ascii_one. lia.
Qed.
Lemma utf8_encode_tail c : is_scalar c = true -> incomplete_tail (utf8_encode c) = 0.
Proof.
  intros Hs. apply (incomplete_tail_char _ c).
  pose proof (decode1_encode c [] Hs) as D. rewrite app_nil_r in D. now rewrite utf8_encode_len.
Qed.

(* ---- CSI ---- *)
Theorem C18_csi_once : forall p mk G ins f q,
  pend p = [] ->
  ground (vt p) -> csi_ok mk G ins f ->
  process p (csi_bytes mk G ins f) = Ok q ->
  ground (vt q) /\
  log q = log p ++ events_of (resizing p) (scr p) (csi_action mk G ins f).
Proof.
  intros p mk G ins f q Hp Hg Hok H.
  destruct (advance_csi_general (vt p) mk G ins f Hg Hok) as (v' & Gv & A).
  rewrite <- (delivered_clean p _ Hp (csi_bytes_tail mk G ins f ltac:(destruct Hok; lia))) in A.
  destruct (process_one_action p _ v' _ q A H) as (E1 & _ & E3 & _). subst v'. auto.
Qed.

(* ---- ESC ---- *)
Theorem C18_esc_once : forall p ins f q,
  pend p = [] ->
  ground (vt p) -> esc_ok ins f ->
  process p (esc_bytes ins f) = Ok q ->
  ground (vt q) /\
  log q = log p ++ events_of (resizing p) (scr p) (AEsc ins false f).
Proof.
  intros p ins f q Hp Hg Hok H.
  destruct (advance_esc_general (vt p) ins f Hg Hok) as (A & Gv).
  rewrite <- (delivered_clean p _ Hp (esc_bytes_tail ins f ltac:(destruct Hok; lia))) in A.
  destruct (process_one_action p _ _ _ q A H) as (E1 & _ & E3 & _). rewrite E1. auto.
Qed.

(* ---- OSC, BEL-terminated: reported exactly once, screen unchanged ---- *)
Theorem C18_osc_bel_once : forall p fs,
  pend p = [] ->
  ground (vt p) -> osc_ok fs ->
  process p (osc_bytes_bel fs) =
  Ok (mkParser p_init (scr p) (log p ++ osc_events fs) (resizing p) []).
Proof.
  intros p fs Hp Hg Hok. rewrite (process_clean p _ Hp (osc_bytes_bel_tail fs)).
  rewrite (advance_osc_bel (vt p) fs Hg Hok).
  cbn [perform_all perform bind]. rewrite do_osc_events. reflexivity.
Qed.

(* ---- OSC, ST-terminated: the OSC is reported exactly once, and the terminator
   ESC \ (dispatched by vte as a separate escape sequence) is silent since the K18 repair ---- *)
Theorem C18_osc_st_once : forall p fs,
  pend p = [] ->
  ground (vt p) -> osc_ok fs ->
  process p (osc_bytes_st fs) =
  Ok (mkParser p_init (scr p) (log p ++ osc_events fs) (resizing p) []).
Proof.
  intros p fs Hp Hg Hok. rewrite (process_clean p _ Hp (osc_bytes_st_tail fs)).
  rewrite (advance_osc_st (vt p) fs Hg Hok).
  cbn [perform_all perform bind]. rewrite do_osc_events. cbn [bind app].
  change (do_esc (scr p) [] 92) with (Ok (scr p, @nil event)). cbn [bind].
  rewrite app_nil_r. reflexivity.
Qed.

(* ---- single characters ---- *)
Theorem C18_char_once : forall p c q,
  pend p = [] ->
  ground (vt p) -> is_scalar c = true -> c <> 27 ->
  process p (utf8_encode c) = Ok q ->
  vt q = vt p /\ log q = log p ++ events_of (resizing p) (scr p) (ground_action c).
Proof.
  intros p c q Hp Hg Hs H27 H.
  pose proof (advance_one_char (vt p) c Hg Hs H27) as A.
  rewrite <- (delivered_clean p _ Hp (utf8_encode_tail c Hs)) in A.
  destruct (process_one_action p _ _ _ q A H) as (E1 & _ & E3 & _). auto.
Qed.

(* the three kinds of characters *)
Corollary C18_char_events : forall rz s c,
  (c = 7 -> events_of rz s (ground_action c) = [EBell]) /\
  (c <= 31 -> c <> 7 -> ~ (8 <= c <= 15) -> events_of rz s (ground_action c) = [EUnhControl c]) /\
  (8 <= c <= 15 -> events_of rz s (ground_action c) = []) /\
  (128 <= c <= 159 -> events_of rz s (ground_action c) = [EUnhControl c]) /\
  (c = 65533 -> events_of rz s (ground_action c) = [EUnhChar 65533]) /\
  (32 <= c <= 127 \/ 160 <= c -> c <> 65533 -> events_of rz s (ground_action c) = []).
Proof.
  intros rz s c. destruct (ground_action_cases c) as [GE GP]. repeat split.
  - intros ->. reflexivity.
  - intros H1 H2 H3. rewrite GE by lia. apply ev_unh_control; assumption.
  - intros H. rewrite GE by lia. cbn [events_of]. unfold exec_events, c0_handled.
    replace (c =? 7) with false by lia. replace ((8 <=? c) && (c <=? 15)) with true by lia. reflexivity.
  - intros H. rewrite GE by lia. cbn [events_of]. unfold exec_events, c0_handled.
    replace (c =? 7) with false by lia. replace ((8 <=? c) && (c <=? 15)) with false by lia. reflexivity.
  - intros ->. reflexivity.
  - intros H1 H2. rewrite GP by exact H1. cbn [events_of]. unfold print_events, is_c1.
    replace ((128 <=? c) && (c <? 160)) with false by lia.
    replace (c =? 65533) with false by lia. reflexivity.
Qed.

(* ---- a reported sequence changes nothing on the screen (recording policy) ---- *)
Theorem C18_reported_sequence_inert : forall p bs v' a q,
  resizing p = false ->
  advance (vt p) (delivered p bs) = (v', [a]) -> reported a = true -> process p bs = Ok q ->
  scr q = scr p /\ log q = log p ++ events_of false (scr p) a /\ events_of false (scr p) a <> [].
Proof.
  intros p bs v' a q Hz A R H.
  destruct (process_one_action p bs v' a q A H) as (_ & _ & E3 & E4).
  rewrite Hz in *. destruct (C18_inert (scr p) a R) as [I1 I2].
  rewrite I1 in E4. inv E4. auto.
Qed.

(* ------------------------------------------------------------------ *)
(* Non-vacuity                                                          *)
(* ------------------------------------------------------------------ *)

Definition p0 : parser :=
  match parser_new 24 80 10 false with Ok p => p | Panic _ => mkParser p_init (mkScreen
    (mkGrid 0 0 0 0 0 0 [] 0 0 false false [] 0 0) (mkGrid 0 0 0 0 0 0 [] 0 0 false false [] 0 0)
    dflt dflt false false false false false MNone EDefault) [] false [] end.

Definition log_of (r : res parser) : list event := match r with Ok q => log q | Panic _ => [] end.
Definition scr_same (r : res parser) (p : parser) : Prop := match r with Ok q => scr q = scr p | Panic _ => False end.

(* CSI ? 1 ; 2 : 3 $ p  — private marker, a subparameter, an intermediate *)
Example ex_csi_general :
  csi_ok [63] [[[49]]; [[50]; [51]]] [36] 112 /\
  csi_bytes [63] [[[49]]; [[50]; [51]]] [36] 112 = [27; 91; 63; 49; 59; 50; 58; 51; 36; 112] /\
  csi_action [63] [[[49]]; [[50]; [51]]] [36] 112 = ACsi [[1]; [2; 3]] [63; 36] false 112 /\
  log_of (process p0 [27; 91; 63; 49; 59; 50; 58; 51; 36; 112]) =
    [EUnhCsi (Some 63) (Some 36) [[1]; [2; 3]] 112] /\
  scr_same (process p0 [27; 91; 63; 49; 59; 50; 58; 51; 36; 112]) p0.
Proof.
  split.
  { split.
    - right. exists 63. split; [reflexivity|lia].
    - split; [discriminate|].
      repeat constructor; try discriminate; unfold is_digit; lia.
    - vm_compute. discriminate.
    - repeat constructor; unfold ibyte; lia.
    - vm_compute. discriminate.
    - lia. }
  repeat split; vm_compute; reflexivity.
Qed.

(* empty parameters: CSI m and CSI ; m *)
Example ex_csi_empty :
  snd (advance p_init (csi_bytes [] [[[]]] [] 109)) = [ACsi [[0]] [] false 109] /\
  snd (advance p_init (csi_bytes [] [[[]]; [[]]] [] 109)) = [ACsi [[0]; [0]] [] false 109] /\
  (* leading zeros and saturation at 65535 *)
  snd (advance p_init (csi_bytes [] [[[48; 48; 55]]; [[57; 57; 57; 57; 57; 57]]] [] 109)) =
    [ACsi [[7]; [65535]] [] false 109].
Proof. repeat split; vm_compute; reflexivity. Qed.

(* beyond the grammar: a 33rd parameter is dropped and the action is flagged [ign];
   a third intermediate likewise *)
Example ex_csi_limits :
  (let ps := repeat [[48]] 33 in
   snd (advance p_init (csi_bytes [] ps [] 109)) = [ACsi (repeat [0] 32) [] true 109]) /\
  snd (advance p_init (csi_bytes [] [[[]]] [32; 33; 34] 112)) = [ACsi [[0]] [32; 33] true 112].
Proof. split; vm_compute; reflexivity. Qed.

(* ESC sequences *)
Example ex_esc :
  log_of (process p0 (esc_bytes [] 103)) = [EVisualBell] /\
  log_of (process p0 (esc_bytes [] 55)) = [] /\
  log_of (process p0 (esc_bytes [] 90)) = [EUnhEscape None None 90] /\
  log_of (process p0 (esc_bytes [40] 66)) = [EUnhEscape (Some 40) None 66] /\
  log_of (process p0 (esc_bytes [35; 36] 56)) = [EUnhEscape (Some 35) (Some 36) 56] /\
  scr_same (process p0 (esc_bytes [40] 66)) p0.
Proof. repeat split; vm_compute; reflexivity. Qed.

(* OSC: title and icon name, BEL and ST terminators, UTF-8 payload, unknown OSC *)
Example ex_osc :
  log_of (process p0 (osc_bytes_bel [[48]; [104; 105]])) = [EIconName [104; 105]; ETitle [104; 105]] /\
  log_of (process p0 (osc_bytes_bel [[49]; [104; 105]])) = [EIconName [104; 105]] /\
  log_of (process p0 (osc_bytes_bel [[50]; [195; 169]])) = [ETitle [195; 169]] /\
  log_of (process p0 (osc_bytes_bel [[53; 50]; [99]; [120]])) = [EUnhOsc [[53; 50]; [99]; [120]]] /\
  log_of (process p0 (osc_bytes_bel [[]])) = [EUnhOsc [[]]] /\
  (* OBSERVATION: with ESC \ the terminator is reported as an unhandled escape *)
  log_of (process p0 (osc_bytes_st [[50]; [104; 105]])) = [ETitle [104; 105]] /\
  scr_same (process p0 (osc_bytes_st [[50]; [104; 105]])) p0.
Proof. repeat split; vm_compute; reflexivity. Qed.

(* OBSERVATION: the same happens with DCS / SOS / PM / APC strings terminated by ESC \ :
   the string itself reports nothing, the terminator is reported *)
Example ex_strings_st :
  log_of (process p0 [27; 80; 113; 35; 48; 27; 92]) = [] /\   (* ESC P q # 0 ESC \ *)
  log_of (process p0 [27; 88; 120; 27; 92]) = [] /\            (* ESC X x ESC \ *)
  log_of (process p0 [27; 95; 120; 27; 92]) = [] /\            (* ESC _ x ESC \ *)
  log_of (process p0 [27; 80; 113; 35; 48; 156]) = [] /\                               (* DCS ... C1 ST *)
  scr_same (process p0 [27; 80; 113; 35; 48; 27; 92]) p0.
Proof. repeat split; vm_compute; reflexivity. Qed.

(* beyond the grammar: a 17th OSC field is dropped *)
Example ex_osc_limit :
  snd (advance p_init (osc_bytes_bel (repeat [65] 17))) = [AOsc (repeat [65] 16) true].
Proof. vm_compute. reflexivity. Qed.

(* controls, C1, replacement character, resize request, ED with unknown mode, SGR / DECSET *)
Example ex_misc :
  log_of (process p0 [7]) = [EBell] /\
  log_of (process p0 [1]) = [EUnhControl 1] /\
  log_of (process p0 [14; 15; 8; 9; 10; 13]) = [] /\
  log_of (process p0 [194; 133]) = [EUnhControl 133] /\          (* U+0085 NEL, UTF-8 *)
  log_of (process p0 [239; 191; 189]) = [EUnhChar 65533] /\      (* U+FFFD *)
  log_of (process p0 [255]) = [EUnhChar 65533] /\                (* invalid byte *)
  log_of (process p0 [27; 91; 56; 59; 51; 48; 116]) = [EResize 30 80] /\   (* CSI 8;30 t *)
  log_of (process p0 [27; 91; 56; 116]) = [EResize 24 80] /\               (* CSI 8 t *)
  log_of (process p0 [27; 91; 49; 52; 116]) = [EUnhCsi None None [[14]] 116] /\
  log_of (process p0 [27; 91; 51; 74]) = [EUnhCsi None None [[3]] 74] /\   (* CSI 3 J *)
  log_of (process p0 [27; 91; 49; 59; 53; 59; 50; 49; 109]) =               (* CSI 1;5;21 m *)
    [EUnhCsi None None [[1]; [5]; [21]] 109; EUnhCsi None None [[1]; [5]; [21]] 109] /\
  log_of (process p0 [27; 91; 63; 50; 53; 59; 55; 104]) =                   (* CSI ?25;7 h *)
    [EUnhCsi (Some 63) None [[25]; [7]] 104] /\
  log_of (process p0 [65; 27; 91; 72; 27; 91; 50; 74; 27; 91; 51; 49; 109]) = [].
Proof. repeat split; vm_compute; reflexivity. Qed.

(* with the Resizing policy an in-range request is applied, an out-of-range one only reported *)
Example ex_resize_policy :
  match parser_new 24 80 0 true with
  | Ok p =>
    match process p [27; 91; 56; 59; 51; 48; 59; 57; 48; 116], process p [27; 91; 56; 59; 48; 59; 57; 48; 116] with
    | Ok q1, Ok q2 =>
      log q1 = [EResize 30 90] /\ grows (g (scr q1)) = 30 /\ gcols (g (scr q1)) = 90 /\
      log q2 = [EResize 0 90] /\ scr q2 = scr p
    | _, _ => False
    end
  | Panic _ => False
  end.
Proof. vm_compute. repeat split. Qed.
