(* VteInv.v — well-formedness invariant of the vte parser state and its
   preservation by [advance]. *)
Require Import Tac Utf8 Vte.
Open Scope N_scope.

Definition params_clear (p : pstate) : Prop :=
  inter p = [] /\ ignoring p = false /\ groups p = [] /\ opn p = [] /\ param p = 0.

Record pwf (p : pstate) : Prop := mkPwf {
  pwf_osc : vst p <> OscString -> osc_raw p = [] /\ osc_params p = [];
  pwf_esc : vst p = Escape -> params_clear p;
  pwf_partial : partial p <> [] -> vst p = Ground /\ decode1 (partial p) = DIncomplete }.

Lemma pwf_init : pwf p_init.
Proof. split; cbn; intros; try discriminate; try congruence; unfold params_clear; cbn; auto. Qed.

(* partial = [] version used inside the loop *)
Record pwf0 (p : pstate) : Prop := mkPwf0 {
  pwf0_wf : pwf p;
  pwf0_partial : partial p = [] }.

Ltac pwf_solve :=
  match goal with
  | H : pwf0 ?p |- _ => destruct H as [[Ho He Hp] Hp0]
  end.

(* every single-byte transition preserves pwf0 *)
Lemma change_state_pwf0 p b : pwf0 p -> vst p <> Ground -> pwf0 (fst (change_state p b)).
Proof.
  intros [[Ho He Hp] Hp0] Hg.
  unfold change_state.
  destruct (vst p) eqn:Ev; try congruence;
  unfold adv_csi_entry, adv_csi_ignore, adv_csi_intermediate, adv_csi_param, adv_dcs_entry,
         adv_dcs_intermediate, adv_dcs_param, adv_dcs_passthrough, adv_esc, adv_esc_intermediate,
         adv_osc_string, anywhere, csi_dispatch, action_hook, esc_dispatch, osc_end;
  repeat match goal with
  | |- context[if ?c then _ else _] => destruct c eqn:?
  end;
  cbn [fst];
  (split; [split|]);
  unfold set_vst, reset_params, action_collect, action_param, action_subparam, action_paramnext,
         push_param, set_ignoring, set_osc, osc_put_param, osc_put, params_full, params_clear;
  repeat match goal with
  | |- context[if ?c then _ else _] => destruct c eqn:?
  | |- context[match osc_params ?p with _ => _ end] => destruct (osc_params p) eqn:?
  end;
  cbn; rewrite ?Ev; intros; try congruence; try discriminate; auto;
  try (destruct Ho as [-> ->]; [congruence|]; auto);
  try (apply He; assumption).
Qed.


(* ------------------------------------------------------------------ *)
Require Import Utf8Lemmas.

Lemma find_esc_le bs : find_esc bs <= len bs.
Proof.
  induction bs as [|b r IH]; cbn [find_esc]; [unfold len; cbn; lia|].
  rewrite len_cons. destruct (b =? 27); lia.
Qed.

Lemma find_esc_hi pre bs : hi pre -> find_esc (pre ++ bs) = len pre + find_esc bs.
Proof.
  induction 1 as [|b r Hb Hr IH]; cbn [app find_esc]; [rewrite len_nil; lia|].
  rewrite len_cons, IH. destruct (N.eqb_spec b 27); lia.
Qed.

Lemma find_esc_0 bs : find_esc bs = 0 -> bs = [] \/ exists r, bs = 27 :: r.
Proof.
  destruct bs as [|b r]; [auto|]. cbn [find_esc]. destruct (N.eqb_spec b 27); [subst; eauto|lia].
Qed.

Lemma pwf0_enter_escape p : pwf0 p -> vst p = Ground -> pwf0 (enter_escape p).
Proof.
  intros [[Ho He Hp] Hp0] Hg. split; [split|]; cbn; auto; try congruence.
  - intros _. apply Ho. congruence.
  - intros _. unfold params_clear; cbn; auto.
Qed.

Lemma pwf_set_partial p l : pwf p -> vst p = Ground -> decode1 l = DIncomplete -> pwf (set_partial p l).
Proof.
  intros [Ho He Hp] Hg Hd. split; cbn; auto.
Qed.

Lemma pwf0_clear_partial p : pwf p -> pwf0 (set_partial p []).
Proof.
  intros [Ho He Hp]. split; [split|]; cbn; auto; congruence.
Qed.

Lemma pwf0_pwf p : pwf0 p -> pwf p.
Proof. intros [H _]; exact H. Qed.

Lemma advance_ground_inv p bs q a n :
  pwf0 p -> vst p = Ground -> bs <> [] -> advance_ground p bs = (q, a, n) ->
  1 <= n /\ pwf q /\ (partial q = [] \/ len bs <= n).
Proof.
  intros Hw Hg Hne H. unfold advance_ground in H.
  assert (Hlen : 1 <= len bs) by (destruct bs; [congruence|rewrite len_cons; lia]).
  pose proof (find_esc_le bs) as Hfe.
  destruct (N.eqb_spec (find_esc bs) 0) as [E0|E0].
  - inv H. split; [lia|]. pose proof (pwf0_enter_escape p Hw Hg) as [W W0]. auto.
  - destruct (from_utf8 (firstnN (find_esc bs) bs)) as [[chars valid] stop] eqn:F.
    apply from_utf8_spec in F. destruct F as (F1 & F2 & F3).
    rewrite len_firstnN in F1.
    destruct stop.
    + destruct (N.ltb_spec (find_esc bs) (len bs)); inv H.
      * split; [lia|]. pose proof (pwf0_enter_escape p Hw Hg) as [W W0]. auto.
      * split; [lia|]. destruct Hw as [W W0]. auto.
    + inv H. apply decode1_err_inv in F3. split; [lia|]. destruct Hw as [W W0]. auto.
    + destruct (N.ltb_spec (find_esc bs) (len bs)); inv H.
      * split; [lia|]. pose proof (pwf0_enter_escape p Hw Hg) as [W W0]. auto.
      * split; [lia|]. destruct Hw as [W W0]. rewrite W0. cbn [app].
        split; [|right; lia].
        apply pwf_set_partial; auto.
        rewrite firstnN_all in F3 by lia. exact F3.
Qed.

Lemma advance_loop_nil fuel p acc : advance_loop fuel p [] acc = (p, acc).
Proof. destruct fuel; reflexivity. Qed.

Lemma advance_loop_pwf fuel : forall p bs acc,
  pwf p -> (partial p = [] \/ bs = []) -> pwf (fst (advance_loop fuel p bs acc)).
Proof.
  induction fuel as [|fuel IH]; intros p bs acc Hw Hp; cbn [advance_loop]; [exact Hw|].
  destruct bs as [|b rest]; [exact Hw|].
  destruct Hp as [Hp|Hp]; [|discriminate].
  assert (Hw0 : pwf0 p) by (split; auto).
  destruct (vst p) eqn:Ev;
  try (pose proof (change_state_pwf0 p b Hw0 ltac:(congruence)) as [W W0];
       destruct (change_state p b) as [q a]; cbn [fst] in *; apply IH; auto).
  destruct (advance_ground p (b :: rest)) as [[q a] n] eqn:G.
  apply advance_ground_inv in G; auto; [|discriminate].
  destruct G as (G1 & G2 & G3). apply IH; auto.
  destruct G3 as [G3|G3]; [auto|right]. apply skipnN_all. exact G3.
Qed.

Lemma advance_partial_inv p bs q a n :
  pwf p -> partial p <> [] -> advance_partial p bs = (q, a, n) ->
  pwf q /\ (partial q = [] \/ len bs <= n).
Proof.
  intros Hw Hp H. unfold advance_partial in H.
  destruct (pwf_partial p Hw Hp) as [Hg Hd].
  apply decode1_inc_inv in Hd. destruct Hd as (Hl & _).
  set (old := len (partial p)) in *.
  set (to_copy := N.min (len bs) (4 - old)) in *.
  destruct (from_utf8 (partial p ++ firstnN to_copy bs)) as [[chars valid] stop] eqn:F.
  apply from_utf8_spec in F. destruct F as (F1 & F2 & F3).
  pose proof (pwf0_clear_partial p Hw) as [W W0].
  destruct stop.
  - inv H. auto.
  - destruct (0 <? valid) eqn:V; inv H; auto.
  - destruct (N.ltb_spec 0 valid) as [V|V]; [inv H; auto|].
    assert (V0 : valid = 0) by lia. rewrite V0 in F3. rewrite skipnN_0 in F3. inv H.
    split; [apply pwf_set_partial; auto|].
    right. apply decode1_inc_inv in F3. destruct F3 as (F3 & _).
    rewrite len_app, len_firstnN in F3. fold old in F3. lia.
Qed.

Theorem advance_pwf : forall p bs, pwf p -> pwf (fst (advance p bs)).
Proof.
  intros p bs Hw. unfold advance.
  destruct (partial p) as [|x l] eqn:Ep.
  - apply advance_loop_pwf; auto.
  - destruct (advance_partial p bs) as [[q a] n] eqn:A.
    apply advance_partial_inv in A; auto; [|congruence].
    destruct A as [A1 A2]. apply advance_loop_pwf; auto.
    destruct A2 as [A2|A2]; [auto|right]. apply skipnN_all. exact A2.
Qed.
