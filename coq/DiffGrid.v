(* DiffGrid.v — Stage 2 of C02: the body of Grid::write_contents_diff.
   A canvas receiver whose live rows are the visible rows of prev, with prev's cursor, fed the
   tokens of grid_contents_diff, ends with the visible rows of the current grid and its cursor
   (including the pending-wrap column).
   Class: pairs without soft-wrapped visible rows (unwrapped_rows, class U) and, more generally
   (Stage 5), pairs in which every soft-wrapped row is UNTOUCHED: flagged in both grids, cell-wise
   equal in both, and so is the row after it (untouched_wraps, class W). *)
Require Import Tac ListN Utf8 Width Attrs Cell Row Grid Screen Vte Perform Term Emit
  RowInv GridInv TextInv ScreenInv ParseSer CellWf WfGrid WfVte WfInv EraseSpec SgrSpec MoveSpec PrintSpec
  CellBytes EmitSafe WrapInv ObsSpec Recv RowPaint Redraw Cursor DiffPaint.
Open Scope N_scope.

Definition unwrapped_rows (vr : list row) : Prop := Forall (fun rw => wrapped rw = false) vr.

(* a row flagged in either grid is flagged in both, has the same cells in both, and the row after
   it has the same cells in both *)
Definition untouched_wraps (vr pvr : list row) : Prop :=
  forall i src prev, get vr i = Some src -> get pvr i = Some prev ->
    wrapped src = true \/ wrapped prev = true ->
    wrapped src = true /\ wrapped prev = true /\ cells src = cells prev /\
    forall s1 p1, get vr (i + 1) = Some s1 -> get pvr (i + 1) = Some p1 -> cells s1 = cells p1.

Lemma unwrapped_untouched vr pvr : unwrapped_rows vr -> unwrapped_rows pvr -> untouched_wraps vr pvr.
Proof.
  intros Uv Up i src prev G1 G2 [H|H].
  - pose proof (Forall_get _ _ _ _ Uv G1) as E. cbv beta in E. congruence.
  - pose proof (Forall_get _ _ _ _ Up G2) as E. cbv beta in E. congruence.
Qed.

Lemma wrapped_false b : b <> true -> b = false.
Proof. destruct b; congruence. Qed.

(* in class W the flags agree row by row *)
Lemma untouched_flags vr pvr i src prev : untouched_wraps vr pvr ->
  get vr i = Some src -> get pvr i = Some prev -> wrapped src = wrapped prev.
Proof.
  intros H G1 G2. destruct (wrapped src) eqn:E1.
  - destruct (H i src prev G1 G2 (or_introl E1)) as (_ & E & _). now rewrite E.
  - destruct (wrapped prev) eqn:E2; [|reflexivity].
    destruct (H i src prev G1 G2 (or_intror E2)) as (E & _). congruence.
Qed.

(* every row is either identical in both grids, or unflagged in both and preceded by rows
   unflagged in both *)
Lemma untouched_cases vr pvr i src prev : untouched_wraps vr pvr -> len pvr = len vr ->
  get vr i = Some src -> get pvr i = Some prev ->
  src = prev \/
  (wrapped src = false /\ wrapped prev = false /\
   (i = 0 \/ (1 <= i /\ exists s' p', get vr (i - 1) = Some s' /\ get pvr (i - 1) = Some p' /\
                                       wrapped s' = false /\ wrapped p' = false))).
Proof.
  intros H Hl G1 G2.
  destruct (Bool.bool_dec (wrapped src) true) as [E1|E1].
  { destruct (H i src prev G1 G2 (or_introl E1)) as (A & B & C & _). left. apply row_ext; congruence. }
  destruct (Bool.bool_dec (wrapped prev) true) as [E2|E2].
  { destruct (H i src prev G1 G2 (or_intror E2)) as (A & B & C & _). left. apply row_ext; congruence. }
  apply wrapped_false in E1, E2.
  destruct (N.eq_dec i 0) as [->|Hi]; [right; auto|].
  assert (i - 1 < len vr) as Hlt by (apply get_some_lt in G1; lia).
  destruct (get_lt_some vr (i - 1) Hlt) as (s' & Gs). destruct (get_lt_some pvr (i - 1) ltac:(lia)) as (p' & Gp).
  destruct (Bool.bool_dec (wrapped s') true) as [F1|F1].
  { destruct (H (i - 1) s' p' Gs Gp (or_introl F1)) as (_ & _ & _ & Nx).
    replace (i - 1 + 1) with i in Nx by lia. left. apply row_ext; [now apply Nx|congruence]. }
  destruct (Bool.bool_dec (wrapped p') true) as [F2|F2].
  { destruct (H (i - 1) s' p' Gs Gp (or_intror F2)) as (_ & _ & _ & Nx).
    replace (i - 1 + 1) with i in Nx by lia. left. apply row_ext; [now apply Nx|congruence]. }
  apply wrapped_false in F1, F2. right. split; [exact E1|]. split; [exact E2|]. right. split; [lia|].
  exists s', p'. auto.
Qed.

(* the rows loop: rows < i already show the current grid, rows >= i still show prev; the wrap
   carries are the flags of row i-1 *)
Lemma rows_diff_loop_paints R vr pvr : canvas R ->
  Forall (srow_ok (gcols (g R))) vr -> Forall (srow_ok (gcols (g R))) pvr ->
  untouched_wraps vr pvr ->
  len vr = grows (g R) -> len pvr = grows (g R) ->
  forall rest prest i w pw l r c a acc,
    (forall k, k < len rest -> get rest k = get vr (i + k)) ->
    (forall k, k < len rest -> get prest k = get pvr (i + k)) ->
    len prest = len rest -> i + len rest = grows (g R) ->
    ((i = 0 /\ w = false /\ pw = false) \/
     (1 <= i /\ exists s' p', get vr (i - 1) = Some s' /\ get pvr (i - 1) = Some p' /\
                              w = wrapped s' /\ pw = wrapped p')) ->
    cv R l r c -> pen_ok a ->
    (forall k, k < i -> get l k = get vr k) ->
    (forall k, i <= k < grows (g R) -> get l k = get pvr k) ->
    exists ts r' c' a' l',
      rows_diff_loop (gcols (g R)) (zip rest prest) i w pw (r, c) a acc = Ok (acc ++ ts, (r', c'), a') /\
      plays (rcv R l r c a) ts (rcv R l' r' c' a') /\ cv R l' r' c' /\ pen_ok a' /\
      (forall k, k < grows (g R) -> get l' k = get vr k).
Proof.
  intros HR Hvr Hpvr HW Lvr Lpvr.
  induction rest as [|src rest IH]; intros prest i w pw l r c a acc Hseg Hpseg Hlp Hlen Hcar Hcv Pa Hdone Htodo.
  - rewrite len_nil in Hlen. exists [], r, c, a, l. cbn [zip rows_diff_loop]. rewrite app_nil_r.
    split; [reflexivity|]. split; [apply plays_nil|]. split; [exact Hcv|]. split; [exact Pa|].
    intros k Hk. apply Hdone. lia.
  - destruct prest as [|prev prest]; [rewrite len_nil, len_cons in Hlp; lia|].
    rewrite !len_cons in *. cbn [zip rows_diff_loop].
    assert (get vr i = Some src) as Hsrc.
    { specialize (Hseg 0 ltac:(lia)). replace (i + 0) with i in Hseg by lia. rewrite <- Hseg. reflexivity. }
    assert (get pvr i = Some prev) as Hprev.
    { specialize (Hpseg 0 ltac:(lia)). replace (i + 0) with i in Hpseg by lia. rewrite <- Hpseg. reflexivity. }
    pose proof (Forall_get _ _ _ _ Hvr Hsrc) as Sok. pose proof (Forall_get _ _ _ _ Hpvr Hprev) as Pok.
    assert (get l i = Some prev) as Gi by (rewrite Htodo by lia; exact Hprev).
    assert (w = pw) as Ewpw.
    { destruct Hcar as [(_ & -> & ->)|(_ & s' & p' & Gs & Gp & -> & ->)]; [reflexivity|].
      exact (untouched_flags vr pvr (i - 1) s' p' HW Gs Gp). }
    (* the tail of the loop, common to both cases *)
    assert (forall l1 r1 c1 a1 ts, cv R l1 r1 c1 -> pen_ok a1 -> plays (rcv R l r c a) ts (rcv R l1 r1 c1 a1) ->
              get l1 i = Some src -> (forall k, k <> i -> get l1 k = get l k) ->
              exists ts2 r' c' a' l',
                rows_diff_loop (gcols (g R)) (zip rest prest) (i + 1) (wrapped src) (wrapped prev) (r1, c1) a1 (acc ++ ts)
                  = Ok ((acc ++ ts) ++ ts2, (r', c'), a') /\
                plays (rcv R l r c a) (ts ++ ts2) (rcv R l' r' c' a') /\ cv R l' r' c' /\ pen_ok a' /\
                (forall k, k < grows (g R) -> get l' k = get vr k)) as Tail.
    { intros l1 r1 c1 a1 ts C1 Pa1 P1 G1 Oth.
      destruct (IH prest (i + 1) (wrapped src) (wrapped prev) l1 r1 c1 a1 (acc ++ ts))
        as (ts2 & r2 & c2 & a2 & l2 & E2 & P2 & C2 & Pa2 & Hall); auto.
      { intros k Hk. specialize (Hseg (k + 1) ltac:(lia)). rewrite get_cons in Hseg.
        destruct (N.eqb_spec (k + 1) 0); [lia|]. replace (k + 1 - 1) with k in Hseg by lia.
        replace (i + 1 + k) with (i + (k + 1)) by lia. exact Hseg. }
      { intros k Hk. specialize (Hpseg (k + 1) ltac:(lia)). rewrite get_cons in Hpseg.
        destruct (N.eqb_spec (k + 1) 0); [lia|]. replace (k + 1 - 1) with k in Hpseg by lia.
        replace (i + 1 + k) with (i + (k + 1)) by lia. exact Hpseg. }
      { lia. } { lia. }
      { right. split; [lia|]. exists src, prev. replace (i + 1 - 1) with i by lia. auto. }
      { intros k Hk. destruct (N.eq_dec k i) as [->|Hne]; [now rewrite G1, Hsrc|]. rewrite Oth by exact Hne. apply Hdone. lia. }
      { intros k Hk. rewrite Oth by lia. apply Htodo. lia. }
      exists ts2, r2, c2, a2, l2. split; [exact E2|]. split; [eapply plays_app; eauto|]. auto. }
    destruct (untouched_cases vr pvr i src prev HW ltac:(congruence) Hsrc Hprev) as [Eq|(Us & Upv & Hprevrow)].
    + (* the row is the same in both grids: nothing is emitted *)
      subst prev. rewrite Ewpw, row_diff_self. cbn [bind].
      rewrite (clears_wrap_self (gcols (g R)) src (row_wf_wide_full src (sr_wf _ _ Sok))). cbn [negb]. rewrite andb_true_r.
      destruct (Tail l r c a [] Hcv Pa (plays_nil _) Gi ltac:(auto)) as (ts2 & r2 & c2 & a2 & l2 & E2 & P2 & C2 & Pa2 & Hall).
      rewrite !app_nil_r in E2. cbn [app] in P2. rewrite app_nil_r.
      exists ts2, r2, c2, a2, l2. auto.
    + (* unflagged in both, no wrap carry: the row painter *)
      assert (w = false) as ->.
      { destruct Hcar as [(_ & -> & _)|(Hi1 & s' & p' & Gs & Gp & -> & _)]; [reflexivity|].
        destruct Hprevrow as [->|(_ & s2 & p2 & Gs2 & _ & F & _)]; [lia|]. congruence. }
      subst pw.
      destruct (row_diff_paints_eq R i src prev l r c a ltac:(lia) Sok Pok Hcv Pa Gi Us Upv)
        as (ts & r1 & c1 & a1 & -> & P1 & C1 & Pa1).
      cbn [bind].
      replace (wrapped prev && negb (clears_wrap (gcols (g R)) src prev)) with (wrapped prev) by (rewrite Upv; reflexivity).
      assert (len l = grows (g R)) as Ll by apply Hcv.
      destruct (Tail (set_at l i src) r1 c1 a1 ts C1 Pa1 P1) as (ts2 & r2 & c2 & a2 & l2 & E2 & P2 & C2 & Pa2 & Hall).
      { rewrite get_set_at. destruct (N.eqb_spec i i); [|lia]. destruct (N.ltb_spec i (len l)); [reflexivity|lia]. }
      { intros k Hk. rewrite get_set_at. destruct (N.eqb_spec k i); [lia|reflexivity]. }
      exists (ts ++ ts2), r2, c2, a2, l2. rewrite E2, app_assoc. auto.
Qed.

(* the grid part of contents_diff, class W *)
Theorem grid_diff_plays_W R x px vr pvr pa :
  canvas R -> vrows_ok (gcols (g R)) vr -> Forall (srow_ok (gcols (g R))) pvr ->
  untouched_wraps vr pvr ->
  visible_rows x = Ok vr -> visible_rows px = Ok pvr ->
  len vr = grows (g R) -> len pvr = grows (g R) -> gcols x = gcols (g R) ->
  prow x < grows (g R) -> pcol x <= gcols (g R) ->
  cv R pvr (prow px) (pcol px) -> pen_ok pa ->
  exists ts a' R2,
    grid_contents_diff x px pa = Ok (ts, a') /\
    plays (rcv R pvr (prow px) (pcol px) pa) ts (rcv R2 vr (prow x) (pcol x) a') /\
    cv R2 vr (prow x) (pcol x) /\ same_base R R2 /\ pen_ok a'.
Proof.
  intros HR Hvr Hpvr HW Hv Hpv Lvr Lpvr Hgc Hpr Hpc Hcv Pa.
  destruct (rows_diff_loop_paints R vr pvr HR (proj1 Hvr) Hpvr HW Lvr Lpvr vr pvr 0 false false pvr (prow px) (pcol px) pa [])
    as (ts1 & r1 & c1 & a1 & l1 & E1 & P1 & C1 & Pa1 & Hall).
  { intros k Hk. replace (0 + k) with k by lia. reflexivity. }
  { intros k Hk. replace (0 + k) with k by lia. reflexivity. }
  { lia. } { lia. } { left. auto. } { exact Hcv. } { exact Pa. }
  { intros k Hk. lia. }
  { intros k Hk. reflexivity. }
  cbn [app] in E1.
  assert (l1 = vr) as ->.
  { apply list_ext_get. intros k. destruct (N.lt_ge_cases k (grows (g R))) as [Hk|Hk]; [now apply Hall|].
    assert (get l1 k = None) as ->.
    { apply get_none_ge. assert (len l1 = grows (g R)) as -> by apply C1. exact Hk. }
    symmetry. apply get_none_ge. lia. }
  assert (rows_agree vr vr (grows (g R))) as Hag.
  { intros k Hk. destruct (get_lt_some vr k) as (rw & Hrw); [lia|]. exists rw, rw. auto. }
  destruct (cursor_fixup R vr r1 c1 a1 x vr C1 Pa1 Hag Hvr Lvr Hv Hgc Hpr Hpc) as (ts2 & R2 & E2 & P2 & C2 & SB).
  unfold grid_contents_diff. rewrite Hv, Hpv. cbn [bind]. rewrite Hgc, E1. cbn [bind]. rewrite E2. cbn [bind].
  exists (ts1 ++ ts2), a1, R2. split; [reflexivity|]. split; [eapply plays_app; eauto|]. auto.
Qed.

(* class U *)
Corollary grid_diff_plays R x px vr pvr pa :
  canvas R -> vrows_ok (gcols (g R)) vr -> Forall (srow_ok (gcols (g R))) pvr ->
  unwrapped_rows vr -> unwrapped_rows pvr ->
  visible_rows x = Ok vr -> visible_rows px = Ok pvr ->
  len vr = grows (g R) -> len pvr = grows (g R) -> gcols x = gcols (g R) ->
  prow x < grows (g R) -> pcol x <= gcols (g R) ->
  cv R pvr (prow px) (pcol px) -> pen_ok pa ->
  exists ts a' R2,
    grid_contents_diff x px pa = Ok (ts, a') /\
    plays (rcv R pvr (prow px) (pcol px) pa) ts (rcv R2 vr (prow x) (pcol x) a') /\
    cv R2 vr (prow x) (pcol x) /\ same_base R R2 /\ pen_ok a'.
Proof.
  intros HR Hvr Hpvr Uv Up. apply grid_diff_plays_W; auto. now apply unwrapped_untouched.
Qed.
