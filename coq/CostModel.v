(* CostModel.v — cost-instrumented copies of the looping operations of
   Row.v / Grid.v / Screen.v / Perform.v, and the proof that each of them
   ERASES to the model function (first component = the model's result).

   ABSTRACT WORK MEASURE OF THE MODEL.  Each [f_c] below is the model function
   [f] rewritten in the counting monad of CostMonad.v: every [bind] became
   [bindc], every [iter_res]/[for_range]/[map] became [iter_c]/[for_range_c]/
   [map_c] with the SAME iteration-count expression and the same step, and the
   primitive vector operations are charged as follows (one unit = one cell or
   one row pointer moved/written):

     Vec::remove  on a vector of length L                 L
     Vec::insert  on a vector of length L                 L + 1
     Row::new(cols)                                       cols
     Row::clear / map over the cells of a row             row length
     Row::erase, one cell write, one row-flag write       1
     Row::truncate / Row::resize from length L to n       |L - n| + 1
     VecDeque push_back + pop_front (scrollback)          2
     Grid::allocate_rows (when not yet allocated)         rows * cols
     Screen::text: text_place <= 8 cell writes            8   (text_zero: 2)
     one DECSET/DECRST parameter, one SGR loop iteration  1
     one call of the `unhandled` callback                 1
     dispatch of one action                               1

   Loop-free cursor arithmetic is lifted with [free] (cost 0 beyond the
   dispatch unit).  The theorems [fst_*_c] state  fst (f_c args) = f args :
   the instrumented program computes exactly the model function, so the
   number of iterations it charges is the number the model performs.  The
   relation between these units and CPU time is MEASURED by the test oracle
   (CPU-time cost oracle), not proved. *)
Require Import Tac ListN Utf8 Width Attrs Cell Row Grid Screen Vte Perform CostMonad.
Open Scope N_scope.

(* ================= Row ================= *)
Definition absdiff (a b : N) : N := (a - b) + (b - a).

Definition row_erase_c (r : row) (i : N) (a : attrs) : cres row := charge 1 (row_erase r i a).
Definition row_insert_c (r : row) (i : N) (c : cell) : cres row :=
  charge (row_cols r + 1) (row_insert r i c).
Definition row_remove_c (r : row) (i : N) : cres row := charge (row_cols r) (row_remove r i).
Definition row_truncate_c (r : row) (n : N) : cres row :=
  charge (absdiff (row_cols r) n + 1) (row_truncate r n).
Definition row_resize_cost (r : row) (n : N) : N := absdiff (row_cols r) n + 1.

(* ================= Grid ================= *)
Definition upd_row_c (g : grid) (r : N) (f : row -> cres row) : cres grid :=
  doc rw <- free (unwrap (drawing_row g r));
  doc rw' <- f rw;
  charge 1 (Ok (with_live g (set_at (live g) r rw'))).

Definition erase_all_c (g : grid) (a : attrs) : cres grid :=
  let m := map_c (row_clear a) row_cols (live g) in
  charge (snd m) (Ok (with_live g (fst m))).

Definition erase_row_forward_c (g : grid) (a : attrs) : cres grid :=
  upd_row_c g (prow g) (fun rw =>
    for_range_c (N.to_nat (gcols g - pcol g)) (pcol g) (fun col r => row_erase_c r col a) rw).

Definition erase_row_backward_c (g : grid) (a : attrs) : cres grid :=
  doc m <- free (sub16 (gcols g) 1);
  upd_row_c g (prow g) (fun rw =>
    for_range_c (S (N.to_nat (N.min (pcol g) m))) 0 (fun col r => row_erase_c r col a) rw).

Definition erase_all_forward_c (g : grid) (a : attrs) : cres grid :=
  let k := S (N.to_nat (prow g)) in
  let m := map_c (row_clear a) row_cols (skipn k (live g)) in
  let g1 := with_live g (firstn k (live g) ++ fst m) in
  tick (snd m) (erase_row_forward_c g1 a).

Definition erase_all_backward_c (g : grid) (a : attrs) : cres grid :=
  let k := N.to_nat (prow g) in
  let m := map_c (row_clear a) row_cols (firstn k (live g)) in
  let g1 := with_live g (fst m ++ skipn k (live g)) in
  tick (snd m) (erase_row_backward_c g1 a).

Definition erase_row_c (g : grid) (a : attrs) : cres grid :=
  upd_row_c g (prow g) (fun rw => charge (row_cols rw) (Ok (row_clear a rw))).

Definition erase_cells_c (g : grid) (count : N) (a : attrs) : cres grid :=
  let hi := N.min (sat_add16 (pcol g) count) (gcols g) in
  upd_row_c g (prow g) (fun rw =>
    for_range_c (N.to_nat (hi - pcol g)) (pcol g) (fun col r => row_erase_c r col a) rw).

Definition ins_step_c (wide : bool) (p : N) (r : row) : cres row :=
  doc r1 <- (if wide then charge 1 (row_upd r p (cell_set_cont false)) else free (Ok r));
  doc r2 <- row_insert_c r1 p cell_new;
  (if wide then charge 1 (row_upd r2 p (cell_set_cont true)) else free (Ok r2)).

Definition insert_cells_c (g : grid) (count : N) : cres grid :=
  doc wide <- free (if pcol g <? gcols g
              then do c <- unwrap (drawing_cell g (prow g) (pcol g)); Ok (ccont c)
              else Ok false);
  doc room <- free (sub16 (gcols g) (pcol g));
  upd_row_c g (prow g) (fun rw =>
    doc rw' <- iter_c (N.to_nat (N.min count room)) (ins_step_c wide (pcol g)) rw;
    row_truncate_c rw' (gcols g)).

Definition delete_cells_c (g : grid) (count : N) : cres grid :=
  doc room <- free (sub16 (gcols g) (pcol g));
  upd_row_c g (prow g) (fun rw =>
    doc rw' <- iter_c (N.to_nat (N.min count room)) (fun r => row_remove_c r (pcol g)) rw;
    charge (row_resize_cost rw' (gcols g)) (Ok (row_resize rw' (gcols g) cell_new))).

(* one iteration of the IL / SD loop (pos = cursor row for IL, top margin for SD) *)
Definition il_step_c (g : grid) (pos : N) (l : list row) : cres (list row) :=
  doc '(_, l1) <- charge (len l) (remove_at l (bot g));
  doc l2 <- charge (gcols g + (len l1 + 1)) (insert_at l1 pos (new_row g));
  charge 1 (wrap_false_at l2 (bot g)).

Definition insert_lines_c (g : grid) (count : N) : cres grid :=
  doc l <- iter_c (N.to_nat count) (il_step_c g (prow g)) (live g);
  free (Ok (with_live g l)).

Definition dl_step_c (g : grid) (l : list row) : cres (list row) :=
  doc l1 <- charge (gcols g + (len l + 1)) (insert_at l (bot g + 1) (new_row g));
  doc '(_, l2) <- charge (len l1) (remove_at l1 (prow g));
  free (Ok l2).

Definition delete_lines_c (g : grid) (count : N) : cres grid :=
  doc room <- free (sub16 (grows g) (prow g));
  doc l <- iter_c (N.to_nat (N.min count room)) (dl_step_c g) (live g);
  free (Ok (with_live g l)).

Definition su_step_c (active : bool) (g : grid) : cres grid :=
  doc l1 <- charge (gcols g + (len (live g) + 1)) (insert_at (live g) (bot g + 1) (new_row g));
  doc '(removed, l2) <- charge (len l1) (remove_at l1 (top g));
  let g1 := with_live g l2 in
  if (0 <? sb_cap g1) && negb active then
    let s := trim_front (sb g1 ++ [removed]) (sb_cap g1) in
    let off := if 0 <? sb_off g1 then N.min (len s) (sb_off g1 + 1) else sb_off g1 in
    charge 2 (Ok (with_sb g1 s off))
  else free (Ok g1).

Definition scroll_up_c (g : grid) (count : N) : cres grid :=
  doc room <- free (sub16 (grows g) (top g));
  doc active <- free (scroll_region_active g);
  iter_c (N.to_nat (N.min count room)) (su_step_c active) g.

Definition scroll_down_c (g : grid) (count : N) : cres grid :=
  doc l <- iter_c (N.to_nat count) (il_step_c g (top g)) (live g);
  free (Ok (with_live g l)).

Definition row_inc_scroll_c (g : grid) (count : N) : cres (grid * N) :=
  let inr := in_scroll_region g in
  doc '(g1, lines) <- free (row_clamp_bottom (with_prow g (sat_add16 (prow g) count)) inr);
  if inr then doc g2 <- scroll_up_c g1 lines; free (Ok (g2, lines)) else free (Ok (g1, 0)).

Definition row_dec_scroll_c (g : grid) (count : N) : cres grid :=
  let inr := in_scroll_region g in
  let extra := if prow g <? count then count - prow g else 0 in
  let '(g1, lines) := row_clamp_top (with_prow g (sat_sub16 (prow g) count)) inr in
  doc n <- free (add16 lines extra);
  scroll_down_c g1 n.

Definition col_wrap_c (g : grid) (width : N) (wrap : bool) : cres grid :=
  doc lim <- free (sub16 (gcols g) width);
  if lim <? pcol g then
    let prev_row := prow g in
    doc '(g1, scrolled) <- row_inc_scroll_c (with_pcol g 0) 1;
    if scrolled <=? prev_row then
      let pr := prev_row - scrolled in
      doc pr1 <- free (add16 pr 1);
      charge 1 (upd_row g1 pr (fun rw => Ok (row_wrap (wrap && (pr1 =? prow g1)) rw)))
    else free (Ok g1)
  else free (Ok g).

Definition grid_clear_c (g : grid) : cres grid :=
  doc b <- free (sub16 (grows g) 1);
  let m := map_c (row_clear dflt) row_cols (live g) in
  charge (snd m)
    (Ok (mkGrid (grows g) (gcols g) 0 0 0 0 (fst m) 0 b false false (sb g) (sb_cap g) (sb_off g))).

Definition allocate_rows_c (g : grid) : cres grid :=
  match live g with
  | [] => charge (grows g * gcols g) (Ok (allocate_rows g))
  | _ => free (Ok (allocate_rows g))
  end.

(* Grid::set_size is loop-free apart from its maps: one row-flag write per
   row when the width changes, one Row::resize per row, then Vec::resize of
   the row vector (new rows cost cols + 1 each, dropped rows 1 each) *)
Definition grid_set_size_cost (g : grid) (rows cols : N) : N :=
  (if negb (cols =? gcols g) then len (live g) else 0)
  + snd (map_c (fun r => row_resize r cols cell_new) (fun r => row_resize_cost r cols) (live g))
  + (rows - len (live g)) * (cols + 1) + (len (live g) - rows) + 1.

Definition grid_set_size_c (g : grid) (rows cols : N) : cres grid :=
  charge (grid_set_size_cost g rows cols) (grid_set_size g rows cols).

(* ================= Screen ================= *)
Definition on_cur_c (s : screen) (f : grid -> cres grid) : cres screen :=
  doc x <- f (cur s); free (Ok (with_cur s x)).

Definition screen_set_size_c (s : screen) (rows cols : N) : cres screen :=
  doc g1 <- grid_set_size_c (g s) rows cols;
  doc a1 <- grid_set_size_c (alt s) rows cols;
  free (Ok (with_alt (with_g s g1) a1)).

Definition screen_new_c (rows cols cap : N) : cres screen :=
  doc g0 <- free (grid_new rows cols cap);
  doc a0 <- free (grid_new rows cols 0);
  doc g1 <- allocate_rows_c g0;
  free (Ok (mkScreen g1 a0 dflt dflt false false false false false MNone EDefault)).

Definition enter_alternate_grid_c (s : screen) : cres screen :=
  let s1 := with_cur s (grid_set_scrollback (cur s) 0) in
  let s2 := with_altmode s1 true in
  doc a <- allocate_rows_c (alt s2);
  free (Ok (with_alt s2 a)).

Definition grid_text_c (x : grid) (ch : N) (a : attrs) : cres grid :=
  let w := wd ch in
  match w, ch <? 256 with
  | None, true => free (Ok x)
  | _, _ =>
    let width := match w with Some n => n | None => 1 end in
    if gcols x <? width then free (Ok x)
    else
      doc lim <- free (sub16 (gcols x) width);
      doc wrap <- free (if lim <? pcol x then
                    do lastc <- sub16 (gcols x) 1;
                    do lc <- unwrap (drawing_cell x (prow x) lastc);
                    Ok (has_contents lc || ccont lc)
                  else Ok false);
      doc x1 <- col_wrap_c x width wrap;
      if width =? 0 then charge 2 (text_zero x1 ch) else charge 8 (text_place x1 ch width a)
  end.

Definition scr_text_c (s : screen) (ch : N) : cres screen :=
  on_cur_c s (fun x => grid_text_c x ch (pen s)).
Definition scr_lf_c s := on_cur_c s (fun x => doc '(x1, _) <- row_inc_scroll_c x 1; free (Ok x1)).
Definition scr_ri_c s := on_cur_c s (fun x => row_dec_scroll_c x 1).
Definition scr_ris_c (s : screen) : cres screen :=
  screen_new_c (grows (g s)) (gcols (g s)) (sb_cap (g s)).

Definition scr_ich_c s n := on_cur_c s (fun x => insert_cells_c x n).
Definition scr_il_c s n := on_cur_c s (fun x => insert_lines_c x n).
Definition scr_dl_c s n := on_cur_c s (fun x => delete_lines_c x n).
Definition scr_dch_c s n := on_cur_c s (fun x => delete_cells_c x n).
Definition scr_su_c s n := on_cur_c s (fun x => scroll_up_c x n).
Definition scr_sd_c s n := on_cur_c s (fun x => scroll_down_c x n).
Definition scr_ech_c s n := on_cur_c s (fun x => erase_cells_c x n (pen s)).

Definition scr_ed_c (s : screen) (mode : N) : cres (screen * N) :=
  if mode =? 0 then doc s1 <- on_cur_c s (fun x => erase_all_forward_c x (pen s)); free (Ok (s1, 0))
  else if mode =? 1 then doc s1 <- on_cur_c s (fun x => erase_all_backward_c x (pen s)); free (Ok (s1, 0))
  else if mode =? 2 then doc s1 <- on_cur_c s (fun x => erase_all_c x (pen s)); free (Ok (s1, 0))
  else free (Ok (s, 1)).
Definition scr_el_c (s : screen) (mode : N) : cres (screen * N) :=
  if mode =? 0 then doc s1 <- on_cur_c s (fun x => erase_row_forward_c x (pen s)); free (Ok (s1, 0))
  else if mode =? 1 then doc s1 <- on_cur_c s (fun x => erase_row_backward_c x (pen s)); free (Ok (s1, 0))
  else if mode =? 2 then doc s1 <- on_cur_c s (fun x => erase_row_c x (pen s)); free (Ok (s1, 0))
  else free (Ok (s, 1)).

(* DECSET / DECRST: one unit per parameter; only 47 (allocate the alternate
   grid) and 1049 (clear + allocate it) do more than O(1) work *)
Definition decset1_c (s : screen) (p : list N) : cres (screen * N) :=
  tick 1
  match single p with
  | None => free (decset1 s p)
  | Some n =>
    if n =? 47 then doc s1 <- enter_alternate_grid_c s; free (Ok (s1, 0))
    else if n =? 1049 then
      let s1 := scr_save_cursor s in
      doc a1 <- grid_clear_c (alt s1);
      doc s2 <- enter_alternate_grid_c (with_alt s1 a1);
      free (Ok (s2, 0))
    else free (decset1 s p)
  end.

Definition decrst1_c (s : screen) (p : list N) : cres (screen * N) := charge 1 (decrst1 s p).

Fixpoint fold_params_c (f : screen -> list N -> cres (screen * N)) (ps : list (list N))
         (s : screen) (n : N) : cres (screen * N) :=
  match ps with
  | [] => free (Ok (s, n))
  | p :: ps => doc '(s1, k) <- f s p; fold_params_c f ps s1 (n + k)
  end.
Definition scr_decset_c s ps := fold_params_c decset1_c ps s 0.
Definition scr_decrst_c s ps := fold_params_c decrst1_c ps s 0.

(* SGR: one unit per loop iteration *)
Fixpoint sgr_loop_c (fuel : nat) (ps : list (list N)) (a : attrs) (unh : N) : (attrs * N) * N :=
  match fuel with
  | O => ((a, unh), 0)
  | S fuel =>
    match ps with
    | [] => ((a, unh), 0)
    | p :: rest =>
      match sgr1 p rest a with
      | SCont a' rest' k => let m := sgr_loop_c fuel rest' a' (unh + k) in (fst m, 1 + snd m)
      | SStop a' k => ((a', unh + k), 1)
      end
    end
  end.

Definition sgr_c (ps : list (list N)) (a : attrs) : (attrs * N) * N :=
  match ps with
  | [] => ((dflt, 0), 0)
  | _ => sgr_loop_c (length ps) ps a 0
  end.

Definition scr_sgr_c (s : screen) (ps : list (list N)) : cres (screen * N) :=
  let m := sgr_c ps (pen s) in
  charge (snd m) (Ok (let '(a, k) := fst m in (with_pen s a, k))).

(* ================= Perform ================= *)
Definition noev_c (r : cres screen) : cres (screen * list event) := doc s <- r; free (Ok (s, [])).

Definition do_execute_c (s : screen) (b : N) : cres (screen * list event) :=
  if b =? 7 then free (Ok (s, [EBell]))
  else if b =? 8 then noev_c (free (scr_bs s))
  else if b =? 9 then noev_c (free (scr_tab s))
  else if (b =? 10) || (b =? 11) || (b =? 12) then noev_c (scr_lf_c s)
  else if b =? 13 then noev_c (free (scr_cr s))
  else if (b =? 14) || (b =? 15) then free (Ok (s, []))
  else free (Ok (s, [EUnhControl b])).

Definition do_print_c (s : screen) (c : N) : cres (screen * list event) :=
  if (128 <=? c) && (c <? 160) then do_execute_c s c
  else if c =? REPL then free (Ok (s, [EUnhChar c]))
  else noev_c (scr_text_c s c).

Definition do_esc_c (s : screen) (inter : list N) (b : N) : cres (screen * list event) :=
  match inter with
  | _ :: _ => free (do_esc s inter b)
  | [] =>
    if b =? 77 then noev_c (scr_ri_c s)
    else if b =? 99 then noev_c (scr_ris_c s)
    else free (do_esc s inter b)
  end.

(* k calls of the `unhandled` callback *)
Definition unh_c (unh : event) (r : cres (screen * N)) : cres (screen * list event) :=
  doc '(s1, k) <- r; charge k (Ok (s1, repeat_ev k unh)).

Definition do_csi_c (resizing : bool) (s : screen) (ps : list (list N)) (inter : list N) (c : N)
  : cres (screen * list event) :=
  let unh := EUnhCsi (nth_inter inter 0) (nth_inter inter 1) ps c in
  match inter with
  | [] =>
    if c =? 64 then noev_c (scr_ich_c s (canon1 ps 1))
    else if c =? 65 then noev_c (free (scr_cuu s (canon1 ps 1)))
    else if c =? 66 then noev_c (free (scr_cud s (canon1 ps 1)))
    else if c =? 67 then noev_c (free (scr_cuf s (canon1 ps 1)))
    else if c =? 68 then noev_c (free (scr_cub s (canon1 ps 1)))
    else if c =? 69 then noev_c (free (scr_cnl s (canon1 ps 1)))
    else if c =? 70 then noev_c (free (scr_cpl s (canon1 ps 1)))
    else if c =? 71 then noev_c (free (scr_cha s (canon1 ps 1)))
    else if c =? 72 then let '(r, cc) := canon2 ps 1 1 in noev_c (free (scr_cup s r cc))
    else if c =? 74 then unh_c unh (scr_ed_c s (canon1 ps 0))
    else if c =? 75 then unh_c unh (scr_el_c s (canon1 ps 0))
    else if c =? 76 then noev_c (scr_il_c s (canon1 ps 1))
    else if c =? 77 then noev_c (scr_dl_c s (canon1 ps 1))
    else if c =? 80 then noev_c (scr_dch_c s (canon1 ps 1))
    else if c =? 83 then noev_c (scr_su_c s (canon1 ps 1))
    else if c =? 84 then noev_c (scr_sd_c s (canon1 ps 1))
    else if c =? 88 then noev_c (scr_ech_c s (canon1 ps 1))
    else if c =? 100 then noev_c (free (scr_vpa s (canon1 ps 1)))
    else if c =? 109 then unh_c unh (scr_sgr_c s ps)
    else if c =? 114 then
      let '(t, b) := canon2 ps 1 (grows (cur s)) in noev_c (free (scr_decstbm s t b))
    else if c =? 116 then
      match ps with
      | (op :: _) :: rest =>
        if op =? 8 then
          let sr := grows (cur s) in
          let sc := gcols (cur s) in
          let r := match rest with (x :: _) :: _ => x | _ => sr end in
          let cc := match rest with _ :: (x :: _) :: _ => x | _ => sc end in
          if resizing && (1 <=? r) && (r <=? 512) && (1 <=? cc) && (cc <=? 512)
          then doc s1 <- screen_set_size_c s r cc; free (Ok (s1, [EResize r cc]))
          else free (Ok (s, [EResize r cc]))
        else free (Ok (s, [EUnhCsi None None ps c]))
      | _ => free (Ok (s, [EUnhCsi None None ps c]))
      end
    else free (Ok (s, [EUnhCsi None None ps c]))
  | i :: _ =>
    if i =? 63 then
      if c =? 74 then unh_c unh (scr_ed_c s (canon1 ps 0))
      else if c =? 75 then unh_c unh (scr_el_c s (canon1 ps 0))
      else if c =? 104 then unh_c unh (scr_decset_c s ps)
      else if c =? 108 then unh_c unh (scr_decrst_c s ps)
      else free (Ok (s, [unh]))
    else free (Ok (s, [unh]))
  end.

Definition perform_c (resizing : bool) (s : screen) (a : action) : cres (screen * list event) :=
  tick 1
  match a with
  | APrint c => do_print_c s c
  | AExecute b => do_execute_c s b
  | AHook _ _ _ _ | APut _ | AUnhook => free (Ok (s, []))
  | AOsc ps _ => free (Ok (do_osc s ps))
  | ACsi ps inter _ c => do_csi_c resizing s ps inter c
  | AEsc inter _ b => do_esc_c s inter b
  end.

(* THE cost of one action on a screen: the counter of the instrumented [perform].
   [resizing] is the harness's callback policy of Perform.v (whether the
   application's resize callback calls Screen::set_size). *)
Definition action_cost (resizing : bool) (s : screen) (a : action) : N := snd (perform_c resizing s a).

(* ================= erasure theorems ================= *)
Ltac era1 :=
  repeat first
    [ rewrite fst_bindc | rewrite fst_free | rewrite fst_charge | rewrite fst_tick ].
Ltac era :=
  era1; try reflexivity;
  try (apply bind_cong; [try reflexivity | let a := fresh "a" in intros a;
         try match type of a with (_ * _)%type => destruct a; cbv beta iota end; era ]).

Lemma fst_upd_row_c x r f : fst (upd_row_c x r f) = upd_row x r (fun rw => fst (f rw)).
Proof. unfold upd_row_c, upd_row. era. Qed.

Lemma upd_row_ext x r f h : (forall rw, f rw = h rw) -> upd_row x r f = upd_row x r h.
Proof. intros H. unfold upd_row. apply bind_ext. intros rw. now rewrite H. Qed.

Lemma fst_upd_row_c_model x r f h : (forall rw, fst (f rw) = h rw) -> fst (upd_row_c x r f) = upd_row x r h.
Proof. intros H. rewrite fst_upd_row_c. now apply upd_row_ext. Qed.

Lemma fst_erase_all_c x a : fst (erase_all_c x a) = Ok (erase_all x a).
Proof. unfold erase_all_c, erase_all. cbn [fst charge]. now rewrite fst_map_c. Qed.

Lemma fst_erase_row_forward_c x a : fst (erase_row_forward_c x a) = erase_row_forward x a.
Proof.
  unfold erase_row_forward_c, erase_row_forward, upd_current_row.
  apply fst_upd_row_c_model. intros rw. now apply fst_for_range_c_model.
Qed.

Lemma fst_erase_row_backward_c x a : fst (erase_row_backward_c x a) = erase_row_backward x a.
Proof.
  unfold erase_row_backward_c, erase_row_backward, upd_current_row. era.
  apply fst_upd_row_c_model. intros rw. now apply fst_for_range_c_model.
Qed.

Lemma fst_erase_all_forward_c x a : fst (erase_all_forward_c x a) = erase_all_forward x a.
Proof.
  unfold erase_all_forward_c, erase_all_forward. rewrite fst_tick, fst_erase_row_forward_c.
  now rewrite fst_map_c.
Qed.

Lemma fst_erase_all_backward_c x a : fst (erase_all_backward_c x a) = erase_all_backward x a.
Proof.
  unfold erase_all_backward_c, erase_all_backward. rewrite fst_tick, fst_erase_row_backward_c.
  now rewrite fst_map_c.
Qed.

Lemma fst_erase_row_c x a : fst (erase_row_c x a) = erase_row x a.
Proof. unfold erase_row_c, erase_row, upd_current_row. now apply fst_upd_row_c_model. Qed.

Lemma fst_erase_cells_c x n a : fst (erase_cells_c x n a) = erase_cells x n a.
Proof.
  unfold erase_cells_c, erase_cells, upd_current_row.
  apply fst_upd_row_c_model. intros rw. now apply fst_for_range_c_model.
Qed.

Lemma fst_ins_step_c w p r : fst (ins_step_c w p r) = ins_step w p r.
Proof.
  unfold ins_step_c, ins_step, row_insert_c. destruct w; era.
Qed.

Lemma fst_insert_cells_c x n : fst (insert_cells_c x n) = insert_cells x n.
Proof.
  unfold insert_cells_c, insert_cells, upd_current_row. era.
  apply fst_upd_row_c_model. intros rw. era.
  apply fst_iter_c_model. apply fst_ins_step_c.
Qed.

Lemma fst_delete_cells_c x n : fst (delete_cells_c x n) = delete_cells x n.
Proof.
  unfold delete_cells_c, delete_cells, upd_current_row. era.
  apply fst_upd_row_c_model. intros rw. era.
  now apply fst_iter_c_model.
Qed.

Lemma fst_il_step_c x pos l :
  fst (il_step_c x pos l) =
  (do '(_, l1) <- remove_at l (bot x); do l2 <- insert_at l1 pos (new_row x); wrap_false_at l2 (bot x)).
Proof. unfold il_step_c. era. Qed.

Lemma fst_insert_lines_c x n : fst (insert_lines_c x n) = insert_lines x n.
Proof.
  unfold insert_lines_c, insert_lines. era.
  apply fst_iter_c_model. intros l. apply fst_il_step_c.
Qed.

Lemma fst_scroll_down_c x n : fst (scroll_down_c x n) = scroll_down x n.
Proof.
  unfold scroll_down_c, scroll_down. era.
  apply fst_iter_c_model. intros l. apply fst_il_step_c.
Qed.

Lemma fst_delete_lines_c x n : fst (delete_lines_c x n) = delete_lines x n.
Proof.
  unfold delete_lines_c, delete_lines. era.
  apply fst_iter_c_model. intros l. unfold dl_step_c. era.
Qed.

Lemma fst_scroll_up_c x n : fst (scroll_up_c x n) = scroll_up x n.
Proof.
  unfold scroll_up_c, scroll_up. era. rename a0 into active.
  apply fst_iter_c_model. intros y. unfold su_step_c. era.
  cbv zeta. match goal with |- context[if ?c then _ else _] => destruct c end; reflexivity.
Qed.

Lemma fst_row_inc_scroll_c x n : fst (row_inc_scroll_c x n) = row_inc_scroll x n.
Proof.
  unfold row_inc_scroll_c, row_inc_scroll. era.
  cbv zeta.
  destruct (in_scroll_region x); [|reflexivity]. era. apply fst_scroll_up_c.
Qed.

Lemma fst_row_dec_scroll_c x n : fst (row_dec_scroll_c x n) = row_dec_scroll x n.
Proof.
  unfold row_dec_scroll_c, row_dec_scroll. cbv zeta.
  destruct (row_clamp_top _ _) as [g1 lines]. era.
  apply fst_scroll_down_c.
Qed.

Lemma fst_col_wrap_c x w b : fst (col_wrap_c x w b) = col_wrap x w b.
Proof.
  unfold col_wrap_c, col_wrap. era. rename a into lim.
  destruct (lim <? pcol x); [|reflexivity]. cbv zeta. era1.
  apply bind_cong; [apply fst_row_inc_scroll_c|]. intros [g1 scrolled].
  destruct (scrolled <=? prow x); [|reflexivity]. era.
Qed.

Lemma fst_grid_clear_c x : fst (grid_clear_c x) = grid_clear x.
Proof.
  unfold grid_clear_c, grid_clear. era.
  cbv zeta. era1. now rewrite fst_map_c.
Qed.

Lemma fst_allocate_rows_c x : fst (allocate_rows_c x) = Ok (allocate_rows x).
Proof. unfold allocate_rows_c. destruct (live x); reflexivity. Qed.

Lemma fst_grid_set_size_c x r c : fst (grid_set_size_c x r c) = grid_set_size x r c.
Proof. reflexivity. Qed.

Lemma fst_on_cur_c s f : fst (on_cur_c s f) = on_cur s (fun x => fst (f x)).
Proof. unfold on_cur_c, on_cur. era. Qed.

Lemma fst_on_cur_c_model s f h : (forall x, fst (f x) = h x) -> fst (on_cur_c s f) = on_cur s h.
Proof. intros H. rewrite fst_on_cur_c. unfold on_cur. now rewrite H. Qed.

Lemma fst_screen_set_size_c s r c : fst (screen_set_size_c s r c) = screen_set_size s r c.
Proof. unfold screen_set_size_c, screen_set_size. era. Qed.

Lemma fst_screen_new_c r c cap : fst (screen_new_c r c cap) = screen_new r c cap.
Proof.
  unfold screen_new_c, screen_new. era.
  rewrite fst_allocate_rows_c. reflexivity.
Qed.

Lemma fst_enter_alternate_grid_c s : fst (enter_alternate_grid_c s) = Ok (enter_alternate_grid s).
Proof. unfold enter_alternate_grid_c, enter_alternate_grid. cbv zeta. era. now rewrite fst_allocate_rows_c. Qed.

Lemma fst_grid_text_c x ch a : fst (grid_text_c x ch a) = grid_text x ch a.
Proof.
  unfold grid_text_c, grid_text. cbv zeta.
  assert (E : forall width,
    fst (if gcols x <? width then free (Ok x)
         else doc lim <- free (sub16 (gcols x) width);
              doc wrap <- free (if lim <? pcol x then
                    do lastc <- sub16 (gcols x) 1;
                    do lc <- unwrap (drawing_cell x (prow x) lastc);
                    Ok (has_contents lc || ccont lc)
                  else Ok false);
              doc x1 <- col_wrap_c x width wrap;
              if width =? 0 then charge 2 (text_zero x1 ch) else charge 8 (text_place x1 ch width a)) =
    (if gcols x <? width then Ok x
     else do lim <- sub16 (gcols x) width;
          do wrap <- (if lim <? pcol x then
                    do lastc <- sub16 (gcols x) 1;
                    do lc <- unwrap (drawing_cell x (prow x) lastc);
                    Ok (has_contents lc || ccont lc)
                  else Ok false);
          do x1 <- col_wrap x width wrap;
          if width =? 0 then text_zero x1 ch else text_place x1 ch width a)).
  { intros width. destruct (gcols x <? width); [reflexivity|]. era.
    - apply fst_col_wrap_c.
    - destruct (width =? 0); reflexivity. }
  destruct (wd ch) as [n|]; [apply E|]. destruct (ch <? 256); [reflexivity|apply E].
Qed.

Lemma fst_scr_text_c s ch : fst (scr_text_c s ch) = scr_text s ch.
Proof. unfold scr_text_c, scr_text. apply fst_on_cur_c_model. intros x. apply fst_grid_text_c. Qed.

Lemma fst_scr_lf_c s : fst (scr_lf_c s) = scr_lf s.
Proof.
  unfold scr_lf_c, scr_lf. apply fst_on_cur_c_model. intros x. era.
  apply fst_row_inc_scroll_c.
Qed.

Lemma fst_scr_ri_c s : fst (scr_ri_c s) = scr_ri s.
Proof. unfold scr_ri_c, scr_ri. apply fst_on_cur_c_model. intros x. apply fst_row_dec_scroll_c. Qed.

Lemma fst_scr_ris_c s : fst (scr_ris_c s) = scr_ris s.
Proof. apply fst_screen_new_c. Qed.

Lemma fst_scr_ich_c s n : fst (scr_ich_c s n) = scr_ich s n.
Proof. apply fst_on_cur_c_model. intros x. apply fst_insert_cells_c. Qed.
Lemma fst_scr_il_c s n : fst (scr_il_c s n) = scr_il s n.
Proof. apply fst_on_cur_c_model. intros x. apply fst_insert_lines_c. Qed.
Lemma fst_scr_dl_c s n : fst (scr_dl_c s n) = scr_dl s n.
Proof. apply fst_on_cur_c_model. intros x. apply fst_delete_lines_c. Qed.
Lemma fst_scr_dch_c s n : fst (scr_dch_c s n) = scr_dch s n.
Proof. apply fst_on_cur_c_model. intros x. apply fst_delete_cells_c. Qed.
Lemma fst_scr_su_c s n : fst (scr_su_c s n) = scr_su s n.
Proof. apply fst_on_cur_c_model. intros x. apply fst_scroll_up_c. Qed.
Lemma fst_scr_sd_c s n : fst (scr_sd_c s n) = scr_sd s n.
Proof. apply fst_on_cur_c_model. intros x. apply fst_scroll_down_c. Qed.
Lemma fst_scr_ech_c s n : fst (scr_ech_c s n) = scr_ech s n.
Proof. apply fst_on_cur_c_model. intros x. apply fst_erase_cells_c. Qed.

Lemma fst_scr_ed_c s m : fst (scr_ed_c s m) = scr_ed s m.
Proof.
  unfold scr_ed_c, scr_ed.
  destruct (m =? 0); [era; apply fst_on_cur_c_model; intros x; apply fst_erase_all_forward_c|].
  destruct (m =? 1); [era; apply fst_on_cur_c_model; intros x; apply fst_erase_all_backward_c|].
  destruct (m =? 2); [era; apply fst_on_cur_c_model; intros x; apply fst_erase_all_c|].
  reflexivity.
Qed.

Lemma fst_scr_el_c s m : fst (scr_el_c s m) = scr_el s m.
Proof.
  unfold scr_el_c, scr_el.
  destruct (m =? 0); [era; apply fst_on_cur_c_model; intros x; apply fst_erase_row_forward_c|].
  destruct (m =? 1); [era; apply fst_on_cur_c_model; intros x; apply fst_erase_row_backward_c|].
  destruct (m =? 2); [era; apply fst_on_cur_c_model; intros x; apply fst_erase_row_c|].
  reflexivity.
Qed.

Lemma fst_decset1_c s p : fst (decset1_c s p) = decset1 s p.
Proof.
  unfold decset1_c. rewrite fst_tick. unfold decset1. destruct (single p) as [n|]; [|reflexivity].
  destruct (N.eqb_spec n 47) as [->|N47].
  { gsimp. era1. rewrite fst_enter_alternate_grid_c. reflexivity. }
  destruct (N.eqb_spec n 1049) as [->|N1049].
  { gsimp. cbv zeta. era1. rewrite fst_grid_clear_c. apply bind_ext. intros a1.
    era1. rewrite fst_enter_alternate_grid_c. reflexivity. }
  reflexivity.
Qed.

Lemma fst_decrst1_c s p : fst (decrst1_c s p) = decrst1 s p.
Proof. reflexivity. Qed.

Lemma fst_fold_params_c f h : (forall s p, fst (f s p) = h s p) ->
  forall ps s n, fst (fold_params_c f ps s n) = fold_params h ps s n.
Proof.
  intros H ps. induction ps as [|p ps IH]; intros s n; cbn [fold_params_c fold_params]; [reflexivity|].
  era1. apply bind_cong; [apply H|]. intros [s1 k]. apply IH.
Qed.

Lemma fst_scr_decset_c s ps : fst (scr_decset_c s ps) = scr_decset s ps.
Proof. apply fst_fold_params_c. apply fst_decset1_c. Qed.
Lemma fst_scr_decrst_c s ps : fst (scr_decrst_c s ps) = scr_decrst s ps.
Proof. apply fst_fold_params_c. apply fst_decrst1_c. Qed.

Lemma fst_sgr_loop_c fuel : forall ps a unh, fst (sgr_loop_c fuel ps a unh) = sgr_loop fuel ps a unh.
Proof.
  induction fuel as [|fuel IH]; intros ps a unh; cbn [sgr_loop_c sgr_loop]; [reflexivity|].
  destruct ps as [|p rest]; [reflexivity|].
  destruct (sgr1 p rest a) as [a' rest' k|a' k]; [cbn [fst]; apply IH|reflexivity].
Qed.

Lemma fst_sgr_c ps a : fst (sgr_c ps a) = sgr ps a.
Proof. unfold sgr_c, sgr. destruct ps; [reflexivity|apply fst_sgr_loop_c]. Qed.

Lemma fst_scr_sgr_c s ps : fst (scr_sgr_c s ps) = Ok (scr_sgr s ps).
Proof. unfold scr_sgr_c, scr_sgr. cbn [fst charge]. now rewrite fst_sgr_c. Qed.

Lemma fst_noev_c r r' : fst r = r' -> fst (noev_c r) = noev r'.
Proof. intros <-. unfold noev_c, noev. era. Qed.

Lemma fst_unh_c unh r r' : fst r = r' ->
  fst (unh_c unh r) = (do '(s1, k) <- r'; Ok (s1, repeat_ev k unh)).
Proof. intros <-. unfold unh_c. era. Qed.

Lemma fst_do_execute_c s b : fst (do_execute_c s b) = do_execute s b.
Proof.
  unfold do_execute_c, do_execute.
  repeat match goal with |- context[if ?c then _ else _] => destruct c end; try reflexivity;
  apply fst_noev_c; first [reflexivity | apply fst_scr_lf_c].
Qed.

Lemma fst_do_print_c s c : fst (do_print_c s c) = do_print s c.
Proof.
  unfold do_print_c, do_print.
  destruct ((128 <=? c) && (c <? 160)); [apply fst_do_execute_c|].
  destruct (c =? REPL); [reflexivity|]. exact (fst_noev_c _ _ (fst_scr_text_c s c)).
Qed.

Lemma fst_do_esc_c s inter b : fst (do_esc_c s inter b) = do_esc s inter b.
Proof.
  unfold do_esc_c. destruct inter as [|i inter]; [|reflexivity].
  destruct (N.eqb_spec b 77) as [->|N77].
  { unfold do_esc. gsimp. exact (fst_noev_c _ _ (fst_scr_ri_c s)). }
  destruct (N.eqb_spec b 99) as [->|N99].
  { unfold do_esc. gsimp. exact (fst_noev_c _ _ (fst_scr_ris_c s)). }
  reflexivity.
Qed.

Lemma fst_do_csi_c rz s ps inter c : fst (do_csi_c rz s ps inter c) = do_csi rz s ps inter c.
Proof.
  unfold do_csi_c, do_csi. cbv zeta. destruct inter as [|i inter].
  - repeat match goal with
      | |- fst (if ?c =? ?k then _ else _) = _ => destruct (c =? k)
      end; try reflexivity; try (apply fst_noev_c; reflexivity).
    + exact (fst_noev_c _ _ (fst_scr_ich_c s _)).
    + apply fst_unh_c. apply fst_scr_ed_c.
    + apply fst_unh_c. apply fst_scr_el_c.
    + exact (fst_noev_c _ _ (fst_scr_il_c s _)).
    + exact (fst_noev_c _ _ (fst_scr_dl_c s _)).
    + exact (fst_noev_c _ _ (fst_scr_dch_c s _)).
    + exact (fst_noev_c _ _ (fst_scr_su_c s _)).
    + exact (fst_noev_c _ _ (fst_scr_sd_c s _)).
    + exact (fst_noev_c _ _ (fst_scr_ech_c s _)).
    + rewrite (fst_unh_c _ _ _ (fst_scr_sgr_c s ps)). cbn [bind]. destruct (scr_sgr s ps). reflexivity.
    + destruct ps as [|[|op p] rest]; try reflexivity.
      destruct (op =? 8); [|reflexivity].
      match goal with |- context[if ?c then _ else _] => destruct c end; [|reflexivity].
      era. rewrite fst_screen_set_size_c. reflexivity.
  - destruct (i =? 63); [|reflexivity].
    repeat match goal with
      | |- fst (if ?c =? ?k then _ else _) = _ => destruct (c =? k)
      end; try reflexivity.
    + apply fst_unh_c. apply fst_scr_ed_c.
    + apply fst_unh_c. apply fst_scr_el_c.
    + apply fst_unh_c. apply fst_scr_decset_c.
    + apply fst_unh_c. apply fst_scr_decrst_c.
Qed.

(* THE TIE: the instrumented dispatcher computes exactly the model's [perform] *)
Theorem fst_perform_c rz s a : fst (perform_c rz s a) = perform rz s a.
Proof.
  unfold perform_c. rewrite fst_tick. destruct a; try reflexivity.
  - apply fst_do_print_c.
  - apply fst_do_execute_c.
  - apply fst_do_csi_c.
  - apply fst_do_esc_c.
Qed.
