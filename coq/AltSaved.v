(* AltSaved.v — C11, part 1: DECSC / DECRC.
   The saved-cursor slot (saved position and origin mode of the grid shown, and the saved pen
   of the screen) is written by DECSC only (and by 1049 entry, RIS, set_size): ordinary input
   never touches it.  Hence DECSC; anything ordinary; DECRC restores position, origin mode, pen.
   No invariant is assumed. *)
Require Import Tac ListN Width Attrs Cell Row Grid Screen Vte Perform Parser SbFrame AltSpec.
Open Scope N_scope.

(* ---- DECSC immediately followed by DECRC ---- *)
Lemma restore_save_grid x : restore_cursor (save_cursor x) = save_cursor x.
Proof. destruct x. reflexivity. Qed.

Lemma cur_with_cur s x : cur (with_cur s x) = x.
Proof. unfold cur, with_cur. destruct (altmode s) eqn:E; sproj; rewrite E; reflexivity. Qed.
Lemma with_cur_with_cur s x y : with_cur (with_cur s x) y = with_cur s y.
Proof. unfold with_cur. destruct (altmode s) eqn:E; sproj; rewrite E; reflexivity. Qed.
Lemma with_cur_cur s : with_cur s (cur s) = s.
Proof. unfold with_cur, cur. destruct s as [g0 a0 p sp k ac h am pa mm me]. destruct am; reflexivity. Qed.
Lemma altmode_with_cur s x : altmode (with_cur s x) = altmode s.
Proof. unfold with_cur. destruct (altmode s) eqn:E; sproj; exact E. Qed.
Lemma pen_with_cur s x : pen (with_cur s x) = pen s.
Proof. unfold with_cur. destruct (altmode s); reflexivity. Qed.
Lemma spen_with_cur s x : spen (with_cur s x) = spen s.
Proof. unfold with_cur. destruct (altmode s); reflexivity. Qed.

(* DECRC right after DECSC changes nothing at all *)
Theorem restore_after_save s : scr_restore_cursor (scr_save_cursor s) = scr_save_cursor s.
Proof.
  unfold scr_restore_cursor, scr_save_cursor. cbv zeta.
  destruct s as [g0 a0 p sp k ac h am pa mm me]. unfold with_cur, cur. sproj.
  destruct am; sproj; rewrite restore_save_grid; reflexivity.
Qed.

(* DECSC only writes the saved slot: the grid shown keeps everything else *)
Theorem save_cursor_only_saved s :
  scr_save_cursor s = with_spen (with_cur s (with_saved (cur s) (prow (cur s)) (pcol (cur s)) (origin (cur s)))) (pen s).
Proof. reflexivity. Qed.

Theorem restore_after_save_fields s :
  let s' := scr_restore_cursor (scr_save_cursor s) in
  prow (cur s') = prow (cur s) /\ pcol (cur s') = pcol (cur s) /\ origin (cur s') = origin (cur s) /\
  pen s' = pen s /\ altmode s' = altmode s /\
  live (cur s') = live (cur s) /\ top (cur s') = top (cur s) /\ bot (cur s') = bot (cur s) /\
  sb (cur s') = sb (cur s) /\ sb_off (cur s') = sb_off (cur s).
Proof.
  cbv zeta. rewrite restore_after_save. unfold scr_save_cursor.
  unfold cur, with_cur. destruct (altmode s) eqn:E; sproj; rewrite E; gproj; unfold save_cursor; gproj; auto 12.
Qed.

(* ---- the saved slot ---- *)
Definition saved (s : screen) : N * N * bool * attrs := (sprow (cur s), spcol (cur s), sorigin (cur s), spen s).

Definition sveq (x y : grid) : Prop := sprow y = sprow x /\ spcol y = spcol x /\ sorigin y = sorigin x.
Lemma sveq_refl x : sveq x x. Proof. repeat split. Qed.
Lemma sveq_trans x y z : sveq x y -> sveq y z -> sveq x z.
Proof. unfold sveq. intros (?&?&?) (?&?&?). repeat split; congruence. Qed.

Create HintDb sv.

Ltac svfacts :=
  repeat match goal with
  | E : _ = Ok ?v |- _ =>
      let S := fresh "S" in eassert (S : sveq _ v) by (eauto 2 with sv); clear E
  | E : _ = Ok (?v, _) |- _ =>
      let S := fresh "S" in eassert (S : sveq _ v) by (eauto 2 with sv); clear E
  | E : _ = (?v, _) |- _ =>
      let S := fresh "S" in eassert (S : sveq _ v) by (eauto 2 with sv); clear E
  end.
Ltac svclose :=
  repeat match goal with S : sveq _ _ |- _ => destruct S as (? & ? & ?) end;
  gproj; unfold sveq; gproj; repeat split; congruence.
Ltac svgo E := sbinv E; svfacts; svclose.

Lemma sv_allocate_rows x : sveq x (allocate_rows x).
Proof. unfold allocate_rows. destruct (live x); repeat split. Qed.
Lemma sv_upd_row x r f y : upd_row x r f = Ok y -> sveq x y.
Proof. unfold upd_row. intros E. svgo E. Qed.
Lemma sv_upd_cell x r c f y : upd_cell x r c f = Ok y -> sveq x y.
Proof. unfold upd_cell. intros E. svgo E. Qed.
Lemma sv_upd_current_row x f y : upd_current_row x f = Ok y -> sveq x y.
Proof. apply sv_upd_row. Qed.
Global Hint Resolve sv_upd_row sv_upd_cell sv_upd_current_row : sv.

Lemma sv_row_clamp_top x lim y n : row_clamp_top x lim = (y, n) -> sveq x y.
Proof. unfold row_clamp_top. intros E. destruct (lim && (prow x <? top x)); inv E; repeat split. Qed.
Lemma sv_row_clamp_bottom x lim y n : row_clamp_bottom x lim = Ok (y, n) -> sveq x y.
Proof. unfold row_clamp_bottom. intros E. bind_inv E. destruct (v <? prow x); inv E; repeat split. Qed.
Lemma sv_row_clamp x y : row_clamp x = Ok y -> sveq x y.
Proof. unfold row_clamp. intros E. bind_inv E. destruct (v <? prow x); inv E; repeat split. Qed.
Lemma sv_col_clamp x y : col_clamp x = Ok y -> sveq x y.
Proof. unfold col_clamp. intros E. bind_inv E. destruct (v <? pcol x); inv E; repeat split. Qed.
Global Hint Resolve sv_row_clamp_top sv_row_clamp_bottom sv_row_clamp sv_col_clamp : sv.

Lemma sv_grid_set_pos x r c y : grid_set_pos x r c = Ok y -> sveq x y.
Proof. unfold grid_set_pos. intros E. svgo E. Qed.
Global Hint Resolve sv_grid_set_pos : sv.

Lemma sv_restore_cursor x : sveq x (restore_cursor x). Proof. repeat split. Qed.
Lemma sv_erase_all x a : sveq x (erase_all x a). Proof. repeat split. Qed.
Lemma sv_col_inc x n : sveq x (col_inc x n). Proof. repeat split. Qed.
Lemma sv_col_dec x n : sveq x (col_dec x n). Proof. repeat split. Qed.
Lemma sv_grid_set_scrollback x k : sveq x (grid_set_scrollback x k). Proof. repeat split. Qed.

Lemma sv_erase_row_forward x a y : erase_row_forward x a = Ok y -> sveq x y.
Proof. apply sv_upd_row. Qed.
Lemma sv_erase_row_backward x a y : erase_row_backward x a = Ok y -> sveq x y.
Proof. unfold erase_row_backward. intros E. svgo E. Qed.
Global Hint Resolve sv_erase_row_forward sv_erase_row_backward : sv.
Lemma sv_erase_all_forward x a y : erase_all_forward x a = Ok y -> sveq x y.
Proof. unfold erase_all_forward. intros E. svgo E. Qed.
Lemma sv_erase_all_backward x a y : erase_all_backward x a = Ok y -> sveq x y.
Proof. unfold erase_all_backward. intros E. svgo E. Qed.
Lemma sv_erase_row x a y : erase_row x a = Ok y -> sveq x y.
Proof. apply sv_upd_row. Qed.
Lemma sv_erase_cells x n a y : erase_cells x n a = Ok y -> sveq x y.
Proof. apply sv_upd_row. Qed.
Lemma sv_insert_cells x n y : insert_cells x n = Ok y -> sveq x y.
Proof. unfold insert_cells. intros E. svgo E. Qed.
Lemma sv_delete_cells x n y : delete_cells x n = Ok y -> sveq x y.
Proof. unfold delete_cells. intros E. svgo E. Qed.
Lemma sv_insert_lines x n y : insert_lines x n = Ok y -> sveq x y.
Proof. unfold insert_lines. intros E. svgo E. Qed.
Lemma sv_delete_lines x n y : delete_lines x n = Ok y -> sveq x y.
Proof. unfold delete_lines. intros E. svgo E. Qed.
Lemma sv_scroll_down x n y : scroll_down x n = Ok y -> sveq x y.
Proof. unfold scroll_down. intros E. svgo E. Qed.
Global Hint Resolve sv_erase_all_forward sv_erase_all_backward sv_erase_row sv_erase_cells sv_insert_cells
  sv_delete_cells sv_insert_lines sv_delete_lines sv_scroll_down : sv.
Lemma sv_set_scroll_region x t b y : set_scroll_region x t b = Ok y -> sveq x y.
Proof. unfold set_scroll_region. intros E. bind_inv E. inv E. destruct (t <? N.min b v); repeat split. Qed.
Lemma sv_set_origin_mode x m y : set_origin_mode x m = Ok y -> sveq x y.
Proof. unfold set_origin_mode. intros E. apply sv_grid_set_pos in E. svclose. Qed.
Lemma sv_row_inc_clamp x n y : row_inc_clamp x n = Ok y -> sveq x y.
Proof. unfold row_inc_clamp. intros E. svgo E. Qed.
Lemma sv_row_dec_clamp x n : sveq x (row_dec_clamp x n).
Proof.
  unfold row_dec_clamp. cbv zeta. destruct (row_clamp_top _ _) as [y k] eqn:E.
  apply sv_row_clamp_top in E. svclose.
Qed.
Lemma sv_row_dec_scroll x n y : row_dec_scroll x n = Ok y -> sveq x y.
Proof. unfold row_dec_scroll. intros E. svgo E. Qed.
Lemma sv_row_set x i y : row_set x i = Ok y -> sveq x y.
Proof. unfold row_set. intros E. svgo E. Qed.
Lemma sv_col_inc_clamp x n y : col_inc_clamp x n = Ok y -> sveq x y.
Proof. unfold col_inc_clamp, col_inc. intros E. svgo E. Qed.
Lemma sv_col_tab x y : col_tab x = Ok y -> sveq x y.
Proof. unfold col_tab. intros E. svgo E. Qed.
Lemma sv_col_set x i y : col_set x i = Ok y -> sveq x y.
Proof. unfold col_set. intros E. svgo E. Qed.
Global Hint Resolve sv_set_scroll_region sv_set_origin_mode
  sv_row_inc_clamp sv_row_dec_scroll sv_row_set sv_col_inc_clamp sv_col_tab sv_col_set : sv.

Lemma sv_append_at x r c ch y : append_at x r c ch = Ok y -> sveq x y.
Proof. unfold append_at. intros E. svgo E. Qed.
Global Hint Resolve sv_append_at : sv.
Lemma sv_text_zero x ch y : text_zero x ch = Ok y -> sveq x y.
Proof. unfold text_zero. intros E. svgo E. Qed.
Lemma sv_text_place x ch w a y : text_place x ch w a = Ok y -> sveq x y.
Proof. unfold text_place, col_inc. intros E. svgo E. Qed.
Global Hint Resolve sv_text_zero sv_text_place : sv.

Lemma sv_scroll_up x n y : scroll_up x n = Ok y -> sveq x y.
Proof.
  unfold scroll_up. intros E. bind_inv E. rename v into room. bind_inv E. rename v into active.
  eapply (iter_res_inv (fun z => sveq x z)); [exact E| |].
  - apply sveq_refl.
  - clear E y. intros z y E Hz. eapply sveq_trans; [exact Hz|]. clear Hz. cbv beta in E. svgo E.
Qed.
Global Hint Resolve sv_scroll_up : sv.
Lemma sv_row_inc_scroll x n y k : row_inc_scroll x n = Ok (y, k) -> sveq x y.
Proof. unfold row_inc_scroll. intros E. svgo E. Qed.
Global Hint Resolve sv_row_inc_scroll : sv.
Lemma sv_col_wrap x w wr y : col_wrap x w wr = Ok y -> sveq x y.
Proof. unfold col_wrap. intros E. svgo E. Qed.
Global Hint Resolve sv_col_wrap : sv.
Lemma sv_grid_text x ch a y : grid_text x ch a = Ok y -> sveq x y.
Proof.
  unfold grid_text. cbv zeta. intros E.
  destruct (wd ch) as [n|]; [|destruct (ch <? 256); [inv E; apply sveq_refl|]]; svgo E.
Qed.
Global Hint Resolve sv_grid_text : sv.

(* ---- Screen.v ---- *)
(* altmode kept, saved slot of the grid shown kept, saved pen kept *)
Definition svs (s s' : screen) : Prop :=
  altmode s' = altmode s /\ sveq (cur s) (cur s') /\ spen s' = spen s.

Lemma svs_refl s : svs s s. Proof. split; [|split]; auto using sveq_refl. Qed.
Lemma svs_trans a b c : svs a b -> svs b c -> svs a c.
Proof.
  unfold svs. intros (A1 & A2 & A3) (B1 & B2 & B3). split; [congruence|split; [|congruence]].
  eapply sveq_trans; eassumption.
Qed.
Lemma svs_saved s s' : svs s s' -> saved s' = saved s.
Proof. unfold svs, saved, sveq. intros (_ & (H1 & H2 & H3) & H4). rewrite H1, H2, H3, H4. reflexivity. Qed.

Lemma svs_on_cur s f s' : (forall x y, f x = Ok y -> sveq x y) -> on_cur s f = Ok s' -> svs s s'.
Proof.
  intros Hf E. unfold on_cur in E. bind_inv E. inv E. apply Hf in E0.
  split; [apply altmode_with_cur|split; [rewrite cur_with_cur; exact E0|apply spen_with_cur]].
Qed.
Lemma svs_same s s' : g s' = g s -> alt s' = alt s -> altmode s' = altmode s -> spen s' = spen s -> svs s s'.
Proof. intros H1 H2 H3 H4. unfold svs, cur. rewrite H1, H2, H3, H4. auto using sveq_refl. Qed.

Ltac fsv := let x := fresh "x" in let y := fresh "y" in let E := fresh "E" in
  intros x y E; cbv beta in E;
  first [ solve [eauto 2 with sv]
        | solve [svgo E]
        | solve [inv E; apply sv_row_dec_clamp]
        | solve [bind_inv E; inv E; eapply sveq_trans; [eapply sv_col_set; eassumption|apply sv_row_dec_clamp]] ].

Lemma svs_scr_restore_cursor s : svs s (scr_restore_cursor s).
Proof.
  unfold scr_restore_cursor. cbv zeta. split; [|split].
  - cbn [altmode with_pen]. apply altmode_with_cur.
  - unfold cur at 2. cbn [altmode with_pen g alt]. fold (cur (with_cur s (restore_cursor (cur s)))).
    rewrite cur_with_cur. apply sv_restore_cursor.
  - cbn [spen with_pen]. apply spen_with_cur.
Qed.
Lemma svs_clear_mouse_mode s m : svs s (clear_mouse_mode s m).
Proof. unfold clear_mouse_mode. destruct (mouse_mode_eqb _ _); apply svs_same; reflexivity. Qed.
Lemma svs_clear_mouse_enc s m : svs s (clear_mouse_enc s m).
Proof. unfold clear_mouse_enc. destruct (mouse_enc_eqb _ _); apply svs_same; reflexivity. Qed.
Lemma svs_scr_sgr s ps s' k : scr_sgr s ps = (s', k) -> svs s s'.
Proof. unfold scr_sgr. destruct (sgr ps (pen s)) as [a n]. intros E. inv E. apply svs_same; reflexivity. Qed.

Ltac svs_cur := match goal with H : _ = Ok ?v |- svs _ ?v => solve [refine (svs_on_cur _ _ _ _ H); fsv] end.

Lemma svs_scr_ed s mode s' k : scr_ed s mode = Ok (s', k) -> svs s s'.
Proof. unfold scr_ed. intros E. sbinv E; try apply svs_refl; svs_cur. Qed.
Lemma svs_scr_el s mode s' k : scr_el s mode = Ok (s', k) -> svs s s'.
Proof. unfold scr_el. intros E. sbinv E; try apply svs_refl; svs_cur. Qed.

Ltac svsfin :=
  first [ apply svs_refl
        | solve [apply svs_same; reflexivity]
        | svs_cur
        | apply svs_scr_restore_cursor
        | apply svs_clear_mouse_mode | apply svs_clear_mouse_enc
        | solve [eapply svs_scr_ed; eassumption] | solve [eapply svs_scr_el; eassumption]
        | solve [eapply svs_scr_sgr; eassumption] ].

Lemma svs_decset1 s p s' k : is_switch_param p = false -> decset1 s p = Ok (s', k) -> svs s s'.
Proof.
  unfold is_switch_param, decset1. destruct (single p) as [n|]; [|intros _ E; inv E; apply svs_refl].
  destruct (n =? 47) eqn:E47; [discriminate|]. destruct (n =? 1049) eqn:E1049; [discriminate|].
  intros _ E. sbinv E; svsfin.
Qed.
Lemma svs_decrst1 s p s' k : is_switch_param p = false -> decrst1 s p = Ok (s', k) -> svs s s'.
Proof.
  unfold is_switch_param, decrst1. destruct (single p) as [n|]; [|intros _ E; inv E; apply svs_refl].
  destruct (n =? 47) eqn:E47; [discriminate|]. destruct (n =? 1049) eqn:E1049; [discriminate|].
  intros _ E. sbinv E; svsfin.
Qed.

Lemma svs_scr_decset s ps s' k : existsb is_switch_param ps = false -> scr_decset s ps = Ok (s', k) -> svs s s'.
Proof.
  intros H. apply existsb_false_forallb in H. unfold scr_decset.
  apply (fold_params_rel svs (fun p => negb (is_switch_param p))); [apply svs_refl|apply svs_trans| |exact H].
  intros s0 p s0' k0 Hp. apply negb_true_iff in Hp. now apply svs_decset1.
Qed.
Lemma svs_scr_decrst s ps s' k : existsb is_switch_param ps = false -> scr_decrst s ps = Ok (s', k) -> svs s s'.
Proof.
  intros H. apply existsb_false_forallb in H. unfold scr_decrst.
  apply (fold_params_rel svs (fun p => negb (is_switch_param p))); [apply svs_refl|apply svs_trans| |exact H].
  intros s0 p s0' k0 Hp. apply negb_true_iff in Hp. now apply svs_decrst1.
Qed.

(* ---- Perform.v ---- *)
Lemma svs_do_execute s b s' e : do_execute s b = Ok (s', e) -> svs s s'.
Proof. unfold do_execute. intros E. sbinv E; svsfin. Qed.

Lemma svs_do_print s c s' e : do_print s c = Ok (s', e) -> svs s s'.
Proof.
  unfold do_print. intros E. destruct ((128 <=? c) && (c <? 160)); [eapply svs_do_execute; exact E|].
  sbinv E; svsfin.
Qed.

Lemma svs_do_esc s inter ign b s' e :
  is_ris (AEsc inter ign b) = false -> is_decsc (AEsc inter ign b) = false ->
  do_esc s inter b = Ok (s', e) -> svs s s'.
Proof.
  unfold do_esc, is_ris, is_decsc. intros Hr Hd E. destruct inter as [|i inter]; [|inv E; apply svs_refl].
  rewrite Hr, Hd in E.
  sbinv E; svsfin.
Qed.

Lemma svs_do_csi rz s ps inter ign c s' e :
  is_switch (ACsi ps inter ign c) = false -> (rz = true -> is_resize_req (ACsi ps inter ign c) = false) ->
  do_csi rz s ps inter c = Ok (s', e) -> svs s s'.
Proof.
  unfold do_csi. cbv zeta. intros Hsw Hrz E. destruct inter as [|i inter].
  - clear Hsw.
    repeat match type of E with
    | (if ?b =? ?n then _ else _) = Ok _ => let Eb := fresh "Eb" in destruct (b =? n) eqn:Eb
    | noev _ = Ok _ => apply noev_inv in E
    end; try svsfin.
    + destruct (canon2 ps 1 1) as [r cc]. apply noev_inv in E. svsfin.
    + sbinv E. svsfin.
    + sbinv E. svsfin.
    + destruct (scr_sgr s ps) as [s1 k] eqn:Es. inv E. svsfin.
    + destruct (canon2 ps 1 (grows (cur s))) as [t b]. apply noev_inv in E. svsfin.
    + destruct ps as [|[|op p0] rest]; try (inv E; apply svs_refl).
      destruct (op =? 8) eqn:Eop; [|inv E; apply svs_refl].
      destruct rz; [|cbn [andb] in E; inv E; apply svs_refl].
      specialize (Hrz eq_refl). cbn [is_resize_req] in Hrz. rewrite Eop in Hrz.
      match goal with H : (c =? 116) = true |- _ => rewrite H in Hrz end. discriminate.
    + inv E. svsfin.
  - cbn [is_switch] in Hsw.
    destruct (i =? 63); [|inv E; apply svs_refl]. cbn [andb] in Hsw.
    destruct (c =? 74); [sbinv E; svsfin|]. destruct (c =? 75); [sbinv E; svsfin|].
    destruct (c =? 104).
    + cbn [orb andb] in Hsw. sbinv E. eapply svs_scr_decset; eassumption.
    + destruct (c =? 108); [|inv E; apply svs_refl].
      cbn [orb andb] in Hsw. sbinv E. eapply svs_scr_decrst; eassumption.
Qed.

Theorem svs_perform rz s a s' e : save_free rz a = true -> perform rz s a = Ok (s', e) -> svs s s'.
Proof.
  intros Hf. apply save_free_inv in Hf as (Hf & Hd). apply switch_free_inv in Hf as (Hr & Hs & Hz).
  destruct a as [c|b|ps inter ign c|b| |ps bell|ps inter ign c|inter ign b]; cbn [perform]; intros E.
  - eapply svs_do_print; exact E.
  - eapply svs_do_execute; exact E.
  - inv E. apply svs_refl.
  - inv E. apply svs_refl.
  - inv E. apply svs_refl.
  - inv E. rewrite <- (do_osc_fst s ps) at 1. rewrite H0. apply svs_refl.
  - eapply svs_do_csi; eassumption.
  - eapply svs_do_esc; eassumption.
Qed.

Theorem svs_perform_all rz acts : forall s evs s' e,
  Forall (fun a => save_free rz a = true) acts -> perform_all rz s acts evs = Ok (s', e) -> svs s s'.
Proof.
  induction acts as [|a rest IH]; intros s evs s' e F E; cbn [perform_all] in E.
  - inv E. apply svs_refl.
  - inv F. bind_inv E. destruct v as [s1 e1].
    eapply svs_trans; [eapply svs_perform; [eassumption|exact E0]|eapply IH; [eassumption|exact E]].
Qed.

(* the statements of the task *)
Theorem saved_untouched rz s a s' evs : save_free rz a = true ->
  perform rz s a = Ok (s', evs) -> saved s' = saved s /\ altmode s' = altmode s.
Proof. intros Hf E. pose proof (svs_perform _ _ _ _ _ Hf E) as H. split; [now apply svs_saved|apply H]. Qed.

Theorem saved_untouched_all rz acts s evs0 s' evs : Forall (fun a => save_free rz a = true) acts ->
  perform_all rz s acts evs0 = Ok (s', evs) -> saved s' = saved s /\ altmode s' = altmode s.
Proof. intros F E. pose proof (svs_perform_all _ _ _ _ _ _ F E) as H. split; [now apply svs_saved|apply H]. Qed.

Lemma perform_all_app rz a b : forall s evs,
  perform_all rz s (a ++ b) evs =
  (do '(s1, e1) <- perform_all rz s a evs; perform_all rz s1 b e1).
Proof.
  induction a as [|x a IH]; intros s evs; cbn [perform_all app bind]; [reflexivity|].
  destruct (perform rz s x) as [[s1 e]|k]; cbn [bind]; [apply IH|reflexivity].
Qed.

Definition DECSC (ign : bool) : action := AEsc [] ign 55.
Definition DECRC (ign : bool) : action := AEsc [] ign 56.

Lemma perform_DECSC rz s ign : perform rz s (DECSC ign) = Ok (scr_save_cursor s, []).
Proof. reflexivity. Qed.
Lemma perform_DECRC rz s ign : perform rz s (DECRC ign) = Ok (scr_restore_cursor s, []).
Proof. reflexivity. Qed.

(* what DECRC does, in terms of the saved slot *)
Lemma restore_cursor_fields s :
  let s' := scr_restore_cursor s in
  (prow (cur s'), pcol (cur s'), origin (cur s'), pen s') = saved s /\ altmode s' = altmode s.
Proof.
  cbv zeta. unfold scr_restore_cursor, saved. cbv zeta. unfold cur, with_cur.
  destruct (altmode s) eqn:E; sproj; rewrite E; unfold restore_cursor; gproj; auto.
Qed.
Lemma save_cursor_fields s :
  saved (scr_save_cursor s) = (prow (cur s), pcol (cur s), origin (cur s), pen s) /\
  altmode (scr_save_cursor s) = altmode s.
Proof.
  unfold scr_save_cursor, saved. unfold cur, with_cur.
  destruct (altmode s) eqn:E; sproj; rewrite E; unfold save_cursor; gproj; auto.
Qed.

(* DECSC; ordinary input; DECRC *)
Theorem decsc_acts_decrc rz s acts i1 i2 evs0 s' evs :
  Forall (fun a => save_free rz a = true) acts ->
  perform_all rz s (DECSC i1 :: acts ++ [DECRC i2]) evs0 = Ok (s', evs) ->
  prow (cur s') = prow (cur s) /\ pcol (cur s') = pcol (cur s) /\ origin (cur s') = origin (cur s) /\
  pen s' = pen s /\ altmode s' = altmode s.
Proof.
  intros F E. cbn [perform_all] in E. rewrite perform_DECSC in E. cbn [bind] in E.
  rewrite perform_all_app in E. bind_inv E. destruct v as [s2 e2]. cbn [perform_all] in E.
  rewrite perform_DECRC in E. cbn [bind] in E. inv E.
  destruct (saved_untouched_all _ _ _ _ _ _ F E0) as (Hs & Ha).
  destruct (restore_cursor_fields s2) as (R1 & R2). cbv zeta in R1, R2.
  destruct (save_cursor_fields s) as (S1 & S2).
  rewrite Hs, S1 in R1. inv R1. rewrite R2, Ha, S2. auto.
Qed.
