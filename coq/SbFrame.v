(* SbFrame.v — C12, parts 2 and 5: which operations can touch the history at all.
   No invariant on the grids is assumed.
   [sbeq x y]: the three scrollback fields are untouched (every Grid.v operation except the
   scroll_up family and set_scrollback).  [gw x y]: the capacity is kept and a grid with no
   history and capacity 0 stays that way (everything). *)
Require Import Tac ListN Width Attrs Cell Row Grid Screen Vte Perform Parser.
Require Import Chunking.
Open Scope N_scope.

Definition sbeq (x y : grid) : Prop := sb y = sb x /\ sb_cap y = sb_cap x /\ sb_off y = sb_off x.
Definition nosb (x : grid) : Prop := sb x = [] /\ sb_cap x = 0.
Definition gw (x y : grid) : Prop := sb_cap y = sb_cap x /\ (nosb x -> nosb y).

Lemma sbeq_refl x : sbeq x x. Proof. repeat split. Qed.
Lemma sbeq_trans x y z : sbeq x y -> sbeq y z -> sbeq x z.
Proof. unfold sbeq. intros (?&?&?) (?&?&?). repeat split; congruence. Qed.
Lemma gw_refl x : gw x x. Proof. split; auto. Qed.
Lemma gw_trans x y z : gw x y -> gw y z -> gw x z.
Proof. unfold gw. intros (?&?) (?&?). split; [congruence|auto]. Qed.
Lemma sbeq_gw x y : sbeq x y -> gw x y.
Proof. unfold sbeq, gw, nosb. intros (H1&H2&H3). rewrite H1, H2. auto. Qed.

Ltac gproj := cbn [with_pos with_prow with_pcol with_live with_region with_origin with_saved with_size with_sb
                   grows gcols prow pcol sprow spcol live top bot origin sorigin sb sb_cap sb_off fst snd] in *.

(* take every hypothesis  E : (monadic term) = Ok y  apart *)
Ltac sbinv1 :=
  match goal with
  | E : bind ?r _ = Ok _ |- _ =>
      let v := fresh "v" in let E1 := fresh "E" in apply bind_ok in E; destruct E as (v & E1 & E)
  | E : (let '(_, _) := ?p in _) = Ok _ |- _ =>
      let a := fresh "a" in let b := fresh "b" in let Ep := fresh "Ep" in destruct p as [a b] eqn:Ep
  | E : (if ?b then _ else _) = Ok _ |- _ => let Eb := fresh "Eb" in destruct b eqn:Eb
  | E : (match ?o with Some _ => _ | None => _ end) = Ok _ |- _ =>
      let a := fresh "a" in let Eo := fresh "Eo" in destruct o as [a|] eqn:Eo
  | E : Panic _ = Ok _ |- _ => discriminate E
  | E : Ok _ = Ok _ |- _ => inv E
  end.
Ltac sbinv E := cbv zeta in E; repeat (sbinv1; try (progress cbv zeta in * )).

Create HintDb sb.

(* turn every remaining equation about a sub-operation into an sbeq fact *)
Ltac sbfacts :=
  repeat match goal with
  | E : _ = Ok ?v |- _ =>
      let S := fresh "S" in eassert (S : sbeq _ v) by (eauto 2 with sb); clear E
  | E : _ = Ok (?v, _) |- _ =>
      let S := fresh "S" in eassert (S : sbeq _ v) by (eauto 2 with sb); clear E
  | E : _ = (?v, _) |- _ =>
      let S := fresh "S" in eassert (S : sbeq _ v) by (eauto 2 with sb); clear E
  end.

Ltac sbclose :=
  repeat match goal with S : sbeq _ _ |- _ => destruct S as (? & ? & ?) end;
  gproj; unfold sbeq; gproj; repeat split; congruence.

Ltac sbgo E := sbinv E; sbfacts; sbclose.

(* ---- Grid.v: operations that never touch the three fields ---- *)
Lemma sb_allocate_rows x : sbeq x (allocate_rows x).
Proof. unfold allocate_rows. destruct (live x); repeat split. Qed.

Lemma sb_grid_clear x y : grid_clear x = Ok y -> sbeq x y.
Proof. unfold grid_clear. intros E. sbgo E. Qed.
Lemma sb_upd_row x r f y : upd_row x r f = Ok y -> sbeq x y.
Proof. unfold upd_row. intros E. sbgo E. Qed.
Lemma sb_upd_cell x r c f y : upd_cell x r c f = Ok y -> sbeq x y.
Proof. unfold upd_cell. intros E. sbgo E. Qed.
Lemma sb_upd_current_row x f y : upd_current_row x f = Ok y -> sbeq x y.
Proof. apply sb_upd_row. Qed.
Global Hint Resolve sb_grid_clear sb_upd_row sb_upd_cell sb_upd_current_row : sb.

Lemma sb_row_clamp_top x lim y n : row_clamp_top x lim = (y, n) -> sbeq x y.
Proof. unfold row_clamp_top. intros E. destruct (lim && (prow x <? top x)); inv E; repeat split. Qed.
Lemma sb_row_clamp_bottom x lim y n : row_clamp_bottom x lim = Ok (y, n) -> sbeq x y.
Proof. unfold row_clamp_bottom. intros E. bind_inv E. destruct (v <? prow x); inv E; repeat split. Qed.
Lemma sb_row_clamp x y : row_clamp x = Ok y -> sbeq x y.
Proof. unfold row_clamp. intros E. bind_inv E. destruct (v <? prow x); inv E; repeat split. Qed.
Lemma sb_col_clamp x y : col_clamp x = Ok y -> sbeq x y.
Proof. unfold col_clamp. intros E. bind_inv E. destruct (v <? pcol x); inv E; repeat split. Qed.
Global Hint Resolve sb_row_clamp_top sb_row_clamp_bottom sb_row_clamp sb_col_clamp : sb.

Lemma sb_grid_set_size x r c y : grid_set_size x r c = Ok y -> sbeq x y.
Proof. unfold grid_set_size. intros E. sbgo E. Qed.
Lemma sb_grid_set_pos x r c y : grid_set_pos x r c = Ok y -> sbeq x y.
Proof. unfold grid_set_pos. intros E. sbgo E. Qed.
Global Hint Resolve sb_grid_set_size sb_grid_set_pos : sb.

Lemma sb_save_cursor x : sbeq x (save_cursor x). Proof. repeat split. Qed.
Lemma sb_restore_cursor x : sbeq x (restore_cursor x). Proof. repeat split. Qed.
Lemma sb_erase_all x a : sbeq x (erase_all x a). Proof. repeat split. Qed.
Lemma sb_col_inc x n : sbeq x (col_inc x n). Proof. repeat split. Qed.
Lemma sb_col_dec x n : sbeq x (col_dec x n). Proof. repeat split. Qed.

Lemma sb_erase_row_forward x a y : erase_row_forward x a = Ok y -> sbeq x y.
Proof. apply sb_upd_row. Qed.
Lemma sb_erase_row_backward x a y : erase_row_backward x a = Ok y -> sbeq x y.
Proof. unfold erase_row_backward. intros E. sbgo E. Qed.
Global Hint Resolve sb_erase_row_forward sb_erase_row_backward : sb.
Lemma sb_erase_all_forward x a y : erase_all_forward x a = Ok y -> sbeq x y.
Proof. unfold erase_all_forward. intros E. sbgo E. Qed.
Lemma sb_erase_all_backward x a y : erase_all_backward x a = Ok y -> sbeq x y.
Proof. unfold erase_all_backward. intros E. sbgo E. Qed.
Lemma sb_erase_row x a y : erase_row x a = Ok y -> sbeq x y.
Proof. apply sb_upd_row. Qed.
Lemma sb_erase_cells x n a y : erase_cells x n a = Ok y -> sbeq x y.
Proof. apply sb_upd_row. Qed.
Lemma sb_insert_cells x n y : insert_cells x n = Ok y -> sbeq x y.
Proof. unfold insert_cells. intros E. sbgo E. Qed.
Lemma sb_delete_cells x n y : delete_cells x n = Ok y -> sbeq x y.
Proof. unfold delete_cells. intros E. sbgo E. Qed.
Lemma sb_insert_lines x n y : insert_lines x n = Ok y -> sbeq x y.
Proof. unfold insert_lines. intros E. sbgo E. Qed.
Lemma sb_delete_lines x n y : delete_lines x n = Ok y -> sbeq x y.
Proof. unfold delete_lines. intros E. sbgo E. Qed.
Lemma sb_scroll_down x n y : scroll_down x n = Ok y -> sbeq x y.
Proof. unfold scroll_down. intros E. sbgo E. Qed.
Global Hint Resolve sb_erase_all_forward sb_erase_all_backward sb_erase_row sb_erase_cells sb_insert_cells
  sb_delete_cells sb_insert_lines sb_delete_lines sb_scroll_down : sb.
Lemma sb_set_scroll_region x t b y : set_scroll_region x t b = Ok y -> sbeq x y.
Proof. unfold set_scroll_region. intros E. bind_inv E. inv E. destruct (t <? N.min b v); repeat split. Qed.
Lemma sb_set_origin_mode x m y : set_origin_mode x m = Ok y -> sbeq x y.
Proof. unfold set_origin_mode. intros E. apply sb_grid_set_pos in E. sbclose. Qed.
Lemma sb_row_inc_clamp x n y : row_inc_clamp x n = Ok y -> sbeq x y.
Proof. unfold row_inc_clamp. intros E. sbgo E. Qed.
Lemma sb_row_dec_clamp x n : sbeq x (row_dec_clamp x n).
Proof.
  unfold row_dec_clamp. cbv zeta. destruct (row_clamp_top _ _) as [y k] eqn:E.
  apply sb_row_clamp_top in E. sbclose.
Qed.
Lemma sb_row_dec_scroll x n y : row_dec_scroll x n = Ok y -> sbeq x y.
Proof. unfold row_dec_scroll. intros E. sbgo E. Qed.
Lemma sb_row_set x i y : row_set x i = Ok y -> sbeq x y.
Proof. unfold row_set. intros E. sbgo E. Qed.
Lemma sb_col_inc_clamp x n y : col_inc_clamp x n = Ok y -> sbeq x y.
Proof. unfold col_inc_clamp, col_inc. intros E. sbgo E. Qed.
Lemma sb_col_tab x y : col_tab x = Ok y -> sbeq x y.
Proof. unfold col_tab. intros E. sbgo E. Qed.
Lemma sb_col_set x i y : col_set x i = Ok y -> sbeq x y.
Proof. unfold col_set. intros E. sbgo E. Qed.
Global Hint Resolve sb_set_scroll_region sb_set_origin_mode
  sb_row_inc_clamp sb_row_dec_scroll sb_row_set sb_col_inc_clamp sb_col_tab sb_col_set : sb.

Lemma sb_append_at x r c ch y : append_at x r c ch = Ok y -> sbeq x y.
Proof. unfold append_at. intros E. sbgo E. Qed.
Global Hint Resolve sb_append_at : sb.
Lemma sb_text_zero x ch y : text_zero x ch = Ok y -> sbeq x y.
Proof. unfold text_zero. intros E. sbgo E. Qed.
Lemma sb_text_place x ch w a y : text_place x ch w a = Ok y -> sbeq x y.
Proof. unfold text_place, col_inc. intros E. sbgo E. Qed.
Global Hint Resolve sb_text_zero sb_text_place : sb.

(* ---- the scroll_up family ---- *)
Lemma scroll_up_inv x n y : scroll_up x n = Ok y ->
  sb_cap y = sb_cap x /\
  (sb_cap x = 0 \/ scroll_region_active x = Ok true -> sbeq x y).
Proof.
  unfold scroll_up. intros E. bind_inv E. rename v into room. bind_inv E. rename v into active, E1 into Ea.
  rewrite Ea.
  eapply (iter_res_inv (fun z => sb_cap z = sb_cap x /\ (sb_cap x = 0 \/ Ok active = Ok true -> sbeq x z)));
    [exact E| |].
  - split; [reflexivity|]. intros _. apply sbeq_refl.
  - clear E y. intros z y E (Hc & Hs). bind_inv E. rename v into l1. bind_inv E. destruct v as [removed l2].
    cbv zeta in E. cbn [sb_cap with_live] in E.
    destruct ((0 <? sb_cap z) && negb active) eqn:Erec; inv E; cbn [sb_cap with_sb with_live].
    + split; [exact Hc|]. intros Hno. exfalso.
      apply andb_prop in Erec as [Hpos Hact].
      destruct Hno as [H0|Ht]; [rewrite Hc, H0 in Hpos; discriminate|].
      inv Ht. discriminate.
    + split; [exact Hc|]. intros Hno. specialize (Hs Hno). destruct Hs as (? & ? & ?).
      repeat split; assumption.
Qed.

Lemma gw_scroll_up x n y : scroll_up x n = Ok y -> gw x y.
Proof.
  intros E. apply scroll_up_inv in E as (Hc & Hs). split; [exact Hc|].
  intros (Hsb & Hcap). destruct (Hs (or_introl Hcap)) as (H1 & H2 & _). split; congruence.
Qed.
Global Hint Resolve sbeq_gw gw_scroll_up : sb.

Ltac gwfacts :=
  repeat match goal with
  | E : _ = Ok ?v |- _ =>
      let S := fresh "S" in eassert (S : gw _ v) by (eauto 3 with sb); clear E
  | E : _ = Ok (?v, _) |- _ =>
      let S := fresh "S" in eassert (S : gw _ v) by (eauto 3 with sb); clear E
  | E : _ = (?v, _) |- _ =>
      let S := fresh "S" in eassert (S : gw _ v) by (eauto 3 with sb); clear E
  end.
Ltac gwclose :=
  repeat match goal with S : gw _ _ |- _ => destruct S as (? & ?) end;
  unfold gw, nosb in *; gproj; split; [congruence|tauto].
Ltac gwgo E := sbinv E; gwfacts; gwclose.

Lemma gw_row_inc_scroll x n y k : row_inc_scroll x n = Ok (y, k) -> gw x y.
Proof. unfold row_inc_scroll. intros E. gwgo E. Qed.
Global Hint Resolve gw_row_inc_scroll : sb.
Lemma gw_col_wrap x w wr y : col_wrap x w wr = Ok y -> gw x y.
Proof. unfold col_wrap. intros E. gwgo E. Qed.
Global Hint Resolve gw_col_wrap : sb.
Lemma gw_grid_text x ch a y : grid_text x ch a = Ok y -> gw x y.
Proof.
  unfold grid_text. cbv zeta. intros E.
  destruct (wd ch) as [n|]; [|destruct (ch <? 256); [inv E; apply gw_refl|]]; gwgo E.
Qed.
Global Hint Resolve gw_grid_text : sb.

(* set_scrollback and friends *)
Lemma gw_grid_set_scrollback x k : gw x (grid_set_scrollback x k).
Proof. split; auto. Qed.

(* ---- Screen.v ---- *)
(* swc: capacity of the primary kept, "alternate grid has no history" kept, primary history
   untouched (transitive).  sw: the same, but the primary history is only guaranteed untouched
   when the operation started on the alternate screen. *)
Definition swc (s s' : screen) : Prop :=
  sb_cap (g s') = sb_cap (g s) /\ (nosb (alt s) -> nosb (alt s')) /\ sb (g s') = sb (g s).
Definition sw (s s' : screen) : Prop :=
  sb_cap (g s') = sb_cap (g s) /\ (nosb (alt s) -> nosb (alt s')) /\
  (altmode s = true -> sb (g s') = sb (g s)).
Definition sw2 (s s' : screen) : Prop :=
  sb_cap (g s') = sb_cap (g s) /\ (nosb (alt s) -> nosb (alt s')).

Lemma swc_refl s : swc s s. Proof. split; [|split]; auto. Qed.
Lemma swc_trans a b c : swc a b -> swc b c -> swc a c.
Proof. unfold swc. intros (?&?&?) (?&?&?). split; [congruence|split; [tauto|congruence]]. Qed.
Lemma swc_sw a b : swc a b -> sw a b.
Proof. unfold swc, sw. intros (?&?&?). split; [|split]; auto. Qed.
Lemma sw_sw2 a b : sw a b -> sw2 a b.
Proof. unfold sw, sw2. intros (?&?&?). split; auto. Qed.
Lemma sw2_refl s : sw2 s s. Proof. split; auto. Qed.
Lemma sw2_trans a b c : sw2 a b -> sw2 b c -> sw2 a c.
Proof. unfold sw2. intros (?&?) (?&?). split; [congruence|tauto]. Qed.

Ltac sproj := cbn [with_g with_alt with_pen with_spen with_keypad with_appcur with_hide with_altmode with_paste
                   with_mmode with_menc g alt pen spen keypad appcur hide altmode paste mmode menc] in *.

Ltac swsolve := split; [|split]; try congruence; try tauto; try (intros (?&?); split; congruence); try (intros; congruence).

Lemma on_cur_sbeq s f s' : (forall x y, f x = Ok y -> sbeq x y) -> on_cur s f = Ok s' -> swc s s'.
Proof.
  intros Hf E. unfold on_cur in E. bind_inv E. inv E. apply Hf in E0 as (H1 & H2 & H3).
  unfold swc, with_cur, cur, nosb in *. destruct (altmode s); sproj; swsolve.
Qed.
Lemma on_cur_gw s f s' : (forall x y, f x = Ok y -> gw x y) -> on_cur s f = Ok s' -> sw s s'.
Proof.
  intros Hf E. unfold on_cur in E. bind_inv E. inv E. apply Hf in E0 as (H1 & H2).
  unfold sw, with_cur, cur in *. destruct (altmode s); sproj; swsolve.
Qed.

(* discharge  forall x y, body x = Ok y -> sbeq x y  /  gw x y *)
Ltac fsb := let x := fresh "x" in let y := fresh "y" in let E := fresh "E" in
  intros x y E; cbv beta in E; first [solve [eauto 2 with sb] | sbgo E].
Ltac fgw := let x := fresh "x" in let y := fresh "y" in let E := fresh "E" in
  intros x y E; cbv beta in E; first [solve [eauto 3 with sb] | gwgo E].

Create HintDb sw.

Lemma swc_screen_set_size s r c s' : screen_set_size s r c = Ok s' -> swc s s'.
Proof.
  unfold screen_set_size. intros E. bind_inv E. bind_inv E. inv E.
  apply sb_grid_set_size in E0 as (?&?&?). apply sb_grid_set_size in E1 as (?&?&?).
  unfold swc, nosb. sproj. swsolve.
Qed.
Lemma swc_screen_set_scrollback s k : swc s (screen_set_scrollback s k).
Proof.
  unfold screen_set_scrollback, with_cur, cur, swc, nosb. destruct (altmode s); sproj; gproj; auto.
Qed.
Lemma swc_enter_alternate_grid s : swc s (enter_alternate_grid s).
Proof.
  unfold enter_alternate_grid. cbv zeta. unfold with_cur, cur, swc, nosb.
  destruct (altmode s); sproj.
  - destruct (sb_allocate_rows (grid_set_scrollback (alt s) 0)) as (H1 & H2 & _). rewrite H1, H2. gproj. auto.
  - destruct (sb_allocate_rows (alt s)) as (H1 & H2 & _). rewrite H1, H2. gproj. auto.
Qed.
Lemma swc_exit_alternate_grid s : swc s (exit_alternate_grid s). Proof. split; [|split]; auto. Qed.
Lemma swc_scr_save_cursor s : swc s (scr_save_cursor s).
Proof. unfold scr_save_cursor, with_cur, cur, swc, nosb. destruct (altmode s); sproj; gproj; auto. Qed.
Lemma swc_scr_restore_cursor s : swc s (scr_restore_cursor s).
Proof. unfold scr_restore_cursor, with_cur, cur, swc, nosb. cbv zeta. destruct (altmode s); sproj; gproj; auto. Qed.
Lemma swc_clear_mouse_mode s m : swc s (clear_mouse_mode s m).
Proof. unfold clear_mouse_mode. destruct (mouse_mode_eqb _ _); (split; [|split]; auto). Qed.
Lemma swc_clear_mouse_enc s m : swc s (clear_mouse_enc s m).
Proof. unfold clear_mouse_enc. destruct (mouse_enc_eqb _ _); (split; [|split]; auto). Qed.
Global Hint Resolve swc_refl swc_screen_set_size swc_screen_set_scrollback swc_enter_alternate_grid
  swc_exit_alternate_grid swc_scr_save_cursor swc_scr_restore_cursor swc_clear_mouse_mode swc_clear_mouse_enc : sw.

Lemma sw_scr_text s ch s' : scr_text s ch = Ok s' -> sw s s'.
Proof. apply on_cur_gw. fgw. Qed.
Lemma sw_scr_lf s s' : scr_lf s = Ok s' -> sw s s'.
Proof. apply on_cur_gw. fgw. Qed.
Lemma sw_scr_su s n s' : scr_su s n = Ok s' -> sw s s'.
Proof. apply on_cur_gw. fgw. Qed.

Lemma swc_scr_bs s s' : scr_bs s = Ok s' -> swc s s'. Proof. apply on_cur_sbeq. fsb. Qed.
Lemma swc_scr_tab s s' : scr_tab s = Ok s' -> swc s s'. Proof. apply on_cur_sbeq. fsb. Qed.
Lemma swc_scr_cr s s' : scr_cr s = Ok s' -> swc s s'. Proof. apply on_cur_sbeq. fsb. Qed.
Lemma swc_scr_ri s s' : scr_ri s = Ok s' -> swc s s'. Proof. apply on_cur_sbeq. fsb. Qed.
Lemma swc_scr_ich s n s' : scr_ich s n = Ok s' -> swc s s'. Proof. apply on_cur_sbeq. fsb. Qed.
Lemma swc_scr_cuu s n s' : scr_cuu s n = Ok s' -> swc s s'.
Proof. apply on_cur_sbeq. intros x y E. inv E. apply sb_row_dec_clamp. Qed.
Lemma swc_scr_cud s n s' : scr_cud s n = Ok s' -> swc s s'. Proof. apply on_cur_sbeq. fsb. Qed.
Lemma swc_scr_cuf s n s' : scr_cuf s n = Ok s' -> swc s s'. Proof. apply on_cur_sbeq. fsb. Qed.
Lemma swc_scr_cub s n s' : scr_cub s n = Ok s' -> swc s s'. Proof. apply on_cur_sbeq. fsb. Qed.
Lemma swc_scr_cnl s n s' : scr_cnl s n = Ok s' -> swc s s'. Proof. apply on_cur_sbeq. fsb. Qed.
Lemma swc_scr_cpl s n s' : scr_cpl s n = Ok s' -> swc s s'.
Proof.
  apply on_cur_sbeq. intros x y E. cbv beta in E. bind_inv E. inv E. apply sb_col_set in E0.
  eapply sbeq_trans; [exact E0|apply sb_row_dec_clamp].
Qed.
Lemma swc_scr_cha s n s' : scr_cha s n = Ok s' -> swc s s'. Proof. apply on_cur_sbeq. fsb. Qed.
Lemma swc_scr_cup s r c s' : scr_cup s r c = Ok s' -> swc s s'. Proof. apply on_cur_sbeq. fsb. Qed.
Lemma swc_scr_vpa s n s' : scr_vpa s n = Ok s' -> swc s s'. Proof. apply on_cur_sbeq. fsb. Qed.
Lemma swc_scr_il s n s' : scr_il s n = Ok s' -> swc s s'. Proof. apply on_cur_sbeq. fsb. Qed.
Lemma swc_scr_dl s n s' : scr_dl s n = Ok s' -> swc s s'. Proof. apply on_cur_sbeq. fsb. Qed.
Lemma swc_scr_dch s n s' : scr_dch s n = Ok s' -> swc s s'. Proof. apply on_cur_sbeq. fsb. Qed.
Lemma swc_scr_sd s n s' : scr_sd s n = Ok s' -> swc s s'. Proof. apply on_cur_sbeq. fsb. Qed.
Lemma swc_scr_ech s n s' : scr_ech s n = Ok s' -> swc s s'. Proof. apply on_cur_sbeq. fsb. Qed.
Lemma swc_scr_decstbm s t b s' : scr_decstbm s t b = Ok s' -> swc s s'. Proof. apply on_cur_sbeq. fsb. Qed.

Global Hint Resolve swc_scr_bs swc_scr_tab swc_scr_cr swc_scr_ri swc_scr_ich swc_scr_cuu swc_scr_cud swc_scr_cuf
  swc_scr_cub swc_scr_cnl swc_scr_cpl swc_scr_cha swc_scr_cup swc_scr_vpa swc_scr_il swc_scr_dl swc_scr_dch
  swc_scr_sd swc_scr_ech swc_scr_decstbm : sw.

Lemma swc_scr_ed s mode s' k : scr_ed s mode = Ok (s', k) -> swc s s'.
Proof.
  unfold scr_ed. intros E. sbinv E; try apply swc_refl;
    (eapply on_cur_sbeq; [|eassumption]); fsb.
Qed.
Lemma swc_scr_el s mode s' k : scr_el s mode = Ok (s', k) -> swc s s'.
Proof.
  unfold scr_el. intros E. sbinv E; try apply swc_refl;
    (eapply on_cur_sbeq; [|eassumption]); fsb.
Qed.

Lemma swc_with s : swc s (with_appcur s true) /\ swc s (with_appcur s false) /\
  (forall m, swc s (with_mmode s m)) /\ (forall m, swc s (with_menc s m)) /\
  (forall b, swc s (with_hide s b)) /\ (forall b, swc s (with_paste s b)) /\ (forall b, swc s (with_keypad s b)) /\
  (forall a, swc s (with_pen s a)).
Proof. repeat match goal with |- _ /\ _ => split end; intros; (split; [|split]; auto). Qed.

Lemma swc_decset1 s p s' k : decset1 s p = Ok (s', k) -> swc s s'.
Proof.
  unfold decset1. intros E. destruct (swc_with s) as (W1 & W2 & W3 & W4 & W5 & W6 & W7 & W8).
  sbinv E; auto with sw.
  - eapply on_cur_sbeq; [|eassumption]. fsb.
  - eapply swc_trans; [|apply swc_enter_alternate_grid].
    eapply swc_trans; [apply swc_scr_save_cursor|].
    apply sb_grid_clear in E0 as (H1 & H2 & _).
    unfold swc, nosb. sproj. rewrite H1, H2. split; [|split]; auto.
Qed.

Lemma swc_decrst1 s p s' k : decrst1 s p = Ok (s', k) -> swc s s'.
Proof.
  unfold decrst1. intros E. destruct (swc_with s) as (W1 & W2 & W3 & W4 & W5 & W6 & W7 & W8).
  sbinv E; auto with sw.
  eapply on_cur_sbeq; [|eassumption]. fsb.
Qed.

Lemma swc_fold_params f ps s n s' k :
  (forall s p s' k, f s p = Ok (s', k) -> swc s s') -> fold_params f ps s n = Ok (s', k) -> swc s s'.
Proof.
  intros Hf. revert s n. induction ps as [|p ps IH]; intros s n E; cbn [fold_params] in E.
  - inv E. apply swc_refl.
  - bind_inv E. destruct v as [s1 k1]. eapply swc_trans; [eapply Hf; exact E0|eapply IH; exact E].
Qed.
Lemma swc_scr_decset s ps s' k : scr_decset s ps = Ok (s', k) -> swc s s'.
Proof. apply swc_fold_params. exact swc_decset1. Qed.
Lemma swc_scr_decrst s ps s' k : scr_decrst s ps = Ok (s', k) -> swc s s'.
Proof. apply swc_fold_params. exact swc_decrst1. Qed.
Lemma swc_scr_sgr s ps s' k : scr_sgr s ps = (s', k) -> swc s s'.
Proof. unfold scr_sgr. destruct (sgr ps (pen s)) as [a n]. intros E. inv E. split; [|split]; auto. Qed.

(* RIS: a fresh screen with the same capacity; both histories are emptied *)
Lemma scr_ris_inv s s' : scr_ris s = Ok s' ->
  sb_cap (g s') = sb_cap (g s) /\ sb (g s') = [] /\ nosb (alt s') /\ sb_off (g s') = 0 /\ altmode s' = false.
Proof.
  unfold scr_ris, screen_new, grid_new. intros E. bind_inv E. bind_inv E0. inv E0. bind_inv E. bind_inv E0. inv E0.
  inv E. sproj. unfold allocate_rows, nosb. cbn. auto.
Qed.

(* ---- Perform.v ---- *)
Definition pw (s s' : screen) : Prop :=
  sb_cap (g s') = sb_cap (g s) /\ (nosb (alt s) -> nosb (alt s')) /\
  (altmode s = true -> sb (g s') = sb (g s) \/ sb (g s') = []).
Lemma sw_pw a b : sw a b -> pw a b.
Proof. unfold sw, pw. intros (?&?&?). split; [|split]; auto. Qed.
Lemma swc_pw a b : swc a b -> pw a b.
Proof. intros H. apply sw_pw, swc_sw, H. Qed.
Lemma pw_sw2 a b : pw a b -> sw2 a b.
Proof. unfold pw, sw2. intros (?&?&?). split; auto. Qed.
Lemma pw_refl s : pw s s. Proof. apply swc_pw, swc_refl. Qed.
Lemma pw_scr_ris s s' : scr_ris s = Ok s' -> pw s s'.
Proof. intros E. apply scr_ris_inv in E as (H1 & H2 & H3 & _). split; [|split]; auto. Qed.

Global Hint Resolve swc_scr_ed swc_scr_el swc_scr_decset swc_scr_decrst swc_scr_sgr : sw.
Global Hint Resolve sw_scr_text sw_scr_lf sw_scr_su : sw.
Global Hint Resolve pw_refl pw_scr_ris : sw.

(* finish: the result is one of the known screen operations *)
Ltac pwfin :=
  first [ apply pw_refl
        | solve [eauto 2 with sw]
        | solve [apply swc_pw; eauto 2 with sw]
        | solve [apply sw_pw; eauto 2 with sw] ].

Lemma pw_do_execute s b s' e : do_execute s b = Ok (s', e) -> pw s s'.
Proof. unfold do_execute. intros E. sbinv E; pwfin. Qed.

Lemma pw_do_print s c s' e : do_print s c = Ok (s', e) -> pw s s'.
Proof.
  unfold do_print. intros E. destruct ((128 <=? c) && (c <? 160)); [eapply pw_do_execute; exact E|].
  sbinv E; pwfin.
Qed.

Lemma pw_do_esc s inter b s' e : do_esc s inter b = Ok (s', e) -> pw s s'.
Proof.
  unfold do_esc. intros E. destruct (swc_with s) as (W1 & W2 & W3 & W4 & W5 & W6 & W7 & W8).
  destruct inter as [|i inter]; sbinv E; try pwfin; apply swc_pw; auto.
Qed.

Lemma noev_inv r s' e : noev r = Ok (s', e) -> r = Ok s'.
Proof. unfold noev. destruct r as [s|]; cbn [bind]; intros E; [inv E; reflexivity|discriminate]. Qed.

Lemma pw_do_csi rz s ps inter c s' e : do_csi rz s ps inter c = Ok (s', e) -> pw s s'.
Proof.
  unfold do_csi. cbv zeta. intros E. destruct inter as [|i inter].
  - repeat match type of E with
    | (if ?b then _ else _) = Ok _ => destruct b
    | noev _ = Ok _ => apply noev_inv in E
    end; try pwfin.
    + destruct (canon2 ps 1 1) as [r cc]. apply noev_inv in E. pwfin.
    + sbinv E. pwfin.
    + sbinv E. pwfin.
    + destruct (scr_sgr s ps) as [s1 k] eqn:Es. inv E. pwfin.
    + destruct (canon2 ps 1 (grows (cur s))) as [t b]. apply noev_inv in E. pwfin.
    + destruct ps as [|[|op p0] rest]; sbinv E; pwfin.
    + inv E. pwfin.
  - sbinv E; pwfin.
Qed.

Lemma pw_perform rz s a s' e : perform rz s a = Ok (s', e) -> pw s s'.
Proof.
  destruct a as [c|b|ps inter ign c|b| |ps bell|ps inter ign c|inter ign b]; cbn [perform]; intros E.
  - eapply pw_do_print; exact E.
  - eapply pw_do_execute; exact E.
  - inv E. apply pw_refl.
  - inv E. apply pw_refl.
  - inv E. apply pw_refl.
  - assert (fst (do_osc s ps) = s) as Hs.
    { unfold do_osc. destruct ps as [|k [|v [|w ps]]]; try reflexivity.
      repeat match goal with |- context[if ?b then _ else _] => destruct b end; reflexivity. }
    inv E. rewrite <- Hs at 1. rewrite H0. apply pw_refl.
  - eapply pw_do_csi; exact E.
  - eapply pw_do_esc; exact E.
Qed.

Lemma sw2_perform_all rz acts s evs s' e : perform_all rz s acts evs = Ok (s', e) -> sw2 s s'.
Proof.
  revert s evs. induction acts as [|a rest IH]; intros s evs E; cbn [perform_all] in E.
  - inv E. apply sw2_refl.
  - bind_inv E. destruct v as [s1 e1]. eapply sw2_trans; [apply pw_sw2; eapply pw_perform; exact E0|eapply IH; exact E].
Qed.

(* ---- Parser.v ---- *)
Lemma sw2_process p bs q : process p bs = Ok q -> sw2 (scr p) (scr q).
Proof.
  rewrite process_unfold. destruct (advance (vt p) _) as [v acts]. intros E. bind_inv E. destruct v0 as [s evs].
  inv E. cbn [scr]. eapply sw2_perform_all; exact E0.
Qed.

Lemma sw2_step p o q : step p o = Ok q -> sw2 (scr p) (scr q).
Proof.
  destruct o as [bs|bs|r c|k]; cbn [step]; intros E.
  - now apply sw2_process in E.
  - unfold write in E. bind_inv E. destruct v as [q1 n]. bind_inv E0. inv E0. inv E. now apply sw2_process in E1.
  - bind_inv E. inv E. cbn [scr with_scr]. apply sw_sw2, swc_sw. eapply swc_screen_set_size; exact E0.
  - inv E. cbn [scr with_scr]. apply sw_sw2, swc_sw, swc_screen_set_scrollback.
Qed.

Lemma sw2_run ops p q : run p ops = Ok q -> sw2 (scr p) (scr q).
Proof.
  revert p. induction ops as [|o rest IH]; intros p E; cbn [run] in E.
  - inv E. apply sw2_refl.
  - bind_inv E. eapply sw2_trans; [eapply sw2_step; exact E0|eapply IH; exact E].
Qed.

(* Part 2: the capacity of the primary history is fixed for the life of the parser *)
Theorem step_sb_cap p o q : step p o = Ok q -> sb_cap (g (scr q)) = sb_cap (g (scr p)).
Proof. intros E. apply sw2_step in E as [H _]. exact H. Qed.
Theorem run_sb_cap p ops q : run p ops = Ok q -> sb_cap (g (scr q)) = sb_cap (g (scr p)).
Proof. intros E. apply sw2_run in E as [H _]. exact H. Qed.
Lemma grid_new_sb r c cap x : grid_new r c cap = Ok x -> sb x = [] /\ sb_cap x = cap /\ sb_off x = 0.
Proof. unfold grid_new. intros E. bind_inv E. inv E. auto. Qed.
Lemma screen_new_sb r c cap s : screen_new r c cap = Ok s ->
  sb (g s) = [] /\ sb_cap (g s) = cap /\ sb_off (g s) = 0 /\ nosb (alt s) /\ sb_off (alt s) = 0 /\ altmode s = false.
Proof.
  unfold screen_new. intros E. bind_inv E. rename v into g0, E0 into Eg. bind_inv E. rename v into a0, E0 into Ea.
  inv E. sproj. apply grid_new_sb in Eg as (G1 & G2 & G3). apply grid_new_sb in Ea as (A1 & A2 & A3).
  destruct (sb_allocate_rows g0) as (H1 & H2 & H3). rewrite H1, H2, H3. unfold nosb. auto 10.
Qed.
Theorem parser_new_sb_cap rows cols cap rz p : parser_new rows cols cap rz = Ok p -> sb_cap (g (scr p)) = cap.
Proof.
  unfold parser_new. intros E. bind_inv E. inv E. cbn [scr]. apply screen_new_sb in E0. tauto.
Qed.

(* Part 5: the alternate grid never has a history *)
Definition alt_nosb (s : screen) : Prop := nosb (alt s).

Theorem parser_new_alt_nosb rows cols cap rz p : parser_new rows cols cap rz = Ok p -> alt_nosb (scr p).
Proof.
  unfold parser_new. intros E. bind_inv E. inv E. cbn [scr]. apply screen_new_sb in E0. unfold alt_nosb. tauto.
Qed.
Theorem step_alt_nosb p o q : step p o = Ok q -> alt_nosb (scr p) -> alt_nosb (scr q).
Proof. intros E. apply sw2_step in E as [_ H]. exact H. Qed.
Theorem run_alt_nosb p ops q : run p ops = Ok q -> alt_nosb (scr p) -> alt_nosb (scr q).
Proof. intros E. apply sw2_run in E as [_ H]. exact H. Qed.

(* while the alternate screen is shown, one action cannot add to the primary history: it is
   unchanged, or emptied by RIS *)
Theorem perform_alt_norecord rz s a s' e : perform rz s a = Ok (s', e) -> altmode s = true ->
  sb (g s') = sb (g s) \/ sb (g s') = [].
Proof. intros E. apply pw_perform in E as (_ & _ & H). exact H. Qed.

(* an operation applied through on_cur on the alternate screen leaves the primary grid alone *)
Lemma on_cur_alt s f s' : on_cur s f = Ok s' -> altmode s = true -> g s' = g s.
Proof. unfold on_cur, with_cur. intros E Ha. bind_inv E. inv E. rewrite Ha. reflexivity. Qed.

(* entering the alternate screen from the primary resets the primary's offset *)
Theorem enter_alt_resets_offset s : altmode s = false ->
  sb_off (g (enter_alternate_grid s)) = 0 /\ sb (g (enter_alternate_grid s)) = sb (g s) /\
  altmode (enter_alternate_grid s) = true.
Proof.
  intros Ha. unfold enter_alternate_grid. cbv zeta. unfold with_cur, cur. rewrite Ha. sproj.
  unfold grid_set_scrollback. gproj. rewrite N.min_0_l. auto.
Qed.

(* the two DECSET forms *)
Theorem decset_47_offset s s' k : altmode s = false -> decset1 s [47] = Ok (s', k) ->
  sb_off (g s') = 0 /\ sb (g s') = sb (g s) /\ altmode s' = true.
Proof.
  intros Ha E. unfold decset1 in E. cbn [single] in E. revert E. gsimp. intros E. inv E.
  now apply enter_alt_resets_offset.
Qed.
Theorem decset_1049_offset s s' k : altmode s = false -> decset1 s [1049] = Ok (s', k) ->
  sb_off (g s') = 0 /\ sb (g s') = sb (g s) /\ altmode s' = true.
Proof.
  intros Ha E. unfold decset1 in E. cbn [single] in E. revert E. gsimp. cbv zeta. intros E. bind_inv E. inv E.
  destruct (enter_alt_resets_offset (with_alt (scr_save_cursor s) v)) as (H1 & H2 & H3).
  - unfold scr_save_cursor, with_cur. rewrite Ha. sproj. exact Ha.
  - split; [exact H1|]. split; [|exact H3]. rewrite H2.
    unfold scr_save_cursor, with_cur, cur. rewrite Ha. reflexivity.
Qed.
