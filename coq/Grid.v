(* Grid.v — grid.rs state operations, in the res monad (emitters are in Emit.v). *)
Require Import Base Attrs Cell Row.

Record grid := mkGrid {
  grows : N; gcols : N;
  prow : N; pcol : N;
  sprow : N; spcol : N;
  live : list row;
  top : N; bot : N;
  origin : bool; sorigin : bool;
  sb : list row; sb_cap : N; sb_off : N }.

Definition with_pos (g : grid) (r c : N) : grid :=
  mkGrid (grows g) (gcols g) r c (sprow g) (spcol g) (live g) (top g) (bot g)
         (origin g) (sorigin g) (sb g) (sb_cap g) (sb_off g).
Definition with_prow (g : grid) (r : N) := with_pos g r (pcol g).
Definition with_pcol (g : grid) (c : N) := with_pos g (prow g) c.
Definition with_live (g : grid) (l : list row) : grid :=
  mkGrid (grows g) (gcols g) (prow g) (pcol g) (sprow g) (spcol g) l (top g) (bot g)
         (origin g) (sorigin g) (sb g) (sb_cap g) (sb_off g).
Definition with_region (g : grid) (t b : N) : grid :=
  mkGrid (grows g) (gcols g) (prow g) (pcol g) (sprow g) (spcol g) (live g) t b
         (origin g) (sorigin g) (sb g) (sb_cap g) (sb_off g).
Definition with_origin (g : grid) (o : bool) : grid :=
  mkGrid (grows g) (gcols g) (prow g) (pcol g) (sprow g) (spcol g) (live g) (top g) (bot g)
         o (sorigin g) (sb g) (sb_cap g) (sb_off g).
Definition with_sb (g : grid) (s : list row) (off : N) : grid :=
  mkGrid (grows g) (gcols g) (prow g) (pcol g) (sprow g) (spcol g) (live g) (top g) (bot g)
         (origin g) (sorigin g) s (sb_cap g) off.
Definition with_saved (g : grid) (r c : N) (o : bool) : grid :=
  mkGrid (grows g) (gcols g) (prow g) (pcol g) r c (live g) (top g) (bot g)
         (origin g) o (sb g) (sb_cap g) (sb_off g).
Definition with_size (g : grid) (r c : N) : grid :=
  mkGrid r c (prow g) (pcol g) (sprow g) (spcol g) (live g) (top g) (bot g)
         (origin g) (sorigin g) (sb g) (sb_cap g) (sb_off g).

(* Grid::new *)
Definition grid_new (rows cols cap : N) : res grid :=
  do b <- sub16 rows 1;
  Ok (mkGrid rows cols 0 0 0 0 [] 0 b false false [] cap 0).

Definition new_row (g : grid) : row := row_new (gcols g).

(* Grid::allocate_rows *)
Definition allocate_rows (g : grid) : grid :=
  match live g with
  | [] => with_live g (repeatN (row_new (gcols g)) (grows g))
  | _ => g
  end.

(* Grid::clear *)
Definition grid_clear (g : grid) : res grid :=
  do b <- sub16 (grows g) 1;
  Ok (mkGrid (grows g) (gcols g) 0 0 0 0 (map (row_clear dflt) (live g)) 0 b false false
             (sb g) (sb_cap g) (sb_off g)).

Definition drawing_row (g : grid) (r : N) : option row := get (live g) r.
Definition drawing_cell (g : grid) (r c : N) : option cell :=
  match drawing_row g r with Some rw => row_get rw c | None => None end.

(* drawing_row_mut(r).unwrap() then update *)
Definition upd_row (g : grid) (r : N) (f : row -> res row) : res grid :=
  do rw <- unwrap (drawing_row g r);
  do rw' <- f rw;
  Ok (with_live g (set_at (live g) r rw')).

(* drawing_cell_mut(pos).unwrap() then update *)
Definition upd_cell (g : grid) (r c : N) (f : cell -> cell) : res grid :=
  do rw <- unwrap (drawing_row g r);
  do cl <- unwrap (row_get rw c);
  Ok (with_live g (set_at (live g) r (row_set_cell rw c (f cl)))).

Definition upd_current_row (g : grid) (f : row -> res row) : res grid := upd_row g (prow g) f.

(* Grid::visible_rows *)
Definition visible_rows (g : grid) : res (list row) :=
  let rows_len := len (live g) in
  do k <- subz (len (sb g)) (sb_off g);
  Ok (firstnN rows_len (skipnN k (sb g)) ++ firstnN (rows_len - sb_off g) (live g)).

Definition visible_row (g : grid) (r : N) : res (option row) :=
  do vr <- visible_rows g; Ok (get vr r).
Definition visible_cell (g : grid) (r c : N) : res (option cell) :=
  do orw <- visible_row g r;
  Ok (match orw with Some rw => row_get rw c | None => None end).

(* Grid::set_scrollback *)
Definition grid_set_scrollback (g : grid) (k : N) : grid := with_sb g (sb g) (N.min k (len (sb g))).

(* clamps; each returns the number of rows clamped away *)
Definition row_clamp_top (g : grid) (limit : bool) : grid * N :=
  if limit && (prow g <? top g) then (with_prow g (top g), top g - prow g) else (g, 0).

Definition row_clamp_bottom (g : grid) (limit : bool) : res (grid * N) :=
  do bottom <- (if limit then Ok (bot g) else sub16 (grows g) 1);
  Ok (if bottom <? prow g then (with_prow g bottom, prow g - bottom) else (g, 0)).

Definition row_clamp (g : grid) : res grid :=
  do m <- sub16 (grows g) 1; Ok (if m <? prow g then with_prow g m else g).

Definition col_clamp (g : grid) : res grid :=
  do m <- sub16 (gcols g) 1; Ok (if m <? pcol g then with_pcol g m else g).

(* Grid::set_size, after the D5/D7 repairs *)
Definition grid_set_size (g : grid) (rows cols : N) : res grid :=
  let l1 := if negb (cols =? gcols g) then map (row_wrap false) (live g) else live g in
  do oldm <- sub16 (grows g) 1;
  do newm <- sub16 rows 1;
  do newc <- sub16 cols 1;
  let b1 := if bot g =? oldm then newm else bot g in
  let l2 := map (fun r => row_resize r cols cell_new) l1 in
  let l3 := resize_list l2 rows (row_new cols) in
  let b2 := if rows <=? b1 then newm else b1 in
  let t2 := if b2 <=? top g then 0 else top g in
  let g1 := mkGrid rows cols (prow g) (pcol g) (sprow g) (spcol g) l3 t2 b2
                   (origin g) (sorigin g) (sb g) (sb_cap g) (sb_off g) in
  let '(g2, _) := row_clamp_top g1 false in
  do '(g3, _) <- row_clamp_bottom g2 false;
  do g4 <- col_clamp g3;
  Ok (with_saved g4 (N.min (sprow g4) newm) (N.min (spcol g4) newc) (sorigin g4)).

(* Grid::set_pos *)
Definition grid_set_pos (g : grid) (r c : N) : res grid :=
  let r1 := if origin g then sat_add16 r (top g) else r in
  let g1 := with_pos g r1 c in
  let '(g2, _) := row_clamp_top g1 (origin g1) in
  do '(g3, _) <- row_clamp_bottom g2 (origin g2);
  col_clamp g3.

Definition save_cursor (g : grid) : grid := with_saved g (prow g) (pcol g) (origin g).
Definition restore_cursor (g : grid) : grid :=
  with_origin (with_pos g (sprow g) (spcol g)) (sorigin g).

(* erase *)
Definition erase_all (g : grid) (a : attrs) : grid := with_live g (map (row_clear a) (live g)).

Definition erase_row_forward (g : grid) (a : attrs) : res grid :=
  upd_current_row g (fun rw =>
    for_range (N.to_nat (gcols g - pcol g)) (pcol g) (fun col r => row_erase r col a) rw).

Definition erase_row_backward (g : grid) (a : attrs) : res grid :=
  do m <- sub16 (gcols g) 1;
  upd_current_row g (fun rw =>
    for_range (S (N.to_nat (N.min (pcol g) m))) 0 (fun col r => row_erase r col a) rw).

Definition erase_all_forward (g : grid) (a : attrs) : res grid :=
  let k := S (N.to_nat (prow g)) in
  let g1 := with_live g (firstn k (live g) ++ map (row_clear a) (skipn k (live g))) in
  erase_row_forward g1 a.

Definition erase_all_backward (g : grid) (a : attrs) : res grid :=
  let k := N.to_nat (prow g) in
  let g1 := with_live g (map (row_clear a) (firstn k (live g)) ++ skipn k (live g)) in
  erase_row_backward g1 a.

Definition erase_row (g : grid) (a : attrs) : res grid :=
  upd_current_row g (fun rw => Ok (row_clear a rw)).

(* Grid::erase_cells *)
Definition erase_cells (g : grid) (count : N) (a : attrs) : res grid :=
  let hi := N.min (sat_add16 (pcol g) count) (gcols g) in
  upd_current_row g (fun rw =>
    for_range (N.to_nat (hi - pcol g)) (pcol g) (fun col r => row_erase r col a) rw).

(* one iteration of the ICH loop *)
Definition ins_step (wide : bool) (p : N) (r : row) : res row :=
  do r1 <- (if wide then row_upd r p (cell_set_cont false) else Ok r);
  do r2 <- row_insert r1 p cell_new;
  (if wide then row_upd r2 p (cell_set_cont true) else Ok r2).

(* Grid::insert_cells, after the D3 repair *)
Definition insert_cells (g : grid) (count : N) : res grid :=
  do wide <- (if pcol g <? gcols g
              then do c <- unwrap (drawing_cell g (prow g) (pcol g)); Ok (ccont c)
              else Ok false);
  do room <- sub16 (gcols g) (pcol g);
  upd_current_row g (fun rw =>
    do rw' <- iter_res (N.to_nat (N.min count room)) (ins_step wide (pcol g)) rw;
    row_truncate rw' (gcols g)).

(* Grid::delete_cells *)
Definition delete_cells (g : grid) (count : N) : res grid :=
  do room <- sub16 (gcols g) (pcol g);
  upd_current_row g (fun rw =>
    do rw' <- iter_res (N.to_nat (N.min count room)) (fun r => row_remove r (pcol g)) rw;
    Ok (row_resize rw' (gcols g) cell_new)).

Definition wrap_false_at (l : list row) (i : N) : res (list row) :=
  do r <- idx l i; Ok (set_at l i (row_wrap false r)).

(* Grid::insert_lines *)
Definition insert_lines (g : grid) (count : N) : res grid :=
  do l <- iter_res (N.to_nat count) (fun l =>
    do '(_, l1) <- remove_at l (bot g);
    do l2 <- insert_at l1 (prow g) (new_row g);
    wrap_false_at l2 (bot g)) (live g);
  Ok (with_live g l).

(* Grid::delete_lines *)
Definition delete_lines (g : grid) (count : N) : res grid :=
  do room <- sub16 (grows g) (prow g);
  do l <- iter_res (N.to_nat (N.min count room)) (fun l =>
    do l1 <- insert_at l (bot g + 1) (new_row g);
    do '(_, l2) <- remove_at l1 (prow g);
    Ok l2) (live g);
  Ok (with_live g l).

Definition scroll_region_active (g : grid) : res bool :=
  do m <- sub16 (grows g) 1;
  Ok (negb (top g =? 0) || negb (bot g =? m)).

(* pop_front while over capacity *)
Definition trim_front {A} (l : list A) (cap : N) : list A := skipnN (len l - cap) l.

(* Grid::scroll_up *)
Definition scroll_up (g : grid) (count : N) : res grid :=
  do room <- sub16 (grows g) (top g);
  do active <- scroll_region_active g;
  iter_res (N.to_nat (N.min count room)) (fun g =>
    do l1 <- insert_at (live g) (bot g + 1) (new_row g);
    do '(removed, l2) <- remove_at l1 (top g);
    let g1 := with_live g l2 in
    if (0 <? sb_cap g1) && negb active then
      let s := trim_front (sb g1 ++ [removed]) (sb_cap g1) in
      let off := if 0 <? sb_off g1 then N.min (len s) (sb_off g1 + 1) else sb_off g1 in
      Ok (with_sb g1 s off)
    else Ok g1) g.

(* Grid::scroll_down *)
Definition scroll_down (g : grid) (count : N) : res grid :=
  do l <- iter_res (N.to_nat count) (fun l =>
    do '(_, l1) <- remove_at l (bot g);
    do l2 <- insert_at l1 (top g) (new_row g);
    wrap_false_at l2 (bot g)) (live g);
  Ok (with_live g l).

(* Grid::set_scroll_region *)
Definition set_scroll_region (g : grid) (t b : N) : res grid :=
  do m <- sub16 (grows g) 1;
  let b' := N.min b m in
  let g1 := if t <? b' then with_region g t b' else with_region g 0 m in
  Ok (with_pos g1 (top g1) 0).

Definition in_scroll_region (g : grid) : bool := (top g <=? prow g) && (prow g <=? bot g).

(* Grid::set_origin_mode *)
Definition set_origin_mode (g : grid) (m : bool) : res grid := grid_set_pos (with_origin g m) 0 0.

Definition row_inc_clamp (g : grid) (count : N) : res grid :=
  let inr := in_scroll_region g in
  do '(g1, _) <- row_clamp_bottom (with_prow g (sat_add16 (prow g) count)) inr;
  Ok g1.

Definition row_inc_scroll (g : grid) (count : N) : res (grid * N) :=
  let inr := in_scroll_region g in
  do '(g1, lines) <- row_clamp_bottom (with_prow g (sat_add16 (prow g) count)) inr;
  if inr then do g2 <- scroll_up g1 lines; Ok (g2, lines) else Ok (g1, 0).

Definition row_dec_clamp (g : grid) (count : N) : grid :=
  let inr := in_scroll_region g in
  fst (row_clamp_top (with_prow g (sat_sub16 (prow g) count)) inr).

Definition row_dec_scroll (g : grid) (count : N) : res grid :=
  let inr := in_scroll_region g in
  let extra := if prow g <? count then count - prow g else 0 in
  let '(g1, lines) := row_clamp_top (with_prow g (sat_sub16 (prow g) count)) inr in
  do n <- add16 lines extra;
  scroll_down g1 n.

Definition row_set (g : grid) (i : N) : res grid := row_clamp (with_prow g i).
Definition col_inc (g : grid) (count : N) : grid := with_pcol g (sat_add16 (pcol g) count).
Definition col_inc_clamp (g : grid) (count : N) : res grid := col_clamp (col_inc g count).
Definition col_dec (g : grid) (count : N) : grid := with_pcol g (sat_sub16 (pcol g) count).
Definition col_tab (g : grid) : res grid :=
  do c <- add16 (pcol g - (pcol g) mod 8) 8; col_clamp (with_pcol g c).
Definition col_set (g : grid) (i : N) : res grid := col_clamp (with_pcol g i).

(* Grid::col_wrap, after the D1 repair *)
Definition col_wrap (g : grid) (width : N) (wrap : bool) : res grid :=
  do lim <- sub16 (gcols g) width;
  if lim <? pcol g then
    let prev_row := prow g in
    do '(g1, scrolled) <- row_inc_scroll (with_pcol g 0) 1;
    if scrolled <=? prev_row then
      let pr := prev_row - scrolled in
      do pr1 <- add16 pr 1;
      upd_row g1 pr (fun rw => Ok (row_wrap (wrap && (pr1 =? prow g1)) rw))
    else Ok g1
  else Ok g.
