(* Extract.v — extraction of the executable model to OCaml (ExtrOcamlBasic only). *)
Require Import Base Utf8 Width Attrs Cell Row Grid Screen Vte Perform Parser Term Emit Fingerprint.
Require Extraction.
Require Import ExtrOcamlBasic.
Extraction Language OCaml.
Extraction "model.ml"
  utf8_encode encode_str from_utf8 wd
  parser_new process write flush step run
  screen_set_size screen_set_scrollback visible_rows cur
  advance p_init
  ser ser_all
  contents_formatted_t contents_diff_t state_formatted_t state_diff_t
  input_mode_formatted_t input_mode_diff_t attributes_formatted_t cursor_state_formatted_t
  rows_formatted_t rows_diff_t contents_text rows_text contents_between
  cell_eqb cell_new attrs_eqb dflt fp_case.
