(* Idem.v — the formatted emitters never read the wrap flag of the last visible row; hence the
   receiver of a full redraw re-emits exactly the same tokens (C01_idem without any hypothesis on
   that flag, and at any scrollback offset of the source). *)
Require Import Tac ListN Utf8 Width Attrs Cell Row Grid Screen Vte Perform Parser Term Emit.
Require Import RowInv GridInv TextInv ScreenInv ParseSer CellWf WfInv WrapInv WrapInvScreen SgrSpec EmitSafe ObsSpec.
Require Import Recv RowPaint Redraw Cursor C01Main.
Open Scope N_scope.

(* same cells row by row, same flags except on the last row *)
Fixpoint sim (a b : list row) : Prop :=
  match a, b with
  | [], [] => True
  | r :: l, r' :: l' => cells r = cells r' /\ (l <> [] -> wrapped r = wrapped r') /\ sim l l'
  | _, _ => False
  end.

Lemma row_formatted_cells r r' s w i wr pp pa : cells r = cells r' ->
  row_formatted r s w i wr pp pa = row_formatted r' s w i wr pp pa.
Proof. intros H. unfold row_formatted, row_cols, row_get. rewrite H. reflexivity. Qed.

Lemma sim_nil_r a : sim a [] -> a = [].
Proof. destruct a; [reflexivity|intros []]. Qed.

Lemma loop_sim cols : forall a b, sim a b -> forall i w pos at' acc,
  rows_formatted_loop cols a i w pos at' acc = rows_formatted_loop cols b i w pos at' acc.
Proof.
  induction a as [|r l IH]; intros [|r' l'] H i w pos at' acc; try (destruct H; fail); [reflexivity|].
  destruct H as (Hc & Hw & Hs). cbn [rows_formatted_loop]. rewrite (row_formatted_cells r r' _ _ _ _ _ _ Hc).
  destruct (row_formatted r' 0 cols i w (Some pos) (Some at')) as [[[ts pos'] a']|k]; cbn [bind]; [|reflexivity].
  destruct l as [|r2 l2].
  - destruct l'; [reflexivity|destruct Hs].
  - rewrite (Hw ltac:(discriminate)). apply IH. exact Hs.
Qed.

Lemma sim_get a : forall b i, sim a b -> option_map cells (get a i) = option_map cells (get b i).
Proof.
  induction a as [|r l IH]; intros [|r' l'] i H; try (destruct H; fail); [reflexivity|].
  destruct H as (Hc & _ & Hs). rewrite !get_cons. destruct (i =? 0); [cbn; now rewrite Hc|apply IH, Hs].
Qed.

Lemma vcell_sim a b r c : sim a b -> vcell a r c = vcell b r c.
Proof.
  intros H. pose proof (sim_get a b r H) as E. unfold vcell, row_get.
  destruct (get a r), (get b r); cbn in E; try discriminate; [|reflexivity]. inv E. now rewrite H1.
Qed.

Lemma find_filled_sim a b cols n : sim a b -> find_filled a cols n = find_filled b cols n.
Proof.
  intros H. induction n as [|k IH]; cbn [find_filled]; [reflexivity|].
  destruct (sub16 cols 1) as [lastc|]; cbn [bind]; [|reflexivity].
  rewrite !(vcell_sim a b _ _ H).
  destruct (if ccont (vcell b (N.of_nat k) lastc) then sub16 cols 2 else Ok lastc) as [c|]; cbn [bind]; [|reflexivity].
  rewrite !(vcell_sim a b _ _ H), IH. reflexivity.
Qed.

Lemma cursor_sim x y a b ppos pattrs : visible_rows x = Ok a -> visible_rows y = Ok b -> sim a b ->
  gcols x = gcols y -> prow x = prow y -> pcol x = pcol y ->
  cursor_position_formatted x ppos pattrs = cursor_position_formatted y ppos pattrs.
Proof.
  intros Ha Hb H Ec Er Ep. unfold cursor_position_formatted. rewrite Ha, Hb, Ec, Er, Ep. cbn [bind].
  destruct (negb _ && _); [|reflexivity].
  destruct (sub16 (gcols y) 1) as [lastc|]; cbn [bind]; [|reflexivity].
  rewrite !(vcell_sim a b _ _ H).
  destruct (if ccont (vcell b (prow y) lastc) then sub16 (gcols y) 2 else Ok lastc) as [c|]; cbn [bind]; [|reflexivity].
  rewrite !(vcell_sim a b _ _ H), (find_filled_sim a b _ _ H). reflexivity.
Qed.

Lemma grid_contents_sim x y a b : visible_rows x = Ok a -> visible_rows y = Ok b -> sim a b ->
  gcols x = gcols y -> prow x = prow y -> pcol x = pcol y ->
  grid_contents_formatted x = grid_contents_formatted y.
Proof.
  intros Ha Hb H Ec Er Ep. unfold grid_contents_formatted. rewrite Ha, Hb, Ec. cbn [bind].
  rewrite (loop_sim (gcols y) a b H).
  destruct (rows_formatted_loop (gcols y) b 0 false (0, 0) dflt []) as [[[ts pos] at']|k]; cbn [bind]; [|reflexivity].
  rewrite (cursor_sim x y a b _ _ Ha Hb H (eq_trans Ec eq_refl) Er Ep). reflexivity.
Qed.

(* the receiver of a redraw is similar to the source *)
Lemma sim_of_index : forall a b n, len a = n -> len b = n ->
  (forall i, i < n -> exists ri src, get b i = Some ri /\ get a i = Some src /\ cells ri = cells src /\
                      (i + 1 < n -> wrapped ri = wrapped src)) ->
  sim a b.
Proof.
  induction a as [|r l IH]; intros [|r' l'] n La Lb H; rewrite ?len_nil, ?len_cons in *; try lia; [exact I|].
  cbn [sim]. destruct (H 0 ltac:(lia)) as (ri & src & G1 & G2 & Ec & Ew). rewrite get_cons in G1, G2. cbn in G1, G2. inv G1. inv G2.
  split; [auto|]. split.
  - intros Hne. symmetry. apply Ew. destruct l; [congruence|]. rewrite len_cons. lia.
  - apply (IH l' (len l)); [reflexivity|lia|]. intros i Hi.
    destruct (H (i + 1) ltac:(lia)) as (ri2 & src2 & G1 & G2 & Ec2 & Ew2).
    rewrite get_cons in G1, G2. destruct (N.eqb_spec (i + 1) 0); [lia|]. replace (i + 1 - 1) with i in * by lia.
    exists ri2, src2. repeat split; auto. intros Hlt. apply Ew2. lia.
Qed.

Theorem same_obs_contents S R' vr : screen_ok S -> visible_rows (cur S) = Ok vr -> canvas R' ->
  same_obs_minus S R' vr -> contents_formatted_t R' = contents_formatted_t S.
Proof.
  intros OkS Hv CR [A1 A2 A3 A4 A5 A6 A7].
  destruct (visible_rows_ok (cur S) (cur_ok _ OkS)) as (vr' & Hv' & Lvr & _). rewrite Hv in Hv'. inv Hv'.
  unfold contents_formatted_t. rewrite (canvas_cur _ CR).
  assert (visible_rows (g R') = Ok (live (g R'))) as Hr by (apply visible_rows_off0; apply CR).
  rewrite (grid_contents_sim (g R') (cur S) (live (g R')) vr' Hr Hv); auto.
  - rewrite A6, A7. reflexivity.
  - assert (sim vr' (live (g R'))) as Hs.
    { apply (sim_of_index vr' (live (g R')) (grows (cur S))); auto.
      - destruct (canvas_rows_good _ CR) as (Ll & _). congruence.
      - intros i Hi. destruct (A3 i Hi) as (ri & src & G1 & G2 & Ec & W1 & _). exists ri, src. auto. }
    clear - Hs. revert Hs. generalize (live (g R')). induction vr' as [|r l IH]; intros [|r' l'] H; try (destruct H; fail); [exact I|].
    destruct H as (Hc & Hw & Hs). cbn [sim]. split; [auto|]. split; [|apply IH, Hs].
    intros Hne. symmetry. apply Hw. destruct l; [destruct l'; [congruence|destruct Hs]|discriminate].
Qed.

(* C01_idem, strong form: no hypothesis on the last row's flag, any scrollback offset of the source *)
Theorem C01_idem_strong S R vr ts :
  source_ok S vr -> canvas R -> grows (g R) = grows (cur S) -> gcols (g R) = gcols (cur S) ->
  mmode R = MNone -> menc R = EDefault ->
  state_formatted_t S = Ok ts ->
  exists R', play false R ts = Ok (R', []) /\ canvas R' /\ state_formatted_t R' = Ok ts.
Proof.
  intros Hs CR Er Ec Hm He Ets.
  destruct (C01_fresh S R vr ts Hs CR Er Ec Hm He Ets) as (R' & P & C' & So & (M1 & M2 & M3 & M4 & M5)).
  exists R'. split; [exact P|]. split; [exact C'|].
  rewrite <- Ets. unfold state_formatted_t.
  rewrite (same_obs_contents S R' vr (so_ok _ _ Hs) (so_vis _ _ Hs) C' So).
  unfold input_mode_formatted_t. rewrite M1, M2, M3, M4, M5. reflexivity.
Qed.
