(* CostSpec.v — cost clause of property C03: no single control sequence stalls
   processing.

   WHAT IS MEASURED.  [action_cost rz s a] (CostModel.v) is the counter of the
   cost-instrumented copy [perform_c] of the model's [perform]; CostModel.v
   proves  fst (perform_c rz s a) = perform rz s a  (the instrumented program
   IS the model, so it iterates exactly as often as the model does) and lists
   the unit charges (cells / row pointers moved or written).  It is an
   ABSTRACT WORK MEASURE OF THE MODEL, tied to the model's recursion.  Its
   relation to CPU time of the Rust crate is MEASURED by the test oracle
   (CPU-time cost oracle over the seeded corpus), NOT proved here.

   WHAT IS PROVED, for every screen satisfying the invariant [screen_ok], with
   R = grows (g s) and C = gcols (g s):
   - [cost_param_free]: every action other than IL (CSI n L) and SD (CSI n T)
     costs at most [base_bound R C], a polynomial in the screen dimensions
     only, whatever the parameter VALUES are (only the NUMBER of parameters is
     assumed <= 32 = vte's MAX_PARAMS);
   - [cost_il], [cost_sd]: IL / SD cost EXACTLY 1 + n * (2R + C + 1), n the
     canonicalised parameter: linear in n, the loop is not clamped;
   - [cost_bound]: hence every action costs at most
     65535 * (2R + C + 1) + base_bound R C  when its first parameter is a u16;
   - [ich_cost], [ich_old_cost]: the D3 repair; [cost_numeric]: 132x50 figures.
   The harness's resize policy (rz = true: CSI 8;r;c t makes the application
   callback call Screen::set_size with r, c <= 512) is bounded separately in
   [cost_resize]. *)
Require Import Tac ListN Utf8 Width Attrs Cell Row Grid Screen Vte Perform
  RowInv GridInv TextInv ScreenInv CostMonad CostModel CostGrid.
Open Scope N_scope.

(* ---------- small helpers ---------- *)
Lemma snd_noev_c r : snd (noev_c r) = snd r.
Proof. unfold noev_c, bindc. destruct (fst r); cbn [snd free]; lia. Qed.

Lemma snd_unh_c_le unh r c kb : snd r <= c ->
  (forall s1 k, fst r = Ok (s1, k) -> k <= kb) -> snd (unh_c unh r) <= c + kb.
Proof.
  intros Hc Hk. unfold unh_c. apply snd_bindc_le; [exact Hc|].
  intros [s1 k] E. cbn [snd charge]. eauto.
Qed.

Lemma on_cur_c_le s f k : snd (f (cur s)) <= k -> snd (on_cur_c s f) <= k.
Proof.
  intros H. unfold on_cur_c. replace k with (k + 0) by lia.
  apply snd_bindc_le; [exact H|]. intros; cbn; lia.
Qed.

Lemma on_cur_c_eq s f y : fst (f (cur s)) = Ok y -> snd (on_cur_c s f) = snd (f (cur s)).
Proof. intros H. unfold on_cur_c. rewrite (snd_bindc_ok _ _ _ H). cbn [snd free]. lia. Qed.

Lemma cur_facts s : screen_ok s ->
  grid_ok (cur s) /\ grows (cur s) = grows (g s) /\ gcols (cur s) = gcols (g s) /\
  len (live (cur s)) = grows (g s) /\ prow (cur s) <= 65535.
Proof.
  intros H. pose proof (cur_ok s H) as Hc.
  assert (D : grows (cur s) = grows (g s) /\ gcols (cur s) = gcols (g s)).
  { unfold cur. destruct (altmode s); [split; [apply (so_rows _ H)|apply (so_cols _ H)]|auto]. }
  destruct D as [D1 D2]. split; [exact Hc|]. split; [exact D1|]. split; [exact D2|]. split.
  - rewrite <- D1. apply gb_live, Hc.
  - destruct Hc as (K & Hp & _). pose proof (gk_rows _ K) as Hr. unfold MAXDIM in Hr. lia.
Qed.

(* ---------- the bounds ---------- *)
(* cost of anything but IL / SD: dimensions only *)
Definition base_bound (R C : N) : N := 33 * R * C + 2 * R * R + 2 * C * C + 4 * R + 4 * C + 128.
(* cost of one IL / SD iteration *)
Definition line_cost (R C : N) : N := 2 * R + C + 1.

(* ---------- screen operations ---------- *)
Lemma scr_text_c_le s ch : screen_ok s -> snd (scr_text_c s ch) <= 2 * grows (g s) + gcols (g s) + 13.
Proof.
  intros H. destruct (cur_facts s H) as (Hc & D1 & D2 & D3 & D4).
  apply on_cur_c_le. eapply N.le_trans; [apply grid_text_c_le; exact D4|]. rewrite D3, D2. lia.
Qed.

Lemma scr_lf_c_le s : screen_ok s -> snd (scr_lf_c s) <= 2 * grows (g s) + gcols (g s) + 4.
Proof.
  intros H. destruct (cur_facts s H) as (Hc & D1 & D2 & D3 & D4).
  apply on_cur_c_le.
  replace (2 * grows (g s) + gcols (g s) + 4) with (1 * (2 * len (live (cur s)) + gcols (cur s) + 4) + 0) by lia.
  apply snd_bindc_le; [now apply row_inc_scroll_c_le|]. intros [x1 k] _. cbn. lia.
Qed.

Lemma scr_ri_c_le s : screen_ok s -> snd (scr_ri_c s) <= 2 * grows (g s) + gcols (g s) + 1.
Proof.
  intros H. destruct (cur_facts s H) as (Hc & D1 & D2 & D3 & D4).
  apply on_cur_c_le. eapply N.le_trans; [apply row_dec_scroll_c_le|]. rewrite D3, D2. lia.
Qed.

Lemma screen_new_c_le r c cap : snd (screen_new_c r c cap) <= r * c.
Proof.
  unfold screen_new_c. apply snd_bindc_free. intros g0 E. unfold grid_new in E. bind_inv E. inv E.
  apply snd_bindc_free. intros a0 _.
  replace (r * c) with (r * c + 0) by lia. apply snd_bindc_le; [|intros; cbn; lia].
  unfold allocate_rows_c. cbn [live grows gcols snd charge]. lia.
Qed.

Lemma scr_ris_c_le s : snd (scr_ris_c s) <= grows (g s) * gcols (g s).
Proof. apply screen_new_c_le. Qed.

Lemma scr_ich_c_le s n : screen_ok s ->
  snd (scr_ich_c s n) <= 2 * gcols (g s) * gcols (g s) + 4 * gcols (g s) + 2.
Proof.
  intros H. destruct (cur_facts s H) as (Hc & D1 & D2 & D3 & D4).
  apply on_cur_c_le. eapply N.le_trans; [apply insert_cells_c_le, Hc|]. rewrite D2. lia.
Qed.

Lemma scr_dch_c_le s n : screen_ok s ->
  snd (scr_dch_c s n) <= gcols (g s) * gcols (g s) + gcols (g s) + 2.
Proof.
  intros H. destruct (cur_facts s H) as (Hc & D1 & D2 & D3 & D4).
  apply on_cur_c_le. eapply N.le_trans; [apply delete_cells_c_le, Hc|]. rewrite D2. lia.
Qed.

Lemma scr_ech_c_le s n : screen_ok s -> snd (scr_ech_c s n) <= gcols (g s) + 1.
Proof.
  intros H. destruct (cur_facts s H) as (Hc & D1 & D2 & D3 & D4).
  apply on_cur_c_le. eapply N.le_trans; [apply erase_cells_c_le|]. rewrite D2. lia.
Qed.

Lemma scr_dl_c_le s n : screen_ok s ->
  snd (scr_dl_c s n) <= grows (g s) * (2 * grows (g s) + gcols (g s) + 2).
Proof.
  intros H. destruct (cur_facts s H) as (Hc & D1 & D2 & D3 & D4).
  apply on_cur_c_le. eapply N.le_trans; [apply delete_lines_c_le, Hc|]. rewrite D1, D2. lia.
Qed.

Lemma scr_su_c_le s n : screen_ok s ->
  snd (scr_su_c s n) <= grows (g s) * (2 * grows (g s) + gcols (g s) + 4).
Proof.
  intros H. destruct (cur_facts s H) as (Hc & D1 & D2 & D3 & D4).
  apply on_cur_c_le. eapply N.le_trans; [apply scroll_up_c_le|]. rewrite D1, D2, D3.
  apply N.mul_le_mono_r. lia.
Qed.

(* IL / SD: exact *)
Lemma scr_il_c_eq s n : screen_ok s -> snd (scr_il_c s n) = n * line_cost (grows (g s)) (gcols (g s)).
Proof.
  intros H. destruct (cur_facts s H) as (Hc & D1 & D2 & D3 & D4).
  destruct (insert_lines_post (cur s) n Hc) as (y & E & _).
  rewrite <- fst_insert_lines_c in E. unfold scr_il_c.
  rewrite (on_cur_c_eq _ _ _ E), (insert_lines_c_eq _ _ _ E), D3, D2. reflexivity.
Qed.

Lemma scr_sd_c_eq s n : screen_ok s -> snd (scr_sd_c s n) = n * line_cost (grows (g s)) (gcols (g s)).
Proof.
  intros H. destruct (cur_facts s H) as (Hc & D1 & D2 & D3 & D4).
  destruct (scroll_down_post (cur s) n Hc) as (y & E & _).
  rewrite <- fst_scroll_down_c in E. unfold scr_sd_c.
  rewrite (on_cur_c_eq _ _ _ E), (scroll_down_c_eq _ _ _ E), D3, D2. reflexivity.
Qed.

Lemma scr_ed_c_le s m : screen_ok s ->
  snd (scr_ed_c s m) <= grows (g s) * gcols (g s) + gcols (g s) + 1.
Proof.
  intros H. destruct (cur_facts s H) as (Hc & D1 & D2 & D3 & D4). unfold scr_ed_c.
  set (B := grows (g s) * gcols (g s) + gcols (g s) + 1).
  destruct (m =? 0).
  { replace B with (B + 0) by lia. apply snd_bindc_le; [|intros; cbn; lia].
    apply on_cur_c_le. eapply N.le_trans; [apply erase_all_forward_c_le, Hc|]. rewrite D1, D2. unfold B. lia. }
  destruct (m =? 1).
  { replace B with (B + 0) by lia. apply snd_bindc_le; [|intros; cbn; lia].
    apply on_cur_c_le. eapply N.le_trans; [apply erase_all_backward_c_le, Hc|]. rewrite D1, D2. unfold B. lia. }
  destruct (m =? 2).
  { replace B with (B + 0) by lia. apply snd_bindc_le; [|intros; cbn; lia].
    apply on_cur_c_le. eapply N.le_trans; [apply erase_all_c_le, Hc|]. rewrite D1, D2. unfold B. lia. }
  cbn. lia.
Qed.

Lemma scr_el_c_le s m : screen_ok s -> snd (scr_el_c s m) <= gcols (g s) + 1.
Proof.
  intros H. destruct (cur_facts s H) as (Hc & D1 & D2 & D3 & D4). unfold scr_el_c.
  set (B := gcols (g s) + 1).
  destruct (m =? 0).
  { replace B with (B + 0) by lia. apply snd_bindc_le; [|intros; cbn; lia].
    apply on_cur_c_le. eapply N.le_trans; [apply erase_row_forward_c_le|]. rewrite D2. unfold B. lia. }
  destruct (m =? 1).
  { replace B with (B + 0) by lia. apply snd_bindc_le; [|intros; cbn; lia].
    apply on_cur_c_le. eapply N.le_trans; [apply erase_row_backward_c_le|]. rewrite D2. unfold B. lia. }
  destruct (m =? 2).
  { replace B with (B + 0) by lia. apply snd_bindc_le; [|intros; cbn; lia].
    apply on_cur_c_le. eapply N.le_trans; [apply erase_row_c_le, Hc|]. rewrite D2. unfold B. lia. }
  cbn. lia.
Qed.

Lemma scr_ed_k s m s1 k : scr_ed s m = Ok (s1, k) -> k <= 1.
Proof.
  unfold scr_ed. intros H.
  repeat match type of H with context[if ?c then _ else _] => destruct c end;
  try (bind_inv H); inv H; lia.
Qed.
Lemma scr_el_k s m s1 k : scr_el s m = Ok (s1, k) -> k <= 1.
Proof.
  unfold scr_el. intros H.
  repeat match type of H with context[if ?c then _ else _] => destruct c end;
  try (bind_inv H); inv H; lia.
Qed.

(* ---------- DECSET / DECRST ---------- *)
Lemma enter_alt_c_le s :
  snd (enter_alternate_grid_c s) <=
  (if len (live (alt s)) =? 0 then grows (alt s) * gcols (alt s) else 0).
Proof.
  unfold enter_alternate_grid_c. cbv zeta.
  set (a2 := alt (with_altmode (with_cur s (grid_set_scrollback (cur s) 0)) true)).
  assert (E : live a2 = live (alt s) /\ grows a2 = grows (alt s) /\ gcols a2 = gcols (alt s)).
  { unfold a2, with_cur, cur. destruct (altmode s); cbn; auto. }
  destruct E as (E1 & E2 & E3).
  match goal with |- _ <= ?b => replace b with (b + 0) by lia end.
  apply snd_bindc_le; [|intros; cbn; lia].
  eapply N.le_trans; [apply allocate_rows_c_le|]. rewrite E1, E2, E3. lia.
Qed.

Lemma alt_save_cursor s :
  live (alt (scr_save_cursor s)) = live (alt s) /\ grows (alt (scr_save_cursor s)) = grows (alt s) /\
  gcols (alt (scr_save_cursor s)) = gcols (alt s).
Proof. unfold scr_save_cursor, with_cur, cur. destruct (altmode s); cbn; auto. Qed.

Lemma decset1_c_le s p : screen_ok s -> snd (decset1_c s p) <= grows (g s) * gcols (g s) + 1.
Proof.
  intros H. unfold decset1_c. rewrite snd_tick.
  set (RC := grows (g s) * gcols (g s)).
  assert (Ha : grows (alt s) * gcols (alt s) = RC) by (unfold RC; now rewrite (so_rows _ H), (so_cols _ H)).
  destruct (single p) as [n|]; [|cbn; lia].
  destruct (n =? 47).
  { assert (snd (doc s1 <- enter_alternate_grid_c s; free (Ok (s1, 0))) <= RC); [|lia].
    replace RC with (RC + 0) by lia. apply snd_bindc_le; [|intros; cbn; lia].
    eapply N.le_trans; [apply enter_alt_c_le|]. rewrite Ha. destruct (len (live (alt s)) =? 0); lia. }
  destruct (n =? 1049); [|cbn; lia].
  cbv zeta.
  pose proof (scr_save_cursor_ok s H) as H1.
  destruct (alt_save_cursor s) as (L1 & L2 & L3).
  set (s1 := scr_save_cursor s) in *.
  assert (snd (doc a1 <- grid_clear_c (alt s1);
               doc s2 <- enter_alternate_grid_c (with_alt s1 a1); free (Ok (s2, 0))) <= RC); [|lia].
  pose proof (grid_clear_c_le (alt s1) (so_alt _ H1)) as Hc. rewrite L1, L2, L3, Ha in Hc.
  unfold bindc at 1. destruct (fst (grid_clear_c (alt s1))) as [a1|k] eqn:E1; cbn [snd fst].
  - rewrite fst_grid_clear_c in E1. apply grid_clear_len in E1 as (G1 & G2 & G3).
    assert (snd (doc s2 <- enter_alternate_grid_c (with_alt s1 a1); free (Ok (s2, 0))) <=
            (if len (live a1) =? 0 then RC else 0)).
    { match goal with |- _ <= ?b => replace b with (b + 0) by lia end.
      apply snd_bindc_le; [|intros; cbn; lia].
      eapply N.le_trans; [apply enter_alt_c_le|]. cbn [alt with_alt].
      rewrite G2, G3, L2, L3, Ha. lia. }
    rewrite G1, L1 in H0. destruct (len (live (alt s)) =? 0); lia.
  - destruct (len (live (alt s)) =? 0); lia.
Qed.

Lemma with_cur_g_dims s y : grows y = grows (cur s) -> gcols y = gcols (cur s) ->
  grows (g (with_cur s y)) = grows (g s) /\ gcols (g (with_cur s y)) = gcols (g s).
Proof. unfold with_cur, cur. destruct (altmode s); cbn; auto. Qed.

Lemma enter_alt_g_dims s :
  grows (g (enter_alternate_grid s)) = grows (g s) /\ gcols (g (enter_alternate_grid s)) = gcols (g s).
Proof. unfold enter_alternate_grid, with_cur, cur. destruct (altmode s); cbn; auto. Qed.

Lemma decset1_dims s p s' k : screen_ok s -> decset1 s p = Ok (s', k) ->
  grows (g s') = grows (g s) /\ gcols (g s') = gcols (g s).
Proof.
  intros H E. unfold decset1 in E. destruct (single p) as [n|]; [|inv E; auto].
  repeat match type of E with context[if ?c then _ else _] => destruct c end;
    try (inv E; cbn; auto; fail).
  - (* 6 *) bind_inv E. inv E. unfold on_cur in E0. bind_inv E0. inv E0.
    destruct (set_origin_mode_post (cur s) true (cur_ok s H)) as (y & Ey & _ & [Fr Fc _ _]).
    rewrite Ey in E. inv E. now apply with_cur_g_dims.
  - (* 47 *) inv E. apply enter_alt_g_dims.
  - (* 1049 *) bind_inv E. inv E.
    destruct (enter_alt_g_dims (with_alt (scr_save_cursor s) v)) as [A1 A2].
    rewrite A1, A2. cbn [g with_alt]. unfold scr_save_cursor. cbn [g with_spen].
    apply with_cur_g_dims; reflexivity.
Qed.

Lemma decset1_k s p s' k : decset1 s p = Ok (s', k) -> k <= 1.
Proof.
  unfold decset1. intros E. destruct (single p) as [n|]; [|inv E; lia].
  repeat match type of E with context[if ?c then _ else _] => destruct c end;
    try (inv E; lia); bind_inv E; inv E; lia.
Qed.

Lemma decrst1_k s p s' k : decrst1 s p = Ok (s', k) -> k <= 1.
Proof.
  unfold decrst1. intros E. destruct (single p) as [n|]; [|inv E; lia].
  repeat match type of E with context[if ?c then _ else _] => destruct c end;
    try (inv E; lia); bind_inv E; inv E; lia.
Qed.

Lemma fold_params_k h : (forall s p s' k, h s p = Ok (s', k) -> k <= 1) ->
  forall ps s n s' m, fold_params h ps s n = Ok (s', m) -> m <= n + len ps.
Proof.
  intros Hh ps. induction ps as [|p ps IH]; intros s n s' m E; cbn [fold_params] in E.
  - inv E. lia.
  - bind_inv E. destruct v as [s1 k]. apply Hh in E0. apply IH in E. rewrite len_cons. lia.
Qed.

Lemma scr_decset_c_le ps : forall s n, screen_ok s ->
  snd (fold_params_c decset1_c ps s n) <= len ps * (grows (g s) * gcols (g s) + 1).
Proof.
  induction ps as [|p ps IH]; intros s n H; cbn [fold_params_c].
  - cbn. lia.
  - rewrite len_cons.
    replace ((len ps + 1) * (grows (g s) * gcols (g s) + 1))
      with ((grows (g s) * gcols (g s) + 1) + len ps * (grows (g s) * gcols (g s) + 1)) by lia.
    apply snd_bindc_le; [now apply decset1_c_le|].
    intros [s1 k] E. cbv beta iota. rewrite fst_decset1_c in E.
    destruct (decset1_ok s p H) as (s1' & k' & E' & H1). rewrite E in E'. inv E'.
    destruct (decset1_dims _ _ _ _ H E) as [D1 D2]. rewrite <- D1, <- D2. now apply IH.
Qed.

Lemma scr_decrst_c_le ps : forall s n, snd (fold_params_c decrst1_c ps s n) <= len ps.
Proof.
  induction ps as [|p ps IH]; intros s n; cbn [fold_params_c].
  - cbn. lia.
  - rewrite len_cons. replace (len ps + 1) with (1 + len ps) by lia.
    apply snd_bindc_le; [cbn; lia|]. intros [s1 k] _. apply IH.
Qed.

(* ---------- SGR ---------- *)
Lemma sgr1_k p rest a : match sgr1 p rest a with SCont _ _ k => k <= 1 | SStop _ k => k <= 1 end.
Proof.
  unfold sgr1, ext_color, rgb_or_stop.
  repeat match goal with
  | |- match (match ?x with _ => _ end) with _ => _ end => destruct x
  | |- match (if ?c then _ else _) with _ => _ end => destruct c
  end; lia.
Qed.

Lemma sgr_loop_c_le fuel : forall ps a unh,
  snd (sgr_loop_c fuel ps a unh) <= N.of_nat fuel /\
  snd (fst (sgr_loop_c fuel ps a unh)) <= unh + N.of_nat fuel.
Proof.
  induction fuel as [|fuel IH]; intros ps a unh; cbn [sgr_loop_c].
  - cbn. lia.
  - destruct ps as [|p rest]; [cbn [fst snd]; lia|].
    pose proof (sgr1_k p rest a) as Hk.
    destruct (sgr1 p rest a) as [a' rest' k|a' k]; cbn [fst snd].
    + destruct (IH rest' a' (unh + k)) as [I1 I2]. lia.
    + lia.
Qed.

Lemma sgr_c_le ps a : snd (sgr_c ps a) <= len ps /\ snd (fst (sgr_c ps a)) <= len ps.
Proof.
  unfold sgr_c. destruct ps as [|p ps]; [cbn; unfold len; cbn; lia|].
  destruct (sgr_loop_c_le (length (p :: ps)) (p :: ps) a 0) as [I1 I2]. unfold len. lia.
Qed.

Lemma scr_sgr_c_le s ps : snd (scr_sgr_c s ps) <= len ps.
Proof. unfold scr_sgr_c. cbn [snd charge]. apply sgr_c_le. Qed.

Lemma scr_sgr_c_k s ps s1 k : fst (scr_sgr_c s ps) = Ok (s1, k) -> k <= len ps.
Proof.
  unfold scr_sgr_c. cbn [fst charge]. intros E.
  pose proof (proj2 (sgr_c_le ps (pen s))) as Hk.
  destruct (fst (sgr_c ps (pen s))) as [a k']. inv E. exact Hk.
Qed.

(* ---------- perform ---------- *)
Lemma do_execute_c_le s b : screen_ok s -> snd (do_execute_c s b) <= 2 * grows (g s) + gcols (g s) + 4.
Proof.
  intros H. unfold do_execute_c.
  repeat match goal with |- context[if ?c then _ else _] => destruct c end;
    rewrite ?snd_noev_c; try (cbn [snd free]; lia).
  now apply scr_lf_c_le.
Qed.

Lemma do_print_c_le s c : screen_ok s -> snd (do_print_c s c) <= 2 * grows (g s) + gcols (g s) + 13.
Proof.
  intros H. unfold do_print_c.
  destruct ((128 <=? c) && (c <? 160)).
  { eapply N.le_trans; [now apply do_execute_c_le|lia]. }
  destruct (c =? REPL); [cbn; lia|]. rewrite snd_noev_c. now apply scr_text_c_le.
Qed.

Lemma do_esc_c_le s inter b : screen_ok s ->
  snd (do_esc_c s inter b) <= grows (g s) * gcols (g s) + 2 * grows (g s) + gcols (g s) + 1.
Proof.
  intros H. unfold do_esc_c. destruct inter; [|cbn; lia].
  destruct (b =? 77). { rewrite snd_noev_c. eapply N.le_trans; [now apply scr_ri_c_le|lia]. }
  destruct (b =? 99). { rewrite snd_noev_c. eapply N.le_trans; [now apply scr_ris_c_le|lia]. }
  cbn. lia.
Qed.

(* CSI other than IL / SD, without the resize policy *)
Lemma do_csi_c_le s ps inter c : screen_ok s -> len ps <= 32 ->
  (inter = [] -> c <> 76 /\ c <> 84) ->
  snd (do_csi_c false s ps inter c) + 1 <= base_bound (grows (g s)) (gcols (g s)).
Proof.
  intros H Hps Hc. unfold do_csi_c. cbv zeta.
  set (R := grows (g s)). set (C := gcols (g s)).
  assert (HRC : 0 <= R * C) by lia.
  destruct inter as [|i inter].
  - destruct (Hc eq_refl) as [N76 N84].
    repeat match goal with
      | |- snd (if ?c =? ?k then _ else _) + 1 <= _ => destruct (N.eqb_spec c k)
      end; try (exfalso; congruence); rewrite ?snd_noev_c; try (cbn [snd free]; unfold base_bound; lia).
    + pose proof (scr_ich_c_le s (canon1 ps 1) H). fold C in H0. unfold base_bound. lia.
    + destruct (canon2 ps 1 1). rewrite snd_noev_c. cbn [snd free]. unfold base_bound. lia.
    + pose proof (snd_unh_c_le (EUnhCsi (nth_inter [] 0) (nth_inter [] 1) ps c) _ _ 1
                    (scr_ed_c_le s (canon1 ps 0) H)) as G.
      fold R C in G. unfold base_bound.
      eapply N.le_trans; [apply N.add_le_mono_r, G|lia].
      intros s1 k E. rewrite fst_scr_ed_c in E. eapply scr_ed_k; eauto.
    + pose proof (snd_unh_c_le (EUnhCsi (nth_inter [] 0) (nth_inter [] 1) ps c) _ _ 1
                    (scr_el_c_le s (canon1 ps 0) H)) as G.
      fold C in G. unfold base_bound.
      eapply N.le_trans; [apply N.add_le_mono_r, G|lia].
      intros s1 k E. rewrite fst_scr_el_c in E. eapply scr_el_k; eauto.
    + pose proof (scr_dl_c_le s (canon1 ps 1) H). fold R C in H0. unfold base_bound. lia.
    + pose proof (scr_dch_c_le s (canon1 ps 1) H). fold C in H0. unfold base_bound. lia.
    + pose proof (scr_su_c_le s (canon1 ps 1) H). fold R C in H0. unfold base_bound. lia.
    + pose proof (scr_ech_c_le s (canon1 ps 1) H). fold C in H0. unfold base_bound. lia.
    + pose proof (snd_unh_c_le (EUnhCsi (nth_inter [] 0) (nth_inter [] 1) ps c) _ _ (len ps)
                    (scr_sgr_c_le s ps)) as G.
      unfold base_bound.
      eapply N.le_trans; [apply N.add_le_mono_r, G|lia].
      intros s1 k E. eapply scr_sgr_c_k; eauto.
    + destruct (canon2 ps 1 (grows (cur s))). rewrite snd_noev_c. cbn [snd free]. unfold base_bound. lia.
    + destruct ps as [|[|op p] rest]; try (cbn [snd free]; unfold base_bound; lia).
      destruct (op =? 8); cbn [andb snd free]; unfold base_bound; lia.
  - destruct (i =? 63); [|cbn [snd free]; unfold base_bound; lia].
    repeat match goal with
      | |- snd (if ?c =? ?k then _ else _) + 1 <= _ => destruct (c =? k)
      end; try (cbn [snd free]; unfold base_bound; lia).
    + pose proof (snd_unh_c_le (EUnhCsi (nth_inter (i :: inter) 0) (nth_inter (i :: inter) 1) ps c) _ _ 1
                    (scr_ed_c_le s (canon1 ps 0) H)) as G.
      fold R C in G. unfold base_bound.
      eapply N.le_trans; [apply N.add_le_mono_r, G|lia].
      intros s1 k E. rewrite fst_scr_ed_c in E. eapply scr_ed_k; eauto.
    + pose proof (snd_unh_c_le (EUnhCsi (nth_inter (i :: inter) 0) (nth_inter (i :: inter) 1) ps c) _ _ 1
                    (scr_el_c_le s (canon1 ps 0) H)) as G.
      fold C in G. unfold base_bound.
      eapply N.le_trans; [apply N.add_le_mono_r, G|lia].
      intros s1 k E. rewrite fst_scr_el_c in E. eapply scr_el_k; eauto.
    + pose proof (snd_unh_c_le (EUnhCsi (nth_inter (i :: inter) 0) (nth_inter (i :: inter) 1) ps c) _ _ (len ps)
                    (scr_decset_c_le ps s 0 H)) as G.
      fold R C in G. unfold base_bound.
      eapply N.le_trans; [apply N.add_le_mono_r, G|].
      * intros s1 k E. unfold scr_decset_c in E. rewrite (fst_fold_params_c _ _ fst_decset1_c) in E.
        apply (fold_params_k _ decset1_k) in E. lia.
      * assert (len ps * (R * C + 1) <= 32 * (R * C + 1)) by (apply N.mul_le_mono_r; lia). lia.
    + pose proof (snd_unh_c_le (EUnhCsi (nth_inter (i :: inter) 0) (nth_inter (i :: inter) 1) ps c) _ _ (len ps)
                    (scr_decrst_c_le ps s 0)) as G.
      unfold base_bound.
      eapply N.le_trans; [apply N.add_le_mono_r, G|lia].
      intros s1 k E. unfold scr_decrst_c in E. rewrite (fst_fold_params_c _ _ fst_decrst1_c) in E.
      apply (fold_params_k _ decrst1_k) in E. lia.
Qed.

(* ================= main theorems ================= *)

(* at most MAX_PARAMS = 32 parameters (what vte delivers); no assumption on their VALUES *)
Definition params_ok (a : action) : Prop :=
  match a with ACsi ps _ _ _ => len ps <= 32 | _ => True end.
(* IL = CSI n L (final byte 76), SD = CSI n T (final byte 84), no intermediates *)
Definition is_il_sd (a : action) : bool :=
  match a with ACsi _ [] _ c => (c =? 76) || (c =? 84) | _ => false end.
(* the canonicalised first parameter (0 / absent -> 1) *)
Definition first_param (a : action) : N :=
  match a with ACsi ps _ _ _ => canon1 ps 1 | _ => 0 end.

(* Item 2a: parameter independence.  Everything except IL / SD is bounded by the
   screen dimensions alone. *)
Theorem cost_param_free s a : screen_ok s -> params_ok a -> is_il_sd a = false ->
  action_cost false s a <= base_bound (grows (g s)) (gcols (g s)).
Proof.
  intros H Hp Hil. unfold action_cost, perform_c. rewrite snd_tick.
  set (R := grows (g s)). set (C := gcols (g s)).
  assert (HRC : 0 <= R * C) by lia.
  destruct a as [c|b|hps hinter hig hc|d| |ops bell|ps inter ig c|inter ig b].
  - pose proof (do_print_c_le s c H). fold R C in H0. unfold base_bound. lia.
  - pose proof (do_execute_c_le s b H). fold R C in H0. unfold base_bound. lia.
  - cbn [snd free]. unfold base_bound. lia.
  - cbn [snd free]. unfold base_bound. lia.
  - cbn [snd free]. unfold base_bound. lia.
  - cbn [snd free]. unfold base_bound. lia.
  - pose proof (do_csi_c_le s ps inter c H Hp) as G. fold R C in G.
    rewrite N.add_comm. apply G. intros ->. cbn [is_il_sd] in Hil.
    apply Bool.orb_false_elim in Hil as [H1 H2]. apply N.eqb_neq in H1, H2. auto.
  - pose proof (do_esc_c_le s inter b H). fold R C in H0. unfold base_bound. lia.
Qed.

(* Item 2b: IL and SD cost exactly 1 + n * (2R + C + 1): linear in the parameter *)
Theorem cost_il rz s ps ig : screen_ok s ->
  action_cost rz s (ACsi ps [] ig 76) = 1 + canon1 ps 1 * line_cost (grows (g s)) (gcols (g s)).
Proof.
  intros H. unfold action_cost, perform_c. rewrite snd_tick. unfold do_csi_c. cbv zeta. gsimp.
  rewrite snd_noev_c, (scr_il_c_eq _ _ H). reflexivity.
Qed.

Theorem cost_sd rz s ps ig : screen_ok s ->
  action_cost rz s (ACsi ps [] ig 84) = 1 + canon1 ps 1 * line_cost (grows (g s)) (gcols (g s)).
Proof.
  intros H. unfold action_cost, perform_c. rewrite snd_tick. unfold do_csi_c. cbv zeta. gsimp.
  rewrite snd_noev_c, (scr_sd_c_eq _ _ H). reflexivity.
Qed.

Lemma is_il_sd_inv a : is_il_sd a = true ->
  exists ps ig, a = ACsi ps [] ig 76 \/ a = ACsi ps [] ig 84.
Proof.
  destruct a as [c|b|hps hinter hig hc|d| |ops bell|ps inter ig c|inter ig b]; cbn; try discriminate.
  destruct inter; [|discriminate]. intros Hc. exists ps, ig.
  apply Bool.orb_prop in Hc as [Hc|Hc]; apply N.eqb_eq in Hc; subst; auto.
Qed.

(* Item 1: the only term in which a parameter value appears is n * line_cost *)
Theorem cost_bound_n s a : screen_ok s -> params_ok a ->
  action_cost false s a <=
  first_param a * line_cost (grows (g s)) (gcols (g s)) + base_bound (grows (g s)) (gcols (g s)).
Proof.
  intros H Hp. destruct (is_il_sd a) eqn:Hil.
  - destruct (is_il_sd_inv a Hil) as (ps & ig & [-> | ->]).
    + rewrite (cost_il _ _ _ _ H). cbn [first_param]. unfold base_bound. lia.
    + rewrite (cost_sd _ _ _ _ H). cbn [first_param]. unfold base_bound. lia.
  - pose proof (cost_param_free s a H Hp Hil). lia.
Qed.

Theorem cost_bound s a : screen_ok s -> params_ok a -> first_param a <= 65535 ->
  action_cost false s a <=
  65535 * line_cost (grows (g s)) (gcols (g s)) + base_bound (grows (g s)) (gcols (g s)).
Proof.
  intros H Hp Hn. eapply N.le_trans; [now apply cost_bound_n|].
  apply N.add_le_mono_r, N.mul_le_mono_r, Hn.
Qed.

(* Item 4: numeric corollaries *)
Theorem cost_numeric s a : screen_ok s -> params_ok a -> first_param a <= 65535 ->
  grows (g s) <= 50 -> gcols (g s) <= 132 -> action_cost false s a <= 15600000.
Proof.
  intros H Hp Hn HR HC. eapply N.le_trans; [now apply cost_bound|].
  unfold line_cost, base_bound.
  set (R := grows (g s)) in *. set (C := gcols (g s)) in *.
  assert (R * C <= 50 * 132) by (apply N.mul_le_mono; lia).
  assert (R * R <= 50 * 50) by (apply N.mul_le_mono; lia).
  assert (C * C <= 132 * 132) by (apply N.mul_le_mono; lia).
  lia.
Qed.

Theorem cost_numeric_transposed s a : screen_ok s -> params_ok a -> first_param a <= 65535 ->
  grows (g s) <= 132 -> gcols (g s) <= 50 -> action_cost false s a <= 21000000.
Proof.
  intros H Hp Hn HR HC. eapply N.le_trans; [now apply cost_bound|].
  unfold line_cost, base_bound.
  set (R := grows (g s)) in *. set (C := gcols (g s)) in *.
  assert (R * C <= 132 * 50) by (apply N.mul_le_mono; lia).
  assert (R * R <= 132 * 132) by (apply N.mul_le_mono; lia).
  assert (C * C <= 50 * 50) by (apply N.mul_le_mono; lia).
  lia.
Qed.

(* everything except IL / SD on screens up to 132 x 132: under 650 000 units *)
Theorem cost_numeric_param_free s a : screen_ok s -> params_ok a -> is_il_sd a = false ->
  grows (g s) <= 132 -> gcols (g s) <= 132 -> action_cost false s a <= 650000.
Proof.
  intros H Hp Hil HR HC. eapply N.le_trans; [now apply cost_param_free|].
  unfold base_bound.
  set (R := grows (g s)) in *. set (C := gcols (g s)) in *.
  assert (R * C <= 132 * 132) by (apply N.mul_le_mono; lia).
  assert (R * R <= 132 * 132) by (apply N.mul_le_mono; lia).
  assert (C * C <= 132 * 132) by (apply N.mul_le_mono; lia).
  lia.
Qed.

(* ================= Item 3: ICH and the D3 repair ================= *)

(* the repaired loop runs k = min(count, C - pcol) <= C - pcol times *)
Theorem insert_cells_cost_k x n : grid_ok x ->
  snd (insert_cells_c x n) <=
  N.min n (gcols x - pcol x) * (gcols x + N.min n (gcols x - pcol x) + 4) + 2.
Proof.
  intros Hok. unfold insert_cells_c. apply snd_bindc_free. intros wide _.
  apply snd_bindc_free. intros room E. apply sub16_inv in E as [-> E].
  set (k := N.min n (gcols x - pcol x)).
  eapply N.le_trans; [apply (upd_row_c_le _ _ _ (k * (gcols x + 3) + k * k + (k + 1)))|lia].
  intros rw G. pose proof (gb_row _ _ _ Hok G) as Hc.
  apply snd_bindc_le.
  - eapply N.le_trans; [apply ins_iter_le|]. rewrite N2Nat.id, Hc. lia.
  - intros rw' E'. apply ins_iter_cols in E'. rewrite N2Nat.id in E'.
    unfold row_truncate_c, absdiff. cbn [snd charge]. fold k in E'. lia.
Qed.

Theorem ich_cost rz s ps ig : screen_ok s ->
  action_cost rz s (ACsi ps [] ig 64) <= 2 * gcols (g s) * gcols (g s) + 4 * gcols (g s) + 3.
Proof.
  intros H. unfold action_cost, perform_c. rewrite snd_tick. unfold do_csi_c. cbv zeta. gsimp.
  rewrite snd_noev_c. pose proof (scr_ich_c_le s (canon1 ps 1) H). lia.
Qed.

(* the unrepaired Grid::insert_cells: `count` iterations on a growing row, then truncate *)
Definition insert_cells_old (g : grid) (count : N) : res grid :=
  do wide <- (if pcol g <? gcols g
              then do c <- unwrap (drawing_cell g (prow g) (pcol g)); Ok (ccont c)
              else Ok false);
  upd_current_row g (fun rw =>
    do rw' <- iter_res (N.to_nat count) (ins_step wide (pcol g)) rw;
    row_truncate rw' (gcols g)).

Definition insert_cells_old_c (g : grid) (count : N) : cres grid :=
  doc wide <- free (if pcol g <? gcols g
              then do c <- unwrap (drawing_cell g (prow g) (pcol g)); Ok (ccont c)
              else Ok false);
  upd_row_c g (prow g) (fun rw =>
    doc rw' <- iter_c (N.to_nat count) (ins_step_c wide (pcol g)) rw;
    row_truncate_c rw' (gcols g)).

Lemma fst_insert_cells_old_c x n : fst (insert_cells_old_c x n) = insert_cells_old x n.
Proof.
  unfold insert_cells_old_c, insert_cells_old, upd_current_row. rewrite fst_bindc, fst_free.
  apply bind_ext. intros wide. apply fst_upd_row_c_model. intros rw.
  rewrite fst_bindc. apply bind_cong; [|reflexivity]. apply fst_iter_c_model. apply fst_ins_step_c.
Qed.

Lemma ins_step_total w p r : p < row_cols r -> exists r', ins_step w p r = Ok r'.
Proof.
  intros Hp. unfold ins_step. unfold row_cols in Hp.
  assert (U : forall r0 f, p < len (cells r0) -> exists r1, row_upd r0 p f = Ok r1).
  { intros r0 f H0. unfold row_upd, row_get. destruct (get_lt_some _ _ H0) as (c & ->). cbn. eauto. }
  assert (I : forall r0, p < len (cells r0) -> exists r1, row_insert r0 p cell_new = Ok r1).
  { intros r0 H0. unfold row_insert. rewrite insert_at_ok by lia. cbn. eauto. }
  destruct w.
  - destruct (U r (cell_set_cont false) Hp) as (r1 & E1). rewrite E1. cbn [bind].
    pose proof (row_upd_cols _ _ _ _ E1) as C1. unfold row_cols in C1.
    destruct (I r1) as (r2 & E2); [lia|]. rewrite E2. cbn [bind].
    pose proof (row_insert_cols _ _ _ _ E2) as C2. unfold row_cols in C2.
    apply U. lia.
  - cbn [bind]. destruct (I r Hp) as (r2 & E2). rewrite E2. cbn [bind]. eauto.
Qed.

Lemma ins_iter_total w p n : forall r, p < row_cols r ->
  exists r', fst (iter_c n (ins_step_c w p) r) = Ok r'.
Proof.
  induction n as [|n IH]; intros r Hp; cbn [iter_c].
  - cbn. eauto.
  - rewrite fst_bindc. destruct (ins_step_total w p r Hp) as (r1 & E1).
    rewrite fst_ins_step_c, E1. cbn [bind]. apply IH. apply ins_step_cols in E1. lia.
Qed.

Lemma snd_bindc_ge {A B} (m : cres A) (f : A -> cres B) : snd m <= snd (bindc m f).
Proof. unfold bindc. destruct (fst m); cbn [snd]; lia. Qed.

(* what the unrepaired loop costs: the row grows by one cell per iteration, so
   n iterations on a C-column row cost at least n (C+1) + n (n-1) / 2 *)
Theorem ich_old_cost x n : grid_ok x -> pcol x < gcols x ->
  2 * n * (gcols x + 1) + n * n <= 2 * snd (insert_cells_old_c x n) + n.
Proof.
  intros Hok Hp. destruct Hok as (K & Hr & Hc).
  assert (Hl : prow x < len (live x)) by (rewrite (gk_live _ K); exact Hr).
  destruct (get_lt_some _ _ Hl) as (rw & G).
  destruct (Forall_get _ _ _ _ (gk_rowsok _ K) G) as [Lc _].
  assert (Hpc : pcol x < len (cells rw)) by lia.
  destruct (get_lt_some _ _ Hpc) as (c & Gc).
  unfold insert_cells_old_c.
  destruct (N.ltb_spec (pcol x) (gcols x)) as [_|]; [|lia].
  unfold drawing_cell, drawing_row, row_get. rewrite G, Gc. cbn [unwrap bind].
  rewrite snd_bindc_free_eq. unfold upd_row_c, drawing_row. rewrite G. cbn [unwrap].
  rewrite snd_bindc_free_eq.
  destruct (ins_iter_total (ccont c) (pcol x) (N.to_nat n) rw Hpc) as (rw' & E').
  pose proof (ins_iter_ge _ _ _ _ _ E') as GE. rewrite N2Nat.id in GE.
  unfold row_cols in GE. rewrite Lc in GE.
  set (it := iter_c (N.to_nat n) (ins_step_c (ccont c) (pcol x)) rw) in *.
  assert (snd it <= snd (doc rw'0 <- doc rw'0 <- it; row_truncate_c rw'0 (gcols x);
                         charge 1 (Ok (with_live x (set_at (live x) (prow x) rw'0))))).
  { eapply N.le_trans; [|apply snd_bindc_ge]. apply snd_bindc_ge. }
  lia.
Qed.

(* ESC [ 65535 @ on the unrepaired code: more than 2 * 10^9 units whatever the
   width (against 2 C^2 + 4 C + 2 = 35 378 for C = 132 after the repair) *)
Theorem ich_old_cost_65535 x : grid_ok x -> pcol x < gcols x ->
  65535 * gcols x + 2147450880 <= snd (insert_cells_old_c x 65535).
Proof. intros Hok Hp. pose proof (ich_old_cost x 65535 Hok Hp). lia. Qed.

Theorem ich_new_cost_132 x n : grid_ok x -> gcols x <= 132 -> snd (insert_cells_c x n) <= 35378.
Proof.
  intros Hok Hc. eapply N.le_trans; [now apply insert_cells_c_le|].
  assert (gcols x * gcols x <= 132 * 132) by (apply N.mul_le_mono; lia). lia.
Qed.

(* ================= the harness's resize policy (rz = true) ================= *)
Definition resize_bound (R C : N) : N := 2 * R * C + 1030 * R + 525314.

Lemma grid_set_size_cost_le x r c : grid_ok0 x ->
  grid_set_size_cost x r c <= grows x * (gcols x + c + 3) + r * (c + 1) + 1.
Proof.
  intros [Sh [Hl|Hok]]; unfold grid_set_size_cost.
  - rewrite Hl. cbn [map_c snd]. change (len (@nil row)) with 0.
    destruct (negb (c =? gcols x)); nia.
  - rewrite (gb_live x Hok).
    assert (M : snd (map_c (fun r0 => row_resize r0 c cell_new) (fun r0 => row_resize_cost r0 c) (live x))
                <= grows x * (gcols x + c + 1)).
    { rewrite <- (gb_live x Hok). apply snd_map_c_le.
      eapply Forall_impl; [|exact (gb_rows x Hok)]. intros r0 [L0 _].
      unfold row_resize_cost, absdiff, row_cols. rewrite L0. lia. }
    assert ((r - grows x) * (c + 1) <= r * (c + 1)) by (apply N.mul_le_mono_r; lia).
    destruct (negb (c =? gcols x)); lia.
Qed.

Lemma screen_set_size_c_le s r c : screen_ok s -> r <= 512 -> c <= 512 ->
  snd (screen_set_size_c s r c) <= resize_bound (grows (g s)) (gcols (g s)).
Proof.
  intros H Hr Hc. unfold screen_set_size_c.
  pose proof (grid_set_size_cost_le (g s) r c (grid_ok_ok0 _ (so_g _ H))) as G1.
  pose proof (grid_set_size_cost_le (alt s) r c (so_alt _ H)) as G2.
  rewrite (so_rows _ H), (so_cols _ H) in G2.
  set (R := grows (g s)) in *. set (C := gcols (g s)) in *.
  assert (r * (c + 1) <= 512 * 513) by (apply N.mul_le_mono; lia).
  assert (R * (C + c + 3) <= R * (C + 515)) by (apply N.mul_le_mono_l; lia).
  eapply N.le_trans.
  - apply (snd_bindc_le _ _ (R * (C + 515) + 512 * 513 + 1) (R * (C + 515) + 512 * 513 + 1 + 0)).
    + cbn [snd grid_set_size_c charge]. lia.
    + intros g1 _. apply snd_bindc_le; [cbn [snd grid_set_size_c charge]; lia|]. intros; cbn; lia.
  - unfold resize_bound. lia.
Qed.

(* with the resize policy on, only CSI 8 ; r ; c t costs more, by at most resize_bound *)
Theorem cost_resize s a : screen_ok s ->
  action_cost true s a <= action_cost false s a + resize_bound (grows (g s)) (gcols (g s)).
Proof.
  intros H. unfold action_cost, perform_c. rewrite !snd_tick.
  destruct a as [c|b|hps hinter hig hc|d| |ops bell|ps inter ig c|inter ig b]; try lia.
  unfold do_csi_c. cbv zeta. destruct inter as [|i inter]; [|lia].
  repeat match goal with
    | |- 1 + snd (if ?c =? ?k then _ else _) <= _ => destruct (c =? k)
    end; try lia.
  destruct ps as [|[|op p] rest]; try lia.
  destruct (op =? 8); [|lia]. cbn [andb].
  match goal with |- context[if ?cnd then _ else _] => destruct cnd eqn:Ec end; [|lia].
  repeat (apply andb_prop in Ec as [Ec ?]).
  match goal with |- 1 + snd (doc s1 <- screen_set_size_c s ?r ?cc; _) <= _ =>
    assert (S : snd (screen_set_size_c s r cc) <= resize_bound (grows (g s)) (gcols (g s)))
      by (apply screen_set_size_c_le; [exact H| |]; apply N.leb_le; assumption)
  end.
  cbn [snd free].
  match goal with |- 1 + snd (bindc ?m ?f) <= _ =>
    assert (snd (bindc m f) <= resize_bound (grows (g s)) (gcols (g s)) + 0)
      by (apply snd_bindc_le; [exact S|intros; cbn; lia])
  end.
  lia.
Qed.

Theorem cost_bound_resizing s a : screen_ok s -> params_ok a -> first_param a <= 65535 ->
  action_cost true s a <=
  65535 * line_cost (grows (g s)) (gcols (g s)) + base_bound (grows (g s)) (gcols (g s)) +
  resize_bound (grows (g s)) (gcols (g s)).
Proof.
  intros H Hp Hn. eapply N.le_trans; [now apply cost_resize|].
  apply N.add_le_mono_r. now apply cost_bound.
Qed.
