(* Tac.v — shared proof tactics. *)
From Coq Require Export ZArith Lia ZifyBool ZifyNat ZifyN.
Require Export Base.
Ltac Zify.zify_post_hook ::= Z.div_mod_to_equations.

(* evaluate closed comparisons on N *)
Ltac gsimp :=
  repeat match goal with
  | |- context[N.eqb ?a ?b] => is_ground a; is_ground b;
      let v := eval vm_compute in (N.eqb a b) in change (N.eqb a b) with v; cbv iota
  | |- context[N.leb ?a ?b] => is_ground a; is_ground b;
      let v := eval vm_compute in (N.leb a b) in change (N.leb a b) with v; cbv iota
  | |- context[N.ltb ?a ?b] => is_ground a; is_ground b;
      let v := eval vm_compute in (N.ltb a b) in change (N.ltb a b) with v; cbv iota
  end.

(* destruct one boolean N comparison in the goal, keeping the arithmetic fact *)
Ltac dcmp :=
  match goal with
  | |- context[N.eqb ?a ?b] => destruct (N.eqb_spec a b)
  | |- context[N.leb ?a ?b] => destruct (N.leb_spec a b)
  | |- context[N.ltb ?a ?b] => destruct (N.ltb_spec a b)
  end.

Ltac inv H := inversion H; subst; clear H.

Lemma bind_ok {A B} (r : res A) (f : A -> res B) b :
  bind r f = Ok b -> exists a, r = Ok a /\ f a = Ok b.
Proof. destruct r; cbn; intros H; [eauto | discriminate]. Qed.

(* invert a hypothesis of the form  (do x <- r; k) = Ok v *)
Ltac bind_inv H :=
  let a := fresh "v" in let H1 := fresh "E" in
  apply bind_ok in H; destruct H as (a & H1 & H).
