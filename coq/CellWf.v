(* CellWf.v — cell-local well-formedness (cell clauses of C13, plus the two
   clauses needed by C01: continuation cells carry default attributes, stored
   characters are "storable").  Definitions, table facts about [wd], and the
   behaviour of the Cell.v operations. *)
Require Import Tac ListN Utf8 Width Attrs Cell Row Grid Screen.
Open Scope N_scope.

(* a character that may end up in a cell: a scalar value that is not a C0/C1
   control, not DEL and not U+FFFD *)
Definition storable (z : N) : Prop :=
  is_scalar z = true /\ 32 <= z /\ ~ (128 <= z < 160) /\ z <> 65533 /\ z <> 127.

Definition cell_wf (c : cell) : Prop :=
  (ccont c = true -> ctext c = []) /\
  (ccont c = true -> cattrs c = dflt) /\
  (ctext c = [] -> cwide c = false) /\
  (forall ch rest, ctext c = ch :: rest ->
      wd ch <> Some 0 /\ (cwide c = true <-> wd ch = Some 2) /\ Forall (fun z => wd z = Some 0) rest) /\
  text_len (ctext c) <= 22 /\
  Forall storable (ctext c).

Definition row_wf (r : row) : Prop := Forall cell_wf (cells r).
Definition grid_wf (x : grid) : Prop := Forall row_wf (live x) /\ Forall row_wf (sb x).
Definition screen_wf (s : screen) : Prop := grid_wf (g s) /\ grid_wf (alt s).

(* ------------------------------------------------------------------ *)
(* facts about the width table *)

Fixpoint wtree_codes_le3 (t : wtree) : bool :=
  match t with
  | WLeaf => true
  | WNode l lo hi code r => (code <=? 3) && wtree_codes_le3 l && wtree_codes_le3 r
  end.

Lemma wd_lookup_le3 t : wtree_codes_le3 t = true -> forall c, wd_lookup t c <= 3.
Proof.
  induction t as [|l IHl lo hi code r IHr]; intros H c; cbn [wd_lookup].
  - lia.
  - cbn [wtree_codes_le3] in H.
    apply andb_prop in H as [H Hr]. apply andb_prop in H as [Hc Hl].
    destruct (c <? lo); [now apply IHl|]. destruct (hi <? c); [now apply IHr|]. lia.
Qed.

Lemma wd_tree_codes : wtree_codes_le3 wd_tree = true.
Proof. vm_compute. reflexivity. Qed.

Lemma wd_le2 c w : wd c = Some w -> w <= 2.
Proof.
  unfold wd. pose proof (wd_lookup_le3 wd_tree wd_tree_codes c) as H. cbv zeta.
  set (k := wd_lookup wd_tree c) in *. clearbody k.
  destruct (N.eqb_spec k 3) as [|Hne]; [discriminate|].
  intros E. inv E. lia.
Qed.

(* finite checks over an initial segment of N *)
Fixpoint all_below (n : nat) (f : N -> bool) : bool :=
  match n with
  | O => true
  | S k => f (N.of_nat k) && all_below k f
  end.

Lemma all_below_spec n f : all_below n f = true -> forall z, z < N.of_nat n -> f z = true.
Proof.
  induction n as [|k IH]; intros H z Hz; [lia|].
  cbn [all_below] in H. apply andb_prop in H as [Hk Hr].
  destruct (N.eq_dec z (N.of_nat k)) as [->|Hne]; [exact Hk|]. apply IH; [exact Hr|lia].
Qed.

Definition is_none {A} (o : option A) : bool := match o with None => true | Some _ => false end.

Lemma wd_controls_check :
  all_below 160 (fun z => if (z <? 32) || (127 <=? z) then is_none (wd z) else true) = true.
Proof. vm_compute. reflexivity. Qed.

(* C0, DEL and C1 have no width *)
Lemma wd_control_none z : z < 32 \/ 127 <= z < 160 -> wd z = None.
Proof.
  intros H. assert (z < N.of_nat 160) as Hz by lia.
  pose proof (all_below_spec 160 _ wd_controls_check z Hz) as E. cbv beta in E.
  destruct (N.ltb_spec z 32), (N.leb_spec 127 z); cbn [orb] in E; try lia;
    destruct (wd z); cbn in E; congruence.
Qed.

Lemma wd_c0_del_none z : z < 32 \/ z = 127 -> wd z = None.
Proof. intros H. apply wd_control_none. lia. Qed.

Lemma wd_32 : wd 32 = Some 1. Proof. vm_compute. reflexivity. Qed.
Lemma wd_repl : wd 65533 = Some 1. Proof. vm_compute. reflexivity. Qed.

Lemma storable_32 : storable 32.
Proof. unfold storable. split; [vm_compute; reflexivity|]. lia. Qed.

(* a character with a width is not a control *)
Lemma wd_some_range z w : wd z = Some w -> 32 <= z /\ ~ (127 <= z < 160).
Proof.
  intros H. split.
  - destruct (N.le_gt_cases 32 z) as [L|L]; [exact L|]. rewrite wd_control_none in H by lia. discriminate.
  - intros L. rewrite wd_control_none in H by lia. discriminate.
Qed.

Lemma zero_width_storable z : is_scalar z = true -> wd z = Some 0 -> storable z.
Proof.
  intros Hs Hw. pose proof (wd_some_range _ _ Hw) as [L1 L2].
  unfold storable. repeat split; try assumption; try lia.
  intros ->. rewrite wd_repl in Hw. discriminate.
Qed.

(* what [grid_text] lets through: either it has a width, or it is above 255 *)
Lemma printable_storable z :
  is_scalar z = true -> z <> 65533 -> ~ (wd z = None /\ z < 256) -> storable z.
Proof.
  intros Hs Hr Hn. unfold storable.
  assert (32 <= z /\ ~ (127 <= z < 160)) as [L1 L2].
  { destruct (wd z) as [w|] eqn:E; [now apply (wd_some_range z w)|].
    assert (256 <= z) as Hz.
    { destruct (N.lt_ge_cases z 256) as [L|L]; [exfalso; apply Hn; split; [reflexivity|exact L]|exact L]. }
    split; [|intros L]; lia. }
  repeat split; try assumption; lia.
Qed.

(* ------------------------------------------------------------------ *)
(* text length *)

Lemma utf8_len_bounds c : 1 <= utf8_len c <= 4.
Proof. unfold utf8_len. destruct (c <? 128), (c <? 2048), (c <? 65536); lia. Qed.

Lemma text_len_nil : text_len [] = 0. Proof. reflexivity. Qed.
Lemma text_len_cons c t : text_len (c :: t) = utf8_len c + text_len t. Proof. reflexivity. Qed.
Lemma text_len_app a b : text_len (a ++ b) = text_len a + text_len b.
Proof.
  induction a as [|c a IH]; cbn [app]; rewrite ?text_len_nil, ?text_len_cons; [lia|]. rewrite IH. lia.
Qed.
Lemma text_len_0 t : text_len t = 0 -> t = [].
Proof. destruct t as [|c t]; [reflexivity|]. rewrite text_len_cons. pose proof (utf8_len_bounds c). lia. Qed.

(* ------------------------------------------------------------------ *)
(* blank cells *)

Ltac wf_split := unfold cell_wf; split; [|split; [|split; [|split; [|split]]]].

Definition cell_blank (c : cell) : Prop :=
  ctext c = [] /\ cwide c = false /\ (ccont c = true -> cattrs c = dflt).

Lemma blank_wf c : cell_blank c -> cell_wf c.
Proof.
  intros (Ht & Hw & Ha). wf_split; rewrite ?Ht.
  - reflexivity.
  - exact Ha.
  - intros _. exact Hw.
  - intros ch rest E. discriminate.
  - rewrite text_len_nil. lia.
  - constructor.
Qed.

Lemma cell_new_blank : cell_blank cell_new.
Proof. split; [reflexivity|split; [reflexivity|discriminate]]. Qed.
Lemma cell_new_wf : cell_wf cell_new.
Proof. apply blank_wf, cell_new_blank. Qed.

Lemma cell_clear_blank a c : cell_blank (cell_clear a c).
Proof. split; [reflexivity|split; [reflexivity|discriminate]]. Qed.
Lemma cell_clear_wf a c : cell_wf (cell_clear a c).
Proof. apply blank_wf, cell_clear_blank. Qed.
Lemma clear_own_wf c : cell_wf (clear_own c).
Proof. apply cell_clear_wf. Qed.

(* the two places where the continuation flag is set *)
Lemma cont_of_clear_wf c : cell_wf (cell_set_cont true (cell_clear dflt c)).
Proof. apply blank_wf. split; [reflexivity|split; reflexivity]. Qed.
Lemma cont_of_new_wf : cell_wf (cell_set_cont true cell_new).
Proof. apply blank_wf. split; [reflexivity|split; reflexivity]. Qed.

(* "blankish" cells: no text, not wide; the continuation flag may then be set
   freely provided the attributes are the default ones when it is set *)
Lemma blankish_wf c : ctext c = [] -> cwide c = false -> (ccont c = true -> cattrs c = dflt) -> cell_wf c.
Proof. intros Ht Hw Ha; apply blank_wf; split; [exact Ht|split; [exact Hw|exact Ha]]. Qed.

Lemma set_cont_false_wf c : cell_wf c -> cell_wf (cell_set_cont false c).
Proof.
  intros (H1 & H2 & H3 & H4 & H5 & H6). wf_split; cbn [cell_set_cont ctext cwide ccont cattrs];
    try assumption; discriminate.
Qed.

Lemma set_cont_blank b c : ctext c = [] -> cwide c = false -> (b = true -> cattrs c = dflt) ->
  cell_wf (cell_set_cont b c).
Proof. intros Ht Hw Ha. apply blank_wf. split; [exact Ht|split; [exact Hw|exact Ha]]. Qed.

(* ------------------------------------------------------------------ *)
(* Cell::set *)

Lemma char_is_wide_iff ch : char_is_wide ch = true <-> wd ch = Some 2.
Proof.
  unfold char_is_wide. destruct (wd ch) as [w|] eqn:E.
  - pose proof (wd_le2 _ _ E) as Hle. split; intros H.
    + f_equal. lia.
    + inv H. reflexivity.
  - split; discriminate.
Qed.

Lemma cell_set_wf ch a c : storable ch -> wd ch <> Some 0 -> cell_wf (cell_set ch a c).
Proof.
  intros Hs Hw. wf_split; cbn [cell_set ctext cwide ccont cattrs]; try discriminate.
  - intros ch' rest E. inv E. split; [exact Hw|]. split; [apply char_is_wide_iff|constructor].
  - rewrite text_len_cons, text_len_nil. pose proof (utf8_len_bounds ch). lia.
  - constructor; [exact Hs|constructor].
Qed.

(* the same with the hypotheses available on the text path: what [grid_text]
   lets through, minus U+FFFD *)
Lemma cell_set_wf' ch a c : is_scalar ch = true -> ch <> 65533 -> ~ (wd ch = None /\ ch < 256) ->
  wd ch <> Some 0 -> cell_wf (cell_set ch a c).
Proof. intros Hs Hr Hn Hw. apply cell_set_wf; [now apply printable_storable|exact Hw]. Qed.

Lemma cell_set_32_wf a c : cell_wf (cell_set 32 a c).
Proof. apply cell_set_wf; [apply storable_32|]. rewrite wd_32. discriminate. Qed.

(* Cell::append *)
Lemma cell_append_wf ch c : cell_wf c -> ccont c = false -> wd ch = Some 0 -> is_scalar ch = true ->
  cell_wf (cell_append ch c).
Proof.
  intros Hwf Hc Hw Hs. pose proof Hwf as (H1 & H2 & H3 & H4 & H5 & H6).
  pose proof (zero_width_storable _ Hs Hw) as Hst.
  unfold cell_append, cell_len.
  destruct (N.leb_spec 18 (text_len (ctext c))) as [L|L]; [exact Hwf|].
  destruct (N.eqb_spec (text_len (ctext c)) 0) as [Z|Z].
  - apply text_len_0 in Z. wf_split; cbn [ctext cwide ccont cattrs]; rewrite ?Hc; try discriminate.
    + intros ch' rest E. inv E. rewrite wd_32, (H3 Z). split; [discriminate|].
      split; [split; discriminate|]. constructor; [exact Hw|constructor].
    + rewrite !text_len_cons, text_len_nil. pose proof (utf8_len_bounds ch). pose proof (utf8_len_bounds 32). lia.
    + constructor; [apply storable_32|]. constructor; [exact Hst|constructor].
  - destruct (ctext c) as [|c0 rest0] eqn:Et; [rewrite text_len_nil in Z; lia|].
    destruct (H4 c0 rest0 eq_refl) as (K1 & K2 & K3).
    wf_split; cbn [ctext cwide ccont cattrs]; rewrite ?Hc; try discriminate.
    + intros ch' rest E. cbn [app] in E. inv E. split; [exact K1|]. split; [exact K2|].
      apply Forall_app; split; [exact K3|]. constructor; [exact Hw|constructor].
    + rewrite text_len_app, (text_len_cons ch), text_len_nil. pose proof (utf8_len_bounds ch). lia.
    + apply Forall_app; split; [exact H6|]. constructor; [exact Hst|constructor].
Qed.

(* ------------------------------------------------------------------ *)
(* observable corollaries for a well-formed cell *)

Lemma wf_has_contents c : cell_wf c -> (has_contents c = true <-> ctext c <> []).
Proof. intros _. unfold has_contents. destruct (ctext c); split; congruence. Qed.

Lemma wf_wide_has_contents c : cell_wf c -> cwide c = true -> has_contents c = true.
Proof.
  intros (_ & _ & H3 & _) Hw. unfold has_contents. destruct (ctext c) eqn:E; [|reflexivity].
  rewrite H3 in Hw by reflexivity. discriminate.
Qed.

Lemma wf_cont_no_contents c : cell_wf c -> ccont c = true -> has_contents c = false.
Proof. intros (H1 & _) Hc. unfold has_contents. rewrite (H1 Hc). reflexivity. Qed.

Lemma wf_cont_not_wide c : cell_wf c -> ccont c = true -> cwide c = false.
Proof. intros (H1 & _ & H3 & _) Hc. apply H3, H1, Hc. Qed.

Lemma wf_cont_dflt c : cell_wf c -> ccont c = true -> cattrs c = dflt.
Proof. intros (_ & H2 & _) Hc. apply H2, Hc. Qed.

Lemma wf_wide_iff c ch rest : cell_wf c -> ctext c = ch :: rest -> (cwide c = true <-> wd ch = Some 2).
Proof. intros (_ & _ & _ & H4 & _) E. apply (H4 _ _ E). Qed.

Lemma wf_first_nonzero c ch rest : cell_wf c -> ctext c = ch :: rest -> wd ch <> Some 0.
Proof. intros (_ & _ & _ & H4 & _) E. apply (H4 _ _ E). Qed.

Lemma wf_rest_zero c ch rest : cell_wf c -> ctext c = ch :: rest -> Forall (fun z => wd z = Some 0) rest.
Proof. intros (_ & _ & _ & H4 & _) E. apply (H4 _ _ E). Qed.

Lemma wf_text_len c : cell_wf c -> text_len (ctext c) <= 22.
Proof. intros (_ & _ & _ & _ & H5 & _). exact H5. Qed.

Lemma wf_storable c : cell_wf c -> Forall storable (ctext c).
Proof. intros (_ & _ & _ & _ & _ & H6). exact H6. Qed.

Lemma wf_scalar c : cell_wf c -> Forall (fun z => is_scalar z = true) (ctext c).
Proof. intros H. eapply Forall_impl; [|apply (wf_storable _ H)]. intros z Hz. apply Hz. Qed.
