(* Width.v — unicode_width::UnicodeWidthChar::width as a table lookup.
   The table (WidthData.v) is regenerated from the crate on every check run and
   compared with the committed copy. *)
Require Import Base.
Require Export WidthData.

Fixpoint wd_lookup (t : wtree) (c : N) : N :=
  match t with
  | WLeaf => 1
  | WNode l lo hi code r =>
    if c <? lo then wd_lookup l c
    else if hi <? c then wd_lookup r c
    else code
  end.

(* None for control characters, Some 0/1/2 otherwise.  The table holds min(width, 2): the crate
   clamps the width of a character to 2 (Screen::text, after the W1 repair), and unicode-width
   0.2 reports 3 for U+17D8. *)
Definition wd (c : N) : option N :=
  let k := wd_lookup wd_tree c in
  if k =? 3 then None else Some k.
