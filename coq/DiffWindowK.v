(* DiffWindowK.v — the rows_diff clause of C15 at full width, soft-wrapped rows allowed.
   rows_diff(prev, 0, cols) drawn row by row with the window protocol (ESC[m, CUP(i+1,1), row i) on
   a receiver whose rows are prev's (cells AND flags): every row gets the current cells; a row that
   is not flagged in the current screen ends unflagged (the flag-repair block of
   Row::write_contents_diff clears it).  A row flagged in the current screen but not in prev cannot
   get its flag from this protocol (every row starts with an absolute move, nothing is printed
   through a pending wrap) — as for rows_formatted, only contents_diff carries wraps. *)
Require Import Tac ListN Utf8 Width Attrs Cell Row Grid Screen Vte Perform Term Emit
  RowInv GridInv TextInv ScreenInv ParseSer CellWf WfGrid WfVte WfInv EraseSpec SgrSpec MoveSpec PrintSpec
  CellBytes EmitSafe WrapInv WrapInvScreen ObsSpec Recv RowPaint Redraw Cursor C01Main C15Main
  DiffPaint DiffGrid DiffMain DiffWrap.
Open Scope N_scope.

Definition full_done (ri src : row) : Prop :=
  cells ri = cells src /\ (wrapped src = false -> wrapped ri = false).

Lemma diff_full_rows_K R vr pvr : 1 <= gcols (g R) ->
  vrows_ok (gcols (g R)) vr -> vrows_ok (gcols (g R)) pvr ->
  forall rest prest i l r c a,
    (forall k, k < len rest -> get rest k = get vr (i + k)) ->
    (forall k, k < len rest -> get prest k = get pvr (i + k)) ->
    len prest = len rest -> i + len rest = grows (g R) ->
    cv R l r c ->
    (forall i', i <= i' < grows (g R) -> get l i' = get pvr i') ->
    exists toks l' r' c' a',
      rows_diff_rows (zip rest prest) 0 (gcols (g R)) i = Ok toks /\
      plays (rcv R l r c a) (window_protocol 0 i toks) (rcv R l' r' c' a') /\
      cv R l' r' c' /\
      (forall i', i' < i -> get l' i' = get l i') /\
      (forall i', i <= i' < grows (g R) -> exists ri src,
          get l' i' = Some ri /\ get vr i' = Some src /\ full_done ri src).
Proof.
  intros Hc1 [Hsr Hswi] [Hpr Hpwi].
  induction rest as [|src rest IH]; intros prest i l r c a Hseg Hpseg Hlp Hlen Hcv Hshow.
  - rewrite len_nil in Hlen. exists [], l, r, c, a. cbn [zip rows_diff_rows window_protocol].
    split; [reflexivity|]. split; [apply plays_nil|]. split; [exact Hcv|]. split; [auto|]. intros i' Hi'. lia.
  - destruct prest as [|prev prest]; [rewrite len_nil, len_cons in Hlp; lia|].
    rewrite !len_cons in *. cbn [zip rows_diff_rows].
    assert (get vr i = Some src) as Hsrc.
    { specialize (Hseg 0 ltac:(lia)). replace (i + 0) with i in Hseg by lia. rewrite <- Hseg. reflexivity. }
    assert (get pvr i = Some prev) as Hprev.
    { specialize (Hpseg 0 ltac:(lia)). replace (i + 0) with i in Hpseg by lia. rewrite <- Hpseg. reflexivity. }
    assert (i < grows (g R)) as Hi by lia.
    pose proof (Forall_get _ _ _ _ Hsr Hsrc) as Sok. pose proof (Forall_get _ _ _ _ Hpr Hprev) as Pok.
    pose proof (Forall_get _ _ _ _ Hswi Hsrc) as Swi. pose proof (Forall_get _ _ _ _ Hpwi Hprev) as Pwi.
    assert (get l i = Some prev) as Gi by (rewrite Hshow by lia; exact Hprev).
    assert (cv R l i 0) as C0 by (eapply cv_pos; eauto; lia).
    destruct (row_diff_wrap R i src prev false false l prev i 0 dflt Hi Sok Pok Swi Pwi C0 pen_ok_dflt Gi ltac:(discriminate))
      as (ts & r1 & c1 & a1 & ri & -> & P1 & C1 & Pa1 & Ec & Cf & _).
    cbn [bind]. change (wLfin i false l prev) with l in P1, C1.
    assert (len l = grows (g R)) as Ll by apply Hcv.
    destruct (IH prest (i + 1) (set_at l i ri) r1 c1 a1) as (toks & l2 & r2 & c2 & a2 & -> & P2 & C2 & Keep2 & Done2); auto.
    { intros k Hk. specialize (Hseg (k + 1) ltac:(lia)). rewrite get_cons in Hseg.
      destruct (N.eqb_spec (k + 1) 0); [lia|]. replace (k + 1 - 1) with k in Hseg by lia.
      replace (i + 1 + k) with (i + (k + 1)) by lia. exact Hseg. }
    { intros k Hk. specialize (Hpseg (k + 1) ltac:(lia)). rewrite get_cons in Hpseg.
      destruct (N.eqb_spec (k + 1) 0); [lia|]. replace (k + 1 - 1) with k in Hpseg by lia.
      replace (i + 1 + k) with (i + (k + 1)) by lia. exact Hpseg. }
    { lia. } { lia. }
    { intros i' Hi'. rewrite get_set_at. destruct (N.eqb_spec i' i); [lia|]. apply Hshow. lia. }
    cbn [bind]. exists (ts :: toks), l2, r2, c2, a2. split; [reflexivity|]. cbn [window_protocol].
    split.
    { eapply plays_cons; [apply plays_clear_attrs|].
      eapply plays_cons; [apply plays_cup_lit; [exact Hcv|exact Hi|lia]|].
      eapply plays_app; [exact P1|exact P2]. }
    split; [exact C2|]. split.
    { intros i' Hi'. rewrite Keep2 by lia. rewrite get_set_at. destruct (N.eqb_spec i' i); [lia|reflexivity]. }
    intros i' Hi'. destruct (N.eq_dec i' i) as [->|Hne]; [|apply Done2; lia].
    exists ri, src. split; [|split; [exact Hsrc|split; [exact Ec|exact Cf]]].
    rewrite Keep2 by lia. rewrite get_set_at. destruct (N.eqb_spec i i); [|lia].
    destruct (N.ltb_spec i (len l)); [reflexivity|lia].
Qed.

Theorem C15_diff_full_K S P R vr pvr toks :
  source_ok S vr -> source_ok P pvr ->
  grows (cur S) = grows (cur P) -> gcols (cur S) = gcols (cur P) ->
  canvas R -> grows (g R) = grows (cur P) -> gcols (g R) = gcols (cur P) -> live (g R) = pvr ->
  rows_diff_t S P 0 (gcols (cur S)) = Ok toks ->
  exists R', play false R (window_protocol 0 0 toks) = Ok (R', []) /\ canvas R' /\
    grows (g R') = grows (g R) /\ gcols (g R') = gcols (g R) /\
    forall i, i < grows (cur S) -> exists ri src,
      get (live (g R')) i = Some ri /\ get vr i = Some src /\ full_done ri src.
Proof.
  intros HS HP Er Ec CR Rr Rc Rl Et.
  destruct (source_dims _ _ HS) as (Lvr & _ & _). destruct (source_dims _ _ HP) as (Lpvr & _ & _).
  pose proof (canvas_dims _ CR) as (_ & D2 & _).
  unfold rows_diff_t in Et. rewrite (so_vis _ _ HS), (so_vis _ _ HP) in Et. cbn [bind] in Et.
  pose proof (cv_id R CR) as Hcv.
  assert (vrows_ok (gcols (g R)) vr) as Q1 by (rewrite Rc, <- Ec; apply (so_rows _ _ HS)).
  assert (vrows_ok (gcols (g R)) pvr) as Q2 by (rewrite Rc; apply (so_rows _ _ HP)).
  destruct (diff_full_rows_K R vr pvr ltac:(lia) Q1 Q2 vr pvr 0 (live (g R)) (prow (g R)) (pcol (g R)) (pen R))
    as (toks' & l' & r' & c' & a' & E & Pl & C & _ & Done).
  { intros k Hk. replace (0 + k) with k by lia. reflexivity. }
  { intros k Hk. replace (0 + k) with k by lia. reflexivity. }
  { congruence. } { lia. } { exact Hcv. }
  { intros i' Hi'. now rewrite Rl. }
  replace (gcols (cur S)) with (gcols (g R)) in Et by congruence.
  rewrite E in Et. inv Et. rewrite rcv_id in Pl.
  exists (rcv R l' r' c' a'). split; [exact Pl|]. split; [now apply cv_canvas_rcv|].
  split; [reflexivity|]. split; [reflexivity|].
  intros i Hi. apply Done. lia.
Qed.
