(* CellBytes.v — refinement of the abstract cell of Cell.v to the concrete
   representation of src/cell.rs:

     struct Cell { contents: [u8; 22], len: u8, attrs: Attrs }
     IS_WIDE = 0x80, IS_WIDE_CONTINUATION = 0x40, LEN_BITS = 0x1f

   The concrete operations are modelled literally (bit operations with
   N.lor / N.land, slices and u8 additions checked, i.e. in the [res] monad).
   [abs] maps a concrete cell to the abstract cell; every operation commutes
   with [abs] and preserves the well-formedness predicate [bwf]; every observer
   and the equality test factor through [abs].  Hence bytes beyond the live
   length ("stale" bytes, which clear/set never erase) are unobservable. *)
Require Import Tac Utf8 Width Attrs Cell Utf8Lemmas ListN ParseSer CellWf SgrSpec.
Open Scope N_scope.

(* ------------------------------------------------------------------ *)
(* 1. The concrete cell                                                 *)
(* ------------------------------------------------------------------ *)

Definition CONTENT_BYTES : N := 22.
Definition IS_WIDE : N := 128.                    (* 0b1000_0000 *)
Definition IS_WIDE_CONTINUATION : N := 64.        (* 0b0100_0000 *)
Definition LEN_BITS : N := 31.                    (* 0b0001_1111 *)
Definition NOT_IS_WIDE : N := 127.                (* !IS_WIDE as u8 *)
Definition NOT_IS_WIDE_CONTINUATION : N := 191.   (* !IS_WIDE_CONTINUATION as u8 *)

Record bcell := mkB {
  bytes : list N;      (* contents: [u8; 22] *)
  lenb : N;            (* len: u8 — bit 7 IS_WIDE, bit 6 IS_WIDE_CONTINUATION, bits 0..4 the length *)
  battrs : attrs }.

(* Cell::new *)
Definition bnew : bcell := mkB (repeatN 0 CONTENT_BYTES) 0 dflt.

(* fn len(&self) = usize::from(self.len & LEN_BITS) *)
Definition blen (b : bcell) : N := N.land (lenb b) LEN_BITS.

(* u8 += : overflow-checked, like the u16 arithmetic of Base.v *)
Definition add8 (a b : N) : res N := if a + b <=? 255 then Ok (a + b) else Panic POverflow.

(* c.encode_utf8(&mut contents[start..]) : the slice must exist and be long
   enough for the encoding; all other bytes keep their old values *)
Definition write_at (bs : list N) (start : N) (enc : list N) : res (list N) :=
  if start <=? len bs then
    if len enc <=? len bs - start
    then Ok (firstnN start bs ++ enc ++ skipnN (start + len enc) bs)
    else Panic PIndex
  else Panic PIndex.

(* fn append_char(&mut self, start, c) *)
Definition bappend_char (start : N) (c : N) (b : bcell) : res bcell :=
  do bs <- write_at (bytes b) start (utf8_encode c);
  do l <- add8 (lenb b) (utf8_len c);
  Ok (mkB bs l (battrs b)).

(* fn set_wide / set_wide_continuation *)
Definition bset_wide (w : bool) (b : bcell) : bcell :=
  mkB (bytes b) (if w then N.lor (lenb b) IS_WIDE else N.land (lenb b) NOT_IS_WIDE) (battrs b).
Definition bset_cont (w : bool) (b : bcell) : bcell :=
  mkB (bytes b) (if w then N.lor (lenb b) IS_WIDE_CONTINUATION else N.land (lenb b) NOT_IS_WIDE_CONTINUATION)
      (battrs b).

(* c.width().unwrap_or(1) > 1 *)
Definition width_gt1 (c : N) : bool := 1 <? (match wd c with Some w => w | None => 1 end).

(* fn set(&mut self, c, a) *)
Definition bset (c : N) (a : attrs) (b : bcell) : res bcell :=
  let b0 := mkB (bytes b) 0 (battrs b) in
  do b1 <- bappend_char 0 c b0;
  let b2 := bset_wide (width_gt1 c) b1 in
  Ok (mkB (bytes b2) (lenb b2) a).

(* fn append(&mut self, c) *)
Definition bappend (c : N) (b : bcell) : res bcell :=
  let l := blen b in
  if CONTENT_BYTES - 4 <=? l then Ok b
  else
    do b1 <- (if l =? 0 then
                do bs <- (if 0 <? len (bytes b) then Ok (set_at (bytes b) 0 32) else Panic PIndex);
                do l1 <- add8 (lenb b) 1;
                Ok (mkB bs l1 (battrs b))
              else Ok b);
    bappend_char (blen b1) c b1.

(* fn clear(&mut self, attrs): the bytes are NOT touched *)
Definition bclear (a : attrs) (b : bcell) : bcell := mkB (bytes b) 0 a.

(* &self.contents[..n] *)
Definition slice_to (bs : list N) (n : N) : res (list N) :=
  if n <=? len bs then Ok (firstnN n bs) else Panic PIndex.

(* impl PartialEq *)
Definition beq (b1 b2 : bcell) : res bool :=
  if negb (lenb b1 =? lenb b2) then Ok false
  else if negb (attrs_eqb (battrs b1) (battrs b2)) then Ok false
  else
    let l := blen b1 in
    do s1 <- slice_to (bytes b1) l;
    do s2 <- slice_to (bytes b2) l;
    Ok (list_eqb N.eqb s1 s2).

(* observers *)
Definition bis_wide (b : bcell) : bool := negb (N.land (lenb b) IS_WIDE =? 0).
Definition bis_cont (b : bcell) : bool := negb (N.land (lenb b) IS_WIDE_CONTINUATION =? 0).
Definition bhas_contents (b : bcell) : bool := 0 <? blen b.
(* contents(): the str, as bytes ... *)
Definition bcontents_bytes (b : bcell) : res (list N) := slice_to (bytes b) (blen b).
(* ... and as the chars it denotes: std::str::from_utf8(..).unwrap() *)
Definition bcontents (b : bcell) : res (list N) :=
  do s <- slice_to (bytes b) (blen b);
  match from_utf8 s with
  | (t, _, UOk) => Ok t
  | _ => Panic PUnwrap
  end.

(* ------------------------------------------------------------------ *)
(* 2. Abstraction and well-formedness                                   *)
(* ------------------------------------------------------------------ *)

Definition live_prefix (b : bcell) : list N := firstnN (blen b) (bytes b).
Definition btext (b : bcell) : list N := fst (fst (from_utf8 (live_prefix b))).

Definition abs (b : bcell) : cell := mkCell (btext b) (bis_wide b) (bis_cont b) (battrs b).

Definition scalars (t : list N) : Prop := Forall (fun c => is_scalar c = true) t.

Record bwf (b : bcell) : Prop := mkBwf {
  bw_bytes : len (bytes b) = CONTENT_BYTES;
  bw_u8 : lenb b < 256;
  bw_bit5 : lenb b mod 64 < 32;                       (* the unused bit 0x20 is clear *)
  bw_len : blen b <= CONTENT_BYTES;
  bw_utf8 : exists t, scalars t /\ live_prefix b = encode_str t }.

(* ------------------------------------------------------------------ *)
(* 3. The bit operations on a u8, arithmetically (exhaustive check)     *)
(* ------------------------------------------------------------------ *)

Definition bits_check (x : N) : bool :=
  (N.land x 31 =? x mod 32) && (N.lor x 128 =? x mod 128 + 128) && (N.land x 127 =? x mod 128)
  && (N.lor x 64 =? x / 128 * 128 + 64 + x mod 64) && (N.land x 191 =? x / 128 * 128 + x mod 64)
  && Bool.eqb (N.land x 128 =? 0) (x <? 128) && Bool.eqb (N.land x 64 =? 0) (x mod 128 <? 64).

Lemma bits_check_all : all_below 256 bits_check = true.
Proof. vm_compute. reflexivity. Qed.

Lemma u8_bits x : x < 256 ->
  N.land x 31 = x mod 32 /\ N.lor x 128 = x mod 128 + 128 /\ N.land x 127 = x mod 128 /\
  N.lor x 64 = x / 128 * 128 + 64 + x mod 64 /\ N.land x 191 = x / 128 * 128 + x mod 64 /\
  (N.land x 128 =? 0) = (x <? 128) /\ (N.land x 64 =? 0) = (x mod 128 <? 64).
Proof.
  intros H. assert (x < N.of_nat 256) as Hx by lia.
  pose proof (all_below_spec 256 _ bits_check_all x Hx) as E. unfold bits_check in E.
  repeat (apply andb_true_iff in E; destruct E as [E ?E]).
  repeat match goal with
         | Hq : (_ =? _) = true |- _ => apply N.eqb_eq in Hq
         | Hq : Bool.eqb _ _ = true |- _ => apply eqb_prop in Hq
         end.
  repeat split; assumption.
Qed.

Lemma blen_eq b : lenb b < 256 -> blen b = lenb b mod 32.
Proof. intros H. unfold blen, LEN_BITS. apply (u8_bits _ H). Qed.

Lemma bis_wide_eq b : lenb b < 256 -> bis_wide b = (128 <=? lenb b).
Proof.
  intros H. unfold bis_wide, IS_WIDE. destruct (u8_bits _ H) as (_ & _ & _ & _ & _ & -> & _).
  destruct (N.ltb_spec (lenb b) 128), (N.leb_spec 128 (lenb b)); cbn [negb]; try reflexivity; lia.
Qed.

Lemma bis_cont_eq b : lenb b < 256 -> bis_cont b = (64 <=? lenb b mod 128).
Proof.
  intros H. unfold bis_cont, IS_WIDE_CONTINUATION. destruct (u8_bits _ H) as (_ & _ & _ & _ & _ & _ & ->).
  destruct (N.ltb_spec (lenb b mod 128) 64), (N.leb_spec 64 (lenb b mod 128)); cbn [negb]; try reflexivity; lia.
Qed.

Lemma set_wide_spec x (w : bool) : x < 256 ->
  let y := if w then N.lor x IS_WIDE else N.land x NOT_IS_WIDE in
  y < 256 /\ y mod 128 = x mod 128 /\ (128 <=? y) = w.
Proof.
  intros H. unfold IS_WIDE, NOT_IS_WIDE. destruct (u8_bits _ H) as (_ & E1 & E2 & _).
  destruct w; cbv zeta; [rewrite E1|rewrite E2].
  - repeat split; lia.
  - repeat split; lia.
Qed.

Lemma set_cont_spec x (w : bool) : x < 256 ->
  let y := if w then N.lor x IS_WIDE_CONTINUATION else N.land x NOT_IS_WIDE_CONTINUATION in
  y < 256 /\ y mod 64 = x mod 64 /\ y / 128 = x / 128 /\ (64 <=? y mod 128) = w.
Proof.
  intros H. unfold IS_WIDE_CONTINUATION, NOT_IS_WIDE_CONTINUATION.
  destruct (u8_bits _ H) as (_ & _ & _ & E1 & E2 & _).
  destruct w; cbv zeta; [rewrite E1|rewrite E2].
  - repeat split; lia.
  - repeat split; lia.
Qed.

(* ------------------------------------------------------------------ *)
(* 4. UTF-8 round trip on strings                                       *)
(* ------------------------------------------------------------------ *)

Lemma encode_str_cons c t : encode_str (c :: t) = utf8_encode c ++ encode_str t.
Proof. reflexivity. Qed.

Lemma encode_str_app t u : encode_str (t ++ u) = encode_str t ++ encode_str u.
Proof. unfold encode_str. apply flat_map_app. Qed.

Lemma len_encode_str t : len (encode_str t) = text_len t.
Proof.
  induction t as [|c t IH]; [reflexivity|].
  rewrite encode_str_cons, ListN.len_app, utf8_encode_len, IH. reflexivity.
Qed.

Theorem from_utf8_encode_str t : scalars t -> from_utf8 (encode_str t) = (t, text_len t, UOk).
Proof.
  induction t as [|c t IH]; intros F; [reflexivity|].
  inversion F as [|? ? Hc Ft]; subst.
  rewrite encode_str_cons, from_utf8_unfold, (decode1_encode c _ Hc).
  rewrite skipnN_app_ge by (rewrite utf8_encode_len; lia).
  rewrite utf8_encode_len, N.sub_diag, skipnN_0, (IH Ft). reflexivity.
Qed.

Lemma text_len_nil_iff t : text_len t = 0 <-> t = [].
Proof.
  split; [|intros ->; reflexivity]. destruct t as [|c t]; [reflexivity|].
  cbn [text_len fold_right]. pose proof (utf8_len_pos c). lia.
Qed.

Lemma list_eqb_N_eq l m : list_eqb N.eqb l m = true <-> l = m.
Proof.
  revert m. induction l as [|x l IH]; intros [|y m]; cbn [list_eqb]; split; intros H; try discriminate; try reflexivity.
  - apply andb_true_iff in H as [H1 H2]. apply N.eqb_eq in H1. apply IH in H2. congruence.
  - inv H. rewrite N.eqb_refl. cbn [andb]. now apply IH.
Qed.

Lemma cell_eqb_eq c d : cell_eqb c d = true <-> c = d.
Proof.
  unfold cell_eqb. split.
  - intros H. apply andb_true_iff in H as [H Ha]. apply andb_true_iff in H as [H Hc].
    apply andb_true_iff in H as [Ht Hw].
    apply list_eqb_N_eq in Ht. apply eqb_prop in Hw. apply eqb_prop in Hc. apply attrs_eqb_eq in Ha.
    destruct c, d. cbn in *. congruence.
  - intros <-. rewrite (proj2 (list_eqb_N_eq _ _) eq_refl), !eqb_reflx, (proj2 (attrs_eqb_eq _ _) eq_refl).
    reflexivity.
Qed.

(* ------------------------------------------------------------------ *)
(* 5. Consequences of well-formedness                                   *)
(* ------------------------------------------------------------------ *)

Lemma len_live_prefix b : blen b <= len (bytes b) -> len (live_prefix b) = blen b.
Proof. intros H. unfold live_prefix. rewrite ListN.len_firstnN. lia. Qed.

(* the decoded text re-encodes to the live prefix *)
Lemma bwf_text b : bwf b ->
  scalars (btext b) /\ live_prefix b = encode_str (btext b) /\ text_len (btext b) = blen b.
Proof.
  intros W. destruct (bw_utf8 _ W) as (t & St & E).
  assert (btext b = t) as ->. { unfold btext. rewrite E, (from_utf8_encode_str t St). reflexivity. }
  split; [exact St|]. split; [exact E|].
  rewrite <- len_encode_str, <- E. apply len_live_prefix. rewrite (bw_bytes _ W). apply (bw_len _ W).
Qed.

Lemma btext_of_prefix b t : scalars t -> live_prefix b = encode_str t -> btext b = t.
Proof. intros St E. unfold btext. rewrite E, (from_utf8_encode_str t St). reflexivity. Qed.

Lemma cell_len_abs b : bwf b -> cell_len (abs b) = blen b.
Proof. intros W. unfold cell_len, abs. cbn [ctext]. apply (bwf_text b W). Qed.

(* ------------------------------------------------------------------ *)
(* 6. Writing into the buffer                                           *)
(* ------------------------------------------------------------------ *)

Lemma firstnN_app_exact {A} (a r : list A) n : len a = n -> firstnN n (a ++ r) = a.
Proof.
  intros <-. unfold firstnN, len. rewrite Nnat.Nat2N.id, firstn_app, firstn_all, Nat.sub_diag. cbn [firstn].
  apply app_nil_r.
Qed.

Lemma write_prefix {A} (bs enc : list A) start : start + len enc <= len bs ->
  firstnN (start + len enc) (firstnN start bs ++ enc ++ skipnN (start + len enc) bs) = firstnN start bs ++ enc.
Proof.
  intros H. rewrite app_assoc. apply firstnN_app_exact. rewrite ListN.len_app, ListN.len_firstnN. lia.
Qed.

Lemma write_len {A} (bs enc : list A) start : start + len enc <= len bs ->
  len (firstnN start bs ++ enc ++ skipnN (start + len enc) bs) = len bs.
Proof. intros H. rewrite !ListN.len_app, ListN.len_firstnN, ListN.len_skipnN. lia. Qed.

Lemma bappend_char_ok start c b :
  start + utf8_len c <= len (bytes b) -> lenb b + utf8_len c <= 255 ->
  bappend_char start c b =
  Ok (mkB (firstnN start (bytes b) ++ utf8_encode c ++ skipnN (start + utf8_len c) (bytes b))
          (lenb b + utf8_len c) (battrs b)).
Proof.
  intros H1 H2. unfold bappend_char, write_at, add8. rewrite utf8_encode_len.
  destruct (N.leb_spec start (len (bytes b))); [|lia].
  destruct (N.leb_spec (utf8_len c) (len (bytes b) - start)); [|lia]. cbn [bind].
  destruct (N.leb_spec (lenb b + utf8_len c) 255); [|lia]. reflexivity.
Qed.

(* ------------------------------------------------------------------ *)
(* 7. The operations: no panic, bwf preserved, commute with abs         *)
(* ------------------------------------------------------------------ *)

Lemma bnew_wf : bwf bnew.
Proof.
  split; try (vm_compute; reflexivity); try (vm_compute; discriminate).
  exists []. split; [constructor|reflexivity].
Qed.

Theorem abs_bnew : abs bnew = cell_new.
Proof. reflexivity. Qed.

Lemma width_gt1_eq c : width_gt1 c = char_is_wide c.
Proof.
  unfold width_gt1, char_is_wide. destruct (wd c); [reflexivity|]. apply N.ltb_irrefl.
Qed.

Theorem bset_abs c a b : bwf b -> is_scalar c = true ->
  exists b', bset c a b = Ok b' /\ bwf b' /\ abs b' = cell_set c a (abs b).
Proof.
  intros W Hs. pose proof (utf8_len_pos c) as Hn. pose proof (bw_bytes _ W) as Hb.
  unfold CONTENT_BYTES in *. unfold bset.
  rewrite bappend_char_ok by (cbn [bytes lenb]; lia). cbn [bind bytes lenb battrs bset_wide].
  rewrite N.add_0_l.
  set (n := utf8_len c) in *.
  set (bs' := firstnN 0 (bytes b) ++ utf8_encode c ++ skipnN n (bytes b)).
  assert (n < 256) as Hn256 by lia.
  pose proof (set_wide_spec n (width_gt1 c) Hn256) as S. cbv zeta in S.
  set (y := if width_gt1 c then N.lor n IS_WIDE else N.land n NOT_IS_WIDE) in *.
  destruct S as (Sy & Sm & Sw).
  set (b' := mkB bs' y a).
  assert (Hlen : blen b' = n). { rewrite blen_eq by exact Sy. cbn [b' lenb]. lia. }
  assert (Hbs' : len bs' = 22).
  { unfold bs'. replace n with (0 + len (utf8_encode c)) by (rewrite utf8_encode_len; lia).
    rewrite write_len; [exact Hb|rewrite utf8_encode_len; lia]. }
  assert (Hpre : live_prefix b' = encode_str [c]).
  { unfold live_prefix. rewrite Hlen. cbn [b' bytes]. unfold bs'.
    replace n with (0 + len (utf8_encode c)) by (rewrite utf8_encode_len; lia).
    rewrite write_prefix by (rewrite utf8_encode_len; lia).
    unfold encode_str. cbn [flat_map]. rewrite app_nil_r. reflexivity. }
  assert (St : scalars [c]) by (constructor; [exact Hs|constructor]).
  exists b'. split; [reflexivity|]. split.
  - split.
    + exact Hbs'.
    + exact Sy.
    + cbn [b' lenb]. lia.
    + rewrite Hlen. unfold CONTENT_BYTES. lia.
    + exists [c]. split; assumption.
  - unfold abs. rewrite (btext_of_prefix b' [c] St Hpre).
    rewrite bis_wide_eq, bis_cont_eq by exact Sy. cbn [b' lenb battrs]. rewrite Sw, width_gt1_eq.
    unfold cell_set. f_equal. destruct (N.leb_spec 64 (y mod 128)); [lia|reflexivity].
Qed.

Lemma is_scalar_32 : is_scalar 32 = true.
Proof. reflexivity. Qed.

Lemma firstnN_1_cons {A} (x : A) l : firstnN 1 (x :: l) = [x].
Proof. reflexivity. Qed.

Theorem bappend_abs c b : bwf b -> is_scalar c = true ->
  exists b', bappend c b = Ok b' /\ bwf b' /\ abs b' = cell_append c (abs b).
Proof.
  intros W Hs. pose proof (utf8_len_pos c) as Hn. pose proof (bw_bytes _ W) as Hb.
  pose proof (bw_u8 _ W) as Hu. pose proof (bw_bit5 _ W) as H5. pose proof (bw_len _ W) as Hl.
  pose proof (blen_eq b Hu) as Hbl.
  destruct (bwf_text b W) as (St & Epre & Etl).
  unfold CONTENT_BYTES in *. unfold bappend, cell_append. rewrite (cell_len_abs b W).
  change (CONTENT_BYTES - 4) with 18.
  destruct (N.leb_spec 18 (blen b)) as [H18|H18].
  { exists b. split; [reflexivity|]. split; [exact W|reflexivity]. }
  set (n := utf8_len c) in *.
  destruct (N.eqb_spec (blen b) 0) as [H0|H0].
  - (* empty cell: a space is stored first *)
    destruct (bytes b) as [|h tl] eqn:Eb; [rewrite ListN.len_nil in Hb; lia|].
    destruct (N.ltb_spec 0 (len (h :: tl))) as [_|]; [|lia]. cbn [bind].
    unfold add8. destruct (N.leb_spec (lenb b + 1) 255) as [_|]; [|lia]. cbn [bind].
    change (set_at (h :: tl) 0 32) with (32 :: tl).
    set (b1 := mkB (32 :: tl) (lenb b + 1) (battrs b)).
    assert (Hu1 : lenb b1 < 256) by (cbn [b1 lenb]; lia).
    assert (Hl1 : blen b1 = 1). { rewrite blen_eq by exact Hu1. cbn [b1 lenb]. lia. }
    rewrite Hl1.
    assert (Hb1 : len (bytes b1) = 22). { cbn [b1 bytes]. rewrite ListN.len_cons in *. exact Hb. }
    rewrite bappend_char_ok by (fold n; cbn [b1 lenb] in *; rewrite ?Hb1; lia).
    fold n. cbn [b1 bytes lenb battrs].
    set (bs' := firstnN 1 (32 :: tl) ++ utf8_encode c ++ skipnN (1 + n) (32 :: tl)).
    set (b' := mkB bs' (lenb b + 1 + n) (battrs b)).
    assert (Hu' : lenb b' < 256) by (cbn [b' lenb]; lia).
    assert (Hlen : blen b' = 1 + n). { rewrite blen_eq by exact Hu'. cbn [b' lenb]. lia. }
    assert (Hbs' : len bs' = 22).
    { unfold bs'. replace n with (len (utf8_encode c)) by apply utf8_encode_len.
      rewrite write_len; [exact Hb1|rewrite utf8_encode_len; cbn [b1 bytes] in Hb1; lia]. }
    assert (Hpre : live_prefix b' = encode_str [32; c]).
    { unfold live_prefix. rewrite Hlen. cbn [b' bytes]. unfold bs'.
      replace n with (len (utf8_encode c)) by apply utf8_encode_len.
      rewrite write_prefix by (rewrite utf8_encode_len; cbn [b1 bytes] in Hb1; lia).
      rewrite firstnN_1_cons. unfold encode_str. cbn [flat_map]. rewrite app_nil_r. reflexivity. }
    assert (St' : scalars [32; c]).
    { constructor; [exact is_scalar_32|]. constructor; [exact Hs|constructor]. }
    exists b'. split; [reflexivity|]. split.
    + split.
      * exact Hbs'.
      * exact Hu'.
      * cbn [b' lenb]. lia.
      * rewrite Hlen. unfold CONTENT_BYTES. lia.
      * exists [32; c]. split; assumption.
    + unfold abs. rewrite (btext_of_prefix b' _ St' Hpre).
      rewrite !bis_wide_eq, !bis_cont_eq by assumption. cbn [b' lenb battrs ctext cwide ccont cattrs].
      f_equal.
      * destruct (N.leb_spec 128 (lenb b + 1 + n)), (N.leb_spec 128 (lenb b)); try reflexivity; lia.
      * destruct (N.leb_spec 64 ((lenb b + 1 + n) mod 128)), (N.leb_spec 64 (lenb b mod 128)); try reflexivity; lia.
  - (* non-empty cell: the character is appended *)
    cbn [bind].
    rewrite bappend_char_ok by (fold n; lia). fold n.
    set (bs' := firstnN (blen b) (bytes b) ++ utf8_encode c ++ skipnN (blen b + n) (bytes b)).
    set (b' := mkB bs' (lenb b + n) (battrs b)).
    assert (Hu' : lenb b' < 256) by (cbn [b' lenb]; lia).
    assert (Hlen : blen b' = blen b + n). { rewrite blen_eq by exact Hu'. cbn [b' lenb]. lia. }
    assert (Hbs' : len bs' = 22).
    { unfold bs'. replace n with (len (utf8_encode c)) by apply utf8_encode_len.
      rewrite write_len; [exact Hb|rewrite utf8_encode_len; lia]. }
    assert (Hpre : live_prefix b' = encode_str (btext b ++ [c])).
    { unfold live_prefix at 1. rewrite Hlen. cbn [b' bytes]. unfold bs'.
      replace n with (len (utf8_encode c)) by apply utf8_encode_len.
      rewrite write_prefix by (rewrite utf8_encode_len; lia).
      fold (live_prefix b). rewrite Epre, encode_str_app. unfold encode_str at 3. cbn [flat_map].
      rewrite app_nil_r. reflexivity. }
    assert (St' : scalars (btext b ++ [c])).
    { apply Forall_app. split; [exact St|]. constructor; [exact Hs|constructor]. }
    exists b'. split; [reflexivity|]. split.
    + split.
      * exact Hbs'.
      * exact Hu'.
      * cbn [b' lenb]. lia.
      * rewrite Hlen. unfold CONTENT_BYTES. lia.
      * eexists. split; eassumption.
    + unfold abs at 1. rewrite (btext_of_prefix b' _ St' Hpre).
      rewrite !bis_wide_eq, !bis_cont_eq by assumption.
      unfold abs. cbn [b' lenb battrs ctext cwide ccont cattrs].
      rewrite !bis_wide_eq, !bis_cont_eq by assumption.
      f_equal.
      * destruct (N.leb_spec 128 (lenb b + n)), (N.leb_spec 128 (lenb b)); try reflexivity; lia.
      * destruct (N.leb_spec 64 ((lenb b + n) mod 128)), (N.leb_spec 64 (lenb b mod 128)); try reflexivity; lia.
Qed.

(* clear needs only the buffer size: whatever bytes are there become stale *)
Theorem bclear_abs a b : len (bytes b) = CONTENT_BYTES ->
  bwf (bclear a b) /\ abs (bclear a b) = cell_clear a (abs b).
Proof.
  intros Hb. split.
  - split; cbn [bclear bytes lenb]; try exact Hb; try (vm_compute; reflexivity); try (vm_compute; discriminate).
    exists []. split; [constructor|reflexivity].
  - reflexivity.
Qed.

Theorem bset_cont_abs w b : bwf b ->
  bwf (bset_cont w b) /\ abs (bset_cont w b) = cell_set_cont w (abs b).
Proof.
  intros W. pose proof (bw_u8 _ W) as Hu. pose proof (bw_bit5 _ W) as H5. pose proof (bw_len _ W) as Hl.
  pose proof (blen_eq b Hu) as Hbl.
  pose proof (set_cont_spec (lenb b) w Hu) as S. cbv zeta in S. destruct S as (Sy & S64 & S128 & Sc).
  assert (Hlen : blen (bset_cont w b) = blen b).
  { rewrite blen_eq by exact Sy. cbn [bset_cont lenb]. lia. }
  assert (Hpre : live_prefix (bset_cont w b) = live_prefix b).
  { unfold live_prefix. rewrite Hlen. reflexivity. }
  split.
  - split.
    + apply W.
    + exact Sy.
    + cbn [bset_cont lenb]. lia.
    + rewrite Hlen. exact Hl.
    + destruct (bw_utf8 _ W) as (t & St & E). exists t. split; [exact St|]. rewrite Hpre. exact E.
  - unfold abs, btext. rewrite Hpre. rewrite !bis_wide_eq, !bis_cont_eq by assumption.
    cbn [bset_cont lenb battrs]. unfold cell_set_cont. cbn [ctext cwide cattrs]. rewrite Sc.
    f_equal.
    destruct (N.leb_spec 128 (if w then N.lor (lenb b) IS_WIDE_CONTINUATION
                              else N.land (lenb b) NOT_IS_WIDE_CONTINUATION)), (N.leb_spec 128 (lenb b));
      try reflexivity; lia.
Qed.

(* ------------------------------------------------------------------ *)
(* 8. Observers and equality factor through abs                         *)
(* ------------------------------------------------------------------ *)

Lemma slice_live b : bwf b -> slice_to (bytes b) (blen b) = Ok (live_prefix b).
Proof.
  intros W. unfold slice_to. rewrite (bw_bytes _ W).
  destruct (N.leb_spec (blen b) CONTENT_BYTES) as [_|H]; [reflexivity|]. pose proof (bw_len _ W). lia.
Qed.

Theorem bcontents_abs b : bwf b -> bcontents b = Ok (ctext (abs b)).
Proof.
  intros W. destruct (bwf_text b W) as (St & E & _).
  unfold bcontents. rewrite (slice_live b W). cbn [bind]. rewrite E, (from_utf8_encode_str _ St). reflexivity.
Qed.

Theorem bcontents_bytes_abs b : bwf b -> bcontents_bytes b = Ok (encode_str (ctext (abs b))).
Proof.
  intros W. destruct (bwf_text b W) as (_ & E & _).
  unfold bcontents_bytes. rewrite (slice_live b W), E. reflexivity.
Qed.

Theorem bhas_contents_abs b : bwf b -> bhas_contents b = has_contents (abs b).
Proof.
  intros W. destruct (bwf_text b W) as (_ & _ & E).
  unfold bhas_contents, has_contents, abs. cbn [ctext]. rewrite <- E.
  destruct (btext b) as [|c t] eqn:Et; [reflexivity|].
  cbn [text_len fold_right]. pose proof (utf8_len_pos c).
  destruct (N.ltb_spec 0 (utf8_len c + fold_right (fun c0 n => utf8_len c0 + n) 0 t)); [reflexivity|lia].
Qed.

Theorem bis_wide_abs b : bis_wide b = cwide (abs b). Proof. reflexivity. Qed.
Theorem bis_cont_abs b : bis_cont b = ccont (abs b). Proof. reflexivity. Qed.
Theorem battrs_abs b : battrs b = cattrs (abs b). Proof. reflexivity. Qed.

Theorem beq_abs b1 b2 : bwf b1 -> bwf b2 -> beq b1 b2 = Ok (cell_eqb (abs b1) (abs b2)).
Proof.
  intros W1 W2.
  pose proof (bw_u8 _ W1) as Hu1. pose proof (bw_u8 _ W2) as Hu2.
  pose proof (bw_bit5 _ W1) as H51. pose proof (bw_bit5 _ W2) as H52.
  destruct (bwf_text b1 W1) as (St1 & E1 & T1). destruct (bwf_text b2 W2) as (St2 & E2 & T2).
  unfold beq. destruct (N.eqb_spec (lenb b1) (lenb b2)) as [El|El]; cbn [negb].
  - assert (Hbl : blen b2 = blen b1) by (unfold blen; rewrite El; reflexivity).
    destruct (attrs_eqb (battrs b1) (battrs b2)) eqn:Ea; cbn [negb].
    + rewrite (slice_live b1 W1). cbn [bind]. rewrite <- Hbl, (slice_live b2 W2). cbn [bind].
      f_equal. apply eq_iff_eq_true. rewrite list_eqb_N_eq, cell_eqb_eq. apply attrs_eqb_eq in Ea.
      split.
      * intros P. unfold abs, btext, bis_wide, bis_cont. rewrite P, El, Ea. reflexivity.
      * intros A. rewrite E1, E2. f_equal. apply (f_equal ctext) in A. exact A.
    + f_equal. unfold cell_eqb, abs. cbn [cattrs]. rewrite Ea. symmetry. apply andb_false_r.
  - f_equal. destruct (cell_eqb (abs b1) (abs b2)) eqn:C; [exfalso|reflexivity].
    apply cell_eqb_eq in C.
    pose proof (f_equal ctext C) as Ct. pose proof (f_equal cwide C) as Cw. pose proof (f_equal ccont C) as Cc.
    cbn [abs ctext cwide ccont] in Ct, Cw, Cc.
    rewrite !bis_wide_eq in Cw by assumption. rewrite !bis_cont_eq in Cc by assumption.
    rewrite Ct in T1. rewrite T1 in T2. rewrite !blen_eq in T2 by assumption.
    apply El.
    destruct (N.leb_spec 128 (lenb b1)), (N.leb_spec 128 (lenb b2)); try discriminate;
    destruct (N.leb_spec 64 (lenb b1 mod 128)), (N.leb_spec 64 (lenb b2 mod 128)); try discriminate; lia.
Qed.

(* ------------------------------------------------------------------ *)
(* 9. Stale bytes are unobservable                                      *)
(* ------------------------------------------------------------------ *)

Definition res_abs (r : res bcell) : res cell :=
  match r with Ok b => Ok (abs b) | Panic k => Panic k end.

(* Two well-formed concrete cells with the same abstraction cannot be told
   apart: by the equality test, by any observer, or after any further
   operation (the results again have equal abstractions). *)
Theorem stale_bytes_unobservable b1 b2 : bwf b1 -> bwf b2 -> abs b1 = abs b2 ->
  beq b1 b2 = Ok true /\
  bcontents b1 = bcontents b2 /\ bcontents_bytes b1 = bcontents_bytes b2 /\
  bhas_contents b1 = bhas_contents b2 /\ bis_wide b1 = bis_wide b2 /\ bis_cont b1 = bis_cont b2 /\
  battrs b1 = battrs b2 /\
  (forall c a, is_scalar c = true -> res_abs (bset c a b1) = res_abs (bset c a b2)) /\
  (forall c, is_scalar c = true -> res_abs (bappend c b1) = res_abs (bappend c b2)) /\
  (forall a, abs (bclear a b1) = abs (bclear a b2)) /\
  (forall w, abs (bset_cont w b1) = abs (bset_cont w b2)).
Proof.
  intros W1 W2 A. repeat apply conj.
  - rewrite (beq_abs _ _ W1 W2), A. f_equal. apply cell_eqb_eq. reflexivity.
  - rewrite !bcontents_abs, A by assumption. reflexivity.
  - rewrite !bcontents_bytes_abs, A by assumption. reflexivity.
  - rewrite !bhas_contents_abs, A by assumption. reflexivity.
  - rewrite !bis_wide_abs, A. reflexivity.
  - rewrite !bis_cont_abs, A. reflexivity.
  - rewrite !battrs_abs, A. reflexivity.
  - intros c a Hs.
    destruct (bset_abs c a b1 W1 Hs) as (x1 & -> & _ & X1). destruct (bset_abs c a b2 W2 Hs) as (x2 & -> & _ & X2).
    cbn [res_abs]. rewrite X1, X2, A. reflexivity.
  - intros c Hs.
    destruct (bappend_abs c b1 W1 Hs) as (x1 & -> & _ & X1). destruct (bappend_abs c b2 W2 Hs) as (x2 & -> & _ & X2).
    cbn [res_abs]. rewrite X1, X2, A. reflexivity.
  - intros a. destruct (bclear_abs a b1 (bw_bytes _ W1)) as (_ & ->). destruct (bclear_abs a b2 (bw_bytes _ W2)) as (_ & ->).
    rewrite A. reflexivity.
  - intros w. destruct (bset_cont_abs w b1 W1) as (_ & ->). destruct (bset_cont_abs w b2 W2) as (_ & ->).
    rewrite A. reflexivity.
Qed.

(* every abstract cell whose text is scalar and fits the buffer has a concrete
   representation (so [abs] is onto the cells the abstract model can build) *)
Definition brepr (c : cell) : bcell :=
  mkB (encode_str (ctext c) ++ repeatN 0 (CONTENT_BYTES - text_len (ctext c)))
      ((if cwide c then 128 else 0) + (if ccont c then 64 else 0) + text_len (ctext c))
      (cattrs c).

Theorem abs_brepr c : scalars (ctext c) -> text_len (ctext c) <= CONTENT_BYTES ->
  bwf (brepr c) /\ abs (brepr c) = c.
Proof.
  unfold CONTENT_BYTES. intros St Hl.
  assert (Hu : lenb (brepr c) < 256) by (cbn [brepr lenb]; destruct (cwide c), (ccont c); lia).
  assert (Hlen : blen (brepr c) = text_len (ctext c)).
  { rewrite blen_eq by exact Hu. cbn [brepr lenb]. destruct (cwide c), (ccont c); lia. }
  assert (Hpre : live_prefix (brepr c) = encode_str (ctext c)).
  { unfold live_prefix. rewrite Hlen. cbn [brepr bytes]. apply firstnN_app_exact, len_encode_str. }
  split.
  - split.
    + cbn [brepr bytes]. rewrite ListN.len_app, len_encode_str, len_repeatN. unfold CONTENT_BYTES. lia.
    + exact Hu.
    + cbn [brepr lenb]. destruct (cwide c), (ccont c); lia.
    + rewrite Hlen. exact Hl.
    + exists (ctext c). split; assumption.
  - unfold abs. rewrite (btext_of_prefix _ _ St Hpre), bis_wide_eq, bis_cont_eq by exact Hu.
    cbn [brepr lenb battrs]. destruct c as [t w k a]. cbn [ctext cwide ccont cattrs] in *. f_equal.
    + destruct w, k; lia.
    + destruct w, k; lia.
Qed.

(* every cell reachable from Cell::new by the operations is well-formed *)
Inductive breach : bcell -> Prop :=
| br_new : breach bnew
| br_set c a b b' : breach b -> is_scalar c = true -> bset c a b = Ok b' -> breach b'
| br_append c b b' : breach b -> is_scalar c = true -> bappend c b = Ok b' -> breach b'
| br_clear a b : breach b -> breach (bclear a b)
| br_set_cont w b : breach b -> breach (bset_cont w b).

Theorem breach_wf b : breach b -> bwf b.
Proof.
  induction 1 as [|c a b b' _ IH Hs E|c b b' _ IH Hs E|a b _ IH|w b _ IH].
  - exact bnew_wf.
  - destruct (bset_abs c a b IH Hs) as (x & E' & W & _). congruence.
  - destruct (bappend_abs c b IH Hs) as (x & E' & W & _). congruence.
  - apply bclear_abs, (bw_bytes _ IH).
  - apply bset_cont_abs, IH.
Qed.

(* and the operations never panic on reachable cells *)
Theorem breach_no_panic b c a : breach b -> is_scalar c = true ->
  (exists b', bset c a b = Ok b') /\ (exists b', bappend c b = Ok b') /\
  (forall b2, breach b2 -> exists r, beq b b2 = Ok r) /\ (exists t, bcontents b = Ok t).
Proof.
  intros R Hs. pose proof (breach_wf b R) as W. repeat split.
  - destruct (bset_abs c a b W Hs) as (x & E & _). eauto.
  - destruct (bappend_abs c b W Hs) as (x & E & _). eauto.
  - intros b2 R2. rewrite (beq_abs b b2 W (breach_wf b2 R2)). eauto.
  - rewrite (bcontents_abs b W). eauto.
Qed.

(* ------------------------------------------------------------------ *)
(* 10. Examples: same abstraction, different stale bytes                *)
(* ------------------------------------------------------------------ *)

(* (a) a cleared cell that once held the wide character U+4E2D keeps its three
       bytes E4 B8 AD; it equals a fresh cell *)
Definition ex_cleared : bcell :=
  mkB [228; 184; 173; 0; 0; 0; 0; 0; 0; 0; 0; 0; 0; 0; 0; 0; 0; 0; 0; 0; 0; 0] 0 dflt.

Example ex_cleared_origin :
  (do b <- bset 20013 dflt bnew; Ok (bclear dflt b)) = Ok ex_cleared.
Proof. vm_compute. reflexivity. Qed.

Example ex_cleared_stale :
  bytes ex_cleared <> bytes bnew /\ abs ex_cleared = abs bnew /\ beq ex_cleared bnew = Ok true /\
  bcontents ex_cleared = bcontents bnew /\ bhas_contents ex_cleared = false.
Proof. repeat split; try (vm_compute; reflexivity). vm_compute. discriminate. Qed.

(* (b) 'a' written over U+4E2D leaves B8 AD behind; it equals 'a' written into
       a fresh cell *)
Definition ex_over : bcell :=
  mkB [97; 184; 173; 0; 0; 0; 0; 0; 0; 0; 0; 0; 0; 0; 0; 0; 0; 0; 0; 0; 0; 0] 1 dflt.
Definition ex_fresh : bcell :=
  mkB [97; 0; 0; 0; 0; 0; 0; 0; 0; 0; 0; 0; 0; 0; 0; 0; 0; 0; 0; 0; 0; 0] 1 dflt.

Example ex_over_origin : (do b <- bset 20013 dflt bnew; bset 97 dflt b) = Ok ex_over.
Proof. vm_compute. reflexivity. Qed.
Example ex_fresh_origin : bset 97 dflt bnew = Ok ex_fresh.
Proof. vm_compute. reflexivity. Qed.

Example ex_over_stale :
  bytes ex_over <> bytes ex_fresh /\ abs ex_over = abs ex_fresh /\ beq ex_over ex_fresh = Ok true /\
  bcontents ex_over = Ok [97] /\ bcontents ex_fresh = Ok [97].
Proof. repeat split; try (vm_compute; reflexivity). vm_compute. discriminate. Qed.

(* the wide flag of the overwritten cell was cleared by set (len := 0) *)
Example ex_wide_bit :
  (do b <- bset 20013 dflt bnew; Ok (lenb b, bis_wide b, blen b)) = Ok (131, true, 3).
Proof. vm_compute. reflexivity. Qed.
