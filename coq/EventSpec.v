(* EventSpec.v — C18: the callback events.

   5. [events_of]: a declarative table, written from the property text, of the
      events every vte action reports;  [C18_exact], [C18_exact_all], [C18_process]
   6. inertness of the reported actions ([reported], [C18_inert]), of SI/SO and of
      DCS strings ([ignored], [C18_ignored])
   7. the implemented actions are silent ([silent], [C18_silent_iff])            *)
Require Import Tac ListN Utf8 Attrs Cell Row Grid Screen Vte Perform Parser.
Require Import Chunking.
Open Scope N_scope.

(* ------------------------------------------------------------------ *)
(* 5. The table                                                        *)
(* ------------------------------------------------------------------ *)

Definition mem (x : N) (l : list N) : bool := existsb (N.eqb x) l.

(* --- control characters (C0 executed bytes, and C1 0x80..0x9F) --- *)
(* implemented: BS HT LF VT FF CR (8..13); SO SI (14, 15) are silently ignored *)
Definition c0_handled (b : N) : bool := (8 <=? b) && (b <=? 15).

Definition exec_events (b : N) : list event :=
  if b =? 7 then [EBell]
  else if c0_handled b then []
  else [EUnhControl b].

(* --- printed characters --- *)
Definition is_c1 (c : N) : bool := (128 <=? c) && (c <? 160).

Definition print_events (c : N) : list event :=
  if is_c1 c then exec_events c          (* a C1 character is treated as a control *)
  else if c =? 65533 then [EUnhChar c]   (* U+FFFD: the replacement character *)
  else [].

(* --- ESC sequences --- *)
(* ESC 7, ESC 8, ESC =, ESC >, ESC M, ESC c, and ESC \ (the string terminator ST) *)
Definition esc_silent : list N := [55; 56; 61; 62; 77; 99; 92].

Definition esc_events (inter : list N) (b : N) : list event :=
  match inter with
  | [] =>
    if mem b esc_silent then []
    else if b =? 103 then [EVisualBell]                 (* ESC g *)
    else [EUnhEscape None None b]
  | i :: _ => [EUnhEscape (Some i) (nth_error inter 1) b]
  end.

(* --- CSI sequences --- *)
(* finals implemented (no intermediate) that never report anything:
   @ A B C D E F G H  L M  P  S T  X  d  r *)
Definition csi_plain : list N :=
  [64; 65; 66; 67; 68; 69; 70; 71; 72; 76; 77; 80; 83; 84; 88; 100; 114].

(* first number of the first parameter, 0 if absent *)
Definition first_num (ps : list (list N)) : N :=
  match ps with (x :: _) :: _ => x | _ => 0 end.

(* ED / EL: modes 0, 1, 2 *)
Definition erase_mode_known (ps : list (list N)) : bool := mem (first_num ps) [0; 1; 2].

(* DECSET / DECRST: the recognised private modes; a parameter with subparameters
   is never recognised *)
Definition dec_known : list N := [1; 6; 9; 25; 47; 1000; 1002; 1003; 1005; 1006; 1049; 2004].
Definition dec_param_known (p : list N) : bool :=
  match p with [n] => mem n dec_known | _ => false end.
Definition dec_unknown_count (ps : list (list N)) : N :=
  len (filter (fun p => negb (dec_param_known p)) ps).

(* first number of an optional parameter, with default *)
Definition first_or (d : N) (o : option (list N)) : N :=
  match o with Some (x :: _) => x | _ => d end.

(* CSI 8 ; r ; c t : absent trailing values default to the current size *)
Definition resize_events (s : screen) (ps : list (list N)) : list event :=
  match ps with
  | (op :: _) :: rest =>
    if op =? 8 then
      [EResize (first_or (grows (cur s)) (nth_error rest 0))
               (first_or (gcols (cur s)) (nth_error rest 1))]
    else [EUnhCsi None None ps 116]
  | _ => [EUnhCsi None None ps 116]
  end.

Definition csi_events (s : screen) (ps : list (list N)) (inter : list N) (c : N) : list event :=
  let unh := EUnhCsi (nth_error inter 0) (nth_error inter 1) ps c in
  match inter with
  | [] =>
    if mem c csi_plain then []
    else if (c =? 74) || (c =? 75) then (if erase_mode_known ps then [] else [unh])   (* ED, EL *)
    else if c =? 109 then repeatN unh (snd (sgr ps (pen s)))     (* SGR: one per unknown parameter *)
    else if c =? 116 then resize_events s ps                     (* CSI t *)
    else [unh]
  | i :: _ =>
    if i =? 63 then                                              (* '?' *)
      if (c =? 74) || (c =? 75) then (if erase_mode_known ps then [] else [unh])   (* DECSED, DECSEL *)
      else if (c =? 104) || (c =? 108) then repeatN unh (dec_unknown_count ps)     (* DECSET, DECRST *)
      else [unh]
    else [unh]
  end.

(* --- OSC strings --- *)
Definition osc_events (ps : list (list N)) : list event :=
  match ps with
  | [k; t] =>
    if list_eqb N.eqb k [48] then [EIconName t; ETitle t]      (* OSC 0 *)
    else if list_eqb N.eqb k [49] then [EIconName t]           (* OSC 1 *)
    else if list_eqb N.eqb k [50] then [ETitle t]              (* OSC 2 *)
    else [EUnhOsc ps]
  | _ => [EUnhOsc ps]
  end.

(* the table.  [rz] (the policy of the Callbacks object for resize requests) is an
   argument only for uniformity: the reported events never depend on it
   ([events_of_rz]) *)
Definition events_of (rz : bool) (s : screen) (a : action) : list event :=
  match a with
  | APrint c => print_events c
  | AExecute b => exec_events b
  | AHook _ _ _ _ | APut _ | AUnhook => []       (* DCS strings *)
  | AOsc ps _ => osc_events ps
  | ACsi ps inter _ c => csi_events s ps inter c
  | AEsc inter _ b => esc_events inter b
  end.

Lemma events_of_rz : forall rz rz' s a, events_of rz s a = events_of rz' s a.
Proof. reflexivity. Qed.

(* the table only looks at the size of the current grid and at the pen *)
Lemma events_of_screen : forall rz s t a,
  grows (cur s) = grows (cur t) -> gcols (cur s) = gcols (cur t) -> pen s = pen t ->
  events_of rz s a = events_of rz t a.
Proof.
  intros rz s t a H1 H2 H3. destruct a; cbn [events_of]; try reflexivity.
  unfold csi_events, resize_events. rewrite H1, H2, H3. reflexivity.
Qed.

(* ---- readable instances of the table ---- *)
Lemma list_eqb_N_spec : forall a b : list N, list_eqb N.eqb a b = true <-> a = b.
Proof.
  induction a as [|x a IH]; intros [|y b]; cbn [list_eqb]; split; intros H; try discriminate; auto.
  - apply andb_prop in H. destruct H as [H1 H2]. apply N.eqb_eq in H1. apply IH in H2. congruence.
  - inv H. rewrite N.eqb_refl. cbn [andb]. apply IH. reflexivity.
Qed.

Lemma ev_bel rz s : events_of rz s (AExecute 7) = [EBell].
Proof. reflexivity. Qed.
Lemma ev_esc_g rz s ig : events_of rz s (AEsc [] ig 103) = [EVisualBell].
Proof. reflexivity. Qed.
Lemma ev_osc0 rz s t bell : events_of rz s (AOsc [[48]; t] bell) = [EIconName t; ETitle t].
Proof. reflexivity. Qed.
Lemma ev_osc1 rz s t bell : events_of rz s (AOsc [[49]; t] bell) = [EIconName t].
Proof. reflexivity. Qed.
Lemma ev_osc2 rz s t bell : events_of rz s (AOsc [[50]; t] bell) = [ETitle t].
Proof. reflexivity. Qed.
Lemma ev_osc_other rz s ps bell :
  (forall t, ps <> [[48]; t] /\ ps <> [[49]; t] /\ ps <> [[50]; t]) ->
  events_of rz s (AOsc ps bell) = [EUnhOsc ps].
Proof.
  intros H. cbn [events_of]. unfold osc_events.
  destruct ps as [|k [|t [|x r]]]; try reflexivity.
  destruct (H t) as (H0 & H1 & H2).
  destruct (list_eqb N.eqb k [48]) eqn:E0; [apply list_eqb_N_spec in E0; congruence|].
  destruct (list_eqb N.eqb k [49]) eqn:E1; [apply list_eqb_N_spec in E1; congruence|].
  destruct (list_eqb N.eqb k [50]) eqn:E2; [apply list_eqb_N_spec in E2; congruence|].
  reflexivity.
Qed.
Lemma ev_resize_full rz s r c x y ig :
  events_of rz s (ACsi ([8] :: (r :: x) :: (c :: y) :: nil) [] ig 116) = [EResize r c].
Proof. reflexivity. Qed.
Lemma ev_resize_rows_only rz s r x ig :
  events_of rz s (ACsi ([8] :: (r :: x) :: nil) [] ig 116) = [EResize r (gcols (cur s))].
Proof. reflexivity. Qed.
Lemma ev_resize_bare rz s ig :
  events_of rz s (ACsi [[8]] [] ig 116) = [EResize (grows (cur s)) (gcols (cur s))].
Proof. reflexivity. Qed.
Lemma ev_unh_control rz s b : b <> 7 -> ~ (8 <= b <= 15) -> events_of rz s (AExecute b) = [EUnhControl b].
Proof.
  intros H1 H2. cbn [events_of]. unfold exec_events, c0_handled.
  destruct (N.eqb_spec b 7); [congruence|].
  replace ((8 <=? b) && (b <=? 15)) with false by lia. reflexivity.
Qed.
Lemma ev_c1_char rz s c : 128 <= c < 160 -> events_of rz s (APrint c) = [EUnhControl c].
Proof.
  intros H. cbn [events_of]. unfold print_events, is_c1, exec_events, c0_handled.
  replace ((128 <=? c) && (c <? 160)) with true by lia.
  replace (c =? 7) with false by lia.
  replace ((8 <=? c) && (c <=? 15)) with false by lia. reflexivity.
Qed.
Lemma ev_replacement rz s : events_of rz s (APrint 65533) = [EUnhChar 65533].
Proof. reflexivity. Qed.
Lemma ev_unh_esc_inter rz s i r ig b :
  events_of rz s (AEsc (i :: r) ig b) = [EUnhEscape (Some i) (hd_error r) b].
Proof. destruct r; reflexivity. Qed.
Lemma ev_unh_csi_final rz s ps ig c :
  mem c csi_plain = false -> c <> 74 -> c <> 75 -> c <> 109 -> c <> 116 ->
  events_of rz s (ACsi ps [] ig c) = [EUnhCsi None None ps c].
Proof.
  intros H H1 H2 H3 H4. cbn [events_of]. unfold csi_events. rewrite H.
  replace ((c =? 74) || (c =? 75)) with false by lia.
  replace (c =? 109) with false by lia. replace (c =? 116) with false by lia. reflexivity.
Qed.
Lemma ev_unh_csi_inter rz s ps i r ig c :
  i <> 63 -> events_of rz s (ACsi ps (i :: r) ig c) = [EUnhCsi (Some i) (hd_error r) ps c].
Proof.
  intros H. cbn [events_of]. unfold csi_events. replace (i =? 63) with false by lia.
  destruct r; reflexivity.
Qed.

(* ------------------------------------------------------------------ *)
(* Exactness                                                           *)
(* ------------------------------------------------------------------ *)

Ltac decide_ifs :=
  repeat match goal with
  | |- context[if ?c then _ else _] =>
    first [ replace c with true by lia | replace c with false by lia ]; cbv iota
  end.

Lemma noev_ev {s1 evs} r : noev r = Ok (s1, evs) -> evs = [] /\ r = Ok s1.
Proof. unfold noev. destruct r; cbn [bind]; intros H; inv H. auto. Qed.

Lemma do_execute_events s b s' evs : do_execute s b = Ok (s', evs) -> evs = exec_events b.
Proof.
  unfold do_execute, exec_events, c0_handled. intros H.
  repeat match type of H with
  | (if ?c then _ else _) = _ => destruct c eqn:?
  end; try bind_inv H; inv H; decide_ifs; reflexivity.
Qed.

Lemma do_print_events s c s' evs : do_print s c = Ok (s', evs) -> evs = print_events c.
Proof.
  unfold do_print, print_events, is_c1. intros H.
  destruct ((128 <=? c) && (c <? 160)); [eapply do_execute_events; exact H|].
  change REPL with 65533 in H.
  destruct (c =? 65533); [inv H; reflexivity|].
  bind_inv H. inv H. reflexivity.
Qed.

Lemma do_esc_events s inter b s' evs : do_esc s inter b = Ok (s', evs) -> evs = esc_events inter b.
Proof.
  unfold do_esc, esc_events, nth_inter. intros H.
  destruct inter as [|i r]; [|inv H; reflexivity].
  unfold mem, esc_silent. cbn [existsb].
  repeat match type of H with
  | (if ?c then _ else _) = _ => destruct c eqn:?
  end; try bind_inv H; inv H; decide_ifs; reflexivity.
Qed.

Lemma canon1_0 ps : canon1 ps 0 = first_num ps.
Proof.
  unfold canon1, first_num, first_sub. destruct ps as [|[|x r] q]; cbn [hd_error]; try reflexivity.
  destruct (N.eqb_spec x 0); congruence.
Qed.

Lemma scr_ed_count s m s1 k : scr_ed s m = Ok (s1, k) ->
  (mem m [0; 1; 2] = true /\ k = 0) \/ (mem m [0; 1; 2] = false /\ k = 1 /\ s1 = s).
Proof.
  unfold scr_ed, mem. cbn [existsb]. intros H.
  repeat match type of H with
  | (if ?c then _ else _) = _ => destruct c eqn:?
  end; try bind_inv H; inv H; [left|left|left|right]; repeat split; lia.
Qed.

Lemma scr_el_count s m s1 k : scr_el s m = Ok (s1, k) ->
  (mem m [0; 1; 2] = true /\ k = 0) \/ (mem m [0; 1; 2] = false /\ k = 1 /\ s1 = s).
Proof.
  unfold scr_el, mem. cbn [existsb]. intros H.
  repeat match type of H with
  | (if ?c then _ else _) = _ => destruct c eqn:?
  end; try bind_inv H; inv H; [left|left|left|right]; repeat split; lia.
Qed.

Lemma erase_events (r : res (screen * N)) ps unh s s' evs :
  (forall s1 k, r = Ok (s1, k) ->
     (erase_mode_known ps = true /\ k = 0) \/ (erase_mode_known ps = false /\ k = 1 /\ s1 = s)) ->
  (do '(s1, k) <- r; Ok (s1, repeat_ev k unh)) = Ok (s', evs) ->
  evs = (if erase_mode_known ps then [] else [unh]) /\ (erase_mode_known ps = false -> s' = s).
Proof.
  intros Hr H. bind_inv H. destruct v as [s1 k]. inv H.
  destruct (Hr s' k eq_refl) as [[-> ->]|(-> & -> & ->)]; split; try reflexivity; try discriminate; auto.
Qed.

Lemma decset1_count s p s1 k : decset1 s p = Ok (s1, k) ->
  k = if dec_param_known p then 0 else 1.
Proof.
  unfold decset1, dec_param_known, single. intros H.
  destruct p as [|n [|y r]]; try (inv H; reflexivity).
  unfold mem, dec_known. cbn [existsb].
  repeat match type of H with
  | (if ?c then _ else _) = _ => destruct c eqn:?
  end; try bind_inv H; inv H; decide_ifs; reflexivity.
Qed.

Lemma decrst1_count s p s1 k : decrst1 s p = Ok (s1, k) ->
  k = if dec_param_known p then 0 else 1.
Proof.
  unfold decrst1, dec_param_known, single. intros H.
  destruct p as [|n [|y r]]; try (inv H; reflexivity).
  unfold mem, dec_known. cbn [existsb].
  repeat match type of H with
  | (if ?c then _ else _) = _ => destruct c eqn:?
  end; try bind_inv H; inv H; decide_ifs; reflexivity.
Qed.

Lemma fold_params_count f :
  (forall s p s1 k, f s p = Ok (s1, k) -> k = if dec_param_known p then 0 else 1) ->
  forall ps s n s' k, fold_params f ps s n = Ok (s', k) -> k = n + dec_unknown_count ps.
Proof.
  intros Hf. induction ps as [|p ps IH]; intros s n s' k H; cbn [fold_params] in H.
  - inv H. unfold dec_unknown_count. cbn [filter]. rewrite len_nil. lia.
  - bind_inv H. destruct v as [s1 k1]. apply Hf in E. apply IH in H. subst.
    unfold dec_unknown_count. cbn [filter].
    destruct (dec_param_known p); cbn [negb]; rewrite ?len_cons; lia.
Qed.

Lemma dec_events (r : res (screen * N)) ps unh s' evs :
  (forall s1 k, r = Ok (s1, k) -> k = 0 + dec_unknown_count ps) ->
  (do '(s1, k) <- r; Ok (s1, repeat_ev k unh)) = Ok (s', evs) ->
  evs = repeatN unh (dec_unknown_count ps).
Proof.
  intros Hr H. bind_inv H. destruct v as [s1 k]. inv H.
  rewrite (Hr s' k eq_refl). reflexivity.
Qed.

Lemma resize_events_exact rz s ps s' evs :
  match ps with
  | (op :: _) :: rest =>
    if op =? 8 then
      let sr := grows (cur s) in
      let sc := gcols (cur s) in
      let r := match rest with (x :: _) :: _ => x | _ => sr end in
      let cc := match rest with _ :: (x :: _) :: _ => x | _ => sc end in
      if rz && (1 <=? r) && (r <=? 512) && (1 <=? cc) && (cc <=? 512)
      then do s1 <- screen_set_size s r cc; Ok (s1, [EResize r cc])
      else Ok (s, [EResize r cc])
    else Ok (s, [EUnhCsi None None ps 116])
  | _ => Ok (s, [EUnhCsi None None ps 116])
  end = Ok (s', evs) -> evs = resize_events s ps.
Proof.
  unfold resize_events. intros H.
  destruct ps as [|[|op sub] rest]; try (inv H; reflexivity).
  destruct (op =? 8); [|inv H; reflexivity].
  cbv zeta in H.
  assert (E1 : match rest with (x :: _) :: _ => x | _ => grows (cur s) end
               = first_or (grows (cur s)) (nth_error rest 0)).
  { destruct rest as [|[|x y] q]; reflexivity. }
  assert (E2 : match rest with _ :: (x :: _) :: _ => x | _ => gcols (cur s) end
               = first_or (gcols (cur s)) (nth_error rest 1)).
  { destruct rest as [|a [|[|x y] q]]; reflexivity. }
  rewrite E1, E2 in H.
  match type of H with (if ?c then _ else _) = _ => destruct c end;
    [bind_inv H|]; inv H; reflexivity.
Qed.

Lemma do_csi_events rz s ps inter c s' evs :
  do_csi rz s ps inter c = Ok (s', evs) -> evs = csi_events s ps inter c.
Proof.
  unfold do_csi, csi_events, nth_inter. intros H.
  destruct inter as [|i r].
  - cbn [nth_error] in *.
    Ltac fin H c n :=
      destruct (N.eqb_spec c n) as [->|?];
      [ first [ apply noev_ev in H; destruct H as [-> _]; reflexivity
              | destruct (canon2 _ _ _) as [? ?]; apply noev_ev in H; destruct H as [-> _]; reflexivity ] | ].
    fin H c 64. fin H c 65. fin H c 66. fin H c 67. fin H c 68. fin H c 69. fin H c 70. fin H c 71.
    fin H c 72.
    destruct (N.eqb_spec c 74) as [->|?].
    { change (mem 74 csi_plain) with false. change ((74 =? 74) || (74 =? 75)) with true. cbv iota.
      eapply erase_events; [|exact H]. intros s1 k Hk. rewrite canon1_0 in Hk.
      apply scr_ed_count in Hk. exact Hk. }
    destruct (N.eqb_spec c 75) as [->|?].
    { change (mem 75 csi_plain) with false. change ((75 =? 74) || (75 =? 75)) with true. cbv iota.
      eapply erase_events; [|exact H]. intros s1 k Hk. rewrite canon1_0 in Hk.
      apply scr_el_count in Hk. exact Hk. }
    fin H c 76. fin H c 77. fin H c 80. fin H c 83. fin H c 84. fin H c 88. fin H c 100.
    destruct (N.eqb_spec c 109) as [->|?].
    { change (mem 109 csi_plain) with false. change ((109 =? 74) || (109 =? 75)) with false.
      change (109 =? 109) with true. cbv iota.
      unfold scr_sgr in H. destruct (sgr ps (pen s)) as [a k]. inv H. reflexivity. }
    fin H c 114.
    destruct (N.eqb_spec c 116) as [->|?].
    { change (mem 116 csi_plain) with false. change ((116 =? 74) || (116 =? 75)) with false.
      change (116 =? 109) with false. change (116 =? 116) with true. cbv iota.
      eapply resize_events_exact. exact H. }
    inv H. unfold mem, csi_plain. cbn [existsb]. decide_ifs. reflexivity.
  - destruct (i =? 63); [|inv H; reflexivity].
    destruct (N.eqb_spec c 74) as [->|?].
    { change ((74 =? 74) || (74 =? 75)) with true. cbv iota.
      eapply erase_events; [|exact H]. intros s1 k Hk. rewrite canon1_0 in Hk.
      apply scr_ed_count in Hk. exact Hk. }
    destruct (N.eqb_spec c 75) as [->|?].
    { change ((75 =? 74) || (75 =? 75)) with true. cbv iota.
      eapply erase_events; [|exact H]. intros s1 k Hk. rewrite canon1_0 in Hk.
      apply scr_el_count in Hk. exact Hk. }
    replace ((c =? 74) || (c =? 75)) with false by lia.
    destruct (N.eqb_spec c 104) as [->|?].
    { change ((104 =? 104) || (104 =? 108)) with true. cbv iota.
      eapply dec_events; [|exact H]. intros s1 k Hk.
      eapply (fold_params_count decset1 decset1_count). exact Hk. }
    destruct (N.eqb_spec c 108) as [->|?].
    { change ((108 =? 104) || (108 =? 108)) with true. cbv iota.
      eapply dec_events; [|exact H]. intros s1 k Hk.
      eapply (fold_params_count decrst1 decrst1_count). exact Hk. }
    replace ((c =? 104) || (c =? 108)) with false by lia.
    inv H. reflexivity.
Qed.

Lemma do_osc_events s ps : do_osc s ps = (s, osc_events ps).
Proof.
  unfold do_osc, osc_events. destruct ps as [|k [|t [|x r]]]; try reflexivity.
  destruct (list_eqb N.eqb k [48]); [reflexivity|].
  destruct (list_eqb N.eqb k [49]); [reflexivity|].
  destruct (list_eqb N.eqb k [50]); reflexivity.
Qed.

(* every action reports exactly the events of the table *)
Theorem C18_exact : forall rz s a s' evs,
  perform rz s a = Ok (s', evs) -> evs = events_of rz s a.
Proof.
  intros rz s a s' evs H. destruct a; cbn [perform events_of] in *.
  - eapply do_print_events; exact H.
  - eapply do_execute_events; exact H.
  - inv H. reflexivity.
  - inv H. reflexivity.
  - inv H. reflexivity.
  - rewrite do_osc_events in H. inv H. reflexivity.
  - eapply do_csi_events; exact H.
  - eapply do_esc_events; exact H.
Qed.

(* ------------------------------------------------------------------ *)
(* Lifting to action lists and to [process]                            *)
(* ------------------------------------------------------------------ *)

(* the events of a list of actions, in order; the screen is threaded through
   (the table looks at the current size and pen) *)
Fixpoint events_all (rz : bool) (s : screen) (acts : list action) : list event :=
  match acts with
  | [] => []
  | a :: rest =>
    events_of rz s a ++
    match perform rz s a with
    | Ok (s1, _) => events_all rz s1 rest
    | Panic _ => []
    end
  end.

Theorem C18_exact_all : forall rz acts s evs0 s' evs,
  perform_all rz s acts evs0 = Ok (s', evs) -> evs = evs0 ++ events_all rz s acts.
Proof.
  intros rz. induction acts as [|a rest IH]; intros s evs0 s' evs H; cbn [perform_all events_all] in *.
  - inv H. rewrite app_nil_r. reflexivity.
  - bind_inv H. destruct v as [s1 e]. rewrite E.
    apply C18_exact in E. subst e. apply IH in H. rewrite H, app_assoc. reflexivity.
Qed.

(* the callback log after [process]: the old log followed by the events of the
   parsed actions, in stream order *)
Theorem C18_process : forall p bs q,
  process p bs = Ok q ->
  log q = log p ++ events_all (resizing p) (scr p) (snd (advance (vt p) (delivered p bs))).
Proof.
  intros p bs q H. rewrite process_unfold in H. destruct (advance (vt p) _) as [v acts]. cbn [snd].
  bind_inv H. destruct v0 as [s evs]. inv H. cbn [log].
  apply C18_exact_all in E. rewrite E. reflexivity.
Qed.

(* [events_all] distributes over concatenation of action lists (stream order) *)
Lemma perform_all_app rz a1 : forall a2 s evs0,
  perform_all rz s (a1 ++ a2) evs0 =
  (do '(s1, e1) <- perform_all rz s a1 evs0; perform_all rz s1 a2 e1).
Proof.
  induction a1 as [|a r IH]; intros a2 s evs0; cbn [app perform_all bind]; [reflexivity|].
  destruct (perform rz s a) as [[s1 e]|k]; cbn [bind]; [apply IH|reflexivity].
Qed.

Lemma perform_all_acc_irrel rz acts : forall s e e' s1 e1,
  perform_all rz s acts e = Ok (s1, e1) -> exists e1', perform_all rz s acts e' = Ok (s1, e1').
Proof.
  induction acts as [|b r IHr]; intros s e e' s1 e1 H; cbn [perform_all] in *.
  - inv H. eauto.
  - bind_inv H. destruct v as [s3 e3]. rewrite E. cbn [bind]. eapply IHr. exact H.
Qed.

Theorem events_all_app : forall rz a1 a2 s s1 e1,
  perform_all rz s a1 [] = Ok (s1, e1) ->
  events_all rz s (a1 ++ a2) = events_all rz s a1 ++ events_all rz s1 a2.
Proof.
  intros rz. induction a1 as [|a r IH]; intros a2 s s1 e1 H; cbn [app events_all perform_all] in *.
  - inv H. reflexivity.
  - bind_inv H. destruct v as [s2 e2]. rewrite E. rewrite <- app_assoc. f_equal.
    destruct (perform_all_acc_irrel rz r s2 ([] ++ e2) [] s1 e1 H) as [e3 H3].
    eapply IH. exact H3.
Qed.

(* ------------------------------------------------------------------ *)
(* 6. Inertness                                                        *)
(* ------------------------------------------------------------------ *)

(* the actions that are reported to the Callbacks object and are wholly
   unimplemented by the screen:
   BEL; unknown C0 / C1 controls; U+FFFD; ESC g and every unknown ESC; every OSC;
   ED / EL / DECSED / DECSEL with a mode other than 0, 1, 2; CSI ... t; every
   CSI with an unknown final or intermediate.
   NOT in this class: SGR, DECSET, DECRST — these report one event per unknown
   parameter but still apply their known parameters. *)
Definition reported (a : action) : bool :=
  match a with
  | APrint c => is_c1 c || (c =? 65533)
  | AExecute b => negb (c0_handled b)
  | AHook _ _ _ _ | APut _ | AUnhook => false
  | AOsc _ _ => true
  | AEsc inter _ b => match inter with [] => negb (mem b esc_silent) | _ => true end
  | ACsi ps inter _ c =>
    match inter with
    | [] =>
      if mem c csi_plain then false
      else if (c =? 74) || (c =? 75) then negb (erase_mode_known ps)
      else negb (c =? 109)
    | i :: _ =>
      if i =? 63 then
        if (c =? 74) || (c =? 75) then negb (erase_mode_known ps)
        else negb ((c =? 104) || (c =? 108))
      else true
    end
  end.

(* the one reported action that the harness's Resizing callbacks turn into a state
   change: CSI 8 ; r ; c t with 1 <= r, c <= 512 when rz = true *)
Definition resize_applies (rz : bool) (s : screen) (a : action) : bool :=
  match a with
  | ACsi ((op :: _) :: rest) [] _ 116 =>
    let r := first_or (grows (cur s)) (nth_error rest 0) in
    let cc := first_or (gcols (cur s)) (nth_error rest 1) in
    (op =? 8) && rz && (1 <=? r) && (r <=? 512) && (1 <=? cc) && (cc <=? 512)
  | _ => false
  end.

Lemma resize_applies_false s a : resize_applies false s a = false.
Proof.
  destruct a as [| | | | | |ps inter ig c|]; try reflexivity.
  cbn [resize_applies]. destruct ps as [|[|op sub] rest]; try reflexivity.
  destruct inter; try reflexivity.
  destruct c as [|c]; try reflexivity.
  do 7 (destruct c as [c|c|]; try reflexivity).
  rewrite andb_false_r. reflexivity.
Qed.

Lemma erase_inert (r : res (screen * N)) ps unh s :
  erase_mode_known ps = false ->
  (forall s1 k, r = Ok (s1, k) ->
     (erase_mode_known ps = true /\ k = 0) \/ (erase_mode_known ps = false /\ k = 1 /\ s1 = s)) ->
  (exists s1 k, r = Ok (s1, k)) ->
  (do '(s1, k) <- r; Ok (s1, repeat_ev k unh)) = Ok (s, [unh]).
Proof.
  intros Hk Hr (s1 & k & E). destruct (Hr s1 k E) as [[C _]|(_ & -> & ->)]; [congruence|].
  rewrite E. reflexivity.
Qed.

Lemma scr_ed_unknown s m : mem m [0; 1; 2] = false -> scr_ed s m = Ok (s, 1).
Proof.
  unfold mem, scr_ed. cbn [existsb]. intros H.
  replace (m =? 0) with false by lia. replace (m =? 1) with false by lia.
  replace (m =? 2) with false by lia. reflexivity.
Qed.
Lemma scr_el_unknown s m : mem m [0; 1; 2] = false -> scr_el s m = Ok (s, 1).
Proof.
  unfold mem, scr_el. cbn [existsb]. intros H.
  replace (m =? 0) with false by lia. replace (m =? 1) with false by lia.
  replace (m =? 2) with false by lia. reflexivity.
Qed.

Lemma do_csi_inert rz s ps inter ig c :
  reported (ACsi ps inter ig c) = true -> resize_applies rz s (ACsi ps inter ig c) = false ->
  do_csi rz s ps inter c = Ok (s, csi_events s ps inter c).
Proof.
  cbn [reported]. unfold do_csi, csi_events, nth_inter. intros H Hz.
  destruct inter as [|i r].
  - destruct (mem c csi_plain) eqn:Em; [discriminate|].
    unfold mem, csi_plain in Em. cbn [existsb] in Em.
    replace (c =? 64) with false by lia. replace (c =? 65) with false by lia.
    replace (c =? 66) with false by lia. replace (c =? 67) with false by lia.
    replace (c =? 68) with false by lia. replace (c =? 69) with false by lia.
    replace (c =? 70) with false by lia. replace (c =? 71) with false by lia.
    replace (c =? 72) with false by lia. cbv iota.
    destruct (N.eqb_spec c 74) as [->|?].
    { change ((74 =? 74) || (74 =? 75)) with true in *. cbv iota in *.
      apply negb_true_iff in H. rewrite H. unfold erase_mode_known in H.
      rewrite canon1_0, scr_ed_unknown by exact H. reflexivity. }
    destruct (N.eqb_spec c 75) as [->|?].
    { change ((75 =? 74) || (75 =? 75)) with true in *. cbv iota in *.
      apply negb_true_iff in H. rewrite H. unfold erase_mode_known in H.
      rewrite canon1_0, scr_el_unknown by exact H. reflexivity. }
    replace ((c =? 74) || (c =? 75)) with false in * by lia. cbv iota in *.
    apply negb_true_iff in H. rewrite H.
    replace (c =? 76) with false by lia. replace (c =? 77) with false by lia.
    replace (c =? 80) with false by lia. replace (c =? 83) with false by lia.
    replace (c =? 84) with false by lia. replace (c =? 88) with false by lia.
    replace (c =? 100) with false by lia. replace (c =? 114) with false by lia. cbv iota.
    destruct (N.eqb_spec c 116) as [->|?]; [|reflexivity].
    unfold resize_events. cbn [resize_applies] in Hz.
    destruct ps as [|[|op sub] rest]; try reflexivity.
    destruct (op =? 8); [|reflexivity]. cbv zeta.
    assert (E1 : match rest with (x :: _) :: _ => x | _ => grows (cur s) end
                 = first_or (grows (cur s)) (nth_error rest 0)).
    { destruct rest as [|[|x y] q]; reflexivity. }
    assert (E2 : match rest with _ :: (x :: _) :: _ => x | _ => gcols (cur s) end
                 = first_or (gcols (cur s)) (nth_error rest 1)).
    { destruct rest as [|a [|[|x y] q]]; reflexivity. }
    rewrite E1, E2. cbv zeta in Hz. cbn [andb] in Hz. rewrite Hz. reflexivity.
  - destruct (i =? 63); [|reflexivity].
    destruct (N.eqb_spec c 74) as [E74|?]; [subst c|].
    { change ((74 =? 74) || (74 =? 75)) with true in *. cbv iota in *.
      apply negb_true_iff in H. rewrite H. unfold erase_mode_known in H.
      rewrite canon1_0, scr_ed_unknown by exact H. reflexivity. }
    destruct (N.eqb_spec c 75) as [E75|?]; [subst c|].
    { change ((75 =? 74) || (75 =? 75)) with true in *. cbv iota in *.
      apply negb_true_iff in H. rewrite H. unfold erase_mode_known in H.
      rewrite canon1_0, scr_el_unknown by exact H. reflexivity. }
    replace ((c =? 74) || (c =? 75)) with false in * by lia. cbv iota in *.
    apply negb_true_iff in H. rewrite H.
    replace (c =? 104) with false by lia. replace (c =? 108) with false by lia. reflexivity.
Qed.

(* a reported action leaves the screen LITERALLY unchanged (every field, including
   the cursor, the pen, the modes, both grids and the scrollback) *)
Theorem C18_inert_gen : forall rz s a,
  reported a = true -> resize_applies rz s a = false ->
  perform rz s a = Ok (s, events_of rz s a) /\ events_of rz s a <> [].
Proof.
  intros rz s a H Hz.
  assert (P : perform rz s a = Ok (s, events_of rz s a)).
  { destruct a as [c|b| | | |ps bell|ps inter ig c|inter ig b]; cbn [reported] in H; try discriminate;
      cbn [perform events_of].
    - (* print *)
      unfold do_print, print_events. fold (is_c1 c).
      destruct (is_c1 c) eqn:E1.
      + unfold do_execute, exec_events, c0_handled. unfold is_c1 in E1.
        replace (c =? 7) with false by lia. replace (c =? 8) with false by lia.
        replace (c =? 9) with false by lia.
        replace ((c =? 10) || (c =? 11) || (c =? 12)) with false by lia.
        replace (c =? 13) with false by lia. replace ((c =? 14) || (c =? 15)) with false by lia.
        replace ((8 <=? c) && (c <=? 15)) with false by lia. reflexivity.
      + cbn [orb] in H. change REPL with 65533. rewrite H. reflexivity.
    - (* execute *)
      unfold do_execute, exec_events. apply negb_true_iff in H. rewrite H. unfold c0_handled in H.
      destruct (N.eqb_spec b 7); [reflexivity|].
      replace (b =? 8) with false by lia. replace (b =? 9) with false by lia.
      replace ((b =? 10) || (b =? 11) || (b =? 12)) with false by lia.
      replace (b =? 13) with false by lia. replace ((b =? 14) || (b =? 15)) with false by lia.
      reflexivity.
    - rewrite do_osc_events. reflexivity.
    - apply (do_csi_inert rz s ps inter ig c); assumption.
    - unfold do_esc, esc_events, nth_inter. destruct inter as [|i r]; [|reflexivity].
      apply negb_true_iff in H. rewrite H. unfold mem, esc_silent in H. cbn [existsb] in H.
      replace (b =? 55) with false by lia. replace (b =? 56) with false by lia.
      replace (b =? 61) with false by lia. replace (b =? 62) with false by lia.
      replace (b =? 77) with false by lia. replace (b =? 99) with false by lia.
      replace (b =? 92) with false by lia.
      destruct (b =? 103); reflexivity. }
  split; [exact P|].
  destruct a as [c|b| | | |ps bell|ps inter ig c|inter ig b]; cbn [reported] in H; try discriminate;
    cbn [events_of].
  - unfold print_events. destruct (is_c1 c) eqn:E1.
    + unfold exec_events, c0_handled. unfold is_c1 in E1.
      replace (c =? 7) with false by lia. replace ((8 <=? c) && (c <=? 15)) with false by lia. discriminate.
    + cbn [orb] in H. rewrite H. discriminate.
  - unfold exec_events. apply negb_true_iff in H. rewrite H. destruct (b =? 7); discriminate.
  - unfold osc_events. destruct ps as [|k [|t [|x r]]]; try discriminate.
    destruct (list_eqb N.eqb k [48]); [discriminate|].
    destruct (list_eqb N.eqb k [49]); [discriminate|].
    destruct (list_eqb N.eqb k [50]); discriminate.
  - unfold csi_events. destruct inter as [|i r].
    + destruct (mem c csi_plain); [discriminate|].
      destruct ((c =? 74) || (c =? 75)).
      * apply negb_true_iff in H. rewrite H. discriminate.
      * apply negb_true_iff in H. rewrite H.
        destruct (c =? 116); [|discriminate].
        unfold resize_events. destruct ps as [|[|op sub] rest]; try discriminate.
        destruct (op =? 8); discriminate.
    + destruct (i =? 63); [|discriminate].
      destruct ((c =? 74) || (c =? 75)).
      * apply negb_true_iff in H. rewrite H. discriminate.
      * apply negb_true_iff in H. rewrite H. discriminate.
  - unfold esc_events. destruct inter as [|i r]; [|discriminate].
    apply negb_true_iff in H. rewrite H. destruct (b =? 103); discriminate.
Qed.

(* the recording policy (rz = false): every reported action is inert *)
Theorem C18_inert : forall s a,
  reported a = true ->
  perform false s a = Ok (s, events_of false s a) /\ events_of false s a <> [].
Proof. intros s a H. apply C18_inert_gen; [exact H|apply resize_applies_false]. Qed.

(* SI / SO and DCS strings: no event, no state change *)
Definition ignored (a : action) : bool :=
  match a with
  | AExecute b => (b =? 14) || (b =? 15)
  | AHook _ _ _ _ | APut _ | AUnhook => true
  | _ => false
  end.

Theorem C18_ignored : forall rz s a, ignored a = true -> perform rz s a = Ok (s, []).
Proof.
  intros rz s a H. destruct a as [c|b| | | |ps bell|ps inter ig c|inter ig b]; cbn [ignored] in H;
    try discriminate; cbn [perform]; try reflexivity.
  unfold do_execute.
  replace (b =? 7) with false by lia. replace (b =? 8) with false by lia.
  replace (b =? 9) with false by lia. replace ((b =? 10) || (b =? 11) || (b =? 12)) with false by lia.
  replace (b =? 13) with false by lia. rewrite H. reflexivity.
Qed.

(* the event reported when a resize request is applied is the same; only the
   screen changes (by Screen::set_size) *)
Theorem C18_resize_applied : forall s a s' evs,
  resize_applies true s a = true -> perform true s a = Ok (s', evs) ->
  exists r c, evs = [EResize r c] /\ 1 <= r <= 512 /\ 1 <= c <= 512 /\ screen_set_size s r c = Ok s'.
Proof.
  intros s a s' evs Hz H.
  destruct a as [| | | | | |ps inter ig c|]; try discriminate.
  cbn [resize_applies] in Hz. destruct ps as [|[|op sub] rest]; try discriminate.
  destruct inter; try discriminate.
  destruct (N.eqb_spec c 116) as [->|Hc].
  2:{ exfalso. destruct c as [|c]; try discriminate.
      do 7 (destruct c as [c|c|]; try discriminate). congruence. }
  cbv zeta in Hz. cbn [perform] in H. unfold do_csi in H.
  repeat match type of H with
  | (if ?c =? ?n then _ else _) = _ => change (c =? n) with false in H; cbv iota in H
  end.
  change (116 =? 116) with true in H. cbv iota in H.
  destruct (N.eqb_spec op 8) as [->|?]; [|cbn [andb] in Hz; discriminate].
  cbv zeta in H.
  assert (E1 : match rest with (x :: _) :: _ => x | _ => grows (cur s) end
               = first_or (grows (cur s)) (nth_error rest 0)).
  { destruct rest as [|[|x y] q]; reflexivity. }
  assert (E2 : match rest with _ :: (x :: _) :: _ => x | _ => gcols (cur s) end
               = first_or (gcols (cur s)) (nth_error rest 1)).
  { destruct rest as [|a [|[|x y] q]]; reflexivity. }
  rewrite E1, E2 in H. clear E1 E2.
  set (r0 := first_or (grows (cur s)) (nth_error rest 0)) in *.
  set (c0 := first_or (gcols (cur s)) (nth_error rest 1)) in *.
  cbn [andb] in Hz, H. rewrite Hz in H.
  bind_inv H. inv H. exists r0, c0. split; [reflexivity|]. split; [lia|]. split; [lia|exact E].
Qed.

(* ------------------------------------------------------------------ *)
(* 7. The implemented actions are silent                               *)
(* ------------------------------------------------------------------ *)

(* the implemented actions: BS HT LF VT FF CR (and SO SI), printable characters,
   DCS strings, ESC 7 8 = > M c, the CSI finals of [csi_plain], ED/EL/DECSED/DECSEL
   with a known mode, SGR whose parameters are all known, DECSET/DECRST whose
   parameters are all known *)
Definition silent (s : screen) (a : action) : bool :=
  match a with
  | APrint c => negb (is_c1 c) && negb (c =? 65533)
  | AExecute b => c0_handled b
  | AHook _ _ _ _ | APut _ | AUnhook => true
  | AOsc _ _ => false
  | AEsc inter _ b => match inter with [] => mem b esc_silent | _ => false end
  | ACsi ps inter _ c =>
    match inter with
    | [] => mem c csi_plain
            || (((c =? 74) || (c =? 75)) && erase_mode_known ps)
            || ((c =? 109) && (snd (sgr ps (pen s)) =? 0))
    | i :: _ => (i =? 63) &&
                ((((c =? 74) || (c =? 75)) && erase_mode_known ps)
                 || (((c =? 104) || (c =? 108)) && (dec_unknown_count ps =? 0)))
    end
  end.

Lemma repeatN_nil_iff {A} (x : A) n : repeatN x n = [] <-> n = 0.
Proof.
  unfold repeatN. split.
  - intros H. destruct (N.to_nat n) eqn:E; [lia|discriminate].
  - intros ->. reflexivity.
Qed.

Theorem C18_silent_iff : forall rz s a, silent s a = true <-> events_of rz s a = [].
Proof.
  intros rz s a. destruct a as [c|b| | | |ps bell|ps inter ig c|inter ig b]; cbn [silent events_of];
    try (split; reflexivity).
  - unfold print_events, exec_events, c0_handled. unfold is_c1.
    destruct ((128 <=? c) && (c <? 160)) eqn:E1; cbn [negb andb].
    + replace (c =? 7) with false by lia. replace ((8 <=? c) && (c <=? 15)) with false by lia.
      split; discriminate.
    + destruct (c =? 65533); cbn [negb]; split; try discriminate; reflexivity.
  - unfold exec_events. destruct (N.eqb_spec b 7) as [->|?]; [split; discriminate|].
    destruct (c0_handled b); split; try discriminate; reflexivity.
  - unfold osc_events. split; [discriminate|].
    destruct ps as [|k [|t [|x r]]]; try discriminate.
    destruct (list_eqb N.eqb k [48]); [discriminate|].
    destruct (list_eqb N.eqb k [49]); [discriminate|].
    destruct (list_eqb N.eqb k [50]); discriminate.
  - unfold csi_events. destruct inter as [|i r].
    + destruct (mem c csi_plain) eqn:Em; cbn [orb]; [split; reflexivity|].
      unfold mem, csi_plain in Em. cbn [existsb] in Em.
      destruct ((c =? 74) || (c =? 75)) eqn:E1; cbn [andb orb].
      * replace (c =? 109) with false by lia. cbn [andb]. rewrite orb_false_r.
        destruct (erase_mode_known ps); split; try discriminate; reflexivity.
      * destruct (N.eqb_spec c 109) as [->|?]; cbn [andb].
        { rewrite repeatN_nil_iff. rewrite N.eqb_eq. reflexivity. }
        split; [discriminate|].
        destruct (c =? 116); [|discriminate].
        unfold resize_events. destruct ps as [|[|op sub] rest]; try discriminate.
        destruct (op =? 8); discriminate.
    + destruct (i =? 63); cbn [andb]; [|split; discriminate].
      destruct ((c =? 74) || (c =? 75)) eqn:E1; cbn [andb orb].
      * replace ((c =? 104) || (c =? 108)) with false by lia. cbn [andb]. rewrite orb_false_r.
        destruct (erase_mode_known ps); split; try discriminate; reflexivity.
      * destruct ((c =? 104) || (c =? 108)); cbn [andb].
        { rewrite repeatN_nil_iff. rewrite N.eqb_eq. reflexivity. }
        split; discriminate.
  - unfold esc_events. destruct inter as [|i r]; [|split; discriminate].
    destruct (mem b esc_silent); [split; reflexivity|].
    destruct (b =? 103); split; discriminate.
Qed.

Corollary C18_silent : forall rz s a s' evs,
  silent s a = true -> perform rz s a = Ok (s', evs) -> evs = [].
Proof.
  intros rz s a s' evs H P. apply C18_exact in P. rewrite P. apply (C18_silent_iff rz). exact H.
Qed.

(* the classification is exhaustive and exclusive: an action is silent, or reported
   (and inert), or one of SGR / DECSET / DECRST with at least one unknown parameter *)
Definition partly_unknown (s : screen) (a : action) : bool :=
  match a with
  | ACsi ps [] _ 109 => negb (snd (sgr ps (pen s)) =? 0)
  | ACsi ps (63 :: _) _ 104 | ACsi ps (63 :: _) _ 108 => negb (dec_unknown_count ps =? 0)
  | _ => false
  end.

Lemma partly_unknown_spec s a : partly_unknown s a = true <->
  (exists ps ig, a = ACsi ps [] ig 109 /\ snd (sgr ps (pen s)) <> 0) \/
  (exists ps r ig c, a = ACsi ps (63 :: r) ig c /\ (c = 104 \/ c = 108) /\ dec_unknown_count ps <> 0).
Proof.
  split.
  - destruct a as [| | | | | |ps inter ig c|]; try discriminate.
    intros H.
    destruct inter as [|i r].
    + assert (c = 109) as ->.
      { destruct (N.eqb_spec c 109); [assumption|exfalso].
        cbn [partly_unknown] in H.
        destruct c as [|c]; try discriminate.
        do 7 (destruct c as [c|c|]; try discriminate). congruence. }
      left. exists ps, ig. split; [reflexivity|]. cbn [partly_unknown] in H.
      apply negb_true_iff in H. lia.
    + right. assert (i = 63) as ->.
      { destruct (N.eqb_spec i 63); [assumption|exfalso].
        cbn [partly_unknown] in H.
        destruct i as [|i]; try discriminate.
        do 6 (destruct i as [i|i|]; try discriminate). congruence. }
      assert ((c = 104 \/ c = 108) /\ negb (dec_unknown_count ps =? 0) = true) as [Hc Hk].
      { cbn [partly_unknown] in H.
        destruct c as [|c]; try discriminate.
        do 7 (destruct c as [c|c|]; try discriminate); auto. }
      exists ps, r, ig, c. split; [reflexivity|]. split; [exact Hc|].
      apply negb_true_iff in Hk. lia.
  - intros [(ps & ig & -> & H)|(ps & r & ig & c & -> & [-> | ->] & H)]; cbn [partly_unknown];
      apply negb_true_iff; lia.
Qed.

Theorem C18_classification : forall s a,
  (silent s a = true /\ reported a = false /\ partly_unknown s a = false) \/
  (silent s a = false /\ reported a = true /\ partly_unknown s a = false) \/
  (silent s a = false /\ reported a = false /\ partly_unknown s a = true).
Proof.
  intros s a.
  destruct (partly_unknown s a) eqn:Ep.
  - right. right. apply partly_unknown_spec in Ep.
    destruct Ep as [(ps & ig & -> & H)|(ps & r & ig & c & -> & Hc & H)].
    + cbn [silent reported]. change (mem 109 csi_plain) with false.
      change ((109 =? 74) || (109 =? 75)) with false. change (109 =? 109) with true.
      cbn [orb andb negb]. replace (snd (sgr ps (pen s)) =? 0) with false by lia. auto.
    + cbn [silent reported]. change (63 =? 63) with true. cbn [andb]. cbv iota.
      replace ((c =? 74) || (c =? 75)) with false by lia.
      replace ((c =? 104) || (c =? 108)) with true by lia. cbn [andb orb negb].
      replace (dec_unknown_count ps =? 0) with false by lia. auto.
  - assert (Hn : forall ps ig, a = ACsi ps [] ig 109 -> snd (sgr ps (pen s)) = 0).
    { intros ps ig ->. cbn [partly_unknown] in Ep. apply negb_false_iff in Ep. lia. }
    assert (Hd : forall ps r ig c, a = ACsi ps (63 :: r) ig c -> c = 104 \/ c = 108 -> dec_unknown_count ps = 0).
    { intros ps r ig c -> [-> | ->]; cbn [partly_unknown] in Ep; apply negb_false_iff in Ep; lia. }
    clear Ep.
    destruct a as [c|b| | | |ps bell|ps inter ig c|inter ig b]; cbn [silent reported].
    + destruct (is_c1 c); cbn [negb andb orb]; [auto|]. destruct (c =? 65533); cbn [negb]; auto.
    + destruct (c0_handled b); cbn [negb]; auto.
    + auto.
    + auto.
    + auto.
    + auto.
    + destruct inter as [|i r].
      * destruct (mem c csi_plain) eqn:Em; cbn [orb]; [auto|].
        unfold mem, csi_plain in Em. cbn [existsb] in Em.
        destruct ((c =? 74) || (c =? 75)) eqn:E1; cbn [andb orb].
        { replace (c =? 109) with false by lia. cbn [andb]. rewrite orb_false_r.
          destruct (erase_mode_known ps); cbn [negb]; auto. }
        destruct (N.eqb_spec c 109) as [->|?]; cbn [andb negb].
        { rewrite (Hn ps ig eq_refl). auto. }
        auto.
      * destruct (N.eqb_spec i 63) as [->|?]; cbn [andb]; [|auto].
        destruct ((c =? 74) || (c =? 75)) eqn:E1; cbn [andb orb].
        { replace ((c =? 104) || (c =? 108)) with false by lia. cbn [andb]. rewrite orb_false_r.
          destruct (erase_mode_known ps); cbn [negb]; auto. }
        destruct ((c =? 104) || (c =? 108)) eqn:E2; cbn [andb negb]; [|auto].
        rewrite (Hd ps r ig c eq_refl) by lia. auto.
    + destruct inter as [|i r]; [|auto]. destruct (mem b esc_silent); cbn [negb]; auto.
Qed.

(* ------------------------------------------------------------------ *)
(* The SGR report count depends on the parameter list only              *)
(* ------------------------------------------------------------------ *)

Definition sgr_shape (r1 r2 : sgr_res) : Prop :=
  match r1, r2 with
  | SCont _ x k, SCont _ y k' => x = y /\ k = k'
  | SStop _ k, SStop _ k' => k = k'
  | _, _ => False
  end.

Lemma ext_color_shape rest a b f1 f2 : sgr_shape (ext_color rest a f1) (ext_color rest b f2).
Proof.
  unfold ext_color, single, u8.
  repeat match goal with
  | |- sgr_shape (match ?x with _ => _ end) _ => destruct x
  | |- sgr_shape (if ?x then _ else _) _ => destruct x
  end; cbn [sgr_shape]; auto.
Qed.

Lemma sgr1_shape p rest a b : sgr_shape (sgr1 p rest a) (sgr1 p rest b).
Proof.
  unfold sgr1, rgb_or_stop, u8.
  repeat match goal with
  | |- sgr_shape (ext_color _ _ _) _ => apply ext_color_shape
  | |- sgr_shape (match ?x with _ => _ end) _ => destruct x
  | |- sgr_shape (if ?x then _ else _) _ => destruct x
  end; cbn [sgr_shape]; auto.
Qed.

Lemma sgr_loop_count fuel : forall ps a b u, snd (sgr_loop fuel ps a u) = snd (sgr_loop fuel ps b u).
Proof.
  induction fuel as [|fuel IH]; intros ps a b u; cbn [sgr_loop]; [reflexivity|].
  destruct ps as [|p rest]; [reflexivity|].
  pose proof (sgr1_shape p rest a b) as S.
  destruct (sgr1 p rest a) as [a1 r1 k1|a1 k1], (sgr1 p rest b) as [b1 r2 k2|b1 k2]; cbn [sgr_shape] in S;
    try contradiction.
  - destruct S as [-> ->]. apply IH.
  - subst. reflexivity.
Qed.

Theorem sgr_count_pen_irrelevant : forall ps a b, snd (sgr ps a) = snd (sgr ps b).
Proof. intros ps a b. unfold sgr. destruct ps; [reflexivity|]. apply sgr_loop_count. Qed.

(* hence the table does not depend on the pen either: only on the current size *)
Corollary events_of_size_only : forall rz s t a,
  grows (cur s) = grows (cur t) -> gcols (cur s) = gcols (cur t) ->
  events_of rz s a = events_of rz t a.
Proof.
  intros rz s t a H1 H2. destruct a; cbn [events_of]; try reflexivity.
  unfold csi_events, resize_events. rewrite H1, H2, (sgr_count_pen_irrelevant params (pen s) (pen t)).
  reflexivity.
Qed.
