(* CheckK04.v — assumptions of the theorems of the K04a repair (all must be closed). *)
Require Import Tac Utf8 Vte Screen Perform Parser Term Utf8Lemmas VteInv VteChunk Pend Chunking.
Require Import GridInv ScreenInv ParseSer PendTok RisSpec EventSeq WfInv.
Require Import VT.Props.C04.
Print Assumptions C04_all.
Print Assumptions process_chunking_independent.
Print Assumptions process_chunks_deliver.
Print Assumptions process_pend_inv.
Print Assumptions k04a_shielded.
Print Assumptions incomplete_tail_app.
Print Assumptions advance_partial_nil.
Print Assumptions advance_partial_nil_lead.
Print Assumptions process_clean.
Print Assumptions ser_all_tail.
Print Assumptions process_ser_all.
Print Assumptions parser_new_ok.
Print Assumptions process_ok.
Print Assumptions step_ok.
Print Assumptions run_ok.
Print Assumptions ris_process_any.
Print Assumptions process_wfb.
