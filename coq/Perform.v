(* Perform.v — perform.rs: dispatch of vte actions to Screen methods and
   Callbacks events.  Callback policy: `resizing = true` means the Callbacks
   object's resize() calls screen.set_size(r, c) when 1 <= r, c <= 512 (the harness's
   Resizing callbacks); every other callback only records. *)
Require Import Base Utf8 Attrs Cell Row Grid Screen Vte.

Inductive event :=
| EBell
| EVisualBell
| EResize (r c : N)
| EIconName (s : list N)
| ETitle (s : list N)
| EUnhChar (c : N)
| EUnhControl (b : N)
| EUnhEscape (i1 i2 : option N) (b : N)
| EUnhCsi (i1 i2 : option N) (params : list (list N)) (c : N)
| EUnhOsc (params : list (list N)).

Definition first_sub (p : option (list N)) : N :=
  match p with Some (x :: _) => x | _ => 0 end.

Definition canon1 (ps : list (list N)) (d : N) : N :=
  let f := first_sub (hd_error ps) in if f =? 0 then d else f.

Definition canon2 (ps : list (list N)) (d1 d2 : N) : N * N :=
  let a := first_sub (hd_error ps) in
  let b := first_sub (hd_error (tl ps)) in
  (if a =? 0 then d1 else a, if b =? 0 then d2 else b).

Definition nth_inter (l : list N) (i : nat) : option N := nth_error l i.

Definition repeat_ev (n : N) (e : event) : list event := repeat e (N.to_nat n).

Definition do_execute (s : screen) (b : N) : res (screen * list event) :=
  if b =? 7 then Ok (s, [EBell])
  else if b =? 8 then do s1 <- scr_bs s; Ok (s1, [])
  else if b =? 9 then do s1 <- scr_tab s; Ok (s1, [])
  else if (b =? 10) || (b =? 11) || (b =? 12) then do s1 <- scr_lf s; Ok (s1, [])
  else if b =? 13 then do s1 <- scr_cr s; Ok (s1, [])
  else if (b =? 14) || (b =? 15) then Ok (s, [])
  else Ok (s, [EUnhControl b]).

(* WrappedScreen::print, after the D11 repair *)
Definition do_print (s : screen) (c : N) : res (screen * list event) :=
  if (128 <=? c) && (c <? 160) then do_execute s c
  else if c =? REPL then Ok (s, [EUnhChar c])
  else do s1 <- scr_text s c; Ok (s1, []).

Definition do_esc (s : screen) (inter : list N) (b : N) : res (screen * list event) :=
  match inter with
  | i :: _ => Ok (s, [EUnhEscape (Some i) (nth_inter inter 1) b])
  | [] =>
    if b =? 55 then Ok (scr_save_cursor s, [])
    else if b =? 56 then Ok (scr_restore_cursor s, [])
    else if b =? 61 then Ok (with_keypad s true, [])
    else if b =? 62 then Ok (with_keypad s false, [])
    else if b =? 77 then do s1 <- scr_ri s; Ok (s1, [])
    else if b =? 99 then do s1 <- scr_ris s; Ok (s1, [])
    else if b =? 103 then Ok (s, [EVisualBell])
    else if b =? 92 then Ok (s, [])          (* ST, after the K18 repair *)
    else Ok (s, [EUnhEscape None None b])
  end.

Definition noev (r : res screen) : res (screen * list event) := do s <- r; Ok (s, []).

Definition do_csi (resizing : bool) (s : screen) (ps : list (list N)) (inter : list N) (c : N)
  : res (screen * list event) :=
  let unh := EUnhCsi (nth_inter inter 0) (nth_inter inter 1) ps c in
  match inter with
  | [] =>
    if c =? 64 then noev (scr_ich s (canon1 ps 1))
    else if c =? 65 then noev (scr_cuu s (canon1 ps 1))
    else if c =? 66 then noev (scr_cud s (canon1 ps 1))
    else if c =? 67 then noev (scr_cuf s (canon1 ps 1))
    else if c =? 68 then noev (scr_cub s (canon1 ps 1))
    else if c =? 69 then noev (scr_cnl s (canon1 ps 1))
    else if c =? 70 then noev (scr_cpl s (canon1 ps 1))
    else if c =? 71 then noev (scr_cha s (canon1 ps 1))
    else if c =? 72 then let '(r, cc) := canon2 ps 1 1 in noev (scr_cup s r cc)
    else if c =? 74 then do '(s1, k) <- scr_ed s (canon1 ps 0); Ok (s1, repeat_ev k unh)
    else if c =? 75 then do '(s1, k) <- scr_el s (canon1 ps 0); Ok (s1, repeat_ev k unh)
    else if c =? 76 then noev (scr_il s (canon1 ps 1))
    else if c =? 77 then noev (scr_dl s (canon1 ps 1))
    else if c =? 80 then noev (scr_dch s (canon1 ps 1))
    else if c =? 83 then noev (scr_su s (canon1 ps 1))
    else if c =? 84 then noev (scr_sd s (canon1 ps 1))
    else if c =? 88 then noev (scr_ech s (canon1 ps 1))
    else if c =? 100 then noev (scr_vpa s (canon1 ps 1))
    else if c =? 109 then let '(s1, k) := scr_sgr s ps in Ok (s1, repeat_ev k unh)
    else if c =? 114 then
      let '(t, b) := canon2 ps 1 (grows (cur s)) in noev (scr_decstbm s t b)
    else if c =? 116 then
      match ps with
      | (op :: _) :: rest =>
        if op =? 8 then
          let sr := grows (cur s) in
          let sc := gcols (cur s) in
          let r := match rest with (x :: _) :: _ => x | _ => sr end in
          let cc := match rest with _ :: (x :: _) :: _ => x | _ => sc end in
          if resizing && (1 <=? r) && (r <=? 512) && (1 <=? cc) && (cc <=? 512)
          then do s1 <- screen_set_size s r cc; Ok (s1, [EResize r cc])
          else Ok (s, [EResize r cc])
        else Ok (s, [EUnhCsi None None ps c])
      | _ => Ok (s, [EUnhCsi None None ps c])
      end
    else Ok (s, [EUnhCsi None None ps c])
  | i :: _ =>
    if i =? 63 then
      if c =? 74 then do '(s1, k) <- scr_ed s (canon1 ps 0); Ok (s1, repeat_ev k unh)
      else if c =? 75 then do '(s1, k) <- scr_el s (canon1 ps 0); Ok (s1, repeat_ev k unh)
      else if c =? 104 then do '(s1, k) <- scr_decset s ps; Ok (s1, repeat_ev k unh)
      else if c =? 108 then do '(s1, k) <- scr_decrst s ps; Ok (s1, repeat_ev k unh)
      else Ok (s, [unh])
    else Ok (s, [unh])
  end.

Definition do_osc (s : screen) (ps : list (list N)) : screen * list event :=
  match ps with
  | [k; v] =>
    if list_eqb N.eqb k [48] then (s, [EIconName v; ETitle v])
    else if list_eqb N.eqb k [49] then (s, [EIconName v])
    else if list_eqb N.eqb k [50] then (s, [ETitle v])
    else (s, [EUnhOsc ps])
  | _ => (s, [EUnhOsc ps])
  end.

Definition perform (resizing : bool) (s : screen) (a : action) : res (screen * list event) :=
  match a with
  | APrint c => do_print s c
  | AExecute b => do_execute s b
  | AHook _ _ _ _ | APut _ | AUnhook => Ok (s, [])
  | AOsc ps _ => Ok (do_osc s ps)
  | ACsi ps inter _ c => do_csi resizing s ps inter c
  | AEsc inter _ b => do_esc s inter b
  end.

Fixpoint perform_all (resizing : bool) (s : screen) (acts : list action) (evs : list event)
  : res (screen * list event) :=
  match acts with
  | [] => Ok (s, evs)
  | a :: rest =>
    do '(s1, e) <- perform resizing s a;
    perform_all resizing s1 rest (evs ++ e)
  end.
