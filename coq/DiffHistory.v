(* DiffHistory.v — the rows loop of Grid::write_contents_diff BEFORE the D10 repair, kept as a
   regression witness: with the old loop (prev_wrapping = the flag of prev's row, whatever the diff
   of that row has just done to the receiver) the round trip of property C02 fails on the D10 pair.
   The repaired loop (Emit.rows_diff_loop, with Emit.clears_wrap) round-trips it
   (DiffRound.d10_check_value, DiffRound.d10_round_trips) and every other pair (Props/C02all.v). *)
Require Import Tac ListN Attrs Cell Row Grid Screen Vte Perform Parser Term Emit.
Require Import GridInv ScreenInv ParseSer CellWf WfInv SgrSpec EmitSafe AttrsInv EmitTokens ObsSpec DiffRound.
Open Scope N_scope.

(* the previous definition, verbatim *)
Fixpoint rows_diff_loop_old (cols : N) (vr : list (row * row)) (i : N) (wrapping pwrapping : bool)
         (pos : N * N) (a : attrs) (acc : list token) : res (list token * (N * N) * attrs) :=
  match vr with
  | [] => Ok (acc, pos, a)
  | (rw, prw) :: rest =>
    do '(ts, pos', a') <- row_diff rw prw 0 cols i wrapping pwrapping pos a;
    rows_diff_loop_old cols rest (i + 1) (wrapped rw) (wrapped prw) pos' a' (acc ++ ts)
  end.

Definition grid_contents_diff_old (x prev : grid) (pattrs : attrs) : res (list token * attrs) :=
  do vr <- visible_rows x;
  do pvr <- visible_rows prev;
  do '(ts, pos, a) <- rows_diff_loop_old (gcols x) (zip vr pvr) 0 false false
                                         (prow prev, pcol prev) pattrs [];
  do cur <- cursor_position_formatted x (Some pos) (Some a);
  Ok (ts ++ cur, a).

Definition contents_diff_old_t (s prev : screen) : res (list token) :=
  do '(ts, a) <- grid_contents_diff_old (cur s) (cur prev) (pen prev);
  Ok ((if Bool.eqb (hide s) (hide prev) then [] else [t_hide_cursor (hide s)])
        ++ ts ++ t_attrs_diff (pen s) a).

Definition state_diff_old_t (s prev : screen) : res (list token) :=
  do ts <- contents_diff_old_t s prev; Ok (ts ++ input_mode_diff_t s prev).

Definition diff_round_old (Pr Sc : screen) : res parser :=
  do r <- reproduce Pr;
  do ts <- state_diff_old_t Sc Pr;
  process r (ser_all ts).

Definition diff_round_old_ok (Pr Sc : screen) : Prop :=
  exists r o, diff_round_old Pr Sc = Ok r /\ obs (scr r) = Ok o /\ obs Sc = Ok o.

(* the two observations differ exactly in the wrap flag of row 0 *)
Definition d10_check_old : res (bool * list bool * list bool) :=
  do Pr <- after 2 2 d10_P;
  do Sc <- after 2 2 d10_S;
  do r <- diff_round_old Pr Sc;
  do o1 <- obs (scr r);
  do o2 <- obs Sc;
  Ok (obs_eqb_rows (o_vis o1) (o_vis o2), map wrapped (o_vis o1), map wrapped (o_vis o2)).

Lemma d10_check_old_value : d10_check_old = Ok (false, [false; false], [true; false]).
Proof. vm_compute. reflexivity. Qed.

(* the repair was necessary *)
Theorem d10_refutes_old_loop : exists Pr Sc,
  reachable Pr /\ reachable Sc /\ grows (cur Pr) = grows (cur Sc) /\ gcols (cur Pr) = gcols (cur Sc) /\
  ~ diff_round_old_ok Pr Sc.
Proof.
  destruct (after 2 2 d10_P) as [Pr|] eqn:EP; [|vm_compute in EP; discriminate].
  destruct (after 2 2 d10_S) as [Sc|] eqn:ES; [|vm_compute in ES; discriminate].
  exists Pr, Sc.
  assert (1 <= 2 <= MAXDIM) as H2 by (unfold MAXDIM; lia).
  split; [eapply after_reachable; [exact H2|exact H2|exact EP]|].
  split; [eapply after_reachable; [exact H2|exact H2|exact ES]|].
  vm_compute in EP. vm_compute in ES. inv EP. inv ES.
  split; [reflexivity|]. split; [reflexivity|].
  intros (r & o & Er & Eo & Es). vm_compute in Er. inv Er. vm_compute in Eo. inv Eo. vm_compute in Es. discriminate.
Qed.

(* the only difference between the two loops *)
Lemma rows_diff_loop_old_step cols rw prw rest i w pw pos a acc :
  rows_diff_loop_old cols ((rw, prw) :: rest) i w pw pos a acc =
  (do '(ts, pos', a') <- row_diff rw prw 0 cols i w pw pos a;
   rows_diff_loop_old cols rest (i + 1) (wrapped rw) (wrapped prw) pos' a' (acc ++ ts)).
Proof. reflexivity. Qed.
Lemma rows_diff_loop_step cols rw prw rest i w pw pos a acc :
  rows_diff_loop cols ((rw, prw) :: rest) i w pw pos a acc =
  (do '(ts, pos', a') <- row_diff rw prw 0 cols i w pw pos a;
   rows_diff_loop cols rest (i + 1) (wrapped rw) (wrapped prw && negb (clears_wrap cols rw prw)) pos' a' (acc ++ ts)).
Proof. reflexivity. Qed.
