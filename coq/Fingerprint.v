(* Fingerprint.v — a numeric fingerprint of a parser state and of the emitted bytes, used by the
   thorough tier to compare three evaluations of the same scripts: Coq's vm_compute on the
   Gallina model, the extracted OCaml model, and (through the ordinary correspondence) the crate.
   It removes extraction and ocamlopt from the trusted base for the sampled cases. *)
Require Import Base Utf8 Attrs Cell Row Grid Screen Vte Perform Parser Term Emit.
Open Scope N_scope.

Definition MODP : N := 2305843009213693951.   (* 2^61 - 1 *)
Definition mix (h x : N) : N := (h * 1000003 + x + 1) mod MODP.
Definition fp_list {A} (f : A -> N) (l : list A) : N := fold_left (fun h a => mix h (f a)) l 7.
Definition fp_bool (b : bool) : N := if b then 1 else 0.
Definition fp_color (c : color) : N :=
  match c with CDefault => 1 | CIdx i => mix 2 i | CRgb r g b => mix (mix (mix 3 r) g) b end.
Definition fp_attrs (a : attrs) : N :=
  mix (mix (mix (mix (mix (fp_color (fg a)) (fp_color (bg a)))
     (match inten a with INormal => 0 | IBold => 1 | IDim => 2 end)) (fp_bool (italic a)))
     (fp_bool (underline a))) (fp_bool (inverse a)).
Definition fp_cell (c : cell) : N :=
  mix (mix (mix (fp_list (fun x => x) (ctext c)) (fp_bool (cwide c))) (fp_bool (ccont c))) (fp_attrs (cattrs c)).
Definition fp_row (r : row) : N := mix (fp_list fp_cell (cells r)) (fp_bool (wrapped r)).
Definition fp_grid (x : grid) : N :=
  fold_left mix [grows x; gcols x; prow x; pcol x; sprow x; spcol x; top x; bot x;
                 fp_bool (origin x); fp_bool (sorigin x); sb_cap x; sb_off x;
                 fp_list fp_row (live x); fp_list fp_row (sb x)] 11.
Definition fp_screen (s : screen) : N :=
  fold_left mix [fp_grid (g s); fp_grid (alt s); fp_attrs (pen s); fp_attrs (spen s);
                 fp_bool (keypad s); fp_bool (appcur s); fp_bool (hide s); fp_bool (altmode s); fp_bool (paste s);
                 match mmode s with MNone => 0 | MPress => 1 | MPressRelease => 2 | MButtonMotion => 3 | MAnyMotion => 4 end;
                 match menc s with EDefault => 0 | EUtf8 => 1 | ESgr => 2 end] 13.
Definition fp_bytes (l : list N) : N := fp_list (fun x => x) l.

(* state fingerprint, number of logged events, fingerprints of the two main emitters, and of the
   bytes held back by the parser (Parser.pend: the incomplete utf-8 tail, K04a repair) *)
Definition fp_case (rows cols cap : N) (rz : bool) (ops : list api_op) : list N :=
  match parser_new rows cols cap rz with
  | Panic _ => [0]
  | Ok p =>
    match run p ops with
    | Panic _ => [1]
    | Ok q =>
      [2; fp_screen (scr q); len (log q);
       match state_formatted_t (scr q) with Ok ts => fp_bytes (ser_all ts) | Panic _ => 0 end;
       match contents_text (scr q) with Ok t => fp_bytes t | Panic _ => 0 end;
       fp_bytes (pend q)]
    end
  end.
