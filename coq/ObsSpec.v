(* ObsSpec.v — property C19: the emitters of Emit.v depend only on the
   observable visible state of a screen; the diff of two observationally equal
   screens (in particular of a screen against itself) is empty; state_* is
   contents_* followed by input_mode_*. *)
Require Import Tac ListN Utf8 Attrs Cell Row Grid Screen Term Emit RowInv GridInv TextInv ScreenInv EmitSafe SgrSpec CellWf.
Open Scope N_scope.

(* ------------------------------------------------------------------ *)
(* 1. Observations (DESIGN 5.1)                                         *)
(* ------------------------------------------------------------------ *)

Record observation := mkObs {
  o_rows : N;
  o_cols : N;
  o_vis : list row;                 (* visible rows: all cells and the wrap flags *)
  o_cur : N * N;                    (* cursor position (row, column) *)
  o_hide : bool;                    (* hide-cursor flag *)
  o_pen : attrs;                    (* current drawing attributes *)
  o_modes : bool * bool * bool * mouse_mode * mouse_enc }.
                                    (* keypad, application cursor, bracketed paste, mouse mode/encoding *)

Definition obs (s : screen) : res observation :=
  do vr <- visible_rows (cur s);
  Ok (mkObs (grows (cur s)) (gcols (cur s)) vr (prow (cur s), pcol (cur s)) (hide s) (pen s)
            (keypad s, appcur s, paste s, mmode s, menc s)).

Lemma obs_inv s o : obs s = Ok o ->
  visible_rows (cur s) = Ok (o_vis o) /\ grows (cur s) = o_rows o /\ gcols (cur s) = o_cols o /\
  prow (cur s) = fst (o_cur o) /\ pcol (cur s) = snd (o_cur o) /\ hide s = o_hide o /\ pen s = o_pen o /\
  keypad s = fst (fst (fst (fst (o_modes o)))) /\ appcur s = snd (fst (fst (fst (o_modes o)))) /\
  paste s = snd (fst (fst (o_modes o))) /\ mmode s = snd (fst (o_modes o)) /\ menc s = snd (o_modes o).
Proof.
  unfold obs. intros H. destruct (visible_rows (cur s)) as [vr|k]; cbn [bind] in H; [|discriminate].
  inv H. cbn. repeat split; reflexivity.
Qed.

(* the observation exists on every screen satisfying the invariant *)
Lemma obs_ok s : screen_ok s -> exists o, obs s = Ok o /\ len (o_vis o) = o_rows o.
Proof.
  intros H. unfold obs. destruct (visible_rows_ok (cur s) (cur_ok _ H)) as (vr & -> & L & _).
  cbn [bind]. eexists; split; [reflexivity|]. exact L.
Qed.

(* at scrollback offset 0 the visible rows are exactly the live rows *)
Lemma visible_rows_off0 x : sb_off x = 0 -> visible_rows x = Ok (live x).
Proof.
  intros E. unfold visible_rows, subz. rewrite E.
  destruct (N.leb_spec 0 (len (sb x))) as [_|]; [|lia]. cbn [bind].
  rewrite !N.sub_0_r. unfold skipnN, firstnN, len. rewrite !Nnat.Nat2N.id, skipn_all, firstn_nil, firstn_all.
  reflexivity.
Qed.

Theorem obs_off0 s : sb_off (cur s) = 0 ->
  obs s = Ok (mkObs (grows (cur s)) (gcols (cur s)) (live (cur s)) (prow (cur s), pcol (cur s)) (hide s) (pen s)
                    (keypad s, appcur s, paste s, mmode s, menc s)).
Proof. intros E. unfold obs. rewrite (visible_rows_off0 _ E). reflexivity. Qed.

(* what the grid-level emitters read of a grid *)
Record gobs_eq (x y : grid) : Prop := mkGobsEq {
  ge_vis : visible_rows x = visible_rows y;
  ge_cols : gcols x = gcols y;
  ge_prow : prow x = prow y;
  ge_pcol : pcol x = pcol y }.

Lemma obs_gobs_eq s1 s2 o : obs s1 = Ok o -> obs s2 = Ok o -> gobs_eq (cur s1) (cur s2).
Proof.
  intros H1 H2. apply obs_inv in H1. apply obs_inv in H2.
  destruct H1 as (A1 & _ & A3 & A4 & A5 & _). destruct H2 as (B1 & _ & B3 & B4 & B5 & _).
  split; congruence.
Qed.

(* ------------------------------------------------------------------ *)
(* 2. C19_factor: the formatted emitters factor through [obs]           *)
(* ------------------------------------------------------------------ *)

Lemma cursor_position_formatted_gobs x y ppos pattrs : gobs_eq x y ->
  cursor_position_formatted x ppos pattrs = cursor_position_formatted y ppos pattrs.
Proof.
  intros [Hv Hc Hr Hp]. unfold cursor_position_formatted. rewrite Hv, Hc, Hr, Hp. reflexivity.
Qed.

Lemma grid_contents_formatted_gobs x y : gobs_eq x y ->
  grid_contents_formatted x = grid_contents_formatted y.
Proof.
  intros E. pose proof E as [Hv Hc Hr Hp]. unfold grid_contents_formatted. rewrite Hv, Hc.
  destruct (visible_rows y) as [vr|k]; cbn [bind]; [|reflexivity].
  destruct (rows_formatted_loop (gcols y) vr 0 false (0, 0) dflt []) as [[[ts pos] a]|k]; cbn [bind]; [|reflexivity].
  rewrite (cursor_position_formatted_gobs x y _ _ E). reflexivity.
Qed.

Theorem contents_formatted_obs s1 s2 o : obs s1 = Ok o -> obs s2 = Ok o ->
  contents_formatted_t s1 = contents_formatted_t s2.
Proof.
  intros H1 H2. pose proof (obs_gobs_eq _ _ _ H1 H2) as E.
  apply obs_inv in H1. apply obs_inv in H2.
  destruct H1 as (_ & _ & _ & _ & _ & A6 & A7 & _). destruct H2 as (_ & _ & _ & _ & _ & B6 & B7 & _).
  unfold contents_formatted_t. rewrite (grid_contents_formatted_gobs _ _ E), A6, A7, B6, B7. reflexivity.
Qed.

Theorem input_mode_formatted_obs s1 s2 o : obs s1 = Ok o -> obs s2 = Ok o ->
  input_mode_formatted_t s1 = input_mode_formatted_t s2.
Proof.
  intros H1 H2. apply obs_inv in H1. apply obs_inv in H2.
  destruct H1 as (_ & _ & _ & _ & _ & _ & _ & A8 & A9 & A10 & A11 & A12).
  destruct H2 as (_ & _ & _ & _ & _ & _ & _ & B8 & B9 & B10 & B11 & B12).
  unfold input_mode_formatted_t. rewrite A8, A9, A10, A11, A12, B8, B9, B10, B11, B12. reflexivity.
Qed.

Theorem state_formatted_obs s1 s2 o : obs s1 = Ok o -> obs s2 = Ok o ->
  state_formatted_t s1 = state_formatted_t s2.
Proof.
  intros H1 H2. unfold state_formatted_t.
  rewrite (contents_formatted_obs _ _ _ H1 H2), (input_mode_formatted_obs _ _ _ H1 H2). reflexivity.
Qed.

Theorem attributes_formatted_obs s1 s2 o : obs s1 = Ok o -> obs s2 = Ok o ->
  attributes_formatted_t s1 = attributes_formatted_t s2.
Proof.
  intros H1 H2. apply obs_inv in H1. apply obs_inv in H2.
  destruct H1 as (_ & _ & _ & _ & _ & _ & A7 & _). destruct H2 as (_ & _ & _ & _ & _ & _ & B7 & _).
  unfold attributes_formatted_t. rewrite A7, B7. reflexivity.
Qed.

Theorem cursor_state_formatted_obs s1 s2 o : obs s1 = Ok o -> obs s2 = Ok o ->
  cursor_state_formatted_t s1 = cursor_state_formatted_t s2.
Proof.
  intros H1 H2. pose proof (obs_gobs_eq _ _ _ H1 H2) as E.
  apply obs_inv in H1. apply obs_inv in H2.
  destruct H1 as (_ & _ & _ & _ & _ & A6 & _). destruct H2 as (_ & _ & _ & _ & _ & B6 & _).
  unfold cursor_state_formatted_t. rewrite (cursor_position_formatted_gobs _ _ _ _ E), A6, B6. reflexivity.
Qed.

(* rows_formatted reads the width of the PRIMARY grid (gcols (g s)), which is not
   part of the observation when the alternate grid is shown; the invariant makes
   both grids the same size. *)
Lemma gcols_g_cur s : screen_ok s -> gcols (g s) = gcols (cur s).
Proof. intros H. unfold cur. destruct (altmode s); [symmetry; apply (so_cols _ H)|reflexivity]. Qed.

Theorem rows_formatted_obs s1 s2 o start width : screen_ok s1 -> screen_ok s2 ->
  obs s1 = Ok o -> obs s2 = Ok o ->
  rows_formatted_t s1 start width = rows_formatted_t s2 start width.
Proof.
  intros O1 O2 H1 H2. pose proof (obs_gobs_eq _ _ _ H1 H2) as [Hv Hc _ _].
  unfold rows_formatted_t. rewrite (gcols_g_cur _ O1), (gcols_g_cur _ O2), Hv, Hc. reflexivity.
Qed.

(* without the invariant: the only extra thing read is the primary grid's width *)
Theorem rows_formatted_obs_gen s1 s2 o start width :
  gcols (g s1) = gcols (g s2) -> obs s1 = Ok o -> obs s2 = Ok o ->
  rows_formatted_t s1 start width = rows_formatted_t s2 start width.
Proof.
  intros G H1 H2. pose proof (obs_gobs_eq _ _ _ H1 H2) as [Hv _ _ _].
  unfold rows_formatted_t. rewrite G, Hv. reflexivity.
Qed.

(* bytes *)
Lemma ser_all_app a b : ser_all (a ++ b) = ser_all a ++ ser_all b.
Proof. unfold ser_all. apply flat_map_app. Qed.

Definition res_map {A B} (f : A -> B) (r : res A) : res B :=
  match r with Ok a => Ok (f a) | Panic k => Panic k end.

(* The main statement: all formatted emitters return the same result (same
   token lists, hence the same bytes [ser_all]) on observationally equal screens. *)
Theorem C19_factor s1 s2 o : screen_ok s1 -> screen_ok s2 -> obs s1 = Ok o -> obs s2 = Ok o ->
  contents_formatted_t s1 = contents_formatted_t s2 /\
  state_formatted_t s1 = state_formatted_t s2 /\
  cursor_state_formatted_t s1 = cursor_state_formatted_t s2 /\
  (forall start width, rows_formatted_t s1 start width = rows_formatted_t s2 start width) /\
  input_mode_formatted_t s1 = input_mode_formatted_t s2 /\
  attributes_formatted_t s1 = attributes_formatted_t s2.
Proof.
  intros O1 O2 H1 H2. repeat split.
  - eapply contents_formatted_obs; eassumption.
  - eapply state_formatted_obs; eassumption.
  - eapply cursor_state_formatted_obs; eassumption.
  - intros start width. eapply rows_formatted_obs; eassumption.
  - eapply input_mode_formatted_obs; eassumption.
  - eapply attributes_formatted_obs; eassumption.
Qed.

Corollary C19_factor_bytes s1 s2 o : screen_ok s1 -> screen_ok s2 -> obs s1 = Ok o -> obs s2 = Ok o ->
  res_map ser_all (contents_formatted_t s1) = res_map ser_all (contents_formatted_t s2) /\
  res_map ser_all (state_formatted_t s1) = res_map ser_all (state_formatted_t s2) /\
  res_map ser_all (cursor_state_formatted_t s1) = res_map ser_all (cursor_state_formatted_t s2) /\
  (forall start width, res_map (map ser_all) (rows_formatted_t s1 start width)
                       = res_map (map ser_all) (rows_formatted_t s2 start width)) /\
  ser_all (input_mode_formatted_t s1) = ser_all (input_mode_formatted_t s2) /\
  ser_all (attributes_formatted_t s1) = ser_all (attributes_formatted_t s2).
Proof.
  intros O1 O2 H1 H2. destruct (C19_factor s1 s2 o O1 O2 H1 H2) as (A & B & C & D & E & F).
  rewrite A, B, C, E, F. repeat split. intros start width. rewrite D. reflexivity.
Qed.

(* The same fact in "factors through" form: a canonical screen built from the
   observation alone; every emitter of s equals the emitter of that screen. *)
Definition grid_of_obs (o : observation) : grid :=
  mkGrid (o_rows o) (o_cols o) (fst (o_cur o)) (snd (o_cur o)) 0 0 (o_vis o) 0 0 false false [] 0 0.

Definition screen_of_obs (o : observation) : screen :=
  mkScreen (grid_of_obs o) (grid_of_obs o) (o_pen o) dflt
           (fst (fst (fst (fst (o_modes o))))) (snd (fst (fst (fst (o_modes o))))) (o_hide o) false
           (snd (fst (fst (o_modes o)))) (snd (fst (o_modes o))) (snd (o_modes o)).

Lemma obs_screen_of_obs o : obs (screen_of_obs o) = Ok o.
Proof.
  destruct o as [r c v [cr cc] h p [[[[k a] pa] mm] me]].
  unfold obs, cur, screen_of_obs, grid_of_obs, visible_rows.
  cbn [altmode g sb sb_off live grows gcols prow pcol hide pen keypad appcur paste mmode menc
       o_rows o_cols o_vis o_cur o_hide o_pen o_modes fst snd].
  change (subz (len (@nil row)) 0) with (@Ok N 0). cbn [bind].
  rewrite N.sub_0_r. unfold skipnN, firstnN, len. rewrite Nnat.Nat2N.id, firstn_all.
  change (N.to_nat 0) with O. cbn [skipn]. rewrite firstn_nil. reflexivity.
Qed.

Theorem C19_canonical s o : screen_ok s -> obs s = Ok o ->
  contents_formatted_t s = contents_formatted_t (screen_of_obs o) /\
  state_formatted_t s = state_formatted_t (screen_of_obs o) /\
  cursor_state_formatted_t s = cursor_state_formatted_t (screen_of_obs o) /\
  (forall start width, rows_formatted_t s start width = rows_formatted_t (screen_of_obs o) start width) /\
  input_mode_formatted_t s = input_mode_formatted_t (screen_of_obs o) /\
  attributes_formatted_t s = attributes_formatted_t (screen_of_obs o).
Proof.
  intros O H. pose proof (obs_screen_of_obs o) as H'. repeat split.
  - eapply contents_formatted_obs; eassumption.
  - eapply state_formatted_obs; eassumption.
  - eapply cursor_state_formatted_obs; eassumption.
  - intros start width. eapply rows_formatted_obs_gen; try eassumption.
    rewrite (gcols_g_cur _ O). apply obs_inv in H. destruct H as (_ & _ & -> & _). reflexivity.
  - eapply input_mode_formatted_obs; eassumption.
  - eapply attributes_formatted_obs; eassumption.
Qed.

(* ------------------------------------------------------------------ *)
(* 3. C19_selfdiff                                                      *)
(* ------------------------------------------------------------------ *)

Lemma list_eqb_N_refl l : list_eqb N.eqb l l = true.
Proof. induction l as [|x l IH]; cbn [list_eqb]; [reflexivity|]. rewrite N.eqb_refl, IH. reflexivity. Qed.

Lemma attrs_eqb_refl a : attrs_eqb a a = true.
Proof. apply attrs_eqb_eq. reflexivity. Qed.

Lemma cell_eqb_refl c : cell_eqb c c = true.
Proof. unfold cell_eqb. rewrite list_eqb_N_refl, !eqb_reflx, attrs_eqb_refl. reflexivity. Qed.

(* a window in which every cell is skipped, entered with no open erase run,
   leaves the emitter state untouched (no arithmetic is performed at all) *)
Lemma emit_loop_all_skipped diffmode wrapping cols rowi : forall cs col pw e,
  Forall (fun p : cell * bool => snd p = true) cs -> eerase e = None ->
  emit_loop diffmode wrapping cols rowi cs col pw e = Ok e.
Proof.
  induction cs as [|[c skip] rest IH]; intros col pw e F He; cbn [emit_loop]; [reflexivity|].
  inversion F as [|? ? Hs Frest]; subst. cbn [snd] in Hs. subst skip.
  destruct pw; [now apply IH|].
  unfold emit_cell. rewrite He. cbn [bind]. now apply IH.
Qed.

Lemma Forall_window {A} (P : A -> Prop) start width l : Forall P l -> Forall P (window start width l).
Proof. intros F. unfold window. now apply Forall_firstnN, Forall_skipnN. Qed.

Lemma zip_self_skipped (cs : list cell) :
  Forall (fun p : cell * bool => snd p = true)
         (map (fun cp : cell * cell => (fst cp, cell_eqb (fst cp) (snd cp))) (zip cs cs)).
Proof.
  induction cs as [|c cs IH]; cbn [zip map]; constructor; [|exact IH]. cbn [fst snd]. apply cell_eqb_refl.
Qed.

Lemma map_window {A B} (f : A -> B) start width l : map f (window start width l) = window start width (map f l).
Proof. unfold window, firstnN, skipnN. rewrite skipn_map, firstn_map. reflexivity. Qed.

(* The row-level core.  No bound whatsoever is needed: the diff of a row against
   itself performs no checked arithmetic. *)
Theorem row_diff_self r start width rowi wrapping pr pc a :
  row_diff r r start width rowi wrapping wrapping (pr, pc) a = Ok ([], (pr, pc), a).
Proof.
  unfold row_diff. destruct (row_get r start) as [fc|]; [|reflexivity].
  cbv zeta. cbn [fst snd].
  replace (wrapping && negb wrapping) with false by (destruct wrapping; reflexivity).
  cbn [andb bind].
  rewrite map_window.
  rewrite emit_loop_all_skipped; [|apply Forall_window, zip_self_skipped|reflexivity].
  cbn [bind]. unfold finish_erase. cbn [eerase bind].
  rewrite eqb_reflx. cbn [negb bind eout er ec eattrs]. reflexivity.
Qed.

Lemma zip_self_cons {A} (x : A) l : zip (x :: l) (x :: l) = (x, x) :: zip l l.
Proof. reflexivity. Qed.

(* after the D10 repair the rows loop looks at column cols-2 of each pair of rows: a wide cell of
   prev there without contents in the current row switches the previous-wrap carry off.  For a row
   against itself that needs a wide cell without contents, which no well-formed cell is. *)
Definition wide_full_row (r : row) : Prop := Forall (fun c => cwide c = true -> has_contents c = true) (cells r).

Lemma row_wf_wide_full r : row_wf r -> wide_full_row r.
Proof. intros W. eapply Forall_impl'; [|exact W]. intros c Wc Hw. now apply wf_wide_has_contents. Qed.

Lemma clears_wrap_self cols rw : wide_full_row rw -> clears_wrap cols rw rw = false.
Proof.
  intros W. unfold clears_wrap, row_get. destruct (get (cells rw) (cols - 2)) as [c|] eqn:G.
  - destruct (cwide c) eqn:Ew; [|now rewrite andb_false_r].
    rewrite (Forall_get _ _ _ _ W G Ew). cbn [negb]. apply andb_false_r.
  - now rewrite andb_false_r.
Qed.

Lemma rows_diff_loop_self cols : forall vr i wrapping pos a acc, Forall wide_full_row vr ->
  rows_diff_loop cols (zip vr vr) i wrapping wrapping pos a acc = Ok (acc, pos, a).
Proof.
  induction vr as [|rw rest IH]; intros i wrapping [pr pc] a acc F; [reflexivity|].
  inversion F as [|? ? Frw Frest]; subst.
  rewrite zip_self_cons. cbn [rows_diff_loop]. rewrite row_diff_self. cbn [bind].
  rewrite (clears_wrap_self cols rw Frw). cbn [negb]. rewrite andb_true_r.
  rewrite IH by exact Frest. rewrite app_nil_r. reflexivity.
Qed.

Lemma visible_rows_wide_full x vr : grid_wf x -> visible_rows x = Ok vr -> Forall wide_full_row vr.
Proof.
  intros [Wl Ws] E. unfold visible_rows in E. bind_inv E. inv E.
  apply Forall_app; split; [apply Forall_firstnN, Forall_skipnN|apply Forall_firstnN];
    (eapply Forall_impl'; [|eassumption]); intros r; apply row_wf_wide_full.
Qed.

Lemma rows_diff_rows_self start width : forall vr i,
  rows_diff_rows (zip vr vr) start width i = Ok (repeatN [] (len vr)).
Proof.
  induction vr as [|rw rest IH]; intros i; [reflexivity|].
  rewrite zip_self_cons. cbn [rows_diff_rows]. rewrite row_diff_self. cbn [bind]. rewrite IH. cbn [bind].
  unfold repeatN, len. rewrite !Nnat.Nat2N.id. reflexivity.
Qed.

Lemma t_move_from_to_same r c : r <= POSMAX -> t_move_from_to r c r c = Ok [].
Proof.
  unfold POSMAX. intros H. unfold t_move_from_to. rewrite add16_ok by lia. cbn [bind].
  destruct (N.eqb_spec r (r + 1)) as [|_]; [lia|]. cbn [andb].
  rewrite !N.eqb_refl, N.ltb_irrefl. cbn [andb negb]. reflexivity.
Qed.

(* the cursor is already where it should be: nothing is written *)
Lemma cursor_position_formatted_same x pattrs : prow x <= POSMAX ->
  cursor_position_formatted x (Some (prow x, pcol x)) pattrs = Ok [].
Proof.
  intros H. unfold cursor_position_formatted. cbv zeta. rewrite !N.eqb_refl. cbn [andb negb].
  unfold move_opt. now apply t_move_from_to_same.
Qed.

Lemma t_attrs_diff_same a : t_attrs_diff a a = [].
Proof. unfold t_attrs_diff. rewrite (proj2 (sgr_diff_none_iff a a) eq_refl). reflexivity. Qed.

Lemma grid_ok_prow x : grid_ok x -> prow x <= POSMAX.
Proof.
  intros (K & Hr & _). destruct K as [Kr _ _ _ _ _ _ _ _ _ _]. unfold MAXDIM, POSMAX in *. lia.
Qed.

(* grid level, for two grids with equal observable part *)
Lemma grid_contents_diff_gobs x y vr pa : gobs_eq x y -> visible_rows y = Ok vr -> prow x <= POSMAX ->
  Forall wide_full_row vr ->
  grid_contents_diff x y pa = Ok ([], pa).
Proof.
  intros [Hv Hc Hr Hp] Ev Hb Hwf. unfold grid_contents_diff. rewrite Hv, Ev. cbn [bind].
  rewrite rows_diff_loop_self by exact Hwf. cbn [bind]. rewrite <- Hr, <- Hp.
  rewrite cursor_position_formatted_same by exact Hb. cbn [bind]. reflexivity.
Qed.

Lemma t_mouse_mode_same m : t_mouse_mode m m = [].
Proof. destruct m; reflexivity. Qed.
Lemma t_mouse_enc_same m : t_mouse_enc m m = [].
Proof. destruct m; reflexivity. Qed.

Lemma cur_wf_obs s : screen_wf s -> grid_wf (cur s).
Proof. intros [Wg Wa]. unfold cur. destruct (altmode s); assumption. Qed.

(* observationally equal pairs; only the first screen's invariant is used (for
   the single checked addition prow + 1 of MoveFromTo) *)
Theorem contents_diff_obs s1 s2 o : screen_ok s1 -> screen_wf s1 -> obs s1 = Ok o -> obs s2 = Ok o ->
  contents_diff_t s1 s2 = Ok [].
Proof.
  intros O1 W1 H1 H2. pose proof (obs_gobs_eq _ _ _ H1 H2) as E.
  apply obs_inv in H1. apply obs_inv in H2.
  destruct H1 as (A1 & _ & _ & _ & _ & A6 & A7 & _). destruct H2 as (B1 & _ & _ & _ & _ & B6 & B7 & _).
  unfold contents_diff_t.
  rewrite (grid_contents_diff_gobs _ _ _ _ E B1 (grid_ok_prow _ (cur_ok _ O1))
             (visible_rows_wide_full _ _ (cur_wf_obs _ W1) A1)). cbn [bind].
  rewrite A6, B6, A7, B7, eqb_reflx, t_attrs_diff_same. reflexivity.
Qed.

Theorem input_mode_diff_obs s1 s2 o : obs s1 = Ok o -> obs s2 = Ok o -> input_mode_diff_t s1 s2 = [].
Proof.
  intros H1 H2. apply obs_inv in H1. apply obs_inv in H2.
  destruct H1 as (_ & _ & _ & _ & _ & _ & _ & A8 & A9 & A10 & A11 & A12).
  destruct H2 as (_ & _ & _ & _ & _ & _ & _ & B8 & B9 & B10 & B11 & B12).
  unfold input_mode_diff_t. rewrite A8, A9, A10, A11, A12, B8, B9, B10, B11, B12.
  rewrite !eqb_reflx, t_mouse_mode_same, t_mouse_enc_same. reflexivity.
Qed.

Theorem state_diff_obs s1 s2 o : screen_ok s1 -> screen_wf s1 -> obs s1 = Ok o -> obs s2 = Ok o ->
  state_diff_t s1 s2 = Ok [].
Proof.
  intros O1 W1 H1 H2. unfold state_diff_t.
  rewrite (contents_diff_obs _ _ _ O1 W1 H1 H2), (input_mode_diff_obs _ _ _ H1 H2). reflexivity.
Qed.

(* one empty token list per visible row; needs no invariant *)
Theorem rows_diff_obs s1 s2 o start width : obs s1 = Ok o -> obs s2 = Ok o ->
  rows_diff_t s1 s2 start width = Ok (repeatN [] (len (o_vis o))).
Proof.
  intros H1 H2. apply obs_inv in H1. apply obs_inv in H2.
  destruct H1 as (A1 & _). destruct H2 as (B1 & _).
  unfold rows_diff_t. rewrite A1, B1. cbn [bind]. apply rows_diff_rows_self.
Qed.

Theorem C19_obsdiff s1 s2 o : screen_ok s1 -> screen_wf s1 -> screen_ok s2 -> obs s1 = Ok o -> obs s2 = Ok o ->
  contents_diff_t s1 s2 = Ok [] /\
  state_diff_t s1 s2 = Ok [] /\
  input_mode_diff_t s1 s2 = [] /\
  (forall start width, rows_diff_t s1 s2 start width = Ok (repeatN [] (grows (cur s1)))).
Proof.
  intros O1 W1 O2 H1 H2. repeat split.
  - eapply contents_diff_obs; eassumption.
  - eapply state_diff_obs; eassumption.
  - eapply input_mode_diff_obs; eassumption.
  - intros start width. rewrite (rows_diff_obs s1 s2 o start width H1 H2).
    destruct (obs_ok s1 O1) as (o' & E' & L). rewrite H1 in E'. inv E'.
    apply obs_inv in H1. destruct H1 as (_ & -> & _). rewrite L. reflexivity.
Qed.

(* a screen against itself (or against its clone: a clone is the same value) *)
Theorem C19_selfdiff s : screen_ok s -> screen_wf s ->
  contents_diff_t s s = Ok [] /\
  state_diff_t s s = Ok [] /\
  input_mode_diff_t s s = [] /\
  (forall start width, rows_diff_t s s start width = Ok (repeatN [] (grows (cur s)))).
Proof.
  intros O W. destruct (obs_ok s O) as (o & E & _). exact (C19_obsdiff s s o O W O E E).
Qed.

(* bytes: every diff serialises to the empty byte string *)
Lemma map_ser_all_repeat n : map ser_all (repeatN [] n) = repeatN [] n.
Proof. unfold repeatN. induction (N.to_nat n) as [|k IH]; cbn [repeat map]; [reflexivity|]. rewrite IH. reflexivity. Qed.

Corollary C19_selfdiff_bytes s : screen_ok s -> screen_wf s ->
  res_map ser_all (contents_diff_t s s) = Ok [] /\
  res_map ser_all (state_diff_t s s) = Ok [] /\
  ser_all (input_mode_diff_t s s) = [] /\
  (forall start width, res_map (map ser_all) (rows_diff_t s s start width) = Ok (repeatN [] (grows (cur s)))).
Proof.
  intros O W. destruct (C19_selfdiff s O W) as (A & B & C & D). rewrite A, B, C. repeat split.
  intros start width. rewrite D. cbn [res_map]. rewrite map_ser_all_repeat. reflexivity.
Qed.

(* ------------------------------------------------------------------ *)
(* 4. C19_concat                                                        *)
(* ------------------------------------------------------------------ *)

Theorem C19_concat_formatted s :
  state_formatted_t s = do ts <- contents_formatted_t s; Ok (ts ++ input_mode_formatted_t s).
Proof. reflexivity. Qed.

Theorem C19_concat_diff s prev :
  state_diff_t s prev = do ts <- contents_diff_t s prev; Ok (ts ++ input_mode_diff_t s prev).
Proof. reflexivity. Qed.

(* byte level: the bytes of state_* are the bytes of contents_* followed by the
   bytes of input_mode_* *)
Theorem C19_concat_formatted_bytes s :
  res_map ser_all (state_formatted_t s) =
  res_map (fun bs => bs ++ ser_all (input_mode_formatted_t s)) (res_map ser_all (contents_formatted_t s)).
Proof.
  unfold state_formatted_t. destruct (contents_formatted_t s) as [ts|k]; cbn [bind res_map]; [|reflexivity].
  rewrite ser_all_app. reflexivity.
Qed.

Theorem C19_concat_diff_bytes s prev :
  res_map ser_all (state_diff_t s prev) =
  res_map (fun bs => bs ++ ser_all (input_mode_diff_t s prev)) (res_map ser_all (contents_diff_t s prev)).
Proof.
  unfold state_diff_t. destruct (contents_diff_t s prev) as [ts|k]; cbn [bind res_map]; [|reflexivity].
  rewrite ser_all_app. reflexivity.
Qed.
