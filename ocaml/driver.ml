(* driver.ml — runs the same operation scripts as harness/src/bin/drive.rs on the
   extracted Coq model (model.ml) and prints the same canonical lines. *)
open Model

let rec pos_of_int (i : int) : positive =
  if i = 1 then XH
  else if i land 1 = 1 then XI (pos_of_int (i lsr 1))
  else XO (pos_of_int (i lsr 1))
let n_of_int (i : int) : n = if i = 0 then N0 else Npos (pos_of_int i)
let rec int_of_pos = function
  | XH -> 1
  | XO p -> 2 * int_of_pos p
  | XI p -> 2 * int_of_pos p + 1
let int_of_n = function N0 -> 0 | Npos p -> int_of_pos p

let unhex (s : string) : n list =
  let v c =
    match c with
    | '0' .. '9' -> Char.code c - 48
    | 'a' .. 'f' -> Char.code c - 87
    | 'A' .. 'F' -> Char.code c - 55
    | _ -> failwith "bad hex"
  in
  let rec go i acc =
    if i < 0 then acc
    else go (i - 2) (n_of_int ((v s.[i] * 16) + v s.[i + 1]) :: acc)
  in
  go (String.length s - 2) []

let hex_buf (b : Buffer.t) (l : n list) =
  List.iter (fun x -> Buffer.add_string b (Printf.sprintf "%02x" (int_of_n x))) l
let hex (l : n list) : string =
  let b = Buffer.create 64 in
  hex_buf b l;
  Buffer.contents b

exception Panicked of pk

let ok = function Ok a -> a | Panic k -> raise (Panicked k)

let color_str = function
  | CDefault -> "d"
  | CIdx i -> Printf.sprintf "i%d" (int_of_n i)
  | CRgb (r, g, b) -> Printf.sprintf "r%d.%d.%d" (int_of_n r) (int_of_n g) (int_of_n b)

let b2i b = if b then 1 else 0

let attrs_str (a : attrs) : string =
  if attrs_eqb a dflt then "-"
  else
    Printf.sprintf "%s,%s,%d,%d,%d,%d" (color_str a.fg) (color_str a.bg)
      (match a.inten with INormal -> 0 | IBold -> 1 | IDim -> 2)
      (b2i a.italic) (b2i a.underline) (b2i a.inverse)

let cell_str (c : cell) : string =
  if cell_eqb c cell_new then "_"
  else
    String.concat "." (List.map (fun x -> Printf.sprintf "%x" (int_of_n x)) c.ctext)
    ^ ":" ^ (if c.cwide then "w" else "") ^ (if c.ccont then "c" else "")
    ^ ":" ^ attrs_str c.cattrs

let row_dump (b : Buffer.t) (r : row) =
  Buffer.add_string b (Printf.sprintf "%d %d" (b2i r.wrapped) (List.length r.cells));
  if List.for_all (fun c -> cell_eqb c cell_new) r.cells then Buffer.add_string b " *"
  else List.iter (fun c -> Buffer.add_char b ' '; Buffer.add_string b (cell_str c)) r.cells;
  Buffer.add_char b '\n'

let grid_dump (b : Buffer.t) (name : string) (x : grid) =
  Buffer.add_string b
    (Printf.sprintf
       "GRID %s %d %d pos=%d,%d saved=%d,%d region=%d,%d origin=%d sorigin=%d cap=%d off=%d nlive=%d nsb=%d\n"
       name (int_of_n x.grows) (int_of_n x.gcols) (int_of_n x.prow) (int_of_n x.pcol)
       (int_of_n x.sprow) (int_of_n x.spcol) (int_of_n x.top) (int_of_n x.bot)
       (b2i x.origin) (b2i x.sorigin) (int_of_n x.sb_cap) (int_of_n x.sb_off)
       (List.length x.live) (List.length x.sb));
  List.iteri (fun i r -> Buffer.add_string b (Printf.sprintf "ROW S %d " i); row_dump b r) x.sb;
  List.iteri (fun i r -> Buffer.add_string b (Printf.sprintf "ROW L %d " i); row_dump b r) x.live

let mm_num = function MNone -> 0 | MPress -> 1 | MPressRelease -> 2 | MButtonMotion -> 3 | MAnyMotion -> 4
let me_num = function EDefault -> 0 | EUtf8 -> 1 | ESgr -> 2

let screen_dump (b : Buffer.t) (s : screen) =
  Buffer.add_string b
    (Printf.sprintf "SCREEN modes=%d%d%d%d%d mouse=%d enc=%d pen=%s spen=%s\n"
       (b2i s.paste) (b2i s.altmode) (b2i s.hide) (b2i s.appcur) (b2i s.keypad)
       (mm_num s.mmode) (me_num s.menc) (attrs_str s.pen) (attrs_str s.spen));
  grid_dump b "main" s.g;
  grid_dump b "alt" s.alt

(* observation through the model of the public accessors *)
let obs (b : Buffer.t) (s : screen) =
  let x = cur s in
  let rows = int_of_n x.grows and cols = int_of_n x.gcols in
  Buffer.add_string b
    (Printf.sprintf "OBS %d %d cur=%d,%d hide=%d alt=%d kp=%d ac=%d bp=%d mm=%d me=%d sb=%d pen=%s\n"
       rows cols (int_of_n x.prow) (int_of_n x.pcol) (b2i s.hide) (b2i s.altmode) (b2i s.keypad)
       (b2i s.appcur) (b2i s.paste) (mm_num s.mmode) (me_num s.menc) (int_of_n x.sb_off)
       (attrs_str s.pen));
  let vr = Array.of_list (ok (visible_rows x)) in
  let cell_at r c : cell option =
    if r < Array.length vr then List.nth_opt vr.(r).cells c else None
  in
  let wrapped_at r = if r < Array.length vr then vr.(r).wrapped else false in
  for r = 0 to rows - 1 do
    Buffer.add_string b (Printf.sprintf "OROW %d %d" r (b2i (wrapped_at r)));
    let all_default = ref true in
    let line = Buffer.create 64 in
    for c = 0 to cols - 1 do
      Buffer.add_char line ' ';
      match cell_at r c with
      | Some cl ->
        let cs = cell_str cl in
        if cs <> "_" then all_default := false;
        Buffer.add_string line cs
      | None -> all_default := false; Buffer.add_string line "NONE"
    done;
    if !all_default then Buffer.add_string b " *" else Buffer.add_buffer b line;
    Buffer.add_char b '\n'
  done;
  let some o = match o with Some _ -> '1' | None -> '0' in
  Buffer.add_string b "OOUT ";
  Buffer.add_char b (some (cell_at rows 0));
  Buffer.add_char b (some (cell_at 0 cols));
  Buffer.add_char b (some (cell_at rows cols));
  Buffer.add_char b (some (cell_at 65535 65535));
  Buffer.add_char b (if wrapped_at rows then '1' else '0');
  Buffer.add_char b '\n'

let opt_str = function Some x -> string_of_int (int_of_n x) | None -> "-"

let params_str (ps : n list list) : string =
  let s =
    String.concat ";"
      (List.map (fun p -> String.concat ":" (List.map (fun x -> string_of_int (int_of_n x)) p)) ps)
  in
  if s = "" then "-" else s

let osc_str (ps : n list list) : string =
  String.concat "" (List.map (fun p -> " x" ^ hex p) ps)

let event_str = function
  | EBell -> "EV bell"
  | EVisualBell -> "EV vbell"
  | EResize (r, c) -> Printf.sprintf "EV resize %d %d" (int_of_n r) (int_of_n c)
  | EIconName s -> "EV icon " ^ hex s
  | ETitle s -> "EV title " ^ hex s
  | EUnhChar c -> Printf.sprintf "EV char %d" (int_of_n c)
  | EUnhControl b -> Printf.sprintf "EV ctl %d" (int_of_n b)
  | EUnhEscape (i1, i2, b) -> Printf.sprintf "EV esc %s %s %d" (opt_str i1) (opt_str i2) (int_of_n b)
  | EUnhCsi (i1, i2, ps, c) ->
    Printf.sprintf "EV csi %s %s %s %d" (opt_str i1) (opt_str i2) (params_str ps) (int_of_n c)
  | EUnhOsc ps -> Printf.sprintf "EV osc %d%s" (List.length ps) (osc_str ps)

let inter_str (i : n list) = if i = [] then "-" else hex i

let action_str = function
  | APrint c -> Printf.sprintf "ACT print %d" (int_of_n c)
  | AExecute b -> Printf.sprintf "ACT exec %d" (int_of_n b)
  | AHook (ps, i, ign, c) ->
    Printf.sprintf "ACT hook %s %s %d %d" (params_str ps) (inter_str i) (b2i ign) (int_of_n c)
  | APut b -> Printf.sprintf "ACT put %d" (int_of_n b)
  | AUnhook -> "ACT unhook"
  | AOsc (ps, bell) -> Printf.sprintf "ACT osc %d %d%s" (b2i bell) (List.length ps) (osc_str ps)
  | ACsi (ps, i, ign, c) ->
    Printf.sprintf "ACT csi %s %s %d %d" (params_str ps) (inter_str i) (b2i ign) (int_of_n c)
  | AEsc (i, ign, b) -> Printf.sprintf "ACT esc %s %d %d" (inter_str i) (b2i ign) (int_of_n b)

type ctx = {
  mutable newargs : (n * n * n * bool) option;
  mutable ops : api_op list;   (* reversed *)
  mutable parser : parser0 option;
  snaps : (int, screen) Hashtbl.t;
  mutable vte : pstate option;
}

let get_p ctx = match ctx.parser with Some p -> p | None -> failwith "no parser"

let rows_out (b : Buffer.t) (tag : string) (rows : n list list) =
  List.iteri (fun i r -> Buffer.add_string b (Printf.sprintf "%s %d %s\n" tag i (hex r))) rows

let exec (ctx : ctx) (line : string) (b : Buffer.t) =
  let f = Array.of_list (List.filter (fun s -> s <> "") (String.split_on_char ' ' line)) in
  if Array.length f = 0 then ()
  else
    let num i = int_of_string f.(i) in
    let nn i = n_of_int (num i) in
    let bytes i = if Array.length f > i then unhex f.(i) else [] in
    match f.(0) with
    | "NEW" ->
      ctx.newargs <- Some (nn 1, nn 2, nn 3, f.(4) = "1");
      ctx.ops <- [];
      ctx.parser <- Some (ok (parser_new (nn 1) (nn 2) (nn 3) (f.(4) = "1")));
      Hashtbl.reset ctx.snaps
    | "FP" ->
      (match ctx.newargs with
       | Some (r, c, cap, rz) ->
         let v = fp_case r c cap rz (List.rev ctx.ops) in
         Buffer.add_string b ("FP " ^ String.concat " " (List.map (fun x -> string_of_int (int_of_n x)) v) ^ "\n")
       | None -> failwith "FP without NEW")
    | "P" -> ctx.ops <- OpProcess (bytes 1) :: ctx.ops; ctx.parser <- Some (ok (process (get_p ctx) (bytes 1)))
    | "W" ->
      ctx.ops <- OpWrite (bytes 1) :: ctx.ops;
      let q, k = ok (write (get_p ctx) (bytes 1)) in
      ctx.parser <- Some (flush q);
      Buffer.add_string b (Printf.sprintf "W %d same\n" (int_of_n k))
    | "SIZE" -> ctx.ops <- OpSetSize (nn 1, nn 2) :: ctx.ops; ctx.parser <- Some (ok (step (get_p ctx) (OpSetSize (nn 1, nn 2))))
    | "SB" -> ctx.ops <- OpSetScrollback (nn 1) :: ctx.ops; ctx.parser <- Some (ok (step (get_p ctx) (OpSetScrollback (nn 1))))
    | "SNAP" -> Hashtbl.replace ctx.snaps (num 1) (get_p ctx).scr
    | "DUMP" -> screen_dump b (get_p ctx).scr
    | "OBS" -> obs b (get_p ctx).scr
    | "LOG" ->
      let p = get_p ctx in
      List.iter (fun e -> Buffer.add_string b (event_str e); Buffer.add_char b '\n') p.log;
      Buffer.add_string b "LOGEND\n";
      ctx.parser <- Some { p with log = [] }
    | "FMT" ->
      let s = (get_p ctx).scr in
      let ts =
        match f.(1) with
        | "contents" -> ok (contents_formatted_t s)
        | "state" -> ok (state_formatted_t s)
        | "input" -> input_mode_formatted_t s
        | "attrs" -> attributes_formatted_t s
        | "cursor" -> ok (cursor_state_formatted_t s)
        | _ -> failwith "bad FMT"
      in
      Buffer.add_string b (Printf.sprintf "FMT %s %s\n" f.(1) (hex (ser_all ts)))
    | "DIFF" ->
      let s = (get_p ctx).scr in
      let prev = Hashtbl.find ctx.snaps (num 2) in
      let ts =
        match f.(1) with
        | "contents" -> ok (contents_diff_t s prev)
        | "state" -> ok (state_diff_t s prev)
        | "input" -> input_mode_diff_t s prev
        | _ -> failwith "bad DIFF"
      in
      Buffer.add_string b (Printf.sprintf "DIFF %s %s\n" f.(1) (hex (ser_all ts)))
    | "ROWSF" ->
      let s = (get_p ctx).scr in
      rows_out b "ROWSF" (List.map ser_all (ok (rows_formatted_t s (nn 1) (nn 2))))
    | "ROWSD" ->
      let s = (get_p ctx).scr in
      let prev = Hashtbl.find ctx.snaps (num 1) in
      rows_out b "ROWSD" (List.map ser_all (ok (rows_diff_t s prev (nn 2) (nn 3))))
    | "ROWS" ->
      let s = (get_p ctx).scr in
      rows_out b "ROWS" (List.map encode_str (ok (rows_text s (nn 1) (nn 2))))
    | "TEXT" ->
      let s = (get_p ctx).scr in
      Buffer.add_string b (Printf.sprintf "TEXT %s\n" (hex (encode_str (ok (contents_text s)))))
    | "BETWEEN" ->
      let s = (get_p ctx).scr in
      let t = ok (contents_between s (nn 1) (nn 2) (nn 3) (nn 4)) in
      Buffer.add_string b (Printf.sprintf "BETWEEN %s\n" (hex (encode_str t)))
    | "CELL" ->
      let s = (get_p ctx).scr in
      let vr = ok (visible_rows (cur s)) in
      let r = num 1 and c = num 2 in
      let row = List.nth_opt vr r in
      (match row with
       | Some rw ->
         (match List.nth_opt rw.cells c with
          | Some cl -> Buffer.add_string b (Printf.sprintf "CELL %s\n" (cell_str cl))
          | None -> Buffer.add_string b "CELL NONE\n")
       | None -> Buffer.add_string b "CELL NONE\n");
      Buffer.add_string b
        (Printf.sprintf "WRAPPED %d\n" (match row with Some rw -> b2i rw.wrapped | None -> 0))
    | "VIEWS" ->
      let s = (get_p ctx).scr in
      let rec go k =
        let c = screen_set_scrollback s (n_of_int k) in
        let off = int_of_n (cur c).sb_off in
        Buffer.add_string b (Printf.sprintf "VIEW %d %d\n" k off);
        obs b c;
        if off < k then () else go (k + 1)
      in
      go 0
    | "VNEW" -> ctx.vte <- Some p_init
    | "VP" ->
      let st = match ctx.vte with Some v -> v | None -> failwith "no vte" in
      let st', acts = advance st (bytes 1) in
      ctx.vte <- Some st';
      List.iter (fun a -> Buffer.add_string b (action_str a); Buffer.add_char b '\n') acts;
      Buffer.add_string b "ACTEND\n"
    | op -> failwith ("unknown op " ^ op)

let panic_str = function
  | POverflow -> "overflow"
  | PIndex -> "index"
  | PUnwrap -> "unwrap"
  | PUnreachable -> "unreachable"

let () =
  let path = Sys.argv.(1) in
  let ic = open_in path in
  let ctx = ref { newargs = None; ops = []; parser = None; snaps = Hashtbl.create 8; vte = None } in
  let dead = ref false in
  let out = Buffer.create 65536 in
  (try
     while true do
       let line = input_line ic in
       if String.length line >= 4 && String.sub line 0 4 = "CASE" then begin
         Buffer.add_string out line;
         Buffer.add_char out '\n';
         dead := false;
         ctx := { newargs = None; ops = []; parser = None; snaps = Hashtbl.create 8; vte = None }
       end
       else if !dead || (String.length line > 0 && line.[0] = '#') then ()
       else begin
         let b = Buffer.create 256 in
         (try
            exec !ctx line b;
            Buffer.add_buffer out b
          with Panicked k ->
            Buffer.add_string out ("PANIC " ^ panic_str k ^ "\n");
            dead := true)
       end;
       if Buffer.length out > 1_000_000 then begin
         print_string (Buffer.contents out);
         Buffer.clear out
       end
     done
   with End_of_file -> ());
  print_string (Buffer.contents out)
