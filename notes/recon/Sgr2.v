From Coq Require Import List NArith Bool Lia.
Import ListNotations.
Require Import Sgr.
Open Scope N_scope.

Inductive sgr_res := Cont (a:attrs) (rest: list (list N)) | Stop (a:attrs).
Definition single (p : list N) : option N := match p with [n] => Some n | _ => None end.
Definition rgb3 (r g b : N) (k : color -> sgr_res) (a:attrs) : sgr_res :=
  match u8 r, u8 g, u8 b with Some r, Some g, Some b => k (CRgb r g b) | _, _, _ => Stop a end.
Definition ext_color (rest : list (list N)) (a : attrs) (k : color -> list (list N) -> sgr_res) : sgr_res :=
  match rest with
  | [] => Stop a
  | p :: rest1 =>
    match single p with
    | Some n =>
      if n =? 2 then
        match rest1 with
        | pr :: pg :: pb :: rest2 =>
          match single pr, single pg, single pb with
          | Some r, Some g, Some b => match u8 r, u8 g, u8 b with Some r, Some g, Some b => k (CRgb r g b) rest2 | _,_,_ => Stop a end
          | _, _, _ => Stop a end
        | _ => Stop a end
      else if n =? 5 then
        match rest1 with
        | pi :: rest2 => match single pi with Some i => match u8 i with Some i => k (CIdx i) rest2 | None => Stop a end | None => Stop a end
        | [] => Stop a end
      else Stop a
    | None => Stop a end
  end.
Definition sgr1 (p : list N) (rest : list (list N)) (a : attrs) : sgr_res :=
  match p with
  | [n] =>
    if n =? 0 then Cont dflt rest else if n =? 1 then Cont (set_in IBold a) rest else if n =? 2 then Cont (set_in IDim a) rest
    else if n =? 3 then Cont (set_it true a) rest else if n =? 4 then Cont (set_ul true a) rest else if n =? 7 then Cont (set_inv true a) rest
    else if n =? 22 then Cont (set_in INormal a) rest else if n =? 23 then Cont (set_it false a) rest else if n =? 24 then Cont (set_ul false a) rest
    else if n =? 27 then Cont (set_inv false a) rest
    else if (30 <=? n) && (n <=? 37) then Cont (set_fg (CIdx (n-30)) a) rest
    else if n =? 38 then ext_color rest a (fun c r => Cont (set_fg c a) r)
    else if n =? 39 then Cont (set_fg CDefault a) rest
    else if (40 <=? n) && (n <=? 47) then Cont (set_bg (CIdx (n-40)) a) rest
    else if n =? 48 then ext_color rest a (fun c r => Cont (set_bg c a) r)
    else if n =? 49 then Cont (set_bg CDefault a) rest
    else if (90 <=? n) && (n <=? 97) then Cont (set_fg (CIdx (n-82)) a) rest
    else if (100 <=? n) && (n <=? 107) then Cont (set_bg (CIdx (n-92)) a) rest
    else Cont a rest
  | [x; y; i] => if (x =? 38) && (y =? 5) then match u8 i with Some i => Cont (set_fg (CIdx i) a) rest | None => Stop a end
                 else if (x =? 48) && (y =? 5) then match u8 i with Some i => Cont (set_bg (CIdx i) a) rest | None => Stop a end
                 else Cont a rest
  | [x; y; r; g; b] => if (x =? 38) && (y =? 2) then match u8 r, u8 g, u8 b with Some r, Some g, Some b => Cont (set_fg (CRgb r g b) a) rest | _,_,_ => Stop a end
                 else if (x =? 48) && (y =? 2) then match u8 r, u8 g, u8 b with Some r, Some g, Some b => Cont (set_bg (CRgb r g b) a) rest | _,_,_ => Stop a end
                 else Cont a rest
  | _ => Cont a rest
  end.
Fixpoint sgr_loop2 (fuel:nat) (ps : list (list N)) (a:attrs) : attrs :=
  match fuel with O => a | S fuel =>
    match ps with [] => a | p :: rest => match sgr1 p rest a with Cont a' rest' => sgr_loop2 fuel rest' a' | Stop a' => a' end end end.
Definition sgr2 ps a := match ps with [] => dflt | _ => sgr_loop2 (length ps) ps a end.

Ltac gsimp := repeat match goal with |- context[N.eqb ?a ?b] => is_ground a; is_ground b; let v := eval vm_compute in (N.eqb a b) in change (N.eqb a b) with v; cbv iota end.
(* fuel irrelevance is avoided by making fuel = length and showing rest' is a suffix; here: direct step lemmas *)
Lemma sgr1_fg c rest a : color_ok c ->
  exists k, forall fuel, sgr_loop2 (k + fuel) (enc_fg c ++ rest) a = sgr_loop2 fuel rest (set_fg c a) .
Proof.
  intros Hc. destruct c as [|i|r g b]; cbn [enc_fg color_ok] in *.
  - exists 1%nat. intros. reflexivity.
  - destruct (N.ltb_spec i 8) as [H8|H8]; [|destruct (N.ltb_spec i 16) as [H16|H16]].
    + exists 1%nat. intros. cbn [app plus sgr_loop2]. unfold sgr1.
      repeat match goal with |- context[?x =? ?y] => destruct (N.eqb_spec x y); [lia|] end.
      destruct (N.leb_spec 30 (i+30)); [|lia]. destruct (N.leb_spec (i+30) 37); [|lia]. cbn [andb].
      replace (i + 30 - 30) with i by lia. reflexivity.
    + exists 1%nat. intros. cbn [app plus sgr_loop2]. unfold sgr1.
      repeat match goal with |- context[?x =? ?y] => destruct (N.eqb_spec x y); [lia|] end.
      repeat match goal with |- context[?x <=? ?y] => destruct (N.leb_spec x y); try lia; cbn [andb] end.
      replace (i + 82 - 82) with i by lia. reflexivity.
    + exists 3%nat. intros. cbn [app plus sgr_loop2]. unfold sgr1 at 1. gsimp. cbn [ext_color single andb]. gsimp. unfold u8.
      destruct (N.leb_spec i 255); [|lia]. reflexivity.
  - destruct Hc as (Hr & Hg & Hb). exists 5%nat. intros. cbn [app plus sgr_loop2]. unfold sgr1 at 1. gsimp. cbn [ext_color single andb]. gsimp. unfold u8.
    destruct (N.leb_spec r 255); [|lia]. destruct (N.leb_spec g 255); [|lia]. destruct (N.leb_spec b 255); [|lia]. reflexivity.
Qed.
