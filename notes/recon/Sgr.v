From Coq Require Import List NArith Bool Lia.
Import ListNotations.
Open Scope N_scope.
Arguments N.add : simpl never. Arguments N.sub : simpl never. Arguments N.eqb : simpl never. Arguments N.ltb : simpl never. Arguments N.leb : simpl never.

Inductive color := CDefault | CIdx (i:N) | CRgb (r g b:N).
Inductive intensity := INormal | IBold | IDim.
Record attrs := { fg : color; bg : color; inten : intensity; italic : bool; underline : bool; inverse : bool }.
Definition dflt := {| fg:=CDefault; bg:=CDefault; inten:=INormal; italic:=false; underline:=false; inverse:=false |}.

Definition color_eqb (a b : color) : bool :=
  match a, b with
  | CDefault, CDefault => true
  | CIdx i, CIdx j => i =? j
  | CRgb r g b, CRgb r' g' b' => (r =? r') && (g =? g') && (b =? b')
  | _, _ => false end.
Definition inten_eqb a b := match a, b with INormal,INormal|IBold,IBold|IDim,IDim => true | _,_ => false end.
Definition attrs_eqb a b := color_eqb (fg a) (fg b) && color_eqb (bg a) (bg b) && inten_eqb (inten a) (inten b) && Bool.eqb (italic a) (italic b) && Bool.eqb (underline a) (underline b) && Bool.eqb (inverse a) (inverse b).

Definition set_fg c a := {| fg:=c; bg:=bg a; inten:=inten a; italic:=italic a; underline:=underline a; inverse:=inverse a |}.
Definition set_bg c a := {| fg:=fg a; bg:=c; inten:=inten a; italic:=italic a; underline:=underline a; inverse:=inverse a |}.
Definition set_in i a := {| fg:=fg a; bg:=bg a; inten:=i; italic:=italic a; underline:=underline a; inverse:=inverse a |}.
Definition set_it b a := {| fg:=fg a; bg:=bg a; inten:=inten a; italic:=b; underline:=underline a; inverse:=inverse a |}.
Definition set_ul b a := {| fg:=fg a; bg:=bg a; inten:=inten a; italic:=italic a; underline:=b; inverse:=inverse a |}.
Definition set_inv b a := {| fg:=fg a; bg:=bg a; inten:=inten a; italic:=italic a; underline:=underline a; inverse:=b |}.

(* params: list of list N (subparams). sgr as in screen.rs:1211 *)
Definition u8 (n:N) : option N := if n <=? 255 then Some n else None.

Fixpoint sgr_loop (fuel:nat) (ps : list (list N)) (a:attrs) : attrs :=
  match fuel with O => a | S fuel =>
  match ps with
  | [] => a
  | p :: rest =>
    match p with
    | [0] => sgr_loop fuel rest dflt
    | [1] => sgr_loop fuel rest (set_in IBold a)
    | [2] => sgr_loop fuel rest (set_in IDim a)
    | [3] => sgr_loop fuel rest (set_it true a)
    | [4] => sgr_loop fuel rest (set_ul true a)
    | [7] => sgr_loop fuel rest (set_inv true a)
    | [22] => sgr_loop fuel rest (set_in INormal a)
    | [23] => sgr_loop fuel rest (set_it false a)
    | [24] => sgr_loop fuel rest (set_ul false a)
    | [27] => sgr_loop fuel rest (set_inv false a)
    | [38; 2; r; g; b] => match u8 r, u8 g, u8 b with Some r, Some g, Some b => sgr_loop fuel rest (set_fg (CRgb r g b) a) | _,_,_ => a end
    | [38; 5; i] => match u8 i with Some i => sgr_loop fuel rest (set_fg (CIdx i) a) | None => a end
    | [38] => match rest with
              | [2] :: [r] :: [g] :: [b] :: rest' => match u8 r, u8 g, u8 b with Some r, Some g, Some b => sgr_loop fuel rest' (set_fg (CRgb r g b) a) | _,_,_ => a end
              | [5] :: [i] :: rest' => match u8 i with Some i => sgr_loop fuel rest' (set_fg (CIdx i) a) | None => a end
              | _ => a end
    | [39] => sgr_loop fuel rest (set_fg CDefault a)
    | [48; 2; r; g; b] => match u8 r, u8 g, u8 b with Some r, Some g, Some b => sgr_loop fuel rest (set_bg (CRgb r g b) a) | _,_,_ => a end
    | [48; 5; i] => match u8 i with Some i => sgr_loop fuel rest (set_bg (CIdx i) a) | None => a end
    | [48] => match rest with
              | [2] :: [r] :: [g] :: [b] :: rest' => match u8 r, u8 g, u8 b with Some r, Some g, Some b => sgr_loop fuel rest' (set_bg (CRgb r g b) a) | _,_,_ => a end
              | [5] :: [i] :: rest' => match u8 i with Some i => sgr_loop fuel rest' (set_bg (CIdx i) a) | None => a end
              | _ => a end
    | [49] => sgr_loop fuel rest (set_bg CDefault a)
    | [n] => if (30 <=? n) && (n <=? 37) then sgr_loop fuel rest (set_fg (CIdx (n-30)) a)
             else if (40 <=? n) && (n <=? 47) then sgr_loop fuel rest (set_bg (CIdx (n-40)) a)
             else if (90 <=? n) && (n <=? 97) then sgr_loop fuel rest (set_fg (CIdx (n-82)) a)
             else if (100 <=? n) && (n <=? 107) then sgr_loop fuel rest (set_bg (CIdx (n-92)) a)
             else sgr_loop fuel rest a
    | _ => sgr_loop fuel rest a
    end
  end end.
Definition sgr ps a := match ps with [] => dflt | _ => sgr_loop (S (length ps)) ps a end.

(* encoder: attrs.rs write_escape_code_diff + term.rs Attrs::write_buf, at param level *)
Definition enc_fg c := match c with CDefault => [[39]] | CIdx i => if i <? 8 then [[i+30]] else if i <? 16 then [[i+82]] else [[38];[5];[i]] | CRgb r g b => [[38];[2];[r];[g];[b]] end.
Definition enc_bg c := match c with CDefault => [[49]] | CIdx i => if i <? 8 then [[i+40]] else if i <? 16 then [[i+92]] else [[48];[5];[i]] | CRgb r g b => [[48];[2];[r];[g];[b]] end.
Definition enc_diff (self other : attrs) : option (list (list N)) :=
  if negb (attrs_eqb self other) && attrs_eqb self dflt then Some [] (* ESC [ m *)
  else
    let l := (if color_eqb (fg self) (fg other) then [] else enc_fg (fg self)) ++
             (if color_eqb (bg self) (bg other) then [] else enc_bg (bg self)) ++
             (if inten_eqb (inten self) (inten other) then [] else match inten self with INormal => [[22]] | IBold => [[1]] | IDim => [[2]] end) ++
             (if Bool.eqb (italic self) (italic other) then [] else [[if italic self then 3 else 23]]) ++
             (if Bool.eqb (underline self) (underline other) then [] else [[if underline self then 4 else 24]]) ++
             (if Bool.eqb (inverse self) (inverse other) then [] else [[if inverse self then 7 else 27]]) in
    match l with [] => None | _ => Some l end.
Definition apply_diff (d : option (list (list N))) a := match d with None => a | Some ps => sgr ps a end.

Definition color_ok c := match c with CDefault => True | CIdx i => i <= 255 | CRgb r g b => r <= 255 /\ g <= 255 /\ b <= 255 end.
Definition attrs_ok a := color_ok (fg a) /\ color_ok (bg a).
