use std::panic;
struct Rng(u64);
impl Rng { fn next(&mut self) -> u64 { self.0 ^= self.0 << 13; self.0 ^= self.0 >> 7; self.0 ^= self.0 << 17; self.0 } fn below(&mut self, n: u64) -> u64 { self.next() % n } fn pick<'a, T>(&mut self, v: &'a [T]) -> &'a T { &v[self.below(v.len() as u64) as usize] } }
fn esc(b: &[u8]) -> String { let mut s = String::new(); for &c in b { match c { 27 => s.push_str("\\e"), 32..=126 => s.push(c as char), _ => { s.push_str(&format!("\\x{:02x}", c)); } } } s }
fn frag(r: &mut Rng, rows: u16, cols: u16, alt: bool) -> Vec<u8> {
    let p = |r: &mut Rng| -> String { match r.below(6) { 0 => String::new(), 1 => "1".into(), 2 => format!("{}", rows), 3 => format!("{}", cols), 4 => "300".into(), _ => format!("{}", r.below(8)) } };
    match r.below(30) {
        0..=9 => { let n = 1 + r.below(7); (0..n).map(|_| b'a' + r.below(26) as u8).collect() }
        10..=11 => r.pick(&["あ", "世", "😀"]).as_bytes().to_vec(),
        12 => r.pick(&["\u{301}", "\u{200b}"]).as_bytes().to_vec(),
        13..=14 => vec![*r.pick(&[8u8, 9, 10, 13, 10, 10])],
        15 => b"\r\n".to_vec(),
        16..=20 => { let f = *r.pick(&['@','A','B','C','D','E','F','G','J','K','L','M','P','S','T','X','d']); format!("\x1b[{}{}", p(r), f).into_bytes() }
        21 => format!("\x1b[{};{}H", p(r), p(r)).into_bytes(),
        22 => format!("\x1b[{};{}r", p(r), p(r)).into_bytes(),
        23 => format!("\x1b[{}m", r.pick(&["", "1", "31", "42", "7", "38;5;100"])).into_bytes(),
        24 => r.pick(&[&b"\x1b7"[..], b"\x1b8", b"\x1bM", b"\x1bM"]).to_vec(),
        25 => format!("\x1b[?{}{}", r.pick(&["1","6","25","2004","1000","1006"]), r.pick(&['h','l'])).into_bytes(),
        26 => if alt { format!("\x1b[?{}{}", r.pick(&["47","1049"]), r.pick(&['h','l'])).into_bytes() } else { vec![] },
        _ => b" ".to_vec(),
    }
}
fn obs(s: &vt100::Screen) -> String {
    let (rows, cols) = s.size(); let mut o = String::new();
    for r in 0..rows { for c in 0..cols { let cell = s.cell(r,c).unwrap(); o.push_str(&format!("{:?}{}{}{:?}{:?}{}{}{}{}{}|", cell.contents(), cell.is_wide() as u8, cell.is_wide_continuation() as u8, cell.fgcolor(), cell.bgcolor(), cell.bold() as u8, cell.dim() as u8, cell.italic() as u8, cell.underline() as u8, cell.inverse() as u8)); } o.push_str(&format!("w{}\n", s.row_wrapped(r) as u8)); }
    o
}
fn views(s: &vt100::Screen, maxoff: usize) -> String { let mut o = String::new(); let mut c = s.clone(); for k in 0..=maxoff { c.set_scrollback(k); o.push_str(&format!("off{}:{}\n", c.scrollback(), obs(&c))); } o }
// independent projection for C14
fn row_text(s: &vt100::Screen, r: u16, start: u16, width: u16) -> (String, bool) {
    let (_, cols) = s.size(); let mut out = String::new(); let mut pending_spaces = 0usize; let mut skip = false; let mut any = false;
    let end = (start as u32 + width as u32).min(cols as u32) as u16;
    let mut c = start; while c < end { let cell = s.cell(r, c).unwrap(); if skip { skip = false; c += 1; continue; } if cell.is_wide() { skip = true; }
        if cell.has_contents() { for _ in 0..pending_spaces { out.push(' '); } pending_spaces = 0; out.push_str(cell.contents()); any = true; } else { pending_spaces += 1; } c += 1; }
    (out, any)
}
fn main() {
    panic::set_hook(Box::new(|_| {}));
    let mut r = Rng(0xDEADBEEFCAFEF00D);
    let mut fails: std::collections::BTreeMap<String,(usize,String)> = Default::default();
    for it in 0..150000u64 {
        let rows = 2 + r.below(4) as u16; let cols = 2 + r.below(6) as u16; let cap = *r.pick(&[0usize, 1, 2, 5, 50]);
        let n = 1 + r.below(14); let mut input = vec![]; for _ in 0..n { input.extend(frag(&mut r, rows, cols, true)); }
        let mut exc = vec![]; let m = 1 + r.below(8); for _ in 0..m { let f = frag(&mut r, rows, cols, false); if f != b"\x1bc" { exc.extend(f); } }
        let entry = *r.pick(&["47", "1049"]); let exit = *r.pick(&["47", "1049"]);
        let sboff = r.below(4) as usize;
        let res = panic::catch_unwind(|| -> Option<(String,String)> {
            let mut p = vt100::Parser::new(rows, cols, cap);
            p.process(&input);
            p.screen_mut().set_scrollback(sboff);
            let s = p.screen().clone();
            // C14 contents()
            {
                let mut exp = String::new();
                for rr in 0..rows { let (t, any) = row_text(&s, rr, 0, cols); 
                    let _ = any; exp.push_str(&t);
                    let next_nonempty = rr + 1 < rows && row_text(&s, rr+1, 0, cols).1;
                    if !(s.row_wrapped(rr) && next_nonempty) { exp.push('\n'); } }
                while exp.ends_with('\n') { exp.pop(); }
                if exp != s.contents() { return Some(("c14-contents".into(), format!("got {:?} want {:?}", s.contents(), exp))); }
                let start = (it % (cols as u64 + 2)) as u16; let width = ((it / 11) % (cols as u64 + 3)) as u16;
                for (i, got) in s.rows(start, width).enumerate() { let (t, _) = row_text(&s, i as u16, start, width); if got != t { return Some(("c14-rows".into(), format!("start={} width={} row={} got {:?} want {:?}", start, width, i, got, t))); } }
            }
            // C17
            {
                let mut q = vt100::Parser::new(rows, cols, cap); q.process(&input); q.screen_mut().set_scrollback(sboff); q.process(b"\x1bc");
                let mut f = vt100::Parser::new(rows, cols, cap);
                q.process(&exc); f.process(&exc);
                let a = format!("{}{:?}{:?}{}", views(q.screen(), cap+1), q.screen().cursor_position(), q.screen().state_formatted(), q.screen().alternate_screen());
                let b = format!("{}{:?}{:?}{}", views(f.screen(), cap+1), f.screen().cursor_position(), f.screen().state_formatted(), f.screen().alternate_screen());
                if a != b { return Some(("c17".into(), format!("suffix={}", esc(&exc)))); }
            }
            // C11 isolation (only if currently on primary)
            if !s.alternate_screen() {
                let before = views(&s, cap + 1);
                let cur_before = s.cursor_position();
                let mut q = vt100::Parser::new(rows, cols, cap); q.process(&input); q.screen_mut().set_scrollback(sboff);
                q.process(format!("\x1b[?{}h", entry).as_bytes());
                if q.screen().scrollback() != 0 { return Some(("c11-offset-not-reset".into(), String::new())); }
                q.process(&exc);
                let mut a = q.screen().clone(); a.set_scrollback(1000); if a.scrollback() != 0 { return Some(("c11-alt-has-scrollback".into(), String::new())); }
                q.process(format!("\x1b[?{}l", exit).as_bytes());
                let mut after_s = q.screen().clone();
                // offset was reset to 0 by entry: compare views (all offsets) which is offset independent
                let after = views(&after_s, cap + 1);
                if before != after { return Some((format!("c11-primary-changed entry={} exit={}", entry, exit), format!("exc={}", esc(&exc)))); }
                if exit == "1049" && entry == "1049" && after_s.cursor_position() != cur_before { return Some(("c11-1049-cursor".into(), format!("exc={} got {:?} want {:?}", esc(&exc), after_s.cursor_position(), cur_before))); }
                after_s.set_scrollback(0);
            }
            None
        });
        let key = match res { Err(_) => Some(("panic".to_string(), String::new())), Ok(x) => x };
        if let Some((k, d)) = key { let desc = format!("{}x{} cap={} off={} in={} {}", rows, cols, cap, sboff, esc(&input), d); let e = fails.entry(k).or_insert((0,String::new())); e.0 += 1; if e.1.is_empty() || desc.len() < e.1.len() { e.1 = desc; } }
    }
    for (k,(n,d)) in &fails { println!("{} x{}\n    {}", k, n, &d[..d.len().min(700)]); }
    println!("done");
}
