fn main() {
    let mut p = vt100::Parser::new(2, 10, 0);
    p.process("éAé".as_bytes());
    println!("whole: {:?}", p.screen().contents());
    let b = "éAé".as_bytes();
    let mut p = vt100::Parser::new(2, 10, 0);
    p.process(&b[..1]); p.process(&b[1..]);
    println!("split after byte 1: {:?}", p.screen().contents());
}
