use std::panic;
struct Rng(u64);
impl Rng { fn next(&mut self) -> u64 { self.0 ^= self.0 << 13; self.0 ^= self.0 >> 7; self.0 ^= self.0 << 17; self.0 } fn below(&mut self, n: u64) -> u64 { self.next() % n } fn pick<'a, T>(&mut self, v: &'a [T]) -> &'a T { &v[self.below(v.len() as u64) as usize] } }
thread_local!{ static LOC: std::cell::RefCell<String> = std::cell::RefCell::new(String::new()); }
fn esc(b: &[u8]) -> String { let mut s = String::new(); for &c in b { match c { 27 => s.push_str("\\e"), 32..=126 => s.push(c as char), _ => { s.push_str(&format!("\\x{:02x}", c)); } } } s }
fn main() {
    panic::set_hook(Box::new(|info| { let loc = format!("{} @ {}", info.payload().downcast_ref::<String>().cloned().or_else(|| info.payload().downcast_ref::<&str>().map(|s| s.to_string())).unwrap_or_default(), info.location().map(|l| format!("{}:{}", l.file(), l.line())).unwrap_or_default()); LOC.with(|c| *c.borrow_mut() = loc); }));
    let mut r = Rng(88172645463325252);
    let frags: Vec<&[u8]> = vec![b"abc", b"xy", "世".as_bytes(), "😀".as_bytes(), b"\x1b7", b"\x1b8", b"\x1b[?1049h", b"\x1b[?1049l", b"\x1b[?47h", b"\x1b[?47l", b"\x1b[2;3r", b"\x1b[r", b"\r\n", b"\n", b"\x1bM", b"\x1b[H", b"\x1b[99;99H", b"\x1b[2;2H", b"\x1b[L", b"\x1b[M", b"\x1b[S", b"\x1b[T", b"\x1b[@", b"\x1b[P", b"\x1b[X", b"\x1b[K", b"\x1b[J", b"\x1b[1J", b"\x1b[?6h", b"\x1b[?6l", b"\x1b[3;4r", b"\x1b[1;2r", b"\xcc\x81", b"\x1b[A", b"\x1b[B", b"\x1b[C", b"\x1b[D", b"\x1b[99C", b"\x1b[99B"];
    let mut fails: std::collections::BTreeMap<String,(usize,String)> = Default::default();
    for _it in 0..300000u64 {
        let rows = 2 + r.below(4) as u16; let cols = 2 + r.below(5) as u16;
        let n = 1 + r.below(10);
        let mut script: Vec<(Option<(u16,u16)>, Vec<u8>)> = vec![];
        let mut nresize = 0;
        for _ in 0..n {
            if r.below(4) == 0 { script.push((Some((2 + r.below(5) as u16, 2 + r.below(6) as u16)), vec![])); nresize += 1; }
            else { script.push((None, r.pick(&frags).to_vec())); }
        }
        if nresize == 0 { continue; }
        let res = panic::catch_unwind(|| -> Option<String> {
            let mut p = vt100::Parser::new(rows, cols, 3);
            for (rs, b) in &script {
                if let Some((a,c)) = rs { p.screen_mut().set_size(*a,*c); } else { p.process(b); }
                let s = p.screen();
                let (rr, cc) = s.size();
                let (cr, ccol) = s.cursor_position();
                if cr >= rr || ccol > cc { return Some(format!("cursor-oob")); }
                for r_ in 0..rr { for c in 0..cc {
                    let cell = match s.cell(r_, c) { Some(c) => c, None => return Some("cell-none".into()) };
                    if cell.is_wide() { if c + 1 >= cc { return Some("wide-lastcol".into()); } if !s.cell(r_, c+1).unwrap().is_wide_continuation() { return Some("wide-nocont".into()); } }
                    if cell.is_wide_continuation() { if c == 0 || !s.cell(r_, c-1).unwrap().is_wide() { return Some("cont-noprev".into()); } }
                }
                    if s.row_wrapped(r_) { let last = s.cell(r_, cc-1).unwrap(); if !last.has_contents() && !last.is_wide_continuation() { return Some("wrapped-but-lastcol-empty".into()); } }
                }
                let _ = s.contents_formatted(); let _ = s.contents();
            }
            None
        });
        let key = match res { Err(_) => Some(format!("panic: {}", LOC.with(|c| c.borrow().clone()))), Ok(x) => x };
        if let Some(k) = key {
            let desc = format!("{}x{} {}", rows, cols, script.iter().map(|(rs,b)| match rs { Some((a,c)) => format!("[size {}x{}]", a, c), None => esc(b) }).collect::<Vec<_>>().join(" "));
            let e = fails.entry(k).or_insert((0,String::new())); e.0 += 1; if e.1.is_empty() || desc.len() < e.1.len() { e.1 = desc; }
        }
    }
    for (k,(n,d)) in &fails { println!("{} x{}\n    {}", k, n, d); }
}
