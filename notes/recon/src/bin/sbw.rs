use std::panic;
struct Rng(u64);
impl Rng { fn next(&mut self) -> u64 { self.0 ^= self.0 << 13; self.0 ^= self.0 >> 7; self.0 ^= self.0 << 17; self.0 } fn below(&mut self, n: u64) -> u64 { self.next() % n } }
thread_local!{ static LOC: std::cell::RefCell<String> = std::cell::RefCell::new(String::new()); }
fn main() {
    panic::set_hook(Box::new(|info| { let loc = format!("{} @ {}", info.payload().downcast_ref::<String>().cloned().or_else(|| info.payload().downcast_ref::<&str>().map(|s| s.to_string())).unwrap_or_default(), info.location().map(|l| format!("{}:{}", l.file(), l.line())).unwrap_or_default()); LOC.with(|c| *c.borrow_mut() = loc); }));
    let mut r = Rng(777777777);
    let mut fails: std::collections::BTreeMap<String,(usize,String)> = Default::default();
    for _ in 0..100000 {
        let rows = 2 + r.below(3) as u16; let cols = 2 + r.below(6) as u16;
        let nc = 2 + r.below(7) as u16; let nr = 2 + r.below(4) as u16; let off = r.below(6) as usize;
        let mut text = vec![]; for _ in 0..(r.below(40)) { match r.below(8) { 0 => text.extend(b"\r\n"), 1 => text.extend("世".as_bytes()), 2 => text.extend(b"\x1b[41m"), 3 => text.extend(b"\x1b[K"), _ => text.push(b'a' + r.below(26) as u8) } }
        let mut text2 = vec![]; for _ in 0..(r.below(20)) { match r.below(8) { 0 => text2.extend(b"\r\n"), 1 => text2.extend("世".as_bytes()), _ => text2.push(b'a' + r.below(26) as u8) } }
        let desc = format!("{}x{} -> {}x{} off={} text={:?} text2={:?}", rows, cols, nr, nc, off, String::from_utf8_lossy(&text), String::from_utf8_lossy(&text2));
        let res = panic::catch_unwind(|| {
            let mut p = vt100::Parser::new(rows, cols, 10);
            p.process(&text);
            let before = p.screen().clone();
            p.screen_mut().set_size(nr, nc);
            p.process(&text2);
            p.screen_mut().set_scrollback(off);
            let s = p.screen().clone();
            let _ = s.contents(); let _ = s.contents_formatted(); let _ = s.state_formatted(); let _ = s.cursor_state_formatted();
            let _: Vec<_> = s.rows(0, nc).collect(); let _: Vec<_> = s.rows_formatted(0, nc).collect(); let _: Vec<_> = s.rows(1, 2).collect(); let _: Vec<_> = s.rows_formatted(1, 1).collect();
            let mut q = vt100::Parser::new(nr, nc, 10); q.process(&text2); q.screen_mut().set_scrollback(off);
            let t = q.screen().clone();
            let _ = s.contents_diff(&t); let _ = t.contents_diff(&s); let _: Vec<_> = s.rows_diff(&t, 0, nc).collect(); let _: Vec<_> = t.rows_diff(&s, 0, nc).collect(); let _: Vec<_> = t.rows_diff(&s, 1, 1).collect();
            let _ = s.contents_between(0, 0, nr - 1, nc); let _ = s.contents_between(0, 1, nr-1, 1);
            for rr in 0..nr { for cc in 0..nc+1 { let _ = s.cell(rr, cc); } }
            let _ = before;
        });
        if res.is_err() { let k = LOC.with(|c| c.borrow().clone()); let e = fails.entry(k).or_insert((0,String::new())); e.0 += 1; if e.1.is_empty() || desc.len() < e.1.len() { e.1 = desc; } }
    }
    for (k,(n,d)) in &fails { println!("{} x{}\n    {}", k, n, d); }
    println!("done");
}
