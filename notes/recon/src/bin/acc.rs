use std::panic;
fn main() {
    panic::set_hook(Box::new(|info| { eprintln!("  PANIC {} @ {}", info.payload().downcast_ref::<String>().cloned().or_else(|| info.payload().downcast_ref::<&str>().map(|s| s.to_string())).unwrap_or_default(), info.location().map(|l| format!("{}:{}", l.file(), l.line())).unwrap_or_default()); }));
    let mut p = vt100::Parser::new(3, 5, 2);
    p.process(b"ab\xe4\xb8\x96cde\r\nxyz\r\n1\r\n2\r\n3");
    let s = p.screen().clone();
    let t = |name: &str, f: &dyn Fn()| { eprintln!("{}", name); let _ = panic::catch_unwind(panic::AssertUnwindSafe(|| f())); };
    t("cell(3,5)", &|| { let _ = s.cell(3,5); let _ = s.cell(65535,65535); });
    t("row_wrapped(65535)", &|| { let _ = s.row_wrapped(65535); });
    t("rows(5,1)", &|| { let _ : Vec<_> = s.rows(5,1).collect(); });
    t("rows(65535,65535)", &|| { let _ : Vec<_> = s.rows(65535,65535).collect(); });
    t("rows(2,65535)", &|| { let _ : Vec<_> = s.rows(2,65535).collect(); });
    t("rows_formatted(5,1)", &|| { let _ : Vec<_> = s.rows_formatted(5,1).collect(); });
    t("rows_formatted(4,0)", &|| { let _ : Vec<_> = s.rows_formatted(4,0).collect(); });
    t("rows_formatted(2,65535)", &|| { let _ : Vec<_> = s.rows_formatted(2,65535).collect(); });
    t("rows_diff(5,1)", &|| { let _ : Vec<_> = s.rows_diff(&s,5,1).collect(); });
    t("contents_between(0,6,1,0)", &|| { let _ = s.contents_between(0,6,1,0); });
    t("contents_between(0,0,65535,65535)", &|| { let _ = s.contents_between(0,0,65535,65535); });
    t("contents_between(1,9,1,10)", &|| { let _ = s.contents_between(1,9,1,10); });
    // timing
    for (r,c) in [(50u16,132u16)] {
        for f in ['@','L','T','S','M','P','X','A','B','C','D','E','F','G','d','J','K'] {
            let mut p = vt100::Parser::new(r, c, 1000);
            p.process(b"hello\x1b[5;5H");
            let t0 = std::time::Instant::now();
            p.process(format!("\x1b[65535{}", f).as_bytes());
            let dt = t0.elapsed();
            if dt.as_micros() > 200 { eprintln!("CSI 65535 {} on {}x{}: {:?}", f, r, c, dt); }
        }
        let mut p = vt100::Parser::new(r, c, 1000);
        let t0 = std::time::Instant::now();
        p.process(b"\x1b[65535;65535H\x1b[65535;65535r\x1b[1;65535r");
        eprintln!("misc {:?}", t0.elapsed());
    }
}
