struct Rng(u64);
impl Rng { fn next(&mut self) -> u64 { self.0 ^= self.0 << 13; self.0 ^= self.0 >> 7; self.0 ^= self.0 << 17; self.0 } fn below(&mut self, n: u64) -> u64 { self.next() % n } }
#[derive(Default)]
struct Cb(Vec<String>);
impl vt100::Callbacks for Cb {
    fn audible_bell(&mut self, _: &mut vt100::Screen) { self.0.push("bel".into()); }
    fn visual_bell(&mut self, _: &mut vt100::Screen) { self.0.push("vbel".into()); }
    fn resize(&mut self, _: &mut vt100::Screen, r: (u16,u16)) { self.0.push(format!("resize {:?}", r)); }
    fn set_window_icon_name(&mut self, _: &mut vt100::Screen, s: &[u8]) { self.0.push(format!("icon {:?}", s)); }
    fn set_window_title(&mut self, _: &mut vt100::Screen, s: &[u8]) { self.0.push(format!("title {:?}", s)); }
    fn unhandled_char(&mut self, _: &mut vt100::Screen, c: char) { self.0.push(format!("char {:?}", c)); }
    fn unhandled_control(&mut self, _: &mut vt100::Screen, b: u8) { self.0.push(format!("ctl {:02x}", b)); }
    fn unhandled_escape(&mut self, _: &mut vt100::Screen, a: Option<u8>, b: Option<u8>, c: u8) { self.0.push(format!("esc {:?} {:?} {:02x}", a, b, c)); }
    fn unhandled_csi(&mut self, _: &mut vt100::Screen, a: Option<u8>, b: Option<u8>, p: &[&[u16]], c: char) { self.0.push(format!("csi {:?} {:?} {:?} {:?}", a, b, p, c)); }
    fn unhandled_osc(&mut self, _: &mut vt100::Screen, p: &[&[u8]]) { self.0.push(format!("osc {:?}", p)); }
}
fn run(chunks: &[&[u8]]) -> (Vec<u8>, String, Vec<String>) {
    let mut p = vt100::Parser::new_with_callbacks(4, 6, 3, Cb::default());
    for c in chunks { p.process(c); }
    (p.screen().state_formatted(), p.screen().contents(), p.callbacks().0.clone())
}
fn main() {
    let mut r = Rng(0x1234567887654321);
    let alphabet: Vec<u8> = vec![0x1b, b'[', b']', b';', b':', b'?', b'0', b'1', b'9', b'm', b'H', b'A', b'a', b' ', 0x07, 0x18, 0x1a, 0x9c, 0x80, 0x85, 0xc2, 0xc3, 0xe2, 0x82, 0xac, 0xf0, 0x9f, 0x98, 0x80, 0xe4, 0xb8, 0x96, 0xff, 0xc0, 0xed, 0xa0, b'P', b'\\', b'X', b'^', b'_', 0x7f, b'\n', b'$', b'c', 0xcc, 0x81];
    let mut k4 = 0; let mut bad = 0; let mut c1 = 0; let mut shown = 0;
    for _ in 0..300000 {
        let n = 1 + r.below(10) as usize;
        let s: Vec<u8> = (0..n).map(|_| alphabet[r.below(alphabet.len() as u64) as usize]).collect();
        let whole = run(&[&s]);
        for cut in 1..n {
            let split = run(&[&s[..cut], &s[cut..]]);
            if split != whole {
                // classify: C1 via C2 xx
                let is_c1 = s[cut-1] == 0xc2 && (0x80..0xa0).contains(&s[cut]);
                let k04a = (0xc2..=0xdf).contains(&s[cut-1]) && cut + 2 < n && (0x80..0xc0).contains(&s[cut]) && s[cut+1] < 0x80 && s[cut+2] >= 0x80;
                if k04a { k4 += 1; continue; }
                if is_c1 { c1 += 1; } else { bad += 1; if shown < 8 { shown += 1; println!("DIFF s={:02x?} cut={} whole={:?} split={:?}", s, cut, whole.2, split.2); } }
            }
        }
    }
    println!("c1-class diffs {}, k04a-class diffs {}, other diffs {}", c1, k4, bad);
}
