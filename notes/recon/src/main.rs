use std::panic;
use std::fmt::Write as _;

struct Rng(u64);
impl Rng {
    fn next(&mut self) -> u64 { self.0 ^= self.0 << 13; self.0 ^= self.0 >> 7; self.0 ^= self.0 << 17; self.0 }
    fn below(&mut self, n: u64) -> u64 { self.next() % n }
    fn pick<'a, T>(&mut self, v: &'a [T]) -> &'a T { &v[self.below(v.len() as u64) as usize] }
}

fn param(r: &mut Rng, rows: u16, cols: u16) -> String {
    match r.below(10) {
        0 => String::new(),
        1 => "0".into(),
        2 => "1".into(),
        3 => format!("{}", rows),
        4 => format!("{}", cols),
        5 => format!("{}", rows + 1),
        6 => format!("{}", cols + 1),
        7 => if r.below(20)==0 {"65535".into()} else {"300".into()},
        _ => format!("{}", r.below((rows.max(cols) + 2) as u64)),
    }
}

fn gen_op(r: &mut Rng, rows: u16, cols: u16, out: &mut Vec<u8>, allow_alt: bool) {
    match r.below(40) {
        0..=11 => { // ascii text
            let n = r.below(6) + 1;
            for _ in 0..n { out.push(b'a' + r.below(26) as u8); }
        }
        12..=14 => { let s = *r.pick(&["あ", "世", "😀", "ｗ"]); out.extend(s.as_bytes()); }
        15 => { let s = *r.pick(&["\u{301}", "\u{200b}", "\u{fe0f}", "\u{308}"]); out.extend(s.as_bytes()); }
        16 => out.push(*r.pick(&[8u8, 9, 10, 11, 12, 13])),
        17 => out.extend(b"\r\n"),
        18..=24 => { // CSI single param
            let f = *r.pick(&['@','A','B','C','D','E','F','G','J','K','L','M','P','S','T','X','d']);
            let p = param(r, rows, cols);
            write!(unsafe{std::str::from_utf8_unchecked(&[])}.to_string(), "").ok();
            out.extend(format!("\x1b[{}{}", p, f).as_bytes());
        }
        25..=26 => { let a = param(r, rows, cols); let b = param(r, rows, cols); out.extend(format!("\x1b[{};{}H", a, b).as_bytes()); }
        27 => { let a = param(r, rows, cols); let b = param(r, rows, cols); out.extend(format!("\x1b[{};{}r", a, b).as_bytes()); }
        28..=30 => { // SGR
            let s = *r.pick(&["", "0", "1", "2", "3", "4", "7", "22", "23", "24", "27", "31", "42", "39", "49", "38;5;100", "48;2;1;2;3", "95", "104", "1;31;44"]);
            out.extend(format!("\x1b[{}m", s).as_bytes());
        }
        31 => out.extend(*r.pick(&[&b"\x1b7"[..], b"\x1b8", b"\x1bM", b"\x1b=", b"\x1b>"])),
        32 => out.extend(b"\x1bM"),
        33 => { let m = *r.pick(&["1","6","9","25","1000","1002","1003","1005","1006","2004"]); let hl = *r.pick(&['h','l']); out.extend(format!("\x1b[?{}{}", m, hl).as_bytes()); }
        34 => { if allow_alt { let m = *r.pick(&["47","1049"]); let hl = *r.pick(&['h','l']); out.extend(format!("\x1b[?{}{}", m, hl).as_bytes()); } }
        35 => { let hl = *r.pick(&['h','l']); out.extend(format!("\x1b[?6{}", hl).as_bytes()); }
        36 => { if r.below(8) == 0 { out.extend(b"\x1bc"); } }
        37 => { let p = param(r, rows, cols); out.extend(format!("\x1b[{}X", p).as_bytes()); }
        38 => { out.extend(b"\x1b[K"); }
        _ => { out.push(b' '); }
    }
}

#[derive(PartialEq, Eq, Debug, Clone)]
struct Obs { cells: Vec<String>, wraps: Vec<bool>, cur: (u16,u16), hide: bool, pen: String, modes: String }

fn observe(s: &vt100::Screen, ignore_last_wrap: bool) -> Obs {
    let (rows, cols) = s.size();
    let mut cells = vec![];
    for r in 0..rows { for c in 0..cols {
        let cell = s.cell(r, c);
        cells.push(match cell { None => "NONE".to_string(), Some(cell) => format!("{:?}|{}{}|{:?}|{:?}|{}{}{}{}{}", cell.contents(), cell.is_wide() as u8, cell.is_wide_continuation() as u8, cell.fgcolor(), cell.bgcolor(), cell.bold() as u8, cell.dim() as u8, cell.italic() as u8, cell.underline() as u8, cell.inverse() as u8) });
    }}
    let mut wraps: Vec<bool> = (0..rows).map(|r| s.row_wrapped(r)).collect();
    if ignore_last_wrap { let n = wraps.len(); wraps[n-1] = false; }
    Obs { cells, wraps, cur: s.cursor_position(), hide: s.hide_cursor(),
        pen: format!("{:?}|{:?}|{}{}{}{}{}", s.fgcolor(), s.bgcolor(), s.bold() as u8, s.dim() as u8, s.italic() as u8, s.underline() as u8, s.inverse() as u8),
        modes: format!("{}{}{}|{:?}|{:?}", s.application_keypad() as u8, s.application_cursor() as u8, s.bracketed_paste() as u8, s.mouse_protocol_mode(), s.mouse_protocol_encoding()) }
}

fn esc(b: &[u8]) -> String { let mut s = String::new(); for &c in b { match c { 27 => s.push_str("\\e"), 32..=126 => s.push(c as char), _ => { write!(s, "\\x{:02x}", c).unwrap(); } } } s }

fn kind(a:&Obs,b:&Obs)->String{ let mut k=String::new(); if a.cells!=b.cells {k.push_str("cells,");} if a.wraps!=b.wraps {k.push_str("wraps,");} if a.cur!=b.cur {k.push_str("cur,");} if a.hide!=b.hide {k.push_str("hide,");} if a.pen!=b.pen {k.push_str("pen,");} if a.modes!=b.modes {k.push_str("modes,");} k }
fn diffobs(a: &Obs, b: &Obs, cols: u16) -> String {
    let mut s = String::new();
    for (i,(x,y)) in a.cells.iter().zip(b.cells.iter()).enumerate() { if x != y { write!(s, "cell({},{}) got {} want {}; ", i as u16 / cols, i as u16 % cols, x, y).unwrap(); } }
    if a.wraps != b.wraps { write!(s, "wraps got {:?} want {:?}; ", a.wraps, b.wraps).unwrap(); }
    if a.cur != b.cur { write!(s, "cur got {:?} want {:?}; ", a.cur, b.cur).unwrap(); }
    if a.hide != b.hide { s.push_str("hide; "); }
    if a.pen != b.pen { write!(s, "pen got {} want {}; ", a.pen, b.pen).unwrap(); }
    if a.modes != b.modes { write!(s, "modes got {} want {}; ", a.modes, b.modes).unwrap(); }
    s
}

thread_local!{ static LOC: std::cell::RefCell<String> = std::cell::RefCell::new(String::new()); }
fn main() {
    let args: Vec<String> = std::env::args().collect();
    let mode = args.get(1).map(|s| s.as_str()).unwrap_or("c01");
    let iters: u64 = args.get(2).and_then(|s| s.parse().ok()).unwrap_or(20000);
    let allow_alt = args.get(3).map(|s| s == "alt").unwrap_or(false);
    panic::set_hook(Box::new(|info| { let loc = info.location().map(|l| format!("{}:{}", l.file(), l.line())).unwrap_or_default(); LOC.with(|c| *c.borrow_mut() = loc); }));
    let mut r = Rng(0x9E3779B97F4A7C15);
    let mut fails: std::collections::BTreeMap<String, (usize, String)> = Default::default();
    for it in 0..iters {
        let minsz: u64 = std::env::var("MINSZ").ok().and_then(|s| s.parse().ok()).unwrap_or(1); let rows = (minsz + r.below(5)) as u16; let cols = (minsz + r.below(7)) as u16;
        let sb = *r.pick(&[0usize, 0, 1, 3, 10]);
        let nops = 1 + r.below(12);
        let mut input = vec![];
        for _ in 0..nops { gen_op(&mut r, rows, cols, &mut input, allow_alt); }
        let mut input2 = vec![];
        let nops2 = 1 + r.below(6);
        for _ in 0..nops2 { gen_op(&mut r, rows, cols, &mut input2, allow_alt); }
        let sboff = if std::env::var("NOSB").is_err() && sb > 0 && r.below(4) == 0 { r.below(4) as usize } else { 0 };
        let res = panic::catch_unwind(|| -> Option<(String,String)> {
            let mut p = vt100::Parser::new(rows, cols, sb);
            p.process(&input);
            p.screen_mut().set_scrollback(sboff);
            let s = p.screen().clone();
            match mode {
                "c01" => {
                    let f = s.state_formatted();
                    let mut q = vt100::Parser::new(rows, cols, 0);
                    q.process(&f);
                    let a = observe(q.screen(), s.scrollback() > 0); let b = observe(&s, s.scrollback() > 0);
                    if a != b { return Some((format!("c01-mismatch {}", kind(&a,&b)), format!("fmt={} :: {}", esc(&f), diffobs(&a,&b,cols)))); }
                    let f2 = q.screen().state_formatted();
                    if f2 != f && s.scrollback()==0 { return Some(("c01-reemit".into(), format!("fmt={} re={}", esc(&f), esc(&f2)))); }
                }
                "c02" => {
                    p.process(&input2);
                    let s2 = p.screen().clone();
                    let mut q = vt100::Parser::new(rows, cols, 0);
                    q.process(&s.state_formatted());
                    let d = s2.state_diff(&s);
                    q.process(&d);
                    let a = observe(q.screen(), s2.scrollback() > 0); let b = observe(&s2, s2.scrollback() > 0);
                    let sw = (0..rows).any(|r_| s2.row_wrapped(r_)); let pw = (0..rows).any(|r_| s.row_wrapped(r_)); let pend = s2.cursor_position().1 == cols; let ppend = s.cursor_position().1 == cols;
                    if a != b { return Some((format!("c02-mismatch {} Swrapped={} Pwrapped={} Spending={} Ppending={}", kind(&a,&b), sw, pw, pend, ppend), format!("in2={} prevfmt={} diff={} :: {}", esc(&input2), esc(&s.state_formatted()), esc(&d), diffobs(&a,&b,cols)))); }
                }
                "c02u" => {
                    let mut p2 = vt100::Parser::new(rows, cols, sb);
                    p2.process(&input2);
                    let s2 = p2.screen().clone();
                    let mut q = vt100::Parser::new(rows, cols, 0);
                    q.process(&s.state_formatted());
                    let d = s2.state_diff(&s);
                    q.process(&d);
                    let a = observe(q.screen(), false); let b = observe(&s2, false);
                    let sw = (0..rows).any(|r_| s2.row_wrapped(r_)); let pw = (0..rows).any(|r_| s.row_wrapped(r_)); let pend = s2.cursor_position().1 == cols; let ppend = s.cursor_position().1 == cols;
                    if a != b { return Some((format!("c02u-mismatch {} Swrapped={} Pwrapped={} Spending={} Ppending={}", kind(&a,&b), sw, pw, pend, ppend), format!("in2={} prevfmt={} diff={} :: {}", esc(&input2), esc(&s.state_formatted()), esc(&d), diffobs(&a,&b,cols)))); }
                }
                "c01d" => {
                    let mut p2 = vt100::Parser::new(rows, cols, sb);
                    p2.process(&input2);
                    let mut q = vt100::Parser::new(rows, cols, 0);
                    q.process(&p2.screen().contents_formatted());
                    q.process(&s.contents_formatted());
                    let mut a = observe(q.screen(), s.scrollback() > 0); let mut b = observe(&s, s.scrollback() > 0);
                    a.modes.clear(); b.modes.clear();
                    if a != b { return Some((format!("c01d-mismatch {}", kind(&a,&b)), format!("in2={} :: {}", esc(&input2), diffobs(&a,&b,cols)))); }
                }
                "c15" => {
                    let mut inp: Vec<u8> = vec![];
                    let mut wrapped = false;
                    for (idx, row) in s.rows_formatted(0, cols).enumerate() {
                        inp.extend(b"\x1b[m");
                        if !wrapped { inp.extend(format!("\x1b[{}H", idx + 1).as_bytes()); }
                        inp.extend(row);
                        wrapped = s.row_wrapped(idx as u16);
                    }
                    inp.extend(b"\x1b[m");
                    inp.extend(s.cursor_state_formatted());
                    inp.extend(s.attributes_formatted());
                    inp.extend(s.input_mode_formatted());
                    let mut q = vt100::Parser::new(rows, cols, 0);
                    q.process(&inp);
                    let a = observe(q.screen(), s.scrollback() > 0); let b = observe(&s, s.scrollback() > 0);
                    if a != b { return Some((format!("c15-mismatch {}", kind(&a,&b)), format!("fmt={} :: {}", esc(&inp), diffobs(&a,&b,cols)))); }
                }
                "c15w" => {
                    // sub-window
                    let start = (it % (cols as u64)) as u16; let width = 1 + ((it / 7) % ((cols - start) as u64)) as u16;
                    // alignment: window edges must not split wide chars
                    for r_ in 0..rows { if s.cell(r_, start).unwrap().is_wide_continuation() { return None; } if s.cell(r_, start+width-1).unwrap().is_wide() { return None; } }
                    let mut q = vt100::Parser::new(rows, cols, 0);
                    for (idx, row) in s.rows_formatted(start, width).enumerate() {
                        q.process(format!("\x1b[m\x1b[{};{}H", idx + 1, start + 1).as_bytes());
                        q.process(&row);
                    }
                    for r_ in 0..rows { for c in start..start+width {
                        let x = format!("{:?}", q.screen().cell(r_, c)); let y = format!("{:?}", s.cell(r_, c));
                        if q.screen().cell(r_, c) != s.cell(r_, c) { return Some(("c15w-mismatch".into(), format!("start={} width={} cell({},{}) got {} want {}", start, width, r_, c, x, y))); }
                    }}
                }
                "c13" => {
                    let (cr, cc) = s.cursor_position();
                    if cr >= rows || cc > cols { return Some(("c13-cursor".into(), format!("{:?}", (cr,cc)))); }
                    for r_ in 0..rows { if s.row_wrapped(r_) { let last = s.cell(r_, cols-1).unwrap(); if !last.has_contents() && !last.is_wide_continuation() { return Some(("inv-wrapped-lastcol-empty".into(), String::new())); } } }
                    for r_ in 0..rows { for c in 0..cols { let cell = s.cell(r_, c).unwrap(); if cell.is_wide() && cell.is_wide_continuation() { return Some(("inv-wide-and-cont".into(), String::new())); } if cell.is_wide_continuation() && (cell.fgcolor() != vt100::Color::Default || cell.bgcolor() != vt100::Color::Default || cell.bold() || cell.dim() || cell.italic() || cell.underline() || cell.inverse()) { return Some(("inv-cont-nondefault-attrs".into(), String::new())); } if cell.is_wide() && !cell.has_contents() { return Some(("inv-wide-empty".into(), String::new())); } if cell.contents().len() > 21 { return Some(("inv-len".into(), String::new())); } } }
                    for r_ in 0..rows { for c in 0..cols {
                        let cell = s.cell(r_, c).unwrap();
                        if cell.is_wide() { if c + 1 >= cols { return Some(("c13-wide-lastcol".into(), String::new())); } if !s.cell(r_, c+1).unwrap().is_wide_continuation() { return Some(("c13-wide-nocont".into(), String::new())); } }
                        if cell.is_wide_continuation() { if cell.has_contents() { return Some(("c13-cont-nonempty".into(), String::new())); } if c == 0 || !s.cell(r_, c-1).unwrap().is_wide() { return Some(("c13-cont-noprev".into(), String::new())); } }
                    }}
                }
                _ => {}
            }
            None
        });
        let key = match res { Err(e) => { let msg = e.downcast_ref::<String>().cloned().or_else(|| e.downcast_ref::<&str>().map(|s| s.to_string())).unwrap_or_default(); Some((format!("panic: {} @ {}", msg, LOC.with(|c| c.borrow().clone())), String::new())) } Ok(x) => x };
        if let Some((k, detail)) = key {
            let e = fails.entry(k).or_insert((0, String::new()));
            e.0 += 1;
            let desc = format!("it={} {}x{} sb={} off={} in={} {}", it, rows, cols, sb, sboff, esc(&input), detail);
            if e.1.is_empty() || desc.len() < e.1.len() { e.1 = desc; }
        }
    }
    for (k, (n, d)) in &fails { println!("{} x{}\n    {}", k, n, d); }
    println!("done {} iters, {} failure classes", iters, fails.len());
}
