Require Import VT.explore.Gen.
Require Import List NArith. Import ListNotations. Open Scope N_scope.
Definition scs := Eval vm_compute in map snd (all_screens [Ia;Iskip;Iw] 3 3 0).
Eval vm_compute in length scs.
Time Eval vm_compute in explore scs 0 722.
