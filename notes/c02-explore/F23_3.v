Require Import VT.explore.Gen2.
Require Import List NArith. Import ListNotations. Open Scope N_scope.
Definition scs := Eval vm_compute in map snd (all_screens [Ia;Iskip;Iw] 2 3 3).
Eval vm_compute in length scs.
Time Eval vm_compute in explore scs 1350 10000000.
