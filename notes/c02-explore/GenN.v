(* exploration harness for the repaired model: depends on the model files only *)
Require Import Base Utf8 Attrs Cell Row Grid Screen Vte Perform Parser Term Emit.
Require Import List NArith Bool. Import ListNotations.
Open Scope N_scope.

Record observation := mkObs { o_vis : list row; o_cur : N * N; o_hide : bool; o_pen : attrs }.
Definition obs (s : screen) : res observation :=
  do vr <- visible_rows (cur s);
  Ok (mkObs vr (prow (cur s), pcol (cur s)) (hide s) (pen s)).
Definition reproduce (Pr : screen) : res parser :=
  do r <- parser_new (grows (cur Pr)) (gcols (cur Pr)) 0 false;
  do ts <- state_formatted_t Pr;
  process r (ser_all ts).
Definition after (rows cols : N) (bs : list N) : res screen :=
  do p <- parser_new rows cols 0 false; do q <- process p bs; Ok (scr q).

Inductive item := Ia | Ib | Iskip | Ired | Iw.
Definition item_bytes (i : item) : list N :=
  match i with
  | Ia => [97] | Ib => [27;91;51;50;109;98;27;91;109]
  | Iskip => [27;91;67]
  | Ired => [27;91;52;49;109;27;91;88;27;91;109;27;91;67]
  | Iw => [228;184;173]
  end.
Definition is_w (i : item) : bool := match i with Iw => true | _ => false end.
Definition occupies (i : item) : bool := match i with Ia | Ib | Iw => true | _ => false end.

Fixpoint rows_of (alpha : list item) (n : nat) : list (list item) :=
  match n with
  | O => [[]]
  | S k =>
    let narrow := flat_map (fun r => map (fun it => r ++ [it]) (filter (fun it => negb (is_w it)) alpha)) (rows_of alpha k) in
    match k with
    | O => narrow
    | S k2 => narrow ++ (if existsb is_w alpha then map (fun r => r ++ [Iw]) (rows_of alpha k2) else [])
    end
  end.

Definition last_occ (r : list item) : bool := match rev r with it :: _ => occupies it | [] => false end.
Definition last_item (r : list item) : option item := match rev r with it :: _ => Some it | [] => None end.

(* a screen spec: rows with wrap requests, top to bottom *)
Definition spec := list (list item * bool).

(* all specs with R rows: wrap allowed on a row that is not the last and whose last item occupies *)
Fixpoint specs (alpha : list item) (cols : nat) (R : nat) : list spec :=
  match R with
  | O => [[]]
  | S k =>
    flat_map (fun r =>
      flat_map (fun rest =>
        ((r, false) :: rest) ::
        (match k with O => [] | _ => if last_occ r then [((r, true) :: rest)] else [] end))
        (specs alpha cols k))
      (rows_of alpha cols)
  end.

Definition cup (r c : N) : list N := ser (TCsi false [r + 1; c + 1] 72).
Definition ech1 : list N := ser (TCsi false [] 88).

Fixpoint spec_bytes (sp : spec) (i : N) (prevwrap : bool) : list N :=
  match sp with
  | [] => []
  | (r, w) :: rest =>
    cup i 0 ++ (if prevwrap then ech1 else []) ++ flat_map item_bytes r ++ (if w then [113] else [])
    ++ spec_bytes rest (i + 1) w
  end.

(* cursor suffixes: home; last row last column (not pending); pending at the end of row k when its last item is a or W *)
Definition pend_suffix (cols : N) (k : N) (r : list item) : list (list N) :=
  match last_item r with
  | Some Ia => [cup k (cols - 1) ++ [97]]
  | Some Iw => [cup k (cols - 2) ++ [228;184;173]]
  | _ => []
  end.
Fixpoint pend_all (cols : N) (sp : spec) (k : N) : list (list N) :=
  match sp with
  | [] => []
  | (r, _) :: rest => pend_suffix cols k r ++ pend_all cols rest (k + 1)
  end.
Definition suffixes0 (rows cols : N) (sp : spec) (curs : N) : list (list N) :=
  (* curs = 0: home only; 1: home + last; 2: + pending variants *)
  [cup 0 0] ++ (if 1 <=? curs then [cup (rows - 1) (cols - 1)] else [])
  ++ (if 2 <=? curs then pend_all cols sp 0 else []).

Definition all_pos (rows cols : N) : list (list N) :=
  flat_map (fun r => map (fun c => cup (N.of_nat r) (N.of_nat c)) (seq 0 (N.to_nat cols))) (seq 0 (N.to_nat rows)).
Definition suffixes (rows cols : N) (sp : spec) (curs : N) : list (list N) :=
  if curs =? 3 then all_pos rows cols ++ pend_all cols sp 0 else suffixes0 rows cols sp curs.

Definition all_bytes (alpha : list item) (rows cols : nat) (curs : N) : list (list N) :=
  flat_map (fun sp => map (fun sf => spec_bytes sp 0 false ++ sf) (suffixes (N.of_nat rows) (N.of_nat cols) sp curs))
           (specs alpha cols rows).

Definition ok_or_nil {A} (r : res A) : list A := match r with Ok a => [a] | Panic _ => [] end.
Definition all_screens (alpha : list item) (rows cols : nat) (curs : N) : list (list N * screen) :=
  flat_map (fun bs => map (fun s => (bs, s)) (ok_or_nil (after (N.of_nat rows) (N.of_nat cols) bs)))
           (all_bytes alpha rows cols curs).

(* ---- comparison ---- *)
Definition cells_eqb (a b : list cell) : bool :=
  (len a =? len b) && forallb (fun q : cell * cell => cell_eqb (fst q) (snd q)) (zip a b).
Definition rows_cells_eqb (a b : list row) : bool :=
  (len a =? len b) && forallb (fun p : row * row => cells_eqb (cells (fst p)) (cells (snd p))) (zip a b).
Definition flags_eqb (a b : list row) : bool :=
  forallb (fun p : row * row => Bool.eqb (wrapped (fst p)) (wrapped (snd p))) (zip a b).

(* code: 0 ok; +1 cells; +2 flags; +4 cursor; +8 hide/pen; 16 = error *)
Definition code (o1 o2 : observation) : N :=
  (if rows_cells_eqb (o_vis o1) (o_vis o2) then 0 else 1) +
  (if flags_eqb (o_vis o1) (o_vis o2) then 0 else 2) +
  (if (fst (o_cur o1) =? fst (o_cur o2)) && (snd (o_cur o1) =? snd (o_cur o2)) then 0 else 4) +
  (if Bool.eqb (o_hide o1) (o_hide o2) && attrs_eqb (o_pen o1) (o_pen o2) then 0 else 8).

Definition chk_pair (rp : res parser) (P S : screen) : N :=
  match rp with
  | Ok r =>
    match state_diff_t S P with
    | Ok ts => match process r (ser_all ts) with
               | Ok r' => match obs (scr r'), obs S with
                          | Ok o1, Ok o2 => code o1 o2
                          | _, _ => 16
                          end
               | _ => 16
               end
    | _ => 16
    end
  | _ => 16
  end.

(* ---- the conjectured failure predicate ---- *)
Definition cellat (r : row) (c : N) : cell := match get (cells r) c with Some x => x | None => cell_new end.
Fixpoint k10_rows (cols : N) (pv sv : list row) : bool :=
  match pv, sv with
  | p :: ((p1 :: _) as prest), s :: ((s1 :: _) as srest) =>
    (wrapped p && wrapped s && cwide (cellat p (cols - 2)) && negb (has_contents (cellat s (cols - 2)))
     && cell_eqb (cellat p1 0) (cellat s1 0))
    || k10_rows cols prest srest
  | _, _ => false
  end.
Definition k10c (P S : screen) : bool :=
  (2 <=? gcols (cur P)) && k10_rows (gcols (cur P)) (live (cur P)) (live (cur S)).

(* statistics: counts per (code, k10) and the first few examples of every class *)
Definition bump (key : N * bool) (ex : N * N) (acc : list (N * bool * N * list (N * N))) :=
  let fix go (l : list (N * bool * N * list (N * N))) :=
    match l with
    | [] => [(key, 1, [ex])]
    | (k, n, exs) :: rest =>
      if (fst k =? fst key) && Bool.eqb (snd k) (snd key)
      then (k, n + 1, if n <? 6 then ex :: exs else exs) :: rest
      else (k, n, exs) :: go rest
    end in go acc.

Definition explore (scs : list screen) (lo hi : N) :=
  let idx := combine (map N.of_nat (seq 0 (length scs))) scs in
  fold_left (fun acc ip =>
     if (lo <=? fst ip) && (fst ip <? hi) then
       let rp := reproduce (snd ip) in
       fold_left (fun acc js =>
          let c := chk_pair rp (snd ip) (snd js) in
          let k := k10c (snd ip) (snd js) in
          if (c =? 0) && negb k then acc else bump (c, k) (fst ip, fst js) acc) idx acc
     else acc) idx [].
