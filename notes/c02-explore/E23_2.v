Require Import VT.explore.Gen.
Require Import List NArith. Import ListNotations. Open Scope N_scope.
Definition scs := Eval vm_compute in map snd (all_screens [Ia;Iskip;Ired;Iw] 2 3 2).
Eval vm_compute in length scs.
Time Eval vm_compute in explore scs 1840 2760.
