// Seeded generators of operation scripts (DESIGN 4.2).  Every random choice
// comes from one xorshift state, so a (family, seed, index) triple replays exactly.
use crate::{hex, Rng};
use std::fmt::Write as _;

pub struct Case {
    pub lines: Vec<String>,
}

#[derive(Clone, Copy)]
pub struct Dim {
    pub rows: u16,
    pub cols: u16,
}

pub fn pick_size(r: &mut Rng, min: u16) -> Dim {
    match r.below(40) {
        0 => Dim { rows: 24, cols: 80 },
        1 => Dim { rows: 50, cols: 132 },
        2 => Dim { rows: 1, cols: 1 },
        3 => Dim { rows: 1, cols: 1 + r.below(8) as u16 },
        4 => Dim { rows: 1 + r.below(6) as u16, cols: 1 },
        _ => Dim { rows: min.max(1 + r.below(6) as u16), cols: min.max(1 + r.below(8) as u16) },
    }
}

pub fn pick_cap(r: &mut Rng, rows: u16) -> usize {
    match r.below(10) {
        0..=2 => 0,
        3 => 1,
        4 => 2,
        5 => usize::from(rows.saturating_sub(1)),
        6 => usize::from(rows),
        7 => usize::from(rows) + 2,
        8 => 1000,
        _ => 5,
    }
}

pub fn param(r: &mut Rng, d: Dim) -> String {
    match r.below(16) {
        0 => String::new(),
        1 => "0".into(),
        2 | 3 => "1".into(),
        4 => "2".into(),
        5 => format!("{}", d.rows.saturating_sub(1)),
        6 => format!("{}", d.rows),
        7 => format!("{}", d.rows + 1),
        8 => format!("{}", d.cols.saturating_sub(1)),
        9 => format!("{}", d.cols),
        10 => format!("{}", d.cols + 1),
        11 => (*r.pick(&["255", "256", "65535", "65536", "99999", "300"])).into(),
        12 => {
            // a parameter with sub-parameters (vte keeps them in one slot; vt100 reads the first)
            let base = r.below(u64::from(d.rows.max(d.cols)) + 3);
            if r.chance(1, 2) { format!("{}:{}", base, r.below(4)) } else { format!("{}:{}:{}", base, r.below(300), r.below(3)) }
        }
        _ => format!("{}", r.below(u64::from(d.rows.max(d.cols)) + 3)),
    }
}

const WIDE: &[&str] = &["あ", "世", "😀", "ｗ", "界", "🎉"];
const ZERO: &[&str] = &["\u{301}", "\u{200b}", "\u{fe0f}", "\u{308}", "\u{200d}", "\u{20dd}"];
const LATIN: &[&str] = &["é", "ß", "ñ", "¡", "ÿ", "Ω", "ж", "\u{a0}", "\u{ad}"];
const ODD: &[&str] = &["\u{378}", "\u{7f}", "\u{85}", "\u{9f}", "\u{80}", "\u{fffd}", "\u{e000}", "\u{10ffff}", "\u{2028}", "\u{1f1e6}", "\u{115f}", "\u{3000}", "\u{17d8}", "\u{ad}", "\u{200e}", "\u{2060}", "\u{feff}", "\u{1160}"];

pub const SGR: &[&str] = &[
    "", "0", "1", "2", "3", "4", "7", "22", "23", "24", "27", "30", "31", "37", "39", "40", "42", "47", "49", "90", "97",
    "100", "104", "107", "38;5;100", "38;5;7", "38;5;12", "48;5;255", "48;2;1;2;3", "38;2;255;0;128", "1;31;44", "38:5:9",
    "48:2:9:8:7", "38;5", "38;2;1;2", "38;5;256", "48;2;1;2;256", "38", "5", "8", "21", "58;5;1", "1;2", "3;4;7", "0;1",
    "22;23;24;27", "38;7;1", "38:5", "38:2:1:2:3:4", "4:3", "39;49", "48;9;1", "48;0;99", "48;7;1;31", "38;9;99;1", "48;3;4;7",
    "38;0;1;4", "48;9;99", "1;48;6;3;44", "38;5;1:2", "48;2;1;2;3:4;1", "38;5:1;4", "38;2;1:9;2;3", "48;5;7:0;1", "38;2;1;2:2;3;4", "23;27", "23", "22;22", "24;24;4", "27;7;27", "21;1", "5;1;31", "0;10;1;33", "4;21;42",
];

pub struct Feat {
    pub alt: bool,
    pub ris: bool,
    pub region: bool,
    pub osc: bool,
    pub garbage: bool,
    pub modes: bool,
    pub resize_csi: bool,
}

impl Feat {
    pub fn all() -> Self {
        Feat { alt: true, ris: true, region: true, osc: true, garbage: true, modes: true, resize_csi: true }
    }
    pub fn plain() -> Self {
        Feat { alt: false, ris: false, region: true, osc: false, garbage: false, modes: false, resize_csi: false }
    }
}

pub fn gen_text(r: &mut Rng, out: &mut Vec<u8>) {
    match r.below(20) {
        0..=9 => {
            let n = r.below(7) + 1;
            for _ in 0..n {
                out.push(b'a' + r.below(26) as u8);
            }
        }
        10..=12 => out.extend(r.pick(WIDE).as_bytes()),
        13 | 14 => out.extend(r.pick(ZERO).as_bytes()),
        15 => out.extend(r.pick(LATIN).as_bytes()),
        16 => out.extend(r.pick(ODD).as_bytes()),
        17 => {
            // pile-up of combining marks (cell capacity)
            out.push(b'a' + r.below(26) as u8);
            let n = 3 + r.below(12);
            for _ in 0..n {
                out.extend(r.pick(ZERO).as_bytes());
            }
        }
        18 => {
            // a run long enough to wrap
            let n = r.below(14) + 3;
            for _ in 0..n {
                out.push(b'A' + r.below(26) as u8);
            }
        }
        _ => out.push(b' '),
    }
}

pub fn gen_op(r: &mut Rng, d: Dim, out: &mut Vec<u8>, f: &Feat) {
    match r.below(80) {
        0..=15 => gen_text(r, out),
        16 | 17 => out.push(*r.pick(&[8u8, 9, 10, 11, 12, 13, 13, 10])),
        18 => out.extend(b"\r\n"),
        19 => out.push(*r.pick(&[0u8, 7, 14, 15, 5, 0x18, 0x1a, 0x1f])),
        20..=29 => {
            let fin = *r.pick(&['@', 'A', 'B', 'C', 'D', 'E', 'F', 'G', 'J', 'K', 'L', 'M', 'P', 'S', 'T', 'X', 'd']);
            let p = param(r, d);
            out.extend(format!("\x1b[{p}{fin}").as_bytes());
        }
        30..=33 => {
            let a = param(r, d);
            let b = param(r, d);
            out.extend(format!("\x1b[{a};{b}H").as_bytes());
        }
        34 | 35 => {
            if f.region {
                let a = param(r, d);
                let b = param(r, d);
                if r.chance(1, 6) {
                    out.extend(b"\x1b[r");
                } else {
                    out.extend(format!("\x1b[{a};{b}r").as_bytes());
                }
            }
        }
        36..=40 => {
            let s = *r.pick(SGR);
            out.extend(format!("\x1b[{s}m").as_bytes());
        }
        41 | 42 => out.extend(*r.pick(&[&b"\x1b7"[..], b"\x1b8", b"\x1bM", b"\x1b=", b"\x1b>", b"\x1bM"])),
        43 | 44 => {
            if f.modes {
                let m = *r.pick(&["1", "9", "25", "1000", "1002", "1003", "1005", "1006", "2004", "25", "12", "1;25", "9;1006;2004", "1000;1003"]);
                let hl = *r.pick(&['h', 'l']);
                out.extend(format!("\x1b[?{m}{hl}").as_bytes());
            } else {
                let hl = *r.pick(&['h', 'l']);
                out.extend(format!("\x1b[?25{hl}").as_bytes());
            }
        }
        45 | 46 => {
            if f.alt {
                let m = *r.pick(&["47", "1049"]);
                let hl = *r.pick(&['h', 'l']);
                out.extend(format!("\x1b[?{m}{hl}").as_bytes());
            }
        }
        47 => {
            if f.region {
                let hl = *r.pick(&['h', 'l']);
                out.extend(format!("\x1b[?6{hl}").as_bytes());
            }
        }
        48 => {
            if f.ris && r.chance(1, 4) {
                out.extend(b"\x1bc");
            }
        }
        49 => {
            let p = param(r, d);
            let q = *r.pick(&["", "?"]);
            let fin = *r.pick(&['J', 'K']);
            out.extend(format!("\x1b[{q}{p}{fin}").as_bytes());
        }
        50 => {
            if f.osc {
                let k = *r.pick(&["0", "1", "2", "3", "", "52", "0;x", "2;"]);
                let t = *r.pick(&["title", "", "a;b", "é"]);
                let term = *r.pick(&["\x07", "\x1b\\"]);
                out.extend(format!("\x1b]{k};{t}{term}").as_bytes());
            }
        }
        51 => {
            if f.garbage {
                // unimplemented / odd sequences
                let s = *r.pick(&[
                    "\x1b[5n", "\x1b[>c", "\x1b[!p", "\x1b[2 q", "\x1bg", "\x1bD", "\x1bE", "\x1b(B", "\x1b#8", "\x1bP1$r\x1b\\",
                    "\x1b_x\x1b\\", "\x1b^y\x1b\\", "\x1bXz\x1b\\", "\x1b[1;2;3;4;5;6;7;8;9;10;11;12;13;14;15;16;17;18;19;20;21;22;23;24;25;26;27;28;29;30;31;32;33;34m",
                    "\x1b[?1;2J", "\x1b[3J", "\x1b[?3K", "\x1b[4K", "\x1b[?5h", "\x1b[4h", "\x1b[20l", "\x1b[1$}", "\x1b[1;2$z", "\x1b[=1c", "\x1b[<1;2;3M",
                ]);
                out.extend(s.as_bytes());
            }
        }
        52 => {
            if f.garbage {
                let n = r.below(4) + 1;
                for _ in 0..n {
                    out.push(r.below(256) as u8);
                }
            }
        }
        53 => {
            if f.resize_csi {
                let a = param(r, d);
                let b = param(r, d);
                match r.below(6) {
                    4 => out.extend(format!("\x1b[8:{};{a};{b}t", r.below(3)).as_bytes()),
                    5 => out.extend(format!("\x1b[8;{a}:{};{b}:{}t", r.below(9), r.below(9)).as_bytes()),
                    0 => out.extend(format!("\x1b[8;{a};{b}t").as_bytes()),
                    1 => out.extend(format!("\x1b[8;{a}t").as_bytes()),
                    2 => out.extend(b"\x1b[8t"),
                    _ => out.extend(format!("\x1b[{a};{b}t").as_bytes()),
                }
            }
        }
        54 | 55 => {
            // fill to the right margin, then maybe one more
            let n = u64::from(d.cols) + r.below(3);
            for _ in 0..n.min(140) {
                out.push(b'a' + r.below(26) as u8);
            }
        }
        56 => {
            // wide char at the right margin
            let c = d.cols.saturating_sub(r.below(3) as u16).max(1);
            out.extend(format!("\x1b[{c}G").as_bytes());
            out.extend(r.pick(WIDE).as_bytes());
        }
        57 => {
            // coloured blanks
            let p = param(r, d);
            out.extend(format!("\x1b[4{}m\x1b[{p}X", r.below(8)).as_bytes());
        }
        58 => {
            // scroll by newlines
            let n = r.below(u64::from(d.rows) + 2);
            for _ in 0..n {
                out.extend(b"\n");
            }
        }
        59 => {
            // truncated sequences (split across chunks by the caller's cuts)
            let s: &[u8] = *r.pick(&[&b"\x1b"[..], b"\x1b[", b"\x1b[1;", b"\x1b]0;ab", b"\x1b[?", b"\xe3\x81", b"\xf0\x9f", b"\xc3"]);
            out.extend(s);
        }
        60..=69 => idiom(r, d, out),
        72..=75 => {
            let k = 70 + r.below(8);
            idiom_n(r, d, out, k);
        }
        76..=79 => {
            let k = 78 + r.below(9);
            idiom_n(r, d, out, k);
        }
        _ => gen_text(r, out),
    }
}


/// multi-step idioms that reach rarely visited branches
pub fn idiom(r: &mut Rng, d: Dim, out: &mut Vec<u8>) {
    let k = 60 + r.below(10);
    idiom_n(r, d, out, k);
}

pub fn idiom_n(r: &mut Rng, d: Dim, out: &mut Vec<u8>, k: u64) {
    match k {
        60 => {
            // wide char in the last two columns, one more char (wraps), back to column 0, combining mark
            if d.cols >= 2 {
                out.extend(format!("\x1b[{}G", d.cols - 1).as_bytes());
                out.extend(r.pick(WIDE).as_bytes());
                out.push(b'a' + r.below(26) as u8);
                out.extend(*r.pick(&[&b"\r"[..], b"\x08", b"\x1b[G", b"\x1b[D"]));
                out.extend(r.pick(ZERO).as_bytes());
            }
        }
        61 => {
            // fill the line exactly, then a combining mark (appends across the pending wrap), maybe one more char
            out.extend(b"\r");
            for _ in 0..d.cols.min(140) {
                out.push(b'a' + r.below(26) as u8);
            }
            if r.chance(1, 2) {
                out.push(b'z');
                out.extend(*r.pick(&[&b"\r"[..], b"\x08"]));
            }
            out.extend(r.pick(ZERO).as_bytes());
        }
        62 | 63 => {
            // cursor onto the second half of a wide character, then an editing operation
            out.extend(r.pick(WIDE).as_bytes());
            out.extend(*r.pick(&[&b"\x08"[..], b"\x1b[D", b"\x08\x08"]));
            let fin = *r.pick(&['@', 'P', 'X', 'K', 'J', 'L', 'M']);
            let p = param(r, d);
            out.extend(format!("\x1b[{p}{fin}").as_bytes());
            if r.chance(1, 3) {
                gen_text(r, out);
            }
        }
        64 | 65 => {
            // pending wrap (cursor past the last column), then an operation that does not move it
            out.extend(b"\r");
            for _ in 0..d.cols.min(140) {
                out.push(b'a' + r.below(26) as u8);
            }
            let fin = *r.pick(&['@', 'P', 'X', 'K', 'J', 'L', 'M', 'A', 'B', 'd', 'S', 'T']);
            let p = param(r, d);
            out.extend(format!("\x1b[{p}{fin}").as_bytes());
        }
        66 => {
            // wide characters back to back, overwritten at an odd offset
            for _ in 0..(1 + r.below(4)) {
                out.extend(r.pick(WIDE).as_bytes());
            }
            out.extend(format!("\x1b[{}D", 1 + r.below(5)).as_bytes());
            gen_text(r, out);
        }
        67 => {
            // origin mode inside a region, then addressing / moving with huge parameters
            let t = 1 + r.below(u64::from(d.rows));
            let bt = t + 1 + r.below(u64::from(d.rows));
            out.extend(format!("\x1b[{t};{bt}r\x1b[?6h").as_bytes());
            let big = *r.pick(&["65535", "65534", "65536", "99999", "32768"]);
            match r.below(5) {
                0 => out.extend(format!("\x1b[{big};{big}H").as_bytes()),
                1 => out.extend(format!("\x1b[{big}H").as_bytes()),
                2 => out.extend(format!("\x1b[1;{big}H").as_bytes()),
                3 => out.extend(format!("\x1b[{big}d\x1b[{big}G").as_bytes()),
                _ => {
                    let fin = *r.pick(&['A', 'B', 'C', 'D', 'E', 'F', 'L', 'M', 'S', 'T', '@', 'P', 'X']);
                    out.extend(format!("\x1b[{big}{fin}").as_bytes());
                }
            }
        }
        68 => {
            // full reset in an unusual situation: alternate screen, region, saved cursor with a pen
            out.extend(format!("\x1b[3{}m\x1b7", r.below(8)).as_bytes());
            if r.chance(1, 2) {
                out.extend(*r.pick(&[&b"\x1b[?1049h"[..], b"\x1b[?47h"]));
            }
            out.extend(b"\x1bc");
            match r.below(3) {
                0 => out.extend(b"\x1b8x"),
                1 => out.extend(b"\x1b[?1049lx"),
                _ => out.extend(b"\n\n\n\n\n\n\n"),
            }
        }
        69 => {
            // a wrapped row ending in (or just before) a wide character; go back onto one of the last
            // columns of that row and erase / edit there
            if d.cols >= 3 {
                out.extend(b"\r");
                let wide_at_end = r.chance(1, 2);
                let narrow = if wide_at_end { d.cols - 2 } else { d.cols - 3 };
                for _ in 0..narrow.min(140) {
                    out.push(b'a' + r.below(26) as u8);
                }
                out.extend(r.pick(WIDE).as_bytes());
                if !wide_at_end {
                    out.push(b'q');
                }
                out.push(b'w'); // wraps: the row above is now flagged
                out.extend(b"\x1b[A");
                if r.chance(1, 4) {
                    // a wide character whose second half lands on the first half of the wide
                    // character in the last two columns: the receiver blanks the last column and
                    // clears the wrap flag
                    let col = d.cols.saturating_sub(2 + r.below(2) as u16).max(1);
                    out.extend(format!("\x1b[{col}G").as_bytes());
                    out.extend(r.pick(WIDE).as_bytes());
                } else {
                    let col = d.cols - r.below(3) as u16;
                    out.extend(format!("\x1b[{col}G").as_bytes());
                    let op = *r.pick(&["\x1b[X", "\x1b[K", "\x1b[J", "\x1b[1K", "\x1b[2X", "\x1b[P", "\x1b[@", "\x1b[1J", "x", "\x1b[3X"]);
                    out.extend(op.as_bytes());
                }
            }
        }
        70 | 71 => {
            // DCS: ESC P params intermediates final payload terminator (hook/put/unhook are ignored
            // by vt100 but drive the vte state machine through its DCS states)
            out.extend(b"\x1bP");
            match r.below(5) {
                0 => {}
                1 => out.extend(format!("{}", r.below(70000)).as_bytes()),
                2 => out.extend(format!("{};{}", r.below(300), r.below(300)).as_bytes()),
                3 => out.extend(b"1:2;3"),
                _ => {
                    for i in 0..(30 + r.below(8)) {
                        out.extend(format!("{};", i).as_bytes());
                    }
                }
            }
            match r.below(6) {
                0 => out.extend(b"$"),
                1 => out.extend(b"$#"),
                2 => out.extend(b"?"),       // private marker after params: DcsIgnore
                3 => out.extend(b"\x07\x0a"), // C0 inside DCS entry/param: ignored
                _ => {}
            }
            out.push(*r.pick(&[b'q', b'p', b'|', b'{', b'@', b'~', b'\x7f', b':']));
            for _ in 0..r.below(12) {
                out.push(*r.pick(&[b'a', b'1', b';', b'\n', b'\x07', b'\x7f', b' ', b'#', 0xc3, 0xa9]));
            }
            out.extend(*r.pick(&[&b"\x1b\\"[..], b"\x07", b"\x18", b"\x1a", b"\x1bc", b"\x1b[m", b"", b"\x9c", b"\xc2\x9c"]));
            if r.chance(1, 2) {
                gen_text(r, out);
            }
        }
        72 | 73 => {
            // CSI sequences that fall into CsiIgnore, with C0 controls executed inside, then a final byte
            out.extend(b"\x1b[");
            match r.below(6) {
                0 => out.extend(b"1;<"),
                1 => out.extend(b"1$<"),
                2 => out.extend(b"!?"),
                3 => out.extend(b"?1;2:3<"),
                4 => out.extend(b"1 $ :"),
                _ => out.extend(b"12=5"),
            }
            for _ in 0..r.below(5) {
                out.push(*r.pick(&[b'1', b';', b'\n', b'\r', b'\x08', b'\x07', b' ', b':', b'?', b'\x7f']));
            }
            out.push(*r.pick(&[b'm', b'H', b'J', b'h', b'@', b'~', b'\x18', b'\x1a', b'\x1b']));
            gen_text(r, out);
        }
        74 => {
            // OSC ended by CAN / SUB / ESC / BEL / C1 ST, with 0, 1 or many parameters
            out.extend(b"\x1b]");
            match r.below(4) {
                0 => {}
                1 => out.extend(format!("{}", r.below(3)).as_bytes()),
                2 => {
                    let sel = if r.chance(1, 3) { (*r.pick(&["00", "02", "+1", "01", " 2", "2 ", "000", "+0"])).to_string() } else { format!("{}", r.below(3)) };
                    out.extend(format!("{sel};title {}", r.below(100)).as_bytes())
                }
                _ => {
                    for i in 0..(14 + r.below(6)) {
                        out.extend(format!("{};", i).as_bytes());
                    }
                }
            }
            out.extend(*r.pick(&[&b"\x18"[..], b"\x1a", b"\x1b\\", b"\x07", b"\x1bc", b"\x1b[31m", b"\xc2\x9c", b"\x9c"]));
            gen_text(r, out);
        }
        75 => {
            // OSC whose raw buffer reaches vte's limit (1024 bytes), then more parameters
            out.extend(b"\x1b]0;");
            let n = 1015 + r.below(20);
            for i in 0..n {
                out.push(if i % 97 == 96 { b';' } else { b'a' + (i % 26) as u8 });
            }
            out.extend(*r.pick(&[&b";x;y"[..], b";", b"zz", b""]));
            out.extend(*r.pick(&[&b"\x07"[..], b"\x1b\\", b"\x18"]));
        }
        76 => {
            // CSI with 30..40 parameters / subparameters (vte keeps 32) and a known final byte
            out.extend(b"\x1b[");
            let n = 29 + r.below(8);
            let sep = *r.pick(&[b';', b':']);
            for i in 0..n {
                out.extend(format!("{}", if r.chance(1, 4) { 38 } else { i % 9 }).as_bytes());
                out.push(if r.chance(1, 6) { b':' } else { sep });
            }
            out.extend(format!("3{}", r.below(8)).as_bytes());
            out.push(*r.pick(&[b'm', b'H', b'r', b'h', b'J', b'q']));
            if r.chance(1, 3) {
                // the same with the private marker: a long DECSET / DECRST list of real modes
                let n = 30 + r.below(8);
                let modes = ["1", "2004", "25", "1000", "1006", "9", "1002", "1005", "1003"];
                let list: Vec<&str> = (0..n).map(|_| *r.pick(&modes)).collect();
                out.extend(format!("\x1b[?{}{}", list.join(";"), if r.chance(1, 2) { 'h' } else { 'l' }).as_bytes());
            }
            gen_text(r, out);
        }
        77 => {
            // truncated / malformed extended colours at the end of an SGR
            let pre = *r.pick(&["", "1;", "0;", "4;31;"]);
            let c = *r.pick(&["38", "48", "38;2", "38;5", "48;2;1", "48;2;1;2", "38;9", "38;2;256;1;1", "38;5;300", "38;;5", "38;2;;", "48;5;", "38:2", "38:5", "38:2:1:2", "38:", "38;2:1"]);
            out.extend(format!("\x1b[{pre}{c}m").as_bytes());
            gen_text(r, out);
        }
        78 => {
            // palette indices at the boundaries of the short / bright / 256-colour encodings
            let fgbg = *r.pick(&["38", "48"]);
            let idx = *r.pick(&[0u32, 1, 7, 8, 9, 15, 16, 17, 231, 232, 254, 255]);
            out.extend(format!("\x1b[{fgbg};5;{idx}m").as_bytes());
            gen_text(r, out);
        }
        79 if d.rows >= 4 && r.chance(1, 4) => {
            // cursor strictly above the region and not on the first row: RI / CUU / SD must treat it as
            // "outside" (RI just moves up one row, nothing scrolls)
            let t = 3 + r.below(u64::from(d.rows) - 3);
            let bt = (t + 1 + r.below(2)).min(u64::from(d.rows));
            if t < bt {
                let row = 2 + r.below(t - 2);
                out.extend(format!("\x1b[{t};{bt}r\x1b[{row};{}H", 1 + r.below(u64::from(d.cols))).as_bytes());
                out.extend(*r.pick(&[&b"\x1bM"[..], b"\x1bM\x1bM", b"\x1b[A", b"\x1bD", b"\x1b[T", b"\x1bM"]));
            }
        }
        79 => {
            // a scroll region with the cursor outside it, then a line operation
            if d.rows >= 3 {
                let t = 1 + r.below(u64::from(d.rows) - 2);
                let bt = t + 1 + r.below(u64::from(d.rows) - t - 1).min(2);
                out.extend(format!("\x1b[{t};{bt}r").as_bytes());
                let row = if r.chance(1, 2) { bt + 1 + r.below(u64::from(d.rows) - bt) } else { 1 + r.below(t) };
                out.extend(format!("\x1b[{row};1H").as_bytes());
                if r.chance(1, 3) {
                    // cursor movement that starts outside the region must ignore its margins
                    let fin = *r.pick(&['A', 'B', 'E', 'F', 'd', 'A', 'F']);
                    let p = *r.pick(&["", "1", "2", "3", "99", "65535"]);
                    out.extend(format!("\x1b[{p}{fin}").as_bytes());
                    if r.chance(1, 3) {
                        out.extend(*r.pick(&[&b"\x1bM"[..], b"\n", b"\x1bD", b"\x1bE"]));
                    }
                } else {
                    let fin = *r.pick(&['M', 'L', 'S', 'T', 'M', 'L']);
                    let p = param(r, d);
                    out.extend(format!("\x1b[{p}{fin}").as_bytes());
                }
                if r.chance(1, 2) {
                    out.extend(b"\n\n");
                }
            }
        }
        80 => {
            // C1 controls and the characters next to them, whole or split by the caller's cuts
            let c = *r.pick(&["\u{80}", "\u{84}", "\u{85}", "\u{8d}", "\u{90}", "\u{9b}", "\u{9c}", "\u{9d}", "\u{9e}", "\u{9f}", "\u{a0}", "\u{7f}"]);
            if r.chance(1, 2) {
                out.extend(r.pick(LATIN).as_bytes());
            }
            out.extend(c.as_bytes());
            out.push(b'a' + r.below(26) as u8);
        }
        81 => {
            // several private modes in one sequence, unknown ones in between
            let known = ["1", "6", "9", "25", "47", "1000", "1002", "1003", "1005", "1006", "1049", "2004"];
            let unk = ["0", "2", "3", "4", "5", "7", "12", "1001", "1004", "1015", "2026", "9999", "65535", "65536"];
            let mut ps: Vec<&str> = vec![];
            for _ in 0..(2 + r.below(4)) {
                ps.push(if r.chance(1, 3) { *r.pick(&unk) } else { *r.pick(&known) });
            }
            let fin = if r.chance(1, 2) { 'h' } else { 'l' };
            let mut joined = ps.join(";");
            if r.chance(1, 3) {
                // a sub-parameter on one of the numbers: the parameter is then not a recognised mode
                joined = joined.replacen(';', *r.pick(&[":0;", ":1;", ":;"]), 1);
                if r.chance(1, 2) {
                    joined.push_str(*r.pick(&[":1", ":0", ":"]));
                }
            }
            out.extend(format!("\x1b[?{joined}{fin}").as_bytes());
        }
        82 => {
            // DECSC with origin mode / region / pen, leave the region or change the mode, DECRC
            if d.rows >= 3 {
                let t = 1 + r.below(u64::from(d.rows) - 1);
                let bt = t + 1 + r.below(u64::from(d.rows) - t);
                out.extend(format!("\x1b[{t};{bt}r").as_bytes());
                if r.chance(2, 3) {
                    out.extend(b"\x1b[?6h");
                }
                out.extend(format!("\x1b[{};{}H\x1b[3{}m", 1 + r.below(u64::from(d.rows)), 1 + r.below(u64::from(d.cols)), r.below(8)).as_bytes());
                out.extend(*r.pick(&[&b"\x1b7"[..], b"\x1b[s", b"\x1b[?1049h"]));
                match r.below(4) {
                    0 => out.extend(b"\x1b[?6l\x1b[H"),
                    1 => out.extend(b"\x1b[r\x1b[999;1H"),
                    2 => out.extend(format!("\x1b[{};1H\x1b[0m", 1 + r.below(u64::from(d.rows))).as_bytes()),
                    _ => {
                        // a new region that excludes the saved row
                        if t >= 3 {
                            out.extend(format!("\x1b[1;{}r", t - 1).as_bytes());
                        } else if bt + 1 < u64::from(d.rows) {
                            out.extend(format!("\x1b[{};{}r", bt + 1, d.rows).as_bytes());
                        } else {
                            out.extend(b"\x1b[1;2r");
                        }
                    }
                }
                out.extend(*r.pick(&[&b"\x1b8"[..], b"\x1b[u", b"\x1b[?1049l"]));
                out.push(b'x');
            }
        }
        83 => {
            // escape sequences with intermediates and every kind of final byte, incl. ST's
            let inter = *r.pick(&["(", ")", "#", " ", "%", "$", "( ", "*"]);
            let fin = *r.pick(&[b'\\', b'7', b'8', b'c', b'M', b'D', b'E', b'=', b'>', b'B', b'0', b'g', b'~']);
            out.extend(b"\x1b");
            out.extend(inter.as_bytes());
            out.push(fin);
            gen_text(r, out);
        }
        84 => {
            // runs of blank cells that differ only in text-mode bits (same colours): an erase with a
            // mode bit in the pen, then blanks with other mode bits right behind it, then text
            let m1 = *r.pick(&["7", "1", "2", "3", "4", "1;7", "4;3"]);
            let m2 = *r.pick(&["", "0", "27", "22", "1", "4", "7"]);
            let col = if r.chance(1, 2) { format!("\x1b[4{}m", r.below(8)) } else { String::new() };
            out.extend(format!("{col}\x1b[{m1}m\x1b[{}X\x1b[{}C", 1 + r.below(4), r.below(5)).as_bytes());
            out.extend(format!("\x1b[{m2}m").as_bytes());
            if r.chance(1, 2) {
                out.extend(format!("\x1b[{}X", 1 + r.below(4)).as_bytes());
            }
            out.extend(format!("\x1b[{}C", 1 + r.below(6)).as_bytes());
            if r.chance(2, 3) {
                gen_text(r, out);
            }
        }
        85 => {
            // a line terminator (or another C0 control) INSIDE an open sequence, followed by a purely
            // printable continuation: the chunk family cuts right behind such bytes
            let c0 = *r.pick(&["\r", "\n", "\r\n", "\x08", "\t"]);
            match r.below(5) {
                0 => out.extend(format!("\x1b[{}{c0};{}H", 1 + r.below(u64::from(d.rows)), 1 + r.below(u64::from(d.cols))).as_bytes()),
                1 => out.extend(format!("\x1b[3{c0}{}m", r.below(8)).as_bytes()),
                2 => out.extend(format!("\x1b]0;hello{c0}world\x07").as_bytes()),
                3 => out.extend(format!("\x1b]2;ab{c0}cd\x1b\\").as_bytes()),
                _ => out.extend(format!("\x1bPq1{c0}23\x1b\\\x1b({c0}B").as_bytes()),
            }
            gen_text(r, out);
        }
        86 => {
            if d.cols >= 2 {
                out.extend(b"\r");
                for _ in 0..(d.cols - 2).min(140) {
                    out.push(b'a' + r.below(26) as u8);
                }
                out.extend(r.pick(WIDE).as_bytes());
                out.push(b'w'); // wraps: the row above is flagged, its last two columns hold a wide character
                out.extend(format!("\x1b[A\x1b[{}G", d.cols - 1).as_bytes()); // onto the first half
                if r.chance(1, 3) {
                    out.extend(format!("\x1b[4{}m", r.below(8)).as_bytes());
                }
                out.extend(*r.pick(&[&b"\x1b[1K"[..], b"\x1b[1J", b"\x1b[K", b"\x1b[J", b"\x1b[X", b"\x1b[?1K", b"\x1b[?1J", b"\x1b[1K", b"\x1b[1J"]));
            }
        }
        _ => {}
    }
}

/// 0..max-1 operations
pub fn gen_stream_0(r: &mut Rng, d: Dim, max: u64, f: &Feat) -> Vec<u8> {
    let n = r.below(max);
    gen_stream(r, d, n, f)
}

pub fn gen_stream_n(r: &mut Rng, d: Dim, max: u64, f: &Feat) -> Vec<u8> {
    let n = 1 + r.below(max);
    gen_stream(r, d, n, f)
}

pub fn gen_stream(r: &mut Rng, d: Dim, nops: u64, f: &Feat) -> Vec<u8> {
    let mut out = vec![];
    for _ in 0..nops {
        gen_op(r, d, &mut out, f);
    }
    out
}

/// cut `bytes` into chunks at random positions
pub fn cut(r: &mut Rng, bytes: &[u8], ncuts: u64) -> Vec<Vec<u8>> {
    if bytes.is_empty() {
        return vec![vec![]];
    }
    let mut pts: Vec<usize> = (0..ncuts).map(|_| r.below(bytes.len() as u64 + 1) as usize).collect();
    pts.sort_unstable();
    pts.dedup();
    let mut res = vec![];
    let mut last = 0;
    for p in pts {
        res.push(bytes[last..p].to_vec());
        last = p;
    }
    res.push(bytes[last..].to_vec());
    res
}

pub fn p_lines(r: &mut Rng, bytes: &[u8], lines: &mut Vec<String>) {
    let ncuts = if r.chance(1, 3) { r.below(4) } else { 0 };
    for c in cut(r, bytes, ncuts) {
        // io::Write::write is the other way into the parser
        let op = if r.chance(1, 8) { "W" } else { "P" };
        lines.push(format!("{} {}", op, hex(&c)));
    }
}

fn observers_all(lines: &mut Vec<String>) {
    for l in ["DUMP", "OBS", "LOG", "FMT state", "FMT contents", "FMT cursor", "FMT attrs", "FMT input", "TEXT"] {
        lines.push(l.into());
    }
}

fn new_line(r: &mut Rng, min: u16, resizing: bool) -> (Dim, usize, String) {
    let d = pick_size(r, min);
    let cap = pick_cap(r, d.rows);
    (d, cap, format!("NEW {} {} {} {}", d.rows, d.cols, cap, u8::from(resizing)))
}

/// general history: stream + SIZE + SB, full observation at the end and DUMPs in between
pub fn fam_stream(r: &mut Rng) -> Case {
    let resizing = r.chance(1, 4);
    let (mut d, _cap, nl) = new_line(r, 1, resizing);
    let mut lines = vec![nl];
    let f = Feat::all();
    let steps = 1 + r.below(6);
    for _ in 0..steps {
        match r.below(12) {
            0 => {
                let nr = 1 + r.below(u64::from(d.rows) + 3) as u16;
                let nc = 1 + r.below(u64::from(d.cols) + 3) as u16;
                d = Dim { rows: nr, cols: nc };
                lines.push(format!("SIZE {nr} {nc}"));
            }
            1 => lines.push(format!("SB {}", r.below(6))),
            _ => {
                let nops = 1 + r.below(8);
                let b = gen_stream(r, d, nops, &f);
                p_lines(r, &b, &mut lines);
            }
        }
        if r.chance(1, 3) {
            lines.push("DUMP".into());
        }
    }
    observers_all(&mut lines);
    Case { lines }
}

/// emitter-centred: two snapshots, diffs, rows, windows
pub fn fam_emit(r: &mut Rng) -> Case {
    let (d, cap, nl) = new_line(r, 1, false);
    let mut lines = vec![nl];
    let f = Feat { alt: r.chance(1, 5), ris: false, region: true, osc: false, garbage: false, modes: true, resize_csi: false };
    let b = gen_stream_n(r, d, 12, &f);
    p_lines(r, &b, &mut lines);
    if cap > 0 && r.chance(1, 3) {
        lines.push(format!("SB {}", r.below(4)));
    }
    lines.push("SNAP 0".into());
    lines.push("DIFF state 0".into());
    lines.push("ROWSD 0 0 ".to_string() + &d.cols.to_string());
    let b2 = gen_stream_n(r, d, 8, &f);
    p_lines(r, &b2, &mut lines);
    if cap > 0 && r.chance(1, 4) {
        lines.push(format!("SB {}", r.below(4)));
    }
    for l in ["DUMP", "FMT state", "FMT contents", "FMT cursor", "FMT attrs", "FMT input", "DIFF state 0", "DIFF contents 0", "DIFF input 0"] {
        lines.push(l.into());
    }
    lines.push(format!("ROWSF 0 {}", d.cols));
    lines.push(format!("ROWSD 0 0 {}", d.cols));
    let s = r.below(u64::from(d.cols) + 2);
    let w = r.below(u64::from(d.cols) + 2);
    lines.push(format!("ROWSF {s} {w}"));
    lines.push(format!("ROWSD 0 {s} {w}"));
    Case { lines }
}

/// plain-text views
pub fn fam_text(r: &mut Rng) -> Case {
    let (d, cap, nl) = new_line(r, 1, false);
    let mut lines = vec![nl];
    let f = Feat { alt: r.chance(1, 6), ..Feat::plain() };
    let b = gen_stream_n(r, d, 12, &f);
    p_lines(r, &b, &mut lines);
    let mut wide_view = 0u64;
    if cap > 0 && r.chance(1, 4) {
        // rows scrolled off at the old width, then a narrower (or wider) screen and a scrolled view:
        // the view mixes row widths
        let mut pre = vec![];
        for i in 0..(u64::from(d.rows) + 1 + r.below(3)) {
            pre.extend(format!("{}", "abcdefghijklmnopqrstuvwxyz0123456789".chars().cycle().skip(i as usize).take(usize::from(d.cols).min(36)).collect::<String>()).as_bytes());
            pre.extend(b"\r\n");
        }
        lines.push(format!("P {}", hex(&pre)));
        let nc = if r.chance(2, 3) { 1 + r.below(u64::from(d.cols)) } else { u64::from(d.cols) + 1 + r.below(3) };
        lines.push(format!("SIZE {} {}", d.rows, nc));
        lines.push(format!("SB {}", 1 + r.below(3)));
        wide_view = u64::from(d.cols) + 3;
    } else if cap > 0 && r.chance(1, 3) {
        lines.push(format!("SB {}", r.below(4)));
    }
    lines.push("DUMP".into());
    lines.push("TEXT".into());
    for _ in 0..3 {
        let s = r.below(u64::from(d.cols) + 3);
        let w = r.below(u64::from(d.cols) + 3).max(wide_view);
        lines.push(format!("ROWS {s} {w}"));
    }
    lines.push(format!("ROWS 0 {}", d.cols));
    for _ in 0..5 {
        let r1 = r.below(u64::from(d.rows) + 1);
        let r2 = r.below(u64::from(d.rows) + 1);
        let c1 = r.below(u64::from(d.cols) + 2);
        let c2 = r.below(u64::from(d.cols) + 2);
        lines.push(format!("BETWEEN {r1} {c1} {r2} {c2}"));
    }
    Case { lines }
}

/// chunking: the same bytes whole, with one cut, byte at a time — both through vt100 and vte directly
pub fn fam_chunk(r: &mut Rng) -> Case {
    let d = pick_size(r, 1);
    let cap = pick_cap(r, d.rows);
    let f = Feat::all();
    let b = gen_stream_n(r, d, 8, &f);
    let mut lines = vec![];
    let mode = r.below(3);
    lines.push(format!("NEW {} {} {} 0", d.rows, d.cols, cap));
    lines.push("VNEW".into());
    let mut b = b;
    if r.chance(1, 4) {
        idiom_n(r, d, &mut b, 85);
    }
    let policy = if r.chance(1, 4) { 1 } else { 0 };
    if policy == 1 {
        // the callback applies the request at once: what follows in the same chunk must see the new size
        let nr = 1 + r.below(8);
        let nc = 1 + r.below(12);
        b.extend(format!("\x1b[8;{nr};{nc}t").as_bytes());
        b.extend(*r.pick(&[&b"\x1b[8;5t"[..], b"\x1b[r", b"\x1b[8t", b"\x1b[2r", b"\x1b[999;999Hx", b"\x1b[8;;7t"]));
        if r.chance(1, 2) {
            b.extend(b"\n\n\n\n\n\n\n\nz");
        }
    }
    lines[0] = format!("NEW {} {} {} {}", d.rows, d.cols, cap, policy);
    let mode = if r.chance(1, 6) { 3 } else { mode };
    let chunks: Vec<Vec<u8>> = match mode {
        3 => {
            // cut right behind every CR / LF
            let mut res = vec![];
            let mut curc = vec![];
            for x in &b {
                curc.push(*x);
                if *x == b'\n' || *x == b'\r' {
                    res.push(std::mem::take(&mut curc));
                }
            }
            res.push(curc);
            res
        }
        0 => vec![b.clone()],
        1 => cut(r, &b, 1),
        _ => {
            if b.len() <= 40 && r.chance(1, 2) {
                b.iter().map(|x| vec![*x]).collect()
            } else {
                let k = 1 + r.below(5);
                cut(r, &b, k)
            }
        }
    };
    let via_write = r.chance(1, 6);
    for c in &chunks {
        lines.push(format!("{} {}", if via_write { "W" } else { "P" }, hex(c)));
        lines.push(format!("VP {}", hex(c)));
    }
    lines.push("DUMP".into());
    lines.push("LOG".into());
    Case { lines }
}

/// scrollback-centred
pub fn fam_sb(r: &mut Rng) -> Case {
    let d = pick_size(r, 1);
    let cap = *r.pick(&[0usize, 1, 2, 3, usize::from(d.rows), usize::from(d.rows) + 2, 1000]);
    let mut lines = vec![format!("NEW {} {} {} 0", d.rows, d.cols, cap)];
    let f = Feat { alt: r.chance(1, 3), ris: r.chance(1, 3), region: r.chance(1, 3), osc: false, garbage: false, modes: false, resize_csi: false };
    let steps = 2 + r.below(6);
    for _ in 0..steps {
        match r.below(6) {
            0 | 1 => lines.push(format!("SB {}", *r.pick(&[0u64, 1, 2, 3, 5, 1000, u64::from(d.rows), u64::from(d.rows) + 1]))),
            2 => {
                let mut b = vec![];
                let n = 1 + r.below(u64::from(d.rows) * 2 + 2);
                for i in 0..n {
                    b.extend(format!("l{i}").as_bytes());
                    b.extend(if r.chance(1, 5) { &b"\n"[..] } else { &b"\r\n"[..] });
                }
                p_lines(r, &b, &mut lines);
            }
            3 => {
                let p = param(r, d);
                lines.push(format!("P {}", hex(format!("\x1b[{p}S").as_bytes())));
            }
            5 if cap > usize::from(d.rows) + 1 && r.chance(1, 2) => {
                // enough history, a scrolled-back view, then SU by more lines than the screen has
                let mut b = vec![];
                for i in 0..(3 * u64::from(d.rows) + 2) {
                    b.extend(format!("h{i}\r\n").as_bytes());
                }
                lines.push(format!("P {}", hex(&b)));
                lines.push(format!("SB {}", 1 + r.below(3)));
                lines.push("DUMP".into());
                let n = u64::from(d.rows) + r.below(4);
                lines.push(format!("P {}", hex(format!("\x1b[{n}S").as_bytes())));
                lines.push("DUMP".into());
            }
            4 if f.ris => {
                let mut b = vec![];
                idiom_n(r, d, &mut b, 68);
                lines.push(format!("P {}", hex(&b)));
            }
            _ => {
                let b = gen_stream_n(r, d, 6, &f);
                p_lines(r, &b, &mut lines);
            }
        }
        if r.chance(1, 3) {
            lines.push("DUMP".into());
        }
    }
    lines.push("DUMP".into());
    lines.push("VIEWS".into());
    lines.push("TEXT".into());
    lines.push("FMT contents".into());
    Case { lines }
}

/// resize-centred
pub fn fam_resize(r: &mut Rng) -> Case {
    let resizing = r.chance(1, 3);
    let (mut d, _cap, nl) = new_line(r, 1, resizing);
    let mut lines = vec![nl];
    let f = Feat::all();
    let steps = 2 + r.below(6);
    let mut region: Option<(u16, u16)> = None;
    for _ in 0..steps {
        if r.chance(1, 5) && d.rows >= 2 {
            let t = 1 + r.below(u64::from(d.rows) - 1) as u16;
            let bt = t + 1 + r.below(u64::from(d.rows - t)) as u16;
            lines.push(format!("P {}", hex(format!("\x1b[{t};{bt}r").as_bytes())));
            region = Some((t, bt));
            continue;
        }
        if r.chance(1, 2) {
            let (nr, nc) = if let (Some((t, bt)), true) = (region, r.chance(1, 2)) {
                // new height on or next to the margins of the region
                let cand = [bt.saturating_sub(1), bt, bt + 1, t, t + 1, t.saturating_sub(1)];
                ((*r.pick(&cand)).max(1), 1 + r.below(u64::from(d.cols.min(20)) + 3) as u16)
            } else if r.chance(1, 10) { (24u16, 80u16) } else { (1 + r.below(u64::from(d.rows.min(20)) + 3) as u16, 1 + r.below(u64::from(d.cols.min(20)) + 3) as u16) };
            if resizing && r.chance(1, 2) {
                lines.push(format!("P {}", hex(format!("\x1b[8;{nr};{nc}t").as_bytes())));
            } else {
                lines.push(format!("SIZE {nr} {nc}"));
            }
            d = Dim { rows: nr, cols: nc };
            lines.push("DUMP".into());
        } else {
            let b = gen_stream_n(r, d, 8, &f);
            p_lines(r, &b, &mut lines);
        }
    }
    if !resizing && d.rows >= 3 && r.chance(1, 8) {
        // a region anchored at the top row, a shrinking resize to its height (or less), then scrolling:
        // the region has become the whole screen, so lines must reach the history again
        let b = 2 + r.below(u64::from(d.rows) - 2);
        lines.push(format!("P {}", hex(format!("\x1b[1;{b}r").as_bytes())));
        let nr = 2 + r.below(b - 1);
        lines.push(format!("SIZE {nr} {}", d.cols));
        let mut t = vec![];
        for i in 0..(nr + 3) {
            t.extend(format!("s{i}\r\n").as_bytes());
        }
        lines.push(format!("P {}", hex(&t)));
        lines.push("DUMP".into());
        lines.push("VIEWS".into());
        lines.push(format!("SB {}", 1 + r.below(3)));
        observers_all(&mut lines);
        return Case { lines };
    }
    if !resizing && r.chance(1, 10) {
        // whole-row erases with the same non-default pen before and after a widening resize
        let pen = *r.pick(&["44", "7", "1;41", "4", "32;45"]);
        let er = *r.pick(&["\x1b[2J", "\x1b[2K", "\x1b[J", "\x1b[1J"]);
        lines.push(format!("P {}", hex(format!("\x1b[{pen}m{er}").as_bytes())));
        let nc = d.cols + 1 + r.below(4) as u16;
        lines.push(format!("SIZE {} {}", d.rows, nc));
        let er2 = *r.pick(&["\x1b[2J", "\x1b[2K", "\x1b[J", "\x1b[1J", "\x1b[H\x1b[J"]);
        lines.push(format!("P {}", hex(er2.as_bytes())));
        observers_all(&mut lines);
        return Case { lines };
    }
    if !resizing && r.chance(1, 5) {
        // rows in the history at the old width, a wider screen, a row filled to the new right edge
        // (pending wrap), then a scrolled-back view: the view row under the cursor is narrower than
        // the screen
        let mut pre = vec![];
        for i in 0..(u64::from(d.rows) + 2) {
            pre.extend(format!("r{i}\r\n").as_bytes());
        }
        lines.push(format!("P {}", hex(&pre)));
        let nc = d.cols + 1 + r.below(4) as u16;
        lines.push(format!("SIZE {} {}", d.rows, nc));
        d = Dim { rows: d.rows, cols: nc };
        let row = 1 + r.below(u64::from(d.rows));
        let mut fill = format!("\x1b[{row};1H").into_bytes();
        for _ in 0..nc.min(200) {
            fill.push(b'q');
        }
        if r.chance(1, 2) {
            fill.extend(b"\x1b[1K"); // the last cell becomes empty again, the cursor stays pending
        }
        lines.push(format!("P {}", hex(&fill)));
        lines.push("SNAP 0".into());
        lines.push(format!("SB {}", 1 + r.below(u64::from(d.rows) + 2)));
        observers_all(&mut lines);
        // the scrolled view (rows of the old width) diffed against the unscrolled snapshot and back
        lines.push("DIFF state 0".into());
        lines.push("DIFF contents 0".into());
        lines.push(format!("ROWSD 0 0 {}", d.cols));
        lines.push("SNAP 1".into());
        lines.push("SB 0".into());
        lines.push("DIFF state 1".into());
        lines.push(format!("ROWSD 1 0 {}", d.cols));
        lines.push(format!("ROWSF 0 {}", d.cols));
        lines.push("VIEWS".into());
        return Case { lines };
    }
    // the classic hazards: DECRC, leaving the alternate screen, writing at the right edge
    let tail = *r.pick(&["\x1b8x", "\x1b[?1049lx", "\x1b[?47lx", "\x1b[999Cxy", "\x1b[X\x1b[T", "\x1b[P\x1b[@", "\x1b[L\x1b[M"]);
    lines.push(format!("P {}", hex(tail.as_bytes())));
    observers_all(&mut lines);
    lines.push("VIEWS".into());
    Case { lines }
}

/// single control sequence from a generated pre-state, full state before/after (per-op specs)
pub fn fam_csi(r: &mut Rng) -> Case {
    let (d, _cap, nl) = new_line(r, 1, false);
    let mut lines = vec![nl];
    let f = Feat { alt: r.chance(1, 5), ris: false, region: true, osc: false, garbage: false, modes: false, resize_csi: false };
    let mut b = gen_stream_n(r, d, 10, &f);
    let mut outside = false;
    if d.rows >= 3 && r.chance(1, 6) {
        // a region that is a proper part of the screen with the cursor outside it: the operation
        // below (often a cursor movement) must ignore margins it did not start inside
        let t = 2 + r.below(u64::from(d.rows) - 2);
        let bt = (t + r.below(2)).min(u64::from(d.rows) - 1).max(t);
        if t < bt || d.rows >= 4 {
            let (t, bt) = if t < bt { (t, bt) } else { (t - 1, t) };
            let row = if r.chance(2, 3) { bt + 1 + r.below(u64::from(d.rows) - bt) } else { 1 + r.below(t - 1) };
            b.extend(format!("\x1b[{t};{bt}r\x1b[{row};{}H", 1 + r.below(u64::from(d.cols))).as_bytes());
            outside = true;
        }
    }
    p_lines(r, &b, &mut lines);
    let mut scrolled = false;
    if _cap > 0 && r.chance(1, 3) {
        // scroll some lines off and look at the history while the operation is processed
        let mut pre = vec![];
        for _ in 0..(1 + r.below(u64::from(d.rows) + 1)) {
            pre.extend(b"\n");
        }
        for _ in 0..r.below(3) {
            gen_op(r, d, &mut pre, &f);
        }
        lines.push(format!("P {}", hex(&pre)));
        lines.push(format!("SB {}", 1 + r.below(3)));
        scrolled = true;
    }
    lines.push("DUMP".into());
    lines.push("LOG".into());
    let mut op = vec![];
    if scrolled && r.chance(1, 2) {
        // an editing idiom processed while the view is scrolled back
        let mut rr = Rng(r.next() | 1);
        loop {
            let mut tmp = vec![];
            idiom(&mut rr, d, &mut tmp);
            if !tmp.is_empty() {
                op = tmp;
                break;
            }
        }
        lines.push(format!("P {}", hex(&op)));
        lines.push("DUMP".into());
        lines.push("LOG".into());
        return Case { lines };
    }
    if r.chance(1, 12) {
        idiom_n(r, d, &mut op, 86);
        if !op.is_empty() {
            lines.push(format!("P {}", hex(&op)));
            lines.push("DUMP".into());
            lines.push("LOG".into());
            lines.push("FMT state".into());
            return Case { lines };
        }
    }
    match r.below(10) {
        0..=5 => {
            let mut fin = *r.pick(&['@', 'A', 'B', 'C', 'D', 'E', 'F', 'G', 'J', 'K', 'L', 'M', 'P', 'S', 'T', 'X', 'd', 'H', 'r', 'm', 'h', 'l', 't', 'n', 'c', 'p', 'q', 's', 'u', 'Z', 'I', 'b', 'f', 'g']);
            if outside && r.chance(2, 3) {
                fin = *r.pick(&['A', 'B', 'E', 'F', 'A', 'F', 'L', 'M', 'S', 'T', 'd']);
            }
            let mut p = param(r, d);
            if outside && r.chance(1, 2) {
                p = (*r.pick(&["", "2", "3", "99", "65535"])).to_string();
            }
            let q = param(r, d);
            let marker = *r.pick(&["", "", "", "?", ">", "!", " "]);
            if fin == 't' && r.chance(2, 3) {
                // window operations: the resize request and its neighbours, with and without sub-parameters
                p = (*r.pick(&["8", "8", "8:0", "8:1", "8:2:3", "7", "9", "18", "08"])).to_string();
            }
            match (marker, r.below(3)) {
                ("!", _) | (" ", _) => op.extend(format!("\x1b[{p}{marker}{fin}").as_bytes()),
                (_, 0) => op.extend(format!("\x1b[{marker}{p}{fin}").as_bytes()),
                (_, 1) => op.extend(format!("\x1b[{marker}{p};{q}{fin}").as_bytes()),
                _ => op.extend(format!("\x1b[{marker}{fin}").as_bytes()),
            }
        }
        6 => op.push(r.below(32) as u8),
        7 => {
            let i = *r.pick(&["", "", "(", "#", "( "]);
            let fin = (0x30 + r.below(0x4f)) as u8 as char;
            op.extend(format!("\x1b{i}{fin}").as_bytes());
        }
        8 => gen_text(r, &mut op),
        _ => gen_op(r, d, &mut op, &Feat::all()),
    }
    lines.push(format!("P {}", hex(&op)));
    lines.push("DUMP".into());
    lines.push("LOG".into());
    Case { lines }
}

/// modes
pub fn fam_modes(r: &mut Rng) -> Case {
    let d = Dim { rows: 2, cols: 4 };
    let mut lines = vec![format!("NEW {} {} 0 0", d.rows, d.cols)];
    let seqs = ["\x1b=", "\x1b>", "\x1b[?1h", "\x1b[?1l", "\x1b[?25h", "\x1b[?25l", "\x1b[?2004h", "\x1b[?2004l", "\x1b[?9h", "\x1b[?9l", "\x1b[?1000h", "\x1b[?1000l", "\x1b[?1002h", "\x1b[?1002l", "\x1b[?1003h", "\x1b[?1003l", "\x1b[?1005h", "\x1b[?1005l", "\x1b[?1006h", "\x1b[?1006l", "\x1b[?1;9;1006h", "\x1b[?1000;1005;25l", "\x1b[?1003;1002h", "\x1b[?9;9l", "x", "\x1b[?1001h", "\x1bc"];
    let n = 1 + r.below(6);
    let mut b = vec![];
    for _ in 0..n {
        if r.chance(1, 5) {
            idiom_n(r, d, &mut b, 81); // several private modes in one sequence, unknown ones in between
        } else {
            b.extend(r.pick(&seqs).as_bytes());
        }
    }
    lines.push(format!("P {}", hex(&b)));
    lines.push("SNAP 0".into());
    let m = r.below(5);
    let mut b2 = vec![];
    for _ in 0..m {
        b2.extend(r.pick(&seqs).as_bytes());
    }
    lines.push(format!("P {}", hex(&b2)));
    for l in ["DUMP", "FMT input", "FMT state", "DIFF input 0", "DIFF state 0", "LOG"] {
        lines.push(l.into());
    }
    Case { lines }
}

/// SGR
pub fn fam_sgr(r: &mut Rng) -> Case {
    let mut lines = vec!["NEW 2 6 0 0".to_string()];
    let n = 1 + r.below(4);
    let mut b = vec![];
    for _ in 0..n {
        match r.below(6) {
            0 => {
                let p = r.below(120);
                b.extend(format!("\x1b[{p}m").as_bytes());
            }
            1 => {
                let k = *r.pick(&["38", "48"]);
                let sep = *r.pick(&[";", ":"]);
                match r.below(3) {
                    0 => {
                        // half of the time an index at a boundary of the short/bright/256 encodings
                        let idx = if r.chance(1, 2) { *r.pick(&[0u64, 7, 8, 15, 16, 17, 231, 232, 255, 256]) } else { r.below(300) };
                        b.extend(format!("\x1b[{k}{sep}5{sep}{idx}m").as_bytes())
                    }
                    1 => b.extend(format!("\x1b[{k}{sep}2{sep}{}{sep}{}{sep}{}m", r.below(300), r.below(260), r.below(256)).as_bytes()),
                    _ => {
                        // an unknown colour-space selector, alone or followed by further parameters
                        let tailp = *r.pick(&["", ";1", ";99", ";1;31", ";3;4;7", ";5;1"]);
                        b.extend(format!("\x1b[{k}{sep}{}{tailp}m", r.below(10)).as_bytes())
                    }
                }
            }
            2 => {
                let m = 1 + r.below(6);
                let mut s = String::new();
                for i in 0..m {
                    if i > 0 {
                        s.push(*r.pick(&[';', ';', ';', ':']));
                    }
                    if r.chance(1, 8) {
                        // empty
                    } else {
                        write!(s, "{}", *r.pick(&[0u32, 1, 2, 3, 4, 5, 7, 22, 23, 24, 27, 31, 38, 39, 44, 48, 49, 92, 103, 255, 256])).unwrap();
                    }
                }
                b.extend(format!("\x1b[{s}m").as_bytes());
            }
            _ => {
                let s = *r.pick(SGR);
                b.extend(format!("\x1b[{s}m").as_bytes());
            }
        }
        if r.chance(1, 3) {
            b.push(b'x');
        }
    }
    lines.push(format!("P {}", hex(&b)));
    lines.push("SNAP 0".into());
    let mut b2 = vec![];
    for _ in 0..r.below(3) {
        let s = *r.pick(SGR);
        b2.extend(format!("\x1b[{s}my").as_bytes());
    }
    lines.push(format!("P {}", hex(&b2)));
    for l in ["DUMP", "FMT attrs", "FMT contents", "DIFF contents 0", "LOG"] {
        lines.push(l.into());
    }
    Case { lines }
}

/// accessors with boundary arguments (totality)
pub fn fam_acc(r: &mut Rng) -> Case {
    let resizing = r.chance(1, 5);
    let (mut d, cap, nl) = new_line(r, 1, resizing);
    let mut lines = vec![nl];
    let f = Feat::all();
    let b = gen_stream_n(r, d, 10, &f);
    p_lines(r, &b, &mut lines);
    lines.push("SNAP 0".into());
    if r.chance(1, 3) {
        let nr = 1 + r.below(u64::from(d.rows) + 3) as u16;
        let nc = 1 + r.below(u64::from(d.cols) + 3) as u16;
        lines.push(format!("SIZE {nr} {nc}"));
        lines.push("SNAP 0".into());
        d = Dim { rows: nr, cols: nc };
    }
    let b2 = gen_stream_n(r, d, 6, &f);
    p_lines(r, &b2, &mut lines);
    if cap > 0 {
        lines.push(format!("SB {}", r.below(5)));
    }
    let arg = |r: &mut Rng, n: u16| -> u64 {
        match r.below(8) {
            0 => 0,
            1 => 1,
            2 => u64::from(n.saturating_sub(1)),
            3 => u64::from(n),
            4 => u64::from(n) + 1,
            5 => *r.pick(&[255u64, 256, 65535, 65534]),
            _ => r.below(u64::from(n) + 2),
        }
    };
    for _ in 0..3 {
        let (s, w) = (arg(r, d.cols), arg(r, d.cols));
        lines.push(format!("ROWSF {s} {w}"));
        lines.push(format!("ROWSD 0 {s} {w}"));
        lines.push(format!("ROWS {s} {w}"));
        lines.push(format!("BETWEEN {} {} {} {}", arg(r, d.rows), arg(r, d.cols), arg(r, d.rows), arg(r, d.cols)));
        lines.push(format!("CELL {} {}", arg(r, d.rows), arg(r, d.cols)));
    }
    for l in ["FMT state", "FMT cursor", "FMT attrs", "DIFF state 0", "DIFF contents 0", "TEXT", "OBS", "DUMP"] {
        lines.push(l.into());
    }
    Case { lines }
}

/// alternate screen excursions
pub fn fam_alt(r: &mut Rng) -> Case {
    let (d, cap, nl) = new_line(r, 1, false);
    let mut lines = vec![nl];
    let f = Feat { alt: false, ris: false, region: true, osc: false, garbage: false, modes: true, resize_csi: false };
    let mut b = gen_stream_n(r, d, 10, &f);
    if r.chance(1, 3) {
        // a save/restore excursion with origin mode, a region and a pen (idiom 82)
        idiom_n(r, d, &mut b, 82);
        if r.chance(1, 2) {
            let more = gen_stream_n(r, d, 4, &f);
            b.extend(more);
        }
    }
    p_lines(r, &b, &mut lines);
    if cap > 0 && r.chance(1, 2) {
        lines.push(format!("SB {}", r.below(4)));
    }
    lines.push("DUMP".into());
    let enter = *r.pick(&["\x1b[?47h", "\x1b[?1049h"]);
    lines.push(format!("P {}", hex(enter.as_bytes())));
    lines.push("DUMP".into());
    let mut b2 = gen_stream_n(r, d, 10, &f);
    if r.chance(1, 3) {
        // wrap / wide-character situations while the alternate grid is the drawing grid
        let k = *r.pick(&[60u64, 61, 62, 64, 66, 69, 69]);
        idiom_n(r, d, &mut b2, k);
    }
    p_lines(r, &b2, &mut lines);
    if r.chance(1, 4) {
        lines.push(format!("SB {}", r.below(4)));
    }
    lines.push("DUMP".into());
    if r.chance(1, 3) {
        // text near the top, pushed down by SD / RI / IL, then out and in again through 1049 (which clears)
        let mv = *r.pick(&["\x1b[2T", "\x1b[5T", "\x1b[H\x1bM\x1bM", "\x1b[H\x1b[3L", "\x1b[T"]);
        let out_ = *r.pick(&["\x1b[?47l", "\x1b[?1049l"]);
        lines.push(format!("P {}", hex(format!("\x1b[Hab\x1b[42mc{mv}{out_}\x1b[?1049h").as_bytes())));
        lines.push("DUMP".into());
        lines.push("FMT state".into());
    }
    let exit = *r.pick(&["\x1b[?47l", "\x1b[?1049l"]);
    lines.push(format!("P {}", hex(exit.as_bytes())));
    lines.push("DUMP".into());
    lines.push("VIEWS".into());
    Case { lines }
}


/// diff pairs around a row that becomes (or stops being) wrapped between P and S
pub fn fam_wrapdiff(r: &mut Rng) -> Case {
    let rows = 2 + r.below(4) as u16;
    let cols = 2 + r.below(7) as u16;
    let d = Dim { rows, cols };
    let mut lines = vec![format!("NEW {} {} {} 0", rows, cols, *r.pick(&[0usize, 0, 3]))];
    let row = 1 + r.below(u64::from(rows) - 1) as u16; // 1-based row that gets filled
    let mut p = vec![];
    if r.chance(1, 3) {
        p.extend(format!("\x1b[3{}m", r.below(8)).as_bytes());
    }
    p.extend(format!("\x1b[{row};1H").as_bytes());
    let fill = |r: &mut Rng, out: &mut Vec<u8>, n: u16, wide_end: bool| {
        let mut left = n;
        while left > 0 {
            if wide_end && left == 2 {
                out.extend(r.pick(WIDE).as_bytes());
                left -= 2;
            } else if left >= 3 && r.chance(1, 6) {
                out.extend(r.pick(WIDE).as_bytes());
                left -= 2;
            } else {
                out.push(b'a' + r.below(26) as u8);
                left -= 1;
            }
        }
    };
    let wide_end = cols >= 3 && r.chance(1, 3);
    fill(r, &mut p, cols, wide_end);
    // next row's first cell: narrow, wide, coloured, blank, or blank with a colour
    let first: Vec<u8> = match r.below(6) {
        0 => r.pick(WIDE).as_bytes().to_vec(),
        1 => format!("\x1b[4{}m \x1b[m", r.below(8)).into_bytes(),
        2 => format!("\x1b[3{}mq\x1b[m", r.below(8)).into_bytes(),
        3 => vec![],
        _ => vec![b'A' + r.below(26) as u8],
    };
    let p_wraps = r.chance(1, 3);
    if !p_wraps {
        p.extend(b"\r\n");
    }
    p.extend(&first);
    if first.is_empty() && r.chance(1, 2) {
        p.extend(b"\x1b[C");
    }
    let tail_p = gen_stream_0(r, d, 3, &Feat::plain());
    p.extend(&tail_p);
    p_lines(r, &p, &mut lines);
    lines.push("SNAP 0".into());
    // S: the same picture, but the filled row now wraps (or no longer wraps) into the next one
    let mut q = vec![];
    q.extend(format!("\x1b[{row};{cols}H").as_bytes());
    if r.chance(1, 5) {
        q.extend(b"\x1b[K");
    }
    if wide_end {
        q.extend(format!("\x1b[{row};{}H", cols - 1).as_bytes());
        q.extend(r.pick(WIDE).as_bytes());
    } else {
        q.push(b'a' + r.below(26) as u8);
    }
    if p_wraps {
        q.extend(b"\r\n");
    }
    q.extend(&first);
    match r.below(4) {
        0 => {}
        1 => q.extend(format!("\x1b[{}C{}", r.below(3), (b'a' + r.below(26) as u8) as char).as_bytes()),
        2 => gen_text(r, &mut q),
        _ => q.extend(gen_stream_n(r, d, 3, &Feat::plain())),
    }
    p_lines(r, &q, &mut lines);
    for l in ["DUMP", "DIFF state 0", "DIFF contents 0", "FMT state"] {
        lines.push(l.into());
    }
    lines.push(format!("ROWSD 0 0 {cols}"));
    lines.push(format!("ROWSF 0 {cols}"));
    lines.push("SNAP 1".into());
    let extra = gen_stream_n(r, d, 3, &Feat::plain());
    p_lines(r, &extra, &mut lines);
    lines.push("DIFF state 1".into());
    lines.push("DIFF state 0".into());
    Case { lines }
}

/// cursor past the last column (pending wrap) in all the situations the cursor fix-up distinguishes
pub fn fam_cursorfix(r: &mut Rng) -> Case {
    let rows = 2 + r.below(5) as u16;
    let cols = 1 + r.below(7) as u16;
    let d = Dim { rows, cols };
    let cap = *r.pick(&[0usize, 0, 2, 5]);
    let mut lines = vec![format!("NEW {rows} {cols} {cap} 0")];
    let mut b = vec![];
    if r.chance(1, 2) {
        // a scroll region somewhere
        let t = 1 + r.below(u64::from(rows));
        let bt = t + r.below(u64::from(rows));
        b.extend(format!("\x1b[{t};{bt}r").as_bytes());
    }
    if r.chance(1, 4) {
        b.extend(b"\x1b[?6h");
    }
    b.extend(gen_stream_0(r, d, 4, &Feat::plain()));
    // fill some row up to the right margin (leaves the cursor pending)
    let row = 1 + r.below(u64::from(rows));
    b.extend(format!("\x1b[{row};1H").as_bytes());
    if r.chance(1, 4) {
        b.extend(format!("\x1b[4{}m", r.below(8)).as_bytes());
    }
    let mut left = cols;
    while left > 0 {
        if left == 2 && r.chance(1, 2) {
            b.extend(r.pick(WIDE).as_bytes());
            left -= 2;
        } else {
            b.push(b'a' + r.below(26) as u8);
            left -= 1;
        }
    }
    // now move / edit without leaving the pending column
    for _ in 0..r.below(4) {
        match r.below(9) {
            0 => b.extend(b"\n"),
            1 => b.extend(format!("\x1b[{}B", param(r, d)).as_bytes()),
            2 => b.extend(format!("\x1b[{}A", param(r, d)).as_bytes()),
            3 => b.extend(format!("\x1b[{}d", param(r, d)).as_bytes()),
            4 => b.extend(*r.pick(&[&b"\x1b[K"[..], b"\x1b[1K", b"\x1b[2K", b"\x1b[J", b"\x1b[X"])),
            5 => b.extend(*r.pick(&[&b"\x1b[L"[..], b"\x1b[M", b"\x1b[S", b"\x1b[T", b"\x1bM"])),
            6 => b.extend(format!("\x1b[4{}m", r.below(8)).as_bytes()),
            7 => b.extend(b"\x1b7"),
            _ => b.extend(b"\x0b"),
        }
    }
    p_lines(r, &b, &mut lines);
    if cap > 0 && r.chance(1, 3) {
        lines.push(format!("SB {}", 1 + r.below(3)));
    }
    lines.push("SNAP 0".into());
    for l in ["DUMP", "FMT state", "FMT cursor", "FMT contents"] {
        lines.push(l.into());
    }
    lines.push(format!("ROWSF 0 {cols}"));
    let more = gen_stream_0(r, d, 3, &Feat::plain());
    p_lines(r, &more, &mut lines);
    lines.push("DIFF state 0".into());
    lines.push("FMT state".into());
    Case { lines }
}

/// Deterministic enumeration of the dispatch tables (DESIGN 4.2 "exhaustive tables"): case i is the
/// i-th entry; None past the end.  Each entry is tried from three pre-states.
pub fn table_size() -> u64 {
    table_ops().len() as u64 * 3
}

fn table_ops() -> Vec<Vec<u8>> {
    let mut v: Vec<Vec<u8>> = vec![];
    // all 256 bytes in ground state (C0, printable ASCII, DEL, C1 and stray UTF-8 bytes)
    for b in 0..=255u8 {
        v.push(vec![b]);
    }
    // every C1 control as a 2-byte character, and U+FFFD
    for c in 0x80..=0x9fu32 {
        v.push(char::from_u32(c).unwrap().to_string().into_bytes());
    }
    v.push("\u{fffd}".as_bytes().to_vec());
    // ESC finals 0x30..=0x7e with zero, one, two and three intermediates
    for fin in 0x30..=0x7eu8 {
        for inter in [&b""[..], b"(", b"#", b" ", b"(#", b"$ ", b"(#%"] {
            let mut s = vec![0x1b];
            s.extend(inter);
            s.push(fin);
            if inter.is_empty() && matches!(fin, b'P' | b'X' | b'[' | b']' | b'^' | b'_') {
                s.extend(b"x\x1b\\"); // a string: close it
            }
            v.push(s);
        }
    }
    // CSI finals 0x40..=0x7e x markers x parameter shapes
    for fin in 0x40..=0x7eu8 {
        for marker in ["", "?", ">", "<", "="] {
            for params in ["", "0", "1", "2", "3", "5", "65535", "1;1", "2;3", "0;0", "8;3;4", "8;;2", "8", "1:2", ";", "3;", ";3"] {
                for inter in ["", " ", "!", "$", " !"] {
                    if !inter.is_empty() && !(params == "" || params == "2") {
                        continue;
                    }
                    v.push(format!("\x1b[{marker}{params}{inter}{}", fin as char).into_bytes());
                }
            }
        }
    }
    // SGR single parameters 0..=255 and boundary values
    for n in (0..=255u32).chain([256, 1000, 65535, 65536]) {
        v.push(format!("\x1b[{n}m").into_bytes());
    }
    for k in [38u32, 48] {
        for sep in [';', ':'] {
            for i in [0u32, 1, 7, 8, 15, 16, 17, 231, 232, 255, 256] {
                v.push(format!("\x1b[{k}{sep}5{sep}{i}m").into_bytes());
            }
            for (r, g, b) in [(0u32, 0u32, 0u32), (255, 255, 255), (1, 2, 3), (256, 0, 0), (0, 256, 0), (0, 0, 256)] {
                v.push(format!("\x1b[{k}{sep}2{sep}{r}{sep}{g}{sep}{b}m").into_bytes());
            }
            v.push(format!("\x1b[{k}m").into_bytes());
            v.push(format!("\x1b[{k}{sep}5m").into_bytes());
            v.push(format!("\x1b[{k}{sep}2{sep}1{sep}2m").into_bytes());
            v.push(format!("\x1b[{k}{sep}9{sep}1m").into_bytes());
        }
    }
    // extended colour with an unknown colour-space selector, alone or followed by more parameters
    for k in [38u32, 48] {
        for sel in [0u32, 1, 3, 4, 6, 7, 8, 9, 10, 255] {
            for tail in ["", ";1", ";99", ";1;31", ";5;1", ";2;1;2;3"] {
                v.push(format!("\x1b[{k};{sel}{tail}m").into_bytes());
            }
        }
    }
    // extended colours in the semicolon form whose arguments carry colon sub-parameters
    for k in [38u32, 48] {
        for form in ["5;1:2", "5;7:0;1", "2;1;2;3:4;1", "2;1:9;2;3", "2;1;2:2;3;4", "5:1;4", "2:1;2;3", "5;300:1;1"] {
            v.push(format!("\x1b[{k};{form}m").into_bytes());
            v.push(format!("\x1b[1;{k};{form};4m").into_bytes());
        }
    }
    // window operations with sub-parameters
    for p in ["8:0", "8:1;3;4", "8;3:1;4:2", "8:;3;4", "8;3;4:9", "18", "7"] {
        v.push(format!("\x1b[{p}t").into_bytes());
    }
    // SGR pairs over the interesting parameters (order matters: unknown ones must not affect later ones)
    {
        let ps = [0u32, 1, 2, 3, 4, 5, 7, 9, 10, 21, 22, 23, 24, 27, 30, 37, 38, 39, 40, 47, 48, 49, 53, 58, 90, 97, 100, 107, 108, 255];
        for a in ps {
            for b in ps {
                v.push(format!("\x1b[{a};{b}m").into_bytes());
            }
        }
    }
    // every ordered pair of mouse mode / encoding switches, set-set, set-reset, and in one sequence
    {
        let ms = [9u32, 1000, 1002, 1003, 1005, 1006, 1015];
        for a in ms {
            for b in ms {
                v.push(format!("\x1b[?{a}h\x1b[?{b}l").into_bytes());
                v.push(format!("\x1b[?{a}h\x1b[?{b}h").into_bytes());
                v.push(format!("\x1b[?{a};{b}h").into_bytes());
                v.push(format!("\x1b[?{a}h\x1b[?{b};{a}l").into_bytes());
            }
        }
    }
    // DECSET / DECRST numbers 0..=2100
    for n in 0..=2100u32 {
        v.push(format!("\x1b[?{n}h").into_bytes());
        v.push(format!("\x1b[?{n}l").into_bytes());
    }
    // OSC with 0..=17 fields, both terminators, and an overlong one
    for nf in 0..=17usize {
        for term in ["\x07", "\x1b\\"] {
            let fields: Vec<String> = (0..nf).map(|i| if i == 0 { "2".to_string() } else { format!("f{i}") }).collect();
            v.push(format!("\x1b]{}{term}", fields.join(";")).into_bytes());
        }
    }
    // OSC selectors that are numerically 0/1/2 but not the literal digit, and their neighbours
    for sel in ["0", "1", "2", "3", "00", "01", "02", "000", "+0", "+1", "+2", "-0", " 0", "0 ", "2 ", "1x", "", "10", "21", "0.0", "٠", "０"] {
        for term in ["\x07", "\x1b\\"] {
            v.push(format!("\x1b]{sel};title{term}").into_bytes());
            v.push(format!("\x1b]{sel}{term}").into_bytes());
            v.push(format!("\x1b]{sel};a;b{term}").into_bytes());
        }
    }
    // DECSET / DECRST lists at and beyond vte's limit of 32 parameters (the first 32 still apply)
    for n in [31usize, 32, 33, 34, 40] {
        for fin in ["h", "l"] {
            let modes = ["1", "2004", "25", "1000", "1006", "9", "1002", "1005", "1003", "6"];
            let list: Vec<&str> = (0..n).map(|i| modes[i % modes.len()]).collect();
            v.push(format!("\x1b[?{}{fin}", list.join(";")).into_bytes());
            v.push(format!("\x1b[?1;25;2004;1003;1006h\x1b[?{}{fin}", list.join(";")).into_bytes());
        }
        let sg: Vec<String> = (0..n).map(|i| format!("{}", [1, 3, 4, 7, 31, 42, 22, 23][i % 8])).collect();
        v.push(format!("\x1b[{}m", sg.join(";")).into_bytes());
        v.push(format!("\x1b[?{}J", vec!["0"; n].join(";")).into_bytes());
    }
    // DECSET / DECRST with sub-parameters on recognised mode numbers (must stay unrecognised)
    for m in ["1", "6", "9", "25", "47", "1000", "1002", "1003", "1005", "1006", "1049", "2004"] {
        for sub in [":0", ":1", ":", ":1:2"] {
            for fin in ["h", "l"] {
                v.push(format!("\x1b[?{m}{sub}{fin}").into_bytes());
                v.push(format!("\x1b[?{m}h\x1b[?{m}{sub}{fin}").into_bytes());
                v.push(format!("\x1b[?{m}h\x1b[?7;{m}{sub};12{fin}").into_bytes());
            }
        }
    }
    v.push(format!("\x1b]0;{}\x07", "x".repeat(1100)).into_bytes());
    v.push(format!("\x1b]{}\x07", "a;".repeat(600)).into_bytes());
    v
}

pub fn table_case(i: u64) -> Option<Case> {
    let ops = table_ops();
    let n = ops.len() as u64;
    if i >= 3 * n {
        return None;
    }
    let op = &ops[(i % n) as usize];
    let pre: &[u8] = match i / n {
        0 => b"",
        1 => b"\x1b[31;44mab\xe4\xb8\x96cd\r\nefgh\x1b[2;3r\x1b[?6h\x1b[1;2H\x1b7",
        _ => b"\x1b[?1049h\x1b[1mwxyz123\x1b[2;2H\x1b[?25l\x1b[?1000h",
    };
    let mut lines = vec!["NEW 4 6 3 1".to_string()];
    if !pre.is_empty() {
        lines.push(format!("P {}", hex(pre)));
    }
    lines.push("DUMP".into());
    lines.push("LOG".into());
    lines.push("SNAP 0".into());
    lines.push("VNEW".into());
    lines.push(format!("P {}", hex(op)));
    lines.push(format!("VP {}", hex(op)));
    lines.push("DUMP".into());
    lines.push("LOG".into());
    lines.push("FMT state".into());
    lines.push("FMT attrs".into());
    lines.push("FMT input".into());
    lines.push("DIFF state 0".into());
    lines.push("DIFF input 0".into());
    // and back: the diff from the new state to the old one
    lines.push("SNAP 1".into());
    lines.push("P 1b5b6d1b5b3f313030306c1b5b3f313030366c".into());
    lines.push("DIFF state 1".into());
    Some(Case { lines })
}

/// Bounded-exhaustive family: every sequence of up to 3 operations over a 32-token alphabet, and
/// every sequence of 4 and 5 operations over a 12-token core alphabet, on four tiny screens.
/// Deterministic: case i is a function of i alone.
const EXH_TOKENS: &[&[u8]] = &[
    b"a", b"\xe4\xb8\x96", b"\xcc\x81", b"\r", b"\n", b"\x08", b"\x1b[K", b"\x1b[X", b"\x1b[@", b"\x1b[P", b"\x1b[A", b"\x1b[41m",
    b"b", b"\t", b"\x1b[L", b"\x1b[M", b"\x1bM", b"\x1b[C", b"\x1b[H", b"\x1b[2;2H", b"\x1b[m", b"\x1b[J", b"\x1b[1K", b"\x1b[S",
    b"\x1b[T", b"\x1b7", b"\x1b8", b"\x1b[?1049h", b"\x1b[?1049l", b"\x1b[1;2r", b"\x1b[?6h", b"\x1bc",
];
const EXH_CORE: u64 = 12;
const EXH_SIZES: &[(u16, u16)] = &[(2, 3), (2, 2), (1, 3), (3, 2)];

pub fn exh_size() -> u64 {
    let n = EXH_TOKENS.len() as u64;
    (n + n * n + n * n * n + EXH_CORE.pow(4) + EXH_CORE.pow(5)) * EXH_SIZES.len() as u64
}

pub fn exh_case(i: u64) -> Option<Case> {
    if i >= exh_size() {
        return None;
    }
    let (rows, cols) = EXH_SIZES[(i % EXH_SIZES.len() as u64) as usize];
    let mut j = i / EXH_SIZES.len() as u64;
    let n = EXH_TOKENS.len() as u64;
    let (len, base) = if j < n {
        (1, n)
    } else if j < n + n * n {
        j -= n;
        (2, n)
    } else if j < n + n * n + n * n * n {
        j -= n + n * n;
        (3, n)
    } else if j < n + n * n + n * n * n + EXH_CORE.pow(4) {
        j -= n + n * n + n * n * n;
        (4, EXH_CORE)
    } else {
        j -= n + n * n + n * n * n + EXH_CORE.pow(4);
        (5, EXH_CORE)
    };
    let mut toks: Vec<&[u8]> = vec![];
    for _ in 0..len {
        toks.push(EXH_TOKENS[(j % base) as usize]);
        j /= base;
    }
    let mut lines = vec![format!("NEW {rows} {cols} 1 0")];
    let (pre, last) = toks.split_at(toks.len() - 1);
    let pre: Vec<u8> = pre.iter().flat_map(|t| t.iter().copied()).collect();
    if !pre.is_empty() {
        lines.push(format!("P {}", hex(&pre)));
    }
    lines.push("SNAP 0".into());
    lines.push(format!("P {}", hex(last[0])));
    for l in ["DUMP", "OBS", "LOG", "FMT state", "FMT contents", "FMT cursor", "DIFF state 0", "DIFF contents 0", "TEXT"] {
        lines.push(l.into());
    }
    lines.push(format!("ROWSF 0 {cols}"));
    lines.push(format!("ROWSD 0 0 {cols}"));
    lines.push("VIEWS".into());
    Some(Case { lines })
}

/// Systematic "pre-state class x operation x parameter" enumeration (deterministic):
/// content x scroll region x cursor placement x screen, then ONE operation, observed before and after.
const OPX_SIZES: &[(u16, u16)] = &[(4, 5), (3, 3), (2, 2), (1, 4)];
const OPX_CONTENTS: u64 = 5;
const OPX_REGIONS: u64 = 6;
const OPX_CURSORS: u64 = 8;
const OPX_SCREENS: u64 = 2;

fn opx_ops() -> Vec<Vec<u8>> {
    let mut v: Vec<Vec<u8>> = vec![];
    let params = ["", "0", "1", "2", "3", "4", "5", "6", "65535"];
    for fin in ['A', 'B', 'C', 'D', 'E', 'F', 'G', 'd', '`', 'a', 'e', '@', 'P', 'X', 'L', 'M', 'S', 'T', 'Z', 'I', 'b'] {
        for p in params {
            v.push(format!("\x1b[{p}{fin}").into_bytes());
        }
    }
    for fin in ['J', 'K'] {
        for p in ["", "0", "1", "2", "3", "4"] {
            v.push(format!("\x1b[{p}{fin}").into_bytes());
            v.push(format!("\x1b[?{p}{fin}").into_bytes());
        }
    }
    for fin in ['H', 'f', 'r'] {
        for a in ["", "0", "1", "2", "3", "4", "5", "65535"] {
            for b in ["", "1", "2", "3", "5", "6", "65535"] {
                v.push(format!("\x1b[{a};{b}{fin}").into_bytes());
            }
            v.push(format!("\x1b[{a}{fin}").into_bytes());
        }
    }
    for b in [8u8, 9, 10, 11, 12, 13] {
        v.push(vec![b]);
    }
    for e in ["\x1bM", "\x1bD", "\x1bE", "\x1b7", "\x1b8", "\x1bc", "\x1b[s", "\x1b[u", "\x1b[?6h", "\x1b[?6l", "\x1b[?1049h", "\x1b[?1049l", "\x1b[?47h", "\x1b[?47l"] {
        v.push(e.as_bytes().to_vec());
    }
    for t in ["x", "\u{4e16}", "\u{301}", "xy", "\u{4e16}\u{754c}", "x\u{301}", "\u{a0}", "\u{85}"] {
        v.push(t.as_bytes().to_vec());
    }
    // set_size relative to the current size: 0xff 'S' (rows delta + 2) (cols delta + 2)
    for dr in 0..=4u8 {
        for dc in 0..=4u8 {
            if dr != 2 || dc != 2 {
                v.push(vec![0xff, b'S', dr, dc]);
            }
        }
    }
    // set_scrollback k: 0xff 'B' k
    for k in 0..=3u8 {
        v.push(vec![0xff, b'B', k]);
    }
    v
}

pub fn opx_size() -> u64 {
    opx_ops().len() as u64 * OPX_SIZES.len() as u64 * OPX_CONTENTS * OPX_REGIONS * OPX_CURSORS * OPX_SCREENS
}

pub fn opx_case(i: u64) -> Option<Case> {
    let ops = opx_ops();
    if i >= opx_size() {
        return None;
    }
    let mut j = i;
    let mut take = |n: u64| {
        let x = j % n;
        j /= n;
        x
    };
    // the operation varies fastest, so a window of consecutive indices covers all operations of a pre-state
    let op = &ops[take(ops.len() as u64) as usize];
    let cursor = take(OPX_CURSORS);
    let region = take(OPX_REGIONS);
    let content = take(OPX_CONTENTS);
    let screen = take(OPX_SCREENS);
    let (rows, cols) = OPX_SIZES[take(OPX_SIZES.len() as u64) as usize];
    let mut pre: Vec<u8> = vec![];
    if screen == 1 {
        pre.extend(b"\x1b[?1049h");
    }
    match content {
        0 => {}
        1 => {
            // every row full: all rows but the last are flagged wrapped; on odd cursor classes the
            // rows end in a wide character (which then sits in the last two columns of a wrapped row)
            if cursor % 2 == 1 && cols >= 3 {
                for _ in 0..rows {
                    for i in 0..(u32::from(cols) - 2) {
                        pre.push(b'a' + (i % 26) as u8);
                    }
                    pre.extend("\u{754c}".as_bytes());
                }
            } else {
                for i in 0..(u32::from(rows) * u32::from(cols)) {
                    pre.push(b'a' + (i % 26) as u8);
                }
            }
        }
        2 => {
            // wide characters, one of them in the last two columns, a combining mark
            for r in 1..=rows {
                pre.extend(format!("\x1b[{r};1H").as_bytes());
                if cols >= 2 {
                    pre.extend("\u{4e16}".as_bytes());
                }
                if cols >= 3 {
                    pre.extend("e\u{301}".as_bytes());
                }
                if cols >= 4 {
                    pre.extend(format!("\x1b[{r};{}H", cols - 1).as_bytes());
                    pre.extend("\u{754c}".as_bytes());
                }
            }
        }
        3 => {
            // sparse text with colours and coloured blanks
            pre.extend(b"\x1b[41mq\x1b[2X\x1b[m");
            pre.extend(format!("\x1b[{rows};{cols}H\x1b[1;32mz\x1b[m").as_bytes());
        }
        _ => {
            // text that wraps once, then a short line, with scrollback history above
            for i in 0..(u32::from(cols) + 2) {
                pre.push(b'k' + (i % 10) as u8);
            }
            pre.extend(b"\r\nuv\r\n\r\n\r\n\r\nw");
        }
    }
    let rr = u64::from(rows);
    match region {
        0 => {}
        1 => pre.extend(format!("\x1b[2;{}r", (rr - 1).max(2)).as_bytes()),     // proper inner region
        2 => pre.extend(format!("\x1b[1;{}r", (rr - 1).max(1)).as_bytes()),     // anchored at the top
        3 => pre.extend(format!("\x1b[2;{}r", rr).as_bytes()),                   // anchored at the bottom
        4 => pre.extend(format!("\x1b[2;{}r\x1b[?6h", (rr - 1).max(2)).as_bytes()), // origin mode
        _ => pre.extend(format!("\x1b[{};{}r", rr.min(3), rr.min(3) + 1).as_bytes()), // two lines near the bottom / invalid on tiny screens
    }
    // cursor placement (absolute: origin mode is switched off around the CUP so that the cursor can
    // be put outside the region)
    let place = |pre: &mut Vec<u8>, r: u64, c: u64| {
        if region == 4 {
            pre.extend(format!("\x1b[?6l\x1b[{r};{c}H\x1b[?6h").as_bytes());
            // DECOM set homes the cursor: re-place it with a relative move sequence instead
            pre.extend(format!("\x1b[?6l\x1b[{r};{c}H").as_bytes());
        } else {
            pre.extend(format!("\x1b[{r};{c}H").as_bytes());
        }
    };
    let cc = u64::from(cols);
    match cursor {
        0 => place(&mut pre, 1, 1),
        1 => place(&mut pre, rr, cc),
        2 => place(&mut pre, 2.min(rr), 2.min(cc)),
        3 => place(&mut pre, rr, 1),
        4 => {
            // pending wrap on the first row
            place(&mut pre, 1, cc);
            pre.push(b'P');
        }
        5 => {
            // pending wrap on the last row
            place(&mut pre, rr, cc);
            pre.push(b'Q');
        }
        6 => {
            // on the second half of a wide character (content 2 puts one at columns 1-2 of every row)
            place(&mut pre, (rr + 1) / 2, 2.min(cc));
        }
        _ => place(&mut pre, (rr + 1) / 2, cc.saturating_sub(1).max(1)),
    }
    if region == 4 && cursor % 2 == 0 {
        pre.extend(b"\x1b[?6h\x1b[1;1H"); // origin mode stays on for half of the placements
    }
    if (cursor + region + content) % 3 == 1 {
        pre.extend(b"\x1b[1;32;41m"); // a non-default pen for a third of the pre-states
    }
    let mut lines = vec![format!("NEW {rows} {cols} 2 0")];
    lines.push(format!("P {}", hex(&pre)));
    if content == 4 && cursor % 2 == 1 {
        lines.push("SB 1".into()); // the operation is processed while the view is scrolled back
    }
    lines.push("SNAP 0".into());
    lines.push("DUMP".into());
    let opline = if op.first() == Some(&0xff) && op.get(1) == Some(&b'S') {
        let nr = (i32::from(rows) + i32::from(op[2]) - 2).max(1);
        let nc = (i32::from(cols) + i32::from(op[3]) - 2).max(1);
        format!("SIZE {nr} {nc}")
    } else if op.first() == Some(&0xff) {
        format!("SB {}", op[2])
    } else {
        format!("P {}", hex(op))
    };
    let resized = opline.starts_with("SIZE");
    lines.push(opline.clone());
    for l in ["DUMP", "OBS", "LOG", "FMT state", "TEXT"] {
        lines.push(l.into());
    }
    if !resized {
        lines.push("DIFF state 0".into());
        lines.push(format!("ROWSD 0 0 {cols}"));
        lines.push(format!("ROWSD 0 1 {}", cols.saturating_sub(1).max(1)));
    }
    lines.push(format!("ROWSF 0 {cols}"));
    lines.push(format!("ROWSF 1 {}", cols + 1));
    lines.push(format!("ROWS 1 {}", cols));
    lines.push(format!("BETWEEN 0 1 {} {}", rows - 1, cols.saturating_sub(1)));
    // and the same operation once more (pending states, repeated scrolls), then text at the cursor
    lines.push(opline);
    lines.push("DUMP".into());
    lines.push("P 7a".into());
    lines.push("DUMP".into());
    lines.push("VIEWS".into());
    Some(Case { lines })
}

/// Pens with the same observable value reached by different histories (faint while bold, bold
/// while faint, set-then-reset bits, a palette colour by its two encodings), used by erases over
/// the same and over adjacent cells: a representation of the pen that keeps more than its
/// observable value shows in cell equality (diffs between equal screens) and in erase runs.
pub fn fam_pen(r: &mut Rng) -> Case {
    let rows = 1 + r.below(4) as u16;
    let cols = 2 + r.below(8) as u16;
    let d = Dim { rows, cols };
    let mut lines = vec![format!("NEW {rows} {cols} 0 0")];
    let mut b = gen_stream_0(r, d, 3, &Feat::plain());
    let colour = match r.below(4) {
        0 => format!("\x1b[4{}m", 1 + r.below(7)),
        1 => format!("\x1b[3{}m", 1 + r.below(7)),
        2 => format!("\x1b[48;5;{}m", r.below(256)),
        _ => String::new(),
    };
    // (history, direct): two ways to the same observable pen
    let (hist, direct) = *r.pick(&[
        ("\x1b[1m\x1b[2m", "\x1b[2m"),
        ("\x1b[1;2m", "\x1b[2m"),
        ("\x1b[2m\x1b[1m", "\x1b[1m"),
        ("\x1b[2;1m", "\x1b[1m"),
        ("\x1b[1m\x1b[2m\x1b[22m", ""),
        ("\x1b[1m\x1b[2m\x1b[1m", "\x1b[1m"),
        ("\x1b[3m\x1b[23m", ""),
        ("\x1b[7m\x1b[27m", ""),
        ("\x1b[4m\x1b[24m\x1b[7m", "\x1b[7m"),
        ("\x1b[38;5;3m", "\x1b[33m"),
        ("\x1b[38;5;12m", "\x1b[94m"),
        ("\x1b[31m\x1b[39m", ""),
    ]);
    let row = 1 + r.below(u64::from(rows));
    let col = 1 + r.below(u64::from(cols));
    let n = 1 + r.below(4);
    let erase = |r: &mut Rng| -> String {
        match r.below(4) {
            0 => "\x1b[K".to_string(),
            1 => "\x1b[2K".to_string(),
            _ => format!("\x1b[{n}X"),
        }
    };
    let (first, second) = if r.chance(1, 2) { (hist, direct) } else { (direct, hist) };
    b.extend(format!("\x1b[{row};{col}H\x1b[m{colour}{first}").as_bytes());
    b.extend(erase(r).as_bytes());
    p_lines(r, &b, &mut lines);
    lines.push("SNAP 0".into());
    for l in ["DUMP", "FMT state", "FMT contents", "FMT attrs"] {
        lines.push(l.into());
    }
    lines.push(format!("ROWSF 0 {cols}"));
    let mut b2 = vec![];
    b2.extend(format!("\x1b[m{colour}{second}").as_bytes());
    if r.chance(1, 2) {
        // the cells right behind the first run; otherwise the same cells again
        b2.extend(format!("\x1b[{n}C").as_bytes());
    }
    b2.extend(erase(r).as_bytes());
    if r.chance(1, 3) {
        gen_text(r, &mut b2);
    }
    p_lines(r, &b2, &mut lines);
    for l in ["DUMP", "DIFF contents 0", "DIFF state 0", "FMT contents", "FMT state", "FMT attrs"] {
        lines.push(l.into());
    }
    lines.push(format!("ROWSF 0 {cols}"));
    lines.push(format!("ROWSD 0 0 {cols}"));
    Case { lines }
}

pub fn family(name: &str) -> fn(&mut Rng) -> Case {
    match name {
        "stream" => fam_stream,
        "emit" => fam_emit,
        "text" => fam_text,
        "chunk" => fam_chunk,
        "sb" => fam_sb,
        "resize" => fam_resize,
        "csi" => fam_csi,
        "modes" => fam_modes,
        "sgr" => fam_sgr,
        "acc" => fam_acc,
        "alt" => fam_alt,
        "wrapdiff" => fam_wrapdiff,
        "cursorfix" => fam_cursorfix,
        "pen" => fam_pen,
        _ => panic!("unknown family {name}"),
    }
}
