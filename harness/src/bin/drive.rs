// drive: runs operation scripts against the real crate (built from /repo's
// working tree with --cfg vt100_verif) and prints canonical observations.
// Usage: drive <script-file>   (output on stdout)
use std::fmt::Write as _;
use std::io::Write as _;
use vt100_verif_harness::{hex, obs, panic_kind, unhex, Recorder};

struct Ctx {
    parser: Option<vt100::Parser<Recorder>>,
    // a Parser with the default callbacks (the only instantiation that implements io::Write),
    // fed the same history; kept only when the recorded parser does not honour resize requests
    twin: Option<vt100::Parser>,
    snaps: std::collections::HashMap<u32, vt100::Screen>,
    vte: Option<vte::Parser>,
}

#[derive(Default)]
struct ActRec {
    out: Vec<String>,
}

fn vparams(params: &vte::Params) -> String {
    let v: Vec<&[u16]> = params.iter().collect();
    vt100_verif_harness::params_str(&v)
}
fn inter_str(i: &[u8]) -> String {
    if i.is_empty() {
        "-".into()
    } else {
        hex(i)
    }
}

impl vte::Perform for ActRec {
    fn print(&mut self, c: char) {
        self.out.push(format!("ACT print {}", u32::from(c)));
    }
    fn execute(&mut self, b: u8) {
        self.out.push(format!("ACT exec {b}"));
    }
    fn hook(&mut self, params: &vte::Params, i: &[u8], ign: bool, c: char) {
        self.out.push(format!("ACT hook {} {} {} {}", vparams(params), inter_str(i), u8::from(ign), u32::from(c)));
    }
    fn put(&mut self, b: u8) {
        self.out.push(format!("ACT put {b}"));
    }
    fn unhook(&mut self) {
        self.out.push("ACT unhook".into());
    }
    fn osc_dispatch(&mut self, params: &[&[u8]], bell: bool) {
        let mut s = format!("ACT osc {} {}", u8::from(bell), params.len());
        for p in params {
            s.push_str(" x");
            s.push_str(&hex(p));
        }
        self.out.push(s);
    }
    fn csi_dispatch(&mut self, params: &vte::Params, i: &[u8], ign: bool, c: char) {
        self.out.push(format!("ACT csi {} {} {} {}", vparams(params), inter_str(i), u8::from(ign), u32::from(c)));
    }
    fn esc_dispatch(&mut self, i: &[u8], ign: bool, b: u8) {
        self.out.push(format!("ACT esc {} {} {}", inter_str(i), u8::from(ign), b));
    }
}

fn num<T: std::str::FromStr>(s: &str) -> T
where
    T::Err: std::fmt::Debug,
{
    s.parse::<T>().unwrap()
}

fn rows_out(tag: &str, rows: impl Iterator<Item = Vec<u8>>, out: &mut String) {
    for (i, r) in rows.enumerate() {
        writeln!(out, "{tag} {i} {}", hex(&r)).unwrap();
    }
}

fn exec(ctx: &mut Ctx, line: &str, out: &mut String) {
    let f: Vec<&str> = line.split_whitespace().collect();
    if f.is_empty() {
        return;
    }
    match f[0] {
        "NEW" => {
            let rec = Recorder { events: vec![], resizing: f[4] == "1" };
            ctx.parser = Some(vt100::Parser::new_with_callbacks(num(f[1]), num(f[2]), num(f[3]), rec));
            ctx.twin = if f[4] == "1" { None } else { Some(vt100::Parser::new(num(f[1]), num(f[2]), num(f[3]))) };
            ctx.snaps.clear();
        }
        "P" => {
            let b = if f.len() > 1 { unhex(f[1]) } else { vec![] };
            ctx.parser.as_mut().unwrap().process(&b);
            if let Some(t) = ctx.twin.as_mut() {
                t.process(&b);
            }
        }
        "W" => {
            let b = if f.len() > 1 { unhex(f[1]) } else { vec![] };
            let p = ctx.parser.as_mut().unwrap();
            // io::Write is implemented for Parser<()> only: call it on the twin and compare the
            // twin's complete state with process() on the recorded parser
            p.process(&b);
            let (n, same) = match ctx.twin.as_mut() {
                Some(t) => {
                    use std::io::Write as _;
                    let n = t.write(&b).unwrap();
                    t.flush().unwrap();
                    (n, t.screen().verif_dump() == p.screen().verif_dump())
                }
                None => (b.len(), true),
            };
            writeln!(out, "W {} {}", n, if same { "same" } else { "DIFFERENT-FROM-PROCESS" }).unwrap();
        }
        "SIZE" => {
            ctx.parser.as_mut().unwrap().screen_mut().set_size(num(f[1]), num(f[2]));
            if let Some(t) = ctx.twin.as_mut() {
                t.screen_mut().set_size(num(f[1]), num(f[2]));
            }
        }
        "SB" => {
            ctx.parser.as_mut().unwrap().screen_mut().set_scrollback(num(f[1]));
            if let Some(t) = ctx.twin.as_mut() {
                t.screen_mut().set_scrollback(num(f[1]));
            }
        }
        "SNAP" => {
            let s = ctx.parser.as_ref().unwrap().screen().clone();
            ctx.snaps.insert(num(f[1]), s);
        }
        "DUMP" => out.push_str(&ctx.parser.as_ref().unwrap().screen().verif_dump()),
        "OBS" => out.push_str(&obs(ctx.parser.as_ref().unwrap().screen())),
        "LOG" => {
            let p = ctx.parser.as_mut().unwrap();
            for e in p.callbacks_mut().events.drain(..) {
                out.push_str(&e);
                out.push('\n');
            }
            out.push_str("LOGEND\n");
        }
        "FMT" => {
            let s = ctx.parser.as_ref().unwrap().screen();
            let b = match f[1] {
                "contents" => s.contents_formatted(),
                "state" => s.state_formatted(),
                "input" => s.input_mode_formatted(),
                "attrs" => s.attributes_formatted(),
                "cursor" => s.cursor_state_formatted(),
                _ => panic!("bad FMT"),
            };
            writeln!(out, "FMT {} {}", f[1], hex(&b)).unwrap();
        }
        "DIFF" => {
            let s = ctx.parser.as_ref().unwrap().screen();
            let prev = &ctx.snaps[&num::<u32>(f[2])];
            let b = match f[1] {
                "contents" => s.contents_diff(prev),
                "state" => s.state_diff(prev),
                "input" => s.input_mode_diff(prev),
                _ => panic!("bad DIFF"),
            };
            writeln!(out, "DIFF {} {}", f[1], hex(&b)).unwrap();
        }
        "ROWSF" => {
            let s = ctx.parser.as_ref().unwrap().screen();
            rows_out("ROWSF", s.rows_formatted(num(f[1]), num(f[2])), out);
        }
        "ROWSD" => {
            let s = ctx.parser.as_ref().unwrap().screen();
            let prev = &ctx.snaps[&num::<u32>(f[1])];
            rows_out("ROWSD", s.rows_diff(prev, num(f[2]), num(f[3])), out);
        }
        "ROWS" => {
            let s = ctx.parser.as_ref().unwrap().screen();
            rows_out("ROWS", s.rows(num(f[1]), num(f[2])).map(String::into_bytes), out);
        }
        "TEXT" => {
            let s = ctx.parser.as_ref().unwrap().screen();
            writeln!(out, "TEXT {}", hex(s.contents().as_bytes())).unwrap();
        }
        "BETWEEN" => {
            let s = ctx.parser.as_ref().unwrap().screen();
            let t = s.contents_between(num(f[1]), num(f[2]), num(f[3]), num(f[4]));
            writeln!(out, "BETWEEN {}", hex(t.as_bytes())).unwrap();
        }
        "CELL" => {
            let s = ctx.parser.as_ref().unwrap().screen();
            let r: u16 = num(f[1]);
            let c: u16 = num(f[2]);
            match s.cell(r, c) {
                Some(cell) => writeln!(out, "CELL {}", vt100_verif_harness::cell_str(cell)).unwrap(),
                None => out.push_str("CELL NONE\n"),
            }
            writeln!(out, "WRAPPED {}", u8::from(s.row_wrapped(r))).unwrap();
        }
        "VIEWS" => {
            // the observation at every scrollback offset, on clones
            let s = ctx.parser.as_ref().unwrap().screen();
            let mut k = 0usize;
            loop {
                let mut c = s.clone();
                c.set_scrollback(k);
                writeln!(out, "VIEW {k} {}", c.scrollback()).unwrap();
                out.push_str(&obs(&c));
                if c.scrollback() < k {
                    break;
                }
                k += 1;
            }
        }
        "VNEW" => ctx.vte = Some(vte::Parser::new()),
        "VP" => {
            let b = if f.len() > 1 { unhex(f[1]) } else { vec![] };
            let mut rec = ActRec::default();
            ctx.vte.as_mut().unwrap().advance(&mut rec, &b);
            for a in rec.out {
                out.push_str(&a);
                out.push('\n');
            }
            out.push_str("ACTEND\n");
        }
        _ => panic!("unknown op {}", f[0]),
    }
}

fn main() {
    let path = std::env::args().nth(1).expect("script file");
    let text = std::fs::read_to_string(path).unwrap();
    std::panic::set_hook(Box::new(|_| {}));
    let stdout = std::io::stdout();
    let mut w = std::io::BufWriter::new(stdout.lock());
    let mut ctx = Ctx { parser: None, twin: None, snaps: Default::default(), vte: None };
    let mut dead = false;
    for line in text.lines() {
        if line.starts_with("CASE") {
            writeln!(w, "{line}").unwrap();
            dead = false;
            ctx = Ctx { parser: None, twin: None, snaps: Default::default(), vte: None };
            continue;
        }
        if dead || line.starts_with('#') {
            continue;
        }
        let mut out = String::new();
        let r = std::panic::catch_unwind(std::panic::AssertUnwindSafe(|| exec(&mut ctx, line, &mut out)));
        match r {
            Ok(()) => w.write_all(out.as_bytes()).unwrap(),
            Err(e) => {
                let msg = if let Some(s) = e.downcast_ref::<String>() {
                    s.clone()
                } else if let Some(s) = e.downcast_ref::<&str>() {
                    (*s).to_string()
                } else {
                    "?".into()
                };
                writeln!(w, "PANIC {}", panic_kind(&msg)).unwrap();
                dead = true;
            }
        }
    }
}
