// oracle: implementation-level property oracles (see /verif/notes/oracle-spec.md).
// Usage: oracle <Cxx> <scriptfile> <seed> <tier>
//
// The oracles are written from the property statements in /verif/properties.jsonl;
// they only use the public API of the crate plus `Screen::verif_dump()`.
#![allow(clippy::too_many_arguments, clippy::too_many_lines)]
use std::cell::RefCell;
use std::collections::{BTreeMap, HashMap};
use std::fmt::Write as _;
use std::io::Write as _;
use std::panic::{catch_unwind, AssertUnwindSafe};
use vt100::Screen;
use vt100_verif_harness::{cell_str, gen, hex, mouse_enc_num, mouse_mode_num, obs, unhex, Recorder, Rng};

type Par = vt100::Parser<Recorder>;

// ---------------------------------------------------------------------------
// infrastructure
// ---------------------------------------------------------------------------

thread_local! {
    static LAST_PANIC: RefCell<String> = const { RefCell::new(String::new()) };
}

fn guard<T>(f: impl FnOnce() -> T) -> Result<T, String> {
    match catch_unwind(AssertUnwindSafe(f)) {
        Ok(v) => Ok(v),
        Err(_) => Err(LAST_PANIC.with(|p| p.borrow().clone())),
    }
}

struct Case {
    id: String,
    lines: Vec<String>,
}

fn parse_cases(text: &str) -> Vec<Case> {
    let mut cases: Vec<Case> = vec![];
    for line in text.lines() {
        let line = line.trim_end();
        if let Some(rest) = line.strip_prefix("CASE") {
            let id = rest.trim();
            cases.push(Case { id: if id.is_empty() { "?".into() } else { id.to_string() }, lines: vec![] });
            continue;
        }
        if line.is_empty() || line.starts_with('#') {
            continue;
        }
        if cases.is_empty() {
            cases.push(Case { id: "-".into(), lines: vec![] });
        }
        cases.last_mut().unwrap().lines.push(line.to_string());
    }
    cases
}

struct Rep {
    out: Vec<String>,
    stats: BTreeMap<String, u64>,
    evals: u64,
    case_id: String,
    case_fails: usize,
    case_known: usize,
    thorough: bool,
}

fn one_line(s: &str) -> String {
    let mut o = String::with_capacity(s.len());
    for ch in s.chars() {
        match ch {
            '\n' => o.push_str(" | "),
            '\r' => o.push_str("\\r"),
            c if (c as u32) < 0x20 => {
                write!(o, "\\x{:02x}", c as u32).unwrap();
            }
            c => o.push(c),
        }
    }
    if o.len() > 900 {
        let mut cut = 900;
        while !o.is_char_boundary(cut) {
            cut -= 1;
        }
        o.truncate(cut);
        o.push_str("...");
    }
    o
}

impl Rep {
    fn begin_case(&mut self, id: &str) {
        self.case_id = id.to_string();
        self.case_fails = 0;
        self.case_known = 0;
    }
    fn fail(&mut self, kind: &str, detail: &str) {
        self.case_fails += 1;
        *self.stats.entry("failures".into()).or_insert(0) += 1;
        if kind == "slow" {
            *self.stats.entry("slow_failures".into()).or_insert(0) += 1;
        }
        if self.case_fails <= 5 {
            self.out.push(format!("OFAIL {} {} {}", self.case_id, kind, one_line(detail)));
        }
    }
    fn known(&mut self, finding: &str, detail: &str) {
        self.case_known += 1;
        *self.stats.entry(format!("known_{finding}")).or_insert(0) += 1;
        if self.case_known <= 3 {
            self.out.push(format!("OKNOWN {} {} {}", self.case_id, finding, one_line(detail)));
        }
    }
    fn stat(&mut self, key: &str, n: u64) {
        *self.stats.entry(key.into()).or_insert(0) += n;
    }
    fn stat_max(&mut self, key: &str, n: u64) {
        let e = self.stats.entry(key.into()).or_insert(0);
        if n > *e {
            *e = n;
        }
    }
    fn eval(&mut self) {
        self.evals += 1;
    }
}

enum Op {
    New(u16, u16, usize, bool),
    P(Vec<u8>),
    W(Vec<u8>),
    Size(u16, u16),
    Sb(usize),
    Snap(u32),
    Obs(Vec<String>),
}

fn parse_op(line: &str) -> Option<Op> {
    let f: Vec<&str> = line.split_whitespace().collect();
    if f.is_empty() {
        return None;
    }
    let payload = || if f.len() > 1 { unhex(f[1]) } else { vec![] };
    Some(match f[0] {
        "NEW" => Op::New(f.get(1)?.parse().ok()?, f.get(2)?.parse().ok()?, f.get(3)?.parse().ok()?, f.get(4).is_some_and(|x| *x == "1")),
        "P" => Op::P(payload()),
        "W" => Op::W(payload()),
        "SIZE" => Op::Size(f.get(1)?.parse().ok()?, f.get(2)?.parse().ok()?),
        "SB" => Op::Sb(f.get(1)?.parse().ok()?),
        "SNAP" => Op::Snap(f.get(1)?.parse().ok()?),
        _ => Op::Obs(f.iter().map(|s| (*s).to_string()).collect()),
    })
}

impl Op {
    fn is_state(&self) -> bool {
        !matches!(self, Op::Obs(_))
    }
}

#[derive(Default)]
struct Ctx {
    parser: Option<Par>,
    snaps: HashMap<u32, Screen>,
    resizing: bool,
}

impl Ctx {
    fn screen(&self) -> Option<&Screen> {
        self.parser.as_ref().map(vt100::Parser::screen)
    }
    /// applies a state op (observer ops are ignored); Err = panic message
    fn apply(&mut self, op: &Op) -> Result<(), String> {
        match op {
            Op::New(r, c, cap, pol) => {
                let (r, c, cap, pol) = (*r, *c, *cap, *pol);
                let p = guard(|| vt100::Parser::new_with_callbacks(r, c, cap, Recorder { events: vec![], resizing: pol }))?;
                self.parser = Some(p);
                self.snaps.clear();
                self.resizing = pol;
                Ok(())
            }
            Op::P(b) | Op::W(b) => match self.parser.as_mut() {
                Some(p) => guard(|| p.process(b)),
                None => Ok(()),
            },
            Op::Size(r, c) => match self.parser.as_mut() {
                Some(p) => guard(|| p.screen_mut().set_size(*r, *c)),
                None => Ok(()),
            },
            Op::Sb(k) => match self.parser.as_mut() {
                Some(p) => guard(|| p.screen_mut().set_scrollback(*k)),
                None => Ok(()),
            },
            Op::Snap(i) => {
                if let Some(p) = self.parser.as_ref() {
                    self.snaps.insert(*i, p.screen().clone());
                }
                Ok(())
            }
            Op::Obs(_) => Ok(()),
        }
    }
}

fn fresh(rows: u16, cols: u16) -> vt100::Parser {
    vt100::Parser::new(rows, cols, 0)
}

fn mixed_width(s: &Screen) -> bool {
    let (rows, cols) = s.size();
    (0..rows).any(|r| s.cell(r, cols - 1).is_none() || s.cell(r, cols).is_some())
}

const MODE_KEYS: [&str; 5] = ["kp=", "ac=", "bp=", "mm=", "me="];

/// obs without sb= and alt= (and optionally without the five input modes), the
/// wrap flag of the bottom row masked on request
fn obs_minus(s: &Screen, mask_bottom: bool, strip_modes: bool) -> String {
    let o = obs(s);
    let (rows, _) = s.size();
    let bottom = format!("OROW {} ", rows - 1);
    let mut out = String::with_capacity(o.len());
    for (i, line) in o.lines().enumerate() {
        if i == 0 {
            let mut first = true;
            for tok in line.split(' ') {
                if tok.starts_with("sb=") || tok.starts_with("alt=") {
                    continue;
                }
                if strip_modes && MODE_KEYS.iter().any(|k| tok.starts_with(k)) {
                    continue;
                }
                if !first {
                    out.push(' ');
                }
                first = false;
                out.push_str(tok);
            }
        } else if mask_bottom && line.starts_with(&bottom) {
            out.push_str(&bottom);
            out.push('x');
            out.push_str(&line[bottom.len() + 1..]);
        } else {
            out.push_str(line);
        }
        out.push('\n');
    }
    out
}

fn first_diff(a: &str, b: &str) -> String {
    let mut la = a.lines();
    let mut lb = b.lines();
    let mut n = 0;
    loop {
        n += 1;
        match (la.next(), lb.next()) {
            (None, None) => return "no difference".into(),
            (x, y) if x == y => {}
            (x, y) => {
                let clip = |s: Option<&str>| {
                    let s = s.unwrap_or("<missing>");
                    let mut t: String = s.chars().take(260).collect();
                    if t.len() < s.len() {
                        t.push_str("...");
                    }
                    t
                };
                return format!("line {n}: got `{}` want `{}`", clip(x), clip(y));
            }
        }
    }
}

fn hexclip(b: &[u8]) -> String {
    if b.len() > 160 {
        format!("{}...({} bytes)", hex(&b[..160]), b.len())
    } else {
        hex(b)
    }
}

fn case_rng(seed: u64, id: &str) -> Rng {
    let h = id.bytes().fold(1469598103934665603u64, |h, b| (h ^ u64::from(b)).wrapping_mul(1099511628211));
    let mut r = Rng::new(seed ^ h);
    for _ in 0..4 {
        r.next();
    }
    r
}

fn max_scrollback(s: &Screen) -> usize {
    let mut c = s.clone();
    c.set_scrollback(usize::MAX);
    c.scrollback()
}

fn cup(row: u16, col: u16) -> Vec<u8> {
    format!("\x1b[{};{}H", u32::from(row) + 1, u32::from(col) + 1).into_bytes()
}

fn modes5(s: &Screen) -> (bool, bool, bool, u8, u8) {
    (
        s.application_keypad(),
        s.application_cursor(),
        s.bracketed_paste(),
        mouse_mode_num(s.mouse_protocol_mode()),
        mouse_enc_num(s.mouse_protocol_encoding()),
    )
}

#[derive(Clone, Copy, PartialEq, Eq, Debug)]
struct Pen {
    fg: vt100::Color,
    bg: vt100::Color,
    bold: bool,
    dim: bool,
    italic: bool,
    underline: bool,
    inverse: bool,
}

impl Pen {
    fn default_pen() -> Self {
        Pen { fg: vt100::Color::Default, bg: vt100::Color::Default, bold: false, dim: false, italic: false, underline: false, inverse: false }
    }
    fn of(s: &Screen) -> Self {
        Pen { fg: s.fgcolor(), bg: s.bgcolor(), bold: s.bold(), dim: s.dim(), italic: s.italic(), underline: s.underline(), inverse: s.inverse() }
    }
}

// ---------------------------------------------------------------------------
// a mirror of the escape-sequence framing (ECMA-48 / the vte state classes),
// used only to know whether the byte stream so far ended between sequences
// ---------------------------------------------------------------------------

#[derive(Clone, Copy, PartialEq, Eq, Debug)]
enum Vs {
    Ground,
    Esc,
    EscInt,
    Csi,
    Dcs,
    Osc,
    Sos,
    Poisoned,
}

struct Tracker {
    st: Vs,
    tail: Vec<u8>, // pending incomplete UTF-8 prefix (ground only)
}

impl Tracker {
    fn new() -> Self {
        Tracker { st: Vs::Ground, tail: vec![] }
    }
    fn clean(&self) -> bool {
        self.st == Vs::Ground && self.tail.is_empty()
    }
    fn feed(&mut self, chunk: &[u8]) {
        // K04a shape (vte 0.14.1 loses a byte): do not trust the framing afterwards
        if self.st == Vs::Ground && self.tail.len() == 1 && (0xC2..=0xDF).contains(&self.tail[0]) && chunk.len() >= 3 && (0x80..=0xBF).contains(&chunk[0]) && chunk[1] < 0x80 && chunk[2] >= 0x80 {
            self.st = Vs::Poisoned;
            return;
        }
        for &b in chunk {
            self.byte(b);
        }
    }
    fn byte(&mut self, b: u8) {
        match self.st {
            Vs::Poisoned => {}
            Vs::Ground => {
                if b == 0x1b {
                    self.tail.clear();
                    self.st = Vs::Esc;
                } else if b < 0x80 && self.tail.is_empty() {
                } else {
                    self.tail.push(b);
                    loop {
                        match std::str::from_utf8(&self.tail) {
                            Ok(_) => {
                                self.tail.clear();
                                break;
                            }
                            Err(e) => match e.error_len() {
                                Some(l) => {
                                    let n = e.valid_up_to() + l;
                                    self.tail.drain(..n);
                                    if self.tail.is_empty() {
                                        break;
                                    }
                                }
                                None => {
                                    let n = e.valid_up_to();
                                    self.tail.drain(..n);
                                    break;
                                }
                            },
                        }
                    }
                }
            }
            Vs::Esc => match b {
                0x18 | 0x1a => self.st = Vs::Ground,
                0x00..=0x1f => {}
                0x20..=0x2f => self.st = Vs::EscInt,
                0x50 => self.st = Vs::Dcs,
                0x58 | 0x5e | 0x5f => self.st = Vs::Sos,
                0x5b => self.st = Vs::Csi,
                0x5d => self.st = Vs::Osc,
                0x30..=0x7e => self.st = Vs::Ground,
                _ => {}
            },
            Vs::EscInt => match b {
                0x18 | 0x1a => self.st = Vs::Ground,
                0x1b => self.st = Vs::Esc,
                0x00..=0x2f => {}
                0x30..=0x7e => self.st = Vs::Ground,
                _ => {}
            },
            Vs::Csi => match b {
                0x18 | 0x1a => self.st = Vs::Ground,
                0x1b => self.st = Vs::Esc,
                0x00..=0x3f => {}
                0x40..=0x7e => self.st = Vs::Ground,
                _ => {}
            },
            Vs::Dcs => match b {
                0x18 | 0x1a => self.st = Vs::Ground,
                0x1b => self.st = Vs::Esc,
                0x9c => self.st = Vs::Poisoned,
                _ => {}
            },
            Vs::Osc => match b {
                0x07 | 0x18 | 0x1a => self.st = Vs::Ground,
                0x1b => self.st = Vs::Esc,
                _ => {}
            },
            Vs::Sos => match b {
                0x18 | 0x1a => self.st = Vs::Ground,
                0x1b => self.st = Vs::Esc,
                _ => {}
            },
        }
    }
}

#[derive(Debug, Clone)]
enum Tok {
    Print(char),
    C0(u8),
    Esc { inter: Vec<u8>, fin: u8 },
    Csi { private: Option<u8>, params: Vec<u8>, inter: Vec<u8>, fin: u8 },
    Osc,
    Str(u8),
}

/// splits a payload (starting between sequences) into complete, well-formed
/// tokens; None when anything unusual occurs
fn tokenize_spans(b: &[u8]) -> Option<Vec<(Tok, usize)>> {
    let mut i = 0;
    let mut out = vec![];
    while i < b.len() {
        let x = b[i];
        let start = i;
        if x == 0x1b {
            let k = *b.get(i + 1)?;
            match k {
                b'[' => {
                    let mut j = i + 2;
                    let mut private = None;
                    if let Some(&m) = b.get(j) {
                        if (0x3c..=0x3f).contains(&m) {
                            private = Some(m);
                            j += 1;
                        }
                    }
                    let ps = j;
                    while j < b.len() && (b[j].is_ascii_digit() || b[j] == b';' || b[j] == b':') {
                        j += 1;
                    }
                    let params = b[ps..j].to_vec();
                    let is = j;
                    while j < b.len() && (0x20..=0x2f).contains(&b[j]) {
                        j += 1;
                    }
                    let inter = b[is..j].to_vec();
                    let fin = *b.get(j)?;
                    if !(0x40..=0x7e).contains(&fin) || inter.len() > 2 {
                        return None;
                    }
                    out.push((Tok::Csi { private, params, inter, fin }, start));
                    i = j + 1;
                }
                b']' => {
                    let mut j = i + 2;
                    loop {
                        let y = *b.get(j)?;
                        if y == 0x07 {
                            j += 1;
                            break;
                        }
                        if y == 0x1b {
                            if *b.get(j + 1)? == b'\\' {
                                j += 2;
                                break;
                            }
                            return None;
                        }
                        if y == 0x18 || y == 0x1a {
                            return None;
                        }
                        j += 1;
                    }
                    out.push((Tok::Osc, start));
                    i = j;
                }
                b'P' | b'X' | b'^' | b'_' => {
                    let mut j = i + 2;
                    loop {
                        let y = *b.get(j)?;
                        if y == 0x1b {
                            if *b.get(j + 1)? == b'\\' {
                                j += 2;
                                break;
                            }
                            return None;
                        }
                        if y == 0x18 || y == 0x1a || y >= 0x80 {
                            return None;
                        }
                        j += 1;
                    }
                    out.push((Tok::Str(k), start));
                    i = j;
                }
                0x20..=0x2f => {
                    let mut j = i + 1;
                    while j < b.len() && (0x20..=0x2f).contains(&b[j]) {
                        j += 1;
                    }
                    let inter = b[i + 1..j].to_vec();
                    let fin = *b.get(j)?;
                    if !(0x30..=0x7e).contains(&fin) || inter.len() > 2 {
                        return None;
                    }
                    out.push((Tok::Esc { inter, fin }, start));
                    i = j + 1;
                }
                0x30..=0x7e => {
                    out.push((Tok::Esc { inter: vec![], fin: k }, start));
                    i += 2;
                }
                _ => return None,
            }
        } else if x < 0x20 {
            out.push((Tok::C0(x), start));
            i += 1;
        } else if x < 0x80 {
            out.push((Tok::Print(x as char), start));
            i += 1;
        } else {
            let n = match x {
                0xC2..=0xDF => 2,
                0xE0..=0xEF => 3,
                0xF0..=0xF4 => 4,
                _ => return None,
            };
            let s = std::str::from_utf8(b.get(i..i + n)?).ok()?;
            out.push((Tok::Print(s.chars().next()?), start));
            i += n;
        }
    }
    Some(out)
}

fn tokenize(b: &[u8]) -> Option<Vec<Tok>> {
    tokenize_spans(b).map(|v| v.into_iter().map(|x| x.0).collect())
}

/// parameter groups as the parser library delivers them (u16 saturating, empty = 0);
/// None when there are 32 or more values (the library's limit)
fn param_groups(raw: &[u8]) -> Option<Vec<Vec<u16>>> {
    let mut groups: Vec<Vec<u16>> = vec![];
    let mut group: Vec<u16> = vec![];
    let mut cur: u16 = 0;
    let mut total = 0usize;
    for &b in raw {
        match b {
            b'0'..=b'9' => cur = cur.saturating_mul(10).saturating_add(u16::from(b - b'0')),
            b';' => {
                group.push(cur);
                total += 1;
                groups.push(std::mem::take(&mut group));
                cur = 0;
            }
            b':' => {
                group.push(cur);
                total += 1;
                cur = 0;
            }
            _ => return None,
        }
    }
    group.push(cur);
    total += 1;
    groups.push(group);
    if total >= 32 {
        return None;
    }
    Some(groups)
}

// ---------------------------------------------------------------------------
// parsed verif_dump
// ---------------------------------------------------------------------------

#[derive(Clone, Default, PartialEq, Eq, Debug)]
struct GridD {
    rows: u16,
    cols: u16,
    f: BTreeMap<String, String>,
    s_rows: Vec<String>,
    l_rows: Vec<String>,
}

#[derive(Clone, Default, PartialEq, Eq, Debug)]
struct DumpD {
    head: String,
    main: GridD,
    alt: GridD,
}

impl GridD {
    fn get(&self, k: &str) -> &str {
        self.f.get(k).map_or("", String::as_str)
    }
    fn num(&self, k: &str) -> usize {
        self.get(k).parse().unwrap_or(usize::MAX)
    }
    fn pair(&self, k: &str) -> (u32, u32) {
        let v = self.get(k);
        let mut it = v.split(',');
        let a = it.next().and_then(|x| x.parse().ok()).unwrap_or(u32::MAX);
        let b = it.next().and_then(|x| x.parse().ok()).unwrap_or(u32::MAX);
        (a, b)
    }
}

fn parse_dump(d: &str) -> DumpD {
    let mut out = DumpD::default();
    let mut cur = 0; // 1 main, 2 alt
    for line in d.lines() {
        if line.starts_with("SCREEN ") {
            out.head = line.to_string();
        } else if let Some(rest) = line.strip_prefix("GRID ") {
            let f: Vec<&str> = rest.split(' ').collect();
            let mut g = GridD::default();
            g.rows = f.get(1).and_then(|x| x.parse().ok()).unwrap_or(0);
            g.cols = f.get(2).and_then(|x| x.parse().ok()).unwrap_or(0);
            for kv in f.iter().skip(3) {
                if let Some((k, v)) = kv.split_once('=') {
                    g.f.insert(k.to_string(), v.to_string());
                }
            }
            if f[0] == "main" {
                out.main = g;
                cur = 1;
            } else {
                out.alt = g;
                cur = 2;
            }
        } else if line.starts_with("ROW ") {
            let mut it = line.splitn(4, ' ');
            it.next();
            let kind = it.next().unwrap_or("");
            it.next();
            let rest = it.next().unwrap_or("").to_string();
            let g = if cur == 1 { &mut out.main } else { &mut out.alt };
            if kind == "S" {
                g.s_rows.push(rest);
            } else {
                g.l_rows.push(rest);
            }
        }
    }
    out
}

/// tokens of a dumped row: (wrapped, cells) with "*" expanded
fn dump_row_cells(row: &str) -> (String, Vec<String>) {
    let mut it = row.split(' ');
    let w = it.next().unwrap_or("").to_string();
    let n: usize = it.next().and_then(|x| x.parse().ok()).unwrap_or(0);
    let rest: Vec<&str> = it.collect();
    if rest == ["*"] {
        (w, vec!["_".to_string(); n])
    } else {
        (w, rest.iter().map(|s| (*s).to_string()).collect())
    }
}

/// rows of an obs text: (wrapped, cells) with "*" expanded
fn obs_rows(o: &str, cols: u16) -> Vec<(String, Vec<String>)> {
    let mut v = vec![];
    for line in o.lines() {
        if let Some(rest) = line.strip_prefix("OROW ") {
            let mut it = rest.split(' ');
            it.next();
            let w = it.next().unwrap_or("").to_string();
            let cells: Vec<&str> = it.collect();
            if cells == ["*"] {
                v.push((w, vec!["_".to_string(); usize::from(cols)]));
            } else {
                v.push((w, cells.iter().map(|s| (*s).to_string()).collect()));
            }
        }
    }
    v
}

fn strip_field(dump: &str, key: &str) -> String {
    let mut out = String::with_capacity(dump.len());
    for line in dump.lines() {
        if line.starts_with("GRID ") {
            let mut first = true;
            for tok in line.split(' ') {
                if tok.starts_with(key) {
                    continue;
                }
                if !first {
                    out.push(' ');
                }
                first = false;
                out.push_str(tok);
            }
        } else {
            out.push_str(line);
        }
        out.push('\n');
    }
    out
}

// ---------------------------------------------------------------------------
// C01
// ---------------------------------------------------------------------------

fn c01_eval(s: &Screen, earlier: &[Screen], rng: &mut Rng, rep: &mut Rep, at: &str) {
    if mixed_width(s) {
        rep.stat("skipped_mixed_width", 1);
        return;
    }
    rep.eval();
    let (rows, cols) = s.size();
    let mask = s.scrollback() > 0;
    let q: Option<&Screen> = {
        let cands: Vec<&Screen> = earlier.iter().filter(|q| q.size() == s.size() && !mixed_width(q)).collect();
        if cands.is_empty() {
            None
        } else {
            Some(*rng.pick(&cands))
        }
    };
    let r = guard(|| {
        let mut fails: Vec<(String, String)> = vec![];
        let sf = s.state_formatted();
        let cf = s.contents_formatted();
        let imf = s.input_mode_formatted();
        let want = obs_minus(s, mask, false);
        // 1. fresh receiver
        let mut r = fresh(rows, cols);
        r.process(&sf);
        let got = obs_minus(r.screen(), mask, false);
        if got != want {
            fails.push(("redraw".into(), format!("{at}: fresh receiver differs: {}; state_formatted={}", first_diff(&got, &want), hexclip(&sf))));
        } else if !mask {
            // 2. re-emission
            let sf2 = r.screen().state_formatted();
            if sf2 != sf {
                fails.push(("reemit".into(), format!("{at}: re-emitted bytes differ: original={} reproduced={}", hexclip(&sf), hexclip(&sf2))));
            }
        }
        // 3. dirty receiver
        if let Some(q) = q {
            let mut d = fresh(rows, cols);
            d.process(&q.contents_formatted());
            d.process(&cf);
            let got = obs_minus(d.screen(), mask, true);
            let want = obs_minus(s, mask, true);
            if got != want {
                fails.push(("dirty".into(), format!("{at}: receiver fed an earlier redraw first differs: {}; earlier={} contents_formatted={}", first_diff(&got, &want), hexclip(&q.contents_formatted()), hexclip(&cf))));
            }
        }
        // 4. concatenation
        let mut cat = cf.clone();
        cat.extend(&imf);
        if cat != sf {
            fails.push(("concat".into(), format!("{at}: state_formatted != contents_formatted ++ input_mode_formatted: {} vs {}", hexclip(&sf), hexclip(&cat))));
        }
        fails
    });
    match r {
        Ok(fails) => {
            for (k, d) in fails {
                rep.fail(&k, &d);
            }
        }
        Err(m) => rep.fail("panic", &format!("{at}: {m}")),
    }
}

fn run_c01(case: &Case, seed: u64, rep: &mut Rep) {
    let mut rng = case_rng(seed, &case.id);
    let mut ctx = Ctx::default();
    let mut earlier: Vec<Screen> = vec![];
    let mut dirty = true;
    let eval_here = |ctx: &Ctx, earlier: &mut Vec<Screen>, rng: &mut Rng, rep: &mut Rep, at: &str| {
        if let Some(s) = ctx.screen() {
            let mut pool: Vec<Screen> = earlier.clone();
            pool.extend(ctx.snaps.values().cloned());
            c01_eval(s, &pool, rng, rep, at);
            earlier.push(s.clone());
            if earlier.len() > 4 {
                earlier.remove(0);
            }
        }
    };
    for (n, line) in case.lines.iter().enumerate() {
        let Some(op) = parse_op(line) else { continue };
        match &op {
            Op::Obs(f) => {
                if matches!(f[0].as_str(), "FMT" | "DUMP" | "OBS") && dirty {
                    eval_here(&ctx, &mut earlier, &mut rng, rep, &format!("line {}", n + 1));
                    dirty = false;
                }
            }
            _ => {
                if matches!(op, Op::New(..)) {
                    earlier.clear();
                }
                if ctx.apply(&op).is_err() {
                    rep.stat("replay_panics", 1);
                    return;
                }
                dirty = true;
            }
        }
    }
    if dirty {
        eval_here(&ctx, &mut earlier, &mut rng, rep, "end");
    }
    // one more reachable screen: the same history followed by set_scrollback(k)
    if let Some(s) = ctx.screen() {
        let m = max_scrollback(s);
        if m > 0 {
            let k = 1 + rng.below(m as u64) as usize;
            if k != s.scrollback() {
                let mut c = s.clone();
                c.set_scrollback(k);
                let pool: Vec<Screen> = earlier.clone();
                c01_eval(&c, &pool, &mut rng, rep, &format!("end+SB {k}"));
            }
        }
    }
}

// ---------------------------------------------------------------------------
// C02
// ---------------------------------------------------------------------------

/// D10 shape test: see oracle-spec / KNOWN_FINDINGS class K10
fn d10_shape(p: &Screen, s: &Screen, r: &Screen, got: &str, want: &str) -> bool {
    let (_, cols) = s.size();
    if cols < 2 {
        return false;
    }
    let a: Vec<&str> = got.lines().collect();
    let b: Vec<&str> = want.lines().collect();
    if a.len() != b.len() {
        return false;
    }
    let mut any = false;
    for (x, y) in a.iter().zip(b.iter()) {
        if x == y {
            continue;
        }
        let (Some(rx), Some(ry)) = (x.strip_prefix("OROW "), y.strip_prefix("OROW ")) else { return false };
        let px: Vec<&str> = rx.splitn(3, ' ').collect();
        let py: Vec<&str> = ry.splitn(3, ' ').collect();
        if px.len() < 3 || py.len() < 3 || px[0] != py[0] || px[2] != py[2] {
            return false;
        }
        let Ok(i) = px[0].parse::<u16>() else { return false };
        if !(s.row_wrapped(i) && p.row_wrapped(i) && !r.row_wrapped(i)) {
            return false;
        }
        let (Some(pc), Some(sc)) = (p.cell(i, cols - 2), s.cell(i, cols - 2)) else { return false };
        if !pc.is_wide() || cell_str(pc) == cell_str(sc) {
            return false;
        }
        any = true;
    }
    any
}

/// feeds `diff` to `recv` (which shows P) and compares with S. returns Ok(true) if equal
fn c02_compare(p: &Screen, s: &Screen, recv: &mut vt100::Parser, diff: &[u8], strip_modes: bool, rep: &mut Rep, at: &str, what: &str) -> bool {
    let mask = s.scrollback() > 0 || p.scrollback() > 0;
    recv.process(diff);
    let got = obs_minus(recv.screen(), mask, strip_modes);
    let want = obs_minus(s, mask, strip_modes);
    if got == want {
        return true;
    }
    if d10_shape(p, s, recv.screen(), &got, &want) {
        rep.known("D10", &format!("{at}: {what}: only wrap flags lost next to a changed wide cell: {}", first_diff(&got, &want)));
    } else {
        rep.fail("diff", &format!("{at}: {what}: receiver differs: {}; prev={} diff={}", first_diff(&got, &want), hexclip(&p.state_formatted()), hexclip(diff)));
    }
    false
}

fn c02_pair(p: &Screen, s: &Screen, contents_too: bool, rep: &mut Rep, at: &str) {
    if p.size() != s.size() {
        rep.stat("skipped_size", 1);
        return;
    }
    if mixed_width(p) || mixed_width(s) {
        rep.stat("skipped_mixed_width", 1);
        return;
    }
    rep.eval();
    let (rows, cols) = s.size();
    let r = guard(|| {
        let mut r = fresh(rows, cols);
        r.process(&p.state_formatted());
        let d = s.state_diff(p);
        (r, d)
    });
    match r {
        Ok((mut r, d)) => {
            let res = guard(|| c02_compare(p, s, &mut r, &d, false, rep, at, "state_diff"));
            if let Err(m) = res {
                rep.fail("panic", &format!("{at}: {m}"));
            }
        }
        Err(m) => {
            rep.fail("panic", &format!("{at}: {m}"));
            return;
        }
    }
    if contents_too {
        let res = guard(|| {
            let mut r = fresh(rows, cols);
            r.process(&p.contents_formatted());
            let d = s.contents_diff(p);
            c02_compare(p, s, &mut r, &d, true, rep, at, "contents_diff");
        });
        if let Err(m) = res {
            rep.fail("panic", &format!("{at}: {m}"));
        }
    }
}

struct Chain {
    recv: Option<vt100::Parser>,
    prev: Option<Screen>,
}

impl Chain {
    fn link(&mut self, s: &Screen, rep: &mut Rep, at: &str) {
        if mixed_width(s) {
            self.recv = None;
            self.prev = None;
            return;
        }
        let (rows, cols) = s.size();
        let mut restart = true;
        if let (Some(recv), Some(prev)) = (self.recv.as_mut(), self.prev.as_ref()) {
            if prev.size() == s.size() {
                rep.eval();
                rep.stat("chain_links", 1);
                let prev_scrolled = prev.scrollback() > 0;
                let res = guard(|| {
                    let d = s.state_diff(prev);
                    c02_compare(prev, s, recv, &d, false, rep, at, "chain link")
                });
                match res {
                    Ok(true) => restart = prev_scrolled,
                    Ok(false) => {}
                    Err(m) => rep.fail("panic", &format!("{at}: chain: {m}")),
                }
            }
        }
        if restart {
            let r = guard(|| {
                let mut r = fresh(rows, cols);
                r.process(&s.state_formatted());
                r
            });
            self.recv = r.ok();
        }
        self.prev = Some(s.clone());
    }
}

fn run_c02(case: &Case, _seed: u64, rep: &mut Rep) {
    let mut ctx = Ctx::default();
    let mut chain = Chain { recv: None, prev: None };
    for (n, line) in case.lines.iter().enumerate() {
        let Some(op) = parse_op(line) else { continue };
        let at = format!("line {}", n + 1);
        match &op {
            Op::Obs(f) => {
                if f[0] == "DIFF" && f.len() >= 3 && (f[1] == "state" || f[1] == "contents") {
                    if let (Some(s), Ok(i)) = (ctx.screen(), f[2].parse::<u32>()) {
                        if let Some(p) = ctx.snaps.get(&i) {
                            c02_pair(p, s, f[1] == "contents", rep, &at);
                        }
                    }
                }
            }
            _ => {
                if matches!(op, Op::New(..)) {
                    chain = Chain { recv: None, prev: None };
                }
                if ctx.apply(&op).is_err() {
                    rep.stat("replay_panics", 1);
                    return;
                }
                if !matches!(op, Op::New(..)) {
                    if let Some(s) = ctx.screen() {
                        let s = s.clone();
                        chain.link(&s, rep, &at);
                    }
                }
            }
        }
    }
}

// ---------------------------------------------------------------------------
// C03
// ---------------------------------------------------------------------------

fn size_in_cost_scope(s: (u16, u16)) -> bool {
    (s.0 <= 50 && s.1 <= 132) || (s.0 <= 132 && s.1 <= 50)
}

fn consume_rows(it: impl Iterator<Item = Vec<u8>>) -> usize {
    it.map(|r| r.len()).sum()
}

/// mirrors drive.rs for the observer lines (output discarded)
fn exec_observer(ctx: &Ctx, f: &[String]) {
    let Some(p) = ctx.parser.as_ref() else { return };
    let s = p.screen();
    let n16 = |i: usize| -> u16 { f.get(i).and_then(|x| x.parse().ok()).unwrap_or(0) };
    let snap = |i: usize| -> Option<&Screen> { f.get(i).and_then(|x| x.parse::<u32>().ok()).and_then(|k| ctx.snaps.get(&k)) };
    match f[0].as_str() {
        "DUMP" => {
            let _ = s.verif_dump();
        }
        "OBS" => {
            let _ = obs(s);
        }
        "FMT" => {
            let _ = match f.get(1).map(String::as_str) {
                Some("contents") => s.contents_formatted(),
                Some("state") => s.state_formatted(),
                Some("input") => s.input_mode_formatted(),
                Some("attrs") => s.attributes_formatted(),
                Some("cursor") => s.cursor_state_formatted(),
                _ => vec![],
            };
        }
        "DIFF" => {
            if let Some(prev) = snap(2) {
                let _ = match f.get(1).map(String::as_str) {
                    Some("contents") => s.contents_diff(prev),
                    Some("state") => s.state_diff(prev),
                    Some("input") => s.input_mode_diff(prev),
                    _ => vec![],
                };
            }
        }
        "ROWSF" => {
            let _ = consume_rows(s.rows_formatted(n16(1), n16(2)));
        }
        "ROWSD" => {
            if let Some(prev) = snap(1) {
                let _ = consume_rows(s.rows_diff(prev, n16(2), n16(3)));
            }
        }
        "ROWS" => {
            let _ = consume_rows(s.rows(n16(1), n16(2)).map(String::into_bytes));
        }
        "TEXT" => {
            let _ = s.contents();
        }
        "BETWEEN" => {
            let _ = s.contents_between(n16(1), n16(2), n16(3), n16(4));
        }
        "CELL" => {
            let _ = s.cell(n16(1), n16(2)).map(cell_str);
            let _ = s.row_wrapped(n16(1));
        }
        "VIEWS" => {
            let mut k = 0usize;
            loop {
                let mut c = s.clone();
                c.set_scrollback(k);
                let _ = obs(&c);
                if c.scrollback() < k {
                    break;
                }
                k += 1;
            }
        }
        _ => {}
    }
}

fn boundary_arg(r: &mut Rng, n: u16) -> u16 {
    match r.below(9) {
        0 => 0,
        1 => 1,
        2 => n.saturating_sub(1),
        3 => n,
        4 => n.saturating_add(1),
        5 => *r.pick(&[255u16, 256, 65535, 65534, 32767, 32768]),
        6 => r.below(65536) as u16,
        _ => r.below(u64::from(n) + 2) as u16,
    }
}

/// random accessor calls with boundary-biased arguments; returns (call text, panic message)
fn probe_accessors(s: &Screen, others: &[&Screen], r: &mut Rng, rounds: u64) -> Option<(String, String)> {
    let (rows, cols) = s.size();
    for _ in 0..rounds {
        let (a, b, c, d) = (boundary_arg(r, rows), boundary_arg(r, cols), boundary_arg(r, rows), boundary_arg(r, cols));
        let prev: Option<&Screen> = if others.is_empty() { None } else { Some(*r.pick(others)) };
        let which = r.below(12);
        let call = match which {
            0 => format!("CELL {a} {b}"),
            1 => format!("ROWS {b} {d}"),
            2 => format!("ROWSF {b} {d}"),
            3 => format!("ROWSD <snapshot> {b} {d}"),
            4 => format!("BETWEEN {a} {b} {c} {d}"),
            5 => "TEXT".to_string(),
            6 => "FMT state/contents/cursor/attrs/input".to_string(),
            7 => "DIFF state/contents/input <snapshot>".to_string(),
            8 => format!("clone+SB {} then FMT state, TEXT, ROWSF {b} {d}", u64::from(a) * u64::from(c)),
            9 => format!("BETWEEN {a} {b} {a} {d}"),
            10 => format!("ROWSF 0 {cols}"),
            _ => format!("self-diff and ROWSD self {b} {d}"),
        };
        let res = guard(|| match which {
            0 => {
                let _ = s.cell(a, b).map(cell_str);
                let _ = s.row_wrapped(a);
            }
            1 => {
                let _ = s.rows(b, d).count();
            }
            2 => {
                let _ = consume_rows(s.rows_formatted(b, d));
            }
            3 => {
                if let Some(p) = prev {
                    let _ = consume_rows(s.rows_diff(p, b, d));
                    let _ = consume_rows(p.rows_diff(s, b, d));
                }
            }
            4 => {
                let _ = s.contents_between(a, b, c, d);
            }
            5 => {
                let _ = s.contents();
            }
            6 => {
                let _ = (s.state_formatted(), s.contents_formatted(), s.cursor_state_formatted(), s.attributes_formatted(), s.input_mode_formatted());
            }
            7 => {
                if let Some(p) = prev {
                    let _ = (s.state_diff(p), s.contents_diff(p), s.input_mode_diff(p));
                    let _ = (p.state_diff(s), p.contents_diff(s), p.input_mode_diff(s));
                }
            }
            8 => {
                let mut cl = s.clone();
                cl.set_scrollback(usize::from(a) * usize::from(c));
                let _ = (cl.state_formatted(), cl.contents(), consume_rows(cl.rows_formatted(b, d)), cl.cursor_state_formatted());
                let _ = (cl.state_diff(s), s.state_diff(&cl));
                cl.set_scrollback(usize::MAX);
                let _ = cl.contents_formatted();
            }
            9 => {
                let _ = s.contents_between(a, b, a, d);
            }
            10 => {
                let _ = consume_rows(s.rows_formatted(0, cols));
            }
            _ => {
                let _ = (s.state_diff(s), consume_rows(s.rows_diff(s, b, d)));
            }
        });
        if let Err(m) = res {
            return Some((call, m));
        }
    }
    None
}

/// C05-C08 are decided by the model's functional specifications; this runner only adds what the
/// model cannot reach: it replays every script and the built-in far-edge cases (screens at the end
/// of the u16 size range) and reports a panic of the crate as a failure of the property whose
/// operation was being processed.
fn run_replay_nopanic(case: &Case, _seed: u64, rep: &mut Rep) {
    let mut ctx = Ctx::default();
    rep.eval();
    for (n, line) in case.lines.iter().enumerate() {
        let Some(op) = parse_op(line) else { continue };
        let at = format!("line {} `{}`", n + 1, if line.len() > 200 { &line[..200] } else { line });
        match &op {
            Op::Obs(f) => {
                if let Err(m) = guard(|| exec_observer(&ctx, f)) {
                    rep.fail("panic", &format!("{at}: {m}"));
                    return;
                }
            }
            _ => {
                if let Err(m) = ctx.apply(&op) {
                    rep.fail("panic", &format!("{at}: {m}"));
                    return;
                }
            }
        }
    }
}

fn run_c03(case: &Case, seed: u64, rep: &mut Rep) {
    let mut rng = case_rng(seed, &case.id);
    let mut ctx = Ctx::default();
    let mut tracker = Tracker::new();
    rep.eval();
    for (n, line) in case.lines.iter().enumerate() {
        let Some(op) = parse_op(line) else { continue };
        let at = format!("line {} `{}`", n + 1, if line.len() > 200 { &line[..200] } else { line });
        match &op {
            Op::Obs(f) => {
                if let Err(m) = guard(|| exec_observer(&ctx, f)) {
                    rep.fail("panic", &format!("{at}: {m}"));
                    return;
                }
            }
            Op::P(b) => {
                let single = tracker.clean() && tokenize(b).is_some_and(|t| t.len() == 1 && !matches!(t[0], Tok::Print(_)));
                let scope = ctx.screen().is_some_and(|s| size_in_cost_scope(s.size()));
                let pre = if single && scope { ctx.screen().cloned() } else { None };
                let t0 = CpuClock::now();
                let r = ctx.apply(&op);
                let mut dt = t0.elapsed();
                tracker.feed(b);
                if let Err(m) = r {
                    rep.fail("panic", &format!("{at}: {m}"));
                    return;
                }
                if let Some(pre) = pre {
                    rep.stat_max("slowest_us", dt.as_micros() as u64);
                    if dt.as_secs_f64() > 0.1 {
                        // re-measure (the machine may be busy)
                        for _ in 0..2 {
                            let (r0, c0) = pre.size();
                            let mut p2 = fresh(r0, c0);
                            *p2.screen_mut() = pre.clone();
                            let t1 = CpuClock::now();
                            let _ = guard(|| p2.process(b));
                            dt = dt.min(t1.elapsed());
                        }
                        if dt.as_secs_f64() > 0.1 {
                            rep.fail("slow", &format!("{at}: one control sequence took {} us on a {}x{} screen", dt.as_micros(), pre.size().0, pre.size().1));
                        }
                    }
                }
            }
            _ => {
                if let Op::W(b) = &op {
                    tracker.feed(b);
                }
                if matches!(op, Op::New(..)) {
                    tracker = Tracker::new();
                }
                if let Err(m) = ctx.apply(&op) {
                    rep.fail("panic", &format!("{at}: {m}"));
                    return;
                }
            }
        }
    }
    // a few more operations after the script (the search engine part): reported with the bytes
    if let Some(p) = ctx.parser.as_mut() {
        let (r, c) = p.screen().size();
        let dim = gen::Dim { rows: r.min(1000), cols: c.min(1000) };
        let nops = 1 + rng.below(6);
        if let Ok(suffix) = guard(|| gen::gen_stream(&mut rng, dim, nops, &gen::Feat::all())) {
            if let Err(m) = guard(|| p.process(&suffix)) {
                rep.fail("panic", &format!("end: after appending `P {}` to the case: {m}", hex(&suffix)));
                return;
            }
        }
    }
    // accessors with arbitrary arguments on the final screen
    if let Some(s) = ctx.screen() {
        let others: Vec<&Screen> = ctx.snaps.values().filter(|q| q.size() == s.size()).collect();
        let rounds = if rep.thorough { 40 } else { 16 };
        if let Some((call, m)) = probe_accessors(s, &others, &mut rng, rounds) {
            rep.fail("panic", &format!("end: accessor call `{call}`: {m}"));
        }
    }
}

fn prefilled(rows: u16, cols: u16) -> vt100::Parser {
    let mut p = vt100::Parser::new(rows, cols, 50);
    let mut b = vec![];
    b.extend(b"\x1b[3;7r\x1b[r");
    for i in 0..u32::from(rows) + 5 {
        b.extend(format!("\x1b[3{}m", i % 8).as_bytes());
        for j in 0..u32::from(cols) {
            if (i + j) % 11 == 0 {
                b.extend("世".as_bytes());
            } else {
                b.push(b'a' + ((i + j) % 26) as u8);
            }
        }
    }
    b.extend(format!("\x1b[{};{}H", rows / 2, cols / 2).as_bytes());
    p.process(&b);
    p
}

fn cost_sweep(rep: &mut Rep) {
    for (rows, cols) in [(50u16, 132u16), (132, 50)] {
        let Ok(tmpl) = guard(|| prefilled(rows, cols)) else { continue };
        let tmpl_screen = tmpl.screen().clone();
        for fin in 0x40u8..=0x7e {
            for params in ["65535", "65535;65535"] {
                for q in ["", "?"] {
                    let seq = format!("\x1b[{q}{params}{}", fin as char).into_bytes();
                    let mut best = u128::MAX;
                    let mut runs = 0;
                    while runs < 3 {
                        let mut p = vt100::Parser::new(rows, cols, 50);
                        *p.screen_mut() = tmpl_screen.clone();
                        let t0 = CpuClock::now();
                        let r = guard(|| p.process(&seq));
                        let dt = t0.elapsed().as_micros();
                        if r.is_err() {
                            rep.begin_case(&format!("SWEEP-{rows}x{cols}-{}", hex(&seq)));
                            rep.fail("panic", &format!("pre-filled {rows}x{cols} screen, P {}: {}", hex(&seq), r.err().unwrap_or_default()));
                            best = 0;
                            break;
                        }
                        best = best.min(dt);
                        runs += 1;
                        if best <= 50_000 {
                            break;
                        }
                    }
                    rep.eval();
                    rep.stat_max("slowest_us", best as u64);
                    if best > 100_000 {
                        rep.begin_case(&format!("SWEEP-{rows}x{cols}-{}", hex(&seq)));
                        rep.fail("slow", &format!("pre-filled {rows}x{cols} screen: P {} costs {best} us (min of 3)", hex(&seq)));
                    }
                }
            }
        }
    }
}

// ---------------------------------------------------------------------------
// C04
// ---------------------------------------------------------------------------

type RunOut = (String, Vec<String>, Vec<u8>);

fn run_chunks(new: (u16, u16, usize, bool), chunks: &[&[u8]]) -> Result<RunOut, String> {
    guard(|| {
        let mut p = vt100::Parser::new_with_callbacks(new.0, new.1, new.2, Recorder { events: vec![], resizing: new.3 });
        for c in chunks {
            p.process(c);
        }
        (p.screen().verif_dump(), p.callbacks().events.clone(), p.screen().state_formatted())
    })
}

fn split_at_cuts<'a>(b: &'a [u8], cuts: &[usize]) -> Vec<&'a [u8]> {
    let mut v = vec![];
    let mut last = 0;
    for &c in cuts {
        v.push(&b[last..c]);
        last = c;
    }
    v.push(&b[last..]);
    v
}

/// cut positions with the K04a shape moved one byte earlier; None if there is no such cut
fn k04a_adjust(b: &[u8], cuts: &[usize]) -> Option<Vec<usize>> {
    let mut any = false;
    let mut out = vec![];
    for (i, &p) in cuts.iter().enumerate() {
        let q = cuts.get(i + 1).copied().unwrap_or(b.len());
        if p >= 1 && p < b.len() && (0xC2..=0xDF).contains(&b[p - 1]) && q - p >= 3 && (0x80..=0xBF).contains(&b[p]) && b[p + 1] < 0x80 && b[p + 2] >= 0x80 {
            any = true;
            out.push(p - 1);
        } else {
            out.push(p);
        }
    }
    out.sort_unstable();
    out.dedup();
    if any {
        Some(out)
    } else {
        None
    }
}

fn describe_run_diff(got: &RunOut, want: &RunOut) -> String {
    if got.0 != want.0 {
        format!("state differs: {}", first_diff(&got.0, &want.0))
    } else if got.1 != want.1 {
        format!("events differ: got [{}] want [{}]", got.1.join(", "), want.1.join(", "))
    } else {
        format!("state_formatted differs: {} vs {}", hexclip(&got.2), hexclip(&want.2))
    }
}

fn c04_check(new: (u16, u16, usize, bool), b: &[u8], cuts: &[usize], reference: &RunOut, rep: &mut Rep, what: &str) {
    let mut cuts: Vec<usize> = cuts.iter().copied().filter(|c| *c <= b.len()).collect();
    cuts.sort_unstable();
    cuts.dedup();
    rep.eval();
    let got = run_chunks(new, &split_at_cuts(b, &cuts));
    let ok = matches!(&got, Ok(g) if g == reference);
    if ok {
        return;
    }
    if let Some(adj) = k04a_adjust(b, &cuts) {
        if matches!(run_chunks(new, &split_at_cuts(b, &adj)), Ok(g) if &g == reference) {
            rep.known("K04a", &format!("{what}: cuts {cuts:?} of {} differ from the unchunked run, cuts {adj:?} do not", hex(b)));
            return;
        }
    }
    let d = match &got {
        Ok(g) => describe_run_diff(g, reference),
        Err(m) => format!("panic in the chunked run only: {m}"),
    };
    rep.fail("chunk", &format!("{what}: bytes {} cut at {cuts:?}: {d}", hexclip(b), ));
}

fn run_c04(case: &Case, seed: u64, rep: &mut Rep) {
    let mut rng = case_rng(seed, &case.id);
    let mut new = None;
    let mut chunks: Vec<(bool, Vec<u8>)> = vec![];
    for line in &case.lines {
        match parse_op(line) {
            Some(Op::New(r, c, cap, pol)) => {
                if new.is_some() {
                    return;
                }
                new = Some((r, c, cap, pol));
            }
            Some(Op::P(b)) => chunks.push((false, b)),
            Some(Op::W(b)) => chunks.push((true, b)),
            Some(Op::Obs(_)) | None => {}
            Some(_) => {
                rep.stat("skipped_not_pure", 1);
                return;
            }
        }
    }
    let Some(new) = new else { return };
    let b: Vec<u8> = chunks.iter().flat_map(|c| c.1.iter().copied()).collect();
    let Ok(reference) = run_chunks(new, &[&b]) else {
        rep.stat("replay_panics", 1);
        return;
    };
    // (a) the case's own chunking
    let mut own = vec![];
    let mut pos = 0;
    for c in &chunks[..chunks.len().saturating_sub(1)] {
        pos += c.1.len();
        own.push(pos);
    }
    c04_check(new, &b, &own, &reference, rep, "own chunking");
    // (b) single cuts
    if b.len() <= 120 {
        for p in 1..b.len() {
            c04_check(new, &b, &[p], &reference, rep, "single cut");
        }
    } else {
        for _ in 0..12 {
            let p = 1 + rng.below(b.len() as u64 - 1) as usize;
            c04_check(new, &b, &[p], &reference, rep, "single cut");
        }
    }
    // (c) byte at a time
    if b.len() <= 400 && b.len() > 1 {
        let cuts: Vec<usize> = (1..b.len()).collect();
        c04_check(new, &b, &cuts, &reference, rep, "byte at a time");
    }
    // (d) random multi-cuts
    if b.len() > 2 {
        for _ in 0..3 {
            let k = 2 + rng.below(6);
            let cuts: Vec<usize> = (0..k).map(|_| rng.below(b.len() as u64 + 1) as usize).collect();
            c04_check(new, &b, &cuts, &reference, rep, "random cuts");
        }
    }
    // (e) std::io::Write
    rep.eval();
    let r = guard(|| {
        let mut fails = vec![];
        let mut a = vt100::Parser::new(new.0, new.1, new.2);
        a.process(&b);
        let want = a.screen().verif_dump();
        let mut w = vt100::Parser::new(new.0, new.1, new.2);
        match w.write_all(&b) {
            Ok(()) => {}
            Err(e) => fails.push(format!("write_all failed: {e}")),
        }
        if w.flush().is_err() {
            fails.push("flush failed".to_string());
        }
        if w.screen().verif_dump() != want {
            fails.push(format!("write_all differs from process: {}", first_diff(&w.screen().verif_dump(), &want)));
        }
        // mixed: process / write / flush per chunk of the case, and per random chunk
        let mut m = vt100::Parser::new(new.0, new.1, new.2);
        let mut refp = vt100::Parser::new(new.0, new.1, new.2);
        for (i, c) in chunks.iter().enumerate() {
            refp.process(&c.1);
            if c.0 || i % 2 == 1 {
                match m.write(&c.1) {
                    Ok(n) if n == c.1.len() => {}
                    Ok(n) => fails.push(format!("write reported {n} of {} bytes", c.1.len())),
                    Err(e) => fails.push(format!("write failed: {e}")),
                }
                let before = m.screen().verif_dump();
                if m.flush().is_err() {
                    fails.push("flush failed".to_string());
                }
                if m.screen().verif_dump() != before {
                    fails.push("flush changed the state".to_string());
                }
            } else {
                m.process(&c.1);
            }
        }
        if m.screen().verif_dump() != refp.screen().verif_dump() {
            fails.push(format!("mixed write/process differs from process with the same chunks: {}", first_diff(&m.screen().verif_dump(), &refp.screen().verif_dump())));
        }
        fails
    });
    match r {
        Ok(fails) => {
            for f in fails {
                rep.fail("write", &format!("bytes {}: {f}", hexclip(&b)));
            }
        }
        Err(_) => rep.stat("replay_panics", 1),
    }
}

// ---------------------------------------------------------------------------
// C09
// ---------------------------------------------------------------------------

enum SgrRes {
    Pen(Pen),
    Undetermined,
}

/// reference SGR semantics (from the statement of C09 and the notes in oracle-spec)
fn ref_sgr(mut pen: Pen, groups: &[Vec<u16>]) -> SgrRes {
    use vt100::Color;
    let mut i = 0;
    while i < groups.len() {
        let g = &groups[i];
        if g.len() == 1 {
            let n = g[0];
            match n {
                0 => pen = Pen::default_pen(),
                1 => {
                    pen.bold = true;
                    pen.dim = false;
                }
                2 => {
                    pen.dim = true;
                    pen.bold = false;
                }
                22 => {
                    pen.bold = false;
                    pen.dim = false;
                }
                3 => pen.italic = true,
                23 => pen.italic = false,
                4 => pen.underline = true,
                24 => pen.underline = false,
                7 => pen.inverse = true,
                27 => pen.inverse = false,
                30..=37 => pen.fg = Color::Idx((n - 30) as u8),
                90..=97 => pen.fg = Color::Idx((n - 82) as u8),
                39 => pen.fg = Color::Default,
                40..=47 => pen.bg = Color::Idx((n - 40) as u8),
                100..=107 => pen.bg = Color::Idx((n - 92) as u8),
                49 => pen.bg = Color::Default,
                38 | 48 => {
                    let Some(kind) = groups.get(i + 1) else { return SgrRes::Pen(pen) };
                    if kind.len() != 1 {
                        return SgrRes::Pen(pen);
                    }
                    let ncomp = match kind[0] {
                        5 => 1,
                        2 => 3,
                        _ => return SgrRes::Pen(pen),
                    };
                    let mut comps = [0u8; 3];
                    for k in 0..ncomp {
                        let Some(c) = groups.get(i + 2 + k) else { return SgrRes::Pen(pen) };
                        if c.len() != 1 {
                            return SgrRes::Undetermined;
                        }
                        if c[0] > 255 {
                            return SgrRes::Pen(pen);
                        }
                        comps[k] = c[0] as u8;
                    }
                    let col = if ncomp == 1 { Color::Idx(comps[0]) } else { Color::Rgb(comps[0], comps[1], comps[2]) };
                    if n == 38 {
                        pen.fg = col;
                    } else {
                        pen.bg = col;
                    }
                    i += 1 + ncomp;
                }
                _ => {}
            }
        } else if (g[0] == 38 || g[0] == 48) && ((g.len() == 3 && g[1] == 5) || (g.len() == 5 && g[1] == 2)) {
            if g[2..].iter().any(|c| *c > 255) {
                return SgrRes::Pen(pen);
            }
            let col = if g.len() == 3 { Color::Idx(g[2] as u8) } else { Color::Rgb(g[2] as u8, g[3] as u8, g[4] as u8) };
            if g[0] == 38 {
                pen.fg = col;
            } else {
                pen.bg = col;
            }
        }
        i += 1;
    }
    SgrRes::Pen(pen)
}


fn sgr_for(p: &Pen) -> String {
    // a plain SGR string selecting pen `p` from any pen (statement of C09)
    let col = |base: u8, c: vt100::Color| match c {
        vt100::Color::Default => format!(";{}", base + 9),
        vt100::Color::Idx(i) => format!(";{};5;{i}", base + 8),
        vt100::Color::Rgb(r, g, b) => format!(";{};2;{r};{g};{b}", base + 8),
    };
    let mut q = String::from("\x1b[0");
    q.push_str(&col(30, p.fg));
    q.push_str(&col(40, p.bg));
    if p.bold {
        q.push_str(";1");
    }
    if p.dim {
        q.push_str(";2");
    }
    if p.italic {
        q.push_str(";3");
    }
    if p.underline {
        q.push_str(";4");
    }
    if p.inverse {
        q.push_str(";7");
    }
    q.push('m');
    q
}

/// once per file: attributes_formatted for a covering set of pens, and the pen-to-pen
/// changes the crate emits (through contents_diff) for ordered pairs of pens
fn pen_sweep(seed: u64, rep: &mut Rep) {
    use vt100::Color;
    let mut rng = Rng::new(seed ^ 0x70656e);
    let colours = [
        Color::Default, Color::Idx(0), Color::Idx(1), Color::Idx(7), Color::Idx(8), Color::Idx(9), Color::Idx(15), Color::Idx(16), Color::Idx(17), Color::Idx(231), Color::Idx(255),
        Color::Rgb(0, 0, 0), Color::Rgb(1, 2, 3), Color::Rgb(255, 255, 255),
    ];
    let mut pens = vec![];
    for fg in colours {
        for bg in colours {
            for inten in 0..3 {
                for flags in 0..8 {
                    pens.push(Pen { fg, bg, bold: inten == 1, dim: inten == 2, italic: flags & 1 != 0, underline: flags & 2 != 0, inverse: flags & 4 != 0 });
                }
            }
        }
    }
    rep.begin_case("BUILTIN-pens");
    let mk = |p: &Pen| -> Option<vt100::Parser> {
        let mut x = fresh(1, 2);
        x.process(sgr_for(p).as_bytes());
        if Pen::of(x.screen()) == *p {
            Some(x)
        } else {
            None
        }
    };
    // attributes_formatted on receivers with another pen
    for (i, p) in pens.iter().enumerate() {
        let r = guard(|| {
            let Some(x) = mk(p) else { return Some(format!("SGR {:?} does not select pen {p:?}", sgr_for(p))) };
            let af = x.screen().attributes_formatted();
            let other = &pens[(i * 7919 + 13) % pens.len()];
            for pre in [None, Some(other)] {
                let mut y = fresh(1, 2);
                if let Some(o) = pre {
                    y.process(sgr_for(o).as_bytes());
                }
                y.process(&af);
                if Pen::of(y.screen()) != *p {
                    return Some(format!("attributes_formatted {} for pen {p:?} on a receiver with pen {:?} gives {:?}", hex(&af), pre, Pen::of(y.screen())));
                }
            }
            None
        });
        rep.eval();
        if let Ok(Some(m)) = r {
            rep.fail("attrs_formatted", &m);
        }
    }
    // pen-to-pen changes: structured pairs (one colour to another) plus random pairs
    let mut pairs: Vec<(Pen, Pen)> = vec![];
    for a in colours {
        for b in colours {
            let mut p = Pen::default_pen();
            let mut q = Pen::default_pen();
            p.fg = a;
            q.fg = b;
            pairs.push((p, q));
            let mut p = Pen::default_pen();
            let mut q = Pen::default_pen();
            p.bg = a;
            q.bg = b;
            p.bold = true;
            q.bold = true;
            pairs.push((p, q));
        }
    }
    for _ in 0..if rep.thorough { 3000 } else { 600 } {
        pairs.push((*rng.pick(&pens), *rng.pick(&pens)));
    }
    for (a, b) in pairs {
        let r = guard(|| {
            let (Some(pa), Some(pb)) = (mk(&a), mk(&b)) else { return None };
            let d = pb.screen().contents_diff(pa.screen());
            let mut y = fresh(1, 2);
            y.process(&pa.screen().contents_formatted());
            if Pen::of(y.screen()) != a {
                return Some(format!("contents_formatted of a blank screen with pen {a:?} leaves pen {:?}", Pen::of(y.screen())));
            }
            y.process(&d);
            if Pen::of(y.screen()) != b {
                return Some(format!("the change from pen {a:?} to pen {b:?} is emitted as {} and gives {:?}", hex(&d), Pen::of(y.screen())));
            }
            // the same change inside a row: a cell written with pen a followed by one with pen b
            let mut w = fresh(1, 2);
            w.process(sgr_for(&a).as_bytes());
            w.process(b"x");
            w.process(sgr_for(&b).as_bytes());
            w.process(b"y");
            let mut z = fresh(1, 2);
            z.process(&w.screen().contents_formatted());
            for c in 0..2 {
                if z.screen().cell(0, c).map(cell_str) != w.screen().cell(0, c).map(cell_str) {
                    return Some(format!("row with pens {a:?} then {b:?}: contents_formatted {} reproduces cell (0,{c}) as {:?}", hex(&w.screen().contents_formatted()), z.screen().cell(0, c).map(cell_str)));
                }
            }
            None
        });
        rep.eval();
        if let Ok(Some(m)) = r {
            rep.fail("pen_change", &m);
        }
    }
}

fn c09_receivers(s: &Screen, rep: &mut Rep, at: &str) {
    let want = Pen::of(s);
    let af = s.attributes_formatted();
    for pre in [&b""[..], &b"\x1b[1;3;4;7;38;5;200;48;2;1;2;3m"[..], &b"\x1b[2;31;103m"[..]] {
        let r = guard(|| {
            let mut x = fresh(2, 6);
            x.process(pre);
            x.process(&af);
            Pen::of(x.screen())
        });
        match r {
            Ok(got) if got == want => {}
            Ok(got) => rep.fail("attrs_formatted", &format!("{at}: receiver pre-fed {} then attributes_formatted {} has pen {got:?}, want {want:?}", hex(pre), hex(&af))),
            Err(_) => {}
        }
    }
}

fn run_c09(case: &Case, _seed: u64, rep: &mut Rep) {
    let mut ctx = Ctx::default();
    let mut tracker = Tracker::new();
    let mut pen = Pen::default_pen();
    let mut trusted = true;
    for (n, line) in case.lines.iter().enumerate() {
        let Some(op) = parse_op(line) else { continue };
        let at = format!("line {}", n + 1);
        match &op {
            Op::Obs(_) => {}
            Op::P(b) | Op::W(b) => {
                let was_clean = tracker.clean();
                tracker.feed(b);
                // reference interpretation
                let mut expect: Option<Pen> = None;
                if trusted && was_clean {
                    if let Some(toks) = tokenize(b) {
                        let mut cur = Some(pen);
                        for t in &toks {
                            match t {
                                Tok::Print(c) if (' '..='~').contains(c) => {}
                                Tok::Csi { private: None, params, inter, fin: b'm' } if inter.is_empty() => match param_groups(params) {
                                    None => {
                                        rep.stat("skipped_too_many_params", 1);
                                        return;
                                    }
                                    Some(g) => {
                                        if let Some(p) = cur {
                                            cur = match ref_sgr(p, &g) {
                                                SgrRes::Pen(p2) => Some(p2),
                                                SgrRes::Undetermined => None,
                                            };
                                        }
                                    }
                                },
                                _ => {
                                    cur = None;
                                    break;
                                }
                            }
                        }
                        expect = cur;
                    }
                }
                if ctx.apply(&op).is_err() {
                    rep.stat("replay_panics", 1);
                    return;
                }
                let Some(s) = ctx.screen() else { continue };
                if !tracker.clean() {
                    // in the middle of a sequence: the next payloads are not self-contained
                    if tracker.st == Vs::Poisoned {
                        trusted = false;
                    }
                    continue;
                }
                let have = Pen::of(s);
                if let Some(want) = expect {
                    rep.eval();
                    if have != want {
                        rep.fail("sgr", &format!("{at}: after P {} from pen {pen:?}: pen is {have:?}, SGR semantics give {want:?}", hex(b)));
                    }
                    c09_receivers(s, rep, &at);
                }
                pen = have; // (re-)synchronise
            }
            _ => {
                if matches!(op, Op::New(..)) {
                    tracker = Tracker::new();
                    pen = Pen::default_pen();
                    trusted = true;
                }
                if ctx.apply(&op).is_err() {
                    rep.stat("replay_panics", 1);
                    return;
                }
            }
        }
    }
    if let Some(s) = ctx.screen() {
        rep.eval();
        c09_receivers(s, rep, "end");
    }
}

// ---------------------------------------------------------------------------
// C10
// ---------------------------------------------------------------------------

#[derive(Clone, Copy, PartialEq, Eq, Debug, Default)]
struct Modes6 {
    kp: bool,
    ac: bool,
    hide: bool,
    bp: bool,
    mm: u8,
    me: u8,
}

impl Modes6 {
    fn of(s: &Screen) -> Self {
        Modes6 {
            kp: s.application_keypad(),
            ac: s.application_cursor(),
            hide: s.hide_cursor(),
            bp: s.bracketed_paste(),
            mm: mouse_mode_num(s.mouse_protocol_mode()),
            me: mouse_enc_num(s.mouse_protocol_encoding()),
        }
    }
    fn five(&self) -> (bool, bool, bool, u8, u8) {
        (self.kp, self.ac, self.bp, self.mm, self.me)
    }
    fn decset(&mut self, n: u16, set: bool) {
        let mouse = |m: &mut u8, v: u8| {
            if set {
                *m = v;
            } else if *m == v {
                *m = 0;
            }
        };
        match n {
            1 => self.ac = set,
            25 => self.hide = !set,
            2004 => self.bp = set,
            9 => mouse(&mut self.mm, 1),
            1000 => mouse(&mut self.mm, 2),
            1002 => mouse(&mut self.mm, 3),
            1003 => mouse(&mut self.mm, 4),
            1005 => mouse(&mut self.me, 1),
            1006 => mouse(&mut self.me, 2),
            _ => {}
        }
    }
}

fn c10_emitters(s: &Screen, snaps: &HashMap<u32, Screen>, rep: &mut Rep, at: &str) {
    rep.eval();
    let want = Modes6::of(s);
    let (rows, cols) = s.size();
    let r = guard(|| {
        let mut fails = vec![];
        let imf = s.input_mode_formatted();
        let mut x = fresh(rows, cols);
        x.process(&imf);
        if modes5(x.screen()) != want.five() {
            fails.push(format!("fresh receiver fed input_mode_formatted {} has {:?}, want {:?}", hex(&imf), modes5(x.screen()), want.five()));
        }
        // a receiver with other modes set than the ones to transmit
        let mut y = fresh(rows, cols);
        y.process(&s.state_formatted());
        if Modes6::of(y.screen()) != want {
            fails.push(format!("fresh receiver fed state_formatted has {:?}, want {want:?}", Modes6::of(y.screen())));
        }
        let mut keys: Vec<&u32> = snaps.keys().collect();
        keys.sort();
        for k in keys {
            let p = &snaps[k];
            let (pr, pc) = p.size();
            let mut z = fresh(pr, pc);
            z.process(&p.state_formatted());
            if Modes6::of(z.screen()) != Modes6::of(p) {
                continue; // the reproduction of prev failed: not this clause's business
            }
            let d = s.input_mode_diff(p);
            if d.is_empty() != (modes5(s) == modes5(p)) {
                fails.push(format!("input_mode_diff(snapshot {k}) = {} but modes {:?} vs {:?}", hex(&d), modes5(s), modes5(p)));
            }
            let mut z1 = fresh(pr, pc);
            z1.process(&p.state_formatted());
            z1.process(&d);
            if modes5(z1.screen()) != want.five() {
                fails.push(format!("receiver with the modes of snapshot {k} {:?} fed input_mode_diff {} has {:?}, want {:?}", modes5(p), hex(&d), modes5(z1.screen()), want.five()));
            }
            if p.size() == s.size() {
                z.process(&s.state_diff(p));
                if Modes6::of(z.screen()) != want {
                    fails.push(format!("receiver showing snapshot {k} fed state_diff has {:?}, want {want:?}", Modes6::of(z.screen())));
                }
            }
        }
        fails
    });
    if let Ok(fails) = r {
        for f in fails {
            rep.fail("modes_emit", &format!("{at}: {f}"));
        }
    }
}

fn run_c10(case: &Case, _seed: u64, rep: &mut Rep) {
    let mut ctx = Ctx::default();
    let mut tracker = Tracker::new();
    let mut m = Modes6::default();
    let mut trusted = true;
    let mut dirty = true;
    for (n, line) in case.lines.iter().enumerate() {
        let Some(op) = parse_op(line) else { continue };
        let at = format!("line {}", n + 1);
        match &op {
            Op::Obs(f) => {
                if matches!(f[0].as_str(), "FMT" | "DIFF") && dirty {
                    if let Some(s) = ctx.screen() {
                        c10_emitters(s, &ctx.snaps, rep, &at);
                        dirty = false;
                    }
                }
            }
            Op::P(b) | Op::W(b) => {
                dirty = true;
                let was_clean = tracker.clean();
                tracker.feed(b);
                let mut expect: Option<Modes6> = None;
                if trusted && was_clean {
                    if let Some(toks) = tokenize(b) {
                        let mut cur = Some(m);
                        for t in &toks {
                            let Some(c) = cur.as_mut() else { break };
                            match t {
                                Tok::Print(ch) if (' '..='~').contains(ch) => {}
                                Tok::Esc { inter, fin: b'=' } if inter.is_empty() => c.kp = true,
                                Tok::Esc { inter, fin: b'>' } if inter.is_empty() => c.kp = false,
                                Tok::Esc { inter, fin: b'c' } if inter.is_empty() => *c = Modes6::default(),
                                Tok::Csi { private: Some(b'?'), params, inter, fin } if inter.is_empty() && (*fin == b'h' || *fin == b'l') => match param_groups(params) {
                                    None => {
                                        rep.stat("skipped_too_many_params", 1);
                                        return;
                                    }
                                    Some(gs) => {
                                        for g in gs {
                                            if g.len() == 1 {
                                                c.decset(g[0], *fin == b'h');
                                            }
                                        }
                                    }
                                },
                                _ => cur = None,
                            }
                        }
                        expect = cur;
                    }
                }
                if ctx.apply(&op).is_err() {
                    rep.stat("replay_panics", 1);
                    return;
                }
                let Some(s) = ctx.screen() else { continue };
                if !tracker.clean() {
                    if tracker.st == Vs::Poisoned {
                        trusted = false;
                    }
                    continue;
                }
                let have = Modes6::of(s);
                if let Some(want) = expect {
                    rep.eval();
                    if have != want {
                        rep.fail("modes", &format!("{at}: after P {} from {m:?}: modes are {have:?}, expected {want:?}", hex(b)));
                    }
                }
                m = have;
            }
            _ => {
                dirty = true;
                if matches!(op, Op::New(..)) {
                    tracker = Tracker::new();
                    m = Modes6::default();
                    trusted = true;
                }
                if ctx.apply(&op).is_err() {
                    rep.stat("replay_panics", 1);
                    return;
                }
            }
        }
    }
    if dirty {
        if let Some(s) = ctx.screen() {
            c10_emitters(s, &ctx.snaps, rep, "end");
        }
    }
}

// ---------------------------------------------------------------------------
// C11
// ---------------------------------------------------------------------------

/// conservative scan of a joined byte stream for things that end an excursion:
/// RIS, DECSC, and DECSET/DECRST 47 / 1049 (C0 controls and DEL removed first,
/// because they may occur inside a sequence)
fn scan_switches(stream: &[u8]) -> (bool, bool, bool) {
    let f: Vec<u8> = stream.iter().copied().filter(|b| (*b >= 0x20 && *b != 0x7f) || *b == 0x1b).collect();
    let mut ris = false;
    let mut decsc = false;
    let mut alt = false;
    for i in 0..f.len() {
        if f[i] == 0x1b {
            match f.get(i + 1) {
                Some(b'c') => ris = true,
                Some(b'7') => decsc = true,
                _ => {}
            }
        }
        if f[i] == b'?' {
            let mut j = i + 1;
            let mut num = String::new();
            let mut nums = vec![];
            while j < f.len() && (f[j].is_ascii_digit() || f[j] == b';' || f[j] == b':' || (0x20..=0x2f).contains(&f[j]) || f[j] == b'?') {
                if f[j].is_ascii_digit() {
                    num.push(f[j] as char);
                } else {
                    nums.push(std::mem::take(&mut num));
                }
                j += 1;
            }
            nums.push(num);
            let hit = nums.iter().any(|n| {
                let t = n.trim_start_matches('0');
                t == "47" || t == "1049"
            });
            if hit && (j >= f.len() || f[j] == b'h' || f[j] == b'l') {
                alt = true;
            }
        }
    }
    (ris, decsc, alt)
}

#[derive(Clone)]
struct MainKeep {
    s_rows: Vec<String>,
    l_rows: Vec<String>,
    region: String,
    nsb: String,
    cap: String,
}

fn main_keep(d: &DumpD) -> MainKeep {
    MainKeep { s_rows: d.main.s_rows.clone(), l_rows: d.main.l_rows.clone(), region: d.main.get("region").into(), nsb: d.main.get("nsb").into(), cap: d.main.get("cap").into() }
}

fn main_keep_diff(a: &MainKeep, b: &MainKeep) -> Option<String> {
    if a.region != b.region {
        return Some(format!("scroll region {} -> {}", a.region, b.region));
    }
    if a.nsb != b.nsb || a.cap != b.cap {
        return Some(format!("scrollback nsb/cap {}/{} -> {}/{}", a.nsb, a.cap, b.nsb, b.cap));
    }
    if a.s_rows != b.s_rows {
        return Some("scrollback rows changed".into());
    }
    for (i, (x, y)) in a.l_rows.iter().zip(b.l_rows.iter()).enumerate() {
        if x != y {
            return Some(format!("primary row {i}: `{x}` -> `{y}`"));
        }
    }
    if a.l_rows.len() != b.l_rows.len() {
        return Some("number of primary rows changed".into());
    }
    None
}

struct Excursion {
    by1049: bool,
    keep: MainKeep,
    cursor_before: (u16, u16),
    stream: Vec<u8>,
}

fn run_c11(case: &Case, _seed: u64, rep: &mut Rep) {
    let mut ctx = Ctx::default();
    let mut tracker = Tracker::new();
    let mut exc: Option<Excursion> = None;
    // DECSC slot: (position, pen, origin), bytes since
    let mut saved: Option<((u16, u16), Pen, String, Vec<u8>)> = None;
    for (n, line) in case.lines.iter().enumerate() {
        let Some(op) = parse_op(line) else { continue };
        let at = format!("line {}", n + 1);
        if matches!(op, Op::Obs(_)) {
            continue;
        }
        if matches!(op, Op::New(..)) {
            tracker = Tracker::new();
            exc = None;
            saved = None;
            if ctx.apply(&op).is_err() {
                return;
            }
            continue;
        }
        // complete sequences inside one payload are looked at one by one (C04: the chunking does not matter)
        let steps: Vec<Op> = match &op {
            Op::P(b) | Op::W(b) if tracker.clean() => match tokenize_spans(b) {
                Some(t) if t.len() > 1 => {
                    let mut v: Vec<Op> = vec![];
                    let mut run_start: Option<usize> = None;
                    for (k, (tok, start)) in t.iter().enumerate() {
                        let end = t.get(k + 1).map_or(b.len(), |x| x.1);
                        if matches!(tok, Tok::Esc { .. } | Tok::Csi { .. }) {
                            if let Some(rs) = run_start.take() {
                                v.push(Op::P(b[rs..*start].to_vec()));
                            }
                            v.push(Op::P(b[*start..end].to_vec()));
                        } else if run_start.is_none() {
                            run_start = Some(*start);
                        }
                    }
                    if let Some(rs) = run_start {
                        v.push(Op::P(b[rs..].to_vec()));
                    }
                    v
                }
                _ => vec![op],
            },
            _ => vec![op],
        };
        for op in steps {
            let Some(before_screen) = ctx.screen() else { continue };
            let alt_before = before_screen.alternate_screen();
            let cursor_before = before_screen.cursor_position();
            let size_before = before_screen.size();
            let nev_before = ctx.parser.as_ref().unwrap().callbacks().events.len();
            let dump_before = if exc.is_none() { Some(parse_dump(&before_screen.verif_dump())) } else { None };
            let was_clean = tracker.clean();
            let payload: Option<&[u8]> = match &op {
                Op::P(b) | Op::W(b) => Some(b),
                _ => None,
            };
            if let Some(b) = payload {
                tracker.feed(b);
            }
            if ctx.apply(&op).is_err() {
                rep.stat("replay_panics", 1);
                return;
            }
            let s = ctx.screen().unwrap();
            let alt_after = s.alternate_screen();
            let exact = |x: &[u8]| was_clean && payload == Some(x);
            let entry47 = exact(b"\x1b[?47h");
            let entry1049 = exact(b"\x1b[?1049h");
            let exit47 = exact(b"\x1b[?47l");
            let exit1049 = exact(b"\x1b[?1049l");

            // a resize (set_size, or CSI 8 t through a resizing callback) ends all bookkeeping
            let resized = matches!(op, Op::Size(..)) || s.size() != size_before || ctx.parser.as_ref().unwrap().callbacks().events[nev_before..].iter().any(|e| e.starts_with("EV resize"));
            // ---- DECSC / DECRC
            if resized {
                saved = None;
            }
            if let Some(b) = payload {
                if exact(b"\x1b7") {
                    let origin = {
                        let d = parse_dump(&s.verif_dump());
                        if alt_after { d.alt.get("origin").to_string() } else { d.main.get("origin").to_string() }
                    };
                    saved = Some((s.cursor_position(), Pen::of(s), origin, vec![]));
                } else if exact(b"\x1b8") {
                    if let Some((pos, pen, origin, stream)) = saved.as_ref() {
                        let (ris, decsc, alt) = scan_switches(stream);
                        if !ris && !decsc && !alt && tracker.st != Vs::Poisoned {
                            rep.eval();
                            let d = parse_dump(&s.verif_dump());
                            let o = if alt_after { d.alt.get("origin").to_string() } else { d.main.get("origin").to_string() };
                            if s.cursor_position() != *pos || Pen::of(s) != *pen || o != *origin {
                                rep.fail("decrc", &format!("{at}: DECRC restored pos {:?} pen {:?} origin {o}; DECSC had saved pos {pos:?} pen {pen:?} origin {origin}", s.cursor_position(), Pen::of(s)));
                            }
                        }
                    }
                } else if let Some(sv) = saved.as_mut() {
                    sv.3.extend_from_slice(b);
                    if !tracker.clean() && tracker.st == Vs::Poisoned {
                        saved = None;
                    }
                }
            }

            // ---- alternate screen
            if let Some(e) = exc.as_mut() {
                // inside an excursion
                let is_exit = exit47 || exit1049;
                if !is_exit {
                    if let Some(b) = payload {
                        e.stream.extend_from_slice(b);
                    }
                    let (ris, _, alt) = scan_switches(&e.stream);
                    if resized || ris || alt || !alt_after || tracker.st == Vs::Poisoned {
                        return; // stop checking this case
                    }
                }
                if resized {
                    return;
                }
                rep.eval();
                let d = parse_dump(&s.verif_dump());
                if !is_exit && d.alt.num("nsb") != 0 {
                    rep.fail("alt_scrollback", &format!("{at}: the alternate screen has {} scrollback rows", d.alt.get("nsb")));
                }
                if let Some(diff) = main_keep_diff(&e.keep, &main_keep(&d)) {
                    rep.fail("alt_isolation", &format!("{at}: primary screen changed during the excursion: {diff}"));
                    return;
                }
                if is_exit {
                    if alt_after {
                        rep.fail("alt_exit", &format!("{at}: still on the alternate screen after the reset"));
                    } else if e.by1049 && exit1049 && s.cursor_position() != e.cursor_before {
                        rep.fail("alt_cursor", &format!("{at}: cursor after ?1049l is {:?}, before ?1049h it was {:?}", s.cursor_position(), e.cursor_before));
                    }
                    exc = None;
                }
            } else if (entry47 || entry1049) && !alt_before {
                rep.eval();
                let d = parse_dump(&s.verif_dump());
                let before = dump_before.unwrap();
                if !alt_after {
                    rep.fail("alt_entry", &format!("{at}: not on the alternate screen after the set"));
                    continue;
                }
                if d.main.num("off") != 0 {
                    rep.fail("alt_offset", &format!("{at}: scrollback offset of the primary screen is {} after entering the alternate screen", d.main.get("off")));
                }
                if entry1049 {
                    let dirty = d.alt.l_rows.iter().position(|r| {
                        let (w, cells) = dump_row_cells(r);
                        w != "0" || cells.iter().any(|c| c != "_")
                    });
                    if let Some(i) = dirty {
                        rep.fail("alt_clear", &format!("{at}: alternate screen row {i} not blank after ?1049h: `{}`", d.alt.l_rows[i]));
                    }
                    if d.alt.get("pos") != "0,0" {
                        rep.fail("alt_clear", &format!("{at}: alternate screen cursor at {} after ?1049h", d.alt.get("pos")));
                    }
                }
                if d.alt.num("nsb") != 0 {
                    rep.fail("alt_scrollback", &format!("{at}: the alternate screen has {} scrollback rows", d.alt.get("nsb")));
                }
                let keep = main_keep(&before);
                if let Some(diff) = main_keep_diff(&keep, &main_keep(&d)) {
                    rep.fail("alt_isolation", &format!("{at}: primary screen changed by entering the alternate screen: {diff}"));
                }
                exc = Some(Excursion { by1049: entry1049, keep, cursor_before, stream: vec![] });
            }
        }
    }
}

// ---------------------------------------------------------------------------
// C12
// ---------------------------------------------------------------------------

fn trim_to_cap(mut v: Vec<String>, cap: usize) -> Vec<String> {
    if v.len() > cap {
        v.drain(..v.len() - cap);
    }
    v
}

/// all k for which new_s == trim_to_cap(old_s ++ old_l[..k])
fn explain_scroll(old: &GridD, new_s: &[String], cap: usize) -> Vec<usize> {
    let mut ks = vec![];
    for k in 0..=old.l_rows.len() {
        let mut v = old.s_rows.clone();
        v.extend(old.l_rows[..k].iter().cloned());
        if trim_to_cap(v, cap) == new_s {
            ks.push(k);
        }
    }
    ks
}

/// one atomic step (a single byte, SIZE or SB) seen through the dumps
fn c12_step(before: &DumpD, after: &DumpD, alt_before: bool, alt_after: bool, kind: &str, fresh_dump: Option<&str>, after_text: &str, rep: &mut Rep, at: &str) -> bool {
    let cap = before.main.num("cap");
    if kind == "byte:c" && fresh_dump == Some(after_text) {
        return true; // RIS
    }
    if after.main.num("nsb") > after.main.num("cap") || after.main.s_rows.len() != after.main.num("nsb") {
        rep.fail("sb_bound", &format!("{at}: history has {} rows, capacity {}", after.main.s_rows.len(), after.main.get("cap")));
        return false;
    }
    if !after.alt.s_rows.is_empty() {
        rep.fail("sb_alt", &format!("{at}: the alternate screen has {} history rows", after.alt.s_rows.len()));
        return false;
    }
    let ks = explain_scroll(&before.main, &after.main.s_rows, cap);
    if ks.is_empty() {
        rep.fail("sb_history", &format!("{at}: history is not the old history plus the top lines of the old screen: old {:?} + screen {:?} -> new {:?}", before.main.s_rows, before.main.l_rows, after.main.s_rows));
        return false;
    }
    let full_region = before.main.pair("region") == (0, u32::from(before.main.rows).wrapping_sub(1));
    let may_record = !alt_before && cap > 0 && full_region && kind.starts_with("byte");
    let old_off = before.main.num("off");
    let new_off = after.main.num("off");
    let nsb = after.main.num("nsb");
    let mut ok_k: Vec<usize> = ks.iter().copied().filter(|k| *k == 0 || may_record).collect();
    if ok_k.is_empty() {
        rep.fail("sb_recorded", &format!("{at}: {} line(s) were recorded although alternate={} capacity={cap} region={} op={kind}", ks[0], u8::from(alt_before), before.main.get("region")));
        return false;
    }
    if kind.starts_with("byte") {
        if !alt_before && alt_after {
            if new_off != 0 {
                rep.fail("sb_offset", &format!("{at}: offset {new_off} after entering the alternate screen"));
                return false;
            }
        } else {
            ok_k.retain(|k| new_off == if old_off > 0 { nsb.min(old_off + k) } else { 0 });
            if ok_k.is_empty() {
                rep.fail("sb_offset", &format!("{at}: offset {old_off} -> {new_off} with history {} -> {nsb} rows ({} recorded)", before.main.num("nsb"), ks[0]));
                return false;
            }
        }
    }
    true
}

fn c12_views(s: &Screen, d: &DumpD, rng: &mut Rng, rep: &mut Rep, at: &str) -> bool {
    let g = if s.alternate_screen() { &d.alt } else { &d.main };
    let nsb = g.s_rows.len();
    let (rows, cols) = s.size();
    let mut offs: Vec<usize> = if nsb <= 10 {
        (0..=nsb).collect()
    } else {
        let mut v = vec![0, 1, 2, usize::from(rows) - 1, usize::from(rows), usize::from(rows) + 1, nsb - 1, nsb];
        for _ in 0..3 {
            v.push(rng.below(nsb as u64 + 1) as usize);
        }
        v.retain(|o| *o <= nsb);
        v.sort_unstable();
        v.dedup();
        v
    };
    offs.push(nsb + 1);
    offs.push(usize::MAX);
    for o in offs {
        let mut c = s.clone();
        c.set_scrollback(o);
        let eff = o.min(nsb);
        if c.scrollback() != eff {
            rep.fail("sb_clamp", &format!("{at}: set_scrollback({o}) gives offset {} with {nsb} history rows", c.scrollback()));
            return false;
        }
        if o > nsb {
            continue;
        }
        if mixed_width(&c) {
            rep.stat("skipped_mixed_width", 1);
            continue;
        }
        let want: Vec<(String, Vec<String>)> = g.s_rows[nsb - o..].iter().chain(g.l_rows.iter()).take(usize::from(rows)).map(|r| dump_row_cells(r)).collect();
        let got = obs_rows(&obs(&c), cols);
        if got != want {
            let i = got.iter().zip(want.iter()).position(|(a, b)| a != b).unwrap_or(0);
            rep.fail("sb_view", &format!("{at}: view at offset {o}: visible row {i} is {:?}, history/screen say {:?}", got.get(i), want.get(i)));
            return false;
        }
    }
    true
}

fn run_c12(case: &Case, seed: u64, rep: &mut Rep) {
    let mut rng = case_rng(seed, &case.id);
    let mut ctx = Ctx::default();
    let mut twin: Option<Par> = None;
    let mut fresh_dump: Option<String> = None;
    for (n, line) in case.lines.iter().enumerate() {
        let Some(op) = parse_op(line) else { continue };
        let at = format!("line {}", n + 1);
        match &op {
            Op::Obs(_) => continue,
            Op::New(r, c, cap, pol) => {
                if ctx.apply(&op).is_err() {
                    return;
                }
                twin = guard(|| vt100::Parser::new_with_callbacks(*r, *c, *cap, Recorder { events: vec![], resizing: *pol })).ok();
                fresh_dump = ctx.screen().map(Screen::verif_dump);
                continue;
            }
            Op::Snap(_) => {
                let _ = ctx.apply(&op);
                continue;
            }
            _ => {}
        }
        let Some(p) = ctx.parser.as_mut() else { continue };
        {
            let (r0, c0) = p.screen().size();
            if u32::from(r0) * u32::from(c0) > 20_000 {
                rep.stat("skipped_large_screen", 1);
                return;
            }
        }
        let mut text = p.screen().verif_dump();
        let mut d = parse_dump(&text);
        let mut ok = true;
        match &op {
            Op::P(b) | Op::W(b) => {
                for (i, &byte) in b.iter().enumerate() {
                    let alt_before = p.screen().alternate_screen();
                    if guard(|| p.process(&[byte])).is_err() {
                        rep.stat("replay_panics", 1);
                        return;
                    }
                    let text2 = p.screen().verif_dump();
                    if text2 == text {
                        continue;
                    }
                    let d2 = parse_dump(&text2);
                    // a resize through the callback changes the capacity-independent parts only; RIS is recognised by its result
                    if (d2.main.rows, d2.main.cols) != (d.main.rows, d.main.cols) {
                        fresh_dump = None;
                    }
                    rep.eval();
                    let kind = if byte == b'c' { "byte:c" } else { "byte" };
                    let fd = if fresh_dump.is_none() && byte == b'c' {
                        guard(|| vt100::Parser::new(d2.main.rows, d2.main.cols, d2.main.num("cap")).screen().verif_dump()).ok()
                    } else {
                        fresh_dump.clone()
                    };
                    ok = c12_step(&d, &d2, alt_before, p.screen().alternate_screen(), kind, fd.as_deref(), &text2, rep, &format!("{at} byte {i} (0x{byte:02x})"));
                    text = text2;
                    d = d2;
                    if !ok {
                        break;
                    }
                }
                if let Some(t) = twin.as_mut() {
                    for &byte in b {
                        if guard(|| t.process(&[byte])).is_err() {
                            twin = None;
                            break;
                        }
                    }
                }
            }
            Op::Size(r, c) => {
                let alt = p.screen().alternate_screen();
                if guard(|| p.screen_mut().set_size(*r, *c)).is_err() {
                    rep.stat("replay_panics", 1);
                    return;
                }
                fresh_dump = None;
                let text2 = p.screen().verif_dump();
                let d2 = parse_dump(&text2);
                rep.eval();
                ok = c12_step(&d, &d2, alt, alt, "size", None, &text2, rep, &at);
                if ok && d2.main.num("off") != d.main.num("off") {
                    rep.fail("sb_offset", &format!("{at}: set_size changed the offset {} -> {}", d.main.get("off"), d2.main.get("off")));
                    ok = false;
                }
                text = text2;
                d = d2;
                if let Some(t) = twin.as_mut() {
                    if guard(|| t.screen_mut().set_size(*r, *c)).is_err() {
                        twin = None;
                    }
                }
            }
            Op::Sb(k) => {
                let alt = p.screen().alternate_screen();
                if guard(|| p.screen_mut().set_scrollback(*k)).is_err() {
                    rep.stat("replay_panics", 1);
                    return;
                }
                let text2 = p.screen().verif_dump();
                let d2 = parse_dump(&text2);
                rep.eval();
                let g2 = if alt { &d2.alt } else { &d2.main };
                let want = (*k).min(g2.s_rows.len());
                if g2.num("off") != want || p.screen().scrollback() != want {
                    rep.fail("sb_clamp", &format!("{at}: set_scrollback({k}) with {} history rows gives offset {} (scrollback() = {})", g2.s_rows.len(), g2.get("off"), p.screen().scrollback()));
                    ok = false;
                } else if strip_field(&text, "off=") != strip_field(&text2, "off=") {
                    rep.fail("sb_view_only", &format!("{at}: set_scrollback changed more than the offset: {}", first_diff(&strip_field(&text2, "off="), &strip_field(&text, "off="))));
                    ok = false;
                } else if alt && d2.main.get("off") != d.main.get("off") {
                    rep.fail("sb_view_only", &format!("{at}: set_scrollback on the alternate screen moved the primary view"));
                    ok = false;
                }
                text = text2;
                d = d2;
            }
            _ => {}
        }
        if !ok {
            return;
        }
        // views at every offset
        let s = ctx.screen().unwrap();
        rep.eval();
        match guard(|| c12_views(s, &d, &mut rng, rep, &at)) {
            Ok(true) => {}
            Ok(false) => return,
            Err(_) => {
                rep.stat("replay_panics", 1);
                return;
            }
        }
        // the offset is a view only: compare with the run without SB lines
        if let Some(t) = twin.as_ref() {
            rep.eval();
            let a = strip_field(&text, "off=");
            let b = strip_field(&t.screen().verif_dump(), "off=");
            if a != b || s_events(ctx.parser.as_ref().unwrap()) != s_events(t) {
                rep.fail("sb_view_only", &format!("{at}: state differs from the same history without set_scrollback calls: {}", first_diff(&a, &b)));
                return;
            }
        }
    }
}

fn s_events(p: &Par) -> &Vec<String> {
    &p.callbacks().events
}

// ---------------------------------------------------------------------------
// C13
// ---------------------------------------------------------------------------

fn char_width(c: char) -> Option<usize> {
    unicode_width::UnicodeWidthChar::width(c)
}

/// structural invariants of one view; `exact` = the rows x cols clause applies
fn c13_view(s: &Screen, exact: bool, what: &str) -> Vec<String> {
    let mut v = vec![];
    let (rows, cols) = s.size();
    if rows == 0 || cols == 0 {
        v.push(format!("{what}: size {rows}x{cols}"));
        return v;
    }
    if exact {
        for (r, c) in [(rows, 0), (0, cols), (rows, cols), (rows - 1, cols), (rows, cols - 1), (u16::MAX, 0), (0, u16::MAX), (u16::MAX, u16::MAX)] {
            if s.cell(r, c).is_some() {
                v.push(format!("{what}: cell({r},{c}) exists on a {rows}x{cols} screen"));
            }
        }
    }
    for r in 0..rows {
        // the width of this row as far as the public API shows it
        let mut width = 0u16;
        while width < u16::MAX && s.cell(r, width).is_some() {
            width += 1;
        }
        if exact && width != cols {
            v.push(format!("{what}: row {r} has {width} cells on a {rows}x{cols} screen"));
            if v.len() > 4 {
                return v;
            }
        }
        let mut prev_wide = false;
        for c in 0..width {
            let cell = s.cell(r, c).unwrap();
            let t = cell.contents();
            if cell.is_wide_continuation() {
                if !prev_wide {
                    v.push(format!("{what}: continuation cell ({r},{c}) not preceded by a wide cell"));
                }
                if cell.has_contents() || !t.is_empty() {
                    v.push(format!("{what}: continuation cell ({r},{c}) has contents {t:?}"));
                }
                if cell.is_wide() {
                    v.push(format!("{what}: cell ({r},{c}) is both wide and continuation"));
                }
            } else if prev_wide {
                v.push(format!("{what}: wide cell ({r},{}) not followed by a continuation cell", c - 1));
            }
            if cell.is_wide() && c + 1 >= width {
                v.push(format!("{what}: wide cell in the last column ({r},{c})"));
            }
            if cell.has_contents() == t.is_empty() {
                v.push(format!("{what}: cell ({r},{c}) has_contents()={} but contents {t:?}", cell.has_contents()));
            }
            if t.is_empty() {
                if cell.is_wide() {
                    v.push(format!("{what}: empty cell ({r},{c}) is flagged wide"));
                }
            } else {
                if t.len() > 22 {
                    v.push(format!("{what}: cell ({r},{c}) holds {} bytes", t.len()));
                }
                let mut chars = t.chars();
                let first = chars.next().unwrap();
                let w0 = match char_width(first) {
                    Some(w) => w,
                    None => {
                        if (first as u32) < 256 {
                            v.push(format!("{what}: cell ({r},{c}) starts with control character U+{:04X}", first as u32));
                        }
                        1
                    }
                };
                if w0 == 0 {
                    v.push(format!("{what}: cell ({r},{c}) starts with zero-width U+{:04X}", first as u32));
                }
                for ch in chars {
                    if char_width(ch) != Some(0) {
                        v.push(format!("{what}: cell ({r},{c}) has a second non-zero-width character U+{:04X} in {t:?}", ch as u32));
                    }
                }
                // "double-width" = occupies two columns: a cell pair cannot represent more, so the one
                // character unicode-width reports as 3 columns wide (U+17D8) counts as double-width too
                if cell.is_wide() != (w0 >= 2) {
                    v.push(format!("{what}: cell ({r},{c}) {t:?} is_wide()={} but the width of its first character is {w0}", cell.is_wide()));
                }
            }
            prev_wide = cell.is_wide();
            if v.len() > 4 {
                return v;
            }
        }
    }
    let (cr, cc) = s.cursor_position();
    if cr >= rows || cc > cols {
        v.push(format!("{what}: cursor ({cr},{cc}) outside the {rows}x{cols} screen"));
    }
    v
}

fn c13_check(s: &Screen) -> Vec<String> {
    let mut v = vec![];
    if s.scrollback() > 0 {
        let mut live = s.clone();
        live.set_scrollback(0);
        v.extend(c13_view(&live, true, "live view"));
        v.extend(c13_view(s, !mixed_width(s), "scrolled view"));
    } else {
        v.extend(c13_view(s, true, "live view"));
    }
    v
}

fn run_c13(case: &Case, _seed: u64, rep: &mut Rep) {
    let mut ctx = Ctx::default();
    for (n, line) in case.lines.iter().enumerate() {
        let Some(op) = parse_op(line) else { continue };
        if !op.is_state() || matches!(op, Op::Snap(_)) {
            continue;
        }
        let at = format!("line {}", n + 1);
        let before = ctx.screen().map(|s| (s.cursor_position(), s.size()));
        if ctx.apply(&op).is_err() {
            rep.stat("replay_panics", 1);
            return;
        }
        let Some(s) = ctx.screen() else { continue };
        rep.eval();
        match guard(|| c13_check(s)) {
            Ok(v) => {
                if !v.is_empty() {
                    for m in v.iter().take(3) {
                        rep.fail("invariant", &format!("{at}: {m}"));
                    }
                    return;
                }
            }
            Err(m) => {
                rep.fail("panic", &format!("{at}: accessor panicked: {m}"));
                return;
            }
        }
        let (rows, cols) = s.size();
        let (_, cc) = s.cursor_position();
        let _ = rows;
        if cc == cols {
            let printing = matches!(op, Op::P(_) | Op::W(_));
            let was = before.is_some_and(|((_, bc), _)| bc == cols);
            if !printing && !was {
                rep.fail("invariant", &format!("{at}: cursor column == cols after an operation that does not print"));
                return;
            }
        }
    }
}

// ---------------------------------------------------------------------------
// C14
// ---------------------------------------------------------------------------

fn row_text(s: &Screen, r: u16, start: u32, width: u32) -> String {
    // the window is over the cells the row actually has: a scrollback row kept from before a
    // width change may be wider (or narrower) than the screen; the loop stops at the first
    // missing cell
    let end = start + width;
    let mut out = String::new();
    let mut prev_wide = false;
    let mut filled = start; // first column not yet accounted for
    let mut c = start;
    while c < end {
        let Some(cell) = s.cell(r, c as u16) else { break };
        if prev_wide {
            prev_wide = false;
            c += 1;
            continue;
        }
        prev_wide = cell.is_wide();
        if cell.has_contents() {
            for _ in filled..c {
                out.push(' ');
            }
            out.push_str(cell.contents());
            filled = c + if cell.is_wide() { 2 } else { 1 };
        }
        c += 1;
    }
    out
}

fn ref_contents(s: &Screen) -> String {
    let (rows, cols) = s.size();
    let mut out = String::new();
    for r in 0..rows {
        let t = row_text(s, r, 0, u32::from(cols));
        if t.is_empty() && r > 0 && s.row_wrapped(r - 1) {
            out.push('\n');
        } else {
            out.push_str(&t);
        }
        if !s.row_wrapped(r) {
            out.push('\n');
        }
    }
    while out.ends_with('\n') {
        out.pop();
    }
    out
}

fn ref_between(s: &Screen, r1: u16, c1: u16, r2: u16, c2: u16) -> String {
    let (_, cols) = s.size();
    let cols = u32::from(cols);
    let (c1, c2) = (u32::from(c1), u32::from(c2));
    if r1 < r2 {
        let mut out = row_text(s, r1, c1, cols - c1.min(cols));
        if !s.row_wrapped(r1) {
            out.push('\n');
        }
        for r in r1 + 1..r2 {
            out.push_str(&row_text(s, r, 0, cols));
            if !s.row_wrapped(r) {
                out.push('\n');
            }
        }
        out.push_str(&row_text(s, r2, 0, c2));
        out
    } else if r1 == r2 && c1 < c2 {
        row_text(s, r1, c1, c2 - c1)
    } else {
        String::new()
    }
}

fn c14_rows(s: &Screen, start: u16, width: u16, rep: &mut Rep, at: &str) -> bool {
    let (rows, _) = s.size();
    let got: Vec<String> = s.rows(start, width).collect();
    let want: Vec<String> = (0..rows).map(|r| row_text(s, r, u32::from(start), u32::from(width))).collect();
    if got != want {
        let i = got.iter().zip(want.iter()).position(|(a, b)| a != b).unwrap_or(got.len().min(want.len()));
        rep.fail("rows", &format!("{at}: rows({start},{width}) row {i}: got {:?}, the cells give {:?}", got.get(i), want.get(i)));
        return false;
    }
    true
}

fn c14_between(s: &Screen, a: (u16, u16, u16, u16), rep: &mut Rep, at: &str) -> bool {
    let got = s.contents_between(a.0, a.1, a.2, a.3);
    let want = ref_between(s, a.0, a.1, a.2, a.3);
    if got != want {
        rep.fail("between", &format!("{at}: contents_between{a:?} = {got:?}, the cells give {want:?}"));
        return false;
    }
    true
}

fn c14_point(s: &Screen, rng: &mut Rng, rep: &mut Rep, at: &str) {
    if mixed_width(s) {
        rep.stat("mixed_width_views", 1);
    }
    rep.eval();
    let (rows, cols) = s.size();
    let r = guard(|| {
        let got = s.contents();
        let want = ref_contents(s);
        if got != want {
            rep.fail("contents", &format!("{at}: contents() = {got:?}, the cells and wrap flags give {want:?}"));
            return;
        }
        if !c14_rows(s, 0, cols, rep, at) {
            return;
        }
        for _ in 0..3 {
            let st = rng.below(u64::from(cols) + 2) as u16;
            let w = rng.below(u64::from(cols) + 3) as u16;
            if !c14_rows(s, st, w, rep, at) {
                return;
            }
        }
        for i in 0..10 {
            let r1 = rng.below(u64::from(rows)) as u16;
            let r2 = if i % 3 == 0 { r1 } else { rng.below(u64::from(rows)) as u16 };
            let c1 = rng.below(u64::from(cols) + 1) as u16;
            let c2 = rng.below(u64::from(cols) + 1) as u16;
            if !c14_between(s, (r1, c1, r2, c2), rep, at) {
                return;
            }
        }
    });
    if let Err(m) = r {
        rep.fail("panic", &format!("{at}: {m}"));
    }
}

fn run_c14(case: &Case, seed: u64, rep: &mut Rep) {
    let mut rng = case_rng(seed, &case.id);
    let mut ctx = Ctx::default();
    let mut dirty = true;
    for (n, line) in case.lines.iter().enumerate() {
        let Some(op) = parse_op(line) else { continue };
        let at = format!("line {}", n + 1);
        match &op {
            Op::Obs(f) => {
                let Some(s) = ctx.screen() else { continue };
                if !matches!(f[0].as_str(), "TEXT" | "ROWS" | "BETWEEN") {
                    continue;
                }
                if dirty {
                    c14_point(s, &mut rng, rep, &at);
                    dirty = false;
                }
                if rep.case_fails > 0 {
                    continue;
                }
                let (rows, cols) = s.size();
                let a: Vec<u16> = f[1..].iter().filter_map(|x| x.parse().ok()).collect();
                let r = guard(|| {
                    if f[0] == "ROWS" && a.len() == 2 {
                        rep.eval();
                        c14_rows(s, a[0], a[1], rep, &at);
                    } else if f[0] == "BETWEEN" && a.len() == 4 && a[0] < rows && a[2] < rows && a[1] <= cols && a[3] <= cols {
                        rep.eval();
                        c14_between(s, (a[0], a[1], a[2], a[3]), rep, &at);
                    }
                });
                if let Err(m) = r {
                    rep.fail("panic", &format!("{at}: {m}"));
                }
            }
            _ => {
                if ctx.apply(&op).is_err() {
                    rep.stat("replay_panics", 1);
                    return;
                }
                dirty = true;
            }
        }
    }
    if let Some(s) = ctx.screen() {
        if dirty {
            c14_point(s, &mut rng, rep, "end");
        }
        let m = max_scrollback(s);
        if m > 0 && rep.case_fails == 0 {
            let k = rng.below(m as u64 + 1) as usize;
            if k != s.scrollback() {
                let mut c = s.clone();
                c.set_scrollback(k);
                c14_point(&c, &mut rng, rep, &format!("end+SB {k}"));
            }
        }
    }
}

// ---------------------------------------------------------------------------
// C15
// ---------------------------------------------------------------------------

fn window_ok(s: &Screen, start: u16, width: u16) -> bool {
    let (rows, cols) = s.size();
    if start >= cols || width == 0 || u32::from(start) + u32::from(width) > u32::from(cols) {
        return false;
    }
    (0..rows).all(|r| {
        let a = s.cell(r, start).is_some_and(|c| !c.is_wide_continuation());
        let b = s.cell(r, start + width - 1).is_some_and(|c| !c.is_wide());
        a && b
    })
}

fn window_cells_differ(recv: &Screen, s: &Screen, start: u16, width: u16) -> Option<String> {
    let (rows, _) = s.size();
    for r in 0..rows {
        for c in start..start + width {
            let a = recv.cell(r, c).map(cell_str);
            let b = s.cell(r, c).map(cell_str);
            if a != b {
                return Some(format!("cell ({r},{c}) is {a:?}, want {b:?}"));
            }
        }
    }
    None
}

fn c15_full(s: &Screen, rep: &mut Rep, at: &str) {
    let (rows, cols) = s.size();
    let mask = s.scrollback() > 0;
    let r = guard(|| {
        let mut recv = fresh(rows, cols);
        let rowsf: Vec<Vec<u8>> = s.rows_formatted(0, cols).collect();
        let mut fed = vec![];
        for (i, row) in rowsf.iter().enumerate() {
            let i = i as u16;
            fed.extend(b"\x1b[m");
            if i == 0 || !s.row_wrapped(i - 1) {
                fed.extend(cup(i, 0));
            }
            fed.extend(row);
        }
        fed.extend(b"\x1b[m");
        fed.extend(s.cursor_state_formatted());
        fed.extend(s.attributes_formatted());
        fed.extend(s.input_mode_formatted());
        recv.process(&fed);
        let got = obs_minus(recv.screen(), mask, false);
        let want = obs_minus(s, mask, false);
        if got != want {
            Some(format!("{}; fed {}", first_diff(&got, &want), hexclip(&fed)))
        } else {
            None
        }
    });
    match r {
        Ok(None) => {}
        Ok(Some(d)) => rep.fail("rows_full", &format!("{at}: row-wise redraw differs: {d}")),
        Err(m) => rep.fail("panic", &format!("{at}: {m}")),
    }
}

fn c15_window(s: &Screen, prev: Option<&Screen>, start: u16, width: u16, rep: &mut Rep, at: &str) {
    let (rows, cols) = s.size();
    if !window_ok(s, start, width) || prev.is_some_and(|p| !window_ok(p, start, width)) {
        return;
    }
    rep.eval();
    let r = guard(|| {
        let mut recv = fresh(rows, cols);
        let rowsb: Vec<Vec<u8>> = match prev {
            Some(p) => {
                recv.process(&p.state_formatted());
                s.rows_diff(p, start, width).collect()
            }
            None => s.rows_formatted(start, width).collect(),
        };
        if rowsb.len() != usize::from(rows) {
            return Some(format!("{} rows returned on a screen of {rows} rows", rowsb.len()));
        }
        let mut fed = vec![];
        for (i, row) in rowsb.iter().enumerate() {
            fed.extend(b"\x1b[m");
            fed.extend(cup(i as u16, start));
            fed.extend(row);
        }
        recv.process(&fed);
        window_cells_differ(recv.screen(), s, start, width).map(|d| format!("{d}; fed {}", hexclip(&fed)))
    });
    let what = if prev.is_some() { "rows_diff" } else { "rows_formatted" };
    match r {
        Ok(None) => {}
        Ok(Some(d)) => rep.fail(what, &format!("{at}: {what}({start},{width}) drawn row by row: {d}")),
        Err(m) => rep.fail("panic", &format!("{at}: {what}({start},{width}): {m}")),
    }
}

fn random_window(s: &Screen, rng: &mut Rng) -> (u16, u16) {
    let (_, cols) = s.size();
    let start = rng.below(u64::from(cols)) as u16;
    let width = 1 + rng.below(u64::from(cols - start)) as u16;
    (start, width)
}

fn c15_point(s: &Screen, snaps: &[&Screen], rng: &mut Rng, rep: &mut Rep, at: &str) {
    if mixed_width(s) {
        rep.stat("skipped_mixed_width", 1);
        return;
    }
    rep.eval();
    let (_, cols) = s.size();
    c15_full(s, rep, at);
    c15_window(s, None, 0, cols, rep, at);
    let n = if rep.thorough { 6 } else { 3 };
    for _ in 0..n {
        let (st, w) = random_window(s, rng);
        c15_window(s, None, st, w, rep, at);
    }
    for p in snaps {
        if p.size() != s.size() || mixed_width(p) {
            continue;
        }
        c15_window(s, Some(p), 0, cols, rep, at);
        for _ in 0..n {
            let (st, w) = random_window(s, rng);
            c15_window(s, Some(p), st, w, rep, at);
        }
    }
}

fn run_c15(case: &Case, seed: u64, rep: &mut Rep) {
    let mut rng = case_rng(seed, &case.id);
    let mut ctx = Ctx::default();
    let mut dirty = true;
    for (n, line) in case.lines.iter().enumerate() {
        let Some(op) = parse_op(line) else { continue };
        let at = format!("line {}", n + 1);
        match &op {
            Op::Obs(f) => {
                let Some(s) = ctx.screen() else { continue };
                if !matches!(f[0].as_str(), "ROWSF" | "ROWSD") {
                    continue;
                }
                let snaps: Vec<&Screen> = ctx.snaps.values().collect();
                if dirty {
                    c15_point(s, &snaps, &mut rng, rep, &at);
                    dirty = false;
                }
                if mixed_width(s) {
                    continue;
                }
                let a: Vec<u32> = f[1..].iter().filter_map(|x| x.parse().ok()).collect();
                if f[0] == "ROWSF" && a.len() == 2 && a[0] < 65536 && a[1] < 65536 {
                    c15_window(s, None, a[0] as u16, a[1] as u16, rep, &at);
                } else if f[0] == "ROWSD" && a.len() == 3 && a[1] < 65536 && a[2] < 65536 {
                    if let Some(p) = ctx.snaps.get(&a[0]) {
                        if p.size() == s.size() && !mixed_width(p) {
                            c15_window(s, Some(p), a[1] as u16, a[2] as u16, rep, &at);
                        }
                    }
                }
            }
            _ => {
                if ctx.apply(&op).is_err() {
                    rep.stat("replay_panics", 1);
                    return;
                }
                dirty = true;
            }
        }
    }
    if let Some(s) = ctx.screen() {
        let snaps: Vec<&Screen> = ctx.snaps.values().collect();
        if dirty {
            c15_point(s, &snaps, &mut rng, rep, "end");
        }
        let m = max_scrollback(s);
        if m > 0 && rep.case_fails == 0 {
            let k = rng.below(m as u64 + 1) as usize;
            if k != s.scrollback() {
                let mut c = s.clone();
                c.set_scrollback(k);
                c15_point(&c, &snaps, &mut rng, rep, &format!("end+SB {k}"));
            }
        }
    }
}

// ---------------------------------------------------------------------------
// C16
// ---------------------------------------------------------------------------

fn region_ok(g: &GridD) -> bool {
    let (t, b) = g.pair("region");
    let r = u32::from(g.rows);
    (t < b && b < r) || (t == 0 && b + 1 == r)
}

fn c16_bounds(d: &DumpD, r: u16, c: u16, strict_cols: bool) -> Option<String> {
    for (name, g) in [("main", &d.main), ("alt", &d.alt)] {
        if (g.rows, g.cols) != (r, c) {
            return Some(format!("GRID {name} reports {}x{} after a resize to {r}x{c}", g.rows, g.cols));
        }
        let (pr, pc) = g.pair("pos");
        if pr >= u32::from(r) || pc > u32::from(c) || (strict_cols && pc >= u32::from(c)) {
            return Some(format!("GRID {name}: cursor {} outside {r}x{c}", g.get("pos")));
        }
        let (sr, sc) = g.pair("saved");
        if strict_cols && (sr >= u32::from(r) || sc >= u32::from(c)) {
            return Some(format!("GRID {name}: saved cursor {} outside {r}x{c}", g.get("saved")));
        }
        if !region_ok(g) {
            return Some(format!("GRID {name}: scroll region {} invalid for {r} rows", g.get("region")));
        }
        if !g.l_rows.is_empty() && g.l_rows.len() != usize::from(r) {
            return Some(format!("GRID {name}: {} rows allocated for {r} rows", g.l_rows.len()));
        }
    }
    None
}

fn c16_cells(old: &GridD, new: &GridD, name: &str) -> Option<String> {
    if new.s_rows != old.s_rows {
        return Some(format!("GRID {name}: scrollback history changed"));
    }
    let c = usize::from(new.cols);
    for (i, row) in new.l_rows.iter().enumerate() {
        let (_, cells) = dump_row_cells(row);
        if cells.len() != c {
            return Some(format!("GRID {name}: row {i} has {} cells, want {c}", cells.len()));
        }
        let oldcells: Vec<String> = old.l_rows.get(i).map(|r| dump_row_cells(r).1).unwrap_or_default();
        for (j, cell) in cells.iter().enumerate() {
            let want: String = match oldcells.get(j) {
                None => "_".into(),
                Some(o) => {
                    let parts: Vec<&str> = o.splitn(3, ':').collect();
                    if j + 1 == c && parts.len() == 3 && parts[1].contains('w') {
                        if parts[2] == "-" {
                            "_".into()
                        } else {
                            format!("::{}", parts[2])
                        }
                    } else {
                        o.clone()
                    }
                }
            };
            if *cell != want {
                return Some(format!("GRID {name}: cell ({i},{j}) is `{cell}` after the resize, want `{want}` (old row: `{}`)", old.l_rows.get(i).map_or("<none>", String::as_str)));
            }
        }
    }
    None
}

fn run_c16(case: &Case, _seed: u64, rep: &mut Rep) {
    let mut ctx = Ctx::default();
    let mut resized = false;
    for (n, line) in case.lines.iter().enumerate() {
        let Some(op) = parse_op(line) else { continue };
        let at = format!("line {}", n + 1);
        match &op {
            Op::Obs(f) => {
                if resized {
                    if let Err(m) = guard(|| exec_observer(&ctx, f)) {
                        rep.fail("panic", &format!("{at} `{line}` after a resize: {m}"));
                        return;
                    }
                }
            }
            Op::Size(r, c) => {
                let Some(s0) = ctx.screen() else { continue };
                let before = parse_dump(&s0.verif_dump());
                if let Err(m) = ctx.apply(&op) {
                    rep.fail("panic", &format!("{at} `{line}`: {m}"));
                    return;
                }
                resized = true;
                rep.eval();
                let s = ctx.screen().unwrap();
                let after = parse_dump(&s.verif_dump());
                if s.size() != (*r, *c) {
                    rep.fail("resize", &format!("{at}: size() = {:?} after set_size({r},{c})", s.size()));
                    return;
                }
                let problem = c16_bounds(&after, *r, *c, true).or_else(|| c16_cells(&before.main, &after.main, "main")).or_else(|| c16_cells(&before.alt, &after.alt, "alt"));
                if let Some(p) = problem {
                    rep.fail("resize", &format!("{at} `{line}`: {p}"));
                    return;
                }
                // the live view through the public API agrees with the primary/alternate rows
                let mut live = s.clone();
                live.set_scrollback(0);
                let g = if s.alternate_screen() { &after.alt } else { &after.main };
                let got: Vec<Vec<String>> = obs_rows(&obs(&live), *c).into_iter().map(|x| x.1).collect();
                let want: Vec<Vec<String>> = g.l_rows.iter().map(|x| dump_row_cells(x).1).collect();
                if got != want {
                    rep.fail("resize", &format!("{at}: live view after the resize does not show the grid rows"));
                    return;
                }
            }
            Op::P(_) | Op::W(_) => {
                let nev = ctx.parser.as_ref().map_or(0, |p| p.callbacks().events.len());
                let size_before = ctx.screen().map(Screen::size);
                if let Err(m) = ctx.apply(&op) {
                    if resized {
                        rep.fail("panic", &format!("{at} `{line}` after a resize: {m}"));
                    } else {
                        rep.stat("replay_panics", 1);
                    }
                    return;
                }
                let p = ctx.parser.as_ref().unwrap();
                let s = p.screen();
                if Some(s.size()) != size_before {
                    // set_size was called from the resize callback while CSI 8;r;c t was processed
                    let req: Vec<(u16, u16)> = p.callbacks().events[nev..]
                        .iter()
                        .filter_map(|e| {
                            let f: Vec<&str> = e.split(' ').collect();
                            if f.len() == 4 && f[1] == "resize" {
                                Some((f[2].parse().ok()?, f[3].parse().ok()?))
                            } else {
                                None
                            }
                        })
                        .collect();
                    resized = true;
                    rep.eval();
                    let (r, c) = s.size();
                    if !req.contains(&(r, c)) {
                        rep.fail("resize", &format!("{at}: size() = {:?} after the resize requests {req:?}", s.size()));
                        return;
                    }
                    if let Some(pr) = c16_bounds(&parse_dump(&s.verif_dump()), r, c, false) {
                        rep.fail("resize", &format!("{at} `{line}` (resize callback): {pr}"));
                        return;
                    }
                }
            }
            _ => {
                if matches!(op, Op::New(..)) {
                    resized = false;
                }
                if let Err(m) = ctx.apply(&op) {
                    if resized {
                        rep.fail("panic", &format!("{at} `{line}` after a resize: {m}"));
                    }
                    return;
                }
            }
        }
    }
    if resized {
        if let Some(s) = ctx.screen() {
            rep.eval();
            match guard(|| c13_check(s)) {
                Ok(v) => {
                    for m in v.iter().take(3) {
                        rep.fail("invariant", &format!("end (after a resize): {m}"));
                    }
                }
                Err(m) => rep.fail("panic", &format!("end (after a resize): {m}")),
            }
        }
    }
}

// ---------------------------------------------------------------------------
// C17
// ---------------------------------------------------------------------------

fn run_c17(case: &Case, seed: u64, rep: &mut Rep) {
    let mut rng = case_rng(seed, &case.id);
    let mut ctx = Ctx::default();
    for line in &case.lines {
        let Some(op) = parse_op(line) else { continue };
        if !op.is_state() {
            continue;
        }
        if ctx.apply(&op).is_err() {
            rep.stat("replay_panics", 1);
            return;
        }
    }
    let resizing = ctx.resizing;
    let Some(p) = ctx.parser.as_mut() else { return };
    let (r, c) = p.screen().size();
    let cap = parse_dump(&p.screen().verif_dump()).main.num("cap");
    let Ok(mut f) = guard(|| vt100::Parser::new_with_callbacks(r, c, cap, Recorder { events: vec![], resizing })) else { return };
    let fresh_dump = f.screen().verif_dump();
    rep.eval();
    let log0 = p.callbacks().events.clone();
    if guard(|| p.process(b"\x1bc")).is_err() {
        rep.stat("replay_panics", 1);
        return;
    }
    // the first ESC may have terminated a pending string or flushed a partial character: those events are not RIS's
    let log1 = p.callbacks().events.clone();
    if log1.len() < log0.len() || log1[..log0.len()] != log0[..] {
        rep.fail("ris_callbacks", "ESC c modified earlier entries of the callback log");
        return;
    }
    let d1 = p.screen().verif_dump();
    if d1 != fresh_dump {
        rep.fail("ris_state", &format!("state after ESC c differs from a new {r}x{c} parser with capacity {cap}: {}", first_diff(&d1, &fresh_dump)));
        return;
    }
    if guard(|| p.process(b"\x1bc")).is_err() {
        rep.fail("panic", "second ESC c panicked");
        return;
    }
    if p.callbacks().events != log1 {
        rep.fail("ris_callbacks", &format!("ESC c on a reset terminal touched the callback log: {:?}", &p.callbacks().events[log1.len().min(p.callbacks().events.len())..]));
        return;
    }
    if p.screen().verif_dump() != fresh_dump {
        rep.fail("ris_state", &format!("state after a second ESC c differs from a new parser: {}", first_diff(&p.screen().verif_dump(), &fresh_dump)));
        return;
    }
    // lock-step on a random suffix
    let rounds = if rep.thorough { 4 } else { 2 };
    for round in 0..rounds {
        let (r, c) = p.screen().size();
        let nops = 1 + rng.below(8);
        let dim = gen::Dim { rows: r.min(1000), cols: c.min(1000) };
        let Ok(suffix) = guard(|| gen::gen_stream(&mut rng, dim, nops, &gen::Feat::all())) else { return };
        let ncuts = rng.below(3);
        let chunks = gen::cut(&mut rng, &suffix, ncuts);
        let np = p.callbacks().events.len();
        let nf = f.callbacks().events.len();
        let rp = guard(|| {
            for ch in &chunks {
                p.process(ch);
            }
        });
        let rf = guard(|| {
            for ch in &chunks {
                f.process(ch);
            }
        });
        rep.eval();
        match (rp, rf) {
            (Ok(()), Ok(())) => {}
            (Err(_), Err(_)) => return,
            (a, _) => {
                rep.fail("ris_suffix", &format!("round {round}: suffix {} panics on {} only", hex(&suffix), if a.is_err() { "the reset parser" } else { "the new parser" }));
                return;
            }
        }
        let (dp, df) = (p.screen().verif_dump(), f.screen().verif_dump());
        if dp != df {
            rep.fail("ris_suffix", &format!("round {round}: after suffix {} (chunks {:?}) the reset parser differs from a new one: {}", hex(&suffix), chunks.iter().map(Vec::len).collect::<Vec<_>>(), first_diff(&dp, &df)));
            return;
        }
        if p.callbacks().events[np..] != f.callbacks().events[nf..] {
            rep.fail("ris_suffix", &format!("round {round}: suffix {} produced events {:?} on the reset parser, {:?} on a new one", hex(&suffix), &p.callbacks().events[np..], &f.callbacks().events[nf..]));
            return;
        }
        let sp = guard(|| p.screen().state_formatted());
        let sf = guard(|| f.screen().state_formatted());
        if let (Ok(a), Ok(b)) = (sp, sf) {
            if a != b {
                rep.fail("ris_suffix", &format!("round {round}: state_formatted differs after suffix {}", hex(&suffix)));
                return;
            }
        }
    }
}

// ---------------------------------------------------------------------------
// C18
// ---------------------------------------------------------------------------

fn opt_byte(b: Option<&u8>) -> String {
    b.map_or_else(|| "-".to_string(), |x| x.to_string())
}

fn groups_str(g: &[Vec<u16>]) -> String {
    let refs: Vec<&[u16]> = g.iter().map(Vec::as_slice).collect();
    vt100_verif_harness::params_str(&refs)
}

/// what the statement of C18 says about one complete token: Some(expected events) when determined
fn c18_expected(t: &Tok, size: (u16, u16)) -> Option<Vec<String>> {
    match t {
        Tok::C0(b) => Some(match b {
            7 => vec!["EV bell".to_string()],
            8..=15 => vec![],
            _ => vec![format!("EV ctl {b}")],
        }),
        Tok::Esc { inter, fin } => {
            if inter.is_empty() {
                match fin {
                    // ESC \ is the 7-bit string terminator: never an "unimplemented sequence"
                    b'7' | b'8' | b'=' | b'>' | b'M' | b'c' | b'\\' => Some(vec![]),
                    b'g' => Some(vec!["EV vbell".to_string()]),
                    _ => Some(vec![format!("EV esc - - {fin}")]),
                }
            } else {
                Some(vec![format!("EV esc {} {} {fin}", inter[0], opt_byte(inter.get(1)))])
            }
        }
        Tok::Csi { private, params, inter, fin } => {
            let g = param_groups(params)?;
            let mut ints: Vec<u8> = vec![];
            if let Some(p) = private {
                ints.push(*p);
            }
            ints.extend(inter);
            if ints.len() > 2 {
                return None;
            }
            let report = format!("EV csi {} {} {} {}", opt_byte(ints.first()), opt_byte(ints.get(1)), groups_str(&g), fin);
            let first = g[0][0];
            match (ints.first(), *fin) {
                (None, b'@' | b'A'..=b'H' | b'L' | b'M' | b'P' | b'S' | b'T' | b'X' | b'd' | b'r') => Some(vec![]),
                (None | Some(b'?'), b'J' | b'K') => {
                    if first <= 2 {
                        Some(vec![])
                    } else {
                        Some(vec![report])
                    }
                }
                (None, b'm') | (Some(b'?'), b'h' | b'l') => None, // partially implemented parameter lists: model's business
                (None, b't') => {
                    if first == 8 {
                        let val = |i: usize, d: u16| g.get(i).map_or(d, |x| x[0]);
                        Some(vec![format!("EV resize {} {}", val(1, size.0), val(2, size.1))])
                    } else {
                        Some(vec![report])
                    }
                }
                _ => Some(vec![report]),
            }
        }
        Tok::Print(c) => Some(match *c as u32 {
            0x80..=0x9f => vec![format!("EV ctl {}", *c as u32)],
            0xfffd => vec!["EV char 65533".to_string()],
            _ => vec![],
        }),
        Tok::Str(b'P') => Some(vec![]), // a DCS string and its terminator are silent
        _ => None,
    }
}

fn inert_event(e: &str, resizing: bool) -> bool {
    let f: Vec<&str> = e.split(' ').collect();
    if f.len() < 2 || f[0] != "EV" {
        return false;
    }
    match f[1] {
        "bell" | "vbell" | "ctl" | "esc" | "osc" | "title" | "icon" | "char" => true,
        "resize" => !resizing,
        "csi" => f.last().and_then(|x| x.parse::<u32>().ok()).is_some_and(|c| c != u32::from(b'm') && c != u32::from(b'h') && c != u32::from(b'l')),
        _ => false,
    }
}

fn run_c18(case: &Case, _seed: u64, rep: &mut Rep) {
    let mut ctx = Ctx::default();
    let mut tracker = Tracker::new();
    let mut prev_observer = false;
    for (n, line) in case.lines.iter().enumerate() {
        let Some(op) = parse_op(line) else { continue };
        let at = format!("line {}", n + 1);
        match &op {
            Op::Obs(f) => {
                if matches!(f[0].as_str(), "DUMP" | "LOG") {
                    prev_observer = true;
                }
            }
            Op::P(b) => {
                let is_op = prev_observer;
                prev_observer = false;
                let was_clean = tracker.clean();
                tracker.feed(b);
                let Some(p) = ctx.parser.as_ref() else { continue };
                let before = p.screen().verif_dump();
                let size = p.screen().size();
                let nev = p.callbacks().events.len();
                let pre_screen = if is_op && was_clean { Some(p.screen().clone()) } else { None };
                if ctx.apply(&op).is_err() {
                    rep.stat("replay_panics", 1);
                    return;
                }
                if !is_op || !was_clean {
                    continue;
                }
                let Some(toks) = tokenize(b) else { continue };
                if toks.is_empty() {
                    continue;
                }
                // the same sequences arriving one byte at a time are reported the same way
                if let Some(pre) = pre_screen {
                    let mut want: Option<Vec<String>> = Some(vec![]);
                    for t in &toks {
                        let e = if toks.len() > 1 && matches!(t, Tok::Csi { fin: b't', .. }) { None } else { c18_expected(t, size) };
                        match (want.as_mut(), e) {
                            (Some(w), Some(e)) => w.extend(e),
                            _ => want = None,
                        }
                    }
                    if let Some(want) = want {
                        let resizing = ctx.resizing;
                        let r = guard(|| {
                            let mut tw = vt100::Parser::new_with_callbacks(size.0, size.1, 0, Recorder { events: vec![], resizing });
                            *tw.screen_mut() = pre;
                            for x in b {
                                tw.process(&[*x]);
                            }
                            tw.callbacks().events.clone()
                        });
                        if let Ok(ev) = r {
                            rep.eval();
                            if ev != want {
                                rep.fail("events", &format!("{at}: P {} fed one byte at a time produced events {ev:?}, expected {want:?}", hex(b)));
                                continue;
                            }
                        }
                    }
                }
                let p = ctx.parser.as_ref().unwrap();
                let events: Vec<String> = p.callbacks().events[nev..].to_vec();
                let after = p.screen().verif_dump();
                rep.eval();
                if toks.len() > 1 {
                    // several complete sequences: every one reported exactly once, in stream order
                    // (a resize request in the middle would change the defaults of a later one: left alone)
                    let mut want: Option<Vec<String>> = Some(vec![]);
                    for t in &toks {
                        let e = if matches!(t, Tok::Csi { fin: b't', .. }) { None } else { c18_expected(t, size) };
                        match (want.as_mut(), e) {
                            (Some(w), Some(e)) => w.extend(e),
                            _ => want = None,
                        }
                    }
                    if let Some(want) = want {
                        if events != want {
                            rep.fail("events", &format!("{at}: P {} produced events {events:?}, expected {want:?}", hex(b)));
                        }
                    }
                    continue;
                }
                let t = &toks[0];
                // inertness
                let silent_inert = matches!(t, Tok::C0(14 | 15) | Tok::Str(b'P'));
                if silent_inert {
                    if !events.is_empty() {
                        rep.fail("events", &format!("{at}: P {} produced events {events:?}", hex(b)));
                    }
                    if before != after {
                        rep.fail("inert", &format!("{at}: P {} changed the state: {}", hex(b), first_diff(&after, &before)));
                    }
                    continue;
                }
                if !events.is_empty() && events.iter().all(|e| inert_event(e, ctx.resizing)) && before != after {
                    rep.fail("inert", &format!("{at}: P {} was reported as {events:?} but changed the state: {}", hex(b), first_diff(&after, &before)));
                    continue;
                }
                // exactness for the simple forms
                if let Some(want) = c18_expected(t, size) {
                    if events != want {
                        rep.fail("events", &format!("{at}: P {} produced events {events:?}, expected {want:?}", hex(b)));
                    }
                }
            }
            _ => {
                prev_observer = false;
                if let Op::W(b) = &op {
                    tracker.feed(b);
                }
                if matches!(op, Op::New(..)) {
                    tracker = Tracker::new();
                }
                if ctx.apply(&op).is_err() {
                    rep.stat("replay_panics", 1);
                    return;
                }
            }
        }
    }
}

// ---------------------------------------------------------------------------
// C19
// ---------------------------------------------------------------------------

fn collect_rows(it: impl Iterator<Item = Vec<u8>>) -> Vec<Vec<u8>> {
    it.collect()
}

fn c19_point(s: &Screen, snaps: &HashMap<u32, Screen>, rng: &mut Rng, rep: &mut Rep, at: &str) {
    if s.scrollback() != 0 {
        rep.stat("skipped_scrolled", 1);
        return;
    }
    if mixed_width(s) {
        rep.stat("skipped_mixed_width", 1);
        return;
    }
    let (rows, cols) = s.size();
    let res = guard(|| {
        let mut fails: Vec<String> = vec![];
        let sf = s.state_formatted();
        let cf = s.contents_formatted();
        let imf = s.input_mode_formatted();
        let mut cat = cf.clone();
        cat.extend(&imf);
        if cat != sf {
            fails.push("state_formatted != contents_formatted ++ input_mode_formatted".into());
        }
        let mut keys: Vec<&u32> = snaps.keys().collect();
        keys.sort();
        for k in keys {
            let p = &snaps[k];
            if p.size() != s.size() {
                continue;
            }
            let mut cat = s.contents_diff(p);
            cat.extend(s.input_mode_diff(p));
            if cat != s.state_diff(p) {
                fails.push(format!("state_diff(snapshot {k}) != contents_diff ++ input_mode_diff"));
            }
        }
        // a screen against itself and its clone
        let cl = s.clone();
        for (name, o) in [("itself", s), ("its clone", &cl)] {
            if !s.contents_diff(o).is_empty() {
                fails.push(format!("contents_diff against {name} = {}", hexclip(&s.contents_diff(o))));
            }
            if !s.state_diff(o).is_empty() {
                fails.push(format!("state_diff against {name} = {}", hexclip(&s.state_diff(o))));
            }
            if !s.input_mode_diff(o).is_empty() {
                fails.push(format!("input_mode_diff against {name} not empty"));
            }
            if s.rows_diff(o, 0, cols).any(|r| !r.is_empty()) {
                fails.push(format!("rows_diff against {name} not empty"));
            }
        }
        // the reproduction: same observable state, different history
        let mut rp = fresh(rows, cols);
        rp.process(&sf);
        let r = rp.screen();
        if obs_minus(r, false, false) != obs_minus(s, false, false) {
            return (fails, false);
        }
        let mut cmp = |name: &str, a: Vec<u8>, b: Vec<u8>| {
            if a != b {
                fails.push(format!("{name}: the screen gives {}, its reproduction gives {}", hexclip(&a), hexclip(&b)));
            }
        };
        cmp("contents_formatted", cf.clone(), r.contents_formatted());
        cmp("input_mode_formatted", imf.clone(), r.input_mode_formatted());
        cmp("attributes_formatted", s.attributes_formatted(), r.attributes_formatted());
        cmp("cursor_state_formatted", s.cursor_state_formatted(), r.cursor_state_formatted());
        cmp("state_formatted", sf.clone(), r.state_formatted());
        let mut wins = vec![(0u16, cols)];
        for _ in 0..2 {
            let st = rng.below(u64::from(cols) + 1) as u16;
            let w = rng.below(u64::from(cols) + 2) as u16;
            wins.push((st, w));
        }
        for (st, w) in wins {
            let a = collect_rows(s.rows_formatted(st, w));
            let b = collect_rows(r.rows_formatted(st, w));
            if a != b {
                let i = a.iter().zip(b.iter()).position(|(x, y)| x != y).unwrap_or(0);
                fails.push(format!("rows_formatted({st},{w}) row {i}: the screen gives {}, its reproduction gives {}", hexclip(a.get(i).map_or(&[][..], Vec::as_slice)), hexclip(b.get(i).map_or(&[][..], Vec::as_slice))));
            }
            for (name, x, y) in [("screen vs reproduction", s, r), ("reproduction vs screen", r, s)] {
                if let Some(i) = x.rows_diff(y, st, w).position(|row| !row.is_empty()) {
                    fails.push(format!("rows_diff({st},{w}) {name}: row {i} = {}", hexclip(&x.rows_diff(y, st, w).nth(i).unwrap_or_default())));
                }
            }
        }
        for (name, x, y) in [("screen vs reproduction", s, r), ("reproduction vs screen", r, s)] {
            if !x.contents_diff(y).is_empty() {
                fails.push(format!("contents_diff {name} = {}", hexclip(&x.contents_diff(y))));
            }
            if !x.input_mode_diff(y).is_empty() {
                fails.push(format!("input_mode_diff {name} = {}", hexclip(&x.input_mode_diff(y))));
            }
            if !x.state_diff(y).is_empty() {
                fails.push(format!("state_diff {name} = {}", hexclip(&x.state_diff(y))));
            }
        }
        (fails, true)
    });
    match res {
        Ok((fails, compared)) => {
            rep.eval();
            if !compared {
                rep.stat("skipped_reproduction_differs", 1);
            }
            for f in fails {
                rep.fail("emit", &format!("{at}: {f}"));
            }
        }
        Err(m) => rep.fail("panic", &format!("{at}: {m}")),
    }
}

fn run_c19(case: &Case, seed: u64, rep: &mut Rep) {
    let mut rng = case_rng(seed, &case.id);
    let mut ctx = Ctx::default();
    let mut dirty = true;
    for (n, line) in case.lines.iter().enumerate() {
        let Some(op) = parse_op(line) else { continue };
        match &op {
            Op::Obs(f) => {
                if f[0] == "FMT" && dirty {
                    if let Some(s) = ctx.screen() {
                        c19_point(s, &ctx.snaps, &mut rng, rep, &format!("line {}", n + 1));
                        dirty = false;
                    }
                }
            }
            _ => {
                if ctx.apply(&op).is_err() {
                    rep.stat("replay_panics", 1);
                    return;
                }
                dirty = true;
            }
        }
    }
    if dirty {
        if let Some(s) = ctx.screen() {
            c19_point(s, &ctx.snaps, &mut rng, rep, "end");
        }
    }
}


// ---------------------------------------------------------------------------
// built-in cases, run once per file in addition to the script's cases: inputs
// the random generators hardly ever produce (every palette colour, mode lists
// with unknown members, SGR corner cases, a saved cursor across a region change,
// and an exhaustive little sweep of region x cursor x operation on a 4x3 screen)
// ---------------------------------------------------------------------------

fn pline(b: &[u8]) -> String {
    format!("P {}", hex(b))
}

fn builtin_cases(prop: &str, seed: u64) -> Vec<Case> {
    let mut v = vec![];
    let mk = |id: &str, lines: Vec<String>| Case { id: format!("BUILTIN-{id}"), lines };
    let tail_obs = |lines: &mut Vec<String>, cols: u16| {
        for l in ["DUMP", "LOG", "FMT state", "FMT contents", "FMT attrs", "FMT cursor", "FMT input", "DIFF state 0", "DIFF contents 0", "DIFF input 0", "TEXT"] {
            lines.push(l.to_string());
        }
        lines.push(format!("ROWSF 0 {cols}"));
        lines.push(format!("ROWSD 0 0 {cols}"));
        lines.push(format!("ROWSF 1 {}", cols - 2));
        lines.push(format!("ROWSD 0 1 {}", cols - 2));
        lines.push(format!("ROWS 1 {}", cols - 2));
    };
    // 1. every indexed colour as foreground, then as background, then RGB and attribute mixes
    if prop != "C12" {
        let mut lines = vec!["NEW 17 16 2 0".to_string()];
        let mut b = vec![];
        for i in 0..256 {
            b.extend(format!("\x1b[38;5;{i}m{}", (b'a' + (i % 26) as u8) as char).as_bytes());
        }
        lines.push(pline(&b));
        lines.push("SNAP 0".into());
        lines.push("FMT state".into());
        let mut b = b"\x1b[H".to_vec();
        for i in 0..256 {
            b.extend(format!("\x1b[48;5;{i}m{}", if i % 3 == 0 { ' ' } else { 'x' }).as_bytes());
        }
        lines.push(pline(&b));
        tail_obs(&mut lines, 16);
        lines.push("SNAP 1".into());
        let mut b = b"\x1b[H\x1b[m".to_vec();
        for i in 0..64u32 {
            let (r, g, bl) = (i * 4 % 256, 255 - i, if i % 2 == 0 { 0 } else { 255 });
            b.extend(format!("\x1b[{};38;2;{r};{g};{bl}m\x1b[48;2;{bl};{r};{g}m", [0, 1, 2, 3, 4, 7, 22, 23][(i % 8) as usize]).as_bytes());
            b.extend(if i % 5 == 0 { "世".as_bytes() } else { b"q" });
        }
        lines.push(pline(&b));
        tail_obs(&mut lines, 16);
        lines.push("DIFF state 1".into());
        for pen in ["48;5;16", "38;5;16;48;5;8", "38;5;15;48;5;17", "0;48;5;7", "1;38;5;8", "2;3;4;7;38;5;255"] {
            lines.push(pline(format!("\x1b[{pen}m").as_bytes()));
            lines.push("FMT state".into());
            lines.push("FMT attrs".into());
            lines.push("DIFF state 1".into());
        }
        v.push(mk("colours", lines));
    }
    // 2. mode lists with unknown members, resets of inactive mouse modes
    {
        let mut lines = vec!["NEW 2 4 0 0".to_string()];
        let seqs: [&str; 14] = [
            "\x1b[?12;25l", "\x1b[?7;1;0;9;3;1005;99;2004h", "\x1b[?1:2;1000h", "\x1b[?1001;9l", "\x1b[?5;1000;4;1006l", "\x1b=", "\x1b[?1006;12;1002h",
            "\x1b[?1003;1005l", "\x1b[?;25;;1h", "\x1b[?1002;1006;2004;1l", "\x1b>", "\x1b[?65535;1003;65536;1005h", "\x1b[?25;1003l", "\x1b[?9;1000;1002;1003;1005;1006h",
        ];
        lines.push(pline(seqs[0].as_bytes()));
        lines.push("SNAP 0".into());
        for (i, q) in seqs.iter().enumerate().skip(1) {
            lines.push(pline(q.as_bytes()));
            for l in ["FMT input", "FMT state", "DIFF input 0", "DIFF state 0"] {
                lines.push(l.into());
            }
            if i == 6 {
                lines.push("SNAP 1".into());
            }
            if i > 6 {
                lines.push("DIFF input 1".into());
                lines.push("DIFF state 1".into());
            }
        }
        v.push(mk("modes", lines));
    }
    // 3. SGR corner cases
    {
        let mut lines = vec!["NEW 2 6 0 0".to_string()];
        for q in [
            "1;2;3;4;7", "22;23", "38;5;16;48;5;16", "5;1;8;3", "38;2;1;2;3;4", "48:2:1:2:3;7", "38;5;300;1", "0;38;2;255;255;255;48;5;0", "24;27;58;5;1;2", "38:5:16;48:5:15", "38;5;;4",
            "39;49;1", "90;107", "97;100;22", "38;2;1;2;256;3", "38;9;1", "4:3;1", ";", "38:2::1:2:3;3", "21;1",
        ] {
            lines.push(pline(format!("\x1b[{q}mx").as_bytes()));
            lines.push("FMT attrs".into());
        }
        lines.push("FMT state".into());
        v.push(mk("sgr", lines));
    }
    // 4. DECSC/DECRC across region, origin mode and pen changes; 1049 in all combinations
    {
        let mut lines = vec!["NEW 6 5 2 0".to_string()];
        for q in ["\x1b[2;4r", "\x1b[?6h", "\x1b[2;3H", "\x1b[31;1m", "\x1b7", "\x1b[4;6r", "\x1b[?6l", "\x1b[5;5H\x1b[m", "\x1b8", "ab", "\x1b[r\x1b[?6h", "\x1b8", "\x1b[1;2r", "\x1b8", "xy"] {
            lines.push(pline(q.as_bytes()));
        }
        lines.push("DUMP".into());
        for (a, b) in [("1049", "1049"), ("47", "1049"), ("1049", "47"), ("47", "47")] {
            lines.push(pline(b"\r\nl1\r\nl2\r\nl3\r\nl4\r\nl5\r\nl6\r\nl7"));
            lines.push("SB 1".into());
            lines.push(pline(format!("\x1b[?{a}h").as_bytes()));
            lines.push(pline(b"\x1b[2;3r\x1b[?6h"));
            lines.push(pline(b"zz\x1b7\r\n\n\n\n\n\x1b[44m\x1b[2J"));
            lines.push(pline(b"\x1b[3;3H\x1b8"));
            lines.push(pline(format!("\x1b[?{b}l").as_bytes()));
            lines.push("DUMP".into());
        }
        v.push(mk("decsc-alt", lines));
    }
    // 4b. every kind of single sequence between DUMP lines (C18: reported exactly once / inert)
    if prop != "C12" {
        let mut lines = vec!["NEW 4 6 1 0".to_string(), pline(b"ab\r\nc\xe4\xb8\x96d\x1b[2;3H")];
        let mut ops: Vec<Vec<u8>> = vec![];
        for b in 0u8..32 {
            if b != 0x1b {
                ops.push(vec![b]);
            }
        }
        for b in 0x80u8..0xa0 {
            ops.push(vec![0xc2, b]);
        }
        ops.push("\u{fffd}".as_bytes().to_vec());
        ops.push("\u{a0}".as_bytes().to_vec());
        ops.push(vec![0x7f]);
        for f in 0x30u8..0x7f {
            if !matches!(f, b'[' | b']' | b'P' | b'X' | b'^' | b'_' | b'c') {
                ops.push(vec![0x1b, f]);
            }
            if f % 4 == 0 {
                ops.push(vec![0x1b, b'(', f]);
                ops.push(vec![0x1b, b'#', b' ', f]);
            }
        }
        for f in 0x40u8..0x7f {
            for pre in ["", "?", ">", "="] {
                for par in ["", "0", "3", "1;2", "8;2;2", "65535", "1:2;;3", "2;70000"] {
                    if (f as usize + pre.len() + par.len()) % 3 == 0 || matches!(f, b'h' | b'l' | b'm') {
                        continue;
                    }
                    ops.push(format!("\x1b[{pre}{par}{}", f as char).into_bytes());
                }
            }
            ops.push(format!("\x1b[1 {}", f as char).into_bytes());
            ops.push(format!("\x1b[?1$!{}", f as char).into_bytes());
        }
        for q in ["\x1bP1$r\x1b\\", "\x1bPq#0;2;0;0;0\x1b\\", "\x1b]0;t\x07", "\x1b]1;i\x1b\\", "\x1b]2;\x07", "\x1b]52;c;x\x07", "\x1b];\x07", "\x1b_a\x1b\\", "\x1b^b\x1b\\", "\x1bXc\x1b\\"] {
            ops.push(q.as_bytes().to_vec());
        }
        for o in ops {
            lines.push("DUMP".into());
            lines.push(pline(&o));
        }
        lines.push("DUMP".into());
        lines.push("LOG".into());
        v.push(mk("tokens", lines));
    }
    // 5. exhaustive little sweep: region x cursor x operation x parameter on a 4x3 screen
    {
        let ops: [&str; 16] = ["\x1b[{}L", "\x1b[{}M", "\x1b[{}S", "\x1b[{}T", "\x1b[{}@", "\x1b[{}P", "\x1b[{}X", "\n", "\x1bM", "世", "ab", "\x1b[{}A", "\x1b[{}B", "\x1b[{}J", "\x1b[{}K", "\x1b[{};2H"];
        let params = ["", "2", "65535"];
        let all = matches!(prop, "C03" | "C13");
        let mut r = Rng::new(seed ^ 0x5eed);
        let mut idx = 0;
        for t in 1..=4u16 {
            for b in 1..=4u16 {
                for row in 1..=4u16 {
                    for pending in [false, true] {
                        for op in ops {
                            for par in params {
                                if !op.contains("{}") && !par.is_empty() {
                                    continue;
                                }
                                idx += 1;
                                if !r.chance(1, if all { 8 } else { 40 }) {
                                    continue;
                                }
                                let origin = idx % 3 == 0;
                                let setup = format!("abc\r\nd世\r\nghi\r\njk\x1b[{t};{b}r{}\x1b[{row};{}H{}", if origin { "\x1b[?6h" } else { "" }, if pending { 3 } else { 2 }, if pending { "z" } else { "" });
                                let lines = vec![
                                    format!("NEW 4 3 {} 0", idx % 3),
                                    pline(setup.as_bytes()),
                                    "SNAP 0".into(),
                                    "DUMP".into(),
                                    "LOG".into(),
                                    pline(op.replace("{}", par).as_bytes()),
                                    "DUMP".into(),
                                    "LOG".into(),
                                    "FMT state".into(),
                                    "DIFF state 0".into(),
                                    "TEXT".into(),
                                    "ROWSF 0 3".into(),
                                    "ROWSD 0 0 3".into(),
                                    "BETWEEN 0 1 3 2".into(),
                                ];
                                v.push(mk(&format!("sweep-{idx}"), lines));
                            }
                        }
                    }
                }
            }
        }
    }
    // 7. the far end of the u16 size range (the properties quantify over ALL sizes; the model's
    //    theorems stop at 65520 and its executable form is too slow there, so these are oracle-only)
    if matches!(prop, "C01" | "C05" | "C06" | "C07" | "C08" | "C13" | "C15") {
        let far: [(&str, u16, u16, &[&str]); 5] = [
            ("far1", 1, 65535, &["\x1b[65535G", "x", "y"]),
            ("far2", 2, 65535, &["\x1b[65534G", "\u{4e16}", "\u{4e16}"]),
            ("far3", 2, 65534, &["\x1b[65534G", "x", "\u{4e16}", "\x1b[1;65534H", "xy"]),
            ("far4", 65535, 1, &["\x1b[65535d", "x", "y", "\n\n"]),
            ("far5", 2, 65535, &["\x1b[2;65535H", "a", "\x1b[1K"]),
        ];
        for (id, rows, cols, ops) in far {
            let mut lines = vec![format!("NEW {rows} {cols} 0 0")];
            for o in ops {
                lines.push(pline(o.as_bytes()));
                lines.push("LOG".into());
            }
            lines.push("FMT cursor".into());
            lines.push("FMT state".into());
            lines.push("TEXT".into());
            v.push(mk(id, lines));
        }
    }
    v
}

// ---------------------------------------------------------------------------
// main
// ---------------------------------------------------------------------------

/// CPU time of the calling thread (nanoseconds on CPU, from /proc/thread-self/schedstat),
/// so that the cost clause is not disturbed by other processes on a busy machine.
struct CpuClock(u128);
impl CpuClock {
    fn read() -> u128 {
        std::fs::read_to_string("/proc/thread-self/schedstat")
            .ok()
            .and_then(|s| s.split_whitespace().next().and_then(|x| x.parse::<u128>().ok()))
            .unwrap_or_else(|| {
                // fallback: wall clock
                std::time::SystemTime::now().duration_since(std::time::UNIX_EPOCH).map_or(0, |d| d.as_nanos())
            })
    }
    fn now() -> Self {
        CpuClock(Self::read())
    }
    fn elapsed(&self) -> std::time::Duration {
        let n = Self::read().saturating_sub(self.0);
        std::time::Duration::from_nanos(u64::try_from(n).unwrap_or(u64::MAX))
    }
}

fn main() {
    let a: Vec<String> = std::env::args().collect();
    if a.len() < 3 {
        eprintln!("usage: oracle <Cxx> <scriptfile> <seed> <tier>");
        std::process::exit(2);
    }
    let prop = a[1].as_str();
    let seed: u64 = a.get(3).and_then(|s| s.parse().ok()).unwrap_or(1);
    let thorough = a.get(4).is_some_and(|t| t == "thorough");
    let runner: Option<fn(&Case, u64, &mut Rep)> = match prop {
        "C01" => Some(run_c01),
        "C02" => Some(run_c02),
        "C03" => Some(run_c03),
        "C04" => Some(run_c04),
        "C05" | "C06" | "C07" | "C08" => Some(run_replay_nopanic),
        "C09" => Some(run_c09),
        "C10" => Some(run_c10),
        "C11" => Some(run_c11),
        "C12" => Some(run_c12),
        "C13" => Some(run_c13),
        "C14" => Some(run_c14),
        "C15" => Some(run_c15),
        "C16" => Some(run_c16),
        "C17" => Some(run_c17),
        "C18" => Some(run_c18),
        "C19" => Some(run_c19),
        _ => None,
    };
    let Some(runner) = runner else {
        println!("OSTAT evaluations 0");
        return;
    };
    let text = match std::fs::read_to_string(&a[2]) {
        Ok(t) => t,
        Err(e) => {
            eprintln!("oracle: cannot read {}: {e}", a[2]);
            std::process::exit(2);
        }
    };
    std::panic::set_hook(Box::new(|info| {
        let msg = if let Some(s) = info.payload().downcast_ref::<String>() {
            s.clone()
        } else if let Some(s) = info.payload().downcast_ref::<&str>() {
            (*s).to_string()
        } else {
            "?".to_string()
        };
        let loc = info.location().map_or_else(|| "?".to_string(), |l| format!("{}:{}", l.file(), l.line()));
        LAST_PANIC.with(|p| *p.borrow_mut() = format!("panic `{msg}` at {loc}"));
    }));
    let t_start = std::time::Instant::now();
    let mut cases = parse_cases(&text);
    cases.extend(builtin_cases(prop, seed));
    let mut rep = Rep { out: vec![], stats: BTreeMap::new(), evals: 0, case_id: String::new(), case_fails: 0, case_known: 0, thorough };
    for case in &cases {
        // a change that makes single sequences cost seconds would make this loop take an hour:
        // three measured stalls per file are evidence enough, the rest of the file is skipped
        if rep.stats.get("slow_failures").copied().unwrap_or(0) >= 3 {
            rep.stat("cases_skipped_after_3_stalls", 1);
            continue;
        }
        rep.begin_case(&case.id);
        // the oracle itself must not die on a case
        let r = catch_unwind(AssertUnwindSafe(|| runner(case, seed, &mut rep)));
        if r.is_err() {
            rep.stat("oracle_internal_panics", 1);
            let m = LAST_PANIC.with(|p| p.borrow().clone());
            eprintln!("oracle: internal panic in case {}: {m}", case.id);
        }
    }
    let timing = std::env::var("ORACLE_TIMING").is_ok();
    if timing {
        eprintln!("oracle: cases done after {:?}", t_start.elapsed());
    }
    if prop == "C09" && std::env::var("VERIF_NO_SWEEP").is_err() {
        pen_sweep(seed, &mut rep);
    }
    // the file-independent sweeps run in one oracle process per check only (VERIF_NO_SWEEP is set
    // by the caller for all but the first script file), and the cost sweep runs alone, after the
    // other shards, so that it is not disturbed by them
    let no_sweep = std::env::var("VERIF_NO_SWEEP").is_ok();
    if prop == "C03" && !no_sweep {
        cost_sweep(&mut rep);
        if timing {
            eprintln!("oracle: cost sweep done after {:?}", t_start.elapsed());
        }
    }
    let stdout = std::io::stdout();
    let mut w = std::io::BufWriter::new(stdout.lock());
    for l in &rep.out {
        writeln!(w, "{l}").unwrap();
    }
    for (k, v) in &rep.stats {
        if k != "evaluations" {
            writeln!(w, "OSTAT {k} {v}").unwrap();
        }
    }
    writeln!(w, "OSTAT evaluations {}", rep.evals).unwrap();
}
