// gen <family> <seed> <count> <outfile> [first-index]
// Writes `count` cases of the family; case i uses an RNG derived from (family, seed, i).
use std::io::Write as _;
use vt100_verif_harness::{gen, Rng};

fn main() {
    let a: Vec<String> = std::env::args().collect();
    let fam = &a[1];
    let seed: u64 = a[2].parse().unwrap();
    let count: u64 = a[3].parse().unwrap();
    let first: u64 = a.get(5).map_or(0, |s| s.parse().unwrap());
    let mut w = std::io::BufWriter::new(std::fs::File::create(&a[4]).unwrap());
    if fam == "table" {
        // deterministic enumeration; indices past the end produce nothing
        for i in first..first + count {
            if let Some(c) = gen::table_case(i) {
                writeln!(w, "CASE table-{i}").unwrap();
                for l in c.lines {
                    writeln!(w, "{l}").unwrap();
                }
            }
        }
        if a.get(5).is_none() {
            eprintln!("table size {}", gen::table_size());
        }
        return;
    }
    if fam == "exh" {
        for i in first..first + count {
            if let Some(c) = gen::exh_case(i) {
                writeln!(w, "CASE exh-{i}").unwrap();
                for l in c.lines {
                    writeln!(w, "{l}").unwrap();
                }
            }
        }
        if a.get(5).is_none() {
            eprintln!("exh size {}", gen::exh_size());
        }
        return;
    }
    let f = gen::family(fam);
    let fh = fam.bytes().fold(7u64, |h, b| h.wrapping_mul(131).wrapping_add(u64::from(b)));
    for i in first..first + count {
        let mut r = Rng::new(seed.wrapping_mul(1_000_003).wrapping_add(i).wrapping_add(fh << 40));
        for _ in 0..4 {
            r.next();
        }
        let c = f(&mut r);
        writeln!(w, "CASE {fam}-{seed}-{i}").unwrap();
        for l in c.lines {
            writeln!(w, "{l}").unwrap();
        }
    }
}
