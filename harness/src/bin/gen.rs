// gen <family> <seed> <count> <outfile> [first-index]
// Writes `count` cases of the family; case i uses an RNG derived from (family, seed, i).
use std::io::Write as _;
use vt100_verif_harness::{gen, Rng};

fn main() {
    let a: Vec<String> = std::env::args().collect();
    let fam = &a[1];
    let seed: u64 = a[2].parse().unwrap();
    let count: u64 = a[3].parse().unwrap();
    let first: u64 = a.get(5).map_or(0, |s| s.parse().unwrap());
    let mut w = std::io::BufWriter::new(std::fs::File::create(&a[4]).unwrap());
    // deterministic enumerations: case index = (first + t * stride) mod size; indices are never
    // skipped silently (a stride coprime to the size visits every index)
    let stride: u64 = a.get(6).map_or(1, |s| s.parse().unwrap());
    let det: Option<(u64, fn(u64) -> Option<gen::Case>)> = match fam.as_str() {
        "table" => Some((gen::table_size(), gen::table_case)),
        "exh" => Some((gen::exh_size(), gen::exh_case)),
        "opx" => Some((gen::opx_size(), gen::opx_case)),
        _ => None,
    };
    if let Some((size, f)) = det {
        for t in 0..count {
            let i = if stride == 1 { first + t } else { (first + t.wrapping_mul(stride)) % size };
            if let Some(c) = f(i) {
                writeln!(w, "CASE {fam}-{i}").unwrap();
                for l in c.lines {
                    writeln!(w, "{l}").unwrap();
                }
            }
        }
        if a.get(5).is_none() {
            eprintln!("{fam} size {size}");
        }
        return;
    }
    let f = gen::family(fam);
    let fh = fam.bytes().fold(7u64, |h, b| h.wrapping_mul(131).wrapping_add(u64::from(b)));
    for i in first..first + count {
        let mut r = Rng::new(seed.wrapping_mul(1_000_003).wrapping_add(i).wrapping_add(fh << 40));
        for _ in 0..4 {
            r.next();
        }
        let c = f(&mut r);
        writeln!(w, "CASE {fam}-{seed}-{i}").unwrap();
        for l in c.lines {
            writeln!(w, "{l}").unwrap();
        }
    }
}
