// Shared pieces of the verification harness: hex helpers, recording callbacks,
// canonical printers for the public-API observation.
use std::fmt::Write as _;

pub mod gen;

pub fn unhex(s: &str) -> Vec<u8> {
    let b = s.as_bytes();
    let mut out = Vec::with_capacity(b.len() / 2);
    let v = |c: u8| -> u8 {
        match c {
            b'0'..=b'9' => c - b'0',
            b'a'..=b'f' => c - b'a' + 10,
            b'A'..=b'F' => c - b'A' + 10,
            _ => panic!("bad hex"),
        }
    };
    let mut i = 0;
    while i + 1 < b.len() {
        out.push(v(b[i]) * 16 + v(b[i + 1]));
        i += 2;
    }
    out
}

pub fn hex(b: &[u8]) -> String {
    let mut s = String::with_capacity(b.len() * 2);
    for x in b {
        write!(s, "{x:02x}").unwrap();
    }
    s
}

/// Callbacks that record every event in canonical text form.  With
/// `resizing` set, `resize` also calls `set_size` (when both values are in 1..=512).
#[derive(Default, Clone)]
pub struct Recorder {
    pub events: Vec<String>,
    pub resizing: bool,
}

fn opt(b: Option<u8>) -> String {
    b.map_or_else(|| "-".to_string(), |x| x.to_string())
}

pub fn params_str(params: &[&[u16]]) -> String {
    let mut s = String::new();
    for (i, p) in params.iter().enumerate() {
        if i > 0 {
            s.push(';');
        }
        for (j, x) in p.iter().enumerate() {
            if j > 0 {
                s.push(':');
            }
            write!(s, "{x}").unwrap();
        }
    }
    if s.is_empty() {
        s.push('-');
    }
    s
}

impl vt100::Callbacks for Recorder {
    fn audible_bell(&mut self, _: &mut vt100::Screen) {
        self.events.push("EV bell".into());
    }
    fn visual_bell(&mut self, _: &mut vt100::Screen) {
        self.events.push("EV vbell".into());
    }
    fn resize(&mut self, screen: &mut vt100::Screen, request: (u16, u16)) {
        self.events.push(format!("EV resize {} {}", request.0, request.1));
        if self.resizing && (1..=512).contains(&request.0) && (1..=512).contains(&request.1) {
            screen.set_size(request.0, request.1);
        }
    }
    fn set_window_icon_name(&mut self, _: &mut vt100::Screen, icon_name: &[u8]) {
        self.events.push(format!("EV icon {}", hex(icon_name)));
    }
    fn set_window_title(&mut self, _: &mut vt100::Screen, title: &[u8]) {
        self.events.push(format!("EV title {}", hex(title)));
    }
    fn unhandled_char(&mut self, _: &mut vt100::Screen, c: char) {
        self.events.push(format!("EV char {}", u32::from(c)));
    }
    fn unhandled_control(&mut self, _: &mut vt100::Screen, b: u8) {
        self.events.push(format!("EV ctl {b}"));
    }
    fn unhandled_escape(&mut self, _: &mut vt100::Screen, i1: Option<u8>, i2: Option<u8>, b: u8) {
        self.events.push(format!("EV esc {} {} {}", opt(i1), opt(i2), b));
    }
    fn unhandled_csi(
        &mut self,
        _: &mut vt100::Screen,
        i1: Option<u8>,
        i2: Option<u8>,
        params: &[&[u16]],
        c: char,
    ) {
        self.events.push(format!(
            "EV csi {} {} {} {}",
            opt(i1),
            opt(i2),
            params_str(params),
            u32::from(c)
        ));
    }
    fn unhandled_osc(&mut self, _: &mut vt100::Screen, params: &[&[u8]]) {
        let mut s = format!("EV osc {}", params.len());
        for p in params {
            s.push(' ');
            s.push('x');
            s.push_str(&hex(p));
        }
        self.events.push(s);
    }
}

pub fn color_str(c: vt100::Color) -> String {
    match c {
        vt100::Color::Default => "d".into(),
        vt100::Color::Idx(i) => format!("i{i}"),
        vt100::Color::Rgb(r, g, b) => format!("r{r}.{g}.{b}"),
    }
}

pub fn attrs_str(fg: vt100::Color, bg: vt100::Color, bold: bool, dim: bool, it: bool, ul: bool, inv: bool) -> String {
    if fg == vt100::Color::Default && bg == vt100::Color::Default && !bold && !dim && !it && !ul && !inv {
        return "-".into();
    }
    format!(
        "{},{},{},{},{},{}",
        color_str(fg),
        color_str(bg),
        u8::from(bold) + 2 * u8::from(dim),
        u8::from(it),
        u8::from(ul),
        u8::from(inv)
    )
}

pub fn cell_str(c: &vt100::Cell) -> String {
    let a = attrs_str(c.fgcolor(), c.bgcolor(), c.bold(), c.dim(), c.italic(), c.underline(), c.inverse());
    if !c.has_contents() && !c.is_wide() && !c.is_wide_continuation() && a == "-" {
        return "_".into();
    }
    let mut s = String::new();
    for (i, ch) in c.contents().chars().enumerate() {
        if i > 0 {
            s.push('.');
        }
        write!(s, "{:x}", u32::from(ch)).unwrap();
    }
    s.push(':');
    if c.is_wide() {
        s.push('w');
    }
    if c.is_wide_continuation() {
        s.push('c');
    }
    s.push(':');
    s.push_str(&a);
    s
}

pub fn mouse_mode_num(m: vt100::MouseProtocolMode) -> u8 {
    match m {
        vt100::MouseProtocolMode::None => 0,
        vt100::MouseProtocolMode::Press => 1,
        vt100::MouseProtocolMode::PressRelease => 2,
        vt100::MouseProtocolMode::ButtonMotion => 3,
        vt100::MouseProtocolMode::AnyMotion => 4,
    }
}
pub fn mouse_enc_num(m: vt100::MouseProtocolEncoding) -> u8 {
    match m {
        vt100::MouseProtocolEncoding::Default => 0,
        vt100::MouseProtocolEncoding::Utf8 => 1,
        vt100::MouseProtocolEncoding::Sgr => 2,
    }
}

/// Observation through the public accessors only (DESIGN 5.1), one block of text.
/// probe_extra: also probe cell(r,c) just outside the grid.
pub fn obs(s: &vt100::Screen) -> String {
    let mut out = String::new();
    let (rows, cols) = s.size();
    let (cr, cc) = s.cursor_position();
    writeln!(
        out,
        "OBS {} {} cur={},{} hide={} alt={} kp={} ac={} bp={} mm={} me={} sb={} pen={}",
        rows,
        cols,
        cr,
        cc,
        u8::from(s.hide_cursor()),
        u8::from(s.alternate_screen()),
        u8::from(s.application_keypad()),
        u8::from(s.application_cursor()),
        u8::from(s.bracketed_paste()),
        mouse_mode_num(s.mouse_protocol_mode()),
        mouse_enc_num(s.mouse_protocol_encoding()),
        s.scrollback(),
        attrs_str(s.fgcolor(), s.bgcolor(), s.bold(), s.dim(), s.italic(), s.underline(), s.inverse())
    )
    .unwrap();
    for r in 0..rows {
        write!(out, "OROW {} {}", r, u8::from(s.row_wrapped(r))).unwrap();
        let mut all_default = true;
        let mut line = String::new();
        for c in 0..cols {
            line.push(' ');
            match s.cell(r, c) {
                Some(cell) => {
                    let cs = cell_str(cell);
                    if cs != "_" {
                        all_default = false;
                    }
                    line.push_str(&cs);
                }
                None => {
                    all_default = false;
                    line.push_str("NONE");
                }
            }
        }
        if all_default {
            out.push_str(" *");
        } else {
            out.push_str(&line);
        }
        out.push('\n');
    }
    // cells just outside the grid must be None
    let outside = [
        s.cell(rows, 0).is_some(),
        s.cell(0, cols).is_some(),
        s.cell(rows, cols).is_some(),
        s.cell(u16::MAX, u16::MAX).is_some(),
        s.row_wrapped(rows),
    ];
    writeln!(
        out,
        "OOUT {}",
        outside.iter().map(|b| if *b { '1' } else { '0' }).collect::<String>()
    )
    .unwrap();
    out
}

pub fn panic_kind(msg: &str) -> &'static str {
    if msg.contains("overflow") {
        "overflow"
    } else if msg.contains("out of bounds")
        || msg.contains("out of range")
        || msg.contains("index")
    {
        "index"
    } else if msg.contains("unwrap()") || msg.contains("`None`") {
        "unwrap"
    } else if msg.contains("unreachable") {
        "unreachable"
    } else {
        "other"
    }
}

pub struct Rng(pub u64);
impl Rng {
    pub fn new(seed: u64) -> Self {
        Rng(seed.wrapping_mul(0x9E37_79B9_7F4A_7C15) ^ 0xD1B5_4A32_D192_ED03)
    }
    pub fn next(&mut self) -> u64 {
        let mut x = self.0;
        x ^= x << 13;
        x ^= x >> 7;
        x ^= x << 17;
        self.0 = x;
        x
    }
    pub fn below(&mut self, n: u64) -> u64 {
        if n == 0 {
            0
        } else {
            self.next() % n
        }
    }
    pub fn chance(&mut self, num: u64, den: u64) -> bool {
        self.below(den) < num
    }
    pub fn pick<'a, T>(&mut self, v: &'a [T]) -> &'a T {
        &v[self.below(v.len() as u64) as usize]
    }
}
